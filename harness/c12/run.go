package main

import (
	"context"
	"fmt"
	"net"
	"os"
	"sort"
	"strings"
	"sync/atomic"
	"time"

	"github.com/miekg/dns"
	"github.com/semihalev/sdns/config"
	"github.com/semihalev/sdns/middleware"
	"github.com/semihalev/sdns/middleware/resolver"
	"github.com/semihalev/sdns/server"
	"github.com/semihalev/sdns/zzverif/authsim"
	"github.com/semihalev/sdns/zzverif/replycontract"
	zm "github.com/semihalev/sdns/zzverif/zonemodel"
)

const markerSuffix = "c12-marker."

// StackCfg is the configuration of one resolver stack run on a topology.
type StackCfg struct {
	Label string `json:"label"`
	Mode  string `json:"mode"` // off | shadow | enforce
	// budgets; 0 = sdns default
	MaxOutbound   uint32 `json:"max_outbound,omitempty"`
	MaxInternal   uint32 `json:"max_internal,omitempty"`
	MaxCandidates uint32 `json:"max_dnskey_candidates,omitempty"`
	MaxRRsetSigs  uint32 `json:"max_rrset_signature_checks,omitempty"`
	MaxSigs       uint32 `json:"max_signature_checks,omitempty"`
	MaxDS         uint32 `json:"max_ds_digests,omitempty"`
	MaxN3         uint32 `json:"max_nsec3_hashes,omitempty"`
	V6            bool   `json:"ipv6access"`
	QMin          int    `json:"qmin"`
	// upstream exchange timeout / per-query timeout (ms)
	TimeoutMs      int `json:"timeout_ms"`
	QueryTimeoutMs int `json:"querytimeout_ms"`
	// Pool: `fallbackservers` is configured — one scripted open recursive
	// server (pool.go) the failover middleware re-sends SERVFAIL'd queries to
	Pool bool `json:"fallbackservers,omitempty"`
	// PoolDim: which budget the stack was built to cross (pool stacks)
	PoolDim string `json:"pool_dimension,omitempty"`
	// PoolPlace: how the outbound budget of enforce+pool/outbound was chosen:
	// "handover" (exactly the packets the failing primary resolution was seen
	// to spend before the pool was asked), "handover+1", "small" (a draw)
	PoolPlace string `json:"pool_outbound_placement,omitempty"`
	// Wire: client queries enter as raw packets on a transport job
	// (Server.ServeRaw: the wire-born request path of the UDP/TCP engines)
	// instead of as decoded messages (Server.ServeMsg)
	Wire bool `json:"wire_born,omitempty"`

	poolAddr string
}

func (c StackCfg) outboundBudget() uint32 {
	if c.MaxOutbound == 0 {
		return config.DefaultRecursionFirewallMaxOutboundQueries
	}
	return c.MaxOutbound
}

// QueryObs is everything observed for one client query.
type QueryObs struct {
	Client      string   `json:"client"`
	Query       string   `json:"query"`
	Replies     int      `json:"replies"`
	Rcode       string   `json:"rcode"`
	AD          bool     `json:"ad"`
	Answers     []string `json:"answers,omitempty"`
	EDE         []string `json:"ede,omitempty"`
	ElapsedMs   int64    `json:"elapsed_ms"`
	Packets     int      `json:"packets"`
	TCPPackets  int      `json:"tcp_packets"`
	SinkPackets int      `json:"sink_packets"`
	AfterReply  int      `json:"packets_after_reply"`
	// AbandonedTC: UDP queries that were answered TC=1 and never repeated
	// over TCP (same server, id and question) — the exchange was cut short
	// by the resolver's server race
	AbandonedTC int      `json:"truncated_exchanges_abandoned,omitempty"`
	Foreign     int      `json:"foreign_packets_ignored,omitempty"`
	ForeignSeen []string `json:"foreign_packets,omitempty"`
	Trees       uint64   `json:"ledgers_published"`
	Debits      int64    `json:"ledger_outbound_debits"`
	Exhausted   []string `json:"exhausted,omitempty"`
	// DNSSEC operations accounted by the ledgers published in the window
	DNSSECOps     map[string]int64 `json:"ledger_dnssec_ops,omitempty"`
	Quiesced      bool             `json:"quiesced"`
	Watchdog      bool             `json:"watchdog,omitempty"`
	ContractBreak []string         `json:"contract_breaches,omitempty"`
	Upstream      []string         `json:"upstream,omitempty"`
	// QuestionAsked: upstream packets of this window that ask the client's
	// own question (name and type); 0 with other upstream traffic = the reply
	// was composed from a cached entry for the question
	QuestionAsked int `json:"question_asked_upstream"`
	// Restart: restarts / re-entries recognised in the packet log (restart kinds)
	Restart *RestartObs `json:"restart,omitempty"`
	// PoolPackets: packets of this window received by the fallback pool (they
	// are part of Packets: the failover middleware debits them as outbound
	// attempts of the tree). PoolOwnQuestion: those that ask the client's own
	// question. Handover: packets logged before the first of these.
	PoolPackets     int      `json:"fallback_pool_packets,omitempty"`
	PoolOwnQuestion int      `json:"fallback_pool_asked_client_question,omitempty"`
	PoolAnswered    int      `json:"fallback_pool_answered_client_question,omitempty"`
	Handover        int      `json:"packets_before_fallback_pool_was_asked,omitempty"`
	PoolAsked       []string `json:"fallback_pool_questions,omitempty"`
	// WireBorn: the query entered through Server.ServeRaw and took the strict
	// (undecoded) branch
	WireBorn bool `json:"wire_born,omitempty"`

	reply     *dns.Msg
	edeCodes  []uint16
	budgetEDE bool
}

func (o *QueryObs) servfail() bool { return o.reply != nil && o.reply.Rcode == dns.RcodeServerFailure }

func (o *QueryObs) hasEDE(code uint16) bool {
	for _, c := range o.edeCodes {
		if c == code {
			return true
		}
	}
	return false
}

// outcome is the client-visible result the metamorphic relations compare:
// rcode, answer multiset (owner/type/rdata, RRSIGs by covered type), AD.
func (o *QueryObs) outcome() string {
	return fmt.Sprintf("%s ad=%v %s", o.Rcode, o.AD, strings.Join(o.Answers, " | "))
}

func answerKeys(m *dns.Msg) []string {
	var out []string
	for _, rr := range m.Answer {
		h := rr.Header()
		if sig, ok := rr.(*dns.RRSIG); ok {
			out = append(out, fmt.Sprintf("%s RRSIG(%s)", strings.ToLower(h.Name), dns.TypeToString[sig.TypeCovered]))
			continue
		}
		out = append(out, fmt.Sprintf("%s %s %s", strings.ToLower(h.Name), dns.TypeToString[h.Rrtype], zm.RdataKey(rr)))
	}
	sort.Strings(out)
	return out
}

type stackRun struct {
	run   *runner
	w     *world
	cfg   StackCfg
	rs    *authsim.RStack
	flush *net.UDPConn
	seq   int
}

var markerSeq atomic.Int64

func (run *runner) tweak(c StackCfg) func(*config.Config) {
	return func(cfg *config.Config) {
		cfg.RecursionFirewall.Mode = config.RecursionFirewallMode(c.Mode)
		cfg.RecursionFirewall.MaxOutboundQueries = c.MaxOutbound
		cfg.RecursionFirewall.MaxInternalQueries = c.MaxInternal
		cfg.RecursionFirewall.MaxDNSKEYCandidates = c.MaxCandidates
		cfg.RecursionFirewall.MaxRRsetSignatureChecks = c.MaxRRsetSigs
		cfg.RecursionFirewall.MaxSignatureChecks = c.MaxSigs
		cfg.RecursionFirewall.MaxDSDigests = c.MaxDS
		cfg.RecursionFirewall.MaxNSEC3Hashes = c.MaxN3
		cfg.RecursionFirewall.Normalize()
		cfg.IPv6Access = c.V6
		cfg.QnameMinLevel = c.QMin
		cfg.Timeout.Duration = time.Duration(c.TimeoutMs) * time.Millisecond
		cfg.QueryTimeout.Duration = time.Duration(c.QueryTimeoutMs) * time.Millisecond
		if c.Pool && c.poolAddr != "" {
			cfg.FallbackServers = []string{c.poolAddr}
			// An entry the cache learns from the pool is prefetch-due at
			// once (its lifetime is capped by the failed primary resolution)
			// and every hit on it — also a hit by an internal sub-query of a
			// later tree — queues a refresh: a request tree of its own with
			// a budget of its own, whose packets cannot be told from the
			// client's tree in the packet log. Pool stacks run without
			// prefetch, so that a window holds one request tree.
			cfg.Prefetch = 0
		}
	}
}

// startStack builds the pipeline and waits until the start-up request trees
// (root priming, then the trust-anchor refresh) are over. nil = inconclusive.
func (run *runner) startStack(w *world, c StackCfg) *stackRun {
	if c.Pool {
		c.poolAddr = w.poolServer().Addr()
	}
	taBefore := resolver.VerifC12TARefreshRuns()
	rs, err := w.u.NewResolverStack(run.tweak(c))
	if err != nil {
		run.r.Inconclusive("stack: " + err.Error())
		return nil
	}
	s := &stackRun{run: run, w: w, cfg: c, rs: rs}
	deadline := time.Now().Add(90 * time.Second)
	for resolver.VerifC12TARefreshRuns() == taBefore {
		if time.Now().After(deadline) {
			run.r.Inconclusive("start-up trust-anchor refresh did not complete within 90 s")
			rs.Close()
			return nil
		}
		time.Sleep(2 * time.Millisecond)
	}
	if !rs.Quiesce(60 * time.Second) {
		run.r.Inconclusive("stack did not quiesce after start-up")
		rs.Close()
		return nil
	}
	uc, err := net.ListenUDP("udp4", &net.UDPAddr{IP: net.IPv4(127, 0, 0, 1)})
	if err != nil {
		run.r.Inconclusive("flush socket: " + err.Error())
		rs.Close()
		return nil
	}
	s.flush = uc
	if !s.settle() {
		run.r.Inconclusive("packet log did not settle after start-up")
		s.close()
		return nil
	}
	return s
}

func (s *stackRun) close() {
	if s.flush != nil {
		_ = s.flush.Close()
	}
	s.rs.Close()
}

// settle makes sure every datagram the resolver has sent so far is in the
// packet log: a marker datagram is sent to every server (and the sink) and
// awaited in the log — a server logs datagrams in arrival order before it does
// anything else with them — and then the log must stay unchanged for a short
// while (TCP queries are logged by per-connection goroutines).
func (s *stackRun) settle() bool {
	u := s.w.u
	servers := append(u.Servers(), u.Sink())
	from := u.Log.Len()
	want := map[string]bool{}
	for _, srv := range servers {
		addr, err := net.ResolveUDPAddr("udp4", srv.Addr())
		if err != nil {
			continue
		}
		name := fmt.Sprintf("f%d.%s", markerSeq.Add(1), markerSuffix)
		m := new(dns.Msg)
		m.SetQuestion(name, dns.TypeTXT)
		b, _ := m.Pack()
		if _, err := s.flush.WriteToUDP(b, addr); err != nil {
			return false
		}
		want[name] = true
	}
	deadline := time.Now().Add(30 * time.Second)
	for len(want) > 0 {
		for _, p := range u.Log.Since(from) {
			delete(want, p.QNameL)
		}
		if len(want) == 0 {
			break
		}
		if time.Now().After(deadline) {
			return false
		}
		time.Sleep(time.Millisecond)
	}
	// stability window
	stable, last := 0, u.Log.Len()
	for stable < 3 {
		time.Sleep(5 * time.Millisecond)
		if n := u.Log.Len(); n != last {
			last, stable = n, 0
			if time.Now().After(deadline) {
				return false
			}
			continue
		}
		stable++
	}
	return true
}

// abandonedTruncations counts the UDP queries of a window that got a TC=1
// reply (scripted "tc" action or an honest size truncation) and have no TCP
// query with the same server, id and question after them.
func abandonedTruncations(ps []authsim.Packet) int {
	type key struct {
		server, name string
		id, qtype    uint16
	}
	tcp := map[key]bool{}
	for i := range ps {
		if p := &ps[i]; p.Transport == "tcp" {
			tcp[key{p.Server, p.QNameL, p.ID, p.QType}] = true
		}
	}
	n := 0
	for i := range ps {
		p := &ps[i]
		if p.Transport != "udp" || isMarker(p) {
			continue
		}
		truncated := strings.Contains(p.Outcome, "size-truncated")
		for _, part := range strings.Split(p.Action, "+") {
			if part == "tc" {
				truncated = true
			}
		}
		if truncated && !tcp[key{p.Server, p.QNameL, p.ID, p.QType}] {
			n++
		}
	}
	return n
}

func isMarker(p *authsim.Packet) bool { return strings.HasSuffix(p.QNameL, markerSuffix) }

func exhaustedDelta(before, after map[string]int64) []string {
	var out []string
	for _, reason := range middleware.VerifC12Reasons {
		if after[reason] > before[reason] {
			out = append(out, reason)
		}
	}
	return out
}

// ask issues one client query, waits for the reply, for quiescence of all
// detached work and for the packet log to settle, and returns what was
// observed. The per-query packet count is the log delta over that window.
func (s *stackRun) ask(client string, q QuerySpec) *QueryObs {
	u := s.w.u
	r := s.run.r
	s.seq++
	obs := &QueryObs{Client: client, Query: q.String()}
	mode := s.cfg.Mode
	from := u.Log.Len()
	ex0 := middleware.VerifC12Exhaustions(mode)
	tr0, db0 := middleware.VerifC12Fanout()
	var dw0 map[string]int64
	if mode != "off" {
		dw0 = middleware.VerifC12DNSSECWork(mode)
	}

	qm := q.msg(uint16(1000 + s.seq))
	qraw, _ := qm.Pack()
	t := authsim.NewRecTransport("tcp", client)
	var job *server.VerifStrictJob
	if s.cfg.Wire {
		if ta, err := net.ResolveTCPAddr("tcp4", client); err == nil {
			job = server.VerifNewStrictJob(ta)
		}
	}
	done := make(chan struct{})
	start := time.Now()
	go func() {
		defer close(done)
		defer func() {
			if p := recover(); p != nil {
				r.Violation("panic/ServeMsg", fmt.Sprintf("panic while serving %s: %v", q, p), s.caseFor(obs))
			}
		}()
		if job != nil {
			if !s.rs.Server.ServeRaw(job, append([]byte(nil), qraw...), time.Now()) {
				r.Inconclusive(fmt.Sprintf("ServeRaw declined the packed query %s", q))
			}
			return
		}
		s.rs.Server.ServeMsg(context.Background(), t, qm.Copy())
	}()
	qt := time.Duration(s.cfg.QueryTimeoutMs) * time.Millisecond
	select {
	case <-done:
	case <-time.After(qt + 120*time.Second):
		obs.Watchdog = true
		r.Inconclusive(fmt.Sprintf("watchdog: no reply to %s within querytimeout+120s (topology %d, %s)", q, s.w.spec.Index, s.cfg.Label))
		return obs
	}
	elapsed := time.Since(start)
	atReply := u.Log.Len()
	obs.ElapsedMs = elapsed.Milliseconds()

	// detached helper lookups (IPv6 enrichment sleeps 2 s and may run 30 s),
	// probes and cancelled stragglers all hold a limiter slot until they end
	obs.Quiesced = s.rs.Quiesce(qt+90*time.Second) && s.settle()
	ex1 := middleware.VerifC12Exhaustions(mode)
	tr1, db1 := middleware.VerifC12Fanout()
	obs.Trees = tr1 - tr0
	obs.Debits = int64(db1 - db0)
	obs.Exhausted = exhaustedDelta(ex0, ex1)
	if mode != "off" {
		dw1 := middleware.VerifC12DNSSECWork(mode)
		obs.DNSSECOps = map[string]int64{}
		for _, op := range middleware.VerifC12DNSSECOps {
			if d := dw1[op] - dw0[op]; d != 0 {
				obs.DNSSECOps[op] = d
			}
		}
	}

	var owned []authsim.Packet
	for _, p := range u.Log.Since(from) {
		p := p
		if isMarker(&p) {
			continue
		}
		pool := p.Server == poolServerName
		if s.w.owns(p.QNameL) && !pool {
			owned = append(owned, p)
		}
		if !s.w.owns(p.QNameL) {
			// a datagram from some other process on this machine (another
			// resolver still holding a loopback port number that now
			// belongs to one of our servers): not this resolver's work
			obs.Foreign++
			if len(obs.ForeignSeen) < 8 {
				obs.ForeignSeen = append(obs.ForeignSeen, p.String())
			}
			continue
		}
		obs.Packets++
		ownQ := p.QType == q.Type && p.QNameL == strings.ToLower(q.Name)
		if pool {
			obs.PoolPackets++
			if ownQ {
				if obs.PoolOwnQuestion == 0 {
					obs.Handover = obs.Packets - 1
				}
				obs.PoolOwnQuestion++
				if strings.Contains(p.Outcome, "answered") {
					obs.PoolAnswered++
				}
			}
			if len(obs.PoolAsked) < 40 {
				obs.PoolAsked = append(obs.PoolAsked, p.QNameL+" "+dns.TypeToString[p.QType])
			}
		} else if ownQ {
			obs.QuestionAsked++
		}
		if p.Transport == "tcp" {
			obs.TCPPackets++
		}
		if p.Sink {
			obs.SinkPackets++
		}
		if p.Seq >= atReply {
			obs.AfterReply++
		}
		if len(obs.Upstream) < 400 {
			obs.Upstream = append(obs.Upstream, p.String())
		}
	}

	obs.AbandonedTC = abandonedTruncations(u.Log.Since(from))
	if obs.Restart = s.w.restartEvidence(owned); obs.Restart != nil {
		obs.Restart.PreReply = obs.Packets - obs.AfterReply
	}

	if job != nil {
		// the job recorded the raw writes; present them like the recording
		// transport does
		obs.WireBorn = job.VerifUsedStrict()
		for _, b := range job.Writes {
			t.Raws = append(t.Raws, b)
			m := new(dns.Msg)
			if m.Unpack(b) != nil {
				m = nil
			}
			t.Msgs = append(t.Msgs, m)
		}
	}
	replies := t.Replies()
	obs.Replies = len(replies)
	if len(replies) > 0 && replies[0] != nil {
		m := replies[0]
		obs.reply = m
		obs.Rcode = dns.RcodeToString[m.Rcode]
		obs.AD = m.AuthenticatedData
		obs.Answers = answerKeys(m)
		if opt := m.IsEdns0(); opt != nil {
			for _, o := range opt.Option {
				if e, ok := o.(*dns.EDNS0_EDE); ok {
					obs.edeCodes = append(obs.edeCodes, e.InfoCode)
					obs.EDE = append(obs.EDE, fmt.Sprintf("%d:%s", e.InfoCode, e.ExtraText))
					if e.ExtraText == middleware.RecursionWorkEDEText || e.ExtraText == middleware.DNSSECWorkEDEText {
						obs.budgetEDE = true
					}
				}
			}
		}
	}
	if mode != "off" && obs.budgetEDE && len(obs.Exhausted) == 0 {
		// the ledger publishes its crossings when its last holder lets go;
		// give a straggler a moment before concluding there was none
		for i := 0; i < 400 && len(obs.Exhausted) == 0; i++ {
			time.Sleep(5 * time.Millisecond)
			obs.Exhausted = exhaustedDelta(ex0, middleware.VerifC12Exhaustions(mode))
		}
	}
	t2 := t
	if len(t2.Raws) > 0 && t2.Raws[0] != nil {
		for _, b := range replycontract.Check("tcp", qraw, t2.Raws[0], replycontract.Options{}) {
			if !b.Info {
				obs.ContractBreak = append(obs.ContractBreak, b.String())
			}
		}
	}
	if debug {
		fmt.Fprintf(os.Stderr, "  T%d %-14s %-8s %s -> %s ede=%v pkts=%d(tcp %d, after %d) debits=%d trees=%d exh=%v %dms q=%v budget=%d restart=%s pool=%d/own %d@%d\n",
			s.w.spec.Index, s.cfg.Label, client, q, obs.outcome(), obs.EDE, obs.Packets, obs.TCPPackets, obs.AfterReply, obs.Debits, obs.Trees, obs.Exhausted, obs.ElapsedMs, obs.Quiesced, s.cfg.outboundBudget(), obs.Restart.String(), obs.PoolPackets, obs.PoolOwnQuestion, obs.Handover)
		if debugPackets {
			for _, l := range obs.Upstream {
				fmt.Fprintln(os.Stderr, "       ", l)
			}
		}
	}
	return obs
}

// ReplayCase is the serialisable case attached to every violation: the
// topology is a function of (seed, index); the stack configuration and the
// observation that was judged are included for the reader.
type ReplayCase struct {
	Seed     uint64    `json:"seed"`
	Index    int       `json:"index"`
	Topology *TopoSpec `json:"topology"`
	Stack    *StackCfg `json:"stack,omitempty"`
	Obs      *QueryObs `json:"observation,omitempty"`
	Ref      *QueryObs `json:"reference_observation,omitempty"`
	Extra    any       `json:"extra,omitempty"`
}

func (s *stackRun) caseFor(obs *QueryObs) ReplayCase {
	c := s.cfg
	return ReplayCase{Seed: s.run.r.Seed, Index: s.w.spec.Index, Topology: s.w.spec, Stack: &c, Obs: obs}
}
