package main

// pool.go — the recursion firewall next to a configured fallback pool.
//
// With `fallbackservers` set, the failover middleware (cache -> failover ->
// resolver, also part of every internal sub-pipeline) re-sends a query whose
// primary resolution ended in SERVFAIL to the pool and relays the pool's
// answer. The packets it sends are upstream transport attempts of the request
// tree (it debits them on the tree's ledger), and a tree that went over a
// budget must still end in the over-budget SERVFAIL: the pool is not a way
// around the firewall.
//
// Every topology is therefore also run on stacks whose configuration names one
// scripted open recursive server as the pool (it answers everything and logs
// every packet, in the same packet log as the authorities):
//
//	off+pool, shadow+pool            firewall off / counting only
//	enforce+pool/outbound            a small outbound budget, or one placed at
//	                                 the hand-over to the pool (below)
//	enforce+pool/<dimension>         ONE non-outbound budget (internal queries or
//	                                 a DNSSEC operation) at the value under which
//	                                 the shadow+pool tree was seen to cross it,
//	                                 every other budget — the outbound one
//	                                 included — at its default; when the shadow
//	                                 tree crossed none: all budgets default
//
// All pool stacks run with ipv6access off, so there is no optional
// (best-effort) work: in enforce mode every recorded crossing is a refused
// REQUIRED debit, i.e. a rejection latched on the tree's ledger.

import (
	"fmt"
	"net"
	"sort"
	"strings"

	"github.com/miekg/dns"
	"github.com/semihalev/sdns/zzverif/authsim"
	zm "github.com/semihalev/sdns/zzverif/zonemodel"
)

const poolServerName = "fbpool"

// the pool's answer for names the namespace model cannot resolve (loops, lame
// delegations, scripted-only zones): it "happily answers" those too
var (
	poolMarkerA    = net.IPv4(198, 18, 53, 53)
	poolMarkerAAAA = net.ParseIP("2001:db8:53::53")
)

// poolServer adds (once per world) the scripted open recursive server. It is
// added after the topology was built, so address allocation, the TC-all rules
// and the root hints of the topology are what they are without it.
func (w *world) poolServer() *authsim.Server {
	if w.pool != nil {
		return w.pool
	}
	_ = w.u.Start()
	s := w.u.AddV4Only(poolServerName)
	s.SetDefault(authsim.Tamper("open-recursive", func(q, _ *dns.Msg) *dns.Msg { return w.poolAnswer(q) }))
	if w.spec.TCAll {
		// like every other server of such a topology: TC=1 over UDP, so the
		// failover exchange costs a UDP and a TCP attempt
		s.AddRule(authsim.Rule{Transport: "udp", Action: authsim.Truncate(authsim.TCPAnswer)})
	}
	w.pool = s
	return s
}

// poolAnswer is what a warm open recursive resolver with a perfect view of the
// published data would say — the model's end-to-end resolution (full alias
// chain, so nothing is left to chase) — and a fixed marker record wherever the
// model has no clean answer. Never SERVFAIL, never an alias without its target.
func (w *world) poolAnswer(q *dns.Msg) *dns.Msg {
	m := new(dns.Msg)
	m.SetReply(q)
	m.RecursionAvailable = true
	qq := q.Question[0]
	if opt := q.IsEdns0(); opt != nil {
		m.SetEdns0(1232, opt.Do())
	}
	marker := func() {
		h := dns.RR_Header{Name: qq.Name, Rrtype: qq.Qtype, Class: dns.ClassINET, Ttl: 300}
		switch qq.Qtype {
		case dns.TypeA:
			m.Answer = []dns.RR{&dns.A{Hdr: h, A: poolMarkerA}}
		case dns.TypeAAAA:
			m.Answer = []dns.RR{&dns.AAAA{Hdr: h, AAAA: poolMarkerAAAA}}
		}
	}
	if qq.Qclass != dns.ClassINET {
		return m
	}
	var res zm.Resolution
	ok := func() (ok bool) {
		defer func() {
			if recover() != nil {
				ok = false
			}
		}()
		res = w.u.NS.Resolve(qq.Name, qq.Qtype)
		return true
	}()
	if !ok || res.Loop || res.Lame || res.Rcode == dns.RcodeYXDomain {
		marker()
		return m
	}
	switch res.Final.Kind {
	case zm.Answer, zm.WildcardAnswer:
		for _, rr := range res.Answer {
			m.Answer = append(m.Answer, dns.Copy(rr))
		}
	case zm.NXDomain:
		if len(res.Answer) == 0 {
			m.Rcode = dns.RcodeNameError
		} else {
			marker() // a dangling alias: answer anyway
		}
	case zm.NoData, zm.WildcardNoData:
		if len(res.Answer) > 0 {
			m.Answer = nil
			marker()
		}
	default:
		marker()
	}
	return m
}

// budgetFieldFor maps an exhaustion reason the ledger publishes to the budget
// that governs it.
func budgetFieldFor(c *StackCfg, reason string) *uint32 {
	switch reason {
	case "internal_queries":
		return &c.MaxInternal
	case "signature_checks":
		return &c.MaxSigs
	case "ds_digests":
		return &c.MaxDS
	case "nsec3_hashes":
		return &c.MaxN3
	case "dnskey_candidates":
		return &c.MaxCandidates
	case "rrset_signature_checks":
		return &c.MaxRRsetSigs
	}
	return nil
}

func dimClass(reason string) string {
	switch reason {
	case "outbound_queries", "outbound":
		return "outbound"
	case "internal_queries":
		return "internal"
	case "default":
		return "default"
	}
	return "dnssec"
}

// crossedClasses: the classes (outbound / internal / dnssec) of the budgets a
// tree recorded as crossed.
func crossedClasses(o *QueryObs) []string {
	set := map[string]bool{}
	for _, x := range o.Exhausted {
		set[dimClass(x)] = true
	}
	var out []string
	for c := range set {
		out = append(out, c)
	}
	sort.Strings(out)
	return out
}

// poolBase is the configuration shared by the pool stacks of a topology.
func poolBase(t *TopoSpec) StackCfg {
	c := StackCfg{QMin: t.QMin, TimeoutMs: 2000, QueryTimeoutMs: 15000, Pool: true}
	// every second topology: the client queries of its pool stacks are
	// wire-born (all four stacks alike, so off/shadow stay comparable)
	c.Wire = t.Index%2 == 1
	if t.Slow {
		c.TimeoutMs = 400
		c.QueryTimeoutMs = 5000
	}
	return c
}

// poolStacks runs the pool stacks of one topology and judges them. The
// results are returned in run order so that the caller applies to them every
// verdict it applies to the other enforce stacks (crossing -> over-budget
// SERVFAIL with EDE, follow-up of a second client). false = stop (watchdog).
func (run *runner) poolStacks(w *world, noPoolOff *stackResult) ([]*stackResult, bool) {
	r := run.r
	spec := w.spec
	rng := r.RandN("pool", spec.Index)
	var out []*stackResult

	runOne := func(cfg StackCfg) *stackResult {
		res := run.runStack(w, cfg)
		if res == nil || res.watchdog() {
			return nil
		}
		run.judgeReplies(w, res, nil)
		if len(res.overrun) > 0 {
			// same confirmation as for the other stacks (oracle.go)
			r.Count("enforce_packet_overruns_rechecked", 1)
			again := run.runStack(w, cfg)
			if again == nil || again.watchdog() {
				return nil
			}
			run.judgeReplies(w, again, res)
			if len(again.overrun) == 0 {
				o := res.overrun[0]
				r.Inconclusive(fmt.Sprintf("topology %d %s: %d packets for a budget of %d were logged once and not again on a fresh stack (first run upstream log: %v)", spec.Index, cfg.Label, o.Packets, cfg.outboundBudget(), o.Upstream))
			}
		}
		out = append(out, res)
		r.Count("pool/stacks/"+cfg.Mode, 1)
		return res
	}

	off := poolBase(spec)
	off.Label, off.Mode = "off+pool", "off"
	offRes := runOne(off)
	if offRes == nil {
		return out, false
	}

	sh := poolBase(spec)
	sh.Label, sh.Mode = "shadow+pool", "shadow"
	sh.MaxOutbound = pick(rng, smallBudgets...)
	sh.MaxInternal = pick(rng, uint32(1), 1, 2, 4)
	sh.MaxSigs = pick(rng, uint32(1), 2, 4)
	sh.MaxDS = pick(rng, uint32(1), 2)
	sh.MaxN3 = pick(rng, uint32(1), 2, 4)
	sh.MaxCandidates = pick(rng, uint32(1), 2)
	sh.MaxRRsetSigs = pick(rng, uint32(1), 2)
	shRes := runOne(sh)
	if shRes == nil {
		return out, false
	}

	// -- enforce, outbound budget ------------------------------------------------
	eo := poolBase(spec)
	eo.Label, eo.Mode, eo.PoolDim = "enforce+pool/outbound", "enforce", "outbound"
	eo.MaxOutbound = pick(rng, smallBudgets...)
	place := rng.IntN(4)
	eo.PoolPlace = "small"
	if o := offRes.q1; o != nil && o.PoolOwnQuestion > 0 && o.Handover > 0 {
		// The primary resolution fails for ordinary reasons after o.Handover
		// packets and the query is handed to the pool. Place the budget at the
		// hand-over: exactly spent by the primary resolution (the pool's
		// attempt is the first one refused), or with room for exactly that one
		// attempt; sometimes below it (the primary resolution is cut short).
		switch place {
		case 0, 1:
			eo.MaxOutbound = uint32(o.Handover)
			eo.PoolPlace = "handover"
			r.Count("pool/outbound_budget_placed_exactly_at_handover", 1)
		case 2:
			eo.MaxOutbound = uint32(o.Handover + 1)
			eo.PoolPlace = "handover+1"
			r.Count("pool/outbound_budget_placed_one_above_handover", 1)
		default:
			r.Count("pool/outbound_budget_small_draw", 1)
		}
	} else {
		r.Count("pool/outbound_budget_small_draw", 1)
	}
	if runOne(eo) == nil {
		return out, false
	}

	// -- enforce, ONE non-outbound budget where the shadow tree crossed it -------
	ed := poolBase(spec)
	ed.Mode, ed.PoolDim = "enforce", "default"
	var cands []string
	if o := shRes.q1; o != nil {
		for _, x := range o.Exhausted {
			if budgetFieldFor(&sh, x) != nil {
				cands = append(cands, x)
			}
		}
	}
	if len(cands) > 0 {
		dim := cands[rng.IntN(len(cands))]
		*budgetFieldFor(&ed, dim) = *budgetFieldFor(&sh, dim)
		ed.PoolDim = dim
		r.Count("pool/non_outbound_budget_placed_from_shadow_crossing", 1)
	} else {
		r.Count("pool/no_non_outbound_crossing_in_shadow_all_budgets_default", 1)
	}
	ed.Label = "enforce+pool/" + ed.PoolDim
	if runOne(ed) == nil {
		return out, false
	}

	run.judgePool(w, noPoolOff, offRes, shRes, out)
	return out, true
}

// poolEngagement is what the metamorphic relation compares about the pool:
// which questions it was asked (set, not counts: the resolver's server races
// may repeat an attempt).
func poolEngagement(o *QueryObs) string {
	if o == nil {
		return "-"
	}
	set := map[string]bool{}
	for _, q := range o.PoolAsked {
		set[q] = true
	}
	var qs []string
	for q := range set {
		qs = append(qs, q)
	}
	sort.Strings(qs)
	return fmt.Sprintf("own-question=%v asked=[%s]", o.PoolOwnQuestion > 0, strings.Join(qs, ", "))
}

func poolDiff(a, b *stackResult) string {
	for i, p := range [][2]*QueryObs{{a.q1, b.q1}, {a.q2, b.q2}} {
		if p[0] == nil || p[1] == nil {
			continue
		}
		if x, y := poolEngagement(p[0]), poolEngagement(p[1]); x != y {
			return fmt.Sprintf("query %d: pool %s vs %s", i+1, x, y)
		}
	}
	return ""
}

func racedAny(rs ...*stackResult) bool {
	for _, x := range rs {
		if x == nil || x.q1 == nil {
			continue
		}
		if x.q1.AbandonedTC > 0 || (x.q2 != nil && x.q2.AbandonedTC > 0) {
			return true
		}
	}
	return false
}

// poolVerdict judges ONE enforce reply on a pool stack: a request tree that
// recorded a crossed non-outbound budget (internal queries, a DNSSEC
// operation) — on these stacks a refused required debit of the synchronous
// resolution — and was nevertheless answered something other than SERVFAIL
// after the pool had been asked the client's question. "" = nothing to report.
func poolVerdict(cfg StackCfg, o *QueryObs) string {
	if cfg.Mode != "enforce" || !cfg.Pool || cfg.V6 || o == nil || o.reply == nil || !o.Quiesced {
		return ""
	}
	if len(o.Exhausted) == 0 || o.servfail() || o.PoolOwnQuestion == 0 {
		return ""
	}
	for _, x := range o.Exhausted {
		if x != "outbound_queries" {
			return "enforce/over-budget-tree-answered-by-fallback-pool"
		}
	}
	// Only the outbound budget is recorded as crossed. An attempt that was
	// still in flight when the primary resolution gave up may have been
	// refused its retry after the pool had answered (a refused debit sends no
	// packet, so the packet log cannot place it in time). Nothing is lost: a
	// pool attempt made although the outbound budget was spent shows as
	// budget + 1 packets (enforce/outbound-packets-exceed-budget).
	return ""
}

func (run *runner) judgePool(w *world, noPoolOff, off, sh *stackResult, all []*stackResult) {
	r := run.r
	spec := w.spec

	// ---- shadow == off, fallback behaviour included ---------------------------
	if spec.Deterministic && racedAny(off, sh) {
		r.Count("pool/off_shadow_pairs_excluded_abandoned_truncated_exchange", 1)
	} else if spec.Deterministic {
		r.Eval(1)
		r.Count("pool/off_shadow_pairs_compared", 1)
		if len(sh.q1.Exhausted) > 0 {
			r.Count("pool/off_shadow_pairs_compared_with_shadow_crossing", 1)
		}
		if off.q1.PoolOwnQuestion > 0 {
			r.Count("pool/off_shadow_pairs_compared_with_pool_engaged", 1)
			if len(sh.q1.Exhausted) > 0 {
				r.Count("pool/off_shadow_pairs_compared_with_pool_engaged_and_shadow_crossing", 1)
			}
		}
		d := replyDiff(off, sh)
		if d == "" {
			d = poolDiff(off, sh)
		}
		if d != "" {
			r.Count("pool/off_shadow_differences_rechecked", 1)
			off2 := run.runStack(w, off.cfg)
			var sh2 *stackResult
			if off2 != nil && !off2.watchdog() {
				sh2 = run.runStack(w, sh.cfg)
			}
			same := func(a, b *stackResult) bool { return replyDiff(a, b) == "" && poolDiff(a, b) == "" }
			switch {
			case off2 == nil || sh2 == nil || off2.watchdog() || sh2.watchdog():
			case racedAny(off2, sh2):
				r.Count("pool/off_shadow_pairs_excluded_abandoned_truncated_exchange", 1)
			case same(off, off2) && same(sh, sh2) && !same(off2, sh2):
				sig := "metamorphic/shadow-reply-differs-from-off"
				if replyDiff(off2, sh2) == "" {
					sig = "metamorphic/shadow-fallback-pool-use-differs-from-off"
				}
				c := ReplayCase{Seed: r.Seed, Index: spec.Index, Topology: spec, Stack: &sh.cfg, Obs: sh.q1, Ref: off.q1,
					Extra: map[string]any{"difference": d, "off_q2": off.q2, "shadow_q2": sh.q2}}
				r.Violation(sig, fmt.Sprintf("%s with a fallback pool configured: firewall off and shadow (outbound budget %d) behave differently, reproducibly on fresh stacks — %s", spec.shape(), sh.cfg.outboundBudget(), d), c)
			default:
				r.Count("pool/off_shadow_nondeterministic_difference_discarded", 1)
			}
		}
	}

	// does the primary resolution of this topology fail for ordinary reasons
	// (observed with the firewall off and no pool)?
	ordinaryFailure := noPoolOff != nil && noPoolOff.q1 != nil && noPoolOff.q1.servfail()

	for _, res := range all {
		cfg := res.cfg
		for qi, obs := range []*QueryObs{res.q1, res.q2} {
			if obs == nil || obs.reply == nil || obs.Watchdog {
				continue
			}
			r.Count("pool/queries/"+cfg.Mode, 1)
			if cfg.Wire {
				r.Count("pool/queries_sent_as_raw_packets", 1)
				if obs.WireBorn {
					r.Count("pool/queries_wire_born", 1)
				}
			}
			r.Count("pool/packets_to_pool/"+cfg.Mode, obs.PoolPackets)
			if obs.PoolOwnQuestion > 0 {
				r.Count("pool/queries_handed_to_pool/"+cfg.Mode, 1)
				if obs.PoolAnswered > 0 && !obs.servfail() {
					r.Count("pool/queries_answered_by_pool/"+cfg.Mode, 1)
				}
			}
			if obs.PoolPackets > obs.PoolOwnQuestion {
				// an internal sub-query (alias target, name-server address) whose
				// own resolution failed was handed to the pool
				r.Count("pool/queries_with_subquery_handed_to_pool/"+cfg.Mode, 1)
			}
			if cfg.Mode != "enforce" || !obs.Quiesced {
				continue
			}
			r.Eval(1)
			r.Count("pool/enforce_replies_judged", 1)
			crossed := len(obs.Exhausted) > 0
			overBudgetReply := obs.servfail() && crossed && (obs.budgetEDE || !spec.Question.EDNS)

			switch {
			case !crossed && obs.PoolOwnQuestion > 0 && obs.PoolAnswered > 0 && !obs.servfail():
				// control: nothing crossed, the primary resolution failed, the
				// pool answered
				r.Count("pool/enforce_uncrossed_tree_answered_by_pool", 1)
				if ordinaryFailure && qi == 0 {
					r.Count("pool/control_ordinary_failure_uncrossed_tree_answered_by_pool", 1)
				}
				if obs.Packets == int(cfg.outboundBudget()) {
					// (placement handover+1: the pool's attempt took the last unit)
					r.Count("pool/enforce_uncrossed_tree_answered_by_pool_budget_fully_spent", 1)
				}
			case crossed && overBudgetReply:
				for _, cl := range crossedClasses(obs) {
					r.Count("pool/enforce_over_budget_servfail/"+cl, 1)
					if obs.PoolOwnQuestion == 0 {
						r.Count("pool/enforce_over_budget_servfail_pool_not_asked/"+cl, 1)
					}
				}
				if obs.PoolOwnQuestion == 0 {
					r.Count("pool/enforce_over_budget_servfail_pool_not_asked", 1)
					if obs.Packets < int(cfg.outboundBudget()) {
						// the outbound budget had room for the pool's attempt
						r.Count("pool/enforce_over_budget_servfail_pool_not_asked_outbound_budget_had_room", 1)
					}
					if qi == 0 && cfg.PoolPlace == "handover" && obs.Packets == int(cfg.outboundBudget()) && obs.Packets == off.q1.Handover && len(obs.Exhausted) == 1 && obs.Exhausted[0] == "outbound_queries" {
						// the failing primary resolution spent exactly the
						// budget, as many packets as with the firewall off: the
						// first refused debit is the pool's attempt
						r.Count("pool/enforce_budget_spent_by_failing_primary_pool_attempt_refused", 1)
					}
				}
			}

			if crossed && !obs.servfail() && obs.PoolOwnQuestion > 0 && poolVerdict(cfg, obs) == "" {
				r.Count("pool/enforce_outbound_only_crossing_answered_by_pool_not_judged", 1)
			}
			if sig := poolVerdict(cfg, obs); sig != "" {
				// the resolver races servers and the machine is shared: confirm
				// on a second fresh stack
				r.Count("pool/verdicts_rechecked", 1)
				again := run.runStack(w, cfg)
				if again == nil || again.watchdog() {
					return
				}
				o2 := again.q1
				if qi == 1 {
					o2 = again.q2
				}
				if poolVerdict(cfg, o2) == sig {
					cc := cfg
					c := ReplayCase{Seed: r.Seed, Index: spec.Index, Topology: spec, Stack: &cc, Obs: obs, Ref: o2}
					r.Violation(sig, fmt.Sprintf("%s under %s (outbound budget %d, built to cross %q): the request tree of query %d (%s) recorded the crossed budget(s) %v — with ipv6access off every one of them is a refused REQUIRED debit — and was answered [%s ede=%v] instead of the over-budget SERVFAIL; the fallback pool was asked the client's question (%d packet(s), after %d upstream packets of the tree) — reproduced on a second fresh stack",
						spec.shape(), cfg.Label, cfg.outboundBudget(), cfg.PoolDim, qi+1, obs.Query, obs.Exhausted, short(obs.outcome()), obs.EDE, obs.PoolOwnQuestion, obs.Handover), c)
				} else {
					r.Inconclusive(fmt.Sprintf("topology %d %s: %s seen once and not again on a fresh stack", spec.Index, cfg.Label, sig))
				}
			}
		}
	}
}
