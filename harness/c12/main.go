// C12 — bounded work per request: resolution always terminates within its
// budgets.
//
// Runtime monitor. Generated adversarial topologies (alias / DNAME / glueless
// NS cycles and chains, fan-out referrals, ever-deeper delegations, lame and
// self-referring servers, huge NS/DS/DNSKEY/RRSIG sets, same-tag key crowds,
// high-iteration NSEC3, and topologies that make the resolver restart or
// re-enter resolution inside one request tree: parent-detection restarts under
// qname-minimisation, the retry without minimisation, descents through a
// delegation cached in mid-tree, alias targets that go through these) are
// served by scripted loopback authorities (authsim);
// the REAL sdns pipeline resolves one client question at a time against them
// under recursion-firewall modes off / shadow / enforce with budgets from 1 to
// the default. The oracle is the packet log of the scripted servers: the
// per-query count is the log delta until every detached job has ended.
// Every topology is also run next to a configured `fallbackservers` pool (one
// scripted open recursive server; pool.go): an over-budget tree must not be
// rescued by the pool, the pool's packets count against the outbound budget,
// and shadow == off includes the use made of the pool.
// See DESIGN.md §4 C12 and README in this directory's FINDINGS/notes.
package main

import (
	"encoding/json"
	"fmt"
	"os"
	"strconv"
	"strings"
	"sync"
	"time"

	"github.com/semihalev/sdns/zzverif/vlib"
)

var (
	debug        = os.Getenv("C12_DEBUG") != ""
	debugPackets = os.Getenv("C12_DEBUG") == "2"
)

type runner struct {
	r *vlib.Run
}

const rule = "distinct_nontrivial = distinct (topology kind, variant, size, signedness, TC-all, qname-min level, restart parameters, firewall mode, outbound budget, fallback pool configured + budget the stack was built to cross) tuples for which at least one client query caused upstream packets at the scripted servers; evaluations = client replies judged + off/shadow pairs compared (without and with a fallback pool) + over-budget replies and follow-ups judged + enforce replies of the fallback-pool stacks judged + DNSSEC work-API cases judged + ledger-race runs judged + sibling-validation runs judged"

func main() {
	r := vlib.Start("C12", "exploration")
	r.Assume("upstream work is measured as datagrams / TCP queries received by the scripted authoritative servers (and the sink for unowned addresses); a TCP connection that is opened but never carries a query is not counted")
	r.Assume("start-up priming and the trust-anchor refresh are separate request trees; counting starts after (*Resolver).AutoTA has completed (hook VerifC12TARefreshRuns) and the stack is quiescent")
	r.Assume("cache prefetch / serve-stale refresh are separate request trees; TTLs (>= 300 s) keep them from starting during a case")
	r.Assume("key material is random per run (crypto/rand); topologies, budgets and question flags are functions of VERIF_SEED")
	r.Assume("only datagrams whose question is the root, a root name-server name or a name below the case's own TLD are counted: anything else logged at a scripted server's loopback port was sent by another process of this shared machine (counter foreign_packets_ignored)")
	r.Assume("whether a request tree crossed a budget is OBSERVED for that very query: the exhaustion counters every ledger publishes on release (hook VerifC12Exhaustions) are read before and after it; nothing is inferred from a run with other settings")
	r.Assume("a budget crossed only by optional work (DebitBestEffort: detached IPv6 enrichment) legitimately leaves the reply untouched; the over-budget reply is the one whose required work was refused — SERVFAIL carrying sdns's work-budget EDE, or for a non-EDNS client SERVFAIL of a tree that recorded a crossing")
	r.Assume("a packet overrun or an off/shadow difference is reported only if it reproduces on a second fresh stack with the same configuration (the resolver races servers; the loopback ports are shared with other processes); an overrun that does not reproduce makes the run inconclusive")
	r.Assume("restarts inside one request tree (parent-detection restart, retry without minimisation, descent through a delegation cached in mid-tree) are recognised in the packet log by behaviour only a restart explains (restart.go: the scripted authority is asked again after its referral was delivered; a longer name is asked where every attempt for the minimised one failed on the wire; a question of the client's type reaches the server only the cached delegation names); sdns has no counter for them. They are counted on stacks with ipv6access off only")
	r.Assume("restart kinds: the outbound budgets of the shadow, enforce-small and enforce-mid stacks are drawn from [packets before the first post-restart packet, packets of the whole tree - 1] as observed on the firewall-off stack of the same topology (same seed, same index); the verdicts applied are the unchanged per-query ones")
	r.Assume("fallback-pool stacks (pool.go): `fallbackservers` names one scripted open recursive server that answers every question (the namespace model's end-to-end answer, or a fixed marker record) and logs every packet in the same packet log as the authorities; packets it receives count as upstream transport attempts of the request tree (sdns's failover middleware debits them as outbound attempts), so they are part of the per-query packet count that is held against max_outbound_queries")
	r.Assume("fallback-pool stacks run with prefetch off: an entry the cache learns from the pool is prefetch-due at once, every hit on it (also by an internal sub-query of a later request tree) queues a refresh, and a refresh is a request tree of its own with a budget of its own whose packets the packet log cannot tell from the client's tree; on every second topology the client queries of the pool stacks enter as raw packets (Server.ServeRaw on a transport job: the wire-born request path)")
	r.Assume("fallback-pool stacks run with ipv6access off: there is no optional (best-effort) work, every budget crossing a tree records in enforce mode is a refused REQUIRED debit; a tree that recorded a crossed non-outbound budget (internal queries, a DNSSEC operation: only the synchronous resolution debits those) and is answered anything but SERVFAIL after the pool was asked the client's own question is reported (confirmed on a second fresh stack). A crossing of only the outbound budget is not judged this way (the refused debit may belong to a retry of an attempt that was still in flight when the pool answered); a pool attempt made although the outbound budget was spent shows as budget + 1 packets")
	r.Assume("fallback-pool stacks: the non-outbound budget of enforce+pool/<dimension> is the value under which the shadow+pool tree of the same topology recorded that dimension as crossed (all other budgets default); the outbound budget of enforce+pool/outbound is a small draw or is placed at the hand-over observed on off+pool (packets logged before the pool was first asked the client's question: exactly that many, or one more). The verdicts applied are the per-query ones")
	r.Assume("ledger race (concurrent.go): one real RecursionWorkLedger per run is debited by goroutines released together from a spin barrier through middleware.DebitRecursionWork on a context carrying the ledger (optional branches: WithBestEffortRecursionWork), as the resolver, the queryer and the detached IPv6 jobs do; 'accepted' is a nil return; whether debitors overlapped in time is measured with monotonic timestamps and required by the coverage counters")
	r.Assume("sibling validations (concurrent.go): the validations of one request tree share one context (ledger, NSEC3 hash memo pinned by dnssec.EnsureNSEC3HashMemo) and the work governor the resolver itself constructs (hook VerifC12DNSSECWork: dnssecWorkBudget with a real dnssec.CryptoLimiter); 'other request trees occupy the crypto slots' is the harness holding the limiter's tokens (TryAcquire), 'the request is cancelled' is cancelling that context; a tree is judged stuck only from stop-the-world goroutine snapshots in which every validation that has not returned is parked in a wait only another goroutine can end, with the gate free and the context, ledger, memo and gate reachable by no other goroutine — never from elapsed time")
	run := &runner{r: r}

	if raw := r.ReplayCase(); raw != nil {
		var c ReplayCase
		if err := json.Unmarshal(raw, &c); err != nil {
			r.Fatalf("replay: %v", err)
		}
		if c.Seed != 0 {
			r.Seed = c.Seed
		}
		debug = true
		if c.Topology != nil && c.Topology.Kind == "dnssec-work-api" {
			run.workAPI(c.Index, c.Index+1)
		} else if c.Topology != nil && c.Topology.Kind == "ledger-race" {
			// the case is the generated one; the schedule is not: repeat it
			for k := 0; k < 200 && r.Violations() == 0; k++ {
				run.ledgerRace(c.Index, c.Index+1)
			}
		} else if c.Topology != nil && c.Topology.Kind == "sibling-validations" {
			for k := 0; k < 50 && r.Violations() == 0; k++ {
				run.siblings(c.Index, c.Index+1)
			}
		} else if c.Topology != nil && c.Topology.Kind == "v6-burst" {
			run.v6burst(c.Index - v6BurstBase)
		} else {
			run.topology(c.Index)
		}
		r.Finish(rule)
		return
	}

	nTopo := r.N(8*len(kinds), 160*len(kinds))
	nWork := r.N(600, 20000)
	nLedger := r.N(1200, 40000)
	nSib := r.N(240, 6000)

	nBurst := r.N(3, 36)
	if b := os.Getenv("C12_V6BURST"); b != "" {
		// child: v6-burst worlds lo, lo+step, ... < hi
		var lo, hi, step int
		fmt.Sscanf(b, "%d:%d:%d", &lo, &hi, &step)
		for i := lo; i < hi; i += step {
			run.v6burst(i)
			r.Progress("v6-burst world %d done", i)
		}
		r.Finish(rule)
		return
	}
	if b := os.Getenv("C12_BATCH"); b != "" {
		// child: topologies lo, lo+step, ... < hi
		var lo, hi, step int
		fmt.Sscanf(b, "%d:%d:%d", &lo, &hi, &step)
		for i := lo; i < hi; i += step {
			run.topology(i)
			r.Progress("topology %d done", i)
		}
		r.Finish(rule)
		return
	}
	if v := os.Getenv("C12_ONLY"); v != "" {
		// developer aid: run some topologies in-process
		var lo, hi int
		if n, _ := fmt.Sscanf(v, "%d:%d", &lo, &hi); n < 2 {
			hi = lo + 1
		}
		for i := lo; i < hi; i++ {
			if k := os.Getenv("C12_KIND"); k != "" && !strings.Contains(kinds[i%len(kinds)], k) {
				continue
			}
			run.topology(i)
		}
		r.Finish(rule)
		return
	}

	// DNSSEC operation budgets at the dnssec API (in-process, no pipeline)
	run.workAPI(0, nWork)

	// concurrent debits against one real request-tree ledger, and concurrent
	// validations of one request tree (real governor, gate and hash memo) under
	// budget / saturation / cancellation faults (concurrent.go); in-process,
	// before the pipelines load the machine
	if os.Getenv("C12_SKIP_CONCURRENT") == "" {
		run.ledgerRace(0, nLedger)
		r.Progress("ledger race done")
		run.siblings(0, nSib)
		r.Progress("sibling validations done")
	}
	if os.Getenv("C12_ONLY_CONCURRENT") != "" {
		r.Finish(rule)
		return
	}

	// parent: striped batches in parallel child processes (one live pipeline
	// per process; most of a case's wall time is sdns's fixed 2 s pause before
	// detached IPv6 enrichment, not CPU)
	workers := 12
	if v, err := strconv.Atoi(os.Getenv("C12_WORKERS")); err == nil && v > 0 {
		workers = v
	}
	if !r.Quick() {
		workers = 12
	}
	var wg sync.WaitGroup
	for k := 0; k < workers; k++ {
		wg.Add(1)
		go func(k int) {
			defer wg.Done()
			res := r.Child(fmt.Sprintf("stripe-%d", k), nil, vlib.BinPath("c12", ""), nil,
				[]string{fmt.Sprintf("C12_BATCH=%d:%d:%d", k, nTopo, workers)}, 40*time.Minute)
			if !res.HasState {
				r.Inconclusive(fmt.Sprintf("stripe %d ended without state (exit %d, timed out %v, log %s)", k, res.ExitCode, res.TimedOut, res.Output))
			}
		}(k)
	}
	// detached IPv6 jobs of one tree debiting concurrently at the cap
	// (v6burst.go), next to the stripes
	burstWorkers := 3
	for k := 0; k < burstWorkers; k++ {
		wg.Add(1)
		go func(k int) {
			defer wg.Done()
			res := r.Child(fmt.Sprintf("v6burst-%d", k), nil, vlib.BinPath("c12", ""), nil,
				[]string{fmt.Sprintf("C12_V6BURST=%d:%d:%d", k, nBurst, burstWorkers)}, 40*time.Minute)
			if !res.HasState {
				r.Inconclusive(fmt.Sprintf("v6-burst child %d ended without state (exit %d, timed out %v, log %s)", k, res.ExitCode, res.TimedOut, res.Output))
			}
		}(k)
	}
	wg.Wait()

	r.Require("v6burst/worlds", int64(nBurst))
	r.Require("v6burst/off_trees_with_detached_packets_after_reply", int64(nBurst*2/3))
	r.Require("v6burst/enforce_stacks", int64(nBurst))
	r.Require("v6burst/enforce_trees_cap_reached_by_detached_jobs_after_reply", int64(max(1, nBurst/2)))
	r.Require("topologies", int64(nTopo))
	for _, k := range kinds {
		r.Require("kind/"+k, int64(nTopo/len(kinds)))
	}
	// every class of hostile data the statement names was really exercised
	// under enforce: upstream packets were caused, and a budget was crossed
	for _, c := range classes {
		r.Require("class/"+c+"/topologies", int64(nTopo/len(kinds)))
		r.Require("class/"+c+"/enforce_queries_with_upstream_packets", int64(nTopo/len(kinds))*2)
		r.Require("class/"+c+"/enforce_budget_crossed_runs", int64(max(1, nTopo/len(kinds)/4)))
	}
	r.Require("replies_judged", int64(nTopo*8))
	r.Require("terminated_in_time", int64(nTopo*8))
	r.Require("enforce_queries_counted", int64(nTopo*4))
	r.Require("enforce_queries_with_upstream_packets", int64(nTopo*3))
	r.Require("enforce_trees_ledger_outbound_count_judged", int64(nTopo*3))
	r.Require("enforce_budget_fully_spent", int64(nTopo/3))
	r.Require("enforce_budget_crossed_runs", int64(nTopo))
	r.Require("over_budget_servfails", int64(nTopo/2))
	r.Require("over_budget_servfails_with_ede", int64(nTopo/3))
	r.Require("over_budget_servfails_non_edns_client", 2)
	r.Require("followup_checks", int64(nTopo/8))
	r.Require("followup_resolved_again_upstream", int64(nTopo/8))
	r.Require("off_shadow_pairs_compared", int64(nTopo*2/3))
	r.Require("off_shadow_pairs_compared_with_shadow_crossing", int64(nTopo/3))
	r.Require("shadow_stacks_with_budget_crossing", int64(nTopo/3))
	r.Require("enforce_queries_with_tcp_fallback", 20)
	r.Require("enforce_tcp_packets", 40)
	r.Require("enforce_queries_with_detached_packets_after_reply", 3)
	r.Require("enforce_dnssec_budget_servfails", 4)
	r.Require("enforce_trees_with_signature_checks", int64(nTopo/3))
	r.Require("enforce_trees_with_ds_digests", int64(nTopo/3))
	r.Require("enforce_trees_with_nsec3_hashes", 2)
	for _, reason := range []string{"outbound_queries", "internal_queries", "signature_checks", "ds_digests", "nsec3_hashes", "dnskey_candidates", "rrset_signature_checks"} {
		r.Require("crossed_reason/"+reason, 1)
	}
	// restarts / re-entries inside one request tree were really observed
	// (packet-log evidence, restart.go), within a budget that the work after
	// them then crossed
	perKind := int64(nTopo / len(kinds))
	r.Require("restart/budgets_placed_around_restart", perKind*2)
	for _, fam := range restartFamilies {
		r.Require("restart/"+fam+"/queries", perKind*2)
		r.Require("restart/"+fam+"/off_queries", perKind/4)
		r.Require("restart/"+fam+"/shadow_queries_budget_crossed_after_restart", perKind/4)
		r.Require("restart/"+fam+"/enforce_queries", perKind/2)
		r.Require("restart/"+fam+"/enforce_queries_budget_crossed_after_restart", perKind/2)
		r.Require("restart/"+fam+"/enforce_over_budget_servfail_after_restart", perKind/2)
	}
	r.Require("restart/parent/queries_via_alias", 2)
	r.Require("restart/fallback/queries_via_alias", 2)
	// the recursion firewall next to a configured fallback pool (pool.go)
	r.Require("pool/stacks/off", int64(nTopo))
	r.Require("pool/stacks/shadow", int64(nTopo))
	r.Require("pool/stacks/enforce", int64(nTopo*2))
	r.Require("pool/enforce_replies_judged", int64(nTopo*3))
	r.Require("pool/non_outbound_budget_placed_from_shadow_crossing", int64(nTopo/2))
	r.Require("pool/enforce_over_budget_servfail_pool_not_asked", int64(nTopo))
	r.Require("pool/enforce_over_budget_servfail_pool_not_asked_outbound_budget_had_room", int64(nTopo/2))
	r.Require("pool/enforce_over_budget_servfail_pool_not_asked/outbound", int64(nTopo/3))
	r.Require("pool/enforce_over_budget_servfail_pool_not_asked/internal", int64(nTopo/12))
	r.Require("pool/enforce_over_budget_servfail_pool_not_asked/dnssec", int64(nTopo/6))
	for _, m := range []string{"off", "shadow", "enforce"} {
		r.Require("pool/queries_handed_to_pool/"+m, int64(max(3, nTopo/24)))
		r.Require("pool/queries_answered_by_pool/"+m, int64(max(3, nTopo/24)))
	}
	r.Require("pool/control_ordinary_failure_uncrossed_tree_answered_by_pool", 2)
	r.Require("pool/queries_wire_born", int64(nTopo))
	r.Require("pool/outbound_budget_placed_exactly_at_handover", 3)
	r.Require("pool/enforce_budget_spent_by_failing_primary_pool_attempt_refused", 2)
	r.Require("pool/off_shadow_pairs_compared", int64(nTopo*2/3))
	r.Require("pool/off_shadow_pairs_compared_with_shadow_crossing", int64(nTopo/3))
	r.Require("pool/off_shadow_pairs_compared_with_pool_engaged", int64(max(3, nTopo/24)))
	r.Require("pool/off_shadow_pairs_compared_with_pool_engaged_and_shadow_crossing", int64(max(3, nTopo/32)))
	// concurrency at the cap boundary and inside one request tree (concurrent.go)
	r.Require("ledger_race/cases", int64(nLedger))
	r.Require("ledger_race/runs", int64(nLedger*4))
	r.Require("ledger_race/runs/shadow", int64(nLedger/4))
	r.Require("ledger_race/runs_with_debitors_overlapping_in_time", int64(nLedger*2))
	r.Require("ledger_race/enforce_runs_cap_reached_debitors_overlapping", int64(nLedger))
	r.Require("ledger_race/enforce_runs_cap_reached_debitors_overlapping/besteffort-only", int64(nLedger/6))
	r.Require("ledger_race/enforce_runs_cap_reached_debitors_overlapping/mixed", int64(nLedger/6))
	r.Require("ledger_race/enforce_runs_cap_reached_debitors_overlapping/required-only", int64(nLedger/12))
	r.Require("ledger_race/refusals_observed", int64(nLedger))
	r.Require("sibling/cases", int64(nSib))
	r.Require("sibling/runs", int64(nSib*2))
	r.Require("sibling/runs_terminated", int64(nSib))
	r.Require("sibling/runs/race", int64(nSib))
	r.Require("sibling/runs/saturate-cancel", int64(nSib/6))
	r.Require("sibling/runs/saturate-release", int64(nSib/12))
	r.Require("sibling/runs_with_validations_parked_on_a_siblings_inflight_hash", int64(nSib/12))
	r.Require("sibling/runs_producer_refused_while_siblings_parked_on_it", int64(nSib/16))
	r.Require("sibling/runs_with_validations_parked_on_the_crypto_gate", int64(nSib/8))
	r.Require("sibling/enforce_race_runs_with_budget_refusals", int64(nSib/2))
	r.Require("sibling/enforce_runs_budget_fully_spent", int64(nSib/2))
	r.Require("sibling/runs_compared_with_unlimited_validation", int64(nSib/3))
	r.Require("workapi_cases", int64(nWork))
	r.Require("workapi_cases_with_expensive_ops", int64(nWork/2))
	r.Require("workapi_refusals_observed", int64(nWork/4))
	r.Require("workapi_aborts_checked", int64(nWork/4))
	r.Require("workapi_limited_runs_within_limits", int64(nWork/10))
	r.Require("workapi_unlimited_agreement", int64(nWork/2))
	r.Require("workapi_nsec3_above_iteration_cap_cases", int64(nWork/60))
	r.Require("workapi_nsec3_within_cap_hashed", int64(nWork/20))
	r.Finish(rule)
}
