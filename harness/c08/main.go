// C08 — a delegation never outlives the lease its parent granted (ghost
// domains, GHSA-mqfw-f48p-2vc8).
//
// Runtime monitor: generated delegation trees (depth 2–4, per-level NS/DS
// TTLs 1 s … 2 d, secure and insecure cuts) are served by scripted loopback
// authorities (authsim); the REAL sdns pipeline resolves client questions
// against them while a virtual clock (every stored instant of the answer
// cache and of the delegation cache shifted together at quiescent points) is
// stepped around the leases. At a generated instant the victim's parent
// withdraws or re-points the delegation; the old child stays alive with long
// TTLs, announces NS sets of its own and refers to itself.
//
// Oracle. Every server reports each referral it really SENT (NS/DS TTLs as
// on the wire). sdns observed a referral somewhere in the window between the
// instant it left the server and the next quiescent point; the latest end of
// any lease is therefore max over referrals of
//
//	min(window end + min(NS TTL, DS TTL), window end + 12 h, lease of the level above)
//
// — pure arithmetic on virtual time, no slack constant, no wall-clock
// deadline. Judged against it:
//   - black box: every client reply later than bound + 5 s must be the new
//     parent state or SERVFAIL (never data of the old generation), and the old
//     servers must not be asked about the zone again;
//   - white box, after every client question: every stored delegation
//     deadline (authority.Delegation.ExpiresAt, both CD partitions, also
//     while the look-up of a glue-less NS host is in flight — the provisional
//     entry) and, while the original tree is in place, every answer-cache
//     entry's cut deadline (CacheEntry.cutUntil, incl. the entries written by
//     the resolver's own sub-queries and by the background refresh).
//
// Focus scenarios (index >= focusBase, gen.go genFocus) add two dimensions to
// the same oracle: DS RRsets that hold only records no validator here can use
// (the child is insecure, the DS TTL is still a term of the lease) or usable
// and unusable ones mixed, with DS TTL != NS TTL; and a long-leased sibling
// zone whose CNAMEs point into the victim's zones (targets the old child
// answers positively, with NXDOMAIN / NODATA with and without SOA), asked
// before the change and after the bound, alias first or target first, with
// DNSSEC on (insecure victim) and off.
//
// Restart scenarios (index >= restartBase, restart.go) drive the resolver's own
// DS look-ups through a walk that starts again in mid-descent (QNAME
// minimisation on, a parent that answers DS questions for names below its cut
// itself and refers late, a referral without DNSSEC records further down that
// makes the resolver ask for the DS with CD=1, i.e. through the cold partition
// of the delegation cache) below a delegation whose lease is shorter than its
// ancestor's; clients ask that DS with CD=1 too. Same oracle.
//
// Known finding on the unchanged tree (signatures ceiling/…): the cut
// deadline that reaches the answer cache on a direct descent lacks the 12 h
// ceiling — see FINDINGS.md. Anything served past what the referral TTLs
// themselves cover has a different signature.
// See DESIGN.md §4 C08.
package main

import (
	"context"
	"encoding/json"
	"fmt"
	"math/rand/v2"
	"os"
	"runtime"
	"strconv"
	"strings"
	"sync"
	"time"

	"github.com/miekg/dns"
	"github.com/semihalev/sdns/config"
	"github.com/semihalev/sdns/middleware/resolver"
	"github.com/semihalev/sdns/zzverif/authsim"
	"github.com/semihalev/sdns/zzverif/replycontract"
	"github.com/semihalev/sdns/zzverif/vlib"
)

var debug = os.Getenv("C08_DEBUG") != ""

const (
	graceAfter = 5 * time.Second // probes are judged only this far past the bound
	client     = "127.0.0.1:40008"
)

// CaseSpec is the serialisable replay case of a violation.
type CaseSpec struct {
	Seed      uint64      `json:"seed"`
	Index     int         `json:"index"`
	Scenario  *Scenario   `json:"scenario"`
	Probe     *probe      `json:"probe,omitempty"`
	VStart    string      `json:"probe_virtual_time,omitempty"`
	Bound     string      `json:"lease_bound_virtual,omitempty"`
	Granted   string      `json:"parent_ttls_alone_end_virtual,omitempty"`
	Referrals []*referral `json:"referrals_sent_for_victim_path,omitempty"`
	Reply     string      `json:"reply,omitempty"`
	Upstream  []string    `json:"upstream,omitempty"`
	Note      string      `json:"note,omitempty"`
}

type runner struct {
	r    *vlib.Run
	id   uint16
	mu   sync.Mutex
	seen map[string]bool
}

// viol reports a violation; the (costly) replay case is only built for the
// first occurrence of a signature in this process.
func (run *runner) viol(sig, what string, mk func() CaseSpec) {
	run.mu.Lock()
	if run.seen == nil {
		run.seen = map[string]bool{}
	}
	first := !run.seen[sig]
	run.seen[sig] = true
	run.mu.Unlock()
	if !first {
		run.r.Violation(sig, what, nil)
		return
	}
	run.r.Violation(sig, what, mk())
}

const rule = "distinct_nontrivial = distinct (tree depth, victim level, withdraw|repoint, secure|insecure victim cut, smallest term of the lease formula, lease size bucket) shapes whose scenario reached judged probes after the lease bound; evaluations = client replies judged after the bound + stored delegation deadlines compared with the grant + answer-cache cut deadlines compared with the lease"

func main() {
	r := vlib.Start("C08", "exploration")
	r.Assume("virtual time = monotonic real time + sum of VerifAdvance steps; steps happen only at quiescent points (no request in flight, prefetch idle, no resolver goroutine active, no detached IPv6 enrichment job pending), so a referral sent before a quiescent point q was observed — and whatever was derived from it stored — no later than q")
	r.Assume("the observation window of a referral is narrowed to the arrival of the first DNSKEY query for the referring zone only for referrals of level >= 2 and only when the packet log of the whole window shows a single resolution tree at work (no NS-address or root-NS question); the 12 h ceiling is always taken from the end of the full window (sdns caps relative to the instant it stores)")
	r.Assume("CD=1 partition of the delegation cache (CD=1 clients, sdns's own look-ups below an insecure cut): sdns does not retain the referral's DS there, so its leases are compared with min(NS TTL, ancestors, 12 h); client probes are all CD=0, except the DS question of the restart scenarios that is asked with CD=1 as well (judged against the later of the two partitions' bounds)")
	r.Assume("circuit breaker, RTT statistics and RRSIG validity run on the real clock; all servers stay responsive and zones are signed with wide windows")
	r.Assume("the NS-address (glue) caches of the resolver carry no lifetime and are not part of the virtual clock; the re-pointed generation uses NS host names of its own")
	run := &runner{r: r}

	if raw := r.ReplayCase(); raw != nil {
		var c CaseSpec
		if err := json.Unmarshal(raw, &c); err != nil {
			r.Fatalf("replay: %v", err)
		}
		if c.Seed != 0 {
			r.Seed = c.Seed
		}
		rep := 1
		if v, err := strconv.Atoi(os.Getenv("C08_REPEAT")); err == nil && v > 0 {
			rep = v
		}
		for i := 0; i < rep && r.Violations() == 0; i++ {
			if c.Scenario != nil {
				// the recorded scenario itself, not a re-generation: the
				// case stays replayable when the generator changes
				c.Scenario.Seed, c.Scenario.Index = r.Seed, c.Index
				run.runScenario(c.Scenario)
			} else {
				run.scenario(c.Index)
			}
		}
		r.Finish(rule)
		return
	}

	n := r.N(60, 1500)
	nFocus := r.N(16, 300)
	nRestart := r.N(12, 200)
	if b := os.Getenv("C08_BATCH"); b != "" {
		var lo, hi int
		fmt.Sscanf(b, "%d:%d", &lo, &hi)
		for i := lo; i < hi; i++ {
			run.scenario(slotIndex(i, n, nFocus))
		}
		r.Finish(rule)
		return
	}
	if v := os.Getenv("C08_ONLY"); v != "" { // in-process, for development
		for _, s := range strings.Split(v, ",") {
			i, _ := strconv.Atoi(s)
			run.scenario(i)
		}
		r.Finish(rule)
		return
	}

	workers := 6
	if v, err := strconv.Atoi(os.Getenv("C08_WORKERS")); err == nil && v > 0 {
		workers = v
	}
	per := 5
	if !r.Quick() {
		per = 25
	}
	type batch struct{ lo, hi int }
	var batches []batch
	total := n + nFocus + nRestart
	for lo := 0; lo < total; lo += per {
		batches = append(batches, batch{lo, min(lo+per, total)})
	}
	sem := make(chan struct{}, workers)
	var wg sync.WaitGroup
	for _, b := range batches {
		wg.Add(1)
		sem <- struct{}{}
		go func(b batch) {
			defer wg.Done()
			defer func() { <-sem }()
			res := r.Child(fmt.Sprintf("batch-%d", b.lo), nil, vlib.BinPath("c08", ""), nil,
				[]string{fmt.Sprintf("C08_BATCH=%d:%d", b.lo, b.hi)}, 25*time.Minute)
			if !res.HasState {
				r.Inconclusive(fmt.Sprintf("batch %d:%d ended without state (exit %d, timed out %v, log %s)", b.lo, b.hi, res.ExitCode, res.TimedOut, res.Output))
			}
		}(b)
	}
	wg.Wait()

	r.Require("scenarios_judged", int64(n*2/3))
	r.Require("judged_mode/withdraw", int64(n/4))
	r.Require("judged_mode/repoint", int64(n/8))
	r.Require("judged_victim_cut/secure", int64(n/8))
	r.Require("judged_victim_cut/insecure", int64(n/8))
	r.Require("judged_depth/2", int64(n/10))
	r.Require("judged_depth/3", int64(n/10))
	r.Require("judged_depth/4", int64(n/10))
	r.Require("answer_cuts_inspected", int64(n*20))
	r.Require("mid_flight_inspections", int64(n/12))
	r.Require("referrals_with_narrowed_observation_window", int64(n/6))
	r.Require("referrals_logged", int64(n*3))
	r.Require("probes_after_bound", int64(n*8))
	r.Require("after/new-nxdomain", int64(n))
	r.Require("after/new-answer", int64(n/6))
	r.Require("after_bound_fresh_names", int64(n*2))
	r.Require("after_bound_hot_names", int64(n))
	r.Require("after_bound_deeper_zone", int64(n/2))
	r.Require("before_bound_old_served", int64(n/3))
	r.Require("before_bound_old_via_cached_delegation", int64(n/4))
	r.Require("leases_inspected", int64(n*10))
	r.Require("prefetch_refreshes_observed", 1)
	r.Require("advance_steps", int64(n*3))
	// focus scenarios: DS RRsets nobody can use / mixed ones, DS TTL != NS TTL
	nf := int64(nFocus)
	r.Require("focus_scenarios_judged", nf*3/4)
	r.Require("judged_victim_ds/unusable", nf/8)
	r.Require("judged_victim_ds/mixed", nf/8)
	r.Require("victim_referrals_with_unusable_only_ds", nf/4)
	r.Require("victim_referrals_with_unusable_only_ds_shorter_than_ns", nf/8)
	r.Require("victim_referrals_with_mixed_ds", nf/4)
	r.Require("unusable_ds_victim_served_insecure_before_change", nf/8)
	r.Require("judged_dnssec_off", nf/8)
	// cross-zone aliases, before the change (what the old child said reached
	// the client through the alias) and after the bound
	for _, shape := range aliasShapes[:5] {
		r.Require("alias_after_bound/"+shape, nf)
	}
	r.Require("alias_after_bound/deep-positive", nf/4)
	r.Require("alias_before_change/positive/old-answer", nf/2)
	r.Require("alias_before_change/deep-positive/old-answer", nf/8)
	r.Require("alias_before_change/nxdomain-soa/nxdomain-with-soa", nf/4)
	r.Require("alias_before_change/nxdomain-bare/nxdomain-bare", nf/4)
	r.Require("alias_before_change/nodata-soa/nodata-with-soa", nf/4)
	r.Require("alias_before_change/nodata-bare/nodata-bare", nf/4)
	r.Require("alias_after_bound_repoint_new_answer", nf)
	r.Require("alias_derived_from_cached_target", nf/2)
	r.Require("after_kind/alias-target", nf)
	// restart scenarios: look-ups of the resolver's own that start again in
	// mid-descent, below a delegation with a shorter lease than its ancestor's
	nr := int64(nRestart)
	r.Require("restart_scenarios_judged", nr*3/4)
	r.Require("bare_referrals_sent", nr)
	r.Require("lookups_restarted_in_own_subquery", nr)
	r.Require("lookups_restarted_in_client_tree", nr/4)
	r.Require("subquery_entries_after_restart_inspected", nr)
	r.Require("subquery_entries_after_restart_shorter_than_ancestor", nr/2)
	r.Require("after_kind/ds-cd1", nr)
	r.Require("before_change_cd1_ds_answered", nr/2)
	r.Finish(rule)
}

func (run *runner) nextID() uint16 { run.id++; return run.id }

type result struct {
	reply    *dns.Msg
	from     int
	vStart   time.Duration
	vEnd     time.Duration
	contract int
}

// ask sends one client question through the production chain and waits for
// the system to become quiescent again.
func (run *runner) ask(w *world, p probe) (result, bool) {
	q := new(dns.Msg)
	q.SetQuestion(p.Name, p.Type)
	q.Id = run.nextID()
	q.RecursionDesired = true
	q.CheckingDisabled = p.CD
	q.SetEdns0(1232, p.DO)
	qb, _ := q.Pack()
	res := result{from: w.u.Log.Len(), vStart: w.vnow()}
	t := authsim.NewRecTransport("tcp", client)
	w.rs.Server.ServeMsg(context.Background(), t, q.Copy())
	res.vEnd = w.vnow()
	if ms := t.Replies(); len(ms) > 0 {
		res.reply = ms[0]
		if len(ms) > 1 {
			run.r.Count("multiple_replies", 1)
		}
	}
	t2 := t
	if raws := t2.Raws; len(raws) > 0 && raws[0] != nil && qb != nil {
		for _, b := range replycontract.Check("tcp", qb, raws[0], replycontract.Options{}) {
			if !b.Info {
				run.r.Count("contract_breaches", 1)
				run.r.Count("contract_breach/"+b.Rule, 1)
			}
		}
	}
	run.r.Count("client_queries", 1)
	ok := run.quiesce(w)
	return res, ok
}

var busyFrames = []string{
	".processPrefetch(", ".(*Resolver).resolve(", ".(*Resolver).Resolve(", ".(*Resolver).exchange(",
	".(*Resolver).queryServer(", ".(*Resolver).lookup(", ".(*DNSHandler).ServeDNS(", ".(*Resolver).checkHosts(",
	".(*Resolver).lookupNSAddrV", ".(*Resolver).checkPriming(", ".(*Resolver).subQuery(", ".(*Resolver).groupLookup(",
}

var stackBuf = make([]byte, 1<<20)

// busyGoroutine reports a frame proving that some goroutine is inside
// resolution / prefetch work ("" = none).
func busyGoroutine() string {
	for {
		n := runtime.Stack(stackBuf, true)
		if n < len(stackBuf) {
			s := string(stackBuf[:n])
			for _, f := range busyFrames {
				if strings.Contains(s, f) {
					return f
				}
			}
			return ""
		}
		stackBuf = make([]byte, 2*len(stackBuf))
	}
}

// quiesce waits until nothing in the pipeline is running: limiter slots free
// (the detached IPv6 enrichment job only counts while it is past its sleep,
// which the goroutine scan sees), prefetch queue empty, no prefetch claim
// held, and no goroutine inside resolver / prefetch code — on two consecutive
// looks. It then stamps the referrals sent so far. false = watchdog.
func (run *runner) quiesce(w *world) bool { return run.quiesceX(w, false) }

// quiesceX with all=true also waits for the detached IPv6 enrichment jobs
// (they sleep 2 s of real time before they start resolving): required before
// every clock step and before the parent changes, so that no job can wake up
// between the look and the step and carry an observation instant across it.
func (run *runner) quiesceX(w *world, all bool) bool {
	deadline := time.Now().Add(90 * time.Second)
	stable := 0
	for {
		a, b, c, d := w.rs.Handler.VerifSlots()
		idle := a+b+c == 0 && (!all || d == 0)
		if idle {
			if ch := w.rs.Cache(); ch != nil && (ch.VerifStackPrefetchBacklog() != 0 || ch.VerifC05PrefetchBusy() != 0) {
				idle = false
			}
		}
		if idle && busyGoroutine() != "" {
			idle = false
		}
		if idle {
			stable++
			if stable >= 2 {
				w.settle()
				return true
			}
		} else {
			stable = 0
		}
		if time.Now().After(deadline) {
			run.r.Inconclusive(fmt.Sprintf("scenario %d: pipeline did not become quiescent within 90 s (busy frame %q)", w.sc.Index, busyGoroutine()))
			return false
		}
		time.Sleep(500 * time.Microsecond)
	}
}

// advance steps the virtual clock at a quiescent point.
func (run *runner) advance(w *world, d time.Duration) bool {
	if d <= 0 {
		return true
	}
	if !run.quiesceX(w, true) {
		return false
	}
	w.mu.Lock()
	w.rs.Advance(d)
	w.sk += d
	w.mu.Unlock()
	run.r.Count("advance_steps", 1)
	if debug {
		fmt.Fprintf(os.Stderr, "  S%d advance %v -> V=%v\n", w.sc.Index, d, w.vnow().Round(time.Millisecond))
	}
	return true
}

// checkLeases compares every stored delegation deadline on the path with the
// latest instant the referrals sent so far can have granted (white-box view
// of "measured from the moment the referral was observed").
func (run *runner) checkLeases(w *world) { run.checkLeasesAt(w, "") }

// checkLeasesAt is also called while a resolution is in flight (from a
// scripted server that is holding one of its queries): a referral whose
// window is still open was observed no later than now.
func (run *runner) checkLeasesAt(w *world, when string) {
	// Read the stored state FIRST and derive the bounds afterwards: when this
	// runs next to a resolution in flight, a lease stored between the two
	// steps stems from an observation that lies before the instant the bounds
	// use as "now" for referrals whose window is still open.
	type stored struct {
		j  int
		cd bool
		l  resolver.VerifC08Lease
	}
	var all []stored
	for j := 1; j <= w.depth(); j++ {
		for _, cd := range []bool{false, true} {
			if l := w.rs.Handler.VerifC08Lease(w.apex[j], cd); l.Present {
				all = append(all, stored{j, cd, l})
			}
		}
	}
	lims := map[bool]limits{false: w.boundsFor(false, false), true: w.boundsFor(false, true)}
	w.mu.Lock()
	sk := w.sk
	w.mu.Unlock()
	for _, st := range all {
		j, cd := st.j, st.cd
		bound := lims[cd].lease[j]
		run.r.Count("leases_inspected", 1)
		if cd {
			run.r.Count("leases_inspected_cd1_partition", 1)
		}
		run.r.Eval(1)
		expV := st.l.ExpiresAt.Sub(w.t0) + sk
		if expV > bound {
			formula := "min(NS TTL, DS TTL, ancestors, 12h)"
			if cd {
				formula = "min(NS TTL, ancestors, 12h) [CD=1 partition]"
			}
			run.viol(vlib.Sig("lease", "stored-deadline-exceeds-grant"),
				fmt.Sprintf("delegation of %s (cd=%v) stored until V=%v although %s from the latest referral observation window ends at V=%v (%v too long%s) [%s]", w.apex[j], cd, expV.Round(time.Millisecond), formula, bound.Round(time.Millisecond), (expV-bound).Round(time.Microsecond), when, w.sc.Shape()),
				func() CaseSpec {
					c := run.caseOf(w, nil, nil)
					c.Note = fmt.Sprintf("delegation cache entry for %s (cd=%v) expires at virtual %v, but no referral sent so far grants a lease past %v%s", w.apex[j], cd, expV, bound, when)
					c.Bound = bound.String()
					return c
				})
		}
	}
}

// answerLevel tells which zone's servers answer (name, type) while the
// original tree is in place: the deepest zone enclosing the name, or its
// parent for a DS question at an apex. 0 = the root.
func (w *world) answerLevel(name string, qtype uint16) int {
	name = strings.ToLower(name)
	lv := 0
	for j := 1; j <= w.depth(); j++ {
		if underOrAt(w.apex[j], name) {
			lv = j
		}
	}
	if lv > 0 && qtype == dns.TypeDS && name == w.apex[lv] {
		lv--
	}
	return lv
}

// checkCuts inspects the answer cache while the ORIGINAL tree is in place
// (so it is known which zone's servers produce an answer): every entry for a
// question answered by the servers of level j — client answers, negative
// answers, and the DS / DNSKEY / NS-address entries the resolver's own
// sub-queries write — must carry a cut deadline, and one no later than the
// latest lease of level j (white-box view of "the deadline reaches the answer
// cache and sub-query cache writes").
func (run *runner) checkCuts(w *world) {
	ch := w.rs.Cache()
	if ch == nil || w.changed {
		return
	}
	dump := ch.VerifStore().VerifDump()
	lims := map[bool]limits{false: w.boundsFor(false, false), true: w.boundsFor(false, true)}
	w.mu.Lock()
	sk := w.sk
	w.mu.Unlock()
	for _, e := range dump {
		if os.Getenv("C08_DEBUG") == "2" && strings.HasSuffix(strings.ToLower(e.Question), sibApex) {
			fmt.Fprintf(os.Stderr, "    alias entry %s/%s positive=%v ttl=%v remaining=%v cut=V%v\n", e.Question, dns.TypeToString[e.Qtype], e.Positive, e.TTL, e.Remaining.Round(time.Millisecond), (e.CutUntil.Sub(w.t0) + sk).Round(time.Millisecond))
		}
		j := w.answerLevel(e.Question, e.Qtype)
		lim := lims[e.CD]
		if j == 0 || lim.lease[j] < 0 {
			continue
		}
		run.r.Count("answer_cuts_inspected", 1)
		run.r.Eval(1)
		id := fmt.Sprintf("%s/%s cd=%v", e.Question, dns.TypeToString[e.Qtype], e.CD)
		if e.CutUntil.IsZero() {
			run.viol(vlib.Sig("cut", "answer-cached-without-cut"),
				fmt.Sprintf("answer-cache entry %s (data of %s, reached through learned delegations) is stored without any cut deadline [%s]", id, w.apex[j], w.sc.Shape()),
				func() CaseSpec {
					c := run.caseOf(w, nil, nil)
					c.Note = "answer-cache entry " + id + " carries no delegation cut at all"
					return c
				})
			continue
		}
		cutV := e.CutUntil.Sub(w.t0) + sk
		if debug && os.Getenv("C08_DEBUG") == "2" {
			fmt.Fprintf(os.Stderr, "    entry %-40s cut=%v lease=%v grant=%v\n", id, cutV, lim.lease[j], lim.grant[j])
		}
		lease, grant := lim.lease[j], lim.grant[j]
		switch {
		case cutV <= lease:
			run.r.Count("answer_cuts_within_lease", 1)
		case cutV <= grant:
			run.viol(vlib.Sig("ceiling", "answer-cut-ignores-12h-ceiling"),
				fmt.Sprintf("answer-cache entry %s may be served until V=%v, %v after the lease of %s ends (V=%v): its cut deadline is the referral's TTL without the 12 h ceiling the delegation itself gets [%s]", id, cutV.Round(time.Millisecond), (cutV-lease).Round(time.Second), w.apex[j], lease.Round(time.Millisecond), w.sc.Shape()),
				func() CaseSpec {
					c := run.caseOf(w, nil, nil)
					c.Bound = lease.String()
					c.Granted = grant.String()
					c.Note = fmt.Sprintf("answer-cache entry %s: cut deadline V=%v; lease of %s (12 h ceiling included) ends V=%v; parent-granted TTLs alone would end V=%v", id, cutV, w.apex[j], lease, grant)
					return c
				})
		default:
			run.viol(vlib.Sig("cut", "answer-cut-exceeds-grant"),
				fmt.Sprintf("answer-cache entry %s may be served until V=%v although no referral sent for %s (or above) grants anything past V=%v (%v too long) [%s]", id, cutV.Round(time.Millisecond), w.apex[j], grant.Round(time.Millisecond), (cutV-grant).Round(time.Microsecond), w.sc.Shape()),
				func() CaseSpec {
					c := run.caseOf(w, nil, nil)
					c.Bound = grant.String()
					c.Note = fmt.Sprintf("answer-cache entry %s: cut deadline V=%v exceeds everything the parents granted (V=%v)", id, cutV, grant)
					return c
				})
		}
	}
}

func (run *runner) caseOf(w *world, p *probe, res *result) CaseSpec {
	c := CaseSpec{Seed: run.r.Seed, Index: w.sc.Index, Scenario: w.sc, Probe: p}
	w.mu.Lock()
	for _, r := range w.ref {
		if r.Level <= w.sc.Victim && !r.New {
			cp := *r
			c.Referrals = append(c.Referrals, &cp)
		}
	}
	w.mu.Unlock()
	if len(c.Referrals) > 40 {
		c.Referrals = c.Referrals[len(c.Referrals)-40:]
	}
	if res != nil {
		c.VStart = res.vStart.String()
		if res.reply != nil {
			c.Reply = res.reply.String()
		}
		for _, pk := range w.u.Log.Since(res.from) {
			c.Upstream = append(c.Upstream, pk.String())
			if len(c.Upstream) >= 40 {
				break
			}
		}
	}
	return c
}

// ---- probes ---------------------------------------------------------------

func (w *world) mk(kind string, level int, label string, t uint16, rng *rand.Rand) probe {
	name := w.apex[level]
	if label != "" {
		name = label + "." + name
	}
	return probe{Name: name, Type: t, DO: rng.IntN(3) != 0, Kind: kind, Level: level}
}

func (w *world) fresh(level int, rng *rand.Rand) probe {
	i := w.freshNext[level]
	w.freshNext[level]++
	if i >= nFresh {
		return w.mk("www", level, "www", dns.TypeA, rng)
	}
	return w.mk("fresh", level, fmt.Sprintf("f%d", i), dns.TypeA, rng)
}

func (w *world) only(level int, rng *rand.Rand) probe {
	i := w.onlyNext[level] % nOnly
	w.onlyNext[level]++
	if w.onlyNext[level]%2 == 0 {
		return w.mk("onlyold", level, fmt.Sprintf("oo%d", i), dns.TypeA, rng)
	}
	return w.mk("onlynew", level, fmt.Sprintf("on%d", i), dns.TypeA, rng)
}

func (w *world) deepest() int { return w.depth() }

// core is the full question mix for one old zone.
func (w *world) core(level int, rng *rand.Rand) []probe {
	ps := []probe{
		w.mk("www", level, "www", dns.TypeA, rng),
		w.mk("hot", level, "hot", dns.TypeA, rng),
		w.mk("www", level, "www", dns.TypeAAAA, rng),
		w.mk("txt", level, "txt", dns.TypeTXT, rng),
		w.mk("ns", level, "", dns.TypeNS, rng),
		w.only(level, rng),
	}
	if w.sc.Levels[level-1].Signed {
		ps = append(ps, w.mk("dnskey", level, "", dns.TypeDNSKEY, rng))
	}
	if level == w.sc.Victim {
		ps = append(ps, w.mk("ds-victim", level, "", dns.TypeDS, rng))
	} else {
		ps = append(ps, w.mk("ds-deeper", level, "", dns.TypeDS, rng))
	}
	return ps
}

// hotRound keeps names hot and touches new ones.
func (w *world) hotRound(rng *rand.Rand) []probe {
	v, d := w.sc.Victim, w.deepest()
	ps := []probe{w.mk("hot", v, "hot", dns.TypeA, rng), w.fresh(v, rng)}
	if d > v {
		ps = append(ps, w.mk("hot", d, "hot", dns.TypeA, rng), w.fresh(d, rng))
		if d-v > 1 {
			ps = append(ps, w.fresh(v+1, rng))
		}
	}
	if w.sc.SelfReferral {
		ps = append(ps, w.mk("sr", v, fmt.Sprintf("x%d.sr", rng.IntN(1000)), dns.TypeA, rng))
	}
	ps = append(ps, w.only(v, rng))
	extra := w.core(v+rng.IntN(d-v+1), rng)
	ps = append(ps, extra[rng.IntN(len(extra))])
	rng.Shuffle(len(ps), func(i, j int) { ps[i], ps[j] = ps[j], ps[i] })
	return ps
}

// ---- one scenario -----------------------------------------------------------

func (run *runner) scenario(index int) {
	if index >= restartBase {
		run.runScenario(genRestart(run.r.RandN("scenario", index), run.r.Seed, index))
		return
	}
	if index >= focusBase {
		run.runScenario(genFocus(run.r.RandN("scenario", index), run.r.Seed, index))
		return
	}
	run.runScenario(genScenario(run.r.RandN("scenario", index), run.r.Seed, index))
}

// slotIndex maps the s-th scenario of a run with n ordinary and nFocus focus
// scenarios to its index (focus scenarios follow the ordinary ones, restart
// scenarios the focus ones).
func slotIndex(s, n, nFocus int) int {
	if s >= n+nFocus {
		return restartBase + (s - n - nFocus)
	}
	if s >= n {
		return focusBase + (s - n)
	}
	return s
}

// runScenario executes one scenario. Every random decision taken while it
// runs comes from the stream keyed by (seed, "run", sc.Index).
func (run *runner) runScenario(sc *Scenario) {
	r := run.r
	index := sc.Index
	rng := r.RandN("run", index)
	arng := r.RandN("alias", index) // alias probes draw from a stream of their own
	w := buildWorld(sc)
	defer w.u.Close()
	rs, err := w.u.NewResolverStack(func(c *config.Config) {
		c.QnameMinLevel = sc.QMin
		c.IPv6Access = sc.IPv6
		c.Timeout.Duration = 4 * time.Second
		if sc.DNSSECOff {
			c.DNSSEC = "off"
			c.RootKeys = nil
		}
	})
	if err != nil {
		r.Inconclusive("stack: " + err.Error())
		return
	}
	defer rs.Close()
	w.rs = rs
	if w.glueless != "" {
		w.midFlight = func() {
			r.Count("mid_flight_inspections", 1)
			run.checkLeasesAt(w, "; inspected while the lookup of the glueless NS host "+w.glueless+" was in flight")
		}
	}
	r.Count("scenarios", 1)
	if debug {
		fmt.Fprintln(os.Stderr, "S"+sc.String())
	}
	// The resolver primes the root and refreshes its trust anchors right
	// after start-up ("./NS", "./DNSKEY"): let that finish first, so that it
	// does not run next to the first client questions. (Not a verdict matter:
	// if the queries do not show up the scenario simply starts.)
	for t := time.Now(); time.Since(t) < 3*time.Second; time.Sleep(time.Millisecond) {
		if w.u.Log.Count(0, "", ".", dns.TypeDNSKEY) > 0 {
			break
		}
	}
	if !run.quiesce(w) {
		return
	}
	v, d := sc.Victim, w.deepest()
	prefetch0 := prefetches()

	step := func(p probe) (result, bool) {
		res, ok := run.ask(w, p)
		if !ok {
			return res, false
		}
		run.checkLeases(w)
		run.checkCuts(w)
		run.restartSeen(w, p, res)
		if debug {
			kind, _ := w.oldData(res.reply, true)
			rc := "nil"
			if res.reply != nil {
				rc = fmt.Sprintf("%s/%d", dns.RcodeToString[res.reply.Rcode], len(res.reply.Answer))
			}
			fmt.Fprintf(os.Stderr, "  S%d V=%-14v %-46s -> %-12s old=%-8s upstream=%d\n", index, res.vStart.Round(time.Millisecond), p, rc, kind, w.u.Log.Len()-res.from)
			if os.Getenv("C08_DEBUG") == "3" {
				for _, pk := range w.u.Log.Since(res.from) {
					fmt.Fprintf(os.Stderr, "        %s\n", pk.String())
				}
			}
		}
		return res, true
	}

	// ---- warm-up: learn the whole chain and fill the caches ----------------
	warm := w.core(v, rng)
	if d > v {
		warm = append(warm, w.core(d, rng)...)
		if d-v > 1 {
			warm = append(warm, w.mk("www", v+1, "www", dns.TypeA, rng))
		}
	}
	if sc.SelfReferral {
		warm = append(warm, w.mk("sr", v, "x.sr", dns.TypeA, rng))
	}
	warm = w.filterProbes(append(warm, w.restartProbes(rng)...))
	for _, p := range warm {
		if _, ok := step(p); !ok {
			return
		}
	}
	// cross-zone aliases: asked while the original tree is in place …
	aliasRound := func(phase string) bool {
		for _, p := range w.aliasProbes(arng) {
			res, ok := step(p)
			if !ok {
				return false
			}
			run.aliasSeen(w, phase, p, res)
		}
		return true
	}
	if !aliasRound("before_change") {
		return
	}
	run.dsSeen(w)
	bv := func() time.Duration { return w.bounds(true).lease[v] }
	if bv() < 0 {
		r.Count("scenarios_without_victim_referral", 1)
		return
	}

	// ---- before the change: let the lease run, renew, keep names hot -------
	hotRound := func() []probe { return w.filterProbes(append(w.hotRound(rng), w.restartProbes(rng)...)) }
	round := func() bool {
		for _, p := range hotRound() {
			if _, ok := step(p); !ok {
				return false
			}
		}
		return aliasRound("before_change")
	}
	remaining := func() time.Duration { return bv() - w.vnow() }
	frac := func(lo, hi float64) float64 { return lo + rng.Float64()*(hi-lo) }
	switch sc.WithdrawAt {
	case "early":
	case "mid":
		if !run.advance(w, time.Duration(frac(0.3, 0.6)*float64(remaining()))) || !round() {
			return
		}
	case "late":
		if !run.advance(w, time.Duration(frac(0.85, 0.97)*float64(remaining()))) || !round() {
			return
		}
	case "renewed":
		n := 1 + rng.IntN(2)
		for i := 0; i < n; i++ {
			if !run.advance(w, remaining()+graceAfter+time.Duration(frac(0.05, 0.6)*float64(grant0(sc)))) || !round() {
				return
			}
		}
		if rng.IntN(2) == 0 {
			if !run.advance(w, time.Duration(frac(0.2, 0.8)*float64(remaining()))) || !round() {
				return
			}
		}
	}

	// ---- the parent withdraws / re-points ---------------------------------
	if !run.quiesce(w) {
		return
	}
	w.change()
	lim := w.bounds(true)
	bound, granted := lim.lease[v], lim.grant[v]
	dsb := w.dsBound()
	r.Count("changes/"+sc.Mode, 1)
	if debug {
		fmt.Fprintf(os.Stderr, "  S%d CHANGE(%s) at V=%v bound=%v (in %v) dsBound=%v\n", index, sc.Mode, w.vnow().Round(time.Millisecond), bound.Round(time.Millisecond), (bound - w.vnow()).Round(time.Millisecond), dsb.Round(time.Millisecond))
	}

	// ---- after the change, before the bound: the lease may still be used ---
	before := func(p probe, res result) {
		if res.vStart >= bound || res.reply == nil {
			return
		}
		r.Count("probes_before_bound", 1)
		kind, _ := w.oldData(res.reply, false)
		if kind == "" {
			return
		}
		r.Count("before_bound_old_served", 1)
		toOld, toParent := 0, 0
		for _, pk := range w.u.Log.Since(res.from) {
			if w.oldServers[pk.Server] {
				toOld++
			}
			if w.parentSrv[pk.Server] && underOrAt(w.victimApex, pk.QNameL) {
				toParent++
			}
		}
		if toOld > 0 && toParent == 0 {
			r.Count("before_bound_old_via_cached_delegation", 1)
		}
		if toOld == 0 {
			r.Count("before_bound_old_from_answer_cache", 1)
		}
	}
	for i := 0; i < sc.Rounds; i++ {
		rem := bound - w.vnow()
		if rem < 4*time.Second {
			break
		}
		if i > 0 || rng.IntN(2) == 0 {
			if !run.advance(w, time.Duration(frac(0.3, 0.97)*float64(rem-3*time.Second))) {
				return
			}
		}
		for _, p := range append(hotRound(), w.aliasProbes(arng)...) {
			res, ok := step(p)
			if !ok {
				return
			}
			before(p, res)
		}
	}

	// ---- past the bound -----------------------------------------------------
	extras := []time.Duration{50 * time.Millisecond, time.Second, 7 * time.Second, time.Duration(sc.HotTTL) * time.Second, time.Hour, 48 * time.Hour}
	extra := extras[rng.IntN(len(extras))]
	if sc.SoonAfter {
		extra = extras[arng.IntN(3)]
	}
	target := bound + graceAfter + extra
	if !run.advance(w, target-w.vnow()) {
		return
	}
	pastSeq := w.u.Log.Len()
	judged := 0
	// CD=1 client questions are answered through the CD=1 partition of the
	// delegation cache: its (NS-TTL-only) bound applies to them
	boundCD := max(bound, w.boundsFor(true, true).lease[v])
	after := func(p probe, res result) {
		bound := bound
		if p.CD {
			bound = boundCD
		}
		if res.vStart <= bound+graceAfter {
			r.Count("probes_in_grace_window", 1)
			return
		}
		judged++
		r.Eval(1)
		r.Count("probes_after_bound", 1)
		switch p.Kind {
		case "fresh", "onlynew", "onlyold":
			r.Count("after_bound_fresh_names", 1)
		case "hot":
			r.Count("after_bound_hot_names", 1)
		}
		if p.Level > v {
			r.Count("after_bound_deeper_zone", 1)
		}
		r.Count("after_kind/"+p.Kind, 1)
		dsToo := p.Kind != "ds-victim" || res.vStart > dsb+graceAfter
		if kind, detail := w.oldData(res.reply, dsToo); kind != "" {
			mk := func() CaseSpec {
				c := run.caseOf(w, &p, &res)
				c.Bound = bound.String()
				c.Granted = granted.String()
				return c
			}
			if res.vStart <= granted+graceAfter {
				// past the lease only because of the 12 h ceiling: the
				// referral's own TTLs (and every ancestor's) still cover it
				r.Count("after_bound_old_within_parent_ttl", 1)
				run.viol(vlib.Sig("ceiling", "served-after-12h-ceiling"),
					fmt.Sprintf("%s answered with data (kind "+kind+") learned through the OLD delegation of %s at V=%v, %v after its lease ended (V=%v, decided by the 12 h ceiling; the referral TTLs alone run to V=%v): %s [%s]",
						p, w.victimApex, res.vStart.Round(time.Millisecond), (res.vStart-bound).Round(time.Millisecond), bound.Round(time.Millisecond), granted.Round(time.Millisecond), detail, sc.Shape()), mk)
				return
			}
			run.viol(vlib.Sig("ghost", "served-after-lease", kind),
				fmt.Sprintf("%s answered with data learned through the OLD delegation of %s at V=%v, %v after the latest lease any referral granted (bound V=%v): %s [%s]",
					p, w.victimApex, res.vStart.Round(time.Millisecond), (res.vStart-bound).Round(time.Millisecond), bound.Round(time.Millisecond), detail, sc.Shape()), mk)
			return
		}
		cls := w.newTruth(p, res.reply)
		if strings.HasPrefix(cls, "other:") {
			r.Count("after/other", 1)
			r.Count("after_other/"+p.Kind+"/"+cls, 1)
			if debug {
				fmt.Fprintf(os.Stderr, "  S%d OTHER %s: %s\n%v\n", index, p, cls, res.reply)
			}
			if p.Kind != "ds-victim" {
				c := run.caseOf(w, &p, &res)
				c.Bound = bound.String()
				c.Note = cls
				r.Violation(vlib.Sig("follow", "parent-not-followed-after-lease", p.Kind),
					fmt.Sprintf("%s at V=%v (%v past the lease bound): reply is neither SERVFAIL nor the new parent state (%s) [%s]", p, res.vStart.Round(time.Millisecond), (res.vStart-bound).Round(time.Millisecond), cls, sc.Shape()), c)
			}
			return
		}
		r.Count("after/"+cls, 1)
	}
	afterRound := func(ps []probe) bool {
		for _, p := range ps {
			res, ok := step(p)
			if !ok {
				return false
			}
			after(p, res)
			if p.Kind == "alias" && res.vStart > bound+graceAfter {
				run.aliasSeen(w, "after_bound", p, res)
			}
		}
		return true
	}
	first := hotRound()
	first = append(first, w.core(v, rng)...)
	if d > v {
		first = append(first, w.core(d, rng)...)
	}
	first = w.filterProbes(first)
	first = append(first, w.aliasProbes(arng)...)
	if !afterRound(first) {
		return
	}
	for i := 0; i < sc.Rounds; i++ {
		jump := []time.Duration{time.Duration(float64(sc.HotTTL) * 0.93 * float64(time.Second)), 3 * time.Second, time.Duration(sc.LongTTL) * time.Second, 13 * time.Hour}[rng.IntN(4)]
		if !run.advance(w, jump) || !afterRound(append(hotRound(), w.aliasProbes(arng)...)) {
			return
		}
	}
	if !run.quiesce(w) {
		return
	}
	// the old servers must not have been asked about the zone any more
	for _, pk := range w.u.Log.Since(pastSeq) {
		if w.oldServers[pk.Server] && underOrAt(w.victimApex, pk.QNameL) {
			r.Eval(1)
			c := run.caseOf(w, nil, nil)
			c.Bound = bound.String()
			c.Upstream = []string{pk.String()}
			r.Violation(vlib.Sig("ghost", "old-server-queried-after-lease"),
				fmt.Sprintf("old server %s of %s was asked %s/%s after the lease bound V=%v [%s]", pk.Server, w.victimApex, pk.QNameL, dns.TypeToString[pk.QType], bound.Round(time.Millisecond), sc.Shape()), c)
			break
		}
	}
	r.Count("old_server_silence_checked", 1)
	nref := 0
	w.mu.Lock()
	for _, x := range w.ref {
		if !x.DSOnly {
			nref++
		}
	}
	w.mu.Unlock()
	r.Count("referrals_logged", nref)
	w.mu.Lock()
	r.Count("referrals_with_narrowed_observation_window", w.tight)
	r.Count("referrals_in_windows_with_side_trees", w.unclean)
	w.mu.Unlock()
	r.Count("prefetch_refreshes_observed", int(prefetches()-prefetch0))
	if w.restart != nil {
		w.restart.mu.Lock()
		r.Count("bare_referrals_sent", w.bareSent)
		w.restart.mu.Unlock()
	}
	if judged > 0 {
		r.Count("scenarios_judged", 1)
		r.Count("judged_mode/"+sc.Mode, 1)
		if sc.Levels[v-1].Secure {
			r.Count("judged_victim_cut/secure", 1)
		} else {
			r.Count("judged_victim_cut/insecure", 1)
		}
		r.Count(fmt.Sprintf("judged_depth/%d", d), 1)
		r.Count(fmt.Sprintf("judged_victim_level/%d", v), 1)
		if sc.Focus != "" {
			r.Count("focus_scenarios_judged", 1)
			r.Count("judged_focus/"+sc.Focus, 1)
		}
		if k := sc.Levels[v-1].DSKind; k != "" {
			r.Count("judged_victim_ds/"+k, 1)
		}
		if sc.DNSSECOff {
			r.Count("judged_dnssec_off", 1)
		}
		if sc.Restart != nil {
			r.Count("restart_scenarios_judged", 1)
			r.Count("judged_restart_style/"+sc.Restart.Style, 1)
		}
		r.Distinct(sc.Shape())
		r.Sample(map[string]any{"scenario": sc.String(), "shape": sc.Shape(), "bound_virtual": bound.String(), "judged_after_bound": judged, "referrals_logged": nref})
	}
}

// grant0 is the nominal lease length of the victim (for step sizing only).
func grant0(sc *Scenario) time.Duration {
	l := leaseOf(sc.Levels[sc.Victim-1])
	for i := 0; i < sc.Victim-1; i++ {
		if a := leaseOf(sc.Levels[i]); a < l {
			l = a
		}
	}
	return time.Duration(l) * time.Second
}

// ---- focus scenarios: aliases and DS usability --------------------------------

// aliasProbes asks every alias of the sibling zone (none outside focus scenarios).
func (w *world) aliasProbes(rng *rand.Rand) []probe {
	var ps []probe
	if w.sc.Alias != nil && w.sc.Alias.TargetsFirst {
		for _, a := range w.aliases {
			if a.Shape != "deep-positive" {
				ps = append(ps, probe{Name: a.Target, Type: dns.TypeA, DO: rng.IntN(3) != 0, Kind: "alias-target", Level: a.Level})
			}
		}
	}
	for _, a := range w.aliases {
		ps = append(ps, probe{Name: a.Name, Type: dns.TypeA, DO: rng.IntN(3) != 0, Kind: "alias", Level: a.Level})
	}
	return ps
}

func (w *world) aliasOf(name string) *aliasInfo {
	for i := range w.aliases {
		if w.aliases[i].Name == name {
			return &w.aliases[i]
		}
	}
	return nil
}

// aliasSeen records (evidence only, no verdict) what reached the client through
// an alias: before the parent changes anything this shows that the old child's
// answer — positive, denial with SOA, bare denial — really was relayed and
// cached under the alias; after the bound the verdict is after()'s.
func (run *runner) aliasSeen(w *world, phase string, p probe, res result) {
	a := w.aliasOf(p.Name)
	if a == nil || res.reply == nil {
		return
	}
	r := run.r
	if w.sc.Alias.TargetsFirst && !w.changed && phase != "after_bound" {
		// the alias was derived without any upstream question about its target:
		// the target came from the cache
		asked := false
		for _, pk := range w.u.Log.Since(res.from) {
			asked = asked || pk.QNameL == strings.ToLower(a.Target)
		}
		if !asked {
			r.Count("alias_derived_from_cached_target", 1)
		}
	}
	if phase == "after_bound" {
		r.Count("alias_after_bound/"+a.Shape, 1)
		if w.sc.Mode == "repoint" && w.newTruth(p, res.reply) == "new-answer" {
			r.Count("alias_after_bound_repoint_new_answer", 1)
		}
		return
	}
	if w.changed {
		return
	}
	m := res.reply
	soa := false
	for _, rr := range m.Ns {
		if _, ok := rr.(*dns.SOA); ok {
			soa = true
		}
	}
	kind, _ := w.oldData(m, false)
	out := "other"
	switch {
	case m.Rcode == dns.RcodeServerFailure:
		out = "servfail"
	case m.Rcode == dns.RcodeSuccess && kind == "marker":
		out = "old-answer"
	case m.Rcode == dns.RcodeNameError && soa:
		out = "nxdomain-with-soa"
	case m.Rcode == dns.RcodeNameError:
		out = "nxdomain-bare"
	case m.Rcode == dns.RcodeSuccess && len(stripSigs(m.Answer)) == 1 && soa:
		out = "nodata-with-soa"
	case m.Rcode == dns.RcodeSuccess && len(stripSigs(m.Answer)) == 1:
		out = "nodata-bare"
	}
	r.Count("alias_"+phase+"/"+a.Shape+"/"+out, 1)
}

// dsSeen counts (evidence only) the victim referrals that carried a DS RRset
// nobody can use, or a mixed one, as they left the parent's servers, and
// whether the victim below an unusable-only set was served as insecure data.
func (run *runner) dsSeen(w *world) {
	sc := w.sc
	l := sc.Levels[sc.Victim-1]
	if l.DSKind == "" {
		return
	}
	w.mu.Lock()
	for _, x := range w.ref {
		if x.Level != sc.Victim || x.DSOnly || !x.HasDS {
			continue
		}
		if l.DSKind == "unusable" {
			run.r.Count("victim_referrals_with_unusable_only_ds", 1)
			if x.DSTTL < x.NSTTL {
				run.r.Count("victim_referrals_with_unusable_only_ds_shorter_than_ns", 1)
			}
		} else {
			run.r.Count("victim_referrals_with_mixed_ds", 1)
		}
	}
	w.mu.Unlock()
	if l.DSKind == "unusable" {
		// the warm-up asked www.<victim> A: answered with the old child's data
		res, ok := run.ask(w, probe{Name: "www." + w.victimApex, Type: dns.TypeA, DO: true, Kind: "www", Level: sc.Victim})
		if ok && res.reply != nil && res.reply.Rcode == dns.RcodeSuccess && !res.reply.AuthenticatedData {
			if kind, _ := w.oldData(res.reply, false); kind != "" {
				run.r.Count("unusable_ds_victim_served_insecure_before_change", 1)
			}
		}
	}
}

// ---- restart scenarios ----------------------------------------------------------

// restartSeen records (evidence only, no verdict) the look-ups that started
// again inside this client question, and — when one of the resolver's own
// look-ups did — the answer-cache entries that look-up wrote: checkCuts has
// just compared their cut deadlines with the leases of the path; here it is
// counted that they were there to be compared, and whether the descent that
// produced them was indeed leased for less than the ancestor the abandoned
// walk had reached.
func (run *runner) restartSeen(w *world, p probe, res result) {
	rs := w.sc.Restart
	if rs == nil {
		return
	}
	r := run.r
	all, sub := w.restartsSince(res.from, p.CD)
	r.Count("lookups_restarted_in_own_subquery", sub)
	r.Count("lookups_restarted_in_client_tree", all-sub)
	if p.Kind == "ds-cd1" && !w.changed && res.reply != nil && res.reply.Rcode == dns.RcodeSuccess {
		r.Count("before_change_cd1_ds_answered", 1)
	}
	if sub == 0 || w.changed {
		return
	}
	ch := w.rs.Cache()
	if ch == nil {
		return
	}
	anc := w.rs.Handler.VerifC08Lease(w.apex[rs.Sloppy], true)
	for _, e := range ch.VerifStore().VerifDump() {
		if e.Qtype != dns.TypeDS || !e.CD || !strings.EqualFold(e.Question, w.apex[rs.Bare]) {
			continue
		}
		r.Count("subquery_entries_after_restart_inspected", 1)
		if anc.Present && !e.CutUntil.IsZero() && e.CutUntil.Before(anc.ExpiresAt) {
			r.Count("subquery_entries_after_restart_shorter_than_ancestor", 1)
		}
	}
}
