package main

import (
	"fmt"
	"net"
	"strings"
	"sync"
	"time"

	"github.com/miekg/dns"
	"github.com/semihalev/sdns/zzverif/authsim"
	zm "github.com/semihalev/sdns/zzverif/zonemodel"
)

const (
	nFresh   = 14
	nOnly    = 5
	ceiling  = 12 * time.Hour
	hugeTTL  = 172800
	noBound  = time.Duration(1<<62 - 1)
	newNSTag = "nsb" // NS host label prefix of the re-pointed generation
	// validationDelay is how late the victim's parent answers DNSKEY queries.
	validationDelay = 250 * time.Millisecond
)

// referral is one referral (or DS answer) a scripted parent SENT, taken from
// the response the server actually put on the wire.
type referral struct {
	N      int           `json:"n"`
	Level  int           `json:"level"`
	New    bool          `json:"new_generation,omitempty"`
	DSOnly bool          `json:"ds_answer,omitempty"` // answer to an explicit DS query, not a referral
	NSTTL  uint32        `json:"ns_ttl"`
	DSTTL  uint32        `json:"ds_ttl"`
	HasDS  bool          `json:"has_ds"`
	Server string        `json:"server"`
	QName  string        `json:"qname"`
	SentV  time.Duration `json:"sent_v"` // virtual instant it was sent (≤ the instant sdns observed it)
	// The referral was observed by sdns somewhere in the WINDOW [SentV, Q]:
	// Q is the next quiescent point (no request in flight, prefetch idle, no
	// resolver goroutine active). Whatever sdns derived from the referral —
	// the observation instant as well as the instant it stored the lease —
	// lies inside that window. -1 = still pending.
	Q time.Duration `json:"q_v"`
	// QT narrows the upper end of the window for the OBSERVATION instant only
	// (never for the store instant): the arrival of the first DNSKEY query for
	// the referring zone that reached a server after the referral had left.
	// It is used only when the packet log of the whole window proves that one
	// single resolution tree was at work (see world.windowClean), so that the
	// query can only have been sent by the tree that had looked at the
	// referral (or at a duplicate of it sent even earlier). Otherwise QT = Q.
	QT     time.Duration `json:"qt_v"`
	Tight  bool          `json:"qt_from_followup_query,omitempty"`
	logLen int
}

type world struct {
	sc  *Scenario
	u   *authsim.Universe
	rs  *authsim.RStack
	t0  time.Time
	mu  sync.Mutex
	sk  time.Duration // ΣD
	ref []*referral
	// winFrom is the packet-log position of the last quiescent point.
	winFrom int
	// glueless is the victim's NS host the parent publishes no glue for;
	// midFlight (set by the runner) is called by the victim's servers while
	// they hold a query for that host's address, i.e. while the resolution
	// tree that looks the host up is waiting.
	glueless  string
	midFlight func()
	tight     int // referrals whose observation window a follow-up DNSKEY query narrowed
	unclean   int // windows with pending referrals in which a side tree was at work

	apex    []string   // apex[0] = ".", apex[j] = level j
	zones   []*zm.Zone // original zones, zones[0] = root
	newGen  []*zm.Zone // index by level (nil below victim); only in repoint mode
	nsNew   *zm.Namespace
	changed bool // the parent has withdrawn / re-pointed

	oldServers map[string]bool // servers that host only old-generation zones
	parentSrv  map[string]bool // servers of the victim's parent

	// old-generation identification
	oldKeys    map[string]bool // DNSKEY rdata
	oldDS      map[string]bool // DS rdata of old zones below the victim (held by old zones)
	victimDS   map[string]bool // DS rdata of the old victim (parent data)
	childOnly  map[string]bool // NS targets only the old child itself ever announced
	oldTags    map[string]map[uint16]bool
	newTags    map[string]map[uint16]bool
	freshNext  map[int]int
	onlyNext   map[int]int
	victimApex string

	// focus scenarios: the long-leased sibling zone and its aliases
	sib     *zm.Zone
	aliases []aliasInfo

	// restart scenarios (restart.go): what the sloppy servers did, and how many
	// bare referrals left the servers above the bare child
	restart  *restartState
	bareSent int
}

// aliasInfo is one CNAME of the sibling zone into the victim's zones.
type aliasInfo struct {
	Name   string // owner in the sibling zone
	Target string
	Shape  string // what the old child says about the target (AliasSpec.Targets)
	Level  int    // level of the zone the target lives in
}

const sibApex = "sibz."

func (w *world) vnow() time.Duration {
	w.mu.Lock()
	defer w.mu.Unlock()
	return time.Since(w.t0) + w.sk
}

func (w *world) depth() int { return len(w.sc.Levels) }

func buildWorld(sc *Scenario) *world {
	w := &world{sc: sc, u: authsim.New(), t0: time.Now(),
		oldServers: map[string]bool{}, parentSrv: map[string]bool{},
		oldKeys: map[string]bool{}, oldDS: map[string]bool{}, victimDS: map[string]bool{}, childOnly: map[string]bool{},
		oldTags: map[string]map[uint16]bool{}, newTags: map[string]map[uint16]bool{},
		freshNext: map[int]int{}, onlyNext: map[int]int{}}
	u := w.u
	rootSrv := u.AddServer("root")
	root := u.AddZone(zm.Spec{Apex: ".", Signed: true, DefaultTTL: sc.RootTTL}, rootSrv)
	w.apex = []string{"."}
	w.zones = []*zm.Zone{root}
	srv := [][]*authsim.Server{{rootSrv}}
	for j := 1; j <= w.depth(); j++ {
		l := sc.Levels[j-1]
		apex := l.Label + "."
		if j > 1 {
			apex = l.Label + "." + w.apex[j-1]
		}
		w.apex = append(w.apex, apex)
		var ss []*authsim.Server
		for i := 0; i < l.Servers; i++ {
			s := u.AddServer(fmt.Sprintf("L%ds%d", j, i+1))
			ss = append(ss, s)
			if j >= sc.Victim {
				w.oldServers[s.Name] = true
			}
			if j == sc.Victim-1 {
				w.parentSrv[s.Name] = true
			}
		}
		srv = append(srv, ss)
		spec := zm.Spec{Apex: apex, Signed: l.Signed, DefaultTTL: sc.LongTTL}
		if l.NSEC3 {
			spec.NSEC3 = &zm.NSEC3Params{Salt: "c0", Iterations: 1}
		}
		z := u.AddZone(spec, ss...)
		w.zones = append(w.zones, z)
		w.populate(z, j, false)
	}
	if sc.Victim == 1 {
		w.parentSrv["root"] = true
	}
	w.victimApex = w.apex[sc.Victim]
	for j := 1; j <= w.depth(); j++ {
		l := sc.Levels[j-1]
		mode := authsim.DSNone
		if l.Secure {
			mode = authsim.DSAuto
		}
		opts := authsim.DelegOpts{DS: mode, NSTTL: l.NSTTL, DSTTL: l.DSTTL, GlueTTL: l.NSTTL}
		if sc.Glueless && j == sc.Victim {
			hosts := u.NSHosts(w.apex[j])
			if len(hosts) > 1 {
				hosts[1].Addrs = nil
				w.glueless = hosts[1].Name
				opts.NS = hosts
			}
		}
		u.Delegate(w.zones[j-1], w.zones[j], opts)
		if l.DSKind != "" {
			w.zones[j-1].SetDS(w.apex[j], w.dsFor(w.zones[j], l, 0), l.DSTTL)
		}
	}
	if sc.Alias != nil {
		w.addSibling(srv)
	}
	// old child behaviours
	v := w.zones[sc.Victim]
	if sc.HugeApexNS {
		w.setChildNS(v, srv[sc.Victim][0], "nsx")
		v.AuthorityNS = true
	}
	if sc.SelfReferral {
		for _, s := range srv[sc.Victim] {
			s.On("*.sr."+w.victimApex, 0, authsim.Tamper("self-referral", w.selfReferral(v)))
		}
	}
	// old-generation identity
	for j := sc.Victim; j <= w.depth(); j++ {
		z := w.zones[j]
		tags := map[uint16]bool{}
		for _, k := range z.Keys() {
			w.oldKeys[zm.RdataKey(k.DNSKEY)] = true
			tags[k.DNSKEY.KeyTag()] = true
		}
		w.oldTags[z.Apex()] = tags
		if d := w.zones[j-1].Delegation(z.Apex()); d != nil {
			for _, ds := range d.DS {
				if j == sc.Victim {
					w.victimDS[zm.RdataKey(ds)] = true
				} else {
					w.oldDS[zm.RdataKey(ds)] = true
				}
			}
		}
	}
	// recorders: every server reports what it really sent
	for _, s := range u.Servers() {
		s.SetDefault(authsim.Tamper("honest", w.recorder(s.Name)))
	}
	// the DNSKEY of the victim's parent is what sdns fetches while it
	// validates the victim's referral: answering it late (real time) opens a
	// visible gap between "referral observed" and "referral validated".
	for _, s := range u.Servers() {
		if w.parentSrv[s.Name] {
			a := authsim.Tamper("honest-late", w.recorder(s.Name))
			a.Delay = validationDelay
			s.On(w.apex[sc.Victim-1], dns.TypeDNSKEY, a)
		}
	}
	if sc.Restart != nil {
		w.installRestart(srv)
	}
	// the generation the parent re-points to (prepared now, announced later)
	if sc.Mode == "repoint" {
		w.newGen = make([]*zm.Zone, w.depth()+1)
		for j := sc.Victim; j <= w.depth(); j++ {
			l := sc.Levels[j-1]
			s := u.AddServer(fmt.Sprintf("N%ds1", j))
			host := zm.NSHost{Name: zm.Join(newNSTag+"1", w.apex[j])}
			for _, a := range s.Addrs {
				host.Addrs = append(host.Addrs, net.IP(a.AsSlice()))
			}
			spec := zm.Spec{Apex: w.apex[j], Signed: l.Signed, DefaultTTL: sc.LongTTL, MarkerSpace: uint8(100 + j), NSHosts: []string{host.Name}}
			if l.NSEC3 {
				spec.NSEC3 = &zm.NSEC3Params{Salt: "c1", Iterations: 1}
			}
			z := zm.New(spec)
			for _, ip := range host.Addrs {
				z.AddAddr(host.Name, ip, 0)
			}
			soa := z.RRset(z.Apex(), dns.TypeSOA).RRs[0].(*dns.SOA)
			ns := *soa
			ns.Serial = 2
			z.Set(soa.Hdr.Ttl, &ns)
			w.populate(z, j, true)
			s.AddZone(z)
			s.SetDefault(authsim.Tamper("honest", w.recorder(s.Name)))
			w.newGen[j] = z
			tags := map[uint16]bool{}
			for _, k := range z.Keys() {
				tags[k.DNSKEY.KeyTag()] = true
			}
			w.newTags[z.Apex()] = tags
			if j > sc.Victim {
				ds := w.dsFor(z, l, 1)
				w.newGen[j-1].Delegate(zm.DelegationSpec{Child: z.Apex(), NS: []zm.NSHost{host}, DS: ds, NSTTL: l.NSTTL, DSTTL: l.DSTTL, GlueTTL: l.NSTTL})
			}
		}
	}
	return w
}

// populate publishes the names the clients ask for.
func (w *world) populate(z *zm.Zone, level int, newGen bool) {
	apex := z.Apex()
	sc := w.sc
	z.AddMarked("www."+apex, dns.TypeA, sc.LongTTL)
	z.AddMarked("www."+apex, dns.TypeAAAA, sc.LongTTL)
	z.AddMarked("hot."+apex, dns.TypeA, sc.HotTTL)
	z.AddMarked("txt."+apex, dns.TypeTXT, sc.LongTTL)
	for i := 0; i < nFresh; i++ {
		z.AddMarked(fmt.Sprintf("f%d.%s", i, apex), dns.TypeA, sc.LongTTL)
	}
	if newGen && sc.Alias != nil && level == sc.Victim {
		for i, shape := range sc.Alias.Targets {
			if shape != "deep-positive" {
				z.AddMarked(fmt.Sprintf("tg%d.%s", i, apex), dns.TypeA, sc.LongTTL)
			}
		}
	}
	for i := 0; i < nOnly; i++ {
		if newGen {
			z.AddMarked(fmt.Sprintf("on%d.%s", i, apex), dns.TypeA, sc.LongTTL)
		} else {
			z.AddMarked(fmt.Sprintf("oo%d.%s", i, apex), dns.TypeA, sc.LongTTL)
		}
	}
}

// dsFor builds the DS RRset the parent publishes for zone z at a level with
// spec l (TTLs are set by the delegation). gen distinguishes the records of
// the old (0) and of the re-pointed (1) generation.
func (w *world) dsFor(z *zm.Zone, l LevelSpec, gen byte) []dns.RR {
	var out []dns.RR
	if l.Secure {
		out = z.DS(0)
	}
	if l.DSKind == "" {
		return out
	}
	tag := uint16(4000) + uint16(gen)
	if k := z.KSK(); k != nil {
		tag = k.DNSKEY.KeyTag()
	}
	mk := func(alg, dt uint8, n int) dns.RR {
		d := make([]byte, n)
		for i := range d {
			d[i] = byte(0xA0 + int(gen)*16 + i%16)
		}
		return &dns.DS{Hdr: dns.RR_Header{Name: z.Apex(), Rrtype: dns.TypeDS, Class: dns.ClassINET},
			KeyTag: tag, Algorithm: alg, DigestType: dt, Digest: fmt.Sprintf("%X", d)}
	}
	// GOST R 34.11-94 digest of a key with a supported algorithm; a SHA-256
	// digest of an ECC-GOST key; a digest type nobody has assigned
	unusable := []dns.RR{mk(dns.ECDSAP256SHA256, dns.GOST94, 32), mk(dns.ECCGOST, dns.SHA256, 32), mk(dns.ECDSAP256SHA256, 200, 20)}
	n := 1 + (w.sc.Index+int(gen))%len(unusable)
	for i := 0; i < n; i++ {
		out = append(out, unusable[(w.sc.Index+i)%len(unusable)])
	}
	return out
}

// addSibling creates the long-leased sibling zone with its aliases and
// publishes the alias targets in the old zones; the old victim's servers
// answer the "bare" targets with an empty NXDOMAIN / NOERROR message.
func (w *world) addSibling(srv [][]*authsim.Server) {
	sc, al := w.sc, w.sc.Alias
	u := w.u
	s := u.AddServer("SIB1")
	w.sib = u.AddZone(zm.Spec{Apex: sibApex, Signed: al.Signed, DefaultTTL: al.CNAMETTL}, s)
	mode := authsim.DSNone
	if al.Signed {
		mode = authsim.DSAuto
	}
	u.Delegate(w.zones[0], w.sib, authsim.DelegOpts{DS: mode, NSTTL: al.NSTTL, DSTTL: al.NSTTL, GlueTTL: al.NSTTL})
	old := w.zones[sc.Victim]
	for i, shape := range al.Targets {
		a := aliasInfo{Name: fmt.Sprintf("al%d.%s", i, sibApex), Shape: shape, Level: sc.Victim}
		a.Target = fmt.Sprintf("tg%d.%s", i, w.victimApex)
		switch shape {
		case "positive":
			old.AddMarked(a.Target, dns.TypeA, sc.LongTTL)
		case "nodata-soa", "nodata-bare":
			old.AddMarked(a.Target, dns.TypeTXT, sc.LongTTL)
		case "deep-positive":
			a.Level = w.depth()
			a.Target = "www." + w.apex[a.Level]
		}
		w.sib.AddCNAME(a.Name, a.Target, al.CNAMETTL)
		w.aliases = append(w.aliases, a)
		if shape == "nxdomain-bare" || shape == "nodata-bare" {
			rcode := dns.RcodeNameError
			if shape == "nodata-bare" {
				rcode = dns.RcodeSuccess
			}
			for _, os := range srv[sc.Victim] {
				os.On(a.Target, 0, authsim.Tamper("bare-"+dns.RcodeToString[rcode], func(q, _ *dns.Msg) *dns.Msg {
					m := new(dns.Msg)
					m.SetRcode(q, rcode)
					m.Authoritative = true
					if opt := q.IsEdns0(); opt != nil {
						m.SetEdns0(1232, opt.Do())
					}
					return m
				}))
			}
		}
	}
}

// setChildNS makes the child announce an apex NS set of its own (one host
// nobody but the child ever mentions) with a 2 d TTL.
func (w *world) setChildNS(z *zm.Zone, s *authsim.Server, label string) {
	apex := z.Apex()
	host := zm.Join(label, apex)
	w.childOnly[host] = true
	for _, a := range s.Addrs {
		z.AddAddr(host, net.IP(a.AsSlice()), hugeTTL)
	}
	cur := z.RRset(apex, dns.TypeNS)
	var rrs []dns.RR
	seen := map[string]bool{}
	if cur != nil {
		for _, rr := range cur.RRs {
			n := dns.Copy(rr).(*dns.NS)
			n.Hdr.Ttl = hugeTTL
			if w.childOnly[n.Ns] && n.Ns != host {
				continue // NS-set change: drop the previous child-only host
			}
			seen[n.Ns] = true
			rrs = append(rrs, n)
		}
	}
	if !seen[host] {
		rrs = append(rrs, &dns.NS{Hdr: dns.RR_Header{Name: apex, Rrtype: dns.TypeNS, Class: dns.ClassINET, Ttl: hugeTTL}, Ns: host})
	}
	z.Set(hugeTTL, rrs...)
}

// selfReferral builds the response of a child that "delegates" its own apex
// to itself with a huge TTL.
func (w *world) selfReferral(z *zm.Zone) func(q, honest *dns.Msg) *dns.Msg {
	return func(q, honest *dns.Msg) *dns.Msg {
		m := new(dns.Msg)
		m.SetReply(q)
		m.Authoritative = false
		apex := z.Apex()
		if set := z.RRset(apex, dns.TypeNS); set != nil {
			for _, rr := range set.RRs {
				n := dns.Copy(rr)
				n.Header().Ttl = hugeTTL
				m.Ns = append(m.Ns, n)
				host := n.(*dns.NS).Ns
				for _, t := range []uint16{dns.TypeA, dns.TypeAAAA} {
					if a := z.RRset(host, t); a != nil {
						for _, g := range a.RRs {
							c := dns.Copy(g)
							c.Header().Ttl = hugeTTL
							m.Extra = append(m.Extra, c)
						}
					}
				}
			}
		}
		if opt := q.IsEdns0(); opt != nil {
			m.SetEdns0(1232, opt.Do())
		}
		return m
	}
}

func (w *world) levelOf(apex string) int {
	apex = strings.ToLower(apex)
	for j := 1; j < len(w.apex); j++ {
		if w.apex[j] == apex {
			return j
		}
	}
	return 0
}

// recorder returns the pass-through tamper that logs referrals and DS answers
// exactly as they leave the server.
func (w *world) recorder(server string) func(q, honest *dns.Msg) *dns.Msg {
	return func(q, honest *dns.Msg) *dns.Msg {
		if w.glueless != "" && w.midFlight != nil && len(q.Question) == 1 && q.Question[0].Qtype == dns.TypeA &&
			strings.EqualFold(q.Question[0].Name, w.glueless) {
			w.midFlight()
		}
		if honest == nil || honest.Rcode != dns.RcodeSuccess {
			return honest
		}
		r := &referral{Server: server, Q: -1}
		if len(q.Question) == 1 {
			r.QName = strings.ToLower(q.Question[0].Name) + "/" + dns.TypeToString[q.Question[0].Qtype]
		}
		if len(honest.Answer) > 0 {
			for _, rr := range honest.Answer {
				if ds, ok := rr.(*dns.DS); ok {
					if lv := w.levelOf(ds.Hdr.Name); lv > 0 {
						if !r.HasDS || ds.Hdr.Ttl < r.DSTTL {
							r.DSTTL = ds.Hdr.Ttl
						}
						r.Level, r.HasDS, r.DSOnly = lv, true, true
					}
				}
			}
			if !r.DSOnly {
				return honest
			}
		} else {
			nsSeen := false
			for _, rr := range honest.Ns {
				switch v := rr.(type) {
				case *dns.SOA:
					return honest
				case *dns.NS:
					lv := w.levelOf(v.Hdr.Name)
					if lv == 0 {
						return honest
					}
					if !nsSeen || v.Hdr.Ttl < r.NSTTL {
						r.NSTTL = v.Hdr.Ttl
					}
					nsSeen = true
					r.Level = lv
					if strings.HasPrefix(v.Ns, newNSTag) {
						r.New = true
					}
				case *dns.DS:
					if !r.HasDS || v.Hdr.Ttl < r.DSTTL {
						r.DSTTL = v.Hdr.Ttl
					}
					r.HasDS = true
				}
			}
			if !nsSeen || honest.Authoritative {
				return honest
			}
			// a referral only if the NS owner is below the zone that answered
			if strings.HasPrefix(server, "N") {
				r.New = true
			}
		}
		r.logLen = w.u.Log.Len()
		w.mu.Lock()
		r.N = len(w.ref)
		r.SentV = time.Since(w.t0) + w.sk
		w.ref = append(w.ref, r)
		w.mu.Unlock()
		return honest
	}
}

// windowClean reports whether the upstream traffic since the last quiescent
// point proves that a single resolution tree was at work. Every side tree
// sdns can run next to the tree of the one client question (or of the one
// background refresh) in flight — NS-address lookups for glueless or
// child-announced hosts, the periodic NS refresh (checkHosts), the detached
// IPv6 enrichment job, root priming — asks for an NS host's address or for
// the root NS set; a side tree that asks nothing upstream has nothing fresh
// to validate and therefore sends no DNSKEY query either.
func (w *world) windowClean(from int) bool {
	for _, pk := range w.u.Log.Since(from) {
		if pk.QNameL == "." && pk.QType == dns.TypeNS {
			return false
		}
		if (pk.QType == dns.TypeA || pk.QType == dns.TypeAAAA) && strings.HasPrefix(pk.QNameL, "ns") {
			return false // every NS host label starts with "ns"; no client question does
		}
	}
	return true
}

// settle runs at a quiescent point: it closes the observation window of
// every referral sent since the previous quiescent point.
func (w *world) settle() {
	w.mu.Lock()
	defer w.mu.Unlock()
	now := time.Since(w.t0) + w.sk
	from := w.winFrom
	w.winFrom = w.u.Log.Len()
	clean, cleanKnown := false, false
	for _, r := range w.ref {
		if r.Q >= 0 {
			continue
		}
		r.Q, r.QT = now, now
		// Level 1 is never narrowed: the root's keys are the resolver's
		// in-memory trust anchors, so a "./DNSKEY" query is not a step of a
		// resolution tree at all — it comes from the trust-anchor refresh
		// (RFC 5011), which runs next to everything else.
		if r.DSOnly || r.Level < 2 {
			continue
		}
		if !cleanKnown {
			clean, cleanKnown = w.windowClean(from), true
		}
		if !clean {
			w.unclean++
			continue
		}
		// PacketLog.At counts from the creation of the universe, which is
		// (slightly) before t0: the conversion over-estimates, which is the
		// sound direction for an upper bound.
		for _, pk := range w.u.Log.Since(r.logLen) {
			if pk.QType == dns.TypeDNSKEY && pk.QNameL == w.apex[r.Level-1] && !pk.Sink {
				if at := pk.At + w.sk; at < r.Q && at >= r.SentV {
					r.QT, r.Tight = at, true
					w.tight++
				}
				break
			}
		}
	}
}

// ttlOf is min(NS TTL, DS TTL) of a referral as sent. nsOnly leaves the DS
// out: a resolution tree that runs with CD=1 (a CD=1 client, or sdns's own
// NS-address / DS look-ups below an insecure cut) does not retain the
// referral's DS at all (validateDelegation, CD branch), so the leases of the
// CD=1 partition of the delegation cache — which only such trees read — are
// bounded by the NS TTL (and the ancestors of the same partition) alone.
func ttlOf(r *referral, nsOnly bool) time.Duration {
	ttl := r.NSTTL
	if !nsOnly && r.HasDS && r.DSTTL < ttl {
		ttl = r.DSTTL
	}
	return time.Duration(ttl) * time.Second
}

// limits are the per-level upper bounds derived from the referrals sent.
type limits struct {
	// lease[j]: the latest instant any referral sent so far can have leased
	// level j's delegation until, by the statement: max over referrals of
	// min(observed + min(NS TTL, DS TTL), stored + 12 h, lease of the level
	// above at that time), with observed ≤ QT and stored ≤ Q.
	lease []time.Duration
	// grant[j]: the same without the 12 h ceiling — what the PARENTS granted.
	// It only serves to classify a violation (data served after lease[j] but
	// within grant[j] is the resolver missing its own ceiling, not a ghost).
	grant []time.Duration
}

// bounds computes the limits for the CD=0 partition (what clients that
// validate are served from). oldOnly ignores referrals of the re-pointed
// generation.
func (w *world) bounds(oldOnly bool) limits { return w.boundsFor(oldOnly, false) }

// boundsFor with cd1=true gives the limits of the CD=1 partition (see ttlOf).
func (w *world) boundsFor(oldOnly, cd1 bool) limits {
	w.mu.Lock()
	defer w.mu.Unlock()
	n := len(w.apex)
	l := limits{lease: make([]time.Duration, n), grant: make([]time.Duration, n)}
	l.lease[0], l.grant[0] = noBound, noBound
	for j := 1; j < n; j++ {
		l.lease[j], l.grant[j] = -1, -1
	}
	for _, r := range w.ref {
		if r.DSOnly || r.Level == 0 || (oldOnly && r.New) {
			continue
		}
		q, qt := r.Q, r.QT
		if q < 0 {
			q = time.Since(w.t0) + w.sk
			qt = q
		}
		g := min(qt+ttlOf(r, cd1), l.grant[r.Level-1])
		b := min(qt+ttlOf(r, cd1), q+ceiling, l.lease[r.Level-1])
		if g > l.grant[r.Level] {
			l.grant[r.Level] = g
		}
		if b > l.lease[r.Level] {
			l.lease[r.Level] = b
		}
	}
	return l
}

// dsBound is the latest instant the victim's own (parent-side) DS RRset may
// still be served from the parent's explicit answers or referrals.
func (w *world) dsBound() time.Duration {
	w.mu.Lock()
	defer w.mu.Unlock()
	var out time.Duration = -1
	for _, r := range w.ref {
		if r.Level != w.sc.Victim || r.New || !r.HasDS {
			continue
		}
		q := r.Q
		if q < 0 {
			q = time.Since(w.t0) + w.sk
		}
		if b := q + time.Duration(r.DSTTL)*time.Second; b > out {
			out = b
		}
	}
	return out
}

// change makes the parent withdraw or re-point the victim at a quiescent
// point. The old child stays alive and keeps its long TTLs.
func (w *world) change() {
	sc := w.sc
	parent := w.zones[sc.Victim-1]
	stable := append([]*zm.Zone(nil), w.zones[:sc.Victim]...)
	switch sc.Mode {
	case "withdraw":
		parent.Undelegate(w.victimApex)
		w.nsNew = zm.NewNamespace(stable...)
	default:
		l := sc.Levels[sc.Victim-1]
		nz := w.newGen[sc.Victim]
		host := zm.NSHost{Name: nz.Spec().NSHosts[0]}
		for _, t := range []uint16{dns.TypeA, dns.TypeAAAA} {
			if set := nz.RRset(host.Name, t); set != nil {
				for _, rr := range set.RRs {
					switch a := rr.(type) {
					case *dns.A:
						host.Addrs = append(host.Addrs, a.A)
					case *dns.AAAA:
						host.Addrs = append(host.Addrs, a.AAAA)
					}
				}
			}
		}
		ds := w.dsFor(nz, l, 1)
		parent.Delegate(zm.DelegationSpec{Child: w.victimApex, NS: []zm.NSHost{host}, DS: ds, NSTTL: l.NSTTL, DSTTL: l.DSTTL, GlueTTL: l.NSTTL})
		all := stable
		for j := sc.Victim; j <= w.depth(); j++ {
			all = append(all, w.newGen[j])
		}
		w.nsNew = zm.NewNamespace(all...)
	}
	if w.sib != nil {
		w.nsNew.Add(w.sib)
	}
	if sc.NSChange {
		// whatever the old child now says about itself must not matter
		old := w.zones[sc.Victim]
		srv := w.u.ServersOf(old.Apex())
		w.setChildNS(old, srv[0], "nsy")
		old.AuthorityNS = true
	}
	w.changed = true
}
