package main

import (
	"fmt"
	"strings"

	"github.com/miekg/dns"
	zm "github.com/semihalev/sdns/zzverif/zonemodel"
)

// probe is one client question.
type probe struct {
	Name  string `json:"name"`
	Type  uint16 `json:"type"`
	DO    bool   `json:"do"`
	CD    bool   `json:"cd,omitempty"` // restart scenarios only: the key the resolver's own look-ups use
	Kind  string `json:"kind"`         // www hot txt fresh onlyold onlynew ns dnskey ds-victim ds-deeper sr
	Level int    `json:"level"`
}

func (p probe) String() string {
	if p.CD {
		return fmt.Sprintf("%s/%s(%s,L%d,do=%v,cd=1)", p.Name, dns.TypeToString[p.Type], p.Kind, p.Level, p.DO)
	}
	return fmt.Sprintf("%s/%s(%s,L%d,do=%v)", p.Name, dns.TypeToString[p.Type], p.Kind, p.Level, p.DO)
}

func underOrAt(apex, name string) bool { return zm.IsSub(apex, strings.ToLower(name)) }

// oldData returns a description of the first record of the reply that can
// only have been learned through the OLD delegation of the victim ("" = none).
// dsVictimToo also treats the victim's own DS RRset (parent data) as old.
func (w *world) oldData(reply *dns.Msg, dsVictimToo bool) (kind, detail string) {
	if reply == nil {
		return "", ""
	}
	va := w.victimApex
	for si, sec := range [][]dns.RR{reply.Answer, reply.Ns, reply.Extra} {
		secName := [...]string{"answer", "authority", "additional"}[si]
		for _, rr := range sec {
			h := rr.Header()
			owner := strings.ToLower(h.Name)
			switch v := rr.(type) {
			case *dns.OPT:
				continue
			case *dns.A, *dns.AAAA, *dns.TXT, *dns.MX:
				for j := w.sc.Victim; j <= w.depth(); j++ {
					if mi, ok := w.zones[j].LookupMarker(rr); ok {
						return "marker", fmt.Sprintf("%s: %s (published by the old %s as %s)", secName, rr.String(), mi.Zone, mi.Marker)
					}
				}
			case *dns.DNSKEY:
				if w.oldKeys[zm.RdataKey(rr)] {
					return "dnskey", secName + ": " + short(rr)
				}
			case *dns.DS:
				k := zm.RdataKey(rr)
				if w.oldDS[k] {
					return "ds-deeper", secName + ": " + short(rr)
				}
				if dsVictimToo && w.victimDS[k] {
					return "ds-victim", secName + ": " + short(rr)
				}
			case *dns.NS:
				if w.childOnly[strings.ToLower(v.Ns)] {
					return "child-ns", secName + ": " + rr.String()
				}
				// a deeper cut announced by an old zone
				if underOrAt(va, owner) && owner != va && !strings.HasPrefix(strings.ToLower(v.Ns), newNSTag) {
					return "deeper-ns", secName + ": " + rr.String()
				}
			case *dns.SOA:
				if underOrAt(va, owner) && (w.sc.Mode == "withdraw" || v.Serial == 1) {
					return "soa", secName + ": " + rr.String()
				}
			case *dns.NSEC:
				// The NSEC owned by the victim's apex exists on both sides
				// of the cut: the PARENT's copy (delegation point: no SOA in
				// the bitmap; it is the parent's DS denial and lives by the
				// parent's own TTL) and the child's apex NSEC (SOA set).
				// Only the child's copy was learned through the delegation.
				if owner == va && !hasType(v.TypeBitMap, dns.TypeSOA) {
					continue
				}
				if underOrAt(va, owner) && w.sc.Mode == "withdraw" {
					return "denial", secName + ": " + short(rr)
				}
			case *dns.NSEC3:
				// owner = hash.<zone>: below the victim's apex only for the
				// old zones' own chains, never for the parent's
				if underOrAt(va, owner) && w.sc.Mode == "withdraw" {
					return "denial", secName + ": " + short(rr)
				}
			case *dns.RRSIG:
				signer := strings.ToLower(v.SignerName)
				if ot := w.oldTags[signer]; ot != nil && ot[v.KeyTag] && !w.newTags[signer][v.KeyTag] {
					return "rrsig", secName + ": " + short(rr)
				}
			}
		}
	}
	return "", ""
}

func hasType(bm []uint16, t uint16) bool {
	for _, x := range bm {
		if x == t {
			return true
		}
	}
	return false
}

func short(rr dns.RR) string {
	s := rr.String()
	if len(s) > 160 {
		s = s[:160] + "…"
	}
	return s
}

// newTruth classifies a reply without old data against the NEW parent state:
// "servfail", "new-nxdomain", "new-answer", "new-nodata", or "other:<why>".
func (w *world) newTruth(p probe, reply *dns.Msg) string {
	if reply == nil {
		return "other:no-reply"
	}
	if reply.Rcode == dns.RcodeServerFailure {
		return "servfail"
	}
	want := w.nsNew.Resolve(p.Name, p.Type)
	switch {
	case want.Rcode == dns.RcodeNameError:
		if reply.Rcode == dns.RcodeNameError {
			return "new-nxdomain"
		}
		return fmt.Sprintf("other:want-NXDOMAIN-got-%s/%d-answers", dns.RcodeToString[reply.Rcode], len(reply.Answer))
	case len(want.Answer) > 0:
		if reply.Rcode != dns.RcodeSuccess {
			return "other:want-answer-got-" + dns.RcodeToString[reply.Rcode]
		}
		if why := zm.AnswerMatches(stripSigs(reply.Answer), want.Answer); why != "" {
			return "other:answer-differs:" + why
		}
		return "new-answer"
	default:
		if reply.Rcode == dns.RcodeSuccess && len(stripSigs(reply.Answer)) == 0 {
			return "new-nodata"
		}
		return fmt.Sprintf("other:want-NODATA-got-%s/%d-answers", dns.RcodeToString[reply.Rcode], len(reply.Answer))
	}
}

// stripSigs drops the RRSIGs and returns copies with TTL 0: which records the
// reply carries is this monitor's subject, how large their TTLs are is not
// (the 5 s cache floor legitimately lifts a 1–4 s TTL; TTL fidelity is C04's).
func stripSigs(in []dns.RR) []dns.RR {
	var out []dns.RR
	for _, rr := range in {
		if _, ok := rr.(*dns.RRSIG); !ok {
			c := dns.Copy(rr)
			c.Header().Ttl = 0
			out = append(out, c)
		}
	}
	return out
}
