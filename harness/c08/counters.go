package main

import mcache "github.com/semihalev/sdns/middleware/cache"

// prefetches is the process-global count of completed background refreshes.
func prefetches() int64 { return mcache.VerifC04Counters()["prefetches"] }
