package main

// Restart scenarios (index >= restartBase): resolution that RE-ENTERS itself
// inside the resolver's own DS / DNSKEY sub-queries.
//
// The statement bounds "every … DS/DNSKEY record … learned through the old
// delegation" by the lease of that delegation AND of every shallower one on
// the path. The records the resolver fetches for itself (DS look-ups, DNSKEY
// look-ups) are filed under their own cache keys by a walk of their own; the
// walk can start far above the delegation the record finally comes through,
// and it can abandon its descent and start again (QNAME-minimisation "parent
// detection": a referral that is shallower than the level the minimised walk
// had already reached). Whatever lifetime the stored record gets has to cover
// the leases of the descent that really produced it.
//
// What drives such walks here (all of it ordinary, if sloppy, authority
// behaviour; the oracle is the unchanged lease arithmetic on the referrals
// that were sent):
//
//   - a BARE referral: the servers of level Bare-1 refer to level Bare
//     without any DNSSEC record (no DS, no denial, no signatures). Below a
//     secure parent the resolver then has to ask for the child's DS itself;
//     it does so with checking disabled, i.e. through the OTHER partition of
//     the delegation cache, where the path is not cached: the look-up walks
//     from the root (or from whatever that partition still holds);
//   - a parent that is SLOPPY about DS questions: the servers of level
//     Sloppy answer the DS question for their delegation point (as they
//     must) and also, with an empty NODATA from their own zone, DS questions
//     for names up to Empty labels below it; only for longer names do they
//     send the referral. With QNAME minimisation on, the minimised DS walk is
//     two or more labels below the cut when the referral finally arrives, and
//     the resolver restarts the look-up from its deepest cached cut with
//     minimisation off;
//   - the level with the SHORT lease lies between the two, so the delegation
//     the restarted walk descends through has a shorter lease than the
//     ancestor the abandoned walk had reached;
//   - clients also ask the bare child's DS with CD=1 — the key the resolver's
//     own look-up is filed under — before the change and after the bound.
//
// Evidence: restarts are recognised in what the sloppy servers saw (the same
// full question again after the referral had been delivered, inside one
// client question), and the cache entries such a sub-query wrote are counted
// as they pass the (general) cut inspection.

import (
	"fmt"
	"math/rand/v2"
	"strings"
	"sync"

	"github.com/miekg/dns"
	"github.com/semihalev/sdns/zzverif/authsim"
)

// restartBase is the first index of the restart scenarios (own index space).
const restartBase = 2 << 20

// RestartSpec are the parameters of one restart scenario (levels are 1-based,
// one label per level).
type RestartSpec struct {
	// Sloppy: the level whose servers answer DS questions for names up to
	// Empty labels below their delegation point (level Sloppy+1) themselves.
	Sloppy int `json:"sloppy_level"`
	Empty  int `json:"empty_labels"`
	// Style of the sloppy answer: "nodata-soa" (unsigned SOA of the own zone)
	// or "empty" (NOERROR, nothing else).
	Style string `json:"style"`
	// Short: the level with the short lease (Sloppy < Short < Bare); it is the
	// scenario's victim.
	Short int `json:"short_level"`
	// Bare: the level whose referral (sent by level Bare-1) carries no DNSSEC
	// records.
	Bare int `json:"bare_level"`
}

func genRestart(rng *rand.Rand, seed uint64, index int) *Scenario {
	sc := genScenario(rng, seed, index) // client behaviour, child behaviour, timing
	j := index - restartBase
	rs := &RestartSpec{Style: []string{"nodata-soa", "empty"}[j%2]}
	depth := 4 + rng.IntN(2)
	sc.QMin = []int{3, 5}[rng.IntN(2)]
	rs.Sloppy, rs.Empty, rs.Bare = 1, 1, 4
	if depth == 5 {
		switch rng.IntN(4) {
		case 0:
			rs.Bare = 5
		case 1:
			rs.Empty, rs.Bare, sc.QMin = 2, 5, 5
		case 2:
			rs.Sloppy, rs.Bare, sc.QMin = 2, 5, 5
		}
	}
	// the minimised walk must still be minimising at the last sloppy name
	// (asked at level Sloppy+Empty) for the referral to arrive late
	if sc.QMin <= rs.Sloppy+rs.Empty {
		sc.QMin = 5
	}
	rs.Short = rs.Sloppy + 1 + rng.IntN(rs.Bare-rs.Sloppy-1)
	sc.Levels = nil
	for i := 1; i <= depth; i++ {
		letter := 'a' + byte(rng.IntN(20))
		if letter == 'f' {
			letter = 'u'
		}
		l := LevelSpec{Label: fmt.Sprintf("%c%d", letter, i), Servers: 1 + rng.IntN(2), Signed: true, Secure: true,
			NSTTL: 172800, DSTTL: 172800}
		l.NSEC3 = rng.IntN(2) == 0
		sc.Levels = append(sc.Levels, l)
	}
	// one server: "the same question again" then proves a second look-up (the
	// resolver asks its two best servers at once)
	sc.Levels[rs.Sloppy-1].Servers = 1
	sc.IPv6 = false
	// the bare child is secure two times out of three; whatever is below an
	// insecure one is insecure as well
	if rng.IntN(3) == 0 {
		for i := rs.Bare; i <= depth; i++ {
			sc.Levels[i-1].Secure = false
			sc.Levels[i-1].Signed = rng.IntN(2) == 0
		}
	}
	sh := &sc.Levels[rs.Short-1]
	sh.NSTTL = ttlChoices[3+rng.IntN(6)] // 5 s … 90 s
	if rng.IntN(2) == 0 {
		sh.DSTTL = sh.NSTTL
	}
	sc.Victim = rs.Short
	sc.Mode = []string{"withdraw", "repoint"}[(j/2)%2]
	sc.Glueless = false
	sc.RootTTL = 172800
	sc.HotTTL = 20 + uint32(rng.IntN(40))
	sc.SoonAfter = true
	sc.Rounds = 2
	// every second one lets the short lease run out and be renewed before the
	// change: each renewal is another cold look-up
	if (j/4)%2 == 0 {
		sc.WithdrawAt = "renewed"
	}
	sc.Restart = rs
	return sc
}

// restartEvent is something a sloppy server did, in the order it happened.
type restartEvent struct {
	Kind  string // "sloppy" (answered a DS question itself) | "late-referral" (referred a DS question for a name further down)
	Q     string // question (lower case name / type)
	CD    bool
	AtLog int // packet-log length when it happened
}

type restartState struct {
	mu     sync.Mutex
	events []restartEvent
}

func labelsOf(name string) int { return dns.CountLabel(name) }

// referralTo reports whether m is a referral to apex (NS RRset owned by apex
// in the authority section of a non-authoritative NOERROR reply).
func referralTo(m *dns.Msg, apex string) bool {
	if m == nil || m.Rcode != dns.RcodeSuccess || m.Authoritative || len(m.Answer) > 0 {
		return false
	}
	for _, rr := range m.Ns {
		if ns, ok := rr.(*dns.NS); ok && strings.EqualFold(ns.Hdr.Name, apex) {
			return true
		}
	}
	return false
}

// installRestart scripts the sloppy level and the bare referral. Called by
// buildWorld after the recorders are in place.
func (w *world) installRestart(srv [][]*authsim.Server) {
	rs := w.sc.Restart
	w.restart = &restartState{}
	cut := w.apex[rs.Sloppy+1]
	own := w.zones[rs.Sloppy]
	lo, hi := labelsOf(cut)+1, labelsOf(cut)+rs.Empty
	for _, s := range srv[rs.Sloppy] {
		rec := w.recorder(s.Name)
		s.AddRule(authsim.Rule{Type: dns.TypeDS,
			Match: func(p *authsim.Packet) bool { return underOrAt(cut, p.QNameL) && labelsOf(p.QNameL) >= lo },
			Action: authsim.Tamper("ds-below-cut", func(q, honest *dns.Msg) *dns.Msg {
				// only where an honest server would refer to the cut (not once
				// the zone is gone)
				if !referralTo(honest, cut) {
					return rec(q, honest)
				}
				qn := strings.ToLower(q.Question[0].Name)
				ev := restartEvent{Q: qn + "/DS", CD: q.CheckingDisabled, AtLog: w.u.Log.Len()}
				if labelsOf(qn) > hi {
					ev.Kind = "late-referral"
					w.restart.add(ev)
					return rec(q, honest)
				}
				ev.Kind = "sloppy"
				w.restart.add(ev)
				m := new(dns.Msg)
				m.SetReply(q)
				m.Authoritative = true
				if rs.Style == "nodata-soa" {
					if set := own.RRset(own.Apex(), dns.TypeSOA); set != nil && len(set.RRs) > 0 {
						m.Ns = []dns.RR{dns.Copy(set.RRs[0])}
					}
				}
				if opt := q.IsEdns0(); opt != nil {
					m.SetEdns0(1232, opt.Do())
				}
				return m
			})})
	}
	child := w.apex[rs.Bare]
	for _, s := range srv[rs.Bare-1] {
		rec := w.recorder(s.Name)
		s.SetDefault(authsim.Tamper("honest", func(q, honest *dns.Msg) *dns.Msg {
			if !referralTo(honest, child) {
				return rec(q, honest)
			}
			m := honest.Copy()
			var ns []dns.RR
			for _, rr := range m.Ns {
				switch rr.(type) {
				case *dns.DS, *dns.NSEC, *dns.NSEC3, *dns.RRSIG:
				default:
					ns = append(ns, rr)
				}
			}
			m.Ns = ns
			var extra []dns.RR
			for _, rr := range m.Extra {
				if _, ok := rr.(*dns.RRSIG); !ok {
					extra = append(extra, rr)
				}
			}
			m.Extra = extra
			w.restart.mu.Lock()
			w.bareSent++
			w.restart.mu.Unlock()
			return rec(q, m) // the recorder sees what really leaves the server
		}))
	}
}

func (s *restartState) add(e restartEvent) {
	s.mu.Lock()
	s.events = append(s.events, e)
	s.mu.Unlock()
}

// restartsSince counts the look-ups that were restarted inside the client
// question whose upstream traffic starts at packet-log position from: a
// sloppy answer, then the referral for a longer name, then the SAME question
// at the same (single) server again. sub counts those whose CD bit differs
// from the client's — look-ups the resolver made for itself.
func (w *world) restartsSince(from int, clientCD bool) (all, sub int) {
	if w.restart == nil {
		return
	}
	w.restart.mu.Lock()
	defer w.restart.mu.Unlock()
	sloppy := map[bool]bool{}
	referred := map[string]bool{}
	for _, e := range w.restart.events {
		if e.AtLog < from {
			continue
		}
		key := fmt.Sprintf("%s cd=%v", e.Q, e.CD)
		switch {
		case e.Kind == "sloppy":
			sloppy[e.CD] = true
		case !sloppy[e.CD]:
		case referred[key]:
			all++
			if e.CD != clientCD {
				sub++
			}
			delete(referred, key)
		default:
			referred[key] = true
		}
	}
	return
}

// restartProbes are the extra client questions of a restart scenario: the bare
// child's DS with CD=1 (the key the resolver's own look-up uses) and with CD=0.
func (w *world) restartProbes(rng *rand.Rand) []probe {
	rs := w.sc.Restart
	if rs == nil {
		return nil
	}
	ps := []probe{
		{Name: w.apex[rs.Bare], Type: dns.TypeDS, DO: true, CD: true, Kind: "ds-cd1", Level: rs.Bare},
		w.mk("www", rs.Bare, "www", dns.TypeA, rng),
	}
	if rng.IntN(2) == 0 {
		ps = append(ps, probe{Name: w.apex[rs.Bare], Type: dns.TypeDS, DO: true, Kind: "ds-deeper", Level: rs.Bare})
	}
	return ps
}

// keepProbe drops the client questions a restart scenario must not ask: a DS
// question for one of the names the sloppy servers answer themselves would be
// a final (bogus) answer of theirs, not a step of a walk.
func (w *world) keepProbe(p probe) bool {
	rs := w.sc.Restart
	if rs == nil || p.Type != dns.TypeDS {
		return true
	}
	cut := w.apex[rs.Sloppy+1]
	n := labelsOf(p.Name) - labelsOf(cut)
	return !(underOrAt(cut, p.Name) && n >= 1 && n <= rs.Empty)
}

func (w *world) filterProbes(ps []probe) []probe {
	if w.sc.Restart == nil {
		return ps
	}
	out := ps[:0:0]
	for _, p := range ps {
		if w.keepProbe(p) {
			out = append(out, p)
		}
	}
	return out
}
