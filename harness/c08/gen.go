package main

import (
	"fmt"
	"math/rand/v2"
	"strings"
)

// LevelSpec describes one zone of the delegation chain below the root
// (level 1 = delegated by the root).
type LevelSpec struct {
	Label   string `json:"label"`
	Signed  bool   `json:"signed"`
	NSEC3   bool   `json:"nsec3,omitempty"`
	Secure  bool   `json:"secure"` // the parent publishes a usable DS (whole chain above is secure too)
	// DSKind says what else the parent's DS RRset holds (all records signed by
	// the parent, all with DSTTL):
	//   ""          the child's SHA-256 DS (Secure) or no DS RRset at all
	//   "mixed"     Secure: the usable DS plus records with a digest type / key
	//               algorithm no validator here implements
	//   "unusable"  not Secure: ONLY such records — the child is insecure
	//               (RFC 6840 §5.2), but the referral still carries a DS RRset
	//               whose TTL is a term of the lease
	DSKind string `json:"ds_kind,omitempty"`
	NSTTL   uint32 `json:"ns_ttl"`
	DSTTL   uint32 `json:"ds_ttl"`
	Servers int    `json:"servers"`
}

// Scenario is the serialisable description of one generated history. Every
// random decision taken while the scenario runs comes from the PCG stream
// keyed by (seed, "run", Index), so (Seed, Index) replays it.
type Scenario struct {
	Seed   uint64      `json:"seed"`
	Index  int         `json:"index"`
	Levels []LevelSpec `json:"levels"`
	Victim int         `json:"victim"` // 1-based level whose delegation the parent withdraws / re-points
	Mode   string      `json:"mode"`   // "withdraw" | "repoint"
	QMin   int         `json:"qname_min_level"`
	IPv6   bool        `json:"ipv6access"`

	// RootTTL is the TTL of the root zone's own records (DNSKEY, NS, SOA):
	// 3600, or 172800 as in the real root. Anything the resolver validates
	// with a cached root-signed record is additionally bounded by that
	// record's lifetime, which can hide the lease; the long value keeps the
	// delegation lease the only bound.
	RootTTL uint32 `json:"root_ttl"`
	LongTTL uint32 `json:"long_ttl"` // TTL of the child's ordinary answers
	HotTTL  uint32 `json:"hot_ttl"`  // TTL of the names kept hot (sized against the lease so prefetch fires inside it)

	SelfReferral bool `json:"self_referral"` // old child answers *.sr.<apex> with a referral to itself (huge TTL)
	HugeApexNS   bool `json:"huge_apex_ns"`  // old child publishes a different apex NS set with a 2 d TTL and adds it to every answer
	NSChange     bool `json:"ns_change"`     // old child changes its apex NS set again at withdrawal time
	// Glueless: the victim has two servers and the parent publishes glue for
	// the first NS host only, so sdns has to look the second one up through a
	// provisional delegation entry (Resolver.lookupV4Nss). The stored leases
	// are inspected while that lookup is in flight.
	Glueless bool `json:"glueless_second_ns"`

	WithdrawAt string `json:"withdraw_at"` // "early" | "mid" | "late" | "renewed"
	Rounds     int    `json:"rounds"`

	// ---- focus scenarios only (index >= focusBase) ----------------------------
	Focus string `json:"focus,omitempty"` // family name
	// DNSSECOff: the resolver runs with dnssec = "off" (no DO upstream, so the
	// referrals it gets carry no DS RRset at all).
	DNSSECOff bool `json:"dnssec_off,omitempty"`
	// Alias: a sibling zone of level 1, delegated by the root with a long lease
	// and never changed, holds CNAMEs into the victim's zones.
	Alias *AliasSpec `json:"alias,omitempty"`
	// SoonAfter: the first round past the bound is placed within seconds of it
	// (entries that wrongly survive the lease may have short lives of their own).
	SoonAfter bool `json:"soon_after_bound,omitempty"`

	// ---- restart scenarios only (index >= restartBase, restart.go) ------------
	Restart *RestartSpec `json:"restart,omitempty"`
}

// AliasSpec describes the long-leased sibling zone and its aliases.
type AliasSpec struct {
	Signed   bool   `json:"signed"` // signed, with a DS at the root
	NSTTL    uint32 `json:"ns_ttl"`
	CNAMETTL uint32 `json:"cname_ttl"`
	// Targets: what the OLD child says about each alias target (a name directly
	// below the victim's apex; "deep-positive": www.<deepest zone>):
	//   positive | nxdomain-soa | nxdomain-bare | nodata-soa | nodata-bare | deep-positive
	// The re-pointed generation publishes an A record for every target.
	Targets []string `json:"targets"`
	// TargetsFirst: every round asks the targets themselves before the aliases,
	// so that an alias is first derived from a target entry that is already
	// cached (otherwise the alias's own chase fetches the target).
	TargetsFirst bool `json:"targets_first,omitempty"`
}

var aliasShapes = []string{"positive", "nxdomain-soa", "nxdomain-bare", "nodata-soa", "nodata-bare", "deep-positive"}

// focusBase is the first index of the focus scenarios: the scenarios added for
// the DS-usability and cross-zone-alias dimensions live in their own index
// space, so that the older scenarios stay what they were.
const focusBase = 1 << 20

var focusFamilies = []string{"ds-unusable", "alias-dnssec-off", "ds-mixed", "alias-insecure"}

// genFocus derives focus scenario j (index focusBase+j) from an ordinary
// generated one.
func genFocus(rng *rand.Rand, seed uint64, index int) *Scenario {
	sc := genScenario(rng, seed, index)
	j := index - focusBase
	fam := focusFamilies[j%len(focusFamilies)]
	round := j / len(focusFamilies)
	sc.Focus = fam
	v := &sc.Levels[sc.Victim-1]
	depth := len(sc.Levels)
	short := ttlChoices[2+rng.IntN(7)] // 3 s … 90 s
	long := []uint32{3600, 86400, 172800}[rng.IntN(3)]
	secureAbove := func() {
		for i := 0; i < sc.Victim-1; i++ {
			sc.Levels[i].Signed, sc.Levels[i].Secure, sc.Levels[i].DSKind = true, true, ""
		}
	}
	insecureBelow := func() {
		for i := sc.Victim; i < depth; i++ {
			sc.Levels[i].Secure, sc.Levels[i].DSKind = false, ""
		}
	}
	switch fam {
	case "ds-unusable":
		// the chain is secure down to the victim's parent, which publishes a DS
		// RRset for the victim that nobody can use
		secureAbove()
		v.Secure, v.DSKind = false, "unusable"
		v.Signed = rng.IntN(2) == 0
		insecureBelow()
	case "ds-mixed":
		secureAbove()
		v.Signed, v.Secure, v.DSKind = true, true, "mixed"
	case "alias-dnssec-off":
		sc.DNSSECOff = true
	case "alias-insecure":
		// an insecure victim: no DS at all, or only unusable ones
		secureAbove()
		v.Secure = false
		v.Signed = rng.IntN(3) == 0
		v.DSKind = []string{"", "unusable"}[rng.IntN(2)]
		insecureBelow()
	}
	// DS TTL != NS TTL at the victim; three times out of four the DS is the
	// shorter one. Everything above the victim is long, so the victim's own
	// terms decide.
	for i := 0; i < sc.Victim-1; i++ {
		sc.Levels[i].NSTTL, sc.Levels[i].DSTTL = 172800, 172800
	}
	if round%4 != 3 {
		v.NSTTL, v.DSTTL = long, short
	} else {
		v.NSTTL, v.DSTTL = short, long
	}
	if strings.HasPrefix(fam, "alias-") {
		// dnssec off / no DS RRset: the NS TTL is the only term; in any case the
		// victim's lease has to end long before the aliases' own TTLs do
		v.NSTTL = short
	}
	for i := sc.Victim; i < depth; i++ {
		sc.Levels[i].NSTTL, sc.Levels[i].DSTTL = 172800, 172800
	}
	sc.RootTTL = 172800
	sc.LongTTL = []uint32{3600, 86400, 172800}[rng.IntN(3)]
	sc.HotTTL = 20 + uint32(rng.IntN(40))
	// two thirds re-point: only there a denial of the old child differs from
	// the new parent state
	sc.Mode = "repoint"
	if round%3 == 2 {
		sc.Mode = "withdraw"
	}
	sc.WithdrawAt = []string{"early", "mid", "late", "renewed"}[rng.IntN(4)]
	sc.SoonAfter = rng.IntN(4) != 0
	al := &AliasSpec{Signed: !sc.DNSSECOff && rng.IntN(2) == 0, NSTTL: 172800, CNAMETTL: []uint32{300, 3600, 86400}[rng.IntN(3)]}
	al.Targets = append(al.Targets, aliasShapes[:5]...)
	if depth > sc.Victim {
		al.Targets = append(al.Targets, "deep-positive")
	}
	al.TargetsFirst = round%2 == 1
	sc.Alias = al
	return sc
}

// ttlChoices spans 1 s … 2 d.
var ttlChoices = []uint32{1, 2, 3, 5, 8, 13, 30, 60, 90, 300, 600, 1800, 3600, 7200, 21600, 43200, 86400, 172800}

func pickTTL(rng *rand.Rand) uint32 { return ttlChoices[rng.IntN(len(ttlChoices))] }

// leaseOf returns min(NS, DS if secure, 12 h) of a level.
func leaseOf(l LevelSpec) uint32 {
	v := l.NSTTL
	if (l.Secure || l.DSKind != "") && l.DSTTL < v {
		v = l.DSTTL
	}
	if v > 43200 {
		v = 43200
	}
	return v
}

func genScenario(rng *rand.Rand, seed uint64, index int) *Scenario {
	sc := &Scenario{Seed: seed, Index: index}
	depth := 2 + rng.IntN(3) // 2..4
	secure := true
	for i := 1; i <= depth; i++ {
		// letter + level; never 'f': "f<level>" is also the name of a fresh-name
		// probe (f0 … f13) one level up
		letter := 'a' + byte(rng.IntN(20))
		if letter == 'f' {
			letter = 'u'
		}
		l := LevelSpec{Label: fmt.Sprintf("%c%d", letter, i), Servers: 1 + rng.IntN(2)}
		l.NSTTL, l.DSTTL = pickTTL(rng), pickTTL(rng)
		switch x := rng.IntN(10); {
		case !secure:
			l.Signed = x < 3 // island of security below an insecure cut
		case x < 7:
			l.Signed, l.Secure = true, true
		case x < 8:
			l.Signed = true // signed child, parent publishes no DS
		}
		if !l.Secure {
			secure = false
		}
		l.NSEC3 = l.Signed && rng.IntN(2) == 0
		sc.Levels = append(sc.Levels, l)
	}
	sc.Victim = 1 + rng.IntN(depth)
	// prefer victims with something below them (deeper delegations learned
	// through the old delegation) half of the time
	if sc.Victim == depth && depth > 2 && rng.IntN(2) == 0 {
		sc.Victim = 1 + rng.IntN(depth-1)
	}
	// structured TTL shapes around the victim, so that every clause of the
	// lease formula decides somewhere
	v := &sc.Levels[sc.Victim-1]
	switch index % 6 {
	case 0: // DS shorter than NS
		if v.Secure {
			v.NSTTL, v.DSTTL = 86400, ttlChoices[3+rng.IntN(8)]
		}
	case 1: // NS shorter than DS
		v.NSTTL, v.DSTTL = ttlChoices[3+rng.IntN(8)], 172800
	case 2: // an ancestor is the shortest, the victim and everything below are long
		if sc.Victim > 1 {
			a := &sc.Levels[rng.IntN(sc.Victim-1)]
			a.NSTTL, a.DSTTL = ttlChoices[5+rng.IntN(6)], ttlChoices[5+rng.IntN(6)]
			v.NSTTL, v.DSTTL = 172800, 172800
		}
	case 3: // everything long: the 12 h ceiling decides
		for i := range sc.Levels {
			sc.Levels[i].NSTTL, sc.Levels[i].DSTTL = 172800, 86400+uint32(rng.IntN(2))*86400
		}
	case 4: // the victim is short, the levels below it are long (inheritance downwards)
		v.NSTTL, v.DSTTL = ttlChoices[4+rng.IntN(7)], ttlChoices[4+rng.IntN(7)]
		for i := sc.Victim; i < depth; i++ {
			sc.Levels[i].NSTTL, sc.Levels[i].DSTTL = 172800, 172800
		}
	}
	if rng.IntN(3) == 0 {
		sc.Mode = "repoint"
	} else {
		sc.Mode = "withdraw"
	}
	sc.QMin = []int{0, 3, 3, 5}[rng.IntN(4)]
	sc.IPv6 = rng.IntN(5) == 0
	sc.RootTTL = []uint32{3600, 172800, 172800}[rng.IntN(3)]
	if index%6 == 3 {
		sc.RootTTL = 172800
	}
	lease := leaseOf(*v)
	for i := 0; i < sc.Victim-1; i++ {
		if a := leaseOf(sc.Levels[i]); a < lease {
			lease = a
		}
	}
	sc.LongTTL = []uint32{3600, 86400, 172800}[rng.IntN(3)]
	// hot names: TTL somewhat below the lease so that the 10 % prefetch
	// window opens while the lease is still running
	switch {
	case lease >= 40:
		sc.HotTTL = lease/2 + uint32(rng.IntN(int(lease/3)))
	default:
		sc.HotTTL = 20 + uint32(rng.IntN(40))
	}
	sc.SelfReferral = rng.IntN(2) == 0
	sc.HugeApexNS = rng.IntN(3) != 0
	sc.NSChange = rng.IntN(2) == 0
	sc.Glueless = rng.IntN(3) == 0
	if sc.Glueless {
		v.Servers = 2
	}
	sc.WithdrawAt = []string{"early", "mid", "late", "renewed"}[rng.IntN(4)]
	sc.Rounds = 2 + rng.IntN(2)
	return sc
}

// Shape is the distinct-case key: depth, victim level, mode, security of
// the victim cut, and which term of the lease formula is the smallest.
func (sc *Scenario) Shape() string {
	v := sc.Levels[sc.Victim-1]
	sec := "insecure"
	if v.Secure {
		sec = "secure"
	}
	term := "ns"
	lease := v.NSTTL
	if (v.Secure || v.DSKind != "") && v.DSTTL < lease && !sc.DNSSECOff {
		term, lease = "ds", v.DSTTL
	}
	if lease > 43200 {
		term, lease = "ceiling", 43200
	}
	for i := 0; i < sc.Victim-1; i++ {
		if a := leaseOf(sc.Levels[i]); a < lease {
			term, lease = "ancestor", a
		}
	}
	shape := fmt.Sprintf("d%d/v%d/%s/%s/min=%s/%s", len(sc.Levels), sc.Victim, sc.Mode, sec, term, bucket(lease))
	if v.DSKind != "" {
		shape += "/ds=" + v.DSKind
	}
	if sc.DNSSECOff {
		shape += "/dnssec-off"
	}
	if sc.Alias != nil {
		shape += "/alias"
	}
	if rs := sc.Restart; rs != nil {
		shape += fmt.Sprintf("/restart[s%d,e%d,b%d,%s,qmin%d]", rs.Sloppy, rs.Empty, rs.Bare, rs.Style, sc.QMin)
	}
	return shape
}

func bucket(ttl uint32) string {
	switch {
	case ttl < 5:
		return "<5s"
	case ttl < 60:
		return "<1m"
	case ttl < 3600:
		return "<1h"
	case ttl < 43200:
		return "<12h"
	}
	return "12h"
}

func (sc *Scenario) String() string {
	var b strings.Builder
	fmt.Fprintf(&b, "#%d %s victim=L%d qmin=%d v6=%v rootttl=%d hot=%d long=%d sr=%v huge=%v nschg=%v glueless=%v at=%s levels:", sc.Index, sc.Mode, sc.Victim, sc.QMin, sc.IPv6, sc.RootTTL, sc.HotTTL, sc.LongTTL, sc.SelfReferral, sc.HugeApexNS, sc.NSChange, sc.Glueless, sc.WithdrawAt)
	for i, l := range sc.Levels {
		fmt.Fprintf(&b, " L%d[%s signed=%v secure=%v ns=%d ds=%d srv=%d", i+1, l.Label, l.Signed, l.Secure, l.NSTTL, l.DSTTL, l.Servers)
		if l.DSKind != "" {
			fmt.Fprintf(&b, " dskind=%s", l.DSKind)
		}
		b.WriteString("]")
	}
	if sc.Focus != "" {
		fmt.Fprintf(&b, " focus=%s dnssec-off=%v soon=%v", sc.Focus, sc.DNSSECOff, sc.SoonAfter)
	}
	if rs := sc.Restart; rs != nil {
		fmt.Fprintf(&b, " restart[sloppy=L%d empty=%d style=%s short=L%d bare=L%d]", rs.Sloppy, rs.Empty, rs.Style, rs.Short, rs.Bare)
	}
	if sc.Alias != nil {
		fmt.Fprintf(&b, " alias[signed=%v cname-ttl=%d targets-first=%v targets=%s]", sc.Alias.Signed, sc.Alias.CNAMETTL, sc.Alias.TargetsFirst, strings.Join(sc.Alias.Targets, ","))
	}
	return b.String()
}
