package main

import (
	"bytes"
	"crypto/sha256"
	"encoding/gob"
	"encoding/hex"
	"fmt"
	"os"
	"path/filepath"
	"sort"
	"syscall"
	"time"

	"github.com/miekg/dns"
	"github.com/semihalev/sdns/middleware/resolver"
)

func statePaths(dir string) (state, tomb string) {
	s, t := resolver.VerifC09StateFiles()
	return filepath.Join(dir, s), filepath.Join(dir, t)
}

// keyIndex maps observed DNSKEYs back to the history's key table.
type keyIndex struct {
	byPub map[string]int
}

func newKeyIndex(keys []*Key) *keyIndex {
	ix := &keyIndex{byPub: map[string]int{}}
	for i, k := range keys {
		ix.byPub[k.Pub] = i
	}
	return ix
}

func (ix *keyIndex) obs(k *dns.DNSKEY) KeyObs {
	if k == nil {
		return KeyObs{Key: -1, Raw: "<nil>"}
	}
	if i, ok := ix.byPub[k.PublicKey]; ok && k.Algorithm == dns.ED25519 && k.Protocol == 3 {
		return KeyObs{Key: i, Flags: k.Flags}
	}
	return KeyObs{Key: -1, Flags: k.Flags, Raw: k.String()}
}

func (ix *keyIndex) obsRRs(rrs []dns.RR) []KeyObs {
	out := []KeyObs{}
	for _, rr := range rrs {
		k, _ := rr.(*dns.DNSKEY)
		out = append(out, ix.obs(k))
	}
	sort.Slice(out, func(i, j int) bool {
		if out[i].Key != out[j].Key {
			return out[i].Key < out[j].Key
		}
		if out[i].Flags != out[j].Flags {
			return out[i].Flags < out[j].Flags
		}
		return out[i].Raw < out[j].Raw
	})
	return out
}

func inode(path string) uint64 {
	fi, err := os.Lstat(path)
	if err != nil {
		return 0
	}
	if st, ok := fi.Sys().(*syscall.Stat_t); ok {
		return st.Ino
	}
	return 0
}

func sum(b []byte) string {
	h := sha256.Sum256(b)
	return hex.EncodeToString(h[:8])
}

// readDisk decodes both state files with the exported gob types of the
// resolver package, exactly as a starting resolver would.
func readDisk(dir string, ix *keyIndex) *DiskObs {
	d := &DiskObs{}
	sp, tp := statePaths(dir)

	if b, err := os.ReadFile(sp); err != nil {
		if os.IsNotExist(err) {
			d.State = "absent"
		} else {
			d.State = "undecodable: " + err.Error()
		}
	} else {
		tas := make(resolver.TrustAnchors)
		if err := gob.NewDecoder(bytes.NewReader(b)).Decode(&tas); err != nil {
			d.State = "undecodable: " + err.Error()
		} else {
			d.State = "ok"
			d.StateSum = sum(b)
			for tag, ta := range tas {
				if ta == nil {
					d.Anchors = append(d.Anchors, AnchorObs{Tag: tag, Key: -1})
					continue
				}
				o := ix.obs(ta.DNSKey)
				d.Anchors = append(d.Anchors, AnchorObs{Tag: tag, Key: o.Key, Flags: o.Flags, State: int(ta.State), FirstSeen: ta.FirstSeen.UnixNano()})
			}
			sort.Slice(d.Anchors, func(i, j int) bool { return d.Anchors[i].Tag < d.Anchors[j].Tag })
		}
	}

	if b, err := os.ReadFile(tp); err != nil {
		if os.IsNotExist(err) {
			d.Tomb = "absent"
		} else {
			d.Tomb = "undecodable: " + err.Error()
		}
	} else {
		ts := make(resolver.Tombstones)
		if err := gob.NewDecoder(bytes.NewReader(b)).Decode(&ts); err != nil {
			d.Tomb = "undecodable: " + err.Error()
		} else {
			d.Tomb = "ok"
			d.TombSum = sum(b)
			for _, t := range ts {
				if t == nil {
					d.Tombstones = append(d.Tombstones, KeyObs{Key: -1, Raw: "<nil>"})
					continue
				}
				d.Tombstones = append(d.Tombstones, ix.obs(t.DNSKey))
			}
			sort.Slice(d.Tombstones, func(i, j int) bool {
				a, b := d.Tombstones[i], d.Tombstones[j]
				if a.Key != b.Key {
					return a.Key < b.Key
				}
				return a.Raw < b.Raw
			})
		}
	}

	d.StateIno, d.TombIno = inode(sp), inode(tp)
	ents, _ := os.ReadDir(dir)
	sb, tb := filepath.Base(sp), filepath.Base(tp)
	for _, e := range ents {
		if e.Name() != sb && e.Name() != tb {
			d.Leftovers = append(d.Leftovers, e.Name())
		}
	}
	return d
}

// shiftDisk moves virtual time forward by d: every stored instant in the two
// state files moves back by d (DESIGN §2.3). A file that is absent or does not
// decode is left alone. The replacement is atomic (temp + rename) and keeps
// every other field byte-for-byte as decoded.
func shiftDisk(dir string, d time.Duration) error {
	if d == 0 {
		return nil
	}
	sp, tp := statePaths(dir)
	if b, err := os.ReadFile(sp); err == nil {
		tas := make(resolver.TrustAnchors)
		if gob.NewDecoder(bytes.NewReader(b)).Decode(&tas) == nil {
			for _, ta := range tas {
				if ta != nil {
					ta.FirstSeen = ta.FirstSeen.Add(-d)
				}
			}
			if err := writeGob(sp, &tas); err != nil {
				return err
			}
		}
	}
	if b, err := os.ReadFile(tp); err == nil {
		ts := make(resolver.Tombstones)
		if gob.NewDecoder(bytes.NewReader(b)).Decode(&ts) == nil {
			for _, t := range ts {
				if t != nil {
					t.FirstSeen = t.FirstSeen.Add(-d)
				}
			}
			if err := writeGob(tp, &ts); err != nil {
				return err
			}
		}
	}
	return nil
}

func writeGob(path string, v any) error {
	var buf bytes.Buffer
	if err := gob.NewEncoder(&buf).Encode(v); err != nil {
		return err
	}
	tmp := path + ".verifshift"
	if err := os.WriteFile(tmp, buf.Bytes(), 0o600); err != nil {
		return err
	}
	if err := os.Rename(tmp, path); err != nil {
		_ = os.Remove(tmp)
		return fmt.Errorf("shift rename: %w", err)
	}
	return nil
}
