package main

import (
	"fmt"
	"sort"
	"strings"
)

// Two independent references run over the same history.
//
// Model M is an RFC 5011 state machine by key MATERIAL (never by key tag) with
// the persistence design the property describes: two durable records
// (tombstones first, then the state file, a StateRevoked marker bridging a
// failed tombstone write), trust state re-read from disk at every start. It
// predicts the exact live trust set after every refresh and the durable state
// the next start will see, given the fault effect that was OBSERVED.
//
// Ledger L is the literal statement: it only remembers, per key, in which
// accepted refreshes the key was present, when its revocation was accepted and
// durably recorded, and from that answers "may this key be trusted now" (S1,
// S2) and "may this key have been dropped now" (S4). It knows nothing about
// files. Violations are raised from L and from the fail-closed clauses; a
// difference between M and the observation that L does not explain is either
// inside the documented latitude (key-tag collisions, late promotion) or a
// violation of its own.

const (
	addHoldHours    = 720  // 30 d
	removeHoldHours = 2160 // 90 d
)

type mState int

const (
	mAddPend mState = iota + 1
	mValid
	mMissing
)

func (s mState) String() string {
	switch s {
	case mAddPend:
		return "AddPend"
	case mValid:
		return "Valid"
	case mMissing:
		return "Missing"
	}
	return "Start"
}

type mKey struct {
	St    mState
	Since int // virtual hour at which the state was entered
}

// Durable is what the two files hold, in the model's terms.
type Durable struct {
	Keys    map[int]mKey // tracked, non-revoked entries of the state file
	RevTomb map[int]bool // keys in the tombstone file
	RevMark map[int]bool // StateRevoked markers in the state file
}

func newDurable() *Durable {
	return &Durable{Keys: map[int]mKey{}, RevTomb: map[int]bool{}, RevMark: map[int]bool{}}
}

func (d *Durable) clone() *Durable {
	n := newDurable()
	for k, v := range d.Keys {
		n.Keys[k] = v
	}
	for k := range d.RevTomb {
		n.RevTomb[k] = true
	}
	for k := range d.RevMark {
		n.RevMark[k] = true
	}
	return n
}

// Effect is the observed effect of the step's fault on the persistence tail.
type Effect struct {
	StoreCorrupt bool // tombstone store does not decode (harness-made)
	StoreNoOpen  bool // tombstone store cannot be opened (EIO)
	TombFail     bool // tombstone rename failed
	StateFail    bool // state rename failed
	Killed       bool
	TombLanded   bool // for a killed refresh: the tombstone rename had completed
	StateLanded  bool // for a killed refresh: the state rename had completed
}

// Auth classes of a response relative to a trust set.
const (
	authNone    = "none"
	authRevOnly = "revonly"
	authFull    = "full"
)

// classify judges a step's response against a set of trusted key indices,
// straight from the way the response was constructed.
func classify(st *Step, trusted map[int]bool, keys []*Key) string {
	if st.Answer != "" {
		return authNone
	}
	for _, s := range st.Sigs {
		if s.Mode == "" && !s.Revoked && trusted[s.Key] {
			return authFull
		}
	}
	for _, s := range st.Sigs {
		if s.Mode == "" && s.Revoked && trusted[s.Key] && publishes(st, s.Key, true) && !keys[s.Key].carry() {
			return authRevOnly
		}
	}
	return authNone
}

func publishes(st *Step, k int, revoked bool) bool {
	for _, p := range st.Keys {
		if p.Key == k && p.Revoked == revoked {
			return true
		}
	}
	return false
}

func selfSignedRevocation(st *Step, k int) bool {
	if !publishes(st, k, true) {
		return false
	}
	for _, s := range st.Sigs {
		if s.Key == k && s.Revoked && s.Mode == "" {
			return true
		}
	}
	return false
}

// Expect is M's prediction for one refresh.
type Expect struct {
	Auth        string
	Candidate   []int // trust set a restart publishes before the fetch
	Live        []int // trust set after the refresh (nil when Nil)
	Nil         bool  // fail-closed clear
	NoLive      bool  // refresh killed: nothing to observe
	NewRevoked  []int
	Reached     bool // the persistence tail was reached
	Transitions []string
}

type Model struct {
	keys []*Key
	D    *Durable
}

func newModel(keys []*Key) *Model { return &Model{keys: keys, D: newDurable()} }

func sortedKeys(m map[int]bool) []int {
	out := []int{}
	for k, v := range m {
		if v {
			out = append(out, k)
		}
	}
	sort.Ints(out)
	return out
}

// Step advances M over one refresh. now is the virtual hour of the refresh.
func (m *Model) Step(st *Step, cfg []Pub, now int, eff Effect) Expect {
	var ex Expect
	D := m.D

	if eff.StoreCorrupt {
		ex.Auth, ex.Nil = authNone, true
		return ex
	}

	cfgRev := map[int]bool{}
	for _, c := range cfg {
		if c.Revoked {
			cfgRev[c.Key] = true
		}
	}
	// in-memory tombstones of this run
	tomb := map[int]bool{}
	if !eff.StoreNoOpen { // documented: an unopenable store is read as empty
		for k := range D.RevTomb {
			tomb[k] = true
		}
	}
	for k := range D.RevMark {
		tomb[k] = true
	}
	// tracked entries; tombstones take precedence
	tracked := map[int]mKey{}
	for k, v := range D.Keys {
		if !tomb[k] {
			tracked[k] = v
		}
	}
	for _, c := range cfg {
		if c.Revoked {
			continue
		}
		if _, ok := tracked[c.Key]; ok || tomb[c.Key] || cfgRev[c.Key] {
			continue
		}
		tracked[c.Key] = mKey{St: mValid, Since: now}
	}
	for k := range cfgRev {
		tomb[k] = true
	}

	cand := map[int]bool{}
	for k, v := range tracked {
		if v.St == mValid || v.St == mMissing {
			cand[k] = true
		}
	}
	ex.Candidate = sortedKeys(cand)
	ex.Auth = classify(st, cand, m.keys)
	if ex.Auth == authNone {
		ex.Live = ex.Candidate
		return ex
	}
	ex.Reached = true

	// revocations: same material (same key by construction), REVOKE bit,
	// self-signature, the key currently trusted
	newRev := map[int]bool{}
	for _, p := range st.Keys {
		if !p.Revoked || tomb[p.Key] {
			continue
		}
		t, ok := tracked[p.Key]
		if !ok || (t.St != mValid && t.St != mMissing) {
			continue
		}
		if m.keys[p.Key].carry() {
			// the revoked form's tag is not tag+128; the resolver does not
			// recognise it (statement silent: latitude, counted by the caller)
			continue
		}
		if !selfSignedRevocation(st, p.Key) {
			continue
		}
		newRev[p.Key] = true
		delete(tracked, p.Key)
		ex.Transitions = append(ex.Transitions, t.St.String()+"->Revoked")
	}
	ex.NewRevoked = sortedKeys(newRev)

	if ex.Auth == authFull {
		present := map[int]bool{}
		for _, p := range st.Keys {
			if !p.Revoked {
				present[p.Key] = true
			}
		}
		// new keys first (they are present, so the presence pass leaves them)
		for k := range present {
			if _, ok := tracked[k]; ok || tomb[k] || newRev[k] {
				continue
			}
			tracked[k] = mKey{St: mAddPend, Since: now}
			ex.Transitions = append(ex.Transitions, "Start->AddPend")
		}
		for k, v := range tracked {
			if present[k] {
				switch v.St {
				case mAddPend:
					if now-v.Since >= addHoldHours {
						tracked[k] = mKey{St: mValid, Since: v.Since}
						ex.Transitions = append(ex.Transitions, "AddPend->Valid")
					}
				case mMissing:
					tracked[k] = mKey{St: mValid, Since: v.Since}
					ex.Transitions = append(ex.Transitions, "Missing->Valid")
				}
				continue
			}
			switch v.St {
			case mAddPend:
				delete(tracked, k)
				ex.Transitions = append(ex.Transitions, "AddPend->Start")
			case mValid:
				tracked[k] = mKey{St: mMissing, Since: now}
				ex.Transitions = append(ex.Transitions, "Valid->Missing")
			case mMissing:
				if now-v.Since >= removeHoldHours {
					delete(tracked, k)
					ex.Transitions = append(ex.Transitions, "Missing->Removed")
				}
			}
		}
	}
	sort.Strings(ex.Transitions)

	final := map[int]bool{}
	for k, v := range tracked {
		if v.St == mValid || v.St == mMissing {
			final[k] = true
		}
	}

	// persistence tail
	tombOK := !eff.TombFail
	stateOK := !eff.StateFail
	if eff.Killed {
		tombOK, stateOK = eff.TombLanded, eff.StateLanded
		ex.NoLive = true
	}
	nd := D.clone()
	if tombOK {
		nd.RevTomb = map[int]bool{}
		for k := range tomb {
			nd.RevTomb[k] = true
		}
		for k := range newRev {
			nd.RevTomb[k] = true
		}
	}
	if stateOK {
		nd.Keys = map[int]mKey{}
		for k, v := range tracked {
			nd.Keys[k] = v
		}
		if tombOK {
			nd.RevMark = map[int]bool{}
		} else {
			for k := range newRev {
				nd.RevMark[k] = true
			}
		}
	}
	m.D = nd

	switch {
	case ex.NoLive:
	case !tombOK && !stateOK && len(newRev) > 0:
		ex.Nil = true
	case !tombOK && !stateOK:
		ex.Live = ex.Candidate
	default:
		ex.Live = sortedKeys(final)
	}
	return ex
}

// Vector renders the durable state as a canonical string (evidence: distinct
// model states visited).
func (d *Durable) Vector(n int) string {
	var sb strings.Builder
	for k := 0; k < n; k++ {
		switch {
		case d.RevTomb[k] && d.RevMark[k]:
			sb.WriteString("R*")
		case d.RevTomb[k]:
			sb.WriteString("Rt")
		case d.RevMark[k]:
			sb.WriteString("Rm")
		default:
			sb.WriteString("--")
		}
		if v, ok := d.Keys[k]; ok {
			sb.WriteString(v.St.String()[:1])
		} else {
			sb.WriteString("s")
		}
		sb.WriteByte(' ')
	}
	return sb.String()
}

// ---- the literal ledger ------------------------------------------------------

type lKey struct {
	streakStart   int  // virtual hour of the first refresh of the current presence streak; -1 none
	eligible      bool // has completed >= 30 d of continuous authenticated presence
	absentStart   int  // first refresh of the current absence streak; -1 none
	revoked       bool // a self-signed revocation was accepted AND durably recorded
	revokedAt     int  // step index
	breakStep     int  // step index of the accepted refresh that last broke the presence streak (-1 none)
	firstSeenStep int
}

type Ledger struct {
	keys []*Key
	k    []lKey
}

func newLedger(keys []*Key) *Ledger {
	l := &Ledger{keys: keys, k: make([]lKey, len(keys))}
	for i := range l.k {
		l.k[i] = lKey{streakStart: -1, absentStart: -1, breakStep: -1, firstSeenStep: -1, revokedAt: -1}
	}
	return l
}

// Accepted records a refresh that was fully authenticated by a trusted,
// non-revoked anchor and whose outcome the resolver adopted.
func (l *Ledger) Accepted(step int, st *Step, now int) {
	present := map[int]bool{}
	for _, p := range st.Keys {
		if !p.Revoked {
			present[p.Key] = true
		}
	}
	for i := range l.k {
		e := &l.k[i]
		if present[i] {
			if e.streakStart < 0 {
				e.streakStart = now
				if e.firstSeenStep < 0 {
					e.firstSeenStep = step
				}
			}
			if now-e.streakStart >= addHoldHours {
				e.eligible = true
			}
			e.absentStart = -1
		} else {
			if e.streakStart >= 0 {
				e.breakStep = step
			}
			e.streakStart = -1
			if e.absentStart < 0 {
				e.absentStart = now
			}
		}
	}
}

// Revoked records an accepted revocation with at least one durable record.
func (l *Ledger) Revoked(k, step int) {
	if !l.k[k].revoked {
		l.k[k].revoked = true
		l.k[k].revokedAt = step
	}
}

// MayTrust: S1 + S2 for one key at one observation.
func (l *Ledger) MayTrust(k int, inConfig bool) (ok bool, clause, why string) {
	e := &l.k[k]
	if e.revoked {
		return false, "S2", fmt.Sprintf("revocation accepted and recorded at step %d", e.revokedAt)
	}
	if inConfig || e.eligible {
		return true, "", ""
	}
	if e.streakStart < 0 {
		return false, "S1", "not present in the last accepted refresh"
	}
	return false, "S1", "continuous authenticated presence shorter than 30 d"
}

// MayDrop: S4 — may a key that was trusted before this accepted refresh be
// absent from the trust set after it (not revoked)?
func (l *Ledger) MayDrop(k int, now int) bool {
	e := &l.k[k]
	return e.absentStart >= 0 && now-e.absentStart >= removeHoldHours
}
