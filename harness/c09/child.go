package main

import (
	"encoding/json"
	"fmt"
	"io"
	"net"
	"os"
	"runtime"
	"sync"
	"sync/atomic"
	"time"

	"github.com/miekg/dns"
	"github.com/semihalev/sdns/config"
	"github.com/semihalev/sdns/middleware/resolver"
	"github.com/semihalev/zlog/v2"
)

// ---- scripted root ---------------------------------------------------------

type rootScript struct {
	mu      sync.Mutex
	answer  string   // "" | "servfail" | "nodata" | "refused"
	rrs     []dns.RR // DNSKEY RRset + RRSIGs
	queries atomic.Int64
}

func (s *rootScript) set(answer string, rrs []dns.RR) {
	s.mu.Lock()
	s.answer, s.rrs = answer, rrs
	s.mu.Unlock()
	s.queries.Store(0)
}

func (s *rootScript) ServeDNS(w dns.ResponseWriter, req *dns.Msg) {
	m := new(dns.Msg)
	m.SetReply(req)
	m.Authoritative = true
	s.mu.Lock()
	answer, rrs := s.answer, s.rrs
	s.mu.Unlock()
	if len(req.Question) != 1 || req.Question[0].Name != "." || req.Question[0].Qtype != dns.TypeDNSKEY {
		m.Rcode = dns.RcodeRefused
		_ = w.WriteMsg(m)
		return
	}
	s.queries.Add(1)
	switch answer {
	case "servfail":
		m.Rcode = dns.RcodeServerFailure
	case "refused":
		m.Rcode = dns.RcodeRefused
	case "nodata":
		// NOERROR, empty answer
	default:
		for _, rr := range rrs {
			m.Answer = append(m.Answer, dns.Copy(rr))
		}
	}
	if o := req.IsEdns0(); o != nil {
		m.SetEdns0(4096, o.Do())
	}
	_ = w.WriteMsg(m)
}

// listenBoth binds a UDP and a TCP socket on the same loopback port.
func listenBoth() (net.PacketConn, net.Listener, string, error) {
	var lastErr error
	for i := 0; i < 50; i++ {
		pc, err := net.ListenPacket("udp4", "127.0.0.1:0")
		if err != nil {
			lastErr = err
			continue
		}
		addr := pc.LocalAddr().String()
		l, err := net.Listen("tcp4", addr)
		if err != nil {
			lastErr = err
			_ = pc.Close()
			continue
		}
		return pc, l, addr, nil
	}
	return nil, nil, "", lastErr
}

// buildRRset renders a step's publication: the DNSKEY RRset and its RRSIGs.
func buildRRset(keys []*Key, zsk *Key, st *Step, now time.Time) ([]dns.RR, error) {
	var set []dns.RR
	for _, p := range st.Keys {
		f := uint16(flagKSK)
		if p.Revoked {
			f |= flagRevoke
		}
		set = append(set, keys[p.Key].RR(f))
	}
	set = append(set, zsk.RR(flagZSK))
	out := append([]dns.RR{}, set...)
	for _, sp := range st.Sigs {
		k := keys[sp.Key]
		tag := k.Tag
		if sp.Revoked {
			tag = k.RTag
		}
		sig := &dns.RRSIG{
			Hdr:         dns.RR_Header{Name: ".", Rrtype: dns.TypeRRSIG, Class: dns.ClassINET, Ttl: 172800},
			TypeCovered: dns.TypeDNSKEY,
			Algorithm:   dns.ED25519,
			Labels:      0,
			OrigTtl:     172800,
			Inception:   uint32(now.Add(-2 * time.Hour).Unix()),
			Expiration:  uint32(now.Add(14 * 24 * time.Hour).Unix()),
			KeyTag:      tag,
			SignerName:  ".",
		}
		switch sp.Mode {
		case "expired":
			sig.Inception = uint32(now.Add(-20 * 24 * time.Hour).Unix())
			sig.Expiration = uint32(now.Add(-2 * time.Hour).Unix())
		case "future":
			sig.Inception = uint32(now.Add(24 * time.Hour).Unix())
			sig.Expiration = uint32(now.Add(15 * 24 * time.Hour).Unix())
		}
		signed := set
		if sp.Mode == "partial" {
			// a signature that covers the RRset without its first key: it does
			// not authenticate the set actually served
			if len(set) > 1 {
				signed = set[1:]
			} else {
				signed = []dns.RR{zsk.RR(flagKSK)}
			}
		}
		cp := make([]dns.RR, len(signed))
		for i, rr := range signed {
			cp[i] = dns.Copy(rr)
		}
		if err := sig.Sign(k.Priv, cp); err != nil {
			return nil, fmt.Errorf("sign: %w", err)
		}
		if sp.Mode == "bad" {
			b := []byte(sig.Signature)
			// flip one base64 character in the middle, keeping it valid base64
			i := len(b) / 2
			if b[i] == 'A' {
				b[i] = 'B'
			} else {
				b[i] = 'A'
			}
			sig.Signature = string(b)
		}
		out = append(out, sig)
	}
	return out, nil
}

// ---- child -------------------------------------------------------------------

func configFor(h *History, keys []*Key, st *Step, dir, addr string, netMilli int) *config.Config {
	cfg := new(config.Config)
	cfg.RootServers = []string{addr}
	pubs := st.Config
	if pubs == nil {
		pubs = h.Config
	}
	for _, p := range pubs {
		f := uint16(flagKSK)
		if p.Revoked {
			f |= flagRevoke
		}
		cfg.RootKeys = append(cfg.RootKeys, keys[p.Key].RR(f).String())
	}
	cfg.DNSSEC = "on"
	cfg.Maxdepth = 30
	cfg.Expire = 600
	cfg.CacheSize = 1024
	cfg.Timeout.Duration = time.Duration(netMilli) * time.Millisecond
	cfg.Directory = dir
	cfg.IPv6Access = false
	return cfg
}

func childMain(jobPath string) int {
	b, err := os.ReadFile(jobPath)
	if err != nil {
		fmt.Fprintln(os.Stderr, "c09 child: read job:", err)
		return 3
	}
	var job Job
	if err := json.Unmarshal(b, &job); err != nil {
		fmt.Fprintln(os.Stderr, "c09 child: parse job:", err)
		return 3
	}
	logger := zlog.NewStructured()
	if os.Getenv("C09_CHILD_LOG") != "" {
		logger.SetWriter(zlog.NewTerminalWriter(os.Stderr))
	} else {
		logger.SetWriter(zlog.NewTerminalWriter(io.Discard))
	}
	zlog.SetDefault(logger)

	h := &job.History
	var keys []*Key
	for _, m := range h.Keys {
		k, err := keyFromMat(m)
		if err != nil {
			fmt.Fprintln(os.Stderr, "c09 child:", err)
			return 3
		}
		keys = append(keys, k)
	}
	zsk, err := keyFromMat(h.ZSK)
	if err != nil {
		fmt.Fprintln(os.Stderr, "c09 child:", err)
		return 3
	}
	ix := newKeyIndex(keys)

	out, err := os.OpenFile(job.Out, os.O_CREATE|os.O_WRONLY|os.O_APPEND, 0o600)
	if err != nil {
		fmt.Fprintln(os.Stderr, "c09 child: open out:", err)
		return 3
	}
	defer out.Close()
	emit := func(r *Rec) {
		line, _ := json.Marshal(r)
		_, _ = out.Write(append(line, '\n'))
	}

	pc, l, addr, err := listenBoth()
	if err != nil {
		fmt.Fprintln(os.Stderr, "c09 child: listen:", err)
		return 3
	}
	script := &rootScript{}
	udp := &dns.Server{PacketConn: pc, Handler: script}
	tcp := &dns.Server{Listener: l, Handler: script}
	var up sync.WaitGroup
	up.Add(2)
	udp.NotifyStartedFunc = up.Done
	tcp.NotifyStartedFunc = up.Done
	go func() { _ = udp.ActivateAndServe() }()
	go func() { _ = tcp.ActivateAndServe() }()
	up.Wait()
	defer func() { _ = udp.Shutdown(); _ = tcp.Shutdown() }()

	if job.NetMilli <= 0 {
		job.NetMilli = 1500
	}

	for i := job.From; i < job.To && i < len(h.Steps); i++ {
		st := &h.Steps[i]
		if i > job.From && st.DtHours > 0 {
			if err := shiftDisk(job.Dir, time.Duration(st.DtHours)*time.Hour); err != nil {
				fmt.Fprintln(os.Stderr, "c09 child: shift:", err)
				return 3
			}
		}
		undo, err := applyDirFault(job.Dir, st.Fault)
		if err != nil {
			fmt.Fprintln(os.Stderr, "c09 child: dir fault:", err)
			return 3
		}

		pre := &Rec{Step: i, Phase: "pre", Before: readDisk(job.Dir, ix)}
		// Baseline: what a restart publishes when the fetch fails. The root
		// refuses the query, so AutoTA stops before it judges or writes anything.
		script.set("refused", nil)
		cfg := configFor(h, keys, st, job.Dir, addr, job.NetMilli)
		func() {
			defer func() {
				if p := recover(); p != nil {
					pre.Panic = fmt.Sprint(p)
				}
			}()
			r0 := resolver.NewResolver(cfg)
			r0.AutoTA()
			rk, nn := r0.VerifC09RootKeys()
			pre.Baseline, pre.BaselineNil = ix.obsRRs(rk), !nn
		}()
		emit(pre)

		t0 := time.Now()
		rrs, err := buildRRset(keys, zsk, st, t0)
		if err != nil {
			fmt.Fprintln(os.Stderr, "c09 child:", err)
			return 3
		}
		post := &Rec{Step: i, Phase: "post"}
		func() {
			defer func() {
				if p := recover(); p != nil {
					post.Panic = fmt.Sprint(p)
				}
			}()
			if job.LockOS {
				runtime.LockOSThread()
				defer runtime.UnlockOSThread()
			}
			var r1 *resolver.Resolver
			for attempt := 1; ; attempt++ {
				post.Attempts = attempt
				script.set(st.Answer, rrs)
				r1 = resolver.NewResolver(configFor(h, keys, st, job.Dir, addr, job.NetMilli))
				r0 := resolver.VerifC09RefreshResults()
				r1.AutoTA()
				post.Result = ""
				for k, v := range resolver.VerifC09RefreshResults() {
					if v > r0[k] {
						post.Result = k
					}
				}
				// The root scripted a real answer but the resolver reports that the
				// FETCH failed (lost datagram, timeout on a loaded box): AutoTA
				// returned before judging or writing anything, so this was not the
				// refresh under test. Start the process' refresh again.
				transport := post.Result == "query_error" || post.Result == "timeout" || post.Result == "work_budget"
				if st.Answer == "" && transport && attempt < 4 {
					continue
				}
				break
			}
			rk, nn := r1.VerifC09RootKeys()
			post.Live, post.LiveNil = ix.obsRRs(rk), !nn
			post.HasTA = r1.VerifC09HasTrustAnchors()
			post.Queries = int(script.queries.Load())
			post.After = readDisk(job.Dir, ix)
			// one more tick in the same process, fetch refused
			script.set("refused", nil)
			r1.AutoTA()
			rk, nn = r1.VerifC09RootKeys()
			post.Follow, post.FollowNil, post.FollowRan = ix.obsRRs(rk), !nn, true
		}()
		if post.After == nil {
			post.Queries = int(script.queries.Load())
			post.After = readDisk(job.Dir, ix)
		}
		post.RealNano = int64(time.Since(t0))
		if undo != nil {
			if err := undo(); err != nil {
				fmt.Fprintln(os.Stderr, "c09 child: undo dir fault:", err)
				return 3
			}
		}
		emit(post)
	}
	return 0
}

// applyDirFault puts the tombstone store into an unreadable condition and
// returns the function that restores exactly what was there before.
func applyDirFault(dir, fault string) (func() error, error) {
	if !isDirFault(fault) {
		return nil, nil
	}
	_, tp := statePaths(dir)
	orig, err := os.ReadFile(tp)
	had := err == nil
	if err != nil && !os.IsNotExist(err) {
		return nil, err
	}
	restore := func() error {
		if err := os.RemoveAll(tp); err != nil {
			return err
		}
		if had {
			return os.WriteFile(tp, orig, 0o600)
		}
		return nil
	}
	if (fault == FTombEmpty || fault == FTombTorn) && !(had && len(orig) > 0) {
		// nothing was ever stored: there is no record to lose, and whether a
		// never-written store counts as "unreadable" is not the statement's
		// business. The parent sees Before.Tomb == "absent" and does not count
		// the fault as reached.
		return nil, nil
	}
	switch fault {
	case FTombEmpty:
		if err := os.WriteFile(tp, nil, 0o600); err != nil {
			return nil, err
		}
	case FTombTorn:
		if err := os.WriteFile(tp, orig[:len(orig)-1], 0o600); err != nil {
			return nil, err
		}
	case FTombCorrupt:
		var garbage []byte
		if had && len(orig) > 8 {
			// a truncated copy of the real file: the most plausible corruption
			garbage = append([]byte{}, orig[:len(orig)/2]...)
		} else {
			garbage = []byte("\x07\xff\x81not a gob stream\x00\x01")
		}
		if err := os.WriteFile(tp, garbage, 0o600); err != nil {
			return nil, err
		}
	case FTombDir:
		if err := os.RemoveAll(tp); err != nil {
			return nil, err
		}
		if err := os.Mkdir(tp, 0o700); err != nil {
			return nil, err
		}
	}
	return restore, nil
}
