package main

// Shared vocabulary of the C09 monitor: histories (what the scripted root
// publishes, how much virtual time passes, which fault hits which refresh),
// the job a child process executes and what it reports back.

// Fault kinds. The first group is injected with strace on the refresh that runs
// alone in a child process; the second group is a state of the directory the
// harness prepares before the refresh and undoes afterwards.
const (
	FNone = ""

	FTombEIO   = "tomb-rename-eio"  // renameat(tmp -> trust-anchor-tombstones.db) = EIO
	FStateEIO  = "state-rename-eio" // renameat(tmp -> trust-anchor.db) = EIO
	FBothEIO   = "both-rename-eio"  // both of the above
	FKillTomb  = "kill-at-tomb-rename"
	FKillState = "kill-at-state-rename" // between the two durable writes
	FKillSync1 = "kill-at-fsync-1"      // fsync of the tombstone temp file
	FKillSync2 = "kill-at-fsync-2"      // directory fsync after the tombstone rename
	FKillSync3 = "kill-at-fsync-3"      // fsync of the state temp file
	FKillSync4 = "kill-at-fsync-4"      // directory fsync after the state rename
	FTombOpen  = "tomb-open-eio"        // openat(trust-anchor-tombstones.db) = EIO (store unreadable)

	FTombCorrupt = "tomb-corrupt" // tombstone file holds bytes that do not gob-decode
	FTombDir     = "tomb-is-dir"  // tombstone path is a directory (open works, read fails)
	// The next two damage a store that EXISTS and holds records (they are not
	// applied, and not counted, while no tombstone file has been written yet):
	FTombEmpty = "tomb-empty" // the tombstone file is left zero-length (lost data blocks, truncating restore)
	FTombTorn  = "tomb-torn"  // the tombstone file lost its tail (every byte but the last one)
)

var allFaults = []string{
	FTombEIO, FStateEIO, FBothEIO,
	FKillTomb, FKillState, FKillSync1, FKillSync2, FKillSync3, FKillSync4,
	FTombCorrupt, FTombDir, FTombOpen,
	FTombEmpty, FTombTorn,
}

// dirFaults are the conditions of the state directory the harness prepares
// before a start and undoes after the refresh.
var dirFaults = []string{FTombCorrupt, FTombDir, FTombEmpty, FTombTorn}

func isDirFault(f string) bool {
	for _, d := range dirFaults {
		if f == d {
			return true
		}
	}
	return false
}

func isStraceFault(f string) bool {
	switch f {
	case FTombEIO, FStateEIO, FBothEIO, FKillTomb, FKillState, FKillSync1, FKillSync2, FKillSync3, FKillSync4, FTombOpen:
		return true
	}
	return false
}

func isKillFault(f string) bool {
	switch f {
	case FKillTomb, FKillState, FKillSync1, FKillSync2, FKillSync3, FKillSync4:
		return true
	}
	return false
}

// Pub is one DNSKEY of a published RRset.
type Pub struct {
	Key     int  `json:"k"`           // index into History.Keys
	Revoked bool `json:"r,omitempty"` // published with the REVOKE bit
}

// SigSpec is one RRSIG over the published DNSKEY RRset.
type SigSpec struct {
	Key     int    `json:"k"`
	Revoked bool   `json:"r,omitempty"` // made by the key in its revoked form (key tag of the revoked form)
	Mode    string `json:"m,omitempty"` // "" good | "bad" corrupted signature | "expired" | "future" | "partial" signs the set minus its last key
}

// Step is one refresh of a history.
type Step struct {
	DtHours int       `json:"dt"`               // virtual time that passes before this refresh
	Answer  string    `json:"ans,omitempty"`    // "" answer with Keys+Sigs | "servfail" | "nodata" | "refused"
	Keys    []Pub     `json:"keys,omitempty"`   // KSKs of the RRset (a fixed ZSK is always added)
	Sigs    []SigSpec `json:"sigs,omitempty"`   //
	Config  []Pub     `json:"config,omitempty"` // cfg.RootKeys of the process that runs this refresh (nil = history default)
	Fault   string    `json:"fault,omitempty"`
	Note    string    `json:"note,omitempty"`
}

// KeyMat is the material of one key of a history: an Ed25519 seed from which
// both sides derive the private key, the DNSKEY and its tags.
type KeyMat struct {
	Seed string `json:"seed"` // hex, 32 bytes
	Name string `json:"name"` // label used in reports
}

// History is one serialisable case.
type History struct {
	Name   string   `json:"name"`
	Keys   []KeyMat `json:"keys"`
	ZSK    KeyMat   `json:"zsk"`
	Config []Pub    `json:"config"` // default cfg.RootKeys
	Steps  []Step   `json:"steps"`
}

// Job is what one child process executes: a run of consecutive steps of one
// history on one state directory.
type Job struct {
	Dir      string `json:"dir"`
	Out      string `json:"out"` // JSON lines, appended and synced record by record
	History  History
	From, To int  // steps [From, To)
	LockOS   bool // pin the refresh goroutine to its thread (strace per-thread counters)
	NetMilli int  // resolver network timeout
}

// KeyObs identifies an observed DNSKEY: index into History.Keys (-1 unknown)
// and the flags it carried.
type KeyObs struct {
	Key   int    `json:"k"`
	Flags uint16 `json:"f"`
	Raw   string `json:"raw,omitempty"` // only for keys outside the history's table
}

// AnchorObs is one entry of the decoded trust-anchor.db.
type AnchorObs struct {
	Tag       uint16 `json:"tag"`
	Key       int    `json:"k"`
	Flags     uint16 `json:"f"`
	State     int    `json:"st"`
	FirstSeen int64  `json:"fs"` // unix nanoseconds
}

// DiskObs is the condition of the two state files at one instant.
type DiskObs struct {
	State      string      `json:"state"` // "absent" | "ok" | "undecodable: ..."
	Anchors    []AnchorObs `json:"anchors,omitempty"`
	StateSum   string      `json:"state_sum,omitempty"`
	StateIno   uint64      `json:"state_ino,omitempty"`
	TombIno    uint64      `json:"tomb_ino,omitempty"`
	Tomb       string      `json:"tomb"`
	Tombstones []KeyObs    `json:"tombstones,omitempty"`
	TombSum    string      `json:"tomb_sum,omitempty"`
	Leftovers  []string    `json:"leftovers,omitempty"` // other directory entries (temp files)
}

// Rec is one line of a child's output.
type Rec struct {
	Step  int    `json:"step"`
	Phase string `json:"phase"` // "pre" (before the refresh under test) | "post"

	Before      *DiskObs `json:"before,omitempty"`
	Baseline    []KeyObs `json:"baseline,omitempty"` // trust set of a restart without a successful fetch
	BaselineNil bool     `json:"baseline_nil,omitempty"`

	Live     []KeyObs `json:"live,omitempty"`
	LiveNil  bool     `json:"live_nil,omitempty"`
	HasTA    bool     `json:"has_ta,omitempty"`
	// Follow is the trust set after one more AutoTA tick on the SAME resolver
	// object with the root refusing the query (no restart in between).
	Follow    []KeyObs `json:"follow,omitempty"`
	FollowNil bool     `json:"follow_nil,omitempty"`
	FollowRan bool     `json:"follow_ran,omitempty"`
	After    *DiskObs `json:"after,omitempty"`
	Result   string   `json:"result,omitempty"`  // terminal result AutoTA counted for the refresh under test
	Attempts int      `json:"attempts,omitempty"`
	Queries  int      `json:"queries,omitempty"` // DNSKEY queries the scripted root answered during the refresh
	Panic    string   `json:"panic,omitempty"`
	RealNano int64    `json:"real_ns,omitempty"`
}
