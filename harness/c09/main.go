package main

import (
	"encoding/json"
	"fmt"
	"math/rand/v2"
	"os"
)

func main() {
	if len(os.Args) >= 3 && os.Args[1] == "--child" {
		os.Exit(childMain(os.Args[2]))
	}
	if len(os.Args) >= 2 && os.Args[1] == "--probe" {
		probe()
		return
	}
}

func probe() {
	rng := rand.New(rand.NewPCG(1, 2))
	p := newPool(rng, 3000)
	fmt.Fprintf(os.Stderr, "pool plain=%d same=%d rev=%d carry=%d\n", len(p.plain), len(p.sameTag), len(p.revTag), len(p.carry))
	h := History{Name: "probe", ZSK: p.plain[9].Mat}
	for i := 0; i < 3; i++ {
		h.Keys = append(h.Keys, p.plain[i].Mat)
	}
	h.Config = []Pub{{Key: 0}}
	h.Steps = []Step{
		{Keys: []Pub{{Key: 0}, {Key: 1}}, Sigs: []SigSpec{{Key: 0}}},
		{DtHours: 29 * 24, Keys: []Pub{{Key: 0}, {Key: 1}}, Sigs: []SigSpec{{Key: 0}}},
		{DtHours: 2 * 24, Keys: []Pub{{Key: 0}, {Key: 1}}, Sigs: []SigSpec{{Key: 0}}},
		{DtHours: 24, Keys: []Pub{{Key: 0}, {Key: 1}}, Sigs: []SigSpec{{Key: 0, Mode: "bad"}}},
		{DtHours: 24, Answer: "servfail"},
		{DtHours: 24, Keys: []Pub{{Key: 0, Revoked: true}, {Key: 1}}, Sigs: []SigSpec{{Key: 0, Revoked: true}, {Key: 1}}},
		{DtHours: 24, Keys: []Pub{{Key: 1}}, Sigs: []SigSpec{{Key: 1}}},
	}
	dir := os.Args[2]
	job := Job{Dir: dir + "/state", Out: dir + "/out.jsonl", History: h, From: 0, To: len(h.Steps)}
	if len(os.Args) > 3 {
		fmt.Sscan(os.Args[3], &job.From)
		fmt.Sscan(os.Args[4], &job.To)
		job.LockOS = true
	}
	_ = os.MkdirAll(job.Dir, 0o750)
	b, _ := json.Marshal(job)
	_ = os.WriteFile(dir+"/job.json", b, 0o600)
}
