// C09 — root trust anchors change only as RFC 5011 permits, across crashes and
// faults. Level: fault_enumeration.
//
// A scripted loopback root (UDP+TCP) publishes, step by step, the DNSKEY RRsets
// of a history (add, co-sign, remove, re-add, revoke, colliding key tags, forged
// and partially signed sets). Every refresh is run by a FRESH resolver object on
// the same state directory (= a restart: all trust state is per object and
// re-read from disk). Virtual time passes by moving the timestamps stored in the
// two state files back. Faulted refreshes run alone in a child process under
// strace (EIO on either/both file replacements, EIO on opening the tombstone
// store, SIGKILL on entry to either rename or any of the four fsyncs) or on a
// directory whose tombstone store was made unreadable; the next refresh starts
// from whatever is on disk.
//
// Oracle: model.go (reference model M + literal ledger L), run.go (judge).
package main

import (
	"encoding/json"
	"fmt"
	"os"
	"os/exec"
	"os/signal"
	"runtime"
	"sort"
	"sync"
	"syscall"
	"time"

	"github.com/semihalev/sdns/zzverif/vlib"
)

func main() {
	if len(os.Args) >= 3 && os.Args[1] == "--child" {
		os.Exit(childMain(os.Args[2]))
	}
	r := vlib.Start("C09", "fault_enumeration")

	root, err := os.MkdirTemp("", "verif-c09-")
	if err != nil {
		r.Fatalf("mkdtemp: %v", err)
	}
	rn := &runner{r: r, root: root}
	cleanup := func() { rn.killAll(); _ = os.RemoveAll(root) }
	sigc := make(chan os.Signal, 1)
	signal.Notify(sigc, syscall.SIGINT, syscall.SIGTERM, syscall.SIGQUIT)
	go func() {
		sig := <-sigc
		cleanup()
		time.Sleep(300 * time.Millisecond) // children being reaped may still hold files
		cleanup()
		if sig == syscall.SIGQUIT {
			// the check wrapper's watchdog: leave the goroutine dump to the runtime
			signal.Reset(syscall.SIGQUIT)
			_ = syscall.Kill(os.Getpid(), syscall.SIGQUIT)
			select {}
		}
		os.Exit(2)
	}()
	self, err := os.Executable()
	if err != nil {
		cleanup()
		r.Fatalf("executable: %v", err)
	}
	if _, err := exec.LookPath("strace"); err != nil {
		cleanup()
		r.Fatalf("strace not found: %v", err)
	}
	rn.bin = self

	r.Assume("a refresh killed before it returned is not an accepted refresh; a refresh whose two file replacements both failed adopted nothing and is not an accepted refresh either")
	r.Assume("a revocation counts as accepted-and-recorded once one of the two records is on disk; if neither could be written the only demand is the fail-closed clear in that process")
	r.Assume("kernel-level torn writes are not simulated: the unit of atomicity is rename(2); crash points are the entries of the two renames and of the four fsyncs")
	r.Assume("virtual time = shifting the stored instants; RRSIG validity is judged by the resolver in real time (signatures are made fresh for every refresh)")

	var specs []*RunSpec
	if rc := r.ReplayCase(); rc != nil {
		var c struct {
			Run *RunSpec `json:"run"`
		}
		if err := json.Unmarshal(rc, &c); err != nil || c.Run == nil {
			var rs RunSpec
			if err2 := json.Unmarshal(rc, &rs); err2 != nil || len(rs.H.Steps) == 0 {
				cleanup()
				r.Fatalf("replay: cannot parse case: %v", err)
			}
			c.Run = &rs
		}
		specs = []*RunSpec{c.Run}
	} else {
		specs = buildSpecs(r)
	}
	// development aid: C09_ONLY=<history name> runs only that history's cases
	// (no coverage minimums), C09_DUMP=1 prints every step log to stderr
	only := os.Getenv("C09_ONLY")
	if only != "" {
		var f []*RunSpec
		for _, s := range specs {
			if s.H.Name == only {
				f = append(f, s)
			}
		}
		specs = f
	}

	workers := runtime.NumCPU() - 2
	if workers > 14 {
		workers = 14
	}
	if workers < 2 {
		workers = 2
	}
	results := make([]*runResult, len(specs))
	var wg sync.WaitGroup
	ch := make(chan int)
	var doneMu sync.Mutex
	done := 0
	for w := 0; w < workers; w++ {
		wg.Add(1)
		go func() {
			defer wg.Done()
			for i := range ch {
				results[i] = rn.execRun(specs[i])
				doneMu.Lock()
				done++
				d := done
				doneMu.Unlock()
				r.Progress("runs %d/%d", d, len(specs))
			}
		}()
	}
	for i := range specs {
		ch <- i
	}
	close(ch)
	wg.Wait()

	// merge in index order (deterministic evidence)
	histories := map[string]bool{}
	for _, res := range results {
		if res == nil {
			continue
		}
		histories[res.Spec.H.Name] = true
		keys := make([]string, 0, len(res.Cnt))
		for k := range res.Cnt {
			keys = append(keys, k)
		}
		sort.Strings(keys)
		for _, k := range keys {
			r.Count(k, res.Cnt[k])
		}
		for _, d := range res.Dist {
			r.Distinct(d)
		}
		for _, s := range res.MStates {
			r.DistinctIn("model_states", s)
		}
		r.DistinctIn("fault_assignments", res.Spec.H.Name+fmt.Sprint(res.Spec.faults()))
	}
	r.Count("histories", len(histories))
	for _, res := range results {
		if res != nil && (res.Spec.Kind == "directed" || res.Spec.Kind == "sweep") && len(res.Logs) > 0 {
			if res.Spec.H.Name == "rollover" {
				r.Sample(map[string]any{"history": res.Spec.H.Name, "faults": res.Spec.faults(), "steps": res.Logs})
			}
		}
	}
	if os.Getenv("C09_DUMP") != "" {
		for _, res := range results {
			if res == nil {
				continue
			}
			fmt.Fprintf(os.Stderr, "--- run %d %s %s faults=%v\n", res.Index, res.Spec.Kind, res.Spec.H.Name, res.Spec.faults())
			for _, lg := range res.Logs {
				b, _ := json.Marshal(lg)
				fmt.Fprintf(os.Stderr, "    %s\n", b)
			}
		}
	}

	if r.ReplayCase() == nil && only == "" {
		for _, f := range allFaults {
			r.Require("fault/"+f, int64(r.N(4, 40)))
		}
		for _, t := range []string{"Start->AddPend", "AddPend->Valid", "AddPend->Start", "Valid->Missing", "Missing->Valid", "Missing->Removed", "Valid->Revoked", "Missing->Revoked"} {
			r.Require("transition/"+t, 3)
		}
		r.Require("revocations_accepted", 20)
		r.Require("holddown_crossings/add-30d", 10)
		r.Require("holddown_crossings/remove-90d", 3)
		for _, n := range []string{"add-within-48h-before", "add-within-48h-after", "remove-within-48h-before", "remove-within-48h-after"} {
			r.Require("holddown_near/"+n, 1)
		}
		for _, a := range []string{authFull, authRevOnly, authNone} {
			r.Require("auth/"+a, 10)
		}
		for _, f := range []string{FTombCorrupt, FTombDir, FTombEmpty, FTombTorn, FBothEIO} {
			r.Require("fail_closed_observed/"+f, 2)
		}
		for _, f := range dirFaults {
			r.Require("store_unreadable_revoked_key_configured/"+f, 4)
		}
		r.Require("s3_checks", 50)
		r.Require("s1_s2_checks", 500)
		r.Require("s4_checks", 300)
		r.Require("set_compare_agree", 500)
		r.Require("steps_crashed", 15)
		r.Require("disk_checks", 1000)
		r.Require("runs_completed", int64(len(specs)/2))
	}

	cleanup()
	r.Finish("one evaluation = one observed trust set (the set a restart publishes, and the set after the refresh) judged by S1-S4, the fail-closed clauses and the reference model; distinct_nontrivial = distinct (model state vector before the refresh, authentication class, model transitions, fault kind and whether it was reached) tuples")
}

// buildSpecs lays out the fixed case list of a tier.
func buildSpecs(r *vlib.Run) []*RunSpec {
	pool := newPool(r.Rand("keys"), 3000)
	t := &keyTaker{p: pool}
	var specs []*RunSpec
	add := func(rs RunSpec) {
		c := rs
		c.Index = len(specs)
		specs = append(specs, &c)
	}

	dir := directed(t)
	for _, d := range dir {
		add(d)
	}
	// fault sweep over the directed histories
	for di, d := range dir {
		pos := interesting(&d)
		for fi, f := range allFaults {
			var at []int
			if r.Quick() {
				// the first revocation step (if any) and one rotating other step
				if p := firstRevocation(&d); p >= 0 {
					at = append(at, p)
				}
				if len(pos) > 0 {
					at = append(at, pos[(di+fi)%len(pos)])
				}
				if len(at) == 2 && at[0] == at[1] {
					at = at[:1]
				}
			} else {
				for p := range d.H.Steps {
					at = append(at, p)
				}
			}
			for _, p := range at {
				add(RunSpec{Kind: "sweep", Collision: d.Collision, H: withFaults(d.H, map[int]string{p: f})})
			}
		}
	}
	// store loss after a recorded revocation (not swept: the faults are the point)
	for _, d := range directedStoreLoss(t) {
		add(d)
	}
	// random histories
	nRandom := r.N(140, 110)
	var random []RunSpec
	for i := 0; i < nRandom; i++ {
		rs := genRandom(r.RandN("history", i), t, i)
		random = append(random, rs)
		add(rs)
	}
	if r.Quick() {
		for i, rs := range random {
			rng := r.RandN("faults", i)
			add(RunSpec{Kind: "random", Collision: rs.Collision, H: assignRandomFaults(rng, rs.H, allFaults)})
		}
	} else {
		for i, rs := range random {
			for p := range rs.H.Steps {
				for _, f := range allFaults {
					add(RunSpec{Kind: "random", Collision: rs.Collision, H: withFaults(rs.H, map[int]string{p: f})})
				}
			}
			// fault sequences
			for k := 0; k < 6; k++ {
				rng := r.RandN("faultseq", i*16+k)
				at := map[int]string{}
				for n := 0; n < 2+rng.IntN(2); n++ {
					at[rng.IntN(len(rs.H.Steps))] = allFaults[rng.IntN(len(allFaults))]
				}
				add(RunSpec{Kind: "random", Collision: rs.Collision, H: withFaults(rs.H, at)})
			}
		}
	}
	return specs
}

// simulate runs the reference model fault-free over a history.
func simulate(rs *RunSpec) []Expect {
	var keys []*Key
	for _, m := range rs.H.Keys {
		k, err := keyFromMat(m)
		if err != nil {
			return nil
		}
		keys = append(keys, k)
	}
	m := newModel(keys)
	now := 0
	var out []Expect
	for i := range rs.H.Steps {
		s := &rs.H.Steps[i]
		now += s.DtHours
		cfg := s.Config
		if cfg == nil {
			cfg = rs.H.Config
		}
		out = append(out, m.Step(s, cfg, now, Effect{}))
	}
	return out
}

func interesting(rs *RunSpec) []int {
	var out []int
	for i, ex := range simulate(rs) {
		if len(ex.Transitions) > 0 {
			out = append(out, i)
		}
	}
	return out
}

func firstRevocation(rs *RunSpec) int {
	for i, ex := range simulate(rs) {
		if len(ex.NewRevoked) > 0 {
			return i
		}
	}
	return -1
}
