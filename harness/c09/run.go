package main

import (
	"bufio"
	"bytes"
	"context"
	"encoding/json"
	"fmt"
	"os"
	"os/exec"
	"path/filepath"
	"sort"
	"strings"
	"sync"
	"syscall"
	"time"

	"github.com/semihalev/sdns/zzverif/vlib"
)

// ---- launching children ------------------------------------------------------

type runner struct {
	r    *vlib.Run
	root string // scratch root (os.MkdirTemp), removed on exit
	bin  string

	mu       sync.Mutex
	active   map[int]bool // process groups of running children
	stopping bool         // a signal arrived: start nothing new
}

func (rn *runner) isStopping() bool {
	rn.mu.Lock()
	defer rn.mu.Unlock()
	return rn.stopping
}

func (rn *runner) track(pid int, on bool) {
	rn.mu.Lock()
	if rn.active == nil {
		rn.active = map[int]bool{}
	}
	if on {
		rn.active[pid] = true
	} else {
		delete(rn.active, pid)
	}
	rn.mu.Unlock()
}

// killAll ends every child process group (strace and its tracee included).
func (rn *runner) killAll() {
	rn.mu.Lock()
	rn.stopping = true
	for pid := range rn.active {
		_ = syscall.Kill(-pid, syscall.SIGKILL)
	}
	rn.mu.Unlock()
}

type childExit struct {
	ok       bool // exit status 0
	signaled bool // killed (SIGKILL injected by strace, re-raised by strace)
	code     int
	stderr   string
	timedOut bool
}

func straceArgs(fault, statePath, tombPath, traceOut string) []string {
	base := []string{"strace", "-f", "-qq", "-e", "signal=none", "-o", traceOut}
	ren := "rename,renameat,renameat2"
	switch fault {
	case FTombEIO:
		return append(base, "-e", "trace="+ren, "-e", "inject="+ren+":error=EIO", "-P", tombPath)
	case FStateEIO:
		return append(base, "-e", "trace="+ren, "-e", "inject="+ren+":error=EIO", "-P", statePath)
	case FBothEIO:
		return append(base, "-e", "trace="+ren, "-e", "inject="+ren+":error=EIO", "-P", tombPath, "-P", statePath)
	case FKillTomb:
		return append(base, "-e", "trace="+ren, "-e", "inject="+ren+":signal=KILL", "-P", tombPath)
	case FKillState:
		return append(base, "-e", "trace="+ren, "-e", "inject="+ren+":signal=KILL", "-P", statePath)
	case FKillSync1, FKillSync2, FKillSync3, FKillSync4:
		n := strings.TrimPrefix(fault, "kill-at-fsync-")
		return append(base, "-e", "trace=fsync,fdatasync", "-e", "inject=fsync,fdatasync:signal=KILL:when="+n)
	case FTombOpen:
		return append(base, "-e", "trace=open,openat", "-e", "inject=open,openat:error=EIO", "-P", tombPath)
	}
	return nil
}

// launch runs steps [from,to) of rs in one child process on dir.
func (rn *runner) launch(runDir, stateDir string, rs *RunSpec, from, to, seq int, fault string) ([]Rec, childExit, string, error) {
	outPath := filepath.Join(runDir, fmt.Sprintf("out-%d.jsonl", seq))
	jobPath := filepath.Join(runDir, fmt.Sprintf("job-%d.json", seq))
	tracePath := filepath.Join(runDir, fmt.Sprintf("trace-%d.txt", seq))
	job := Job{Dir: stateDir, Out: outPath, History: rs.H, From: from, To: to, LockOS: fault != "", NetMilli: 4000}
	b, _ := json.Marshal(job)
	if err := os.WriteFile(jobPath, b, 0o600); err != nil {
		return nil, childExit{}, "", err
	}
	var argv []string
	if fault != "" {
		sp, tp := statePaths(stateDir)
		argv = straceArgs(fault, sp, tp, tracePath)
	}
	argv = append(argv, rn.bin, "--child", jobPath)

	ctx, cancel := context.WithTimeout(context.Background(), 90*time.Second)
	defer cancel()
	cmd := exec.CommandContext(ctx, argv[0], argv[1:]...)
	cmd.SysProcAttr = &syscall.SysProcAttr{Setpgid: true}
	cmd.Cancel = func() error { return syscall.Kill(-cmd.Process.Pid, syscall.SIGKILL) }
	cmd.WaitDelay = 5 * time.Second
	var stderr bytes.Buffer
	cmd.Stderr = &stderr
	cmd.Stdout = &stderr
	cmd.Env = append(os.Environ(), "GOMAXPROCS=2")
	if rn.isStopping() {
		return nil, childExit{}, "", fmt.Errorf("stopping")
	}
	err := cmd.Start()
	if err == nil {
		rn.track(cmd.Process.Pid, true)
		if rn.isStopping() {
			_ = syscall.Kill(-cmd.Process.Pid, syscall.SIGKILL)
		}
		err = cmd.Wait()
		// whatever happened, nothing of this process group may survive
		_ = syscall.Kill(-cmd.Process.Pid, syscall.SIGKILL)
		rn.track(cmd.Process.Pid, false)
	}
	var ex childExit
	ex.stderr = stderr.String()
	if ctx.Err() == context.DeadlineExceeded {
		ex.timedOut = true
	}
	if cmd.ProcessState != nil {
		ex.code = cmd.ProcessState.ExitCode()
		ex.ok = cmd.ProcessState.Success()
		if ws, ok := cmd.ProcessState.Sys().(syscall.WaitStatus); ok && ws.Signaled() {
			ex.signaled = true
		}
		if ex.code == 137 {
			ex.signaled = true
		}
	} else if err != nil {
		return nil, ex, "", err
	}

	var recs []Rec
	if f, e := os.Open(outPath); e == nil {
		sc := bufio.NewScanner(f)
		sc.Buffer(make([]byte, 1<<20), 1<<24)
		for sc.Scan() {
			var rec Rec
			if json.Unmarshal(sc.Bytes(), &rec) == nil {
				recs = append(recs, rec)
			}
		}
		f.Close()
	}
	trace := ""
	if fault != "" {
		if tb, e := os.ReadFile(tracePath); e == nil {
			trace = string(tb)
		}
	}
	return recs, ex, trace, nil
}

// ---- judging one run ---------------------------------------------------------

type keySet map[int]bool

func setOf(obs []KeyObs) keySet {
	s := keySet{}
	for _, o := range obs {
		s[o.Key] = true
	}
	return s
}

func setOfInts(ks []int) keySet {
	s := keySet{}
	for _, k := range ks {
		s[k] = true
	}
	return s
}

func (s keySet) list() []int { return sortedKeys(s) }

func (s keySet) eq(o keySet) bool {
	if len(s) != len(o) {
		return false
	}
	for k := range s {
		if !o[k] {
			return false
		}
	}
	return true
}

func names(ks []int) string {
	var p []string
	for _, k := range ks {
		p = append(p, fmt.Sprintf("K%d", k))
	}
	return "{" + strings.Join(p, ",") + "}"
}

// stepLog is what the judge remembers about each executed step.
type stepLog struct {
	Step       int      `json:"step"`
	Note       string   `json:"note,omitempty"`
	NowHours   int      `json:"now_h"`
	Fault      string   `json:"fault,omitempty"`
	Reached    bool     `json:"fault_reached,omitempty"`
	Crashed    bool     `json:"crashed,omitempty"`
	Auth       string   `json:"auth"`
	Baseline   []int    `json:"baseline"`
	BaseNil    bool     `json:"baseline_nil,omitempty"`
	Live       []int    `json:"live,omitempty"`
	LiveNil    bool     `json:"live_nil,omitempty"`
	ModelCand  []int    `json:"model_baseline"`
	ModelLive  []int    `json:"model_live,omitempty"`
	ModelNil   bool     `json:"model_nil,omitempty"`
	ModelState string   `json:"model_state_after"`
	Trans      []string `json:"transitions,omitempty"`
	DiskAfter  string   `json:"disk_after,omitempty"`
	eff        Effect
	accepted   bool
	present    keySet
	pubTags    map[uint16]bool
}

type judge struct {
	rn   *runner
	r    *vlib.Run
	rs   *RunSpec
	keys []*Key
	M    *Model
	L    *Ledger
	now  int
	logs []*stepLog

	prevLive      keySet // trust set of the previous completed refresh (nil = none / cleared)
	prevLiveValid bool
	prevAfter     *DiskObs

	pendingRev map[int]int  // construction-accepted revocations not yet seen durable: key -> step
	abortLost  map[int]bool // an accepted refresh saw the pending key absent but the state write failed
	returnLost map[int]bool // an accepted refresh saw the missing key again but the state write failed
	tombOpenAt int          // step of the first reached tomb-open-eio fault (-1 none)
	stopped    bool

	// per-run tallies, merged into the vlib run by the caller
	cnt   map[string]int
	dist  []string
	mstat []string
}

func newJudge(rn *runner, rs *RunSpec) (*judge, error) {
	j := &judge{rn: rn, r: rn.r, rs: rs, pendingRev: map[int]int{}, abortLost: map[int]bool{}, returnLost: map[int]bool{}, tombOpenAt: -1, cnt: map[string]int{}}
	for _, m := range rs.H.Keys {
		k, err := keyFromMat(m)
		if err != nil {
			return nil, err
		}
		j.keys = append(j.keys, k)
	}
	j.M = newModel(j.keys)
	j.L = newLedger(j.keys)
	return j, nil
}

func (j *judge) count(name string, n int) { j.cnt[name] += n }

func (j *judge) violate(sig, what string, step int, extra map[string]any) {
	c := map[string]any{
		"run":       j.rs,
		"step":      step,
		"now_hours": j.now,
		"log":       j.logs,
		"key_tags":  j.keyTags(),
	}
	for k, v := range extra {
		c[k] = v
	}
	j.r.Violation(sig, what, c)
	j.count("violations_raised", 1)
	j.stopped = true
}

func (j *judge) keyTags() []string {
	var out []string
	for i, k := range j.keys {
		out = append(out, fmt.Sprintf("K%d tag=%d revoked-tag=%d", i, k.Tag, k.RTag))
	}
	return out
}

func (j *judge) configAt(i int) []Pub {
	if c := j.rs.H.Steps[i].Config; c != nil {
		return c
	}
	return j.rs.H.Config
}

func inConfig(cfg []Pub, k int) bool {
	for _, c := range cfg {
		if c.Key == k && !c.Revoked {
			return true
		}
	}
	return false
}

// checkObs validates the shape of an observed trust set.
func (j *judge) checkObs(obs []KeyObs, step int, where string) bool {
	for _, o := range obs {
		if o.Key < 0 {
			j.violate("S1/unknown-key-trusted", fmt.Sprintf("%s of step %d holds a key the scripted root never had: %s", where, step, o.Raw), step, nil)
			return false
		}
		if o.Flags&flagRevoke != 0 {
			j.violate("S2/revoked-form-in-trust-set", fmt.Sprintf("%s of step %d holds K%d with the REVOKE bit set", where, step, o.Key), step, nil)
			return false
		}
	}
	return true
}

func diskSummary(d *DiskObs) string {
	if d == nil {
		return ""
	}
	var sb strings.Builder
	sb.WriteString("state=" + d.State)
	for _, a := range d.Anchors {
		fmt.Fprintf(&sb, " K%d:%d", a.Key, a.State)
	}
	sb.WriteString(" tomb=" + d.Tomb)
	for _, t := range d.Tombstones {
		fmt.Fprintf(&sb, " K%d", t.Key)
	}
	if len(d.Leftovers) > 0 {
		fmt.Fprintf(&sb, " leftovers=%d", len(d.Leftovers))
	}
	return sb.String()
}

func diskState(d *DiskObs, k int) (int, bool) {
	if d == nil {
		return 0, false
	}
	for _, a := range d.Anchors {
		if a.Key == k {
			return a.State, true
		}
	}
	return 0, false
}

func diskRevoked(d *DiskObs, k int) bool {
	if d == nil {
		return false
	}
	for _, t := range d.Tombstones {
		if t.Key == k {
			return true
		}
	}
	for _, a := range d.Anchors {
		if a.Key == k && (a.State == 4 || a.State == 5) {
			return true
		}
	}
	return false
}

// judgeStep consumes the observations of one step. post == nil: the refresh was
// killed. before/after are the authoritative disk observations.
func (j *judge) judgeStep(i int, pre, post *Rec, before, after *DiskObs, eff Effect, reached bool) {
	st := &j.rs.H.Steps[i]
	cfg := j.configAt(i)
	lg := &stepLog{Step: i, Note: st.Note, NowHours: j.now, Fault: st.Fault, Reached: reached, Crashed: post == nil, eff: eff}
	j.logs = append(j.logs, lg)
	dirFault := isDirFault(st.Fault)

	// -- files decode or are absent ------------------------------------------------
	for _, d := range []struct {
		o     *DiskObs
		where string
	}{{before, "before"}, {after, "after"}} {
		if d.o == nil {
			continue
		}
		j.count("disk_checks", 1)
		if d.o.State != "ok" && d.o.State != "absent" {
			j.violate("disk/state-file-undecodable", fmt.Sprintf("trust-anchor.db %s step %d (%s): %s", d.where, i, st.Fault, d.o.State), i, map[string]any{"disk": d.o})
			return
		}
		if d.o.Tomb != "ok" && d.o.Tomb != "absent" && !dirFault {
			j.violate("disk/tombstone-file-undecodable", fmt.Sprintf("trust-anchor-tombstones.db %s step %d (%s): %s", d.where, i, st.Fault, d.o.Tomb), i, map[string]any{"disk": d.o})
			return
		}
		if len(d.o.Leftovers) > 0 {
			j.count("temp_files_left_seen", 1)
		}
	}
	lg.DiskAfter = diskSummary(after)

	if pre == nil {
		j.r.Inconclusive(fmt.Sprintf("run %d step %d: child produced no baseline record", j.rs.Index, i))
		j.stopped = true
		return
	}
	if pre.Panic != "" || (post != nil && post.Panic != "") {
		p := pre.Panic
		if p == "" {
			p = post.Panic
		}
		j.violate("panic/AutoTA", "AutoTA panicked: "+p, i, nil)
		return
	}
	if !j.checkObs(pre.Baseline, i, "restart trust set") {
		return
	}
	B := setOf(pre.Baseline)
	lg.Baseline, lg.BaseNil = B.list(), pre.BaselineNil

	// -- classify the response against what the resolver trusted at this start --------
	auth := classify(st, B, j.keys)
	if eff.StoreCorrupt {
		auth = authNone
	}
	lg.Auth = auth
	j.count("auth/"+auth, 1)

	// -- model -------------------------------------------------------------------
	vecBefore := j.M.D.Vector(len(j.keys))
	ex := j.M.Step(st, cfg, j.now, eff)
	lg.ModelCand, lg.ModelLive, lg.ModelNil, lg.Trans = ex.Candidate, ex.Live, ex.Nil, ex.Transitions
	lg.ModelState = j.M.D.Vector(len(j.keys))
	j.mstat = append(j.mstat, lg.ModelState)
	j.dist = append(j.dist, vecBefore+"|"+auth+"|"+strings.Join(ex.Transitions, ",")+"|"+st.Fault+fmt.Sprint(reached))

	// -- the restart trust set ------------------------------------------------------
	j.r.Eval(1)
	if eff.StoreCorrupt {
		if !pre.BaselineNil && len(B) > 0 {
			j.violate("S2/not-fail-closed/store-unreadable", fmt.Sprintf("step %d: tombstone store unreadable (%s) but the restart trusts %s", i, st.Fault, names(B.list())), i, nil)
			return
		}
		j.count("fail_closed_observed/"+st.Fault, 1)
	} else {
		if pre.BaselineNil {
			j.violate("S4/trust-set-cleared-on-restart", fmt.Sprintf("step %d: restart cleared the trust set although the tombstone store is readable", i), i, nil)
			return
		}
		if !j.mayTrustAll(B, cfg, i, "restart trust set") {
			return
		}
		if j.prevLiveValid {
			for k := range j.prevLive {
				if B[k] || j.L.k[k].revoked {
					continue
				}
				if s, ok := diskState(j.prevAfter, k); ok && (s == 2 || s == 3) && !diskRevoked(j.prevAfter, k) {
					j.violate("S4/trusted-key-dropped-on-restart", fmt.Sprintf("step %d: K%d was trusted and recorded as such on disk, yet the restart does not trust it (no revocation, no refresh)", i, k), i, nil)
					return
				}
				j.count("latitude/unpersisted-trust-lost-on-restart", 1)
			}
		}
		j.count("set_compares", 1)
		if !B.eq(setOfInts(ex.Candidate)) {
			if !j.modelDiff(B, setOfInts(ex.Candidate), cfg, i, "restart trust set") {
				return
			}
		} else {
			j.count("set_compare_agree", 1)
		}
	}

	// -- revocations accepted by construction ---------------------------------------
	accRev := keySet{}
	if auth != authNone {
		for _, p := range st.Keys {
			if p.Revoked && B[p.Key] && selfSignedRevocation(st, p.Key) {
				if j.keys[p.Key].carry() {
					j.count("latitude/revocation-unrecognised-tag-carry", 1)
					continue
				}
				accRev[p.Key] = true
				if _, ok := j.pendingRev[p.Key]; !ok {
					j.pendingRev[p.Key] = i
				}
			}
		}
	}
	completed := post != nil
	bothFail := eff.TombFail && eff.StateFail
	// recorded = a record is on disk, or the refresh completed with at most one
	// failed write, or it was killed after one of its two replacements landed
	for k := range j.pendingRev {
		if diskRevoked(after, k) || (accRev[k] && completed && !bothFail) || (accRev[k] && !completed && (eff.TombLanded || eff.StateLanded)) {
			j.L.Revoked(k, i)
			delete(j.pendingRev, k)
			j.count("revocations_accepted", 1)
		}
	}

	// -- accepted refresh (for the presence ledger) -----------------------------------
	lg.present = keySet{}
	lg.pubTags = map[uint16]bool{}
	for _, p := range st.Keys {
		if p.Revoked {
			lg.pubTags[j.keys[p.Key].RTag] = true
		} else {
			lg.present[p.Key] = true
			lg.pubTags[j.keys[p.Key].Tag] = true
		}
	}
	lg.accepted = auth == authFull && ((completed && !bothFail) || (!completed && eff.StateLanded))
	if lg.accepted {
		j.L.Accepted(i, st, j.now)
		j.count("accepted_refreshes", 1)
		if completed && eff.StateFail {
			for _, a := range before.Anchors {
				if a.State == 1 && !lg.present[a.Key] {
					j.abortLost[a.Key] = true
				}
				if a.State == 3 && lg.present[a.Key] {
					j.returnLost[a.Key] = true
				}
			}
		}
	}

	if !completed {
		j.count("steps_crashed", 1)
		j.prevLiveValid = false
		j.prevAfter = after
		return
	}
	if !j.checkObs(post.Live, i, "live trust set") {
		return
	}
	live := setOf(post.Live)
	lg.Live, lg.LiveNil = live.list(), post.LiveNil
	j.r.Eval(1)
	j.count("steps", 1)
	if post.Attempts > 1 {
		j.count("fetch_retried_after_transport_failure", post.Attempts-1)
	}
	transport := post.Result == "query_error" || post.Result == "timeout" || post.Result == "work_budget"
	if !eff.StoreCorrupt && st.Answer == "" && (post.Queries == 0 || transport) {
		j.r.Inconclusive(fmt.Sprintf("run %d step %d: the fetch of a scripted answer failed %d times (result %q, %d queries seen)", j.rs.Index, i, post.Attempts, post.Result, post.Queries))
		j.stopped = true
		return
	}
	j.count("refresh_result/"+post.Result, 1)
	if post.HasTA != (len(live) > 0) {
		j.violate("S2/has-trust-anchors-disagrees", fmt.Sprintf("step %d: hasTrustAnchors=%v but the live set has %d keys", i, post.HasTA, len(live)), i, nil)
		return
	}
	empty := len(live) == 0

	// -- fail-closed clauses ---------------------------------------------------------
	if eff.StoreCorrupt {
		if !empty {
			j.violate("S2/not-fail-closed/store-unreadable", fmt.Sprintf("step %d: tombstone store unreadable (%s) but the refresh left %s trusted", i, st.Fault, names(live.list())), i, nil)
			return
		}
		if post.FollowRan && len(post.Follow) > 0 {
			j.violate("S2/fail-closed-not-kept-in-process", fmt.Sprintf("step %d: tombstone store unreadable (%s); the next tick of the same process trusts %s", i, st.Fault, names(setOf(post.Follow).list())), i, nil)
			return
		}
		j.prevLive, j.prevLiveValid, j.prevAfter = nil, false, after
		return
	}
	if bothFail && len(accRev) > 0 {
		if !empty {
			j.violate("S2/not-fail-closed/both-writes-failed", fmt.Sprintf("step %d: revocation of %s accepted, neither record could be written, yet %s stays trusted", i, names(accRev.list()), names(live.list())), i, nil)
			return
		}
		j.count("fail_closed_observed/"+st.Fault, 1)
		// the clear must outlive the refresh: another tick of the same process
		// whose fetch fails has nothing durable to publish from
		if post.FollowRan {
			j.count("fail_closed_follow_up_ticks", 1)
			if len(post.Follow) > 0 {
				j.violate("S2/fail-closed-not-kept-in-process", fmt.Sprintf("step %d: after the fail-closed clear the next tick of the same process (fetch refused, nothing written) trusts %s again", i, names(setOf(post.Follow).list())), i, nil)
				return
			}
		}
		j.prevLive, j.prevLiveValid, j.prevAfter = nil, false, after
		return
	}
	if empty && len(B) > 0 {
		// legitimate only if every trusted key was revoked in this refresh or
		// may be dropped under S4 (absent from this accepted refresh after
		// 90 d of being missing) — e.g. one anchor's revocation is accepted in
		// the very refresh in which the other's remove hold-down runs out
		all := true
		for k := range B {
			if accRev[k] || j.L.k[k].revoked {
				continue
			}
			if lg.accepted && !lg.present[k] && j.L.MayDrop(k, j.now) {
				continue
			}
			all = false
		}
		if !all {
			j.violate("S4/trust-set-emptied", fmt.Sprintf("step %d (%s, auth %s): trust set went from %s to empty", i, st.Fault, auth, names(B.list())), i, nil)
			return
		}
	}

	// -- S3 --------------------------------------------------------------------------
	switch auth {
	case authNone:
		j.count("s3_checks", 1)
		if !live.eq(B) || post.LiveNil {
			j.violate("S3/unauthenticated-response-changed-trust-set", fmt.Sprintf("step %d: response authenticated by no trusted key, trust set %s -> %s", i, names(B.list()), names(live.list())), i, nil)
			return
		}
		if before.StateSum != after.StateSum || before.State != after.State || before.TombSum != after.TombSum || before.Tomb != after.Tomb {
			j.violate("S3/unauthenticated-response-changed-state", fmt.Sprintf("step %d: response authenticated by no trusted key rewrote the state files (%s -> %s)", i, diskSummary(before), diskSummary(after)), i, nil)
			return
		}
	case authRevOnly:
		j.count("s3_checks", 1)
		want := keySet{}
		for k := range B {
			if !accRev[k] {
				want[k] = true
			}
		}
		if !live.eq(want) {
			j.violate("S3/revoked-only-response-changed-trust-set", fmt.Sprintf("step %d: response authenticated only by revoked %s; trust set %s -> %s, allowed %s", i, names(accRev.list()), names(B.list()), names(live.list()), names(want.list())), i, nil)
			return
		}
		if msg := revOnlyDiskDiff(before, after, accRev); msg != "" {
			j.violate("S3/revoked-only-response-changed-state", fmt.Sprintf("step %d: response authenticated only by revoked %s changed more than that revocation: %s", i, names(accRev.list()), msg), i, nil)
			return
		}
	}

	// -- S1 / S2 on the live set -------------------------------------------------------
	if !j.mayTrustAll(live, cfg, i, "live trust set") {
		return
	}
	// -- S4 on keys that left the trust set ----------------------------------------------
	for k := range B {
		if live[k] || accRev[k] || j.L.k[k].revoked {
			continue
		}
		j.count("s4_checks", 1)
		if lg.accepted && !lg.present[k] && j.L.MayDrop(k, j.now) {
			continue
		}
		sig := "S4/trusted-key-dropped"
		why := "it was not revoked and has not been missing for 90 d"
		if j.returnLost[k] {
			sig = "S4/return-to-valid-lost/state-write-failed"
			why = "its reappearance in an accepted refresh whose state write failed was forgotten, so the old missing-since date expired it"
		}
		j.violate(sig, fmt.Sprintf("step %d: K%d left the trust set (%s -> %s): %s", i, k, names(B.list()), names(live.list()), why), i, nil)
		return
	}
	for k := range B {
		if live[k] {
			j.count("s4_checks", 1)
		}
	}

	// -- model comparison -------------------------------------------------------------
	j.count("set_compares", 1)
	if ex.Nil != (empty && post.LiveNil) || !live.eq(setOfInts(ex.Live)) {
		if !j.modelDiff(live, setOfInts(ex.Live), cfg, i, "live trust set") {
			return
		}
	} else {
		j.count("set_compare_agree", 1)
		for _, t := range ex.Transitions {
			j.count("transition/"+t, 1)
			switch t {
			case "AddPend->Valid":
				j.count("holddown_crossings/add-30d", 1)
			case "Missing->Removed":
				j.count("holddown_crossings/remove-90d", 1)
			}
		}
		j.holdDownNearMisses(before, st, auth)
	}

	j.prevLive, j.prevLiveValid, j.prevAfter = live, true, after
}

// holdDownNearMisses counts refreshes that looked at a hold-down clock that had
// not yet run out (evidence that both sides of each threshold were visited).
func (j *judge) holdDownNearMisses(before *DiskObs, st *Step, auth string) {
	if auth != authFull || before == nil {
		return
	}
	present := keySet{}
	for _, p := range st.Keys {
		if !p.Revoked {
			present[p.Key] = true
		}
	}
	nowNs := time.Now().UnixNano()
	for _, a := range before.Anchors {
		age := time.Duration(nowNs - a.FirstSeen)
		switch {
		case a.State == 1 && present[a.Key] && age < addHoldHours*time.Hour && age > (addHoldHours-48)*time.Hour:
			j.count("holddown_near/add-within-48h-before", 1)
		case a.State == 1 && present[a.Key] && age >= addHoldHours*time.Hour && age < (addHoldHours+48)*time.Hour:
			j.count("holddown_near/add-within-48h-after", 1)
		case a.State == 3 && !present[a.Key] && age < removeHoldHours*time.Hour && age > (removeHoldHours-48)*time.Hour:
			j.count("holddown_near/remove-within-48h-before", 1)
		case a.State == 3 && !present[a.Key] && age >= removeHoldHours*time.Hour && age < (removeHoldHours+48)*time.Hour:
			j.count("holddown_near/remove-within-48h-after", 1)
		}
	}
}

func revOnlyDiskDiff(before, after *DiskObs, rev keySet) string {
	if before.State == "absent" {
		// first run: the state file is created from the configured anchors
		for _, a := range after.Anchors {
			if a.State == 1 {
				return fmt.Sprintf("K%d entered AddPend", a.Key)
			}
		}
		return ""
	}
	bm := map[int]AnchorObs{}
	for _, a := range before.Anchors {
		bm[a.Key] = a
	}
	am := map[int]AnchorObs{}
	for _, a := range after.Anchors {
		am[a.Key] = a
	}
	for k, a := range am {
		if rev[k] {
			continue
		}
		b, ok := bm[k]
		if !ok {
			if a.State == 1 {
				return fmt.Sprintf("K%d entered AddPend", k)
			}
			continue // configured anchors merged at start are not driven by the response
		}
		if b.State != a.State && !(b.State == 4 || a.State == 4) {
			return fmt.Sprintf("K%d state %d -> %d", k, b.State, a.State)
		}
	}
	for k, b := range bm {
		if rev[k] || b.State == 4 || b.State == 5 {
			continue
		}
		if _, ok := am[k]; !ok && !diskRevoked(after, k) && !diskRevoked(before, k) {
			return fmt.Sprintf("K%d (state %d) removed", k, b.State)
		}
	}
	return ""
}

// mayTrustAll applies S1 and S2 to every key of an observed trust set.
func (j *judge) mayTrustAll(set keySet, cfg []Pub, i int, where string) bool {
	for _, k := range set.list() {
		j.count("s1_s2_checks", 1)
		ok, clause, why := j.L.MayTrust(k, inConfig(cfg, k))
		if ok {
			continue
		}
		if clause == "S2" {
			ctx := "no-fault"
			switch {
			case j.tombOpenAt >= 0:
				ctx = "after-tombstone-open-error"
			default:
				// the latest reached fault at or after the revocation
				for _, lg := range j.logs {
					if lg.Step >= j.L.k[k].revokedAt && lg.Reached {
						ctx = "after-" + lg.Fault
					}
				}
			}
			if ctx == "no-fault" && j.rs.Collision {
				ctx = "no-fault/tag-collision-history"
			}
			j.violate("S2/revoked-key-trusted/"+ctx,
				fmt.Sprintf("step %d: %s holds K%d (in config: %v) although %s", i, where, k, inConfig(cfg, k), why), i, nil)
			return false
		}
		// S1: explain
		e := j.L.k[k]
		sig := "S1/trusted-before-30d-presence"
		if e.breakStep >= 0 {
			sig = "S1/hold-down-not-restarted"
			var bl *stepLog
			for _, lg := range j.logs {
				if lg.Step == e.breakStep {
					bl = lg
				}
			}
			switch {
			case j.abortLost[k]:
				sig += "/state-write-failed"
				why += "; the accepted refresh that saw it absent could not write the state file, so the abort of its hold-down was forgotten"
			case bl != nil && bl.pubTags[j.keys[k].Tag]:
				sig += "/tag-collision-masks-absence"
				why += fmt.Sprintf("; at step %d it was absent but another published key had its key tag %d", e.breakStep, j.keys[k].Tag)
			}
		}
		j.violate(sig, fmt.Sprintf("step %d: %s holds K%d, which is not configured and has no 30 d of continuous presence in accepted refreshes (%s)", i, where, k, why), i, nil)
		return false
	}
	return true
}

// modelDiff handles a difference between M and an observation that the literal
// clauses did not flag: inside the documented latitude it is counted, outside
// it is a violation of its own. Returns false if the run must stop.
func (j *judge) modelDiff(obs, model keySet, cfg []Pub, i int, where string) bool {
	var extra, missing []int
	for k := range obs {
		if !model[k] {
			extra = append(extra, k)
		}
	}
	for k := range model {
		if !obs[k] {
			missing = append(missing, k)
		}
	}
	sort.Ints(extra)
	sort.Ints(missing)
	if j.rs.Collision {
		// Key-tag collisions: the statement only forbids a revoked key coming back
		// and trust without hold-down (both judged above). The resolver indexes
		// by tag, so it may ignore a new key whose tag is taken (trusts less) and
		// may not notice that a trusted key left if a same-tag key is published
		// (keeps trusting a key that was legitimately valid).
		for range extra {
			j.count("latitude/collision-kept-trusting-valid-key", 1)
		}
		for range missing {
			j.count("latitude/collision-new-key-ignored", 1)
		}
		return true
	}
	sig := "model/" + strings.ReplaceAll(where, " ", "-") + "-differs"
	if len(extra) > 0 {
		sig += "/extra"
	}
	if len(missing) > 0 {
		sig += "/missing"
	}
	j.violate(sig, fmt.Sprintf("step %d: %s is %s, the RFC 5011 reference model expects %s (extra %s, missing %s)", i, where, names(obs.list()), names(model.list()), names(extra), names(missing)), i, nil)
	return false
}

// ---- executing one run -------------------------------------------------------

// result of one run, merged into the vlib run by the caller in index order.
type runResult struct {
	Index   int
	Cnt     map[string]int
	Dist    []string
	MStates []string
	Logs    []*stepLog
	Spec    *RunSpec
}

func (rn *runner) execRun(rs *RunSpec) *runResult {
	res := &runResult{Index: rs.Index, Spec: rs, Cnt: map[string]int{}}
	if rn.isStopping() {
		return res
	}
	j, err := newJudge(rn, rs)
	if err != nil {
		rn.r.Inconclusive("bad run spec: " + err.Error())
		return res
	}
	defer func() {
		res.Cnt, res.Dist, res.MStates, res.Logs = j.cnt, j.dist, j.mstat, j.logs
	}()
	runDir, err := os.MkdirTemp(rn.root, fmt.Sprintf("run%05d-", rs.Index))
	if err != nil {
		rn.r.Inconclusive("mkdir: " + err.Error())
		return res
	}
	defer os.RemoveAll(runDir)
	stateDir := filepath.Join(runDir, "state")
	if err := os.Mkdir(stateDir, 0o750); err != nil {
		rn.r.Inconclusive("mkdir: " + err.Error())
		return res
	}
	ix := newKeyIndex(j.keys)
	j.count("runs", 1)
	started := time.Now()

	steps := rs.H.Steps
	seq := 0
	for i := 0; i < len(steps) && !j.stopped; {
		if rn.isStopping() {
			return res
		}
		if time.Since(started) > 30*time.Minute {
			// virtual clocks are hours; real time must stay far below one
			rn.r.Inconclusive(fmt.Sprintf("run %d took more than 30 min of real time", rs.Index))
			return res
		}
		fault := steps[i].Fault
		to := i + 1
		if !isStraceFault(fault) {
			fault = ""
			for to < len(steps) && !isStraceFault(steps[to].Fault) {
				to++
			}
		}
		// virtual time passes before the first refresh of the segment
		if d := steps[i].DtHours; d > 0 {
			if err := shiftDisk(stateDir, time.Duration(d)*time.Hour); err != nil {
				rn.r.Inconclusive("shift: " + err.Error())
				return res
			}
		}
		var before *DiskObs
		if fault != "" {
			before = readDisk(stateDir, ix)
		}
		recs, ex, trace, err := rn.launch(runDir, stateDir, rs, i, to, seq, fault)
		seq++
		if err != nil || ex.timedOut {
			rn.r.Inconclusive(fmt.Sprintf("run %d steps %d-%d: child failed to run (%v, timeout=%v): %s", rs.Index, i, to, err, ex.timedOut, tail(ex.stderr)))
			return res
		}
		byStep := map[int][2]*Rec{}
		for k := range recs {
			rec := &recs[k]
			p := byStep[rec.Step]
			if rec.Phase == "pre" {
				p[0] = rec
			} else {
				p[1] = rec
			}
			byStep[rec.Step] = p
		}

		if fault == "" {
			if !ex.ok {
				rn.r.Inconclusive(fmt.Sprintf("run %d steps %d-%d: child exit %d: %s", rs.Index, i, to, ex.code, tail(ex.stderr)))
				return res
			}
			for s := i; s < to && !j.stopped; s++ {
				j.now += steps[s].DtHours
				p := byStep[s]
				if p[0] == nil || p[1] == nil {
					rn.r.Inconclusive(fmt.Sprintf("run %d step %d: missing child record", rs.Index, s))
					return res
				}
				eff := Effect{}
				reached := false
				if f := steps[s].Fault; isDirFault(f) {
					// reached = the start really found a store it cannot decode
					// (tomb-empty / tomb-torn need a store that was written before)
					if b := p[0].Before; b != nil && strings.HasPrefix(b.Tomb, "undecodable") {
						eff.StoreCorrupt = true
						reached = true
						j.count("fault/"+f, 1)
						// the class that matters most: a revocation is on record
						// ONLY in that store, and the configuration still lists the key
						for _, c := range j.configAt(s) {
							if !c.Revoked && c.Key < len(j.L.k) && j.L.k[c.Key].revoked {
								j.count("store_unreadable_revoked_key_configured/"+f, 1)
								break
							}
						}
					} else {
						j.count("fault_not_applicable/"+f, 1)
					}
				}
				j.judgeStep(s, p[0], p[1], p[0].Before, p[1].After, eff, reached)
			}
			i = to
			continue
		}

		// one refresh under strace
		j.now += steps[i].DtHours
		after := readDisk(stateDir, ix)
		p := byStep[i]
		eff := Effect{}
		reached := false
		injected := strings.Count(trace, "(INJECTED)")
		switch {
		case isKillFault(fault):
			if p[1] == nil && (ex.signaled || !ex.ok) && p[0] != nil {
				eff.Killed = true
				reached = true
				eff.TombLanded = before.TombIno != after.TombIno
				eff.StateLanded = before.StateIno != after.StateIno
			} else if !ex.ok {
				rn.r.Inconclusive(fmt.Sprintf("run %d step %d (%s): child exit %d without being killed at the injection point: %s", rs.Index, i, fault, ex.code, tail(ex.stderr)))
				return res
			}
		default:
			if !ex.ok {
				rn.r.Inconclusive(fmt.Sprintf("run %d step %d (%s): child exit %d: %s", rs.Index, i, fault, ex.code, tail(ex.stderr)))
				return res
			}
			for _, line := range strings.Split(trace, "\n") {
				if !strings.Contains(line, "(INJECTED)") {
					continue
				}
				switch {
				case strings.Contains(line, "openat(") || strings.Contains(line, " open("):
					// the statement: "if … the revocation store is unreadable,
					// validation fails closed" — a store that cannot be opened is
					// unreadable, exactly like one that does not decode
					eff.StoreNoOpen = true
					eff.StoreCorrupt = true
				case strings.Contains(line, "tombstones.db\") = -1"):
					eff.TombFail = true
				default:
					eff.StateFail = true
				}
			}
			reached = injected > 0
		}
		if reached {
			j.count("fault/"+fault, 1)
			if eff.StoreNoOpen && j.tombOpenAt < 0 {
				j.tombOpenAt = i
			}
		} else {
			j.count("fault_not_reached/"+fault, 1)
		}
		j.judgeStep(i, p[0], p[1], before, after, eff, reached)
		i = to
	}
	if !j.stopped {
		j.count("runs_completed", 1)
	}
	return res
}

func tail(s string) string {
	s = strings.TrimSpace(s)
	if len(s) > 600 {
		s = "..." + s[len(s)-600:]
	}
	return s
}
