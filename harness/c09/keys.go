package main

import (
	"crypto/ed25519"
	"encoding/base64"
	"encoding/binary"
	"encoding/hex"
	"fmt"
	"math/rand/v2"

	"github.com/miekg/dns"
)

const (
	flagKSK    = 257
	flagZSK    = 256
	flagRevoke = 0x0080
)

// Key is one Ed25519 DNSSEC key of the scripted root.
type Key struct {
	Mat  KeyMat
	Priv ed25519.PrivateKey
	Pub  string // base64 public key
	Tag  uint16 // key tag of the 257 form
	RTag uint16 // key tag of the 385 (revoked) form
}

func keyFromSeed(seed []byte, name string) *Key {
	priv := ed25519.NewKeyFromSeed(seed)
	pub := priv.Public().(ed25519.PublicKey)
	k := &Key{Mat: KeyMat{Seed: hex.EncodeToString(seed), Name: name}, Priv: priv, Pub: base64.StdEncoding.EncodeToString(pub)}
	k.Tag = k.RR(flagKSK).KeyTag()
	k.RTag = k.RR(flagKSK | flagRevoke).KeyTag()
	return k
}

func keyFromMat(m KeyMat) (*Key, error) {
	seed, err := hex.DecodeString(m.Seed)
	if err != nil || len(seed) != ed25519.SeedSize {
		return nil, fmt.Errorf("bad key seed %q", m.Seed)
	}
	return keyFromSeed(seed, m.Name), nil
}

// RR renders the key as a root DNSKEY with the given flags.
func (k *Key) RR(flags uint16) *dns.DNSKEY {
	return &dns.DNSKEY{
		Hdr:       dns.RR_Header{Name: ".", Rrtype: dns.TypeDNSKEY, Class: dns.ClassINET, Ttl: 172800},
		Flags:     flags,
		Protocol:  3,
		Algorithm: dns.ED25519,
		PublicKey: k.Pub,
	}
}

// carry reports whether setting the REVOKE bit does not simply add 128 to the
// key tag (the RFC 4034 checksum folds a carry).
func (k *Key) carry() bool { return k.RTag != k.Tag+flagRevoke }

// Pool is a deterministic supply of keys with the key-tag relations the
// workload needs: ordinary keys, pairs with equal tags, pairs where the tag of
// one equals the revoked-form tag of the other, and keys whose revoked-form
// tag is not tag+128.
type Pool struct {
	plain   []*Key
	sameTag [][2]*Key // tag(a) == tag(b) and rtag(a) == rtag(b)
	revTag  [][2]*Key // tag(b) == rtag(a): b's plain tag collides with a's revoked tag
	carry   []*Key
}

func newPool(rng *rand.Rand, n int) *Pool {
	p := &Pool{}
	byTag := map[uint16]*Key{}
	byRTag := map[uint16]*Key{}
	used := map[*Key]bool{}
	var all []*Key
	for i := 0; i < n || (i < 12*n && (len(p.carry) < 3 || len(p.sameTag) < 12 || len(p.revTag) < 6)); i++ {
		var seed [32]byte
		for j := 0; j < 4; j++ {
			binary.LittleEndian.PutUint64(seed[j*8:], rng.Uint64())
		}
		k := keyFromSeed(seed[:], "")
		all = append(all, k)
		if k.carry() {
			p.carry = append(p.carry, k)
			used[k] = true
			continue
		}
		if o := byTag[k.Tag]; o != nil && !used[o] && o.RTag == k.RTag {
			p.sameTag = append(p.sameTag, [2]*Key{o, k})
			used[o], used[k] = true, true
			continue
		}
		if o := byRTag[k.Tag]; o != nil && !used[o] {
			p.revTag = append(p.revTag, [2]*Key{o, k})
			used[o], used[k] = true, true
			continue
		}
		if o := byTag[k.RTag]; o != nil && !used[o] {
			p.revTag = append(p.revTag, [2]*Key{k, o})
			used[o], used[k] = true, true
			continue
		}
		byTag[k.Tag] = k
		byRTag[k.RTag] = k
	}
	// plain keys: unused ones whose tags (both forms) are unique in the pool, so
	// that a history only has the collisions it asks for
	cnt := map[uint16]int{}
	for _, k := range all {
		cnt[k.Tag]++
		cnt[k.RTag]++
	}
	for _, k := range all {
		if !used[k] && cnt[k.Tag] == 1 && cnt[k.RTag] == 1 {
			p.plain = append(p.plain, k)
		}
	}
	return p
}
