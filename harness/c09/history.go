package main

import (
	"fmt"
	"math/rand/v2"
	"sort"
)

// RunSpec is one executable case: a history with its faults assigned.
type RunSpec struct {
	Index     int     `json:"index"`
	Kind      string  `json:"kind"` // random | directed | sweep
	Collision bool    `json:"collision,omitempty"`
	H         History `json:"history"`
}

func (rs *RunSpec) faults() []string {
	var out []string
	for i, s := range rs.H.Steps {
		if s.Fault != "" {
			out = append(out, fmt.Sprintf("%d:%s", i, s.Fault))
		}
	}
	return out
}

func cloneHistory(h History) History {
	n := h
	n.Keys = append([]KeyMat{}, h.Keys...)
	n.Config = append([]Pub{}, h.Config...)
	n.Steps = make([]Step, len(h.Steps))
	for i, s := range h.Steps {
		c := s
		c.Keys = append([]Pub{}, s.Keys...)
		c.Sigs = append([]SigSpec{}, s.Sigs...)
		if s.Config != nil {
			c.Config = append([]Pub{}, s.Config...)
		}
		n.Steps[i] = c
	}
	return n
}

func withFaults(h History, at map[int]string) History {
	n := cloneHistory(h)
	for i := range n.Steps {
		n.Steps[i].Fault = at[i]
	}
	return n
}

// keyTaker hands out pool keys without reuse inside one run of the monitor.
type keyTaker struct {
	p                  *Pool
	plain, same, rev   int
	carry              int
	plainExhaustedOnce bool
}

func (t *keyTaker) takePlain() *Key {
	k := t.p.plain[t.plain%len(t.p.plain)]
	t.plain++
	return k
}
func (t *keyTaker) takeSame() ([2]*Key, bool) {
	if len(t.p.sameTag) == 0 {
		return [2]*Key{}, false
	}
	k := t.p.sameTag[t.same%len(t.p.sameTag)]
	t.same++
	return k, true
}
func (t *keyTaker) takeRev() ([2]*Key, bool) {
	if len(t.p.revTag) == 0 {
		return [2]*Key{}, false
	}
	k := t.p.revTag[t.rev%len(t.p.revTag)]
	t.rev++
	return k, true
}
func (t *keyTaker) takeCarry() (*Key, bool) {
	if len(t.p.carry) == 0 {
		return nil, false
	}
	k := t.p.carry[t.carry%len(t.p.carry)]
	t.carry++
	return k, true
}

// ---- builders for scripted steps -------------------------------------------------

func pubs(ks ...int) []Pub {
	out := make([]Pub, 0, len(ks))
	for _, k := range ks {
		if k < 0 {
			out = append(out, Pub{Key: -k - 1, Revoked: true}) // rv(k)
		} else {
			out = append(out, Pub{Key: k})
		}
	}
	return out
}

// rv encodes "key k in its revoked form" for pubs/sigs.
func rv(k int) int { return -k - 1 }

func sigs(ks ...int) []SigSpec {
	out := make([]SigSpec, 0, len(ks))
	for _, k := range ks {
		if k < 0 {
			out = append(out, SigSpec{Key: -k - 1, Revoked: true})
		} else {
			out = append(out, SigSpec{Key: k})
		}
	}
	return out
}

func st(dt int, keys []Pub, sg []SigSpec, note string) Step {
	return Step{DtHours: dt, Keys: keys, Sigs: sg, Note: note}
}

const day = 24

func mats(ks ...*Key) []KeyMat {
	out := make([]KeyMat, len(ks))
	for i, k := range ks {
		m := k.Mat
		m.Name = fmt.Sprintf("K%d", i)
		out[i] = m
	}
	return out
}

// directed returns the fixed scenarios: each drives named transitions and
// clauses, so coverage does not depend on what the random generator draws.
func directed(t *keyTaker) []RunSpec {
	var out []RunSpec
	add := func(name string, collision bool, keys []KeyMat, config []Pub, steps ...Step) {
		out = append(out, RunSpec{Kind: "directed", Collision: collision,
			H: History{Name: name, Keys: keys, ZSK: t.takePlain().Mat, Config: config, Steps: steps}})
	}
	p := func() *Key { return t.takePlain() }

	// D1 rollover: add N, 29 d pending, 31 d valid, revoke A co-signed by N,
	// keep publishing A revoked, drop it, A still in config, restarts.
	add("rollover", false, mats(p(), p()), pubs(0),
		st(0, pubs(0), sigs(0), "steady"),
		st(1*day, pubs(0, 1), sigs(0), "add N"),
		st(29*day, pubs(0, 1), sigs(0, 1), "29 d: still pending"),
		st(1*day+1, pubs(0, 1), sigs(0, 1), "30 d + 1 h: valid"),
		st(5*day, pubs(rv(0), 1), sigs(rv(0), 1), "revoke A, co-signed by N"),
		st(1*day, pubs(rv(0), 1), sigs(rv(0), 1), "A still published revoked"),
		st(30*day, pubs(1), sigs(1), "A gone; config still lists it"),
		st(1*day, pubs(0, 1), sigs(0, 1), "A republished un-revoked, signing again"),
		st(40*day, pubs(0, 1), sigs(0, 1), "40 d later: must still not be trusted"),
	)
	// D2 add hold-down restarts after an absence.
	add("abort-and-restart", false, mats(p(), p()), pubs(0),
		st(0, pubs(0, 1), sigs(0), "add N"),
		st(10*day, pubs(0), sigs(0), "N withdrawn: hold-down aborts"),
		st(1*day, pubs(0, 1), sigs(0), "N again: fresh hold-down"),
		st(25*day, pubs(0, 1), sigs(0), "36 d after first sight, 25 d after second: pending"),
		st(4*day, pubs(0, 1), sigs(0), "29 d: pending"),
		st(2*day, pubs(0, 1), sigs(0), "31 d: valid"),
	)
	// D2b the same, but the refresh that sees N withdrawn cannot write the state file.
	add("abort-under-state-write-failure", false, mats(p(), p()), pubs(0),
		st(0, pubs(0, 1), sigs(0), "add N"),
		Step{DtHours: 10 * day, Keys: pubs(0), Sigs: sigs(0), Fault: FStateEIO, Note: "N withdrawn; state write fails"},
		st(1*day, pubs(0, 1), sigs(0), "N again"),
		st(20*day, pubs(0, 1), sigs(0), "31 d after first sight, 20 d after second"),
		st(11*day, pubs(0, 1), sigs(0), "31 d after second"),
	)
	// D3 missing: 89 d trusted, reappears -> valid, missing again 91 d -> removed, re-add is a new key.
	add("missing-and-return", false, mats(p(), p()), pubs(0),
		st(0, pubs(0, 1), sigs(0), "add N"),
		st(31*day, pubs(0, 1), sigs(0), "valid"),
		st(1*day, pubs(0), sigs(0), "N missing"),
		st(89*day, pubs(0), sigs(0), "89 d missing: trusted"),
		st(12, pubs(0, 1), sigs(0, 1), "reappears: valid"),
		st(1*day, pubs(0), sigs(0), "missing again"),
		st(60*day, pubs(0), sigs(0), "60 d"),
		st(31*day, pubs(0), sigs(0), "91 d: removed"),
		st(1*day, pubs(0, 1), sigs(0), "back: pending again"),
		st(10*day, pubs(0, 1), sigs(0), "still pending"),
	)
	// D3b a missing key reappears in a refresh that cannot write the state file.
	add("return-under-state-write-failure", false, mats(p(), p()), pubs(0),
		st(0, pubs(0, 1), sigs(0), "add N"),
		st(31*day, pubs(0, 1), sigs(0), "valid"),
		st(1*day, pubs(0), sigs(0), "N missing"),
		st(89*day, pubs(0), sigs(0), "89 d missing: trusted"),
		Step{DtHours: 12, Keys: pubs(0, 1), Sigs: sigs(0, 1), Fault: FStateEIO, Note: "reappears: valid; state write fails"},
		st(1*day, pubs(0), sigs(0), "missing again, 90 d 12 h after it first went missing"),
		st(1*day, pubs(0), sigs(0), "after"),
	)
	// D1b the tombstone store cannot be opened at a start after A was revoked.
	add("tombstone-open-error-after-revocation", false, mats(p(), p()), pubs(0, 1),
		st(0, pubs(0, 1), sigs(0, 1), "two anchors"),
		st(1*day, pubs(rv(0), 1), sigs(rv(0), 1), "revoke A"),
		st(30*day, pubs(1), sigs(1), "A gone; config still lists it"),
		Step{DtHours: 1 * day, Keys: pubs(1), Sigs: sigs(1), Fault: FTombOpen, Note: "open(tombstones) = EIO"},
		st(1*day, pubs(1), sigs(1), "clean start afterwards"),
	)
	// D4 revocation authenticated only by the revoked key; a new key rides along.
	add("revoked-only-auth", false, mats(p(), p(), p()), pubs(0, 1),
		st(0, pubs(0, 1), sigs(0, 1), "two anchors"),
		st(1*day, pubs(rv(0), 1, 2), sigs(rv(0)), "only revoked A signs; N rides along"),
		st(1*day, pubs(rv(0), 1, 2), sigs(rv(0)), "again"),
		st(31*day, pubs(1, 2), sigs(1), "N first authenticated now"),
		st(29*day, pubs(1, 2), sigs(1), "N 29 d"),
		st(2*day, pubs(1, 2), sigs(1), "N 31 d"),
	)
	// D5 the only anchor revokes itself: nothing is left to trust.
	add("last-anchor-revoked", false, mats(p(), p()), pubs(0),
		st(0, pubs(0), sigs(0), "steady"),
		st(1*day, pubs(rv(0), 1), sigs(rv(0)), "self-revocation, nothing else trusted"),
		st(1*day, pubs(0, 1), sigs(0, 1), "old key republished and signing"),
		st(40*day, pubs(0, 1), sigs(0, 1), "later"),
	)
	// D6 unauthenticated responses of every kind change nothing.
	add("unauthenticated", false, mats(p(), p(), p()), pubs(0),
		st(0, pubs(0, 1), sigs(0), "add N"),
		Step{DtHours: 1 * day, Keys: pubs(0, 2), Sigs: []SigSpec{{Key: 0, Mode: "bad"}}, Note: "bad signature; N gone, X added"},
		Step{DtHours: 1 * day, Keys: pubs(0, 2), Sigs: []SigSpec{{Key: 0, Mode: "expired"}}, Note: "expired"},
		Step{DtHours: 1 * day, Keys: pubs(0, 2), Sigs: []SigSpec{{Key: 0, Mode: "future"}}, Note: "not yet valid"},
		Step{DtHours: 1 * day, Keys: pubs(0, 2), Sigs: []SigSpec{{Key: 0, Mode: "partial"}}, Note: "signature over another set"},
		Step{DtHours: 1 * day, Keys: pubs(0, 2), Sigs: sigs(2), Note: "signed by the unknown key only"},
		Step{DtHours: 1 * day, Keys: pubs(0, 2), Sigs: sigs(1), Note: "signed by the pending key only"},
		Step{DtHours: 1 * day, Keys: pubs(0, 2), Note: "no signature"},
		Step{DtHours: 1 * day, Answer: "servfail", Note: "servfail"},
		Step{DtHours: 1 * day, Answer: "nodata", Note: "nodata"},
		Step{DtHours: 1 * day, Keys: pubs(rv(0), 2), Sigs: sigs(2), Note: "revoked form without self-signature, unknown signer"},
		st(23*day, pubs(0, 1), sigs(0), "N was present in every ACCEPTED refresh: 31 d"),
	)
	// D7 revocation without a self-signature is not a revocation; the key is merely missing.
	add("revoke-bit-unsigned", false, mats(p(), p()), pubs(0, 1),
		st(0, pubs(0, 1), sigs(0, 1), "two anchors"),
		st(1*day, pubs(rv(0), 1), sigs(1), "A published revoked but only B signs"),
		st(10*day, pubs(0, 1), sigs(0, 1), "A back un-revoked"),
		st(1*day, pubs(rv(0), 1), sigs(1, rv(0)), "now self-signed"),
		st(1*day, pubs(1), sigs(1), "after"),
	)
	// D8 admin adds the rolled key to the config, later it is revoked and the config keeps listing it.
	add("config-follows", false, mats(p(), p(), p()), pubs(0),
		st(0, pubs(0, 1), sigs(0), "add N"),
		st(31*day, pubs(0, 1), sigs(0, 1), "valid"),
		Step{DtHours: 1 * day, Keys: pubs(0, 1, 2), Sigs: sigs(0, 1), Config: pubs(0, 1), Note: "config now lists N; add M"},
		Step{DtHours: 31 * day, Keys: pubs(0, 1, 2), Sigs: sigs(0, 1, 2), Config: pubs(0, 1), Note: "M valid"},
		Step{DtHours: 1 * day, Keys: pubs(0, rv(1), 2), Sigs: sigs(0, rv(1), 2), Config: pubs(0, 1), Note: "revoke N"},
		Step{DtHours: 1 * day, Keys: pubs(0, 2), Sigs: sigs(0, 2), Config: pubs(0, 1), Note: "N gone, config lists it"},
		Step{DtHours: 1 * day, Keys: pubs(0, 1, 2), Sigs: sigs(0, 1, 2), Config: pubs(0, 1), Note: "N back un-revoked"},
		Step{DtHours: 35 * day, Keys: pubs(0, 1, 2), Sigs: sigs(0, 1, 2), Config: pubs(0, 1), Note: "35 d later"},
	)
	// D9 a missing key is revoked.
	add("missing-then-revoked", false, mats(p(), p()), pubs(0, 1),
		st(0, pubs(0, 1), sigs(0, 1), "two anchors"),
		st(1*day, pubs(1), sigs(1), "A missing"),
		st(10*day, pubs(rv(0), 1), sigs(rv(0), 1), "A revoked while missing"),
		st(1*day, pubs(1), sigs(1), "after"),
	)

	// ---- key-tag collisions ----
	if pr, ok := t.takeSame(); ok {
		a, x := pr[0], pr[1]
		// D10 forged revocation: X has the tags of anchor A; its revoked form is
		// self-signed. A must stay.
		add("collision-forged-revocation", true, mats(a, x, p()), pubs(0, 2),
			st(0, pubs(0, 2), sigs(0, 2), "A, B"),
			st(1*day, pubs(0, rv(1), 2), sigs(0, rv(1), 2), "X revoked+self-signed, tag = tag(A)+128, authenticated"),
			st(1*day, pubs(rv(1), 2), sigs(rv(1), 2), "A absent: only missing"),
			st(1*day, pubs(0, rv(1), 2), sigs(rv(1)), "only X signs: unauthenticated"),
			st(1*day, pubs(0, 2), sigs(0, 2), "steady"),
		)
	}
	if pr, ok := t.takeSame(); ok {
		a, x := pr[0], pr[1]
		// D11 A is revoked; later an unrelated key with A's tags appears: it must go
		// through the hold-down and may then be trusted (or be ignored: latitude);
		// A must stay out.
		add("collision-after-revocation", true, mats(a, x, p()), pubs(0, 2),
			st(0, pubs(0, 2), sigs(0, 2), "A, B"),
			st(1*day, pubs(rv(0), 2), sigs(rv(0), 2), "revoke A"),
			st(1*day, pubs(2), sigs(2), "A gone"),
			st(1*day, pubs(1, 2), sigs(2), "X (same tags as A) appears"),
			st(31*day, pubs(1, 2), sigs(1, 2), "X 31 d"),
			st(1*day, pubs(0, 2), sigs(0, 2), "A un-revoked replaces X"),
			st(31*day, pubs(0, 2), sigs(0, 2), "later"),
		)
	}
	if pr, ok := t.takeSame(); ok {
		n, x := pr[0], pr[1]
		// D12 a pending key is withdrawn and a same-tag key published instead.
		add("collision-masks-absence", true, mats(p(), n, x), pubs(0),
			st(0, pubs(0, 1), sigs(0), "add N"),
			st(1*day, pubs(0, 2), sigs(0), "N withdrawn; X with N's tag published"),
			st(15*day, pubs(0, 2), sigs(0), "same"),
			st(15*day+1, pubs(0, 2), sigs(0), "31 d after N was first seen"),
			st(1*day, pubs(0, 2), sigs(0), "after"),
		)
	}
	if pr, ok := t.takeSame(); ok {
		a, x := pr[0], pr[1]
		// D13 a new key collides with a present trusted key.
		add("collision-new-vs-trusted", true, mats(a, x, p()), pubs(0),
			st(0, pubs(0, 1), sigs(0), "X appears with A's tag"),
			st(31*day, pubs(0, 1), sigs(0, 1), "31 d"),
			st(1*day, pubs(1), sigs(0), "A withdrawn (signature still there), X stays"),
			st(1*day, pubs(0, 1), sigs(0, 1), "both"),
		)
	}
	if pr, ok := t.takeRev(); ok {
		a, b := pr[0], pr[1] // tag(b) == rtag(a)
		// D14 B's tag equals A's revoked-form tag. A is revoked; B is a configured
		// anchor and must survive A's tombstone.
		add("collision-revoked-tag-vs-anchor", true, mats(a, b), pubs(0, 1),
			st(0, pubs(0, 1), sigs(0, 1), "A, B"),
			st(1*day, pubs(rv(0)), sigs(rv(0), 1), "revoke A; B absent this once (its tag is A's revoked tag)"),
			st(1*day, pubs(1), sigs(1), "B alone"),
			st(1*day, pubs(1), sigs(1), "again"),
		)
	}
	if c, ok := t.takeCarry(); ok {
		// D15 the revoked form's key tag is not tag+128 (checksum carry).
		add("revoked-tag-carry", true, mats(c, p()), pubs(0, 1),
			st(0, pubs(0, 1), sigs(0, 1), "A (carry), B"),
			st(1*day, pubs(rv(0), 1), sigs(rv(0), 1), "revoke A"),
			st(1*day, pubs(rv(0), 1), sigs(rv(0)), "only revoked A signs"),
			st(1*day, pubs(1), sigs(1), "after"),
		)
	}
	return out
}

// directedStoreLoss: the tombstone store turns unreadable AFTER a revocation
// was accepted and durably recorded, with the revoked key still configured -
// the store is then the only record of the revocation. Every harness-made
// condition of the store is driven at a start where the root still publishes
// the revoked form, where the key is gone, and where the fetch fails; then the
// store is readable again and the old key comes back un-revoked.
func directedStoreLoss(t *keyTaker) []RunSpec {
	var out []RunSpec
	p := func() *Key { return t.takePlain() }
	for _, f := range dirFaults {
		out = append(out, RunSpec{Kind: "directed", H: History{Name: "store-lost-after-revocation/" + f,
			Keys: mats(p(), p()), ZSK: p().Mat, Config: pubs(0, 1), Steps: []Step{
				st(0, pubs(0, 1), sigs(0, 1), "two anchors"),
				st(1*day, pubs(rv(0), 1), sigs(rv(0), 1), "revoke A; config keeps listing it"),
				{DtHours: 12, Keys: pubs(rv(0), 1), Sigs: sigs(rv(0), 1), Fault: f, Note: "store unreadable; A still published revoked"},
				{DtHours: 1 * day, Keys: pubs(1), Sigs: sigs(1), Fault: f, Note: "store unreadable; A gone"},
				{DtHours: 12, Answer: "servfail", Fault: f, Note: "store unreadable; fetch fails"},
				st(1*day, pubs(1), sigs(1), "store readable again"),
				st(1*day, pubs(0, 1), sigs(0, 1), "A republished un-revoked, signing"),
			}}})
		out = append(out, RunSpec{Kind: "directed", H: History{Name: "store-lost-after-rollover/" + f,
			Keys: mats(p(), p()), ZSK: p().Mat, Config: pubs(0), Steps: []Step{
				st(0, pubs(0, 1), sigs(0), "add N"),
				st(31*day, pubs(0, 1), sigs(0, 1), "N valid"),
				st(1*day, pubs(rv(0), 1), sigs(rv(0), 1), "revoke A (the only configured key)"),
				st(40*day, pubs(1), sigs(1), "A gone"),
				{DtHours: 1 * day, Keys: pubs(1), Sigs: sigs(1), Fault: f, Note: "store unreadable; A gone"},
				{DtHours: 12, Keys: pubs(0, 1), Sigs: sigs(0, 1), Fault: f, Note: "store unreadable; A republished un-revoked"},
				{DtHours: 12, Answer: "refused", Fault: f, Note: "store unreadable; fetch refused"},
				st(1*day, pubs(0, 1), sigs(0, 1), "store readable again; A still published"),
			}}})
	}
	return out
}

// ---- random histories -------------------------------------------------------------

var dtChoices = []int{0, 1, 6, 24, 24, 5 * day, 10 * day, 29 * day, 30*day - 1, 30 * day, 30*day + 1, 31 * day,
	45 * day, 60 * day, 89 * day, 90*day - 1, 90 * day, 90*day + 1, 91 * day}

func genRandom(rng *rand.Rand, t *keyTaker, idx int) RunSpec {
	var keys []*Key
	rs := RunSpec{Kind: "random"}
	nAnchors := 1
	if rng.IntN(3) == 0 {
		nAnchors = 2
	}
	total := nAnchors + 3
	// optional collision features
	switch rng.IntN(8) {
	case 0:
		if pr, ok := t.takeSame(); ok {
			rs.Collision = true
			keys = append(keys, pr[0])
			for len(keys) < total-1 {
				keys = append(keys, t.takePlain())
			}
			pos := 1 + rng.IntN(len(keys))
			keys = append(keys[:pos], append([]*Key{pr[1]}, keys[pos:]...)...)
		}
	case 1:
		if pr, ok := t.takeRev(); ok {
			rs.Collision = true
			keys = append(keys, pr[0])
			for len(keys) < total-1 {
				keys = append(keys, t.takePlain())
			}
			pos := 1 + rng.IntN(len(keys))
			keys = append(keys[:pos], append([]*Key{pr[1]}, keys[pos:]...)...)
		}
	case 2:
		if c, ok := t.takeCarry(); ok {
			rs.Collision = true
			keys = append(keys, c)
		}
	}
	for len(keys) < total {
		keys = append(keys, t.takePlain())
	}
	h := History{Name: fmt.Sprintf("random-%d", idx), Keys: mats(keys...), ZSK: t.takePlain().Mat}
	for i := 0; i < nAnchors; i++ {
		h.Config = append(h.Config, Pub{Key: i})
	}
	cfg := h.Config
	var stepCfg []Pub // non-nil once the admin edited the config

	// the root's intent
	published := map[int]bool{}
	revPublished := map[int]bool{}
	everRevoked := map[int]bool{}
	removed := map[int]bool{}
	for i := 0; i < nAnchors; i++ {
		published[i] = true
	}
	sim := newModel(keys) // fault-free shadow, only to choose sensible signers
	now := 0
	n := 8 + rng.IntN(7)
	for i := 0; i < n; i++ {
		dt := dtChoices[rng.IntN(len(dtChoices))]
		if i == 0 {
			dt = 0
		}
		now += dt
		// trusted set as the shadow sees it at this start
		trusted := map[int]bool{}
		{
			probe := &Model{keys: keys, D: sim.D.clone()}
			ex := probe.Step(&Step{Answer: "refused"}, cfg, now, Effect{})
			for _, k := range ex.Candidate {
				trusted[k] = true
			}
		}
		var s Step
		s.DtHours = dt
		if stepCfg != nil {
			s.Config = stepCfg
		}
		op := rng.IntN(100)
		hostile := false
		switch {
		case op < 22: // steady
			s.Note = "steady"
		case op < 38: // add
			var cands []int
			for k := range keys {
				if !published[k] && !revPublished[k] && !everRevoked[k] && !removed[k] {
					cands = append(cands, k)
				}
			}
			if len(cands) > 0 {
				k := cands[rng.IntN(len(cands))]
				published[k] = true
				s.Note = fmt.Sprintf("add K%d", k)
			}
		case op < 50: // remove
			ks := sortedKeys(published)
			if len(ks) > 1 || (len(ks) == 1 && rng.IntN(4) == 0) {
				k := ks[rng.IntN(len(ks))]
				delete(published, k)
				removed[k] = true
				s.Note = fmt.Sprintf("remove K%d", k)
			}
		case op < 58: // re-add (also of a revoked key, un-revoked)
			var cands []int
			for k := range keys {
				if !published[k] && (removed[k] || everRevoked[k]) && !revPublished[k] {
					cands = append(cands, k)
				}
			}
			if len(cands) > 0 {
				k := cands[rng.IntN(len(cands))]
				published[k] = true
				delete(removed, k)
				s.Note = fmt.Sprintf("re-add K%d", k)
			}
		case op < 70: // revoke
			var cands []int
			for k := range published {
				if trusted[k] || rng.IntN(4) == 0 {
					cands = append(cands, k)
				}
			}
			sort.Ints(cands)
			if len(cands) > 0 {
				k := cands[rng.IntN(len(cands))]
				delete(published, k)
				revPublished[k] = true
				everRevoked[k] = true
				s.Note = fmt.Sprintf("revoke K%d", k)
			}
		case op < 76: // stop publishing a revoked key
			ks := sortedKeys(revPublished)
			if len(ks) > 0 {
				k := ks[rng.IntN(len(ks))]
				delete(revPublished, k)
				s.Note = fmt.Sprintf("drop revoked K%d", k)
			}
		case op < 80: // admin edits config: list what is trusted now (+ keep old entries)
			set := map[int]bool{}
			for _, c := range cfg {
				if !c.Revoked {
					set[c.Key] = true
				}
			}
			for k := range trusted {
				set[k] = true
			}
			stepCfg = nil
			for _, k := range sortedKeys(set) {
				stepCfg = append(stepCfg, Pub{Key: k})
			}
			cfg = stepCfg
			s.Config = stepCfg
			s.Note = "admin lists current anchors in config"
		default:
			hostile = true
		}

		// publication
		pubSet := func() []Pub {
			var out []Pub
			for _, k := range sortedKeys(published) {
				out = append(out, Pub{Key: k})
			}
			for _, k := range sortedKeys(revPublished) {
				out = append(out, Pub{Key: k, Revoked: true})
			}
			return out
		}
		s.Keys = pubSet()
		// honest signatures: trusted published keys co-sign (a random non-empty
		// subset), pending keys often sign too, revoked forms self-sign
		var tr, other []int
		for _, k := range sortedKeys(published) {
			if trusted[k] {
				tr = append(tr, k)
			} else {
				other = append(other, k)
			}
		}
		if len(tr) > 0 {
			first := rng.IntN(len(tr))
			for j, k := range tr {
				if j == first || rng.IntN(2) == 0 {
					s.Sigs = append(s.Sigs, SigSpec{Key: k})
				}
			}
		}
		for _, k := range other {
			if rng.IntN(2) == 0 {
				s.Sigs = append(s.Sigs, SigSpec{Key: k})
			}
		}
		for _, k := range sortedKeys(revPublished) {
			if rng.IntN(8) != 0 {
				s.Sigs = append(s.Sigs, SigSpec{Key: k, Revoked: true})
			}
		}
		if rng.IntN(6) == 0 && len(tr) > 0 {
			s.Sigs = append(s.Sigs, SigSpec{Key: tr[rng.IntN(len(tr))], Mode: []string{"bad", "expired", "future"}[rng.IntN(3)]})
		}

		if hostile {
			// a response no trusted key authenticates (or only a revoked one),
			// carrying changes that would matter if it were believed
			hs := Step{DtHours: dt, Config: s.Config}
			evil := map[int]bool{}
			for k := range published {
				evil[k] = true
			}
			// drop one key, add an unknown one
			if ks := sortedKeys(evil); len(ks) > 0 && rng.IntN(2) == 0 {
				delete(evil, ks[rng.IntN(len(ks))])
			}
			for k := range keys {
				if !published[k] && !revPublished[k] && !everRevoked[k] && rng.IntN(2) == 0 {
					evil[k] = true
					break
				}
			}
			for _, k := range sortedKeys(evil) {
				hs.Keys = append(hs.Keys, Pub{Key: k})
			}
			for _, k := range sortedKeys(revPublished) {
				hs.Keys = append(hs.Keys, Pub{Key: k, Revoked: true})
			}
			kind := rng.IntN(11)
			var signer = -1
			if len(tr) > 0 {
				signer = tr[rng.IntN(len(tr))]
			}
			switch kind {
			case 0:
				hs.Answer, hs.Note = "servfail", "hostile: servfail"
			case 1:
				hs.Answer, hs.Note = "nodata", "hostile: nodata"
			case 2:
				hs.Answer, hs.Note = "refused", "hostile: refused"
			case 3:
				hs.Note = "hostile: unsigned"
			case 4, 5, 6, 7:
				mode := []string{"bad", "expired", "future", "partial"}[kind-4]
				hs.Note = "hostile: " + mode + " signature"
				if signer >= 0 {
					hs.Sigs = []SigSpec{{Key: signer, Mode: mode}}
				}
			case 8:
				hs.Note = "hostile: signed by untrusted keys only"
				for _, p := range hs.Keys {
					if !p.Revoked && !trusted[p.Key] {
						hs.Sigs = append(hs.Sigs, SigSpec{Key: p.Key})
					}
				}
			default:
				// revoked-only authentication: a trusted key shows up revoked,
				// self-signed, and nothing else trusted signs
				if signer >= 0 {
					hs.Note = fmt.Sprintf("revoked-only: K%d", signer)
					var ks []Pub
					for _, p := range hs.Keys {
						if p.Key != signer {
							ks = append(ks, p)
						}
					}
					hs.Keys = append(ks, Pub{Key: signer, Revoked: true})
					hs.Sigs = []SigSpec{{Key: signer, Revoked: true}}
					for _, p := range hs.Keys {
						if !p.Revoked && !trusted[p.Key] && rng.IntN(2) == 0 {
							hs.Sigs = append(hs.Sigs, SigSpec{Key: p.Key})
						}
					}
					// the root really did revoke it
					delete(published, signer)
					revPublished[signer] = true
					everRevoked[signer] = true
				} else {
					hs.Note = "hostile: unsigned"
				}
			}
			s = hs
		}
		sanitizeStep(&s, keys)
		sim.Step(&s, cfg, now, Effect{})
		h.Steps = append(h.Steps, s)
	}
	rs.H = h
	return rs
}

// sanitizeStep enforces the one restriction of the workload: a revoked form is
// never published next to another key whose published tag equals its tag (the
// resolver indexes a fetched RRset by tag; which of two same-tag keys it sees
// is then an accident of order — outside the statement).
func sanitizeStep(s *Step, keys []*Key) {
	tagOf := func(p Pub) uint16 {
		if p.Revoked {
			return keys[p.Key].RTag
		}
		return keys[p.Key].Tag
	}
	revTags := map[uint16]bool{}
	drop := map[int]bool{}
	for i, p := range s.Keys {
		if !p.Revoked {
			continue
		}
		if revTags[tagOf(p)] {
			drop[i] = true // a second revoked form with the same tag
			continue
		}
		revTags[tagOf(p)] = true
	}
	var out []Pub
	for i, p := range s.Keys {
		if drop[i] || (!p.Revoked && revTags[tagOf(p)]) {
			continue
		}
		out = append(out, p)
	}
	s.Keys = out
}

// assignRandomFaults puts one or two faults at random positions.
func assignRandomFaults(rng *rand.Rand, h History, kinds []string) History {
	at := map[int]string{}
	n := 1
	if rng.IntN(3) == 0 {
		n = 2
	}
	for i := 0; i < n; i++ {
		at[rng.IntN(len(h.Steps))] = kinds[rng.IntN(len(kinds))]
	}
	return withFaults(h, at)
}
