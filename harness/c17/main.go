// C17 — access control is exact and applies to clients only.
// Part (i): ipset membership against a naive reference scan.
// Parts (ii)–(iv) (pipeline / views / internal sub-queries): pipeline.go.
package main

import (
	"fmt"
	"math/rand/v2"
	"net/netip"
	"os"
	"strings"

	"github.com/semihalev/sdns/internal/ipset"
	"github.com/semihalev/sdns/zzverif/vlib"
)

type setCase struct {
	Seed  int      `json:"case"`
	CIDRs []string `json:"cidrs"`
}

func randAddr(rng *rand.Rand, v6 bool) netip.Addr {
	if v6 {
		var b [16]byte
		for i := range b {
			b[i] = byte(rng.UintN(256))
		}
		// cluster: often share a documentation prefix so ranges interact;
		// sometimes sit at the very bottom (::/96, v4-compatible and v4-mapped
		// numerals) or top of the space, where the two families' numeric keys
		// coincide and a cross-family aliasing bug would show
		switch rng.IntN(8) {
		case 0:
			for i := 0; i < 12; i++ {
				b[i] = 0
			}
			if rng.IntN(2) == 0 {
				b[12], b[13], b[14] = 0, 0, 0
				b[15] = byte(rng.UintN(4))
			}
			return netip.AddrFrom16(b)
		case 1:
			for i := 0; i < 10; i++ {
				b[i] = 0
			}
			b[10], b[11] = 0xff, 0xff // v4-mapped literal (as a v6 CIDR it is unmapped by callers or not)
			return netip.AddrFrom16(b)
		case 2:
			for i := 0; i < 8+rng.IntN(8); i++ {
				b[i] = 0xff
			}
			return netip.AddrFrom16(b)
		}
		if rng.IntN(3) > 0 {
			copy(b[:], []byte{0x20, 0x01, 0x0d, 0xb8})
			for i := 4; i < 4+rng.IntN(10); i++ {
				b[i] = 0
			}
		}
		return netip.AddrFrom16(b)
	}
	var b [4]byte
	for i := range b {
		b[i] = byte(rng.UintN(256))
	}
	if rng.IntN(3) > 0 {
		b[0] = 10
		if rng.IntN(2) == 0 {
			b[1] = byte(rng.IntN(4))
		}
	}
	return netip.AddrFrom4(b)
}

func genList(rng *rand.Rand) []string {
	n := rng.IntN(40)
	if rng.IntN(6) == 0 {
		n = rng.IntN(200)
	}
	out := make([]string, 0, n)
	for i := 0; i < n; i++ {
		switch rng.IntN(12) {
		case 0: // malformed
			bad := []string{"", "10.0.0.0", "10.0.0.0/33", "::/129", "300.1.1.1/8", "10.0.0.0/-1", "abc", "10.0.0.0/8/8", "1.2.3/8", " 10.0.0.0/8", "::ffff:10.0.0.0/104x", "fe80::1%eth0/64"}
			out = append(out, bad[rng.IntN(len(bad))])
			continue
		case 1: // duplicate
			if len(out) > 0 {
				out = append(out, out[rng.IntN(len(out))])
				continue
			}
		}
		v6 := rng.IntN(3) == 0
		a := randAddr(rng, v6)
		bits := 32
		if v6 {
			bits = 128
		}
		var l int
		switch rng.IntN(5) {
		case 0:
			l = bits
		case 1:
			l = rng.IntN(9)
		default:
			l = rng.IntN(bits + 1)
		}
		// host bits deliberately left set (not masked)
		out = append(out, fmt.Sprintf("%s/%d", a, l))
		if rng.IntN(5) == 0 { // nested / adjacent companion
			p := netip.PrefixFrom(a, l).Masked()
			if l < bits {
				out = append(out, netip.PrefixFrom(p.Addr(), l+1).String())
			}
			if nxt := lastOf(p).Next(); nxt.IsValid() {
				out = append(out, netip.PrefixFrom(nxt, l).String())
			}
		}
	}
	return out
}

func lastOf(p netip.Prefix) netip.Addr {
	a := p.Masked().Addr()
	b := a.AsSlice()
	for i := p.Bits(); i < len(b)*8; i++ {
		b[i/8] |= 1 << (7 - uint(i%8))
	}
	r, _ := netip.AddrFromSlice(b)
	return r
}

// refContains is the naive reference: some parsable prefix contains addr
// (4-in-6 unmapped). Independent of ipset's range representation.
func refContains(prefixes []netip.Prefix, a netip.Addr) bool {
	if !a.IsValid() {
		return false
	}
	if a.Is4In6() {
		a = a.Unmap()
	}
	a = a.WithZone("")
	for _, p := range prefixes {
		if p.Contains(a) {
			return true
		}
	}
	return false
}

func pureMembership(r *vlib.Run) {
	lists := r.N(1500, 40000)
	for ci := 0; ci < lists; ci++ {
		rng := r.RandN("ipset", ci)
		cidrs := genList(rng)
		set, bad := ipset.New(cidrs)
		var good []netip.Prefix
		nbad := 0
		for _, c := range cidrs {
			p, err := netip.ParsePrefix(c)
			if err != nil {
				nbad++
				continue
			}
			good = append(good, p.Masked())
		}
		if len(bad) != nbad {
			r.Violation("ipset/bad-entry-count", fmt.Sprintf("New reported %d unparsable entries, reference says %d", len(bad), nbad), setCase{ci, cidrs})
		}
		if set.Len() != len(good) {
			r.Violation("ipset/len", fmt.Sprintf("Len=%d want %d", set.Len(), len(good)), setCase{ci, cidrs})
		}
		// the same list without the malformed entries must decide identically
		setGood, _ := ipset.New(prefixStrings(good))
		// probes: every boundary ±1, 4-in-6 forms, random
		var probes []netip.Addr
		for _, p := range good {
			lo, hi := p.Addr(), lastOf(p)
			probes = append(probes, lo, hi)
			if x := lo.Prev(); x.IsValid() {
				probes = append(probes, x)
			}
			if x := hi.Next(); x.IsValid() {
				probes = append(probes, x)
			}
			if lo.Is4() {
				probes = append(probes, netip.AddrFrom16(lo.As16()), netip.AddrFrom16(hi.As16()))
				if x := hi.Next(); x.IsValid() {
					probes = append(probes, netip.AddrFrom16(x.As16()))
				}
				// cross-family numerals: the IPv6 address whose low 32 bits equal this
				// IPv4 boundary (v4-compatible form ::a.b.c.d) is NOT in an IPv4 prefix
				for _, a4 := range []netip.Addr{lo, hi} {
					var b [16]byte
					copy(b[12:], a4.AsSlice())
					probes = append(probes, netip.AddrFrom16(b))
				}
			} else if lo.Is6() && !lo.Is4In6() {
				// and the IPv4 address made of an IPv6 boundary's low 32 bits
				for _, a6 := range []netip.Addr{lo, hi} {
					b := a6.As16()
					probes = append(probes, netip.AddrFrom4([4]byte{b[12], b[13], b[14], b[15]}))
				}
			}
		}
		for i := 0; i < 60; i++ {
			a := randAddr(rng, rng.IntN(3) == 0)
			probes = append(probes, a)
			if a.Is4() && rng.IntN(2) == 0 {
				probes = append(probes, netip.AddrFrom16(a.As16()))
			}
		}
		probes = append(probes, netip.Addr{}, netip.MustParseAddr("0.0.0.0"), netip.MustParseAddr("255.255.255.255"),
			netip.MustParseAddr("::"), netip.MustParseAddr("ffff:ffff:ffff:ffff:ffff:ffff:ffff:ffff"),
			netip.MustParseAddr("::1"), netip.MustParseAddr("::2"), netip.MustParseAddr("::7fff:ffff"), netip.MustParseAddr("::1:0:0"),
			netip.MustParseAddr("::ffff:0.0.0.0"), netip.MustParseAddr("::ffff:255.255.255.255"), netip.MustParseAddr("fe80::1%lo"))
		in, out := 0, 0
		for _, a := range probes {
			want := refContains(good, a)
			got := set.Contains(a)
			r.Eval(1)
			if want {
				in++
			} else {
				out++
			}
			if got != want {
				r.Violation("ipset/contains-mismatch", fmt.Sprintf("Contains(%s)=%v, reference=%v", a, got, want),
					map[string]any{"case": ci, "cidrs": cidrs, "addr": a.String()})
			}
			if g2 := setGood.Contains(a); g2 != got {
				r.Violation("ipset/malformed-entry-changes-decision", fmt.Sprintf("Contains(%s): with malformed entries %v, without %v", a, got, g2),
					map[string]any{"case": ci, "cidrs": cidrs, "addr": a.String()})
			}
			if a.IsValid() {
				if g3 := set.ContainsIP(a.WithZone("").AsSlice()); g3 != want {
					r.Violation("ipset/containsip-mismatch", fmt.Sprintf("ContainsIP(%s)=%v, reference=%v", a, g3, want),
						map[string]any{"case": ci, "cidrs": cidrs, "addr": a.String()})
				}
			}
		}
		r.Count("ipset_lists", 1)
		r.Count("ipset_probes_inside", in)
		r.Count("ipset_probes_outside", out)
		if in > 0 && out > 0 && len(good) > 1 {
			r.Distinct(fmt.Sprintf("list:%v", cidrs))
		}
		if ci < 2 {
			r.Sample(map[string]any{"kind": "ipset-list", "cidrs": cidrs, "probes": len(probes), "inside": in, "outside": out})
		}
	}
}

func prefixStrings(ps []netip.Prefix) []string {
	out := make([]string, len(ps))
	for i, p := range ps {
		out[i] = p.String()
	}
	return out
}

func main() {
	r := vlib.Start("C17", "exploration")
	if only := os.Getenv("VERIF_C17_ONLY"); only == "" || strings.Contains(only, "ipset") { // debugging aid, see pipeline.go
		pureMembership(r)
	}
	r.Require("ipset_probes_inside", 1000)
	r.Require("ipset_probes_outside", 1000)
	runPipeline(r)
	r.Assume("reference membership = netip.Prefix.Contains over the parsable entries (independent of ipset's sorted-range representation)")
	r.Finish("generated CIDR lists (nested/adjacent/duplicate/host-bits/malformed, both families) x probe addresses at every range boundary ±1, 4-in-6 forms and random; a list is distinct non-trivial when it has >1 parsable prefix and probes fell both inside and outside")
}
