package main

import (
	"errors"
	"fmt"
	"math/rand/v2"
	"net"
	"net/netip"
	"sync"
	"time"

	"github.com/miekg/dns"

	"github.com/semihalev/sdns/middleware/accesslist"
	"github.com/semihalev/sdns/zzverif/stack"
	"github.com/semihalev/sdns/zzverif/vlib"
)

// (ii) over real sockets: sources in 127.0.0.0/8 and ::1, every transport.
//
// Two listener shapes alternate: a plain IPv4 loopback bind (sources arrive
// as IPv4) and a dual-stack wildcard bind "::" — there an IPv4 loopback
// client arrives as the IPv4-MAPPED IPv6 address ::ffff:127.a.b.c (what the
// statement's "an IPv4-mapped IPv6 source counts as IPv4" is about) and ::1
// can connect too.
//
// "No reply" is never inferred from a deadline alone: a reply that does
// arrive is the violation (definite); the absence is corroborated server-side
// by the access list's own denied counter, the stub call count and the cache
// hit/miss counters at quiescence.

var sockTransports = []string{"udp", "tcp", "dot", "doh-get", "doh-post", "doq"}

type sockCase struct {
	Part      string   `json:"part"` // "sockets"
	Case      int      `json:"case"`
	ACL       []string `json:"acl"`
	Listen    string   `json:"listen"`
	Source    string   `json:"source"`
	Transport string   `json:"transport"`
	QName     string   `json:"qname"`
	Phase     string   `json:"phase"`
	Reply     string   `json:"reply_hex,omitempty"`
}

func genLoopACL(rng *rand.Rand) []string {
	var list []string
	n := 1 + rng.IntN(5)
	for i := 0; i < n; i++ {
		switch rng.IntN(12) {
		case 0:
			list = append(list, badEntries[rng.IntN(len(badEntries))])
		case 1:
			list = append(list, "::1/128")
		case 2:
			list = append(list, fmt.Sprintf("::%x/%d", rng.IntN(4), 126+rng.IntN(3)))
		case 3:
			list = append(list, "::ffff:127.0.0.0/104") // v6 literal: matches nobody
		case 4, 5:
			list = append(list, fmt.Sprintf("127.0.0.%d/%d", rng.IntN(256), 24+rng.IntN(9)))
		case 6, 7:
			list = append(list, fmt.Sprintf("127.%d.0.0/%d", rng.IntN(3), 14+rng.IntN(4)))
		case 8:
			list = append(list, "10.0.0.0/8", "2001:db8::/32") // admits no loopback source
		case 9:
			list = append(list, fmt.Sprintf("127.0.0.0/%d", 8+rng.IntN(8)))
		default:
			list = append(list, fmt.Sprintf("127.%d.%d.%d/%d", rng.IntN(3), rng.IntN(2), rng.IntN(256), 22+rng.IntN(11)))
		}
	}
	return list
}

func loopSources(rng *rand.Rand, acl []string, dual bool, max int) []netip.Addr {
	loop := netip.MustParsePrefix("127.0.0.0/8")
	bcast := netip.MustParseAddr("127.255.255.255")
	netw := netip.MustParseAddr("127.0.0.0")
	seen := map[netip.Addr]bool{}
	var out []netip.Addr
	add := func(a netip.Addr) {
		a = a.Unmap()
		if !a.IsValid() || !loop.Contains(a) || a == bcast || a == netw || seen[a] {
			return
		}
		seen[a] = true
		out = append(out, a)
	}
	good, _ := parseGood(acl)
	for _, p := range good {
		lo, hi := p.Addr(), lastOf(p)
		add(lo)
		add(hi)
		add(lo.Prev())
		add(hi.Next())
	}
	rng.Shuffle(len(out), func(i, j int) { out[i], out[j] = out[j], out[i] })
	if len(out) > max-4 {
		out = out[:max-4]
	}
	add(netip.MustParseAddr("127.0.0.255")) // the sentinel IP as a real client
	add(netip.MustParseAddr("127.0.0.1"))
	for len(out) < max-1 {
		add(netip.AddrFrom4([4]byte{127, byte(rng.IntN(3)), byte(rng.IntN(2)), byte(1 + rng.IntN(254))}))
	}
	if dual {
		out = append(out, netip.MustParseAddr("::1"))
	}
	return out
}

type sockProbe struct {
	src   netip.Addr
	tr    string
	qname string
	pkt   []byte
	out   []byte
	err   error
}

func sockClient(st *stack.Stack, src netip.Addr, dual bool, timeout time.Duration) *stack.Client {
	c := st.NewClient(src.String())
	c.Timeout = timeout
	if dual {
		host := "127.0.0.1"
		if src.Is6() {
			host = "::1"
		}
		re := func(a string) string {
			_, port, err := net.SplitHostPort(a)
			if err != nil {
				return a
			}
			return net.JoinHostPort(host, port)
		}
		c.Addrs = stack.Addrs{UDP: re(c.Addrs.UDP), TCP: re(c.Addrs.TCP), DoT: re(c.Addrs.DoT), DoH: re(c.Addrs.DoH), DoQ: re(c.Addrs.DoQ)}
	}
	return c
}

// exchangeAll runs the probes concurrently (one client per probe).
func exchangeAll(st *stack.Stack, probes []*sockProbe, dual bool, timeout time.Duration) {
	var wg sync.WaitGroup
	for _, p := range probes {
		wg.Add(1)
		go func(p *sockProbe) {
			defer wg.Done()
			c := sockClient(st, p.src, dual, timeout)
			defer c.Close()
			p.out, p.err = c.Exchange(p.tr, p.pkt)
		}(p)
	}
	wg.Wait()
}

func noReplyKind(err error) (string, bool) {
	var he *stack.DoHStatusError
	switch {
	case errors.Is(err, stack.ErrNoReply):
		return "timeout-or-closed", true
	case errors.As(err, &he):
		return fmt.Sprintf("http-%d", he.Status), true
	}
	return "", false
}

func runSockets(r *vlib.Run) {
	n := r.N(14, 300)
	for ci := 0; ci < n; ci++ {
		rng := r.RandN("sock", ci)
		dual := ci%2 == 1
		acl := genLoopACL(rng)
		if ci%4 == 3 { // make sure some stacks admit ::1 and the low loopback block
			acl = append(acl, "127.0.0.0/25", "::1/128")
		}
		runSocketCase(r, ci, rng, acl, dual)
		r.Progress("sockets %d/%d", ci+1, n)
	}
	for _, tr := range sockTransports {
		r.Require("sock_denied_noreply_"+tr, 8)
		r.Require("sock_allowed_answered_"+tr, 8)
	}
	r.Require("sock_denied_confirmed_server_side", 60)
	r.Require("sock_denied_warm_noreply", 20)
	r.Require("sock_mapped_source_probes", 40)
	r.Require("sock_mapped_seen_at_stub", 10)
	r.Require("sock_v6_loopback_probes", 6)
}

func runSocketCase(r *vlib.Run, ci int, rng *rand.Rand, acl []string, dual bool) {
	cfg := stack.DefaultConfig()
	cfg.AccessList = acl
	lip := ""
	if dual {
		lip = "::"
	}
	st, err := stack.New(stack.Options{Config: cfg, Listen: stack.Listen{Plain: true, DoT: true, DoH: true, DoQ: true, IP: lip}})
	if err != nil {
		r.Count("sock_stack_start_failed", 1)
		r.Note("sock_stack_start_error", err.Error())
		return
	}
	defer st.Close()
	listen := st.Addrs().UDP

	sources := loopSources(rng, acl, dual, r.N(10, 12))
	var denied, allowed []netip.Addr
	for _, s := range sources {
		if refAdmits(acl, s) {
			allowed = append(allowed, s)
		} else {
			denied = append(denied, s)
		}
	}
	mk := func(srcs []netip.Addr, tag string, names []string) []*sockProbe {
		var out []*sockProbe
		k := 0
		for _, s := range srcs {
			for _, tr := range sockTransports {
				k++
				qname := fmt.Sprintf("s%d-%s%d.sock.c17.test.", ci, tag, k)
				if names != nil {
					qname = names[rng.IntN(len(names))]
				}
				q := buildQuery(rng, qname, dns.TypeA)
				pkt, _ := q.Pack()
				out = append(out, &sockProbe{src: s, tr: tr, qname: qname, pkt: pkt})
			}
		}
		return out
	}
	mkCase := func(p *sockProbe, phase string) sockCase {
		sc := sockCase{Part: "sockets", Case: ci, ACL: acl, Listen: listen, Source: p.src.String(), Transport: p.tr, QName: p.qname, Phase: phase}
		if p.out != nil {
			sc.Reply = fmt.Sprintf("%x", p.out)
		}
		return sc
	}

	// deniedPhase: every probe comes from a source outside the list.
	deniedPhase := func(phase string, probes []*sockProbe) {
		if len(probes) == 0 {
			return
		}
		if !st.Quiesce(5 * time.Second) {
			r.Count("sock_quiesce_timeout", 1)
			return
		}
		stub0 := int64(st.Stub().Total())
		h0, m0 := cacheHM(st)
		d0 := accesslist.VerifC17Denied()
		exchangeAll(st, probes, dual, 400*time.Millisecond)
		silent := 0
		for _, p := range probes {
			r.Eval(1)
			if dual && p.src.Is4() {
				r.Count("sock_mapped_source_probes", 1)
			}
			if p.src.Is6() {
				r.Count("sock_v6_loopback_probes", 1)
			}
			if p.err == nil && len(p.out) > 0 {
				countContract(r, p.tr, p.pkt, p.out)
				r.Violation(vlib.Sig("pipeline", "denied-source-got-reply", "socket-"+p.tr),
					fmt.Sprintf("socket source %s is outside access list %q but got a %d-byte reply over %s", p.src, acl, len(p.out), p.tr), mkCase(p, phase))
				continue
			}
			kind, none := noReplyKind(p.err)
			if !none {
				r.Count("sock_probe_error", 1) // bind/dial/transport trouble: no observation
				r.Note("sock_last_error", fmt.Sprintf("%s %s: %v", p.src, p.tr, p.err))
				continue
			}
			silent++
			r.Count("sock_denied_noreply_"+p.tr, 1)
			r.Count("sock_denied_noreply_kind_"+kind, 1)
			if phase == "denied-warm" {
				r.Count("sock_denied_warm_noreply", 1)
			}
		}
		// server-side corroboration, at quiescence
		deadline := time.Now().Add(5 * time.Second)
		for accesslist.VerifC17Denied()-d0 < int64(silent) && time.Now().Before(deadline) {
			time.Sleep(2 * time.Millisecond)
		}
		confirmed := accesslist.VerifC17Denied() - d0
		if confirmed > int64(silent) {
			confirmed = int64(silent)
		}
		r.Count("sock_denied_confirmed_server_side", int(confirmed))
		r.Count("sock_denied_unconfirmed", silent-int(confirmed))
		if !st.Quiesce(5 * time.Second) {
			r.Count("sock_quiesce_timeout", 1)
			return
		}
		r.Eval(1)
		if d := int64(st.Stub().Total()) - stub0; d != 0 {
			r.Violation("pipeline/denied-source-reached-resolution/socket",
				fmt.Sprintf("%d socket probes, all from sources outside access list %q, caused %d stub (resolution) call(s)", len(probes), acl, d),
				map[string]any{"part": "sockets", "case": ci, "acl": acl, "phase": phase, "listen": listen})
		}
		h1, m1 := cacheHM(st)
		if h1 != h0 || m1 != m0 {
			r.Violation("pipeline/denied-source-cache-lookup/socket",
				fmt.Sprintf("%d socket probes, all from sources outside access list %q, changed cache stats (hits %+d, misses %+d)", len(probes), acl, h1-h0, m1-m0),
				map[string]any{"part": "sockets", "case": ci, "acl": acl, "phase": phase, "listen": listen})
		}
	}

	deniedPhase("denied-cold", mk(denied, "d", nil))

	// allowedPhase: every probe comes from a source inside the list.
	var warm []string
	if probes := mk(allowed, "a", nil); len(probes) > 0 {
		d0 := accesslist.VerifC17Denied()
		exchangeAll(st, probes, dual, 5*time.Second)
		for _, p := range probes {
			if dual && p.src.Is4() {
				r.Count("sock_mapped_source_probes", 1)
			}
			if p.src.Is6() {
				r.Count("sock_v6_loopback_probes", 1)
			}
			if _, none := noReplyKind(p.err); none {
				// one generous retry; a deadline never decides the verdict
				r.Count("sock_allowed_retry", 1)
				c := sockClient(st, p.src, dual, 15*time.Second)
				p.out, p.err = c.Exchange(p.tr, p.pkt)
				c.Close()
			}
			r.Eval(1)
			if p.err != nil {
				if _, none := noReplyKind(p.err); none {
					if accesslist.VerifC17Denied() == d0 {
						r.Inconclusive(fmt.Sprintf("socket probe from admitted source %s over %s unanswered after retry (no denial recorded server-side)", p.src, p.tr))
					}
				} else {
					r.Count("sock_probe_error", 1)
					r.Note("sock_last_error", fmt.Sprintf("%s %s: %v", p.src, p.tr, p.err))
				}
				continue
			}
			countContract(r, p.tr, p.pkt, p.out)
			m := new(dns.Msg)
			if m.Unpack(p.out) != nil || !answersQuestion(m, p.qname, dns.TypeA) {
				r.Violation(vlib.Sig("pipeline", "allowed-source-wrong-reply", "socket-"+p.tr),
					fmt.Sprintf("socket source %s (admitted by %q) got a reply over %s that does not answer %s", p.src, acl, p.tr, p.qname), mkCase(p, "allowed"))
				continue
			}
			r.Count("sock_allowed_answered_"+p.tr, 1)
			for _, e := range st.Stub().Log() {
				if e.Q.Name == p.qname && dual && p.src.Is4() && len(e.ClientIP) == 16 && e.ClientIP.To4() != nil {
					r.Count("sock_mapped_seen_at_stub", 1) // the chain really saw ::ffff:127.a.b.c
					break
				}
			}
			if len(warm) < 12 {
				warm = append(warm, p.qname)
			}
		}
		r.Eval(1)
		if d := accesslist.VerifC17Denied() - d0; d != 0 {
			r.Violation("pipeline/allowed-source-dropped/socket",
				fmt.Sprintf("the access list recorded %d denial(s) while only sources inside %q were probing over sockets (listen %s)", d, acl, listen),
				map[string]any{"part": "sockets", "case": ci, "acl": acl, "phase": "allowed", "listen": listen, "sources": fmt.Sprint(allowed)})
		}
	}

	// denied sources asking for names the admitted sources just cached
	if len(warm) > 0 {
		deniedPhase("denied-warm", mk(denied, "w", warm))
	}
	r.Count("sock_stacks", 1)
	if dual {
		r.Count("sock_stacks_dualstack", 1)
	}
	if ci < 2 {
		r.Sample(map[string]any{"kind": "socket-acl", "acl": acl, "listen": listen, "dual_stack": dual,
			"denied_sources": fmt.Sprint(denied), "admitted_sources": fmt.Sprint(allowed), "transports": sockTransports})
	}
}
