package main

import (
	"context"
	"fmt"
	"math/rand/v2"
	"net/netip"
	"strings"

	"github.com/miekg/dns"

	"github.com/semihalev/sdns/config"
	"github.com/semihalev/sdns/middleware"
	"github.com/semihalev/sdns/zzverif/stack"
	"github.com/semihalev/sdns/zzverif/vlib"
)

// (iv) resolver-internal sub-queries are never subjected to client access,
// rate-limit, reflection or view policy.
//
// Configuration per stack: an access list that EXCLUDES the internal
// sentinel 127.0.0.255 (sometimes a list admitting nobody at all), client
// rate limit 1/s, per-entry cache rate limit 1/s, reflex on in block mode
// with a very low threshold, a view whose networks CONTAIN the sentinel and
// whose records cover every name the sub-queries ask for, DNS64 on.
//
// Internal sub-queries are issued (a) directly through the Queryer and the
// prefetch Queryer that middleware.Setup wires into a QueryerSetter handler
// (bursts, repeats of cached names), and (b) by in-tree consumers driven by an
// admitted client: the cache's CNAME chase and DNS64's secondary A lookup.
// Every sub-query must reach the stub flagged Internal and come back with the
// stub's provenance marker — never nothing (denied / rate-limited), REFUSED
// (reflex) or the view's record.

const (
	intZone = "int.c17.test."
	extZone = "ext.c17.test."
)

// c17Wiretap receives the queryers exactly like cache/dns64/resolver do.
type c17Wiretap struct {
	q, pq middleware.Queryer
}

func (p *c17Wiretap) Name() string                                       { return "verif-c17-wiretap" }
func (p *c17Wiretap) ServeDNS(ctx context.Context, ch *middleware.Chain) { ch.Next(ctx) }
func (p *c17Wiretap) SetQueryer(q middleware.Queryer)                    { p.q = q }
func (p *c17Wiretap) SetPrefetchQueryer(q middleware.Queryer)            { p.pq = q }

type intCase struct {
	Part   string              `json:"part"` // "internal"
	Case   int                 `json:"case"`
	ACL    []string            `json:"acl"`
	Views  []config.ViewConfig `json:"views"`
	Flow   string              `json:"flow"`
	QName  string              `json:"qname"`
	QType  string              `json:"qtype"`
	Client string              `json:"client,omitempty"`
	Path   string              `json:"path,omitempty"`
	Detail string              `json:"detail,omitempty"`
}

var clientPolicyHandlers = []string{"accesslist", "ratelimit", "reflex", "views"}

func intStub(_ context.Context, req *stack.StubRequest) *stack.StubReply {
	name := strings.ToLower(req.Q.Name)
	label, _, _ := strings.Cut(name, ".")
	withOPT := func(m *dns.Msg) *dns.Msg {
		if req.OPT != nil {
			m.Extra = append(m.Extra, dns.Copy(req.OPT))
		}
		return m
	}
	switch {
	case strings.HasPrefix(label, "alias-") && req.Q.Qtype == dns.TypeA:
		m := new(dns.Msg)
		m.Answer = []dns.RR{&dns.CNAME{
			Hdr:    dns.RR_Header{Name: req.Q.Name, Rrtype: dns.TypeCNAME, Class: dns.ClassINET, Ttl: 300},
			Target: "t-" + strings.TrimPrefix(label, "alias-") + "." + intZone,
		}}
		return &stack.StubReply{Msg: withOPT(m)}
	case strings.HasPrefix(label, "d-") && req.Q.Qtype == dns.TypeAAAA:
		m := new(dns.Msg) // NODATA
		m.Ns = []dns.RR{&dns.SOA{
			Hdr: dns.RR_Header{Name: intZone, Rrtype: dns.TypeSOA, Class: dns.ClassINET, Ttl: 300},
			Ns:  "ns." + intZone, Mbox: "h." + intZone, Serial: 1, Refresh: 3600, Retry: 600, Expire: 86400, Minttl: 300,
		}}
		return &stack.StubReply{Msg: withOPT(m)}
	}
	return nil // DefaultStub: provenance marker of generation 0
}

// classify a sub-query answer: "marker" (the stub's), "view", or other.
func classifyAnswer(m *dns.Msg, owner string, qtype uint16) string {
	if m == nil {
		return "nil"
	}
	if m.Rcode != dns.RcodeSuccess {
		return "rcode-" + dns.RcodeToString[m.Rcode]
	}
	for _, rr := range m.Answer {
		if viewOf(rr) >= 0 {
			return "view"
		}
	}
	for _, rr := range m.Answer {
		if rr.Header().Rrtype != qtype || !strings.EqualFold(rr.Header().Name, owner) {
			continue
		}
		if _, belongs, ok := stack.ParseMarker(rr); ok && belongs {
			return "marker"
		}
	}
	return "other"
}

func genInternalACL(rng *rand.Rand) []string {
	sentinel := netip.MustParseAddr("127.0.0.255")
	for {
		var acl []string
		switch rng.IntN(6) {
		case 0: // admits nobody at all
			acl = []string{badEntries[rng.IntN(len(badEntries))], "not-a-cidr"}
		case 1: // the sentinel's neighbours, not the sentinel
			acl = []string{"127.0.0.254/32", "127.0.1.0/24", "127.0.0.0/25", "10.0.0.0/8", "2001:db8::/32"}
		default:
			acl = []string{"10.0.0.0/8", "2001:db8::/32"}
			for i := 0; i < rng.IntN(4); i++ {
				acl = append(acl, clusterPrefix(rng))
			}
			if rng.IntN(2) == 0 {
				acl = append(acl, badEntries[rng.IntN(len(badEntries))])
			}
		}
		if !refAdmits(acl, sentinel) {
			return acl
		}
	}
}

func runInternal(r *vlib.Run) {
	n := r.N(40, 2000)
	for ci := 0; ci < n; ci++ {
		runInternalCase(r, ci, r.RandN("internal", ci))
		r.Progress("internal %d/%d", ci+1, n)
	}
	r.Require("internal_direct_answered", 600)
	r.Require("internal_direct_cached_repeat_answered", 200)
	r.Require("internal_prefetch_answered", 300)
	r.Require("internal_cname_chase_observed", 60)
	r.Require("internal_dns64_lookup_observed", 60)
	r.Require("internal_seen_at_stub_flagged", 1000)
	r.Require("internal_cfg_denied_client_silent", 30)
	r.Require("internal_subpipeline_inspected", 30)
}

func runInternalCase(r *vlib.Run, ci int, rng *rand.Rand) {
	acl := genInternalACL(rng)
	viewNets := [][]string{
		{"127.0.0.0/8"}, {"127.0.0.255/32"}, {"0.0.0.0/0", "::/0"}, {"127.0.0.128/25", "bogus"}, {"::ffff:127.0.0.255/128", "127.0.0.255/32"},
	}[rng.IntN(5)]
	views := []config.ViewConfig{
		{Zone: "decoy", Networks: []string{"192.0.2.0/24"}, Answers: []string{"*." + intZone + " 60 IN A 198.18.9.9"}},
		{Zone: "covers-sentinel", Networks: viewNets, Answers: []string{
			"*." + intZone + " 60 IN A 198.18.1.1",
			"*.in-addr.arpa. 60 IN PTR view." + intZone,
		}},
	}
	cfg := stack.DefaultConfig()
	cfg.AccessList = acl
	cfg.ClientRateLimit = 1
	cfg.RateLimit = 1
	cfg.ReflexEnabled = true
	cfg.ReflexBlockMode = true
	cfg.ReflexThreshold = 0.01
	cfg.Views = views
	cfg.DNS64.Enabled = true
	cfg.DNS64.Prefixes = []string{"2001:db8:64::/96"}

	tap := &c17Wiretap{}
	st, err := stack.New(stack.Options{Config: cfg, Stub: intStub, Before: func() {
		middleware.Register(tap.Name(), func(*config.Config) middleware.Handler { return tap })
	}})
	if err != nil {
		r.Inconclusive("harness error: stack.New: " + err.Error())
		return
	}
	defer st.Close()
	mk := func(flow, qname string, qtype uint16, detail string) intCase {
		return intCase{Part: "internal", Case: ci, ACL: acl, Views: views, Flow: flow, QName: qname, QType: dns.TypeToString[qtype], Detail: detail}
	}
	if tap.q == nil || tap.pq == nil {
		r.Inconclusive("harness error: middleware.Setup did not wire the queryers into the wiretap handler")
		return
	}
	if ci == 0 {
		r.Note("internal_chain", st.Handlers())
		r.Note("internal_queryer_subpipeline", middleware.VerifC17QueryerHandlers(tap.q))
		r.Note("internal_prefetch_subpipeline", middleware.VerifC17QueryerHandlers(tap.pq))
	}

	// mechanism check: which handlers an internal sub-query traverses
	for which, q := range map[string]middleware.Queryer{"queryer": tap.q, "prefetch": tap.pq} {
		hs := middleware.VerifC17QueryerHandlers(q)
		if hs == nil {
			r.Inconclusive("harness error: wired queryer is not the in-tree pipeline queryer")
			return
		}
		r.Eval(1)
		r.Count("internal_subpipeline_inspected", 1)
		for _, h := range hs {
			for _, bad := range clientPolicyHandlers {
				if h == bad {
					r.Violation("internal/client-policy-handler-in-sub-pipeline/"+bad,
						fmt.Sprintf("the %s sub-pipeline internal sub-queries traverse contains the client-policy handler %q: %v", which, bad, hs),
						mk("structure-"+which, "", 0, fmt.Sprint(hs)))
				}
			}
		}
	}

	// the client policy really is armed in this configuration
	{
		src := srcSpec{Addr: netip.MustParseAddr("127.0.0.255"), Port: 1 + rng.IntN(65535), Form16: rng.IntN(2) == 0}
		path := inprocPaths[rng.IntN(len(inprocPaths))]
		o := serveInproc(st, src, path, buildQuery(rng, fmt.Sprintf("c%d.%s", ci, intZone), dns.TypeA))
		r.Eval(1)
		if o.Wrote || o.Stub != 0 || o.Hits != 0 || o.Misses != 0 {
			r.Violation(vlib.Sig("pipeline", "denied-source-got-reply", path),
				fmt.Sprintf("a CLIENT at the sentinel IP 127.0.0.255 (port %d) is outside access list %q but was served via %s", src.Port, acl, path),
				pipeCase{Part: "pipeline", Case: ci, ACL: acl, Source: src.Addr.String(), Port: src.Port, Form16: src.Form16, Path: path})
		} else {
			r.Count("internal_cfg_denied_client_silent", 1)
		}
	}

	judge := func(flow, qname string, qtype uint16, resp *dns.Msg, err error) bool {
		r.Eval(1)
		if err != nil {
			r.Violation(vlib.Sig("internal", "no-response", flow),
				fmt.Sprintf("internal sub-query %s/%s through %s failed: %v (access list %q excludes the internal sentinel, client rate limit 1/s, reflex blocking)", qname, dns.TypeToString[qtype], flow, err, acl),
				mk(flow, qname, qtype, err.Error()))
			return false
		}
		switch c := classifyAnswer(resp, qname, qtype); c {
		case "marker":
			return true
		case "view":
			r.Violation(vlib.Sig("internal", "view-answered", flow),
				fmt.Sprintf("internal sub-query %s/%s through %s was answered by the view covering the sentinel address", qname, dns.TypeToString[qtype], flow), mk(flow, qname, qtype, c))
		default:
			r.Violation(vlib.Sig("internal", "not-resolved", flow),
				fmt.Sprintf("internal sub-query %s/%s through %s did not come back with the stub's answer (%s)", qname, dns.TypeToString[qtype], flow, c), mk(flow, qname, qtype, c))
		}
		return false
	}
	newReq := func(qname string, qtype uint16) *dns.Msg {
		m := new(dns.Msg)
		m.SetQuestion(qname, qtype)
		m.RecursionDesired = true
		if rng.IntN(2) == 0 {
			m.SetEdns0(1232, true)
		}
		return m
	}
	flagged := func(since uint64, qname string, qtype uint16) (internal, client int) {
		for _, e := range st.Stub().LogSince(since) {
			if !strings.EqualFold(e.Q.Name, qname) || e.Q.Qtype != qtype {
				continue
			}
			if e.Internal {
				internal++
			} else {
				client++
			}
		}
		return
	}

	// (a) direct bursts through the wired queryers
	burst := 20 + rng.IntN(20)
	for i := 0; i < burst; i++ {
		qname := fmt.Sprintf("q%d-%d.%s", ci, i, intZone)
		seq := st.Stub().Total()
		resp, err := tap.q.Query(context.Background(), newReq(qname, dns.TypeA))
		if judge("queryer", qname, dns.TypeA, resp, err) {
			r.Count("internal_direct_answered", 1)
			if in, cl := flagged(seq, qname, dns.TypeA); in >= 1 && cl == 0 {
				r.Count("internal_seen_at_stub_flagged", 1)
			} else {
				r.Violation("internal/not-flagged-internal/queryer",
					fmt.Sprintf("sub-query %s reached the stub %d time(s) flagged internal and %d time(s) flagged as client traffic", qname, in, cl), mk("queryer", qname, dns.TypeA, ""))
			}
		}
		// repeats of the now cached name: the per-entry cache-hit limiter (1/s) must not apply
		for k := 0; k < 3; k++ {
			resp, err := tap.q.Query(context.Background(), newReq(qname, dns.TypeA))
			if judge("queryer-cached", qname, dns.TypeA, resp, err) {
				r.Count("internal_direct_cached_repeat_answered", 1)
			}
		}
		if i%2 == 0 {
			pname := fmt.Sprintf("pf%d-%d.%s", ci, i, intZone)
			for k := 0; k < 2; k++ {
				seq := st.Stub().Total()
				resp, err := tap.pq.Query(context.Background(), newReq(pname, dns.TypeA))
				if judge("prefetch-queryer", pname, dns.TypeA, resp, err) {
					r.Count("internal_prefetch_answered", 1)
					if in, cl := flagged(seq, pname, dns.TypeA); in >= 1 && cl == 0 {
						r.Count("internal_seen_at_stub_flagged", 1)
					}
				}
			}
		}
	}

	// (b) in-tree consumers driven by an admitted, non-loopback client (one
	// fresh client address per query: the client limiter allows each its first)
	if !refAdmits(acl, netip.MustParseAddr("10.200.0.1")) {
		r.Count("internal_stacks_admitting_nobody", 1)
		r.Count("internal_stacks", 1)
		return
	}
	clientPaths := []string{"wire-tcp", "msg-tcp", "msg-doh", "msg-doq", "msg-dot"}
	for i := 0; i < 6; i++ {
		client := srcSpec{Addr: netip.AddrFrom4([4]byte{10, 200, byte(ci), byte(1 + i)}), Port: 1024 + rng.IntN(60000), Form16: rng.IntN(2) == 0}
		path := clientPaths[rng.IntN(len(clientPaths))]
		if i%2 == 0 {
			// cache CNAME chase: alias-N.ext → t-N.int (view-covered name)
			alias := fmt.Sprintf("alias-%d-%d.%s", ci, i, extZone)
			target := fmt.Sprintf("t-%d-%d.%s", ci, i, intZone)
			seq := st.Stub().Total()
			o := serveInproc(st, client, path, buildQuery(rng, alias, dns.TypeA))
			countContract(r, contractTransport(path), o.Query, o.Raw)
			_, trig := flagged(seq, alias, dns.TypeA)
			if trig == 0 {
				r.Count("internal_client_trigger_missed", 1) // client policy stopped the client: no sub-query to judge
				continue
			}
			in, cl := flagged(seq, target, dns.TypeA)
			r.Eval(1)
			ic := mk("cname-chase", target, dns.TypeA, "")
			ic.Client, ic.Path = client.String(), path
			switch {
			case in == 0 && cl == 0:
				c := classifyAnswer(o.Msg, target, dns.TypeA)
				sig := "internal/no-response/cname-chase"
				if c == "view" {
					sig = "internal/view-answered/cname-chase"
				}
				ic.Detail = c
				r.Violation(sig, fmt.Sprintf("the cache's CNAME chase for %s (alias %s) never reached resolution; client reply classified %q", target, alias, c), ic)
			case cl > 0:
				r.Violation("internal/not-flagged-internal/cname-chase", fmt.Sprintf("the CNAME chase for %s reached the stub flagged as client traffic", target), ic)
			default:
				if c := classifyAnswer(o.Msg, target, dns.TypeA); c != "marker" {
					ic.Detail = c
					r.Violation("internal/not-resolved/cname-chase", fmt.Sprintf("the chased target %s is missing from the client reply (%s)", target, c), ic)
				} else {
					r.Count("internal_cname_chase_observed", 1)
					r.Count("internal_seen_at_stub_flagged", 1)
				}
			}
			continue
		}
		// DNS64 secondary lookup: AAAA d-N.int (NODATA) → internal A d-N.int
		dname := fmt.Sprintf("d-%d-%d.%s", ci, i, intZone)
		seq := st.Stub().Total()
		o := serveInproc(st, client, path, buildQuery(rng, dname, dns.TypeAAAA))
		countContract(r, contractTransport(path), o.Query, o.Raw)
		_, trig := flagged(seq, dname, dns.TypeAAAA)
		if trig == 0 {
			r.Count("internal_client_trigger_missed", 1)
			continue
		}
		in, cl := flagged(seq, dname, dns.TypeA)
		r.Eval(1)
		ic := mk("dns64-lookup", dname, dns.TypeA, "")
		ic.Client, ic.Path = client.String(), path
		synth := "none"
		if o.Msg != nil {
			for _, rr := range o.Msg.Answer {
				if a, ok := rr.(*dns.AAAA); ok {
					if ad, ok := netip.AddrFromSlice(a.AAAA); ok && netip.MustParsePrefix("2001:db8:64::/96").Contains(ad) {
						b := ad.As16()
						switch {
						case b[12] == 198 && b[13] == 18:
							synth = "view"
						case b[12] == 10:
							synth = "marker"
						default:
							synth = "other"
						}
					}
				}
			}
		}
		ic.Detail = synth
		switch {
		case in == 0 && cl == 0:
			sig := "internal/no-response/dns64-lookup"
			if synth == "view" {
				sig = "internal/view-answered/dns64-lookup"
			}
			r.Violation(sig, fmt.Sprintf("DNS64's secondary A lookup for %s never reached resolution; synthesised AAAA classified %q", dname, synth), ic)
		case cl > 0:
			r.Violation("internal/not-flagged-internal/dns64-lookup", fmt.Sprintf("DNS64's A lookup for %s reached the stub flagged as client traffic", dname), ic)
		case synth != "marker":
			r.Violation("internal/not-resolved/dns64-lookup", fmt.Sprintf("the client AAAA reply for %s is not synthesised from the stub's A answer (%s)", dname, synth), ic)
		default:
			r.Count("internal_dns64_lookup_observed", 1)
			r.Count("internal_seen_at_stub_flagged", 1)
		}
	}
	r.Count("internal_stacks", 1)
	if ci < 1 {
		r.Sample(map[string]any{"kind": "internal", "acl": acl, "views": views, "client_rate_limit": 1, "cache_rate_limit": 1, "reflex": "block, threshold 0.01", "dns64": cfg.DNS64.Prefixes})
	}
}
