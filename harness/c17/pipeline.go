// C17 parts (ii)–(iv): the real default chain (stack library, stub terminal)
// under generated access lists, views and internal sub-queries.
//
//	pipeline.go  shared helpers + (ii) in-process entries (strict wire + decoded)
//	sockets.go   (ii) real UDP/TCP/DoT/DoH/DoQ sockets bound to the probe source
//	views.go     (iii) per-client views, generated declaration orders
//	internal.go  (iv) internal sub-queries under hostile client policy
package main

import (
	"context"
	"encoding/hex"
	"encoding/json"
	"fmt"
	"math/rand/v2"
	"net"
	"net/netip"
	"os"
	"strings"
	"time"

	"github.com/miekg/dns"

	"github.com/semihalev/sdns/zzverif/replycontract"
	"github.com/semihalev/sdns/zzverif/stack"
	"github.com/semihalev/sdns/zzverif/vlib"
)

// ---------------------------------------------------------------------
// reference model
// ---------------------------------------------------------------------

// parseGood returns the parsable entries of a CIDR list (masked) and the
// number of unparsable ones.
func parseGood(list []string) (good []netip.Prefix, bad int) {
	for _, c := range list {
		p, err := netip.ParsePrefix(c)
		if err != nil {
			bad++
			continue
		}
		good = append(good, p.Masked())
	}
	return good, bad
}

// refAdmits is the reference access decision for a configured access list.
// An EMPTY configured list is sdns's documented open default (accesslist.New
// installs 0.0.0.0/0 and ::0/0); otherwise membership is exactly "lies in at
// least one parsable CIDR" — a non-empty list of only unparsable entries
// therefore admits nobody.
func refAdmits(list []string, a netip.Addr) bool {
	if !a.IsValid() {
		return false
	}
	if len(list) == 0 {
		return true
	}
	good, _ := parseGood(list)
	return refContains(good, a)
}

// ---------------------------------------------------------------------
// probe plumbing
// ---------------------------------------------------------------------

// srcSpec is one probe source as the transport presents it to the chain.
type srcSpec struct {
	Addr netip.Addr // as generated (may be an IPv4-mapped IPv6 address)
	Port int        // never 0 (127.0.0.255:0 is sdns's legacy internal sentinel)
	// Form16: present an IPv4 address as the 16-byte net.IP a dual-stack
	// socket yields (the same bytes as its IPv4-mapped IPv6 form); otherwise
	// the 4-byte form a plain IPv4 socket yields.
	Form16 bool
}

func (s srcSpec) ip() net.IP {
	a := s.Addr
	if a.Is4() {
		if s.Form16 {
			b := a.As16()
			return net.IP(b[:])
		}
		b := a.As4()
		return net.IP(b[:])
	}
	b := a.As16()
	return net.IP(b[:])
}

func (s srcSpec) String() string {
	f := ""
	if s.Addr.Is4() && s.Form16 {
		f = "/16b"
	}
	return fmt.Sprintf("%s%s#%d", s.Addr, f, s.Port)
}

func (s srcSpec) netAddr(datagram bool) net.Addr {
	if datagram {
		return &net.UDPAddr{IP: s.ip(), Port: s.Port}
	}
	return &net.TCPAddr{IP: s.ip(), Port: s.Port}
}

// in-process entry paths. wire-*: the strict wire entry the owned UDP/TCP
// engines use (server.VerifStrictJob); msg-*: the decoded entry DoH/DoQ use.
var inprocPaths = []string{
	"wire-udp", "wire-tcp", "wire-udp-engine", "wire-udp-replay",
	"msg-udp", "msg-tcp", "msg-dot", "msg-doh", "msg-doq",
}

func isWirePath(p string) bool { return strings.HasPrefix(p, "wire-") }

func contractTransport(path string) string {
	switch path {
	case "wire-tcp", "msg-tcp":
		return "tcp"
	case "msg-dot":
		return "dot"
	case "msg-doh":
		return "doh"
	case "msg-doq":
		return "doq"
	}
	return "udp"
}

// obs is what one in-process serve produced, with the downstream-work deltas.
type obs struct {
	Query   []byte
	Wrote   bool
	Writes  int
	Raw     []byte
	Msg     *dns.Msg
	Strict  bool
	Handled bool
	Panic   any
	Stub    int64 // stub invocations caused
	Hits    int64 // cache hit counter delta
	Misses  int64 // cache miss counter delta
}

func cacheHM(st *stack.Stack) (int64, int64) {
	c := st.Cache()
	if c == nil {
		return 0, 0
	}
	s := c.Stats()
	h, _ := s["hits"].(int64)
	m, _ := s["misses"].(int64)
	return h, m
}

func buildQuery(rng *rand.Rand, qname string, qtype uint16) *dns.Msg {
	q := new(dns.Msg)
	q.SetQuestion(qname, qtype)
	q.Id = uint16(1 + rng.IntN(65535))
	q.RecursionDesired = true
	switch rng.IntN(3) {
	case 0: // no EDNS
	case 1:
		q.SetEdns0(1232, false)
	default:
		q.SetEdns0(4096, true)
	}
	return q
}

// serveInproc sends one query from src through the named in-process path.
func serveInproc(st *stack.Stack, src srcSpec, path string, q *dns.Msg) (o obs) {
	pkt, err := q.Pack()
	if err != nil {
		o.Panic = "harness: pack: " + err.Error()
		return o
	}
	o.Query = pkt
	stub0 := int64(st.Stub().Total())
	h0, m0 := cacheHM(st)
	defer func() {
		o.Stub = int64(st.Stub().Total()) - stub0
		h1, m1 := cacheHM(st)
		o.Hits, o.Misses = h1-h0, m1-m0
	}()

	if isWirePath(path) {
		proto := "udp"
		if path == "wire-tcp" {
			proto = "tcp"
		}
		job := stack.NewJob("192.0.2.1:1", proto)
		job.Remote = src.netAddr(proto == "udp")
		var res stack.Result
		switch path {
		case "wire-udp-engine":
			res, _ = st.ServeRawLikeEngine(job, pkt)
			if res.Panic == nil && !res.Wrote && !res.Handled {
				// replay pass said "undecodable" — cannot happen for our queries
				o.Panic = "harness: engine path reported unhandled packet"
			}
		case "wire-udp-replay":
			res = st.ServeRawJob(job, stack.RawReplay, pkt)
		default:
			res = st.ServeRawJob(job, stack.RawServe, pkt)
		}
		o.Wrote, o.Writes, o.Raw, o.Msg = res.Wrote, res.Writes, res.Raw, res.Msg
		o.Strict, o.Handled = res.Strict, res.Handled
		if res.Panic != nil {
			o.Panic = res.Panic
		}
		return o
	}

	proto := strings.TrimPrefix(path, "msg-")
	t := stack.NewRecTransport(proto, "192.0.2.1:1")
	t.Remote = src.netAddr(proto == "udp" || proto == "doq")
	func() {
		defer func() {
			if p := recover(); p != nil {
				o.Panic = p
			}
		}()
		st.Server.ServeMsg(context.Background(), t, q.Copy())
	}()
	o.Handled = true
	o.Writes = len(t.Raws)
	if o.Writes > 0 {
		o.Wrote = true
		o.Raw = t.Raws[o.Writes-1]
		m := new(dns.Msg)
		if m.Unpack(o.Raw) == nil {
			o.Msg = m
		}
	}
	return o
}

// answersQuestion: the reply is a response to this very question.
func answersQuestion(m *dns.Msg, qname string, qtype uint16) bool {
	if m == nil || !m.Response || len(m.Question) != 1 {
		return false
	}
	return strings.EqualFold(m.Question[0].Name, qname) && m.Question[0].Qtype == qtype
}

func countContract(r *vlib.Run, transport string, query, reply []byte) {
	if reply == nil {
		return
	}
	r.Count("contract_checked", 1)
	for _, b := range replycontract.Check(transport, query, reply, replycontract.Options{}) {
		if b.Info {
			continue
		}
		r.Count("contract_breaches", 1)
		r.Count("contract_breach_"+b.Rule, 1)
	}
}

// ---------------------------------------------------------------------
// generators
// ---------------------------------------------------------------------

var badEntries = []string{"", "10.0.0.0", "10.0.0.0/33", "::/129", "300.1.1.1/8", "10.0.0.0/-1", "abc",
	"10.0.0.0/8/8", "1.2.3/8", " 10.0.0.0/8", "10.0.0.0/8 ", "::ffff:10.0.0.0/104x", "fe80::1%eth0/64",
	"0.0.0.0/0x", "::/0/0", "*", "all", "any", "0/0", "/0", "10.0.0.0/08", "127.0.0.1/+8", "2001:db8::/32/"}

// clusterAddr draws addresses from a few narrow clusters so that generated
// ranges and probe sources interact (both decisions stay frequent).
func clusterAddr(rng *rand.Rand) netip.Addr {
	switch rng.IntN(10) {
	case 0, 1, 2: // 10.0.0.0/14-ish
		return netip.AddrFrom4([4]byte{10, byte(rng.IntN(4)), byte(rng.IntN(4)), byte(rng.UintN(256))})
	case 3: // loopback range (and the internal sentinel's neighbourhood)
		return netip.AddrFrom4([4]byte{127, 0, 0, byte(250 + rng.IntN(6))})
	case 4:
		return netip.AddrFrom4([4]byte{127, byte(rng.IntN(3)), byte(rng.IntN(2)), byte(rng.UintN(256))})
	case 5: // documentation v4
		return netip.AddrFrom4([4]byte{192, 0, 2, byte(rng.UintN(256))})
	case 6, 7: // 2001:db8::/32 cluster
		var b [16]byte
		copy(b[:], []byte{0x20, 0x01, 0x0d, 0xb8})
		b[5] = byte(rng.IntN(2))
		b[7] = byte(rng.IntN(4))
		b[15] = byte(rng.UintN(256))
		if rng.IntN(2) == 0 {
			b[8] = byte(rng.UintN(256))
		}
		return netip.AddrFrom16(b)
	case 8: // ::/120 (covers ::1)
		var b [16]byte
		b[15] = byte(rng.IntN(4))
		return netip.AddrFrom16(b)
	default: // v4-mapped literal written as an IPv6 CIDR: matches nobody
		var b [16]byte
		b[10], b[11] = 0xff, 0xff
		b[12], b[13], b[14], b[15] = 10, byte(rng.IntN(4)), byte(rng.IntN(4)), byte(rng.UintN(256))
		return netip.AddrFrom16(b)
	}
}

func clusterPrefix(rng *rand.Rand) string {
	a := clusterAddr(rng)
	bits := a.BitLen()
	var l int
	switch rng.IntN(6) {
	case 0:
		l = bits
	case 1:
		l = rng.IntN(bits + 1)
	case 2:
		if rng.IntN(4) == 0 {
			l = 0
		} else {
			l = rng.IntN(9)
		}
	default: // around the cluster width
		if a.Is4() {
			l = 14 + rng.IntN(19)
		} else if a.Is4In6() {
			l = 96 + rng.IntN(33)
		} else {
			l = 40 + rng.IntN(89)
		}
	}
	return fmt.Sprintf("%s/%d", a, l) // host bits left set
}

// genACL generates an access list; kind is for evidence.
func genACL(rng *rand.Rand) (list []string, kind string) {
	switch k := rng.IntN(24); {
	case k == 0:
		return nil, "empty-open-default"
	case k == 1:
		return []string{}, "empty-open-default"
	case k <= 3:
		n := 1 + rng.IntN(5)
		for i := 0; i < n; i++ {
			list = append(list, badEntries[rng.IntN(len(badEntries))])
		}
		return list, "all-unparsable"
	case k <= 6:
		n := 3 + rng.IntN(6)
		for i := 0; i < n; i++ {
			list = append(list, badEntries[rng.IntN(len(badEntries))])
		}
		g := 1 + rng.IntN(2)
		for i := 0; i < g; i++ {
			j := rng.IntN(len(list) + 1)
			list = append(list[:j], append([]string{clusterPrefix(rng)}, list[j:]...)...)
		}
		return list, "mostly-unparsable"
	case k == 7:
		return genList(rng), "wide-random"
	}
	n := 1 + rng.IntN(10)
	withBad := rng.IntN(3) == 0
	for i := 0; i < n; i++ {
		if withBad && rng.IntN(4) == 0 {
			list = append(list, badEntries[rng.IntN(len(badEntries))])
			continue
		}
		if len(list) > 0 && rng.IntN(8) == 0 {
			list = append(list, list[rng.IntN(len(list))]) // duplicate
			continue
		}
		c := clusterPrefix(rng)
		list = append(list, c)
		if rng.IntN(4) == 0 { // nested / adjacent companions
			if p, err := netip.ParsePrefix(c); err == nil {
				pm := p.Masked()
				if pm.Bits() < pm.Addr().BitLen() {
					list = append(list, netip.PrefixFrom(pm.Addr(), pm.Bits()+1).String())
				}
				if nxt := lastOf(pm).Next(); nxt.IsValid() && rng.IntN(2) == 0 {
					list = append(list, netip.PrefixFrom(nxt, pm.Bits()).String())
				}
			}
		}
	}
	if withBad {
		return list, "mixed-with-unparsable"
	}
	return list, "parsable"
}

// genSources: boundary ±1 of every parsable prefix (sampled down to max),
// IPv4-mapped and IPv4-compatible numerals of IPv4 boundaries, cluster-random
// addresses and fixed specials.
func genSources(rng *rand.Rand, lists [][]string, max int) []srcSpec {
	var cand []netip.Addr
	for _, l := range lists {
		good, _ := parseGood(l)
		for _, p := range good {
			lo, hi := p.Addr(), lastOf(p)
			cand = append(cand, lo, hi)
			if x := lo.Prev(); x.IsValid() {
				cand = append(cand, x)
			}
			if x := hi.Next(); x.IsValid() {
				cand = append(cand, x)
			}
			if lo.Is4() {
				cand = append(cand, netip.AddrFrom16(lo.As16()), netip.AddrFrom16(hi.As16()))
				if x := hi.Next(); x.IsValid() {
					cand = append(cand, netip.AddrFrom16(x.As16()))
				}
				var b [16]byte
				copy(b[12:], hi.AsSlice())
				cand = append(cand, netip.AddrFrom16(b)) // ::a.b.c.d — NOT in an IPv4 prefix
			} else if lo.Is4In6() {
				cand = append(cand, lo.Unmap(), hi.Unmap()) // v4 twin of a mapped literal CIDR
			}
		}
	}
	rng.Shuffle(len(cand), func(i, j int) { cand[i], cand[j] = cand[j], cand[i] })
	keep := max * 3 / 5
	if len(cand) > keep {
		cand = cand[:keep]
	}
	for len(cand) < max-6 {
		a := clusterAddr(rng)
		cand = append(cand, a)
		if a.Is4() && rng.IntN(3) == 0 {
			cand = append(cand, netip.AddrFrom16(a.As16()))
		}
	}
	cand = append(cand,
		netip.MustParseAddr("127.0.0.255"), // the internal sentinel IP as a REAL client (port != 0)
		netip.MustParseAddr("::ffff:127.0.0.255"),
		netip.MustParseAddr("127.0.0.1"), netip.MustParseAddr("::1"),
		netip.MustParseAddr("10.0.0.1"), netip.MustParseAddr("2001:db8::1"))
	out := make([]srcSpec, 0, len(cand))
	for _, a := range cand {
		if !a.IsValid() || a.Zone() != "" {
			continue
		}
		out = append(out, srcSpec{Addr: a, Port: 1 + rng.IntN(65535), Form16: rng.IntN(2) == 0})
	}
	return out
}

// ---------------------------------------------------------------------
// (ii) in-process pipeline differential
// ---------------------------------------------------------------------

type pipeCase struct {
	Part   string   `json:"part"` // "pipeline"
	Case   int      `json:"case"`
	ACL    []string `json:"acl"`
	Twin   bool     `json:"twin_without_unparsable,omitempty"`
	Source string   `json:"source"`
	Form16 bool     `json:"form16,omitempty"`
	Port   int      `json:"port"`
	Path   string   `json:"path"`
	QName  string   `json:"qname"`
	Warm   bool     `json:"warm_name,omitempty"` // name already cached by an admitted source
	Query  string   `json:"query_hex,omitempty"`
	Reply  string   `json:"reply_hex,omitempty"`
}

func newACLStack(r *vlib.Run, acl []string) *stack.Stack {
	cfg := stack.DefaultConfig()
	cfg.AccessList = append([]string(nil), acl...)
	if acl != nil && len(acl) == 0 {
		cfg.AccessList = []string{}
	}
	st, err := stack.New(stack.Options{Config: cfg})
	if err != nil {
		r.Inconclusive("harness error: stack.New: " + err.Error())
		return nil
	}
	return st
}

// judgeProbe applies the C17 oracle to one in-process observation.
func judgeProbe(r *vlib.Run, pc pipeCase, admitted bool, o obs, qtype uint16) {
	r.Eval(1)
	pc.Query = hex.EncodeToString(o.Query)
	if o.Raw != nil {
		pc.Reply = hex.EncodeToString(o.Raw)
	}
	if o.Panic != nil {
		r.Violation(vlib.Sig("panic", "pipeline", pc.Path), fmt.Sprintf("panic escaped the server entry: %v", o.Panic), pc)
		return
	}
	if isWirePath(pc.Path) {
		if o.Strict {
			r.Count("wire_strict_branch", 1)
		} else {
			r.Count("wire_decoded_fallback", 1)
		}
	}
	countContract(r, contractTransport(pc.Path), o.Query, o.Raw)
	if !admitted {
		ok := true
		if o.Wrote {
			ok = false
			r.Violation(vlib.Sig("pipeline", "denied-source-got-reply", pc.Path),
				fmt.Sprintf("source %s is outside access list %q but got a reply (%d write(s)) via %s", pc.Source, pc.ACL, o.Writes, pc.Path), pc)
		}
		if o.Stub != 0 {
			ok = false
			r.Violation(vlib.Sig("pipeline", "denied-source-reached-resolution", pc.Path),
				fmt.Sprintf("source %s is outside access list %q but caused %d stub (resolution) call(s) via %s", pc.Source, pc.ACL, o.Stub, pc.Path), pc)
		}
		if o.Hits != 0 || o.Misses != 0 {
			ok = false
			r.Violation(vlib.Sig("pipeline", "denied-source-cache-lookup", pc.Path),
				fmt.Sprintf("source %s is outside access list %q but changed cache stats (hits %+d, misses %+d) via %s", pc.Source, pc.ACL, o.Hits, o.Misses, pc.Path), pc)
		}
		if ok {
			r.Count("pipe_denied_silent", 1)
			r.Count("pipe_denied_"+pc.Path, 1)
			if pc.Warm {
				r.Count("pipe_denied_warm_name", 1)
			}
		}
		return
	}
	if !o.Wrote {
		r.Violation(vlib.Sig("pipeline", "allowed-source-dropped", pc.Path),
			fmt.Sprintf("source %s lies inside access list %q but got no reply via %s", pc.Source, pc.ACL, pc.Path), pc)
		return
	}
	if !answersQuestion(o.Msg, pc.QName, qtype) {
		r.Violation(vlib.Sig("pipeline", "allowed-source-wrong-reply", pc.Path),
			fmt.Sprintf("source %s (admitted) got a reply that does not answer %s via %s", pc.Source, pc.QName, pc.Path), pc)
		return
	}
	r.Count("pipe_allowed_answered", 1)
	r.Count("pipe_allowed_"+pc.Path, 1)
	if o.Stub > 0 {
		r.Count("pipe_allowed_reached_stub", 1)
	}
	if o.Hits > 0 {
		r.Count("pipe_allowed_cache_hit", 1)
	}
}

// runACLCase drives one access list (and, when it holds unparsable entries
// next to parsable ones, the same list without them) through every path.
func runACLCase(r *vlib.Run, ci int, acl []string, kind string, sources []srcSpec) {
	good, bad := parseGood(acl)
	type decision struct{ wrote bool }
	decide := func(list []string, twin bool) map[string]decision {
		st := newACLStack(r, list)
		if st == nil {
			return nil
		}
		defer st.Close()
		out := map[string]decision{}
		var warm []string
		seq := 0
		for si, src := range sources {
			admitted := refAdmits(list, src.Addr)
			for _, path := range inprocPaths {
				seq++
				prng := rand.New(rand.NewPCG(uint64(ci)<<20|uint64(seq), 0xc17))
				qname := fmt.Sprintf("p%d-%d.acl.c17.test.", ci, seq)
				isWarm := false
				if !admitted && len(warm) > 0 && prng.IntN(2) == 0 {
					qname, isWarm = warm[prng.IntN(len(warm))], true
				}
				q := buildQuery(prng, qname, dns.TypeA)
				o := serveInproc(st, src, path, q)
				pc := pipeCase{Part: "pipeline", Case: ci, ACL: list, Twin: twin, Source: src.Addr.String(), Form16: src.Form16,
					Port: src.Port, Path: path, QName: qname, Warm: isWarm}
				judgeProbe(r, pc, admitted, o, dns.TypeA)
				out[fmt.Sprintf("%d/%s", si, path)] = decision{o.Wrote}
				if admitted && o.Wrote && len(warm) < 8 && !isWarm {
					warm = append(warm, qname)
				}
				if admitted {
					r.Count("pipe_probes_admitted", 1)
				} else {
					r.Count("pipe_probes_denied", 1)
				}
			}
		}
		return out
	}
	d1 := decide(acl, false)
	r.Count("pipe_lists", 1)
	r.Count("pipe_lists_"+kind, 1)
	if d1 != nil && bad > 0 && len(good) > 0 {
		// an unparsable entry never changes a decision: the same list without
		// the unparsable entries (still non-empty) must decide every probe alike
		d2 := decide(prefixStrings(good), true)
		for k, a := range d1 {
			b, ok := d2[k]
			if !ok {
				continue
			}
			r.Eval(1)
			r.Count("pipe_twin_compared", 1)
			if a.wrote != b.wrote {
				var si int
				var path string
				fmt.Sscanf(k, "%d/%s", &si, &path)
				r.Violation("pipeline/unparsable-entry-changes-decision",
					fmt.Sprintf("source %s via %s: replied=%v with access list %q but %v with the unparsable entries removed", sources[si], path, a.wrote, acl, b.wrote),
					pipeCase{Part: "pipeline", Case: ci, ACL: acl, Source: sources[si].Addr.String(), Form16: sources[si].Form16, Port: sources[si].Port, Path: path})
			}
		}
		r.Count("pipe_twin_lists", 1)
	}
	in, out := 0, 0
	for _, s := range sources {
		if refAdmits(acl, s.Addr) {
			in++
		} else {
			out++
		}
	}
	if in > 0 && out > 0 && len(good) > 1 {
		r.Distinct(fmt.Sprintf("acl:%v", acl))
	}
	if ci < 2 {
		r.Sample(map[string]any{"kind": "pipeline-acl", "list_kind": kind, "acl": acl, "sources": len(sources), "admitted": in, "denied": out, "paths": inprocPaths})
	}
}

func runPipelineInproc(r *vlib.Run) {
	n := r.N(120, 3000)
	for ci := 0; ci < n; ci++ {
		rng := r.RandN("pipe", ci)
		acl, kind := genACL(rng)
		sources := genSources(rng, [][]string{acl}, r.N(36, 60))
		runACLCase(r, ci, acl, kind, sources)
		r.Progress("pipeline in-process %d/%d", ci+1, n)
	}
}

// ---------------------------------------------------------------------
// entry point + replay
// ---------------------------------------------------------------------

func runPipeline(r *vlib.Run) {
	if rc := r.ReplayCase(); rc != nil {
		replayPipeline(r, rc)
		return
	}
	r.Count("contract_breaches", 0)
	// VERIF_C17_ONLY=pipeline,sockets,views,internal restricts the run to some
	// parts (debugging aid; the skipped parts' Require minimums then make the
	// run inconclusive unless a violation is found)
	only := os.Getenv("VERIF_C17_ONLY")
	want := func(p string) bool { return only == "" || strings.Contains(only, p) }
	timed := func(name string, f func(*vlib.Run)) {
		if !want(name) {
			return
		}
		t0 := time.Now()
		f(r)
		r.Note("wall_s_"+name, float64(int(time.Since(t0).Seconds()*10))/10)
	}
	timed("pipeline", runPipelineInproc)
	timed("sockets", runSockets)
	timed("views", runViews)
	timed("internal", runInternal)

	r.Require("pipe_probes_admitted", 2000)
	r.Require("pipe_probes_denied", 2000)
	r.Require("pipe_allowed_answered", 2000)
	r.Require("pipe_denied_silent", 2000)
	r.Require("pipe_denied_warm_name", 200)
	r.Require("wire_strict_branch", 1000)
	for _, p := range inprocPaths {
		r.Require("pipe_allowed_"+p, 150)
		r.Require("pipe_denied_"+p, 150)
	}
	r.Require("pipe_lists_all-unparsable", 3)
	r.Require("pipe_lists_mostly-unparsable", 3)
	r.Require("pipe_lists_empty-open-default", 1)
	r.Require("pipe_twin_compared", 500)

	r.Assume("an EMPTY configured access list is sdns's documented open default (accesslist.New installs 0.0.0.0/0 and ::0/0); a non-empty list of only unparsable entries admits nobody")
	r.Assume("a DoH request from a denied source gets an HTTP error status with no DNS message (net/http must answer the request); that is counted as 'no reply'")
	r.Assume("probe sources never use port 0: 127.0.0.255:0 is sdns's documented legacy internal sentinel (responseWriter.Reset), unreachable from a real socket")
	r.Assume("when the first view containing the client holds no record of the question's name and type (name absent, or held with other types only), sdns falls through to the next handler (documented in views.ServeDNS); judged there: the reply carries no view's data, in particular never that of a later view containing the client too; whether the fall-through ends in resolution is counted, not judged")
	r.Assume("'a record of that name and type' = same type and the owner equals the name or is a wildcard whose parent is a proper ancestor of the name (whole labels, ASCII case-insensitive); WHICH of several covering records a view returns (exact over wildcard, closest wildcard) is counted, not judged")
}

func replayPipeline(r *vlib.Run, rc json.RawMessage) {
	var head struct {
		Part string `json:"part"`
	}
	_ = json.Unmarshal(rc, &head)
	switch head.Part {
	case "pipeline":
		var pc pipeCase
		if err := json.Unmarshal(rc, &pc); err != nil {
			r.Inconclusive("replay: " + err.Error())
			return
		}
		a, err := netip.ParseAddr(pc.Source)
		if err != nil {
			r.Inconclusive("replay: bad source: " + err.Error())
			return
		}
		src := srcSpec{Addr: a, Port: pc.Port, Form16: pc.Form16}
		st := newACLStack(r, pc.ACL)
		if st == nil {
			return
		}
		defer st.Close()
		rng := r.RandN("replay", 0)
		if pc.Warm {
			// re-create the warm entry through an admitted in-process source if the list admits any
			for _, s := range genSources(rng, [][]string{pc.ACL}, 40) {
				if refAdmits(pc.ACL, s.Addr) {
					serveInproc(st, s, "msg-tcp", buildQuery(rng, pc.QName, dns.TypeA))
					break
				}
			}
		}
		o := serveInproc(st, src, pc.Path, buildQuery(rng, pc.QName, dns.TypeA))
		judgeProbe(r, pc, refAdmits(pc.ACL, a), o, dns.TypeA)
	case "views":
		replayViews(r, rc)
	default:
		r.Inconclusive("replay: case part " + head.Part + " is re-executed by seed and case index (run the tier with the recorded VERIF_SEED)")
	}
}
