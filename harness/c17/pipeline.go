package main

import "github.com/semihalev/sdns/zzverif/vlib"

// runPipeline: parts (ii)–(iv); filled in by the pipeline harness.
func runPipeline(r *vlib.Run) {}
