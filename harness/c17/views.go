package main

import (
	"encoding/hex"
	"encoding/json"
	"fmt"
	"math/rand/v2"
	"net/netip"
	"sort"
	"strconv"
	"strings"
	"time"

	"github.com/miekg/dns"

	"github.com/semihalev/sdns/config"
	"github.com/semihalev/sdns/zzverif/stack"
	"github.com/semihalev/sdns/zzverif/vlib"
)

// (iii) per-client views: the FIRST view in declaration order whose networks
// contain the client (same containment rule as the access list) decides.
//
// Generated view sets: networks drawn from nesting chains (/8 > /16 > /24 > /32
// along one address, both families), a shared pool (narrower / wider versions),
// duplicates of other views' networks, disjoint cluster prefixes, unparsable
// entries and catch-alls, declared in random orders. Every view has its own
// generated record set over a fixed universe of owners (apex, exact hosts,
// nested wildcards) x types (A, AAAA, TXT, MX); every record carries a marker
// <view id, record number> in its rdata, the stub answers with the stack's
// provenance markers, so a reply tells which view — or resolution — produced
// it and which of the view's records it is.
//
// Reference (independent of views.go): the first view, in declaration order,
// whose parsable networks contain the client (4-in-6 unmapped) is THE view.
//   - it holds a record of the question's name and type (exact owner, or a
//     wildcard owner strictly above the name): the reply carries records of
//     that view only, each one a record of that view that covers the name with
//     that type, and resolution is not entered;
//   - it holds none (name absent, or held with other types only): sdns falls
//     through to the next handler (documented in views.ServeDNS) — the reply
//     then carries NO view's data; in particular never the data of a later view
//     that contains the client as well. Whether the fall-through ends in
//     resolution is counted, not judged;
//   - no view contains the client: no view's data, the reply comes from
//     resolution or the cache.

type viewRec struct {
	Owner string `json:"owner"` // absolute owner as written in the configuration
	Type  uint16 `json:"type"`
	N     int    `json:"rec"` // record number, unique within the view (1..250)
}

type viewSpec struct {
	ID       int       `json:"id"`
	Networks []string  `json:"networks"`
	Profile  string    `json:"profile,omitempty"`
	Recs     []viewRec `json:"records"`
	Junk     bool      `json:"junk_answers,omitempty"` // unparsable answer strings interleaved
}

type viewCase struct {
	Part   string     `json:"part"` // "views"
	Case   int        `json:"case"`
	Order  int        `json:"order"`
	ACL    []string   `json:"acl,omitempty"`
	Views  []viewSpec `json:"views"` // in declaration order
	Source string     `json:"source"`
	Form16 bool       `json:"form16,omitempty"`
	Port   int        `json:"port"`
	Path   string     `json:"path"`             // in-process entry, or "socket-<transport>"
	Dual   bool       `json:"dual_stack_listener,omitempty"`
	QName  string     `json:"qname"`
	QType  uint16     `json:"qtype"`
	Query  string     `json:"query_hex,omitempty"`
	Reply  string     `json:"reply_hex,omitempty"`
}

const (
	viewZone  = "v.c17.test."
	viewZone2 = "w.c17.test."
)

// the owner universe of generated view records
var viewOwners = []string{
	viewZone, // apex: not covered by *.v.c17.test.
	"exact." + viewZone,
	"www." + viewZone,
	"sub." + viewZone,
	"a.sub." + viewZone,
	"deep.a.sub." + viewZone,
	"*." + viewZone,
	"*.sub." + viewZone,
	"*.a.sub." + viewZone,
	"*." + viewZone2,
	"host." + viewZone2,
}

var viewTypes = []uint16{dns.TypeA, dns.TypeAAAA, dns.TypeTXT, dns.TypeMX}

func (rec viewRec) text(id int) string {
	switch rec.Type {
	case dns.TypeA:
		return fmt.Sprintf("%s 60 IN A 198.18.%d.%d", rec.Owner, id, rec.N)
	case dns.TypeAAAA:
		return fmt.Sprintf("%s 60 IN AAAA 2001:db8:c17:%x::%x", rec.Owner, id, rec.N)
	case dns.TypeTXT:
		return fmt.Sprintf("%s 60 IN TXT \"c17view=%d rec=%d\"", rec.Owner, id, rec.N)
	case dns.TypeMX:
		return fmt.Sprintf("%s 60 IN MX 10 r%d.view%d.mark.c17.test.", rec.Owner, rec.N, id)
	}
	return ""
}

func (v viewSpec) config() config.ViewConfig {
	vc := config.ViewConfig{Zone: fmt.Sprintf("view-%d", v.ID), Networks: v.Networks}
	if v.Junk {
		vc.Answers = append(vc.Answers, "this is not a resource record", "*."+viewZone+" 60 IN A not-an-address")
	}
	for i, rec := range v.Recs {
		vc.Answers = append(vc.Answers, rec.text(v.ID))
		if v.Junk && i%3 == 0 {
			vc.Answers = append(vc.Answers, "exact."+viewZone+" 60 IN AAAA 198.18.0.1")
		}
	}
	return vc
}

type viewMarker struct{ ID, N int }

// viewMark reads the <view id, record number> marker out of a record.
func viewMark(rr dns.RR) (viewMarker, bool) {
	switch x := rr.(type) {
	case *dns.A:
		if ip := x.A.To4(); ip != nil && ip[0] == 198 && ip[1] == 18 {
			return viewMarker{int(ip[2]), int(ip[3])}, true
		}
	case *dns.AAAA:
		if a, ok := netip.AddrFromSlice(x.AAAA); ok {
			b := a.As16()
			if b[0] == 0x20 && b[1] == 0x01 && b[2] == 0x0d && b[3] == 0xb8 && b[4] == 0x0c && b[5] == 0x17 {
				if id := int(b[6])<<8 | int(b[7]); id > 0 {
					return viewMarker{id, int(b[14])<<8 | int(b[15])}, true
				}
			}
		}
	case *dns.TXT:
		if len(x.Txt) == 1 && strings.HasPrefix(x.Txt[0], "c17view=") {
			var m viewMarker
			if _, err := fmt.Sscanf(x.Txt[0], "c17view=%d rec=%d", &m.ID, &m.N); err == nil {
				return m, true
			}
		}
	case *dns.MX:
		mx := strings.ToLower(x.Mx)
		if strings.HasSuffix(mx, ".mark.c17.test.") {
			f := strings.Split(mx, ".")
			if len(f) >= 2 && strings.HasPrefix(f[0], "r") && strings.HasPrefix(f[1], "view") {
				n, e1 := strconv.Atoi(f[0][1:])
				id, e2 := strconv.Atoi(f[1][4:])
				if e1 == nil && e2 == nil {
					return viewMarker{id, n}, true
				}
			}
		}
	}
	return viewMarker{}, false
}

// viewOf identifies which view's record rr is (-1: none of ours).
func viewOf(rr dns.RR) int {
	if m, ok := viewMark(rr); ok {
		return m.ID
	}
	return -1
}

// ---------------------------------------------------------------------
// reference: which records of a view are "a record of that name and type"
// ---------------------------------------------------------------------

func nameLabels(name string) []string {
	name = strings.TrimSuffix(strings.ToLower(name), ".")
	if name == "" {
		return nil
	}
	return strings.Split(name, ".") // generated names carry no escapes
}

// ownerCovers: exact owner (depth -1, true) or wildcard owner whose parent is
// a proper ancestor of qname (depth = labels of that parent).
func ownerCovers(owner, qname string) (depth int, ok bool) {
	ol, ql := nameLabels(owner), nameLabels(qname)
	if len(ol) > 0 && ol[0] == "*" {
		parent := ol[1:]
		if len(ql) <= len(parent) {
			return 0, false
		}
		off := len(ql) - len(parent)
		for i := range parent {
			if ql[off+i] != parent[i] {
				return 0, false
			}
		}
		return len(parent), true
	}
	if len(ol) != len(ql) {
		return 0, false
	}
	for i := range ol {
		if ol[i] != ql[i] {
			return 0, false
		}
	}
	return -1, true
}

// covering: every record of the view with this type whose owner covers qname.
func (v viewSpec) covering(qname string, qtype uint16) map[int]bool {
	out := map[int]bool{}
	for _, rec := range v.Recs {
		if rec.Type != qtype {
			continue
		}
		if _, ok := ownerCovers(rec.Owner, qname); ok {
			out[rec.N] = true
		}
	}
	return out
}

// documented: the records views.go documents as the answer — the exact owner's
// records of that type, else those of the closest enclosing wildcard.
func (v viewSpec) documented(qname string, qtype uint16) map[int]bool {
	exact, wild := map[int]bool{}, map[int]bool{}
	best := -1
	for _, rec := range v.Recs {
		if rec.Type != qtype {
			continue
		}
		d, ok := ownerCovers(rec.Owner, qname)
		switch {
		case !ok:
		case d < 0:
			exact[rec.N] = true
		case d > best:
			best = d
			wild = map[int]bool{rec.N: true}
		case d == best:
			wild[rec.N] = true
		}
	}
	if len(exact) > 0 {
		return exact
	}
	return wild
}

// holdsOtherType: the view has the name (exactly or by wildcard) with a
// different type only.
func (v viewSpec) holdsOtherType(qname string, qtype uint16) bool {
	for _, rec := range v.Recs {
		if rec.Type == qtype {
			continue
		}
		if _, ok := ownerCovers(rec.Owner, qname); ok {
			return true
		}
	}
	return false
}

// containingViews returns the indices (declaration order) of the views whose
// parsable networks contain a.
func containingViews(views []viewSpec, a netip.Addr) []int {
	var out []int
	for i, v := range views {
		good, _ := parseGood(v.Networks)
		if refContains(good, a) {
			out = append(out, i)
		}
	}
	return out
}

// ---------------------------------------------------------------------
// generators
// ---------------------------------------------------------------------

var viewProfiles = []string{"empty", "junk-only", "full", "sparse", "sparse", "wild-a", "host-override", "host-override", "no-wildcards"}

func genViewRecords(rng *rand.Rand, v *viewSpec) {
	v.Profile = viewProfiles[rng.IntN(len(viewProfiles))]
	n := 0
	add := func(owner string, t uint16) {
		k := 1
		if rng.IntN(4) == 0 {
			k = 2
		}
		if rng.IntN(8) == 0 {
			owner = strings.ToUpper(owner) // owners are matched on the canonical name
		}
		for i := 0; i < k && n < 250; i++ {
			n++
			v.Recs = append(v.Recs, viewRec{Owner: owner, Type: t, N: n})
		}
	}
	isWild := func(o string) bool { return strings.HasPrefix(o, "*.") }
	switch v.Profile {
	case "empty":
	case "junk-only":
		v.Junk = true
	case "full":
		for _, o := range viewOwners {
			add(o, dns.TypeA)
			add(o, dns.TypeAAAA)
			if rng.IntN(2) == 0 {
				add(o, dns.TypeTXT)
			}
			if rng.IntN(3) == 0 {
				add(o, dns.TypeMX)
			}
		}
	case "sparse":
		for _, o := range viewOwners {
			for _, t := range viewTypes {
				if rng.IntN(3) == 0 {
					add(o, t)
				}
			}
		}
	case "wild-a":
		add("*."+viewZone, dns.TypeA)
		if rng.IntN(2) == 0 {
			add("exact."+viewZone, dns.TypeA)
		}
		if rng.IntN(2) == 0 {
			add("*.sub."+viewZone, dns.TypeAAAA)
		}
	case "host-override": // the typical use: one or two hosts overridden for a subnet
		for i := 0; i < 1+rng.IntN(2); i++ {
			o := viewOwners[rng.IntN(len(viewOwners))]
			add(o, viewTypes[rng.IntN(2)])
		}
	case "no-wildcards":
		for _, o := range viewOwners {
			if !isWild(o) && rng.IntN(3) > 0 {
				add(o, viewTypes[rng.IntN(len(viewTypes))])
				if rng.IntN(2) == 0 {
					add(o, viewTypes[rng.IntN(len(viewTypes))])
				}
			}
		}
	}
	if v.Profile != "empty" && v.Profile != "junk-only" && rng.IntN(6) == 0 {
		v.Junk = true
	}
}

// nestChain: prefixes of increasing length along one address.
func nestChain(rng *rand.Rand, base netip.Addr) []string {
	var lens []int
	if base.Is4() {
		lens = []int{0, 6, 8, 12, 14, 16, 20, 22, 24, 25, 28, 30, 31, 32}
	} else {
		lens = []int{0, 3, 16, 32, 40, 48, 56, 64, 96, 104, 112, 120, 126, 127, 128}
	}
	rng.Shuffle(len(lens), func(i, j int) { lens[i], lens[j] = lens[j], lens[i] })
	lens = lens[:3+rng.IntN(3)]
	sort.Ints(lens)
	out := make([]string, len(lens))
	for i, l := range lens {
		p := netip.PrefixFrom(base, l)
		if rng.IntN(2) == 0 {
			p = p.Masked() // otherwise host bits left set
		}
		out[i] = p.String()
	}
	return out
}

func genViews(rng *rand.Rand) []viewSpec {
	return genViewsOn(rng, clusterAddr, clusterPrefix)
}

// genViewsOn generates a view set; addr / prefix draw addresses and prefixes
// of the region the probe sources live in.
func genViewsOn(rng *rand.Rand, addr func(*rand.Rand) netip.Addr, prefix func(*rand.Rand) string) []viewSpec {
	n := 2 + rng.IntN(5)
	vs := make([]viewSpec, n)
	// nesting chains and a shared pool so the views overlap and nest
	var chains [][]string
	for i := 0; i < 1+rng.IntN(3); i++ {
		chains = append(chains, nestChain(rng, addr(rng)))
	}
	pool := make([]string, 0, 8)
	for i := 0; i < 3+rng.IntN(5); i++ {
		pool = append(pool, prefix(rng))
	}
	for i := range vs {
		v := viewSpec{ID: i + 1}
		k := 1 + rng.IntN(3)
		for j := 0; j < k; j++ {
			switch rng.IntN(12) {
			case 0:
				v.Networks = append(v.Networks, badEntries[rng.IntN(len(badEntries))])
			case 1, 2: // narrower or wider version of a pool member
				if p, err := netip.ParsePrefix(pool[rng.IntN(len(pool))]); err == nil {
					bits := p.Bits() + rng.IntN(9) - 4
					if bits < 0 {
						bits = 0
					}
					if bits > p.Addr().BitLen() {
						bits = p.Addr().BitLen()
					}
					v.Networks = append(v.Networks, fmt.Sprintf("%s/%d", p.Addr(), bits))
				}
			case 3: // disjoint-ish fresh prefix
				v.Networks = append(v.Networks, prefix(rng))
			case 4: // duplicate of a network another view already has
				if i > 0 {
					if o := vs[rng.IntN(i)].Networks; len(o) > 0 {
						v.Networks = append(v.Networks, o[rng.IntN(len(o))])
						break
					}
				}
				fallthrough
			case 5, 6, 7, 8: // a member of a nesting chain
				c := chains[rng.IntN(len(chains))]
				v.Networks = append(v.Networks, c[rng.IntN(len(c))])
			default:
				v.Networks = append(v.Networks, pool[rng.IntN(len(pool))])
			}
		}
		if rng.IntN(12) == 0 {
			v.Networks = []string{badEntries[rng.IntN(len(badEntries))]} // contains nobody
		}
		genViewRecords(rng, &v)
		vs[i] = v
	}
	if n > 1 && rng.IntN(4) == 0 { // two views with identical networks
		a, b := rng.IntN(n), rng.IntN(n)
		if a != b {
			vs[b].Networks = append([]string(nil), vs[a].Networks...)
		}
	}
	if rng.IntN(3) == 0 { // a catch-all somewhere in the order
		k := rng.IntN(n)
		vs[k].Networks = append(vs[k].Networks, "0.0.0.0/0", "::/0")
	}
	return vs
}

// genViewQuestion draws one question from the probe universe.
func genViewQuestion(rng *rand.Rand, uniq string) (string, uint16) {
	var qname string
	switch rng.IntN(16) {
	case 0:
		qname = viewZone // apex
	case 1, 2:
		qname = "exact." + viewZone
	case 3:
		qname = []string{"www.", "sub.", "a.sub.", "deep.a.sub."}[rng.IntN(4)] + viewZone
	case 4, 5, 6:
		qname = "h" + uniq + "." + viewZone // only *.v
	case 7, 8:
		qname = "h" + uniq + ".sub." + viewZone // *.sub, else *.v
	case 9:
		qname = "h" + uniq + ".a.sub." + viewZone // *.a.sub, *.sub, *.v
	case 10:
		qname = "x.h" + uniq + ".a.sub." + viewZone // several labels below the wildcard
	case 11:
		qname = []string{"xsub.", "asub.", "x-a.sub."}[rng.IntN(3)] + viewZone // label-boundary near misses
	case 12:
		qname = []string{"h" + uniq + ".", "host."}[rng.IntN(2)] + viewZone2
	case 13:
		qname = viewZone2 // apex of the second zone: nobody holds it
	case 14:
		qname = "x" + viewZone // "xv.c17.test.": the zone name is a string suffix, not a label suffix
	default:
		qname = "n" + uniq + ".nobody.c17.test." // no view holds it
	}
	var qtype uint16
	switch rng.IntN(12) {
	case 0, 1, 2, 3, 4:
		qtype = dns.TypeA
	case 5, 6, 7:
		qtype = dns.TypeAAAA
	case 8:
		qtype = dns.TypeTXT
	case 9:
		qtype = dns.TypeMX
	case 10:
		qtype = dns.TypeSRV // no view holds this type: "name held with other types only"
	default:
		qtype = viewTypes[rng.IntN(len(viewTypes))]
	}
	if rng.IntN(6) == 0 { // views match on the canonical name
		b := []byte(qname)
		for i := range b {
			if b[i] >= 'a' && b[i] <= 'z' && rng.IntN(2) == 0 {
				b[i] -= 'a' - 'A'
			}
		}
		qname = string(b)
	}
	return qname, qtype
}

func newViewStack(r *vlib.Run, acl []string, views []viewSpec, listen *stack.Listen) *stack.Stack {
	cfg := stack.DefaultConfig()
	if acl != nil {
		cfg.AccessList = acl
	}
	for _, v := range views {
		cfg.Views = append(cfg.Views, v.config())
	}
	opt := stack.Options{Config: cfg}
	if listen != nil {
		opt.Listen = *listen
	}
	st, err := stack.New(opt)
	if err != nil {
		if listen != nil {
			r.Count("views_sock_stack_start_failed", 1)
			r.Note("views_sock_stack_start_error", err.Error())
			return nil
		}
		r.Inconclusive("harness error: stack.New: " + err.Error())
		return nil
	}
	return st
}

// ---------------------------------------------------------------------
// oracle
// ---------------------------------------------------------------------

func viewEntry(path string) string {
	switch {
	case strings.HasPrefix(path, "socket-"):
		return "socket"
	case isWirePath(path):
		return "wire"
	}
	return "msg"
}

func viewContractTransport(path string) string {
	if strings.HasPrefix(path, "socket-") {
		return strings.TrimPrefix(path, "socket-")
	}
	return contractTransport(path)
}

// judgeView applies the views oracle to one observation. workKnown: the
// stub / cache deltas in o are attributable to this probe alone (in-process
// entries); socket probes run concurrently and are judged on the reply only.
func judgeView(r *vlib.Run, vc viewCase, src netip.Addr, o obs, workKnown bool) {
	r.Eval(1)
	vc.Query = hex.EncodeToString(o.Query)
	if o.Raw != nil {
		vc.Reply = hex.EncodeToString(o.Raw)
	}
	if o.Panic != nil {
		r.Violation(vlib.Sig("panic", "views", vc.Path), fmt.Sprintf("panic escaped the server entry: %v", o.Panic), vc)
		return
	}
	entry := viewEntry(vc.Path)
	countContract(r, viewContractTransport(vc.Path), o.Query, o.Raw)
	if vc.ACL != nil && !refAdmits(vc.ACL, src) {
		// access control comes first: a denied client is not view-answered either
		if o.Wrote || (workKnown && (o.Stub != 0 || o.Hits != 0 || o.Misses != 0)) {
			r.Violation(vlib.Sig("views", "denied-source-served", vc.Path),
				fmt.Sprintf("source %s is outside access list %q but was served (wrote=%v stub=%d) with views configured", vc.Source, vc.ACL, o.Wrote, o.Stub), vc)
			return
		}
		r.Count("views_denied_silent", 1)
		return
	}
	if !o.Wrote || !answersQuestion(o.Msg, vc.QName, vc.QType) {
		r.Violation(vlib.Sig("views", "no-answer", vc.Path), fmt.Sprintf("admitted source %s got no reply for %s with views configured", vc.Source, vc.QName), vc)
		return
	}
	r.Count("views_probes_"+entry, 1)

	// every view marker anywhere in the reply
	var marks []viewMarker
	for _, sec := range [][]dns.RR{o.Msg.Answer, o.Msg.Ns, o.Msg.Extra} {
		for _, rr := range sec {
			if m, ok := viewMark(rr); ok {
				marks = append(marks, m)
			}
		}
	}
	qt := dns.TypeToString[vc.QType]
	containing := containingViews(vc.Views, src)

	// ---- class: no view contains the client
	if len(containing) == 0 {
		if len(marks) > 0 {
			r.Violation("views/unmatched-client-view-answered",
				fmt.Sprintf("source %s lies in no view's networks but view id %d answered %s/%s", vc.Source, marks[0].ID, vc.QName, qt), vc)
			return
		}
		if workKnown && o.Stub+o.Hits == 0 {
			r.Violation("views/unmatched-client-not-resolved", fmt.Sprintf("source %s lies in no view but the reply came neither from resolution nor cache", vc.Source), vc)
			return
		}
		r.Count("views_unmatched_resolved", 1)
		r.Count("views_class_no_containing_view", 1)
		r.Count("views_class_no_containing_view_"+entry, 1)
		return
	}

	want := containing[0]
	w := vc.Views[want]
	cover := w.covering(vc.QName, vc.QType)
	laterContaining, laterHolding := 0, 0
	laterID := map[int]int{} // id -> declaration position of a LATER view containing the client
	for _, j := range containing[1:] {
		laterContaining++
		laterID[vc.Views[j].ID] = j
		if len(vc.Views[j].covering(vc.QName, vc.QType)) > 0 {
			laterHolding++
		}
	}

	// ---- class: the first containing view holds no record of that name and type
	if len(cover) == 0 {
		for _, m := range marks {
			if m.ID == w.ID {
				continue
			}
			if pos, ok := laterID[m.ID]; ok {
				r.Violation("views/later-view-answered-client-of-earlier-view",
					fmt.Sprintf("source %s: the first containing view in declaration order is id %d (position %d), which holds no %s record for %s; the reply carries record %d of view id %d (position %d), a later view that contains the client too",
						vc.Source, w.ID, want, qt, vc.QName, m.N, m.ID, pos), vc)
				return
			}
			r.Violation("views/wrong-view-answered",
				fmt.Sprintf("source %s: first containing view in declaration order is id %d (position %d) but the reply to %s/%s carries record %d of view id %d, which does not contain the client after it", vc.Source, w.ID, want, vc.QName, qt, m.N, m.ID), vc)
			return
		}
		if len(marks) > 0 {
			r.Violation("views/answer-not-a-record-of-that-name-and-type",
				fmt.Sprintf("source %s: view id %d holds no %s record whose owner covers %s, yet the reply carries its record %d", vc.Source, w.ID, qt, vc.QName, marks[0].N), vc)
			return
		}
		r.Count("views_first_match_without_record", 1)
		switch {
		case laterHolding > 0:
			r.Count("views_class_first_lacks_later_holds", 1)
			r.Count("views_class_first_lacks_later_holds_"+entry, 1)
		case laterContaining > 0:
			r.Count("views_class_first_lacks_later_lacks_too", 1)
		default:
			r.Count("views_class_first_lacks_only_view", 1)
		}
		if w.holdsOtherType(vc.QName, vc.QType) {
			r.Count("views_first_lacks_name_held_with_other_types", 1)
		} else {
			r.Count("views_first_lacks_name_not_held", 1)
		}
		if len(w.Recs) == 0 {
			r.Count("views_first_lacks_view_without_any_record", 1)
		}
		if workKnown {
			// documented fall-through: counted, not judged
			if o.Stub+o.Hits > 0 {
				r.Count("views_first_lacks_fell_through_to_resolution", 1)
			} else {
				r.Count("views_first_lacks_other_reply", 1)
			}
		}
		return
	}

	// ---- class: the first containing view holds a record of that name and type
	if len(marks) == 0 {
		r.Violation("views/matched-client-not-view-answered",
			fmt.Sprintf("source %s lies in view id %d (position %d) which holds a record for %s/%s, but the reply is not the view's", vc.Source, w.ID, want, vc.QName, qt), vc)
		return
	}
	got := map[int]bool{}
	for _, m := range marks {
		if m.ID != w.ID {
			r.Violation("views/wrong-view-answered",
				fmt.Sprintf("source %s: first containing view in declaration order is id %d (position %d) but view id %d answered %s/%s", vc.Source, w.ID, want, m.ID, vc.QName, qt), vc)
			return
		}
		if !cover[m.N] {
			r.Violation("views/answer-not-a-record-of-that-name-and-type",
				fmt.Sprintf("source %s: the reply to %s/%s carries record %d of view id %d, which is not a %s record whose owner covers that name", vc.Source, vc.QName, qt, m.N, w.ID, qt), vc)
			return
		}
		got[m.N] = true
	}
	for _, rr := range o.Msg.Answer {
		if _, ok := viewMark(rr); !ok {
			r.Violation("views/view-answer-mixed-with-other-data",
				fmt.Sprintf("source %s: view id %d answered %s/%s but the answer section also carries %s", vc.Source, w.ID, vc.QName, qt, rr.String()), vc)
			return
		}
	}
	if workKnown && o.Stub != 0 {
		r.Violation("views/view-answer-also-resolved", fmt.Sprintf("view id %d answered %s for %s yet the stub was called %d time(s)", w.ID, vc.QName, vc.Source, o.Stub), vc)
		return
	}
	r.Count("views_first_match_answered", 1)
	r.Count("views_class_first_holds", 1)
	r.Count("views_class_first_holds_"+entry, 1)
	if want > 0 {
		r.Count("views_first_match_not_first_declared", 1)
	}
	if laterContaining > 0 {
		r.Count("views_overlap_resolved_by_order", 1)
	}
	if laterHolding > 0 {
		r.Count("views_first_holds_later_holds_too", 1)
	}
	doc := w.documented(vc.QName, vc.QType)
	same := len(doc) == len(got)
	for n := range doc {
		same = same && got[n]
	}
	if same {
		r.Count("views_rrset_as_documented", 1) // exact owner over wildcard, closest wildcard
	} else {
		r.Count("views_rrset_other_than_documented", 1) // not a C17 matter: counted only
	}
}

func viewProbe(r *vlib.Run, st *stack.Stack, vc viewCase, src srcSpec, prng *rand.Rand) {
	q := buildQuery(prng, vc.QName, vc.QType)
	o := serveInproc(st, src, vc.Path, q)
	judgeView(r, vc, src.Addr, o, true)
}

// ---------------------------------------------------------------------
// in-process driver
// ---------------------------------------------------------------------

func runViews(r *vlib.Run) {
	n := r.N(60, 1500)
	for ci := 0; ci < n; ci++ {
		rng := r.RandN("views", ci)
		base := genViews(rng)
		var acl []string
		if rng.IntN(3) == 0 {
			acl, _ = genACL(rng)
			if acl == nil {
				acl = []string{}
			}
		}
		var nets [][]string
		for _, v := range base {
			nets = append(nets, v.Networks)
		}
		sources := genSources(rng, nets, r.N(30, 50))
		orders := 3
		for ord := 0; ord < orders; ord++ {
			views := append([]viewSpec(nil), base...)
			if ord > 0 {
				rng.Shuffle(len(views), func(i, j int) { views[i], views[j] = views[j], views[i] })
			}
			st := newViewStack(r, acl, views, nil)
			if st == nil {
				return
			}
			before := [3]int64{r.Counter("views_class_first_holds"), r.Counter("views_class_first_lacks_later_holds"), r.Counter("views_class_no_containing_view")}
			seq := 0
			for _, src := range sources {
				for k := 0; k < 4; k++ {
					seq++
					prng := rand.New(rand.NewPCG(uint64(ci)<<24|uint64(ord)<<20|uint64(seq), 0x71e75))
					path := inprocPaths[prng.IntN(len(inprocPaths))]
					if k == 0 {
						path = []string{"wire-udp", "wire-tcp", "wire-udp-engine"}[prng.IntN(3)]
					} else if k == 1 {
						path = []string{"msg-doh", "msg-doq", "msg-tcp"}[prng.IntN(3)]
					}
					qname, qtype := genViewQuestion(prng, fmt.Sprintf("%d-%d-%d", ci, ord, seq))
					vc := viewCase{Part: "views", Case: ci, Order: ord, ACL: acl, Views: views, Source: src.Addr.String(),
						Form16: src.Form16, Port: src.Port, Path: path, QName: qname, QType: qtype}
					viewProbe(r, st, vc, src, prng)
				}
			}
			st.Close()
			r.Count("views_stacks", 1)
			r.DistinctIn("view_orders", fmt.Sprintf("%d/%v", ci, views))
			if r.Counter("views_class_first_holds") > before[0] && r.Counter("views_class_first_lacks_later_holds") > before[1] && r.Counter("views_class_no_containing_view") > before[2] {
				r.DistinctIn("view_sets_showing_all_three_classes", fmt.Sprintf("%d/%d", ci, ord))
			}
		}
		if ci < 1 {
			r.Sample(map[string]any{"kind": "views", "views": base, "acl": acl, "sources": len(sources), "orders": orders})
		}
		r.Progress("views %d/%d", ci+1, n)
	}
	runViewSockets(r)

	r.Require("views_first_match_answered", 1000)
	r.Require("views_first_match_not_first_declared", 200)
	r.Require("views_overlap_resolved_by_order", 300)
	r.Require("views_unmatched_resolved", 200)
	r.Require("views_denied_silent", 50)
	for _, e := range []string{"wire", "msg"} {
		r.Require("views_class_first_holds_"+e, 400)
		r.Require("views_class_first_lacks_later_holds_"+e, 100)
		r.Require("views_class_no_containing_view_"+e, 100)
	}
	r.Require("views_class_first_holds_socket", 15)
	r.Require("views_class_first_lacks_later_holds_socket", 8)
	r.Require("views_class_no_containing_view_socket", 8)
	r.Require("views_first_lacks_name_held_with_other_types", 100)
	r.Require("views_first_lacks_name_not_held", 100)
	r.Require("views_first_lacks_view_without_any_record", 50)
}

// ---------------------------------------------------------------------
// sockets: views whose networks live in 127.0.0.0/8 and ::1, real transports
// ---------------------------------------------------------------------

func loopAddr(rng *rand.Rand) netip.Addr {
	switch rng.IntN(8) {
	case 0:
		return netip.MustParseAddr("::1")
	case 1:
		var b [16]byte
		b[15] = byte(rng.IntN(4))
		return netip.AddrFrom16(b)
	case 2: // the IPv4-mapped literal as an IPv6 CIDR: matches nobody
		return netip.AddrFrom16([16]byte{10: 0xff, 11: 0xff, 12: 127, 13: 0, 14: byte(rng.IntN(2)), 15: byte(rng.UintN(256))})
	}
	return netip.AddrFrom4([4]byte{127, byte(rng.IntN(3)), byte(rng.IntN(2)), byte(1 + rng.IntN(254))})
}

func loopPrefix(rng *rand.Rand) string {
	a := loopAddr(rng)
	if a.Is4() {
		return fmt.Sprintf("%s/%d", a, 8+rng.IntN(25))
	}
	if a.Is4In6() {
		return fmt.Sprintf("%s/%d", a, 104+rng.IntN(25))
	}
	return fmt.Sprintf("%s/%d", a, []int{0, 64, 120, 126, 127, 128}[rng.IntN(6)])
}

func socketObs(p *sockProbe) obs {
	o := obs{Query: p.pkt, Handled: true}
	if p.err == nil && len(p.out) > 0 {
		o.Wrote, o.Writes, o.Raw = true, 1, p.out
		m := new(dns.Msg)
		if m.Unpack(p.out) == nil {
			o.Msg = m
		}
	}
	return o
}

func runViewSockets(r *vlib.Run) {
	n := r.N(8, 80)
	for ci := 0; ci < n; ci++ {
		rng := r.RandN("views-sock", ci)
		dual := ci%2 == 1
		views := genViewsOn(rng, loopAddr, loopPrefix)
		// loopback view sets are small: make sure nested views with different
		// record sets exist on every stack (narrow ones declared anywhere)
		extra := []viewSpec{
			{ID: len(views) + 1, Networks: []string{fmt.Sprintf("127.0.0.%d/%d", rng.IntN(256), 25+rng.IntN(6)), "::1/128"}},
			{ID: len(views) + 2, Networks: []string{"127.0.0.0/16", "::1/128"}}, // 127.1/16 and 127.2/16 stay outside
		}
		genViewRecords(rng, &extra[0])
		genViewRecords(rng, &extra[1])
		for _, v := range extra {
			k := rng.IntN(len(views) + 1)
			views = append(views[:k], append([]viewSpec{v}, views[k:]...)...)
		}
		outside := netip.MustParsePrefix("127.2.0.0/16")
		var all []string
		for vi := range views {
			if ci%2 == 0 {
				// every other stack: no view covers 127.2.0.0/16, so sources there lie in no view
				var keep []string
				for _, c := range views[vi].Networks {
					if p, err := netip.ParsePrefix(c); err == nil && p.Masked().Overlaps(outside) {
						continue
					}
					keep = append(keep, c)
				}
				views[vi].Networks = keep
			}
			all = append(all, views[vi].Networks...)
		}
		lip := ""
		if dual {
			lip = "::"
		}
		st := newViewStack(r, nil, views, &stack.Listen{Plain: true, DoT: true, DoH: true, DoQ: true, IP: lip})
		if st == nil {
			continue
		}
		sources := loopSources(rng, all, dual, r.N(10, 12))
		sources = append(sources, netip.AddrFrom4([4]byte{127, 2, byte(rng.IntN(2)), byte(1 + rng.IntN(254))}),
			netip.AddrFrom4([4]byte{127, 1, 1, byte(1 + rng.IntN(254))}))
		var probes []*sockProbe
		var cases []viewCase
		k := 0
		for _, s := range sources {
			for _, tr := range sockTransports {
				k++
				qname, qtype := genViewQuestion(rng, fmt.Sprintf("s%d-%d", ci, k))
				q := buildQuery(rng, qname, qtype)
				pkt, _ := q.Pack()
				probes = append(probes, &sockProbe{src: s, tr: tr, qname: qname, pkt: pkt})
				cases = append(cases, viewCase{Part: "views", Case: ci, Views: views, Source: s.String(), Path: "socket-" + tr, Dual: dual, QName: qname, QType: qtype})
			}
		}
		exchangeAll(st, probes, dual, 5*time.Second)
		for i, p := range probes {
			if _, none := noReplyKind(p.err); none {
				// one generous retry; a deadline never decides the verdict
				r.Count("views_sock_retry", 1)
				c := sockClient(st, p.src, dual, 15*time.Second)
				p.out, p.err = c.Exchange(p.tr, p.pkt)
				c.Close()
			}
			if p.err != nil {
				if _, none := noReplyKind(p.err); none {
					r.Inconclusive(fmt.Sprintf("views: socket probe from %s over %s unanswered after retry (no access list configured)", p.src, p.tr))
				} else {
					r.Count("views_sock_probe_error", 1) // bind/dial/transport trouble: no observation
					r.Note("views_sock_last_error", fmt.Sprintf("%s %s: %v", p.src, p.tr, p.err))
				}
				continue
			}
			if dual && p.src.Is4() {
				r.Count("views_sock_mapped_source_probes", 1)
			}
			judgeView(r, cases[i], p.src, socketObs(p), false)
		}
		st.Close()
		r.Count("views_sock_stacks", 1)
		if ci < 1 {
			r.Sample(map[string]any{"kind": "views-sockets", "views": views, "dual_stack": dual, "sources": fmt.Sprint(sources), "transports": sockTransports})
		}
		r.Progress("views sockets %d/%d", ci+1, n)
	}
}

// ---------------------------------------------------------------------
// replay
// ---------------------------------------------------------------------

func replayViews(r *vlib.Run, rc json.RawMessage) {
	var vc viewCase
	if err := json.Unmarshal(rc, &vc); err != nil {
		r.Inconclusive("replay: " + err.Error())
		return
	}
	a, err := netip.ParseAddr(vc.Source)
	if err != nil {
		r.Inconclusive("replay: bad source: " + err.Error())
		return
	}
	if strings.HasPrefix(vc.Path, "socket-") {
		lip := ""
		if vc.Dual {
			lip = "::"
		}
		st := newViewStack(r, vc.ACL, vc.Views, &stack.Listen{Plain: true, DoT: true, DoH: true, DoQ: true, IP: lip})
		if st == nil {
			r.Inconclusive("replay: listening stack did not start")
			return
		}
		defer st.Close()
		q := buildQuery(r.RandN("replay", 0), vc.QName, vc.QType)
		pkt, _ := q.Pack()
		p := &sockProbe{src: a, tr: strings.TrimPrefix(vc.Path, "socket-"), qname: vc.QName, pkt: pkt}
		c := sockClient(st, a, vc.Dual, 15*time.Second)
		p.out, p.err = c.Exchange(p.tr, p.pkt)
		c.Close()
		if p.err != nil {
			r.Inconclusive("replay: socket exchange: " + p.err.Error())
			return
		}
		judgeView(r, vc, a, socketObs(p), false)
		return
	}
	st := newViewStack(r, vc.ACL, vc.Views, nil)
	if st == nil {
		return
	}
	defer st.Close()
	viewProbe(r, st, vc, srcSpec{Addr: a, Port: vc.Port, Form16: vc.Form16}, r.RandN("replay", 0))
}
