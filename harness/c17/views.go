package main

import (
	"encoding/hex"
	"encoding/json"
	"fmt"
	"math/rand/v2"
	"net/netip"

	"github.com/miekg/dns"

	"github.com/semihalev/sdns/config"
	"github.com/semihalev/sdns/zzverif/stack"
	"github.com/semihalev/sdns/zzverif/vlib"
)

// (iii) per-client views: the FIRST view in declaration order whose networks
// contain the client (same containment rule as the access list) answers.
//
// View i answers  *.v.c17.test. / exact.v.c17.test.  with 198.18.<id>.x and
// 2001:db8:c17:<id>::x, where <id> is the view's identity (stable across the
// generated declaration orders); the stub answers with 10.x / 2001:db8:<h>::
// provenance markers, so the reply tells which view — or resolution — answered.

type viewSpec struct {
	ID       int      `json:"id"`
	Networks []string `json:"networks"`
	HasA     bool     `json:"has_a"`
	HasAAAA  bool     `json:"has_aaaa"`
	Junk     bool     `json:"junk_answers,omitempty"`
}

type viewCase struct {
	Part   string     `json:"part"` // "views"
	Case   int        `json:"case"`
	Order  int        `json:"order"`
	ACL    []string   `json:"acl,omitempty"`
	Views  []viewSpec `json:"views"` // in declaration order
	Source string     `json:"source"`
	Form16 bool       `json:"form16,omitempty"`
	Port   int        `json:"port"`
	Path   string     `json:"path"`
	QName  string     `json:"qname"`
	QType  uint16     `json:"qtype"`
	Query  string     `json:"query_hex,omitempty"`
	Reply  string     `json:"reply_hex,omitempty"`
}

const viewZone = "v.c17.test."

func (v viewSpec) config() config.ViewConfig {
	vc := config.ViewConfig{Zone: fmt.Sprintf("view-%d", v.ID), Networks: v.Networks}
	if v.Junk {
		vc.Answers = append(vc.Answers, "this is not a resource record", "*."+viewZone+" 60 IN A not-an-address")
	}
	if v.HasA {
		vc.Answers = append(vc.Answers,
			fmt.Sprintf("*.%s 60 IN A 198.18.%d.1", viewZone, v.ID),
			fmt.Sprintf("exact.%s 60 IN A 198.18.%d.2", viewZone, v.ID))
	}
	if v.HasAAAA {
		vc.Answers = append(vc.Answers, fmt.Sprintf("*.%s 60 IN AAAA 2001:db8:c17:%x::1", viewZone, v.ID))
	}
	return vc
}

// viewOf identifies which view's record rr is (-1: none of ours).
func viewOf(rr dns.RR) int {
	switch x := rr.(type) {
	case *dns.A:
		if ip := x.A.To4(); ip != nil && ip[0] == 198 && ip[1] == 18 {
			return int(ip[2])
		}
	case *dns.AAAA:
		if a, ok := netip.AddrFromSlice(x.AAAA); ok {
			b := a.As16()
			if b[0] == 0x20 && b[1] == 0x01 && b[2] == 0x0d && b[3] == 0xb8 && b[4] == 0x0c && b[5] == 0x17 {
				if id := int(b[6])<<8 | int(b[7]); id > 0 {
					return id
				}
			}
		}
	}
	return -1
}

func genViews(rng *rand.Rand) []viewSpec {
	n := 2 + rng.IntN(4)
	vs := make([]viewSpec, n)
	// a shared pool of prefixes so the views overlap and nest
	pool := make([]string, 0, 8)
	for i := 0; i < 3+rng.IntN(5); i++ {
		pool = append(pool, clusterPrefix(rng))
	}
	for i := range vs {
		v := viewSpec{ID: i + 1, HasA: true, HasAAAA: true}
		k := 1 + rng.IntN(3)
		for j := 0; j < k; j++ {
			switch rng.IntN(8) {
			case 0:
				v.Networks = append(v.Networks, badEntries[rng.IntN(len(badEntries))])
			case 1, 2: // narrower or wider version of a pool member
				if p, err := netip.ParsePrefix(pool[rng.IntN(len(pool))]); err == nil {
					bits := p.Bits() + rng.IntN(9) - 4
					if bits < 0 {
						bits = 0
					}
					if bits > p.Addr().BitLen() {
						bits = p.Addr().BitLen()
					}
					v.Networks = append(v.Networks, fmt.Sprintf("%s/%d", p.Addr(), bits))
				}
			case 3:
				v.Networks = append(v.Networks, clusterPrefix(rng))
			default:
				v.Networks = append(v.Networks, pool[rng.IntN(len(pool))])
			}
		}
		switch rng.IntN(10) {
		case 0:
			v.HasAAAA = false
		case 1:
			v.HasA = false
		case 2:
			v.Junk = true
		}
		if rng.IntN(12) == 0 {
			v.Networks = []string{badEntries[rng.IntN(len(badEntries))]} // contains nobody
		}
		vs[i] = v
	}
	if rng.IntN(3) == 0 { // a catch-all somewhere in the order
		k := rng.IntN(n)
		vs[k].Networks = append(vs[k].Networks, "0.0.0.0/0", "::/0")
	}
	return vs
}

// firstView returns the index (in declaration order) of the first view whose
// parsable networks contain a, or -1.
func firstView(views []viewSpec, a netip.Addr) int {
	for i, v := range views {
		good, _ := parseGood(v.Networks)
		if refContains(good, a) {
			return i
		}
	}
	return -1
}

func newViewStack(r *vlib.Run, acl []string, views []viewSpec) *stack.Stack {
	cfg := stack.DefaultConfig()
	if acl != nil {
		cfg.AccessList = acl
	}
	for _, v := range views {
		cfg.Views = append(cfg.Views, v.config())
	}
	st, err := stack.New(stack.Options{Config: cfg})
	if err != nil {
		r.Inconclusive("harness error: stack.New: " + err.Error())
		return nil
	}
	return st
}

func judgeView(r *vlib.Run, vc viewCase, src netip.Addr, o obs) {
	r.Eval(1)
	vc.Query = hex.EncodeToString(o.Query)
	if o.Raw != nil {
		vc.Reply = hex.EncodeToString(o.Raw)
	}
	if o.Panic != nil {
		r.Violation(vlib.Sig("panic", "views", vc.Path), fmt.Sprintf("panic escaped the server entry: %v", o.Panic), vc)
		return
	}
	countContract(r, contractTransport(vc.Path), o.Query, o.Raw)
	if vc.ACL != nil && !refAdmits(vc.ACL, src) {
		// access control comes first: a denied client is not view-answered either
		if o.Wrote || o.Stub != 0 || o.Hits != 0 || o.Misses != 0 {
			r.Violation(vlib.Sig("views", "denied-source-served", vc.Path),
				fmt.Sprintf("source %s is outside access list %q but was served (wrote=%v stub=%d) with views configured", vc.Source, vc.ACL, o.Wrote, o.Stub), vc)
			return
		}
		r.Count("views_denied_silent", 1)
		return
	}
	if !o.Wrote || !answersQuestion(o.Msg, vc.QName, vc.QType) {
		r.Violation(vlib.Sig("views", "no-answer", vc.Path), fmt.Sprintf("admitted source %s got no reply for %s with views configured", vc.Source, vc.QName), vc)
		return
	}
	got := -1 // identity of the view whose record is in the answer
	for _, rr := range o.Msg.Answer {
		if id := viewOf(rr); id >= 0 {
			got = id
			break
		}
	}
	want := firstView(vc.Views, src)
	if want < 0 {
		if got >= 0 {
			r.Violation("views/unmatched-client-view-answered",
				fmt.Sprintf("source %s lies in no view's networks but view id %d answered %s", vc.Source, got, vc.QName), vc)
			return
		}
		if o.Stub+o.Hits == 0 {
			r.Violation("views/unmatched-client-not-resolved", fmt.Sprintf("source %s lies in no view but the reply came neither from resolution nor cache", vc.Source), vc)
			return
		}
		r.Count("views_unmatched_resolved", 1)
		return
	}
	w := vc.Views[want]
	has := (vc.QType == dns.TypeA && w.HasA) || (vc.QType == dns.TypeAAAA && w.HasAAAA)
	if !has {
		// documented fall-through (views.ServeDNS): counted, not judged beyond
		// "the first matching view is the only candidate"
		r.Count("views_first_match_without_record", 1)
		if got >= 0 && got != w.ID {
			r.Count("views_first_match_without_record_later_view_answered", 1)
		}
		return
	}
	switch {
	case got == w.ID:
		r.Count("views_first_match_answered", 1)
		if want > 0 {
			r.Count("views_first_match_not_first_declared", 1)
		}
		later := 0
		for _, v := range vc.Views[want+1:] {
			good, _ := parseGood(v.Networks)
			if refContains(good, src) {
				later++
			}
		}
		if later > 0 {
			r.Count("views_overlap_resolved_by_order", 1)
		}
		if o.Stub != 0 {
			r.Violation("views/view-answer-also-resolved", fmt.Sprintf("view id %d answered %s for %s yet the stub was called %d time(s)", got, vc.QName, vc.Source, o.Stub), vc)
		}
	case got >= 0:
		r.Violation("views/wrong-view-answered",
			fmt.Sprintf("source %s: first containing view in declaration order is id %d (position %d) but view id %d answered %s", vc.Source, w.ID, want, got, vc.QName), vc)
	default:
		r.Violation("views/matched-client-not-view-answered",
			fmt.Sprintf("source %s lies in view id %d (position %d) which holds a record for %s/%s, but the reply is not the view's", vc.Source, w.ID, want, vc.QName, dns.TypeToString[vc.QType]), vc)
	}
}

func viewProbe(r *vlib.Run, st *stack.Stack, vc viewCase, src srcSpec, prng *rand.Rand) {
	q := buildQuery(prng, vc.QName, vc.QType)
	o := serveInproc(st, src, vc.Path, q)
	judgeView(r, vc, src.Addr, o)
}

func runViews(r *vlib.Run) {
	n := r.N(60, 1500)
	for ci := 0; ci < n; ci++ {
		rng := r.RandN("views", ci)
		base := genViews(rng)
		var acl []string
		if rng.IntN(3) == 0 {
			acl, _ = genACL(rng)
			if acl == nil {
				acl = []string{}
			}
		}
		var nets [][]string
		for _, v := range base {
			nets = append(nets, v.Networks)
		}
		sources := genSources(rng, nets, r.N(30, 50))
		orders := 2
		for ord := 0; ord < orders; ord++ {
			views := append([]viewSpec(nil), base...)
			if ord > 0 {
				rng.Shuffle(len(views), func(i, j int) { views[i], views[j] = views[j], views[i] })
			}
			st := newViewStack(r, acl, views)
			if st == nil {
				return
			}
			seq := 0
			for _, src := range sources {
				for k := 0; k < 3; k++ {
					seq++
					prng := rand.New(rand.NewPCG(uint64(ci)<<24|uint64(ord)<<20|uint64(seq), 0x71e75))
					path := inprocPaths[prng.IntN(len(inprocPaths))]
					if k == 0 {
						path = []string{"wire-udp", "wire-tcp", "wire-udp-engine"}[prng.IntN(3)]
					} else if k == 1 {
						path = []string{"msg-doh", "msg-doq", "msg-tcp"}[prng.IntN(3)]
					}
					qname := fmt.Sprintf("h%d-%d-%d.%s", ci, ord, seq, viewZone)
					qtype := dns.TypeA
					switch prng.IntN(5) {
					case 0:
						qname = "exact." + viewZone
					case 1, 2:
						qtype = dns.TypeAAAA
					}
					if prng.IntN(6) == 0 {
						qname = "H" + qname[1:] // case: views match on the canonical name
						if qname == "Hxact."+viewZone {
							qname = "Exact." + viewZone
						}
					}
					vc := viewCase{Part: "views", Case: ci, Order: ord, ACL: acl, Views: views, Source: src.Addr.String(),
						Form16: src.Form16, Port: src.Port, Path: path, QName: qname, QType: qtype}
					viewProbe(r, st, vc, src, prng)
				}
			}
			st.Close()
			r.Count("views_stacks", 1)
			r.DistinctIn("view_orders", fmt.Sprintf("%d/%v", ci, views))
		}
		if ci < 1 {
			r.Sample(map[string]any{"kind": "views", "views": base, "acl": acl, "sources": len(sources), "orders": orders})
		}
		r.Progress("views %d/%d", ci+1, n)
	}
	r.Require("views_first_match_answered", 1000)
	r.Require("views_first_match_not_first_declared", 200)
	r.Require("views_overlap_resolved_by_order", 300)
	r.Require("views_unmatched_resolved", 200)
	r.Require("views_denied_silent", 50)
}

func replayViews(r *vlib.Run, rc json.RawMessage) {
	var vc viewCase
	if err := json.Unmarshal(rc, &vc); err != nil {
		r.Inconclusive("replay: " + err.Error())
		return
	}
	a, err := netip.ParseAddr(vc.Source)
	if err != nil {
		r.Inconclusive("replay: bad source: " + err.Error())
		return
	}
	st := newViewStack(r, vc.ACL, vc.Views)
	if st == nil {
		return
	}
	defer st.Close()
	viewProbe(r, st, vc, srcSpec{Addr: a, Port: vc.Port, Form16: vc.Form16}, r.RandN("replay", 0))
}
