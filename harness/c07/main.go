// C07 — authoritative data is trusted only inside the sender's bailiwick.
//
// Runtime monitor: a scripted universe (authsim) with a fixed AUTHORITY MAP
// (root, test., evil.test. = the attacker's zone Z, victim.test. = honest) is
// resolved by the REAL sdns pipeline. The server(s) authoritative for Z
// misbehave in one generated way per case; every record they emit for a name
// outside Z, and every datagram with a wrong id / wrong question, carries an
// evil marker, and every address only they advertise where its use is illegal
// leads to the SINK. The oracle judges every client-visible reply (attack,
// repeated attack question, victim questions now and after virtual time
// advances) and the sink's packet log. See DESIGN.md §4 C07.
//
// Unchanged tree: FINDINGS.md #1/#2 (out-of-zone answer-section records relayed /
// foreign DNAMEs cached) were repaired by /repo c9d5181. FINDINGS.md #3 (glue
// bailiwick too wide after a jump to a cached delegation >= 2 labels deep) is
// present: three narrow `known` signatures …/deep-cached-jump/sibling-b[-new];
// every other signature fails.
// Ladders (ladders.go): answer sections with an out-of-zone part under every
// rcode (also as the answer to the resolver's own NS-address lookup), and right-id
// messages whose question is a RELATIVE of the asked one (below / above / beside,
// also ahead of the honest root and test. servers' replies to a question for
// their apex); their cases have indexes >= ladderIndexBase.
// Spoof bursts (bursts.go): 1…64 wrong-id / wrong-question / both-wrong messages
// ahead of the real reply or instead of it, over UDP and as TCP frames; the
// cases of the kinds added there have indexes >= extraIndexBase.
// Mutants: /verif/mutants/C07/README.md. Debugging: C07_DEBUG=1|2, C07_CASE=<i>,
// C07_BATCH=lo:hi:step, C07_ROUNDS, C07_WORKERS.
package main

import (
	"context"
	"encoding/json"
	"fmt"
	"math/rand/v2"
	"net"
	"os"
	"strconv"
	"strings"
	"sync"
	"sync/atomic"
	"time"

	"github.com/miekg/dns"
	"github.com/semihalev/sdns/server"
	"github.com/semihalev/sdns/zzverif/authsim"
	"github.com/semihalev/sdns/zzverif/replycontract"
	"github.com/semihalev/sdns/zzverif/vlib"
	zm "github.com/semihalev/sdns/zzverif/zonemodel"
)

const (
	upstreamTimeout = 2 * time.Second
	quiesceTimeout  = 90 * time.Second
	clientAddr      = "127.0.0.1:40007"
)

var debug = os.Getenv("C07_DEBUG") != ""

// sampled: the first delivered attack of this process became an evidence sample.
// samplePref, when set, restricts that to one kind (a quarter of the batch
// processes each sample a case of the two ladder kinds, so that the evidence
// file shows them next to the older kinds).
var (
	sampled    atomic.Bool
	samplePref string
)

// CaseSpec is the serialisable replay case: (seed, index) regenerate
// everything else; the remaining fields document what was generated/observed.
type CaseSpec struct {
	Seed    uint64    `json:"seed"`
	Index   int       `json:"index"`
	Kind    string    `json:"kind"`
	Family  string    `json:"family"`
	Variant string    `json:"variant"`
	Target  string    `json:"glue_target,omitempty"` // where attacker NS hosts point: evil server | sink
	V6      bool      `json:"v6_records"`
	Addr    string    `json:"unusable_addr,omitempty"`
	Note    string    `json:"note,omitempty"`
	Label   string    `json:"label"`
	World   WorldSpec `json:"world"`

	Script   []string `json:"evil_messages,omitempty"` // what the evil servers actually built (first few)
	Phase    string   `json:"phase,omitempty"`
	Query    string   `json:"query,omitempty"`
	Reply    string   `json:"reply,omitempty"`
	Upstream []string `json:"upstream,omitempty"`
	Sink     []string `json:"sink_packets,omitempty"`
}

func (c *CaseSpec) kind() *attackKind {
	for _, k := range kinds {
		if k.Name == c.Kind {
			return k
		}
	}
	return nil
}

func (c *CaseSpec) trigger() (string, uint16) { return c.kind().Trigger(c.Variant) }

func genCase(r *vlib.Run, index int) *CaseSpec {
	rng := r.RandN("case", index)
	// every group of kinds has its own case index space (see kindGroups), so
	// that the cases of the older kinds stay what they were when kinds are added
	g := groupOf(index)
	j := index - g.Base
	k := g.Kinds[j%len(g.Kinds)]
	round := j / len(g.Kinds)
	off := r.Rand("variant-offset/" + k.Name).IntN(len(k.Variants))
	variant := k.Variants[(round+off)%len(k.Variants)]
	needV6 := k.NeedV6 != nil && k.NeedV6(variant)
	c := &CaseSpec{Seed: r.Seed, Index: index, Kind: k.Name, Family: k.Family, Variant: variant}
	c.World = genWorld(rng, needV6)
	k.shapeWorld(variant, &c.World)
	c.V6 = c.World.IPv6
	c.Target = "evil"
	if rng.IntN(2) == 0 {
		c.Target = "sink"
	}
	c.Label = "attack:" + k.Name + "/" + variant
	return c
}

// shapeWorld applies the kind's requirements to a generated (or replayed) world.
func (k *attackKind) shapeWorld(variant string, ws *WorldSpec) {
	if k.NeedV6 != nil && k.NeedV6(variant) {
		ws.IPv6 = true
	}
	if k.Deep {
		ws.Deep = true
	}
	if k.Unsigned && ws.Mode == "signed" {
		ws.Mode = "insecure"
	}
	if k.QMin != nil {
		if v, ok := k.QMin(variant); ok {
			ws.QMin = v
		}
	}
}

// extraIndexBase is the first case index of the kinds appended to the base list
// by bursts.go; ladderIndexBase that of the kinds of ladders.go.
const (
	extraIndexBase  = 1 << 20
	ladderIndexBase = 2 << 20
)

// kindGroup: a slice of kinds that shares one case index space Base, Base+1, …
type kindGroup struct {
	Base  int
	Kinds []*attackKind
}

// kindGroups is filled by attacks.go's init, in ascending Base order.
var kindGroups []kindGroup

func groupOf(index int) kindGroup {
	g := kindGroups[0]
	for _, x := range kindGroups[1:] {
		if index >= x.Base {
			g = x
		}
	}
	return g
}

// slotIndex maps the s-th case of a run with the given number of rounds to
// its case index: rounds cases of every kind, group after group.
func slotIndex(s, rounds int) int {
	for _, g := range kindGroups {
		if n := rounds * len(g.Kinds); s >= n {
			s -= n
			continue
		}
		return g.Base + s
	}
	return kindGroups[len(kindGroups)-1].Base + s
}

type question struct {
	Name string
	Type uint16
	DO   bool
	CD   bool
	EDNS bool
}

func (q question) String() string {
	return fmt.Sprintf("%s %s do=%v cd=%v edns=%v", q.Name, dns.TypeToString[q.Type], q.DO, q.CD, q.EDNS)
}

func (q question) msg(id uint16) *dns.Msg {
	m := new(dns.Msg)
	m.SetQuestion(q.Name, q.Type)
	m.Id = id
	m.CheckingDisabled = q.CD
	if q.EDNS {
		m.SetEdns0(1232, q.DO)
	}
	return m
}

func randFlags(rng *rand.Rand, name string, t uint16) question {
	q := question{Name: name, Type: t, EDNS: true, DO: true}
	switch rng.IntN(10) {
	case 0, 1:
		q.DO = false
	case 2:
		q.EDNS, q.DO = false, false
	case 3:
		q.CD = true
	}
	return q
}

var victimQuestions = []struct {
	name string
	t    uint16
}{
	{"www.victim.test.", dns.TypeA},
	{"www.victim.test.", dns.TypeAAAA},
	{zVictim, dns.TypeNS},
	{zVictim, dns.TypeMX},
	{"ns1.victim.test.", dns.TypeA},
	{zVictim, dns.TypeA},
	{zTLD, dns.TypeNS},
}

// deepQuestions are asked in addition in deep worlds: honest names the deep
// zone's server has no say about (partner.test. is reachable only through the
// honest address of ns.sib.b.corp.test.).
var deepQuestions = []struct {
	name string
	t    uint16
}{
	{"www.partner.test.", dns.TypeA},
	{sibNS, dns.TypeA},
	{"www.corp.test.", dns.TypeA},
}

type caseRun struct {
	r       *vlib.Run
	c       *CaseSpec
	w       *world
	st      *authsim.RStack
	rng     *rand.Rand
	id      uint16
	sinkAt  int // packet-log position up to which sink packets were reported
	started int
	asked   int // victim follow-up questions asked so far (every third one enters by the wire)
}

func (cr *caseRun) ask(q question) (*dns.Msg, int) {
	cr.id++
	from := cr.w.u.Log.Len()
	return cr.serveDecoded(q.msg(cr.id)), from
}

// serveDecoded enters through Server.ServeMsg (the decoded entry DoH/DoQ use).
func (cr *caseRun) serveDecoded(m *dns.Msg) *dns.Msg {
	qb, _ := m.Pack()
	t := authsim.NewRecTransport("tcp", clientAddr)
	cr.st.Server.ServeMsg(context.Background(), t, m)
	replies := t.Replies()
	if len(replies) != 1 {
		cr.r.Count("replies_not_exactly_one", 1)
	}
	if len(replies) == 0 || replies[0] == nil {
		return nil
	}
	if len(t.Raws) > 0 && t.Raws[0] != nil && qb != nil {
		cr.contract(qb, t.Raws[0])
	}
	return replies[0]
}

func (cr *caseRun) contract(qb, raw []byte) {
	for _, b := range replycontract.Check("tcp", qb, raw, replycontract.Options{ClientIP: "127.0.0.1"}) {
		if !b.Info {
			cr.r.Count("contract_breaches", 1)
			cr.r.Count("contract_breach/"+b.Rule, 1)
		}
	}
}

// askWire enters through Server.ServeRaw with a strict job (the wire-born
// entry the owned UDP/TCP engines use; TCP flavour, so nothing is truncated).
func (cr *caseRun) askWire(q question) (*dns.Msg, int) {
	cr.id++
	from := cr.w.u.Log.Len()
	qb, err := q.msg(cr.id).Pack()
	if err != nil {
		return nil, from
	}
	host, port, _ := net.SplitHostPort(clientAddr)
	p, _ := strconv.Atoi(port)
	job := server.VerifNewStrictJob(&net.TCPAddr{IP: net.ParseIP(host), Port: p})
	cr.st.Server.ServeRaw(job, qb, time.Now())
	cr.r.Count("wire_entry_queries", 1)
	if job.VerifUsedStrict() {
		cr.r.Count("wire_entry_strict_path_taken", 1)
	}
	if len(job.Writes) != 1 {
		cr.r.Count("replies_not_exactly_one", 1)
	}
	if len(job.Writes) == 0 {
		return nil, from
	}
	raw := job.Writes[0]
	m := new(dns.Msg)
	if err := m.Unpack(raw); err != nil {
		cr.r.Count("wire_entry_unparsable_reply", 1)
		return nil, from
	}
	cr.contract(qb, raw)
	return m, from
}

// pending is a client query running in its own goroutine (the harness holds
// the upstream it waits for at a gate).
type pending struct {
	from int
	done chan struct{}
	msg  *dns.Msg
}

func (cr *caseRun) start(q question) *pending {
	cr.id++
	m := q.msg(cr.id)
	h := &pending{from: cr.w.u.Log.Len(), done: make(chan struct{})}
	go func() {
		defer close(h.done)
		h.msg = cr.serveDecoded(m)
	}()
	return h
}

func (h *pending) finished() bool {
	select {
	case <-h.done:
		return true
	default:
		return false
	}
}

func (h *pending) wait() *dns.Msg { <-h.done; return h.msg }

// sigKind is the kind component of violation signatures.
func (cr *caseRun) sigKind() string {
	if k := cr.c.kind(); k != nil && k.SigVariant {
		return cr.c.Kind + "/" + strings.TrimSuffix(cr.c.Variant, "/qmin")
	}
	return cr.c.Kind
}

func (cr *caseRun) violation(sig, what, phase string, q question, reply *dns.Msg, from int) {
	c := *cr.c
	c.Phase, c.Query = phase, q.String()
	if reply != nil {
		c.Reply = reply.String()
	}
	c.Script = cr.w.sentSummaries()
	for _, p := range cr.w.u.Log.Since(from) {
		if len(c.Upstream) < 60 {
			c.Upstream = append(c.Upstream, p.String())
		}
	}
	for _, p := range cr.w.u.Log.SinkHits(cr.started) {
		if len(c.Sink) < 10 {
			c.Sink = append(c.Sink, p.String())
		}
	}
	cr.r.Violation(sig, what+fmt.Sprintf(" [case %d %s/%s world %s phase %s query %s]", c.Index, c.Kind, c.Variant, c.World, phase, q), c)
}

// markers lists the sections of reply that carry an evil marker.
func markers(reply *dns.Msg) (answer, ns, extra dns.RR) {
	return evilIn(reply.Answer), evilIn(reply.Ns), evilIn(reply.Extra)
}

// judgeTrigger judges a reply to the attack question itself (phase "attack")
// or to the same question asked again after the attacker went quiet.
func (cr *caseRun) judgeTrigger(phase string, q question, reply *dns.Msg, from int) {
	r := cr.r
	r.Eval(1)
	r.Count("trigger_replies_judged/"+phaseClass(phase), 1)
	if reply == nil {
		r.Count("trigger_no_reply", 1)
		return
	}
	a, n, e := markers(reply)
	cls := "attack-reply"
	if phase != "attack" {
		cls = "later-reply"
	}
	switch {
	case a != nil && cr.c.Family == "spoof":
		cr.violation(vlib.Sig("spoof-accepted", cr.sigKind(), cls), "a datagram with the wrong id/question (evil-marked) was accepted as the reply: "+a.String(), phase, q, reply, from)
	case a != nil && reply.AuthenticatedData:
		// kept apart from the unauthenticated relay so that a known-finding
		// entry for the latter can never hide attacker data served with AD=1
		cr.violation(vlib.Sig("evil-in-authenticated-answer", cr.sigKind(), cls), "an out-of-zone record sent by the server of "+zEvil+" is in the client's answer section of a reply with AD=1: "+a.String(), phase, q, reply, from)
	case a != nil:
		cr.violation(vlib.Sig("evil-in-answer", cr.sigKind(), cls), "an out-of-zone record sent by the server of "+zEvil+" is in the client's answer section: "+a.String(), phase, q, reply, from)
	case (n != nil || e != nil) && len(reply.Answer) > 0:
		rr := n
		if rr == nil {
			rr = e
		}
		cr.violation(vlib.Sig("evil-in-aux-of-positive", cr.sigKind(), cls), "authority/additional data of the attacker survived in a positive answer: "+rr.String(), phase, q, reply, from)
	case n != nil || e != nil:
		// negative / empty replies: the attacker's own authority section for
		// his own name is not "the answer" — observed, not judged
		r.Count("evil_marker_in_aux_of_negative_trigger_reply", 1)
	default:
		r.Count("trigger_replies_clean/"+phaseClass(phase), 1)
	}
	if cr.c.Family == "answer" && phase == "attack" {
		// where the foreign answer records went, per DNSSEC mode and CD (evidence
		// for FINDINGS.md #1; no verdict)
		out := "dropped"
		switch {
		case a != nil:
			out = "relayed"
		case reply.Rcode == dns.RcodeServerFailure:
			out = "servfail"
		}
		r.Count(fmt.Sprintf("foreign_answer_records/%s/cd=%v/%s", cr.c.World.Mode, q.CD, out), 1)
	}
	switch reply.Rcode {
	case dns.RcodeServerFailure:
		r.Count("trigger_rcode/"+phaseClass(phase)+"/servfail", 1)
	case dns.RcodeSuccess:
		if len(reply.Answer) > 0 {
			r.Count("trigger_rcode/"+phaseClass(phase)+"/answer", 1)
		} else {
			r.Count("trigger_rcode/"+phaseClass(phase)+"/nodata", 1)
		}
	default:
		r.Count("trigger_rcode/"+phaseClass(phase)+"/"+strings.ToLower(dns.RcodeToString[reply.Rcode]), 1)
	}
}

func phaseClass(phase string) string {
	switch {
	case phase == "attack":
		return "attack"
	case phase == "warm":
		return "warm"
	case strings.HasPrefix(phase, "after-attack"):
		return "now"
	default:
		return "later"
	}
}

// judgeVictim: a reply for a victim name must be the honest zones' Truth or
// SERVFAIL, and must carry no evil marker anywhere.
func (cr *caseRun) judgeVictim(phase string, q question, reply *dns.Msg, from int) {
	r := cr.r
	r.Eval(1)
	pc := phaseClass(phase)
	r.Count("victim_replies_judged/"+pc, 1)
	if reply == nil {
		r.Count("victim_no_reply", 1)
		return
	}
	tname := dns.TypeToString[q.Type]
	a, n, e := markers(reply)
	if a != nil || n != nil || e != nil {
		rr := a
		sec := "answer"
		if rr == nil {
			rr, sec = n, "authority"
		}
		if rr == nil {
			rr, sec = e, "additional"
		}
		cr.violation(vlib.Sig("victim-poisoned", cr.sigKind(), sec), "a reply for victim name "+q.Name+" "+tname+" carries attacker data: "+rr.String(), phase, q, reply, from)
		return
	}
	if reply.Rcode == dns.RcodeServerFailure {
		r.Count("victim_servfail/"+pc, 1)
		return
	}
	want := cr.w.u.NS.Resolve(q.Name, q.Type)
	if reply.Rcode == want.Rcode {
		if diff := zm.AnswerMatches(reply.Answer, want.Answer); diff == "" {
			r.Count("victim_truth/"+pc, 1)
			r.Count("victim_truth_type/"+tname, 1)
			return
		} else if debug {
			fmt.Fprintf(os.Stderr, "  victim diff: %s\n", diff)
		}
	}
	cr.violation(vlib.Sig("victim-not-truth", cr.sigKind(), tname), "a reply for victim name "+q.Name+" "+tname+" is neither the honest zone's truth nor SERVFAIL (rcode "+dns.RcodeToString[reply.Rcode]+")", phase, q, reply, from)
}

func (cr *caseRun) victimRound(phase string) {
	qs := victimQuestions
	if cr.c.World.Deep {
		qs = append(append(qs[:0:0], qs...), deepQuestions...)
	}
	for _, vq := range qs {
		q := randFlags(cr.rng, vq.name, vq.t)
		// a third of the follow-ups enter by the wire (strict-job) entry, the
		// rest by the decoded entry; the offset varies with the case
		var reply *dns.Msg
		var from int
		via := "decoded"
		if (cr.asked+cr.c.Index)%3 == 0 {
			via = "wire"
			reply, from = cr.askWire(q)
		} else {
			reply, from = cr.ask(q)
		}
		cr.asked++
		cr.r.Count("victim_replies_judged_via/"+via, 1)
		cr.judgeVictim(phase, q, reply, from)
		cr.dbg(phase+"/"+via, q, reply, from)
	}
	cr.sinkCheck(phase)
}

func (cr *caseRun) triggerRound(phase string) (question, *dns.Msg) {
	name, t := cr.c.trigger()
	q := randFlags(cr.rng, name, t)
	reply, from := cr.ask(q)
	cr.judgeTrigger(phase, q, reply, from)
	cr.dbg(phase, q, reply, from)
	if k := cr.c.kind(); k != nil && k.Repeat != nil && phase != "attack" {
		// the kind's own later questions (the rungs of its ladder asked again,
		// the questions its forged messages were about): whatever shows up now
		// comes from state
		for _, fq := range k.Repeat(cr) {
			fq = randFlags(cr.rng, fq.Name, fq.Type)
			freply, ffrom := cr.ask(fq)
			cr.r.Count("ladder_followups_judged/"+phaseClass(phase), 1)
			cr.judgeTrigger(phase, fq, freply, ffrom)
			cr.dbg(phase+"/followup", fq, freply, ffrom)
		}
	}
	cr.sinkCheck(phase)
	return q, reply
}

func (cr *caseRun) dbg(phase string, q question, reply *dns.Msg, from int) {
	if !debug {
		return
	}
	s := "<nil>"
	if reply != nil {
		var rrs []string
		for _, rr := range reply.Answer {
			rrs = append(rrs, strings.ReplaceAll(rr.String(), "\t", " "))
		}
		s = fmt.Sprintf("%s an=%d ns=%d ar=%d ad=%v %v", dns.RcodeToString[reply.Rcode], len(reply.Answer), len(reply.Ns), len(reply.Extra), reply.AuthenticatedData, rrs)
	}
	fmt.Fprintf(os.Stderr, "C%d %s/%s [%s] %-14s %s -> %s\n", cr.c.Index, cr.c.Kind, cr.c.Variant, cr.c.World, phase, q, s)
	if os.Getenv("C07_DEBUG") == "2" {
		for _, p := range cr.w.u.Log.Since(from) {
			fmt.Fprintf(os.Stderr, "      %s\n", p.String())
		}
	}
}

// sinkCheck: the sink must never receive a packet.
func (cr *caseRun) sinkCheck(phase string) {
	hits := cr.w.u.Log.SinkHits(cr.sinkAt)
	cr.sinkAt = cr.w.u.Log.Len()
	cr.r.Count("sink_checks", 1)
	if len(hits) == 0 {
		return
	}
	cr.r.Count("sink_packets", len(hits))
	p := hits[0]
	cr.violation(vlib.Sig("sink-contacted", cr.sigKind()), fmt.Sprintf("the SINK (an address only the attacker advertised, or an unusable loopback/local address) received %d packet(s), first: %s", len(hits), p.String()),
		phase, question{Name: p.QNameL, Type: p.QType}, nil, p.Seq)
}

// delivered counts the attack responses the evil servers actually sent
// (packet log: the case's action label was applied and the write happened).
// The server records the outcome after the write, i.e. possibly after the
// resolver already acted on the datagram, so pending outcomes are awaited.
func (cr *caseRun) delivered(from int) int {
	deadline := time.Now().Add(10 * time.Second)
	for {
		n, pending := 0, 0
		for _, p := range cr.w.u.Log.Since(from) {
			if p.Action != cr.c.Label {
				continue
			}
			switch {
			case strings.Contains(p.Outcome, "answered") || strings.Contains(p.Outcome, "pre"):
				n++
			case p.Outcome == "":
				pending++
			}
		}
		if pending == 0 || time.Now().After(deadline) {
			return n
		}
		time.Sleep(time.Millisecond)
	}
}

func (cr *caseRun) advance(d time.Duration) bool {
	if !cr.st.Quiesce(quiesceTimeout) {
		cr.r.Count("quiesce_timeouts", 1)
		cr.r.Inconclusive(fmt.Sprintf("case %d: pipeline did not quiesce within %s", cr.c.Index, quiesceTimeout))
		return false
	}
	cr.sinkCheck("quiesce")
	cr.st.Advance(d)
	cr.r.Count("virtual_time_advances", 1)
	return true
}

func runCase(r *vlib.Run, c *CaseSpec) {
	k := c.kind()
	if k == nil {
		r.Inconclusive("unknown attack kind " + c.Kind)
		return
	}
	w := buildWorld(c.World)
	defer w.u.Close()
	st, err := w.newStack()
	if err != nil {
		r.Inconclusive("stack: " + err.Error())
		return
	}
	defer st.Close()
	cr := &caseRun{r: r, c: c, w: w, st: st, rng: r.RandN("flags", c.Index)}
	cr.started = w.u.Log.Len()
	r.Count("cases_run", 1)
	r.Count("mode/"+c.World.Mode, 1)

	if c.World.Warm {
		cr.victimRound("warm")
	}
	var sample map[string]any

	// ---- the attack ---------------------------------------------------------
	k.Install(w, c)
	from := w.u.Log.Len()
	var attackQ question
	var attackReply *dns.Msg
	if k.Attack != nil {
		attackQ, attackReply = k.Attack(cr)
	} else {
		attackQ, attackReply = cr.triggerRound("attack")
	}
	delivered := cr.delivered(from)
	r.Count("evil_server_packets", w.u.Log.Count(from, "evil1", "", 0)+w.u.Log.Count(from, "evil2", "", 0))
	if delivered == 0 {
		r.Count("attack_not_delivered", 1)
		r.Count("attack_not_delivered/"+c.Kind, 1)
	} else {
		r.Count("attacks_delivered", 1)
		r.Count("attack_responses_delivered", delivered)
		r.Count("delivered/"+c.Kind, 1)
		r.Count("delivered_family/"+c.Family, 1)
		if c.Kind == "glue-local-interface" && c.Note == "" {
			// glue / resolved NS addresses that really are this host's own
			r.Count("local_interface_glue_cases", 1)
			r.Count("local_interface_addresses_advertised", strings.Count(c.Addr, ",")+1)
		}
		r.Distinct(c.Kind + "|" + c.Variant + "|" + c.World.Mode + "|" + c.Target + "|" + strconv.Itoa(c.World.QMin))
		r.DistinctIn("kind_variant", c.Kind+"|"+c.Variant)
		if (samplePref == "" || samplePref == c.Kind) && sampled.CompareAndSwap(false, true) {
			// one real case per process (the parent keeps the first six): the
			// attack script as executed, the client question and what came back
			var up []string
			for _, p := range w.u.Log.Since(from) {
				if len(up) < 12 {
					up = append(up, fmt.Sprintf("%s/%s %s %s action=%s %s", p.Server, p.Transport, p.QNameL, dns.TypeToString[p.QType], p.Action, p.Outcome))
				}
			}
			sample = map[string]any{
				"index": c.Index, "kind": c.Kind, "variant": c.Variant, "world": c.World.String(), "glue_target": c.Target,
				"attack_script":                  c.Label,
				"evil_messages_built":            w.sentSummaries(),
				"attack_responses_delivered":     delivered,
				"client_query":                   attackQ.String(),
				"client_reply":                   summarize(attackReply),
				"upstream_packets_during_attack": up,
				"sink_packets":                   len(w.u.Log.SinkHits(cr.started)),
			}
			if len(w.ladder) > 0 {
				// ladder kinds: every rung (question, adversarial message) and the
				// client's reply to it
				var rungs []string
				for _, g := range w.ladder {
					rungs = append(rungs, g.String()+" -> "+summarize(g.reply))
				}
				sample["ladder_rungs"] = rungs
			}
		}
	}

	// ---- the attacker goes quiet: whatever shows up now comes from state -----
	w.clearScripts()
	_, repeatReply := cr.triggerRound("after-attack/repeat")
	truthBefore := r.Counter("victim_truth/now")
	cr.victimRound("after-attack")
	if sample != nil {
		sample["repeat_reply_after_attacker_went_quiet"] = summarize(repeatReply)
		sample["victim_replies_equal_to_truth_after_attack"] = fmt.Sprintf("%d of %d", r.Counter("victim_truth/now")-truthBefore, len(victimQuestions))
		r.Sample(sample)
	}

	// ---- later: answers expired, delegations still leased ---------------------
	if cr.advance(70 * time.Second) {
		cr.triggerRound("after-70s/repeat")
		cr.victimRound("after-70s")
	}
	// ---- much later: every lease of the honest hierarchy ran out --------------
	if cr.advance(2 * time.Hour) {
		cr.victimRound("after-2h")
		cr.triggerRound("after-2h/repeat")
	}
	if st.Quiesce(quiesceTimeout) {
		cr.sinkCheck("final")
	}
	if n := len(w.u.Log.SinkHits(cr.started)); n == 0 {
		r.Count("cases_with_silent_sink", 1)
	}
}

const rule = "distinct_nontrivial = distinct (attack kind, variant, DNSSEC mode, glue target, qname-min level) tuples whose attack response was actually sent to the resolver by the evil server (packet log); evaluations = client-visible replies judged (attack, repeated attack question, victim questions before/after virtual-time advances)"

func main() {
	r := vlib.Start("C07", "exploration")
	r.Assume("authority map: root/test./victim.test. (deep worlds: also corp.test./partner.test.) servers are honest and never tampered with; only the server(s) of evil.test. (deep worlds: also of a.b.corp.test., delegated to them by corp.test.) misbehave (kind spoof-question-relative additionally sends forged right-id/wrong-question messages AHEAD of the unchanged honest replies of the root and test. servers to a question for their apex — the off-path spoofer of the statement); every record they emit for a name outside their zones and every wrong-id/wrong-question datagram carries an evil marker")
	r.Assume("gates only delay a reply at a server's socket (the attacker's own NS-address answer; in deep-cached-jump the honest corp.test. server's honest referral) until the harness has run a second client query; no verdict depends on how long that takes")
	r.Assume("virtual time = RStack.Advance (cache entries + delegation cache shifted together at a quiescent point); the resolver's glue address caches are not aged")
	r.Assume("loopback:53 and local-interface addresses are remapped to the sink by the harness dial hook so that contacting them is observable")

	if raw := r.ReplayCase(); raw != nil {
		var c CaseSpec
		if err := json.Unmarshal(raw, &c); err != nil {
			r.Fatalf("replay: %v", err)
		}
		if c.Seed != 0 {
			r.Seed = c.Seed
		}
		rc := &c
		if c.kind() == nil {
			// bare {seed, index}: regenerate the case
			rc = genCase(r, c.Index)
		} else {
			// the recorded specification is the case (robust against later
			// changes of the generator); drop what was merely observed
			known := false
			for _, v := range c.kind().Variants {
				known = known || v == c.Variant
			}
			if !known {
				r.Fatalf("replay: kind %s has no variant %q", c.Kind, c.Variant)
			}
			c.Family = c.kind().Family
			c.Label = "attack:" + c.Kind + "/" + c.Variant
			if c.Target != "sink" {
				c.Target = "evil"
			}
			c.kind().shapeWorld(c.Variant, &c.World)
			c.V6 = c.World.IPv6
			c.Phase, c.Query, c.Reply, c.Upstream, c.Sink, c.Script, c.Note, c.Addr = "", "", "", nil, nil, nil, "", ""
		}
		runCase(r, rc)
		r.Require("cases_run", 1)
		r.Require("trigger_replies_judged/attack", 1)
		r.Finish(rule)
		return
	}

	rounds := r.N(6, 180)
	if v, err := strconv.Atoi(os.Getenv("C07_ROUNDS")); err == nil && v > 0 {
		rounds = v
	}
	nCases := rounds * len(kinds)

	if b := os.Getenv("C07_BATCH"); b != "" {
		var lo, hi, step int
		fmt.Sscanf(b, "%d:%d:%d", &lo, &hi, &step)
		switch lo % 4 {
		case 2:
			samplePref = "answer-rcode-ladder"
		case 3:
			samplePref = "spoof-question-relative"
		}
		for i := lo; i < hi; i += step {
			runCase(r, genCase(r, slotIndex(i, rounds)))
		}
		r.Finish(rule)
		return
	}
	if one := os.Getenv("C07_CASE"); one != "" {
		i, _ := strconv.Atoi(one)
		runCase(r, genCase(r, i))
		r.Finish(rule)
		return
	}

	// parent: interleaved batches in parallel child processes (one live
	// pipeline per process)
	workers := 8
	if v, err := strconv.Atoi(os.Getenv("C07_WORKERS")); err == nil && v > 0 {
		workers = v
	}
	nBatches := workers
	if !r.Quick() {
		nBatches = workers * 6
	}
	sem := make(chan struct{}, workers)
	var wg sync.WaitGroup
	for b := 0; b < nBatches; b++ {
		wg.Add(1)
		sem <- struct{}{}
		go func(b int) {
			defer wg.Done()
			defer func() { <-sem }()
			res := r.Child(fmt.Sprintf("batch-%d", b), nil, vlib.BinPath("c07", ""), nil,
				[]string{fmt.Sprintf("C07_BATCH=%d:%d:%d", b, nCases, nBatches)}, 40*time.Minute)
			if !res.HasState {
				r.Inconclusive(fmt.Sprintf("batch %d ended without state (exit %d, timed out %v, log %s)", b, res.ExitCode, res.TimedOut, res.Output))
			}
		}(b)
	}
	wg.Wait()

	r.Require("cases_run", int64(nCases))
	r.Require("attacks_delivered", int64(nCases*8/10))
	for _, k := range kinds {
		r.Require("delivered/"+k.Name, int64(rounds/2))
	}
	r.Require("trigger_replies_judged/attack", int64(nCases))
	r.Require("trigger_replies_judged/now", int64(nCases))
	r.Require("trigger_replies_judged/later", int64(nCases))
	r.Require("victim_replies_judged/now", int64(nCases*len(victimQuestions)))
	r.Require("victim_replies_judged/later", int64(nCases*len(victimQuestions)))
	r.Require("victim_truth/now", int64(nCases*len(victimQuestions)/2))
	r.Require("victim_truth/later", int64(nCases*len(victimQuestions)*9/10))
	r.Require("virtual_time_advances", int64(nCases*2*9/10))
	r.Require("cases_with_silent_sink", 1)
	r.Require("sink_checks", int64(nCases*5))
	for _, f := range []string{"spoof", "answer", "authority", "referral", "glue"} {
		r.Require("delivered_family/"+f, int64(rounds))
	}
	// a third of the victim follow-ups by the wire entry, on the strict path
	// (at least three victim rounds per case)
	r.Require("victim_replies_judged_via/wire", int64(nCases*len(victimQuestions)*9/10))
	r.Require("victim_replies_judged_via/decoded", int64(nCases*len(victimQuestions)*2*9/10))
	r.Require("wire_entry_strict_path_taken", int64(nCases*len(victimQuestions)))
	// provisional-delegation window (glue-partial-provisional)
	r.Require("provisional_windows_opened", int64(rounds/2))
	r.Require("provisional_window_client_answers_with_foreign_tail", int64(rounds/2))
	r.Require("ns_address_subquery_answers_with_foreign_tail", int64(rounds/2))
	// deep cached delegation
	r.Require("deep_delegation_warmed", int64(rounds))
	r.Require("deep_resolutions_started_at_cached_cut", int64(rounds/2))
	r.Require("deep_jumps_to_cached_delegation", int64(rounds/2))
	r.Require("deep_jumps_of_two_labels", int64(rounds/3))
	// spoof bursts: every length band on both transports; wrong-id bursts of every
	// band that the resolver read past to serve the real reply queued behind
	// them; bursts that nothing followed
	for _, b := range burstBands {
		r.Require("spoof_burst_skipped_then_real_reply_served/"+bandName(b[0]), int64(rounds/6))
		r.Require("spoof_burst_rungs_by_length/udp/"+bandName(b[0]), int64(rounds/2))
		r.Require("spoof_burst_rungs_by_length/tcp/"+bandName(b[0]), int64(rounds/3))
	}
	r.Require("spoof_burst_rungs/udp/id/silent", int64(rounds/3))
	r.Require("spoof_burst_rungs/udp/mixed/silent", int64(rounds/3))
	r.Require("spoof_burst_rungs/udp/mixed/real", int64(rounds/3))
	r.Require("spoof_burst_rungs/udp/question/real", int64(rounds/3))
	r.Require("spoof_burst_rungs/tcp/id/real", int64(rounds/3))
	r.Require("spoof_burst_rungs/tcp/id/silent", int64(rounds/3))
	// answer sections with an out-of-zone part under every rcode (NOERROR and seven
	// failure rcodes), every shape; the later questions of the ladders
	for _, rc := range ladderRcodes {
		r.Require("answer_rcode_rungs/"+rcodeName(rc), int64(rounds/2))
	}
	r.Require("answer_failure_rcode_rungs", int64(rounds*(len(ladderRcodes)-1)/2))
	for _, k := range kinds {
		if k.Name == "answer-rcode-ladder" {
			for _, v := range k.Variants {
				r.Require("answer_rcode_rungs_by_shape/"+v, int64((rounds+len(k.Variants)-1)/len(k.Variants)))
			}
		}
	}
	r.Require("answer_rcode_nsaddr_rungs", int64(rounds))
	r.Require("answer_rcode_nsaddr_rungs/nxdomain", int64(rounds/3))
	r.Require("answer_rcode_nsaddr_rungs/servfail", int64(rounds/3))
	// right-id messages whose question is a relative of the asked one: every
	// relation, ahead of the attacker's and of honest apex servers' replies, on
	// both transports
	for _, sh := range relativeShapes {
		r.Require("spoof_relative_rungs/"+sh, int64(rounds/2))
	}
	r.Require("spoof_relative_rungs/asked-root/victim", int64(rounds/2))
	r.Require("spoof_relative_rungs/asked-tld/victim-apex", int64(rounds/2))
	r.Require("spoof_relative_rungs_via/root", int64(rounds/2))
	r.Require("spoof_relative_rungs_via/tld", int64(rounds/2))
	r.Require("spoof_relative_rungs_by_transport/udp", int64(rounds/3*len(relativeShapes)))
	r.Require("spoof_relative_rungs_by_transport/tcp", int64(rounds/3*len(relativeShapes)))
	r.Require("ladder_followups_judged/now", int64(rounds*(len(ladderRcodes)+len(relativeShapes))))
	r.Require("ladder_followups_judged/later", int64(rounds*(len(ladderRcodes)+len(relativeShapes))))
	// this host's own interface addresses as glue / resolved NS addresses
	if len(allLocalInterfaceAddrs()) > 0 {
		r.Require("local_interface_glue_cases", 1)
	} else {
		r.Assume("this host has no non-loopback interface address: the local-interface glue cases fell back to loopback addresses (local_interface_glue_cases = 0)")
	}
	r.Finish(rule)
}
