package main

// Spoof BURSTS: 1…64 bogus messages ahead of the real reply — or instead of
// it — on the resolver's UDP socket (kind spoof-burst) and as TCP frames
// (kind spoof-burst-tcp). Every bogus message carries an evil-marked answer:
//
//	id     wrong transaction id, RIGHT question
//	q      right id, wrong question (rotating through the wrong-question shapes)
//	both   wrong id and wrong question
//
// The verdict is the spoof family's: no evil marker in any client-visible
// reply, now or later. A case asks a LADDER of questions, each with its own
// burst; the lengths are drawn from the geometric bands 1 | 2-3 | 4-7 | 8-15 |
// 16-31 | 32-64, so every case holds short, medium and long bursts whatever
// the seed. In the "/real" variants the attacker's honest reply follows the
// burst (a client reply equal to the zone's truth proves that the resolver
// read past the whole burst); in the "/silent" variants nothing follows.

import (
	"fmt"
	"math/rand/v2"
	"strings"
	"sync"
	"sync/atomic"
	"time"

	"github.com/miekg/dns"
	"github.com/semihalev/sdns/zzverif/authsim"
	zm "github.com/semihalev/sdns/zzverif/zonemodel"
)

var burstBands = [][2]int{{1, 1}, {2, 3}, {4, 7}, {8, 15}, {16, 31}, {32, 64}}

func bandName(n int) string {
	for _, b := range burstBands {
		if n >= b[0] && n <= b[1] {
			if b[0] == b[1] {
				return fmt.Sprint(b[0])
			}
			return fmt.Sprintf("%d-%d", b[0], b[1])
		}
	}
	return "other"
}

// burstQ is one rung of a case's ladder.
type burstQ struct {
	Name  string
	Type  uint16
	Elems []string // id | q | both
}

func (b burstQ) String() string {
	n := map[string]int{}
	for _, e := range b.Elems {
		n[e]++
	}
	return fmt.Sprintf("%s %s x%d(id=%d q=%d both=%d)", b.Name, dns.TypeToString[b.Type], len(b.Elems), n["id"], n["q"], n["both"])
}

// In-zone names of evil.test. whose honest data is a positive answer:
// r<i>.evil.test. A/AAAA/TXT/MX and ok<i>.evil.test. A (addBurstData). Positive
// data always has to be fetched; a name that does not exist is, in a signed
// zone, denied from the cached NSEC chain after the first such answer
// (RFC 8198) and would never reach the wire again.
const burstPool = 12

var burstTypes = []uint16{dns.TypeA, dns.TypeAAAA, dns.TypeTXT, dns.TypeMX}

func addBurstData(z *zm.Zone) {
	for i := 0; i < burstPool; i++ {
		for _, t := range burstTypes {
			z.AddMarked(fmt.Sprintf("r%d.evil.test.", i), t, 60)
		}
		z.AddMarked(fmt.Sprintf("ok%d.evil.test.", i), dns.TypeA, 60)
	}
}

func burstParts(variant string) (comp string, silent bool) {
	comp, tail, _ := strings.Cut(variant, "/")
	return comp, tail == "silent"
}

// burstLadder is a pure function of (seed, case index, variant).
func burstLadder(rng *rand.Rand, index int, variant string, perBand int, signed bool) []burstQ {
	comp, _ := burstParts(variant)
	var out []burstQ
	perm := rng.Perm(burstPool * len(burstTypes))
	for bi, band := range burstBands {
		for k := 0; k < perBand; k++ {
			n := band[0] + rng.IntN(band[1]-band[0]+1)
			b := burstQ{}
			slot := bi*perBand + k
			if slot%3 == 0 || signed {
				// existing data: the forged answer competes with a real positive one
				e := perm[slot]
				b.Name, b.Type = fmt.Sprintf("r%d.evil.test.", e/len(burstTypes)), burstTypes[e%len(burstTypes)]
			} else {
				// a name that does not exist: the forged answer competes with a denial
				b.Name = fmt.Sprintf("b%d-%d.evil.test.", index&0xffff, slot)
				b.Type = burstTypes[rng.IntN(len(burstTypes))]
			}
			for i := 0; i < n; i++ {
				e := "id"
				switch comp {
				case "question":
					e = "q"
				case "mixed":
					switch x := rng.IntN(20); {
					case x < 2:
						e = "q"
					case x < 7:
						e = "both"
					}
				}
				b.Elems = append(b.Elems, e)
			}
			out = append(out, b)
		}
	}
	return out
}

var wrongQShapes = []string{"qname-victim", "qname-sibling", "qtype", "qclass", "none", "two"}

// wrongID is the i-th bogus transaction id for a query with id qid: never qid.
func wrongID(i int, salt uint16, qid uint16) uint16 {
	var id uint16
	switch (i + int(salt)) % 8 {
	case 0:
		id = qid + 1
	case 1:
		id = qid - 1
	case 2:
		id = qid ^ 0x8000
	case 3:
		id = qid<<8 | qid>>8
	case 4:
		id = ^qid
	case 5:
		id = 0
	case 6:
		id = qid ^ 0x0100
	default:
		id = qid + uint16(i)*2654 + salt
	}
	if id == qid {
		id = qid + 1
	}
	return id
}

// installBurst scripts one rule per rung and per evil server (the position
// inside a burst is per-server state, so that replays are exact).
func installBurst(w *world, c *CaseSpec, tcp bool) {
	comp, silent := burstParts(c.Variant)
	perBand := 2
	if silent || tcp {
		perBand = 1
	}
	rng := rand.New(rand.NewPCG(c.Seed, uint64(c.Index)*7919+17))
	w.bursts = burstLadder(rng, c.Index, c.Variant, perBand, c.World.Mode == "signed")
	for ri, b := range w.bursts {
		b := b
		salt := uint16(ri*3 + c.Index)
		for _, s := range w.evils {
			// position inside the burst, per query id: concurrent attempts (two
			// addresses of one server raced by the resolver) each get their own
			var pos sync.Map
			a := authsim.Action{Label: c.Label, PreOnly: silent, PreTCP: tcp}
			for _, e := range b.Elems {
				if e == "q" {
					a.Pre = append(a.Pre, authsim.PreWrongQEvil)
				} else {
					a.Pre = append(a.Pre, authsim.PreWrongIDEvil)
				}
			}
			a.PreID = func(i int, qid uint16) uint16 { return wrongID(i, salt, qid) }
			a.PreTamper = func(q, m *dns.Msg) *dns.Msg {
				ctr, _ := pos.LoadOrStore(q.Id, new(atomic.Int64))
				i := int(ctr.(*atomic.Int64).Add(1) - 1)
				e := b.Elems[i%len(b.Elems)]
				// authsim keeps the query's id on its wrong-question kind (it hands
				// over the honest answer to "wrong-question.<qname>"): such a
				// message must never carry the right question, whatever e says
				rightID := len(m.Question) != 1 || !strings.EqualFold(m.Question[0].Name, q.Question[0].Name)
				if e == "id" && !rightID {
					out := replyTo(q, true)
					out.Answer = []dns.RR{w.evilRR(q.Question[0].Name, q.Question[0].Qtype)}
					if comp == "id+poison" {
						out.Extra = w.poison(c.V6)
					}
					keepOPT(q, out)
					return out
				}
				return wrongQuestionReply(w, wrongQShapes[(i+int(salt))%len(wrongQShapes)], q)
			}
			a = w.recording(a)
			// Only QUERIES set a burst off. A bogus message that arrives after the
			// resolver closed its socket can land on a port that meanwhile belongs
			// to another scripted server (of this or a concurrent harness process),
			// whose answer to it comes back here as a QR=1 message: answering that
			// with another burst would be a self-sustaining storm.
			isQuery := func(p *authsim.Packet) bool { return p.Msg() != nil && !p.Msg().Response }
			if tcp {
				s.AddRule(authsim.Rule{Name: b.Name, Type: b.Type, Transport: "udp", Match: isQuery,
					Action: authsim.Action{Label: c.Label + ":tc", Truncate: true, TCP: authsim.TCPAnswer}})
				s.AddRule(authsim.Rule{Name: b.Name, Type: b.Type, Transport: "tcp", Match: isQuery, Action: a})
			} else {
				s.AddRule(authsim.Rule{Name: b.Name, Type: b.Type, Transport: "udp", Match: isQuery, Action: a})
			}
		}
	}
}

// attackBurst asks the ladder. Rungs followed by the real reply are asked one
// after the other; silent rungs (each costs the resolver its timeouts) are
// asked concurrently.
func attackBurst(cr *caseRun) (question, *dns.Msg) {
	comp, silent := burstParts(cr.c.Variant)
	tcp := cr.c.Kind == "spoof-burst-tcp"
	tr := "udp"
	if tcp {
		tr = "tcp"
	}
	type asked struct {
		b     burstQ
		q     question
		reply *dns.Msg
		from  int
		h     *pending
	}
	var rungs []*asked
	for _, b := range cr.w.bursts {
		a := &asked{b: b, q: randFlags(cr.rng, b.Name, b.Type)}
		if silent && !tcp {
			a.h = cr.start(a.q)
			a.from = a.h.from
		} else {
			a.reply, a.from = cr.ask(a.q)
			if a.reply == nil || a.reply.Rcode == dns.RcodeServerFailure {
				cr.burstRecover(len(rungs))
			}
		}
		rungs = append(rungs, a)
	}
	for _, a := range rungs {
		if a.h != nil {
			a.reply = a.h.wait()
		}
	}
	for _, a := range rungs {
		cr.judgeTrigger("attack", a.q, a.reply, a.from)
		cr.dbg("attack/burst "+a.b.String(), a.q, a.reply, a.from)
	}
	// what was actually put on the wire (packet log), per rung. A server may
	// still be writing the tail of a burst whose head already ended the
	// exchange: wait for the terminal outcome of every scripted packet (the
	// bound only keeps a wedged run from hanging; it decides no verdict).
	terminal := func(o string) bool {
		return strings.Contains(o, "answered") || strings.Contains(o, "pre-only") || strings.Contains(o, "error") || strings.Contains(o, "dropped")
	}
	waitUntil(func() bool {
		for _, p := range cr.w.u.Log.Since(cr.started) {
			if p.Action == cr.c.Label && p.Transport == tr && !terminal(p.Outcome) {
				return false
			}
		}
		return true
	})
	sentFor := map[string]int{}
	for _, p := range cr.w.u.Log.Since(cr.started) {
		if m := p.Msg(); m != nil && m.Response {
			cr.r.Count("stray_response_messages_received_by_scripted_servers", 1)
		}
		if p.Action != cr.c.Label || p.Transport != tr {
			continue
		}
		n := 0
		for _, o := range strings.Split(p.Outcome, ",") {
			if o == "pre" {
				n++
			}
		}
		cr.r.Count("spoof_burst_bogus_messages_sent/"+tr, n)
		if n > sentFor[p.QNameL+"/"+dns.TypeToString[p.QType]] {
			sentFor[p.QNameL+"/"+dns.TypeToString[p.QType]] = n
		}
	}
	for _, a := range rungs {
		n := sentFor[zm.Canon(a.b.Name)+"/"+dns.TypeToString[a.b.Type]]
		if n == 0 {
			cr.r.Count("spoof_burst_rung_not_delivered", 1)
			continue
		}
		band := bandName(n)
		tail := "real"
		if silent {
			tail = "silent"
		}
		cr.r.Count("spoof_burst_rungs/"+tr+"/"+comp+"/"+tail, 1)
		cr.r.Count("spoof_burst_rungs_by_length/"+tr+"/"+band, 1)
		cr.r.Max("spoof_burst_length_max/"+tr, int64(n))
		cr.r.DistinctIn("spoof_burst_length/"+tr, fmt.Sprint(n))
		if a.reply == nil {
			continue
		}
		want := cr.w.u.NS.Resolve(a.b.Name, a.b.Type)
		switch {
		case a.reply.Rcode == dns.RcodeServerFailure:
			cr.r.Count("spoof_burst_client_reply/"+tr+"/"+tail+"/servfail", 1)
		case a.reply.Rcode == want.Rcode && zm.AnswerMatches(a.reply.Answer, want.Answer) == "":
			cr.r.Count("spoof_burst_client_reply/"+tr+"/"+tail+"/zone-truth", 1)
			if !silent && !tcp && comp != "question" && comp != "mixed" {
				// the resolver skipped n wrong-id messages and took the real
				// reply queued behind them
				cr.r.Count("spoof_burst_skipped_then_real_reply_served/"+band, 1)
			}
		default:
			cr.r.Count("spoof_burst_client_reply/"+tr+"/"+tail+"/other", 1)
		}
	}
	cr.sinkCheck("attack")
	if len(rungs) == 0 {
		return question{}, nil
	}
	last := rungs[len(rungs)-1]
	return last.q, last.reply
}

// burstRecover: a rung that made every attempt fail leaves a cached zone
// failure (RFC 9520, a few virtual seconds) and a failure streak in the
// resolver's per-address circuit breaker (real clock: five consecutive failures
// disable the address for 30 s). Step the virtual clock past the former and let
// an honest, uncached question of the attacker's zone succeed, which resets the
// latter — otherwise the next rung would never reach the wire.
func (cr *caseRun) burstRecover(slot int) {
	if !cr.advance(7 * time.Second) {
		return
	}
	q := question{Name: fmt.Sprintf("ok%d.evil.test.", slot%burstPool), Type: dns.TypeA, EDNS: true, DO: true}
	reply, from := cr.ask(q)
	cr.dbg("attack/burst-recover", q, reply, from)
	if reply != nil && reply.Rcode == dns.RcodeSuccess && len(reply.Answer) > 0 && cr.w.u.Log.Count(from, "", q.Name, dns.TypeA) > 0 {
		cr.r.Count("spoof_burst_recoveries", 1)
	} else {
		cr.r.Count("spoof_burst_recovery_failed", 1)
	}
}

func burstKinds() []*attackKind {
	return []*attackKind{
		{
			Name: "spoof-burst", Family: "spoof",
			Variants: []string{"id/real", "mixed/real", "id/silent", "id+poison/real", "question/real", "mixed/silent"},
			Trigger:  q("www.evil.test.", dns.TypeA),
			Install:  func(w *world, c *CaseSpec) { installBurst(w, c, false) },
			Attack:   attackBurst,
		},
		{
			Name: "spoof-burst-tcp", Family: "spoof",
			Variants: []string{"id/real", "mixed/real", "id/silent"},
			Trigger:  q("www.evil.test.", dns.TypeA),
			Install:  func(w *world, c *CaseSpec) { installBurst(w, c, true) },
			Attack:   attackBurst,
		},
	}
}
