package main

import (
	"sync/atomic"

	"github.com/miekg/dns"
	"github.com/semihalev/sdns/zzverif/authsim"
	zm "github.com/semihalev/sdns/zzverif/zonemodel"
)

// attackKind is one family of malicious behaviour of the server(s)
// authoritative for evil.test. Install scripts the evil servers; the trigger
// is the client question that makes the resolver talk to them.
type attackKind struct {
	Name     string
	Family   string // spoof | answer | authority | referral | glue
	Variants []string
	NeedV6   func(variant string) bool
	Trigger  func(variant string) (string, uint16)
	Install  func(w *world, c *CaseSpec)
}

func q(name string, t uint16) func(string) (string, uint16) {
	return func(string) (string, uint16) { return name, t }
}

const subTrigger = "host.sub.evil.test."

// poison returns evil-marked records about names OUTSIDE evil.test.
func (w *world) poison(v6 bool) []dns.RR {
	out := []dns.RR{
		w.evilRR("www.victim.test.", dns.TypeA),
		w.evilRR("www.victim.test.", dns.TypeAAAA),
		w.evilRR(zVictim, dns.TypeMX),
		w.evilRR(zVictim, dns.TypeNS),
		w.evilRR(zTLD, dns.TypeNS),
		addrRR("ns1.victim.test.", sinkV4),
		addrRR("ns1.test.", sinkV4),
	}
	if v6 {
		out = append(out, addrRR("ns1.victim.test.", sinkV6), addrRR("ns1.test.", sinkV6))
	}
	return out
}

// glueFor returns address records for an NS host: the evil server's real
// addresses ("evil") or the sink's.
func glueFor(host, target string, v6 bool) []dns.RR {
	a4, a6 := sinkV4, sinkV6
	if target == "evil" {
		a4, a6 = addrEvil4, addrEvil6
	}
	out := []dns.RR{addrRR(host, a4)}
	if v6 {
		out = append(out, addrRR(host, a6))
	}
	return out
}

func keepOPT(q *dns.Msg, m *dns.Msg) {
	if opt := q.IsEdns0(); opt != nil {
		m.SetEdns0(1232, opt.Do())
	}
}

func replyTo(q *dns.Msg, aa bool) *dns.Msg {
	m := new(dns.Msg)
	m.SetReply(q)
	m.Authoritative = aa
	return m
}

func onAll(w *world, r authsim.Rule) {
	r.Action = w.recording(r.Action)
	for _, s := range w.evils {
		s.AddRule(r)
	}
}

// referral builds a referral-shaped response.
func referral(q *dns.Msg, ns []dns.RR, glue []dns.RR) *dns.Msg {
	m := replyTo(q, false)
	m.Ns = ns
	m.Extra = glue
	keepOPT(q, m)
	return m
}

func nsHostFor(target string) string {
	if target == "evil" {
		return evilNS
	}
	return "sink-evil-marker.evil.test."
}

var kinds = []*attackKind{
	// ---------------------------------------------------------------- spoof --
	{
		Name: "spoof-wrong-id", Family: "spoof", Variants: []string{"x1", "x3", "x1+poison"},
		Trigger: q("www.evil.test.", dns.TypeA),
		Install: func(w *world, c *CaseSpec) {
			n := 1
			if c.Variant == "x3" {
				n = 3
			}
			a := authsim.Action{Label: c.Label}
			for i := 0; i < n; i++ {
				a.Pre = append(a.Pre, authsim.PreWrongIDEvil)
			}
			a.PreTamper = func(q, m *dns.Msg) *dns.Msg {
				out := replyTo(q, true)
				out.Answer = []dns.RR{w.evilRR(q.Question[0].Name, q.Question[0].Qtype)}
				if c.Variant == "x1+poison" {
					out.Extra = w.poison(c.V6)
				}
				keepOPT(q, out)
				return out
			}
			onAll(w, authsim.Rule{Name: "www.evil.test.", Transport: "udp", Action: a})
		},
	},
	{
		Name: "spoof-wrong-question", Family: "spoof",
		Variants: []string{"qname-victim", "qname-sibling", "qtype", "qclass", "none", "two"},
		Trigger:  q("www.evil.test.", dns.TypeA),
		Install: func(w *world, c *CaseSpec) {
			a := authsim.Action{Label: c.Label, Pre: []authsim.PreKind{authsim.PreWrongQEvil}}
			a.PreTamper = func(q, _ *dns.Msg) *dns.Msg { return wrongQuestionReply(w, c.Variant, q) }
			onAll(w, authsim.Rule{Name: "www.evil.test.", Transport: "udp", Action: a})
		},
	},
	{
		Name: "spoof-tcp-wrong-id", Family: "spoof", Variants: []string{"id+1"},
		Trigger: q("www.evil.test.", dns.TypeA),
		Install: func(w *world, c *CaseSpec) {
			onAll(w, authsim.Rule{Name: "www.evil.test.", Action: authsim.Action{Label: c.Label, Truncate: true, TCP: authsim.TCPAnswer,
				Tamper: func(q, honest *dns.Msg) *dns.Msg {
					out := replyTo(q, true)
					out.Answer = []dns.RR{w.evilRR(q.Question[0].Name, q.Question[0].Qtype)}
					keepOPT(q, out)
					out.Id = q.Id + 1
					return out
				}}})
		},
	},
	{
		Name: "spoof-tcp-wrong-question", Family: "spoof", Variants: []string{"qname-victim", "qtype", "none"},
		Trigger: q("www.evil.test.", dns.TypeA),
		Install: func(w *world, c *CaseSpec) {
			onAll(w, authsim.Rule{Name: "www.evil.test.", Action: authsim.Action{Label: c.Label, Truncate: true, TCP: authsim.TCPAnswer,
				Tamper: func(q, honest *dns.Msg) *dns.Msg { return wrongQuestionReply(w, c.Variant, q) }}})
		},
	},
	// --------------------------------------------------------------- answer --
	{
		Name: "answer-foreign-rrset", Family: "answer", Variants: []string{"append-a", "prepend-a", "append-mx", "append-aaaa"},
		Trigger: func(v string) (string, uint16) {
			switch v {
			case "append-mx":
				return "www.evil.test.", dns.TypeMX
			case "append-aaaa":
				return "www.evil.test.", dns.TypeAAAA
			}
			return "www.evil.test.", dns.TypeA
		},
		Install: func(w *world, c *CaseSpec) {
			onAll(w, authsim.Rule{Name: "www.evil.test.", Action: authsim.Tamper(c.Label, func(q, honest *dns.Msg) *dns.Msg {
				if len(honest.Answer) == 0 {
					return honest
				}
				if c.Variant == "prepend-a" {
					honest.Answer = append(w.poison(c.V6), honest.Answer...)
				} else {
					honest.Answer = append(honest.Answer, w.poison(c.V6)...)
				}
				return honest
			})})
		},
	},
	{
		Name: "answer-cname-poison", Family: "answer", Variants: []string{"alias-a", "alias-aaaa", "mxalias-mx", "chain-a"},
		Trigger: func(v string) (string, uint16) {
			switch v {
			case "alias-aaaa":
				return "alias.evil.test.", dns.TypeAAAA
			case "mxalias-mx":
				return "mxalias.evil.test.", dns.TypeMX
			case "chain-a":
				return "a1.evil.test.", dns.TypeA
			}
			return "alias.evil.test.", dns.TypeA
		},
		Install: func(w *world, c *CaseSpec) {
			onAll(w, authsim.Rule{Name: "*.evil.test.", Action: authsim.Tamper(c.Label, func(q, honest *dns.Msg) *dns.Msg {
				// the in-zone alias records are the attacker's to publish; the
				// target's records are not
				target := ""
				for _, rr := range honest.Answer {
					if cn, ok := rr.(*dns.CNAME); ok && !zm.IsSub(zEvil, zm.Canon(cn.Target)) {
						target = cn.Target
					}
				}
				if target == "" {
					return honest
				}
				honest.Answer = append(honest.Answer, w.evilRR(target, q.Question[0].Qtype))
				return honest
			})})
		},
	},
	{
		Name: "answer-dname-poison", Family: "answer", Variants: []string{"a", "aaaa"},
		Trigger: func(v string) (string, uint16) {
			if v == "aaaa" {
				return "www.dn.evil.test.", dns.TypeAAAA
			}
			return "www.dn.evil.test.", dns.TypeA
		},
		Install: func(w *world, c *CaseSpec) {
			onAll(w, authsim.Rule{Name: "*.dn.evil.test.", Action: authsim.Tamper(c.Label, func(q, honest *dns.Msg) *dns.Msg {
				target := ""
				for _, rr := range honest.Answer {
					if cn, ok := rr.(*dns.CNAME); ok && !zm.IsSub(zEvil, zm.Canon(cn.Target)) {
						target = cn.Target
					}
				}
				if target == "" {
					return honest
				}
				honest.Answer = append(honest.Answer, w.evilRR(target, q.Question[0].Qtype))
				return honest
			})})
		},
	},
	{
		// a DNAME record owned OUTSIDE evil.test. in the answer section: above
		// the zone (it would redirect the question itself) or beside it (dead
		// weight that the cache's "keep every DNAME" rule could retain)
		Name: "answer-foreign-dname", Family: "answer", Variants: []string{"upward-tld", "sideways-victim"},
		Trigger: q("www.evil.test.", dns.TypeA),
		Install: func(w *world, c *CaseSpec) {
			onAll(w, authsim.Rule{Name: "www.evil.test.", Action: authsim.Tamper(c.Label, func(q, honest *dns.Msg) *dns.Msg {
				if len(honest.Answer) == 0 {
					return honest
				}
				dn := func(owner string) dns.RR {
					return &dns.DNAME{Hdr: hdr(owner, dns.TypeDNAME, evilTTL), Target: "dname.evil-marker.invalid."}
				}
				if c.Variant == "sideways-victim" {
					honest.Answer = append(honest.Answer, dn(zVictim))
					return honest
				}
				// no synthesized CNAME: that record would be owned inside
				// evil.test. and therefore the attacker's to publish
				honest.Answer = []dns.RR{dn(zTLD)}
				return honest
			})})
		},
	},
	// ------------------------------------------------------------ authority --
	{
		Name: "authority-positive", Family: "authority", Variants: []string{"to-evil", "to-sink"},
		Trigger: q("www.evil.test.", dns.TypeA),
		Install: func(w *world, c *CaseSpec) {
			onAll(w, authsim.Rule{Name: "www.evil.test.", Action: authsim.Tamper(c.Label, func(q, honest *dns.Msg) *dns.Msg {
				host := nsHostFor(c.Target)
				honest.Ns = append(honest.Ns, nsRR(zVictim, host, dns.ClassINET), nsRR(zTLD, host, dns.ClassINET))
				extra := append(glueFor(host, c.Target, c.V6), w.poison(c.V6)...)
				honest.Extra = append(extra, honest.Extra...)
				return honest
			})})
		},
	},
	{
		Name: "authority-negative", Family: "authority", Variants: []string{"nodata", "nxdomain", "soa-foreign"},
		Trigger: func(v string) (string, uint16) {
			if v == "nodata" {
				return "nodata.evil.test.", dns.TypeA
			}
			return "nx.evil.test.", dns.TypeA
		},
		Install: func(w *world, c *CaseSpec) {
			name := "nx.evil.test."
			if c.Variant == "nodata" {
				name = "nodata.evil.test."
			}
			onAll(w, authsim.Rule{Name: name, Action: authsim.Tamper(c.Label, func(q, honest *dns.Msg) *dns.Msg {
				host := nsHostFor(c.Target)
				if c.Variant == "soa-foreign" {
					honest.Ns = []dns.RR{w.evilSOA(zVictim)}
				}
				honest.Ns = append(honest.Ns, nsRR(zVictim, host, dns.ClassINET), nsRR(zTLD, host, dns.ClassINET))
				extra := append(glueFor(host, c.Target, c.V6), w.poison(c.V6)...)
				honest.Extra = append(extra, honest.Extra...)
				return honest
			})})
		},
	},
	// ------------------------------------------------------------- referral --
	{
		Name: "referral-self", Family: "referral", Variants: []string{"self"},
		Trigger: q(subTrigger, dns.TypeA),
		Install: func(w *world, c *CaseSpec) {
			installReferral(w, c, func(host string) []dns.RR { return []dns.RR{nsRR(zEvil, host, dns.ClassINET)} })
		},
	},
	{
		Name: "referral-upward", Family: "referral", Variants: []string{"tld", "root"},
		Trigger: q(subTrigger, dns.TypeA),
		Install: func(w *world, c *CaseSpec) {
			owner := zTLD
			if c.Variant == "root" {
				owner = zRoot
			}
			installReferral(w, c, func(host string) []dns.RR { return []dns.RR{nsRR(owner, host, dns.ClassINET)} })
		},
	},
	{
		Name: "referral-sideways", Family: "referral", Variants: []string{"victim-apex", "victim-www"},
		Trigger: q(subTrigger, dns.TypeA),
		Install: func(w *world, c *CaseSpec) {
			owner := zVictim
			if c.Variant == "victim-www" {
				owner = "www.victim.test."
			}
			installReferral(w, c, func(host string) []dns.RR { return []dns.RR{nsRR(owner, host, dns.ClassINET)} })
		},
	},
	{
		Name: "referral-mixed-owner", Family: "referral", Variants: []string{"valid-first", "victim-first", "tld-second", "class-mix"},
		Trigger: q(subTrigger, dns.TypeA),
		Install: func(w *world, c *CaseSpec) {
			c.Target = "sink" // an accepted mixed referral must be visible at the sink
			installReferral(w, c, func(host string) []dns.RR {
				valid := nsRR("sub.evil.test.", host, dns.ClassINET)
				switch c.Variant {
				case "victim-first":
					return []dns.RR{nsRR(zVictim, host, dns.ClassINET), valid}
				case "tld-second":
					return []dns.RR{valid, nsRR(zTLD, host, dns.ClassINET)}
				case "class-mix":
					return []dns.RR{valid, nsRR("sub.evil.test.", "sink2-evil-marker.evil.test.", dns.ClassCHAOS)}
				}
				return []dns.RR{valid, nsRR(zVictim, host, dns.ClassINET)}
			})
		},
	},
	{
		Name: "referral-other-class", Family: "referral", Variants: []string{"chaos", "hesiod"},
		Trigger: q(subTrigger, dns.TypeA),
		Install: func(w *world, c *CaseSpec) {
			c.Target = "sink"
			class := uint16(dns.ClassCHAOS)
			if c.Variant == "hesiod" {
				class = dns.ClassHESIOD
			}
			installReferral(w, c, func(host string) []dns.RR { return []dns.RR{nsRR("sub.evil.test.", host, class)} })
		},
	},
	{
		Name: "referral-off-path", Family: "referral", Variants: []string{"sibling", "deeper-sibling"},
		Trigger: q(subTrigger, dns.TypeA),
		Install: func(w *world, c *CaseSpec) {
			c.Target = "sink"
			owner := "other.evil.test."
			if c.Variant == "deeper-sibling" {
				owner = "x.sub.evil.test."
			}
			installReferral(w, c, func(host string) []dns.RR { return []dns.RR{nsRR(owner, host, dns.ClassINET)} })
		},
	},
	// ----------------------------------------------------------------- glue --
	{
		Name: "glue-out-of-zone", Family: "glue", Variants: []string{"victim-ns", "tld-ns", "victim-new"},
		Trigger: q(subTrigger, dns.TypeA),
		Install: func(w *world, c *CaseSpec) {
			host := "ns1.victim.test."
			switch c.Variant {
			case "tld-ns":
				host = "ns1.test."
			case "victim-new":
				host = "gluehost.victim.test."
			}
			onAll(w, authsim.Rule{Name: "*.sub.evil.test.", Action: authsim.Tamper(c.Label, func(q, _ *dns.Msg) *dns.Msg {
				return referral(q, []dns.RR{nsRR("sub.evil.test.", host, dns.ClassINET)}, glueFor(host, "sink", c.V6))
			})})
		},
	},
	{
		Name: "glue-loopback", Family: "glue", Variants: []string{"127.0.0.1", "127.0.0.53", "::1", "::ffff:127.0.0.1"},
		NeedV6:  func(v string) bool { return v == "::1" || v == "::ffff:127.0.0.1" },
		Trigger: q(subTrigger, dns.TypeA),
		Install: func(w *world, c *CaseSpec) { installUnusableGlue(w, c, c.Variant) },
	},
	{
		Name: "glue-local-interface", Family: "glue", Variants: []string{"v4", "v6"},
		NeedV6:  func(v string) bool { return v == "v6" },
		Trigger: q(subTrigger, dns.TypeA),
		Install: func(w *world, c *CaseSpec) {
			addr := ""
			switch {
			case c.Variant == "v4" && w.local4 != nil:
				addr = w.local4.String()
			case c.Variant == "v6" && w.local6 != nil:
				addr = w.local6.String()
			}
			if addr == "" {
				c.Note = "no local interface address of that family: loopback used"
				addr = "127.0.0.1"
				if c.Variant == "v6" {
					addr = "::1"
				}
			}
			installUnusableGlue(w, c, addr)
		},
	},
	{
		Name: "glue-extra-additional", Family: "glue", Variants: []string{"poison"},
		Trigger: q(subTrigger, dns.TypeA),
		Install: func(w *world, c *CaseSpec) {
			var sent atomic.Int32
			host := "ns.sub.evil.test."
			onAll(w, authsim.Rule{Name: "*.sub.evil.test.",
				Match: func(p *authsim.Packet) bool { return p.QNameL != host && sent.Add(1) == 1 },
				Action: authsim.Tamper(c.Label, func(q, _ *dns.Msg) *dns.Msg {
					// a VALID referral (in-bailiwick NS host, glue = the evil
					// server's real address) whose additional section also
					// carries records nobody asked for
					return referral(q, []dns.RR{nsRR("sub.evil.test.", host, dns.ClassINET)},
						append(glueFor(host, "evil", c.V6), w.poison(c.V6)...))
				})})
		},
	},
}

func wrongQuestionReply(w *world, variant string, q *dns.Msg) *dns.Msg {
	out := replyTo(q, true)
	keepOPT(q, out)
	oq := q.Question[0]
	switch variant {
	case "qname-victim":
		out.Question = []dns.Question{{Name: "www.victim.test.", Qtype: oq.Qtype, Qclass: oq.Qclass}}
		out.Answer = []dns.RR{w.evilRR("www.victim.test.", oq.Qtype)}
	case "qname-sibling":
		out.Question = []dns.Question{{Name: "other.evil.test.", Qtype: oq.Qtype, Qclass: oq.Qclass}}
		out.Answer = []dns.RR{w.evilRR("other.evil.test.", oq.Qtype)}
	case "qtype":
		t := uint16(dns.TypeAAAA)
		if oq.Qtype == dns.TypeAAAA {
			t = dns.TypeA
		}
		out.Question = []dns.Question{{Name: oq.Name, Qtype: t, Qclass: oq.Qclass}}
		out.Answer = []dns.RR{w.evilRR(oq.Name, oq.Qtype)}
	case "qclass":
		out.Question = []dns.Question{{Name: oq.Name, Qtype: oq.Qtype, Qclass: dns.ClassCHAOS}}
		out.Answer = []dns.RR{w.evilRR(oq.Name, oq.Qtype)}
	case "none":
		out.Question = nil
		out.Answer = []dns.RR{w.evilRR(oq.Name, oq.Qtype)}
	case "two":
		out.Question = []dns.Question{oq, {Name: "www.victim.test.", Qtype: oq.Qtype, Qclass: oq.Qclass}}
		out.Answer = []dns.RR{w.evilRR(oq.Name, oq.Qtype), w.evilRR("www.victim.test.", oq.Qtype)}
	}
	return out
}

// installReferral answers every question below sub.evil.test. with the
// referral built by ns (NS host = an in-zone name, glue → the evil server's
// real address or the sink).
func installReferral(w *world, c *CaseSpec, ns func(host string) []dns.RR) {
	host := nsHostFor(c.Target)
	onAll(w, authsim.Rule{Name: "*.sub.evil.test.", Action: authsim.Tamper(c.Label, func(q, _ *dns.Msg) *dns.Msg {
		glue := glueFor(host, c.Target, c.V6)
		if c.Variant == "class-mix" {
			glue = append(glue, glueFor("sink2-evil-marker.evil.test.", "sink", c.V6)...)
		}
		return referral(q, ns(host), glue)
	})})
}

// installUnusableGlue: a valid referral for sub.evil.test. whose only NS host
// has an unusable (loopback / local interface) address, as glue AND as the
// authoritative answer when the resolver asks for the host's address itself.
func installUnusableGlue(w *world, c *CaseSpec, addr string) {
	host := "ns.sub.evil.test."
	c.Addr = addr
	onAll(w, authsim.Rule{Name: host, Action: authsim.Tamper(c.Label+":addr", func(q, _ *dns.Msg) *dns.Msg {
		m := replyTo(q, true)
		rr := addrRR(host, addr)
		if rr.Header().Rrtype == q.Question[0].Qtype {
			m.Answer = []dns.RR{rr}
		} else {
			m.Ns = []dns.RR{&dns.SOA{Hdr: hdr(zEvil, dns.TypeSOA, 60), Ns: "ns1.evil.test.", Mbox: "h.evil.test.", Serial: 1, Refresh: 1, Retry: 1, Expire: 1, Minttl: 60}}
		}
		keepOPT(q, m)
		return m
	})})
	onAll(w, authsim.Rule{Name: "*.sub.evil.test.", Action: authsim.Tamper(c.Label, func(q, _ *dns.Msg) *dns.Msg {
		return referral(q, []dns.RR{nsRR("sub.evil.test.", host, dns.ClassINET)}, []dns.RR{addrRR(host, addr)})
	})})
}
