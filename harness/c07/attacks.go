package main

import (
	"fmt"
	"net/netip"
	"strings"
	"sync/atomic"
	"time"

	"github.com/miekg/dns"
	"github.com/semihalev/sdns/zzverif/authsim"
	zm "github.com/semihalev/sdns/zzverif/zonemodel"
)

// attackKind is one family of malicious behaviour of the server(s)
// authoritative for evil.test. Install scripts the evil servers; the trigger
// is the client question that makes the resolver talk to them.
type attackKind struct {
	Name     string
	Family   string // spoof | answer | authority | referral | glue
	Variants []string
	NeedV6   func(variant string) bool
	Trigger  func(variant string) (string, uint16)
	Install  func(w *world, c *CaseSpec)

	// Attack, when set, replaces the default attack phase (one trigger question,
	// judged) — used by the kinds that need a second client query inside a
	// window held open by an authsim gate. It returns the trigger question and
	// its reply, both already judged.
	Attack func(cr *caseRun) (question, *dns.Msg)
	// Deep: the case needs the corp.test./a.b.corp.test./partner.test. topology.
	Deep bool
	// Unsigned: the attacker's zone must not be signed (the scripted referral
	// carries no DS / DS-denial, which a signed parent zone would have to supply).
	Unsigned bool
	// QMin, when set, fixes cfg.QnameMinLevel per variant.
	QMin func(variant string) (int, bool)
	// SigVariant: violation signatures of this kind carry the variant (narrower).
	SigVariant bool
	// Repeat, when set, lists further questions asked (and judged like the
	// trigger's repeat) in every phase after the attacker went quiet.
	Repeat func(cr *caseRun) []question
}

func q(name string, t uint16) func(string) (string, uint16) {
	return func(string) (string, uint16) { return name, t }
}

const subTrigger = "host.sub.evil.test."

// poison returns evil-marked records about names OUTSIDE evil.test.
func (w *world) poison(v6 bool) []dns.RR {
	out := []dns.RR{
		w.evilRR("www.victim.test.", dns.TypeA),
		w.evilRR("www.victim.test.", dns.TypeAAAA),
		w.evilRR(zVictim, dns.TypeMX),
		w.evilRR(zVictim, dns.TypeNS),
		w.evilRR(zTLD, dns.TypeNS),
		addrRR("ns1.victim.test.", sinkV4),
		addrRR("ns1.test.", sinkV4),
	}
	if v6 {
		out = append(out, addrRR("ns1.victim.test.", sinkV6), addrRR("ns1.test.", sinkV6))
	}
	return out
}

// glueFor returns address records for an NS host: the evil server's real
// addresses ("evil") or the sink's.
func glueFor(host, target string, v6 bool) []dns.RR {
	a4, a6 := sinkV4, sinkV6
	if target == "evil" {
		a4, a6 = addrEvil4, addrEvil6
	}
	out := []dns.RR{addrRR(host, a4)}
	if v6 {
		out = append(out, addrRR(host, a6))
	}
	return out
}

func keepOPT(q *dns.Msg, m *dns.Msg) {
	if opt := q.IsEdns0(); opt != nil {
		m.SetEdns0(1232, opt.Do())
	}
}

func replyTo(q *dns.Msg, aa bool) *dns.Msg {
	m := new(dns.Msg)
	m.SetReply(q)
	m.Authoritative = aa
	return m
}

func onAll(w *world, r authsim.Rule) {
	r.Action = w.recording(r.Action)
	for _, s := range w.evils {
		s.AddRule(r)
	}
}

// referral builds a referral-shaped response.
func referral(q *dns.Msg, ns []dns.RR, glue []dns.RR) *dns.Msg {
	m := replyTo(q, false)
	m.Ns = ns
	m.Extra = glue
	keepOPT(q, m)
	return m
}

func nsHostFor(target string) string {
	if target == "evil" {
		return evilNS
	}
	return "sink-evil-marker.evil.test."
}

var kinds []*attackKind

// nBaseKinds: kinds[:nBaseKinds] share the case index space 0,1,2,…;
// kinds[nBaseKinds:] were added later (see extraIndexBase).
var nBaseKinds int

func init() {
	defer func() {
		nBaseKinds = len(kinds)
		kindGroups = []kindGroup{
			{Base: 0, Kinds: kinds[:nBaseKinds:nBaseKinds]},
			{Base: extraIndexBase, Kinds: burstKinds()},
			{Base: ladderIndexBase, Kinds: ladderKinds()},
		}
		for _, g := range kindGroups[1:] {
			kinds = append(kinds, g.Kinds...)
		}
	}()
	kinds = []*attackKind{
		// ---------------------------------------------------------------- spoof --
		{
			Name: "spoof-wrong-id", Family: "spoof", Variants: []string{"x1", "x3", "x1+poison"},
			Trigger: q("www.evil.test.", dns.TypeA),
			Install: func(w *world, c *CaseSpec) {
				n := 1
				if c.Variant == "x3" {
					n = 3
				}
				a := authsim.Action{Label: c.Label}
				for i := 0; i < n; i++ {
					a.Pre = append(a.Pre, authsim.PreWrongIDEvil)
				}
				a.PreTamper = func(q, m *dns.Msg) *dns.Msg {
					out := replyTo(q, true)
					out.Answer = []dns.RR{w.evilRR(q.Question[0].Name, q.Question[0].Qtype)}
					if c.Variant == "x1+poison" {
						out.Extra = w.poison(c.V6)
					}
					keepOPT(q, out)
					return out
				}
				onAll(w, authsim.Rule{Name: "www.evil.test.", Transport: "udp", Action: a})
			},
		},
		{
			Name: "spoof-wrong-question", Family: "spoof",
			Variants: []string{"qname-victim", "qname-sibling", "qtype", "qclass", "none", "two"},
			Trigger:  q("www.evil.test.", dns.TypeA),
			Install: func(w *world, c *CaseSpec) {
				a := authsim.Action{Label: c.Label, Pre: []authsim.PreKind{authsim.PreWrongQEvil}}
				a.PreTamper = func(q, _ *dns.Msg) *dns.Msg { return wrongQuestionReply(w, c.Variant, q) }
				onAll(w, authsim.Rule{Name: "www.evil.test.", Transport: "udp", Action: a})
			},
		},
		{
			Name: "spoof-tcp-wrong-id", Family: "spoof", Variants: []string{"id+1"},
			Trigger: q("www.evil.test.", dns.TypeA),
			Install: func(w *world, c *CaseSpec) {
				onAll(w, authsim.Rule{Name: "www.evil.test.", Action: authsim.Action{Label: c.Label, Truncate: true, TCP: authsim.TCPAnswer,
					Tamper: func(q, honest *dns.Msg) *dns.Msg {
						out := replyTo(q, true)
						out.Answer = []dns.RR{w.evilRR(q.Question[0].Name, q.Question[0].Qtype)}
						keepOPT(q, out)
						out.Id = q.Id + 1
						return out
					}}})
			},
		},
		{
			Name: "spoof-tcp-wrong-question", Family: "spoof", Variants: []string{"qname-victim", "qtype", "none"},
			Trigger: q("www.evil.test.", dns.TypeA),
			Install: func(w *world, c *CaseSpec) {
				onAll(w, authsim.Rule{Name: "www.evil.test.", Action: authsim.Action{Label: c.Label, Truncate: true, TCP: authsim.TCPAnswer,
					Tamper: func(q, honest *dns.Msg) *dns.Msg { return wrongQuestionReply(w, c.Variant, q) }}})
			},
		},
		// --------------------------------------------------------------- answer --
		{
			Name: "answer-foreign-rrset", Family: "answer", Variants: []string{"append-a", "prepend-a", "append-mx", "append-aaaa"},
			Trigger: func(v string) (string, uint16) {
				switch v {
				case "append-mx":
					return "www.evil.test.", dns.TypeMX
				case "append-aaaa":
					return "www.evil.test.", dns.TypeAAAA
				}
				return "www.evil.test.", dns.TypeA
			},
			Install: func(w *world, c *CaseSpec) {
				onAll(w, authsim.Rule{Name: "www.evil.test.", Action: authsim.Tamper(c.Label, func(q, honest *dns.Msg) *dns.Msg {
					if len(honest.Answer) == 0 {
						return honest
					}
					if c.Variant == "prepend-a" {
						honest.Answer = append(w.poison(c.V6), honest.Answer...)
					} else {
						honest.Answer = append(honest.Answer, w.poison(c.V6)...)
					}
					return honest
				})})
			},
		},
		{
			Name: "answer-cname-poison", Family: "answer", Variants: []string{"alias-a", "alias-aaaa", "mxalias-mx", "chain-a"},
			Trigger: func(v string) (string, uint16) {
				switch v {
				case "alias-aaaa":
					return "alias.evil.test.", dns.TypeAAAA
				case "mxalias-mx":
					return "mxalias.evil.test.", dns.TypeMX
				case "chain-a":
					return "a1.evil.test.", dns.TypeA
				}
				return "alias.evil.test.", dns.TypeA
			},
			Install: func(w *world, c *CaseSpec) {
				onAll(w, authsim.Rule{Name: "*.evil.test.", Action: authsim.Tamper(c.Label, func(q, honest *dns.Msg) *dns.Msg {
					// the in-zone alias records are the attacker's to publish; the
					// target's records are not
					target := ""
					for _, rr := range honest.Answer {
						if cn, ok := rr.(*dns.CNAME); ok && !zm.IsSub(zEvil, zm.Canon(cn.Target)) {
							target = cn.Target
						}
					}
					if target == "" {
						return honest
					}
					honest.Answer = append(honest.Answer, w.evilRR(target, q.Question[0].Qtype))
					return honest
				})})
			},
		},
		{
			Name: "answer-dname-poison", Family: "answer", Variants: []string{"a", "aaaa"},
			Trigger: func(v string) (string, uint16) {
				if v == "aaaa" {
					return "www.dn.evil.test.", dns.TypeAAAA
				}
				return "www.dn.evil.test.", dns.TypeA
			},
			Install: func(w *world, c *CaseSpec) {
				onAll(w, authsim.Rule{Name: "*.dn.evil.test.", Action: authsim.Tamper(c.Label, func(q, honest *dns.Msg) *dns.Msg {
					target := ""
					for _, rr := range honest.Answer {
						if cn, ok := rr.(*dns.CNAME); ok && !zm.IsSub(zEvil, zm.Canon(cn.Target)) {
							target = cn.Target
						}
					}
					if target == "" {
						return honest
					}
					honest.Answer = append(honest.Answer, w.evilRR(target, q.Question[0].Qtype))
					return honest
				})})
			},
		},
		{
			// a DNAME record owned OUTSIDE evil.test. in the answer section: above
			// the zone (it would redirect the question itself) or beside it (dead
			// weight that the cache's "keep every DNAME" rule could retain)
			Name: "answer-foreign-dname", Family: "answer", Variants: []string{"upward-tld", "sideways-victim"},
			Trigger: q("www.evil.test.", dns.TypeA),
			Install: func(w *world, c *CaseSpec) {
				onAll(w, authsim.Rule{Name: "www.evil.test.", Action: authsim.Tamper(c.Label, func(q, honest *dns.Msg) *dns.Msg {
					if len(honest.Answer) == 0 {
						return honest
					}
					dn := func(owner string) dns.RR {
						return &dns.DNAME{Hdr: hdr(owner, dns.TypeDNAME, evilTTL), Target: "dname.evil-marker.invalid."}
					}
					if c.Variant == "sideways-victim" {
						honest.Answer = append(honest.Answer, dn(zVictim))
						return honest
					}
					// no synthesized CNAME: that record would be owned inside
					// evil.test. and therefore the attacker's to publish
					honest.Answer = []dns.RR{dn(zTLD)}
					return honest
				})})
			},
		},
		// ------------------------------------------------------------ authority --
		{
			Name: "authority-positive", Family: "authority", Variants: []string{"to-evil", "to-sink"},
			Trigger: q("www.evil.test.", dns.TypeA),
			Install: func(w *world, c *CaseSpec) {
				onAll(w, authsim.Rule{Name: "www.evil.test.", Action: authsim.Tamper(c.Label, func(q, honest *dns.Msg) *dns.Msg {
					host := nsHostFor(c.Target)
					honest.Ns = append(honest.Ns, nsRR(zVictim, host, dns.ClassINET), nsRR(zTLD, host, dns.ClassINET))
					extra := append(glueFor(host, c.Target, c.V6), w.poison(c.V6)...)
					honest.Extra = append(extra, honest.Extra...)
					return honest
				})})
			},
		},
		{
			Name: "authority-negative", Family: "authority", Variants: []string{"nodata", "nxdomain", "soa-foreign"},
			Trigger: func(v string) (string, uint16) {
				if v == "nodata" {
					return "nodata.evil.test.", dns.TypeA
				}
				return "nx.evil.test.", dns.TypeA
			},
			Install: func(w *world, c *CaseSpec) {
				name := "nx.evil.test."
				if c.Variant == "nodata" {
					name = "nodata.evil.test."
				}
				onAll(w, authsim.Rule{Name: name, Action: authsim.Tamper(c.Label, func(q, honest *dns.Msg) *dns.Msg {
					host := nsHostFor(c.Target)
					if c.Variant == "soa-foreign" {
						honest.Ns = []dns.RR{w.evilSOA(zVictim)}
					}
					honest.Ns = append(honest.Ns, nsRR(zVictim, host, dns.ClassINET), nsRR(zTLD, host, dns.ClassINET))
					extra := append(glueFor(host, c.Target, c.V6), w.poison(c.V6)...)
					honest.Extra = append(extra, honest.Extra...)
					return honest
				})})
			},
		},
		// ------------------------------------------------------------- referral --
		{
			Name: "referral-self", Family: "referral", Variants: []string{"self"},
			Trigger: q(subTrigger, dns.TypeA),
			Install: func(w *world, c *CaseSpec) {
				installReferral(w, c, func(host string) []dns.RR { return []dns.RR{nsRR(zEvil, host, dns.ClassINET)} })
			},
		},
		{
			Name: "referral-upward", Family: "referral", Variants: []string{"tld", "root"},
			Trigger: q(subTrigger, dns.TypeA),
			Install: func(w *world, c *CaseSpec) {
				owner := zTLD
				if c.Variant == "root" {
					owner = zRoot
				}
				installReferral(w, c, func(host string) []dns.RR { return []dns.RR{nsRR(owner, host, dns.ClassINET)} })
			},
		},
		{
			Name: "referral-sideways", Family: "referral", Variants: []string{"victim-apex", "victim-www"},
			Trigger: q(subTrigger, dns.TypeA),
			Install: func(w *world, c *CaseSpec) {
				owner := zVictim
				if c.Variant == "victim-www" {
					owner = "www.victim.test."
				}
				installReferral(w, c, func(host string) []dns.RR { return []dns.RR{nsRR(owner, host, dns.ClassINET)} })
			},
		},
		{
			Name: "referral-mixed-owner", Family: "referral", Variants: []string{"valid-first", "victim-first", "tld-second", "class-mix"},
			Trigger: q(subTrigger, dns.TypeA),
			Install: func(w *world, c *CaseSpec) {
				c.Target = "sink" // an accepted mixed referral must be visible at the sink
				installReferral(w, c, func(host string) []dns.RR {
					valid := nsRR("sub.evil.test.", host, dns.ClassINET)
					switch c.Variant {
					case "victim-first":
						return []dns.RR{nsRR(zVictim, host, dns.ClassINET), valid}
					case "tld-second":
						return []dns.RR{valid, nsRR(zTLD, host, dns.ClassINET)}
					case "class-mix":
						return []dns.RR{valid, nsRR("sub.evil.test.", "sink2-evil-marker.evil.test.", dns.ClassCHAOS)}
					}
					return []dns.RR{valid, nsRR(zVictim, host, dns.ClassINET)}
				})
			},
		},
		{
			Name: "referral-other-class", Family: "referral", Variants: []string{"chaos", "hesiod"},
			Trigger: q(subTrigger, dns.TypeA),
			Install: func(w *world, c *CaseSpec) {
				c.Target = "sink"
				class := uint16(dns.ClassCHAOS)
				if c.Variant == "hesiod" {
					class = dns.ClassHESIOD
				}
				installReferral(w, c, func(host string) []dns.RR { return []dns.RR{nsRR("sub.evil.test.", host, class)} })
			},
		},
		{
			Name: "referral-off-path", Family: "referral", Variants: []string{"sibling", "deeper-sibling"},
			Trigger: q(subTrigger, dns.TypeA),
			Install: func(w *world, c *CaseSpec) {
				c.Target = "sink"
				owner := "other.evil.test."
				if c.Variant == "deeper-sibling" {
					owner = "x.sub.evil.test."
				}
				installReferral(w, c, func(host string) []dns.RR { return []dns.RR{nsRR(owner, host, dns.ClassINET)} })
			},
		},
		// ----------------------------------------------------------------- glue --
		{
			Name: "glue-out-of-zone", Family: "glue", Variants: []string{"victim-ns", "tld-ns", "victim-new"},
			Trigger: q(subTrigger, dns.TypeA),
			Install: func(w *world, c *CaseSpec) {
				host := "ns1.victim.test."
				switch c.Variant {
				case "tld-ns":
					host = "ns1.test."
				case "victim-new":
					host = "gluehost.victim.test."
				}
				onAll(w, authsim.Rule{Name: "*.sub.evil.test.", Action: authsim.Tamper(c.Label, func(q, _ *dns.Msg) *dns.Msg {
					return referral(q, []dns.RR{nsRR("sub.evil.test.", host, dns.ClassINET)}, glueFor(host, "sink", c.V6))
				})})
			},
		},
		{
			Name: "glue-loopback", Family: "glue", Variants: []string{"127.0.0.1", "127.0.0.53", "::1", "::ffff:127.0.0.1"},
			NeedV6:  func(v string) bool { return v == "::1" || v == "::ffff:127.0.0.1" },
			Trigger: q(subTrigger, dns.TypeA),
			Install: func(w *world, c *CaseSpec) { installUnusableGlue(w, c, c.Variant) },
		},
		{
			// "every": EVERY non-loopback address of this host's interfaces (both
			// families, link-local included, IPv4 also in its ::ffff: AAAA form), one
			// NS host each, alternately as referral glue and as the authoritative
			// answer to the resolver's own NS-address lookup, next to one usable NS.
			Name: "glue-local-interface", Family: "glue", Variants: []string{"v4", "v6", "every", "every+ok"},
			NeedV6:  func(v string) bool { return v != "v4" },
			Trigger: q(subTrigger, dns.TypeA),
			Install: func(w *world, c *CaseSpec) {
				if c.Variant == "every" {
					installEveryLocalAddr(w, c)
					return
				}
				addr := ""
				switch {
				case c.Variant == "v4" && w.local4 != nil:
					addr = w.local4.String()
				case c.Variant == "v6" && w.local6 != nil:
					addr = w.local6.String()
				}
				if addr == "" {
					c.Note = "no local interface address of that family: loopback used"
					addr = "127.0.0.1"
					if c.Variant == "v6" {
						addr = "::1"
					}
				}
				installUnusableGlue(w, c, addr)
			},
		},
		{
			Name: "glue-extra-additional", Family: "glue", Variants: []string{"poison"},
			Trigger: q(subTrigger, dns.TypeA),
			Install: func(w *world, c *CaseSpec) {
				var sent atomic.Int32
				host := "ns.sub.evil.test."
				onAll(w, authsim.Rule{Name: "*.sub.evil.test.",
					Match: func(p *authsim.Packet) bool { return p.QNameL != host && sent.Add(1) == 1 },
					Action: authsim.Tamper(c.Label, func(q, _ *dns.Msg) *dns.Msg {
						// a VALID referral (in-bailiwick NS host, glue = the evil
						// server's real address) whose additional section also
						// carries records nobody asked for
						return referral(q, []dns.RR{nsRR("sub.evil.test.", host, dns.ClassINET)},
							append(glueFor(host, "evil", c.V6), w.poison(c.V6)...))
					})})
			},
		},
		// ------------------------------------------- provisional delegation window --
		{
			// A PARTIALLY glued referral: pg.evil.test. NS ns1 (glue) + ns2 (in-zone,
			// no glue). While the resolver looks up ns2's address the delegation is
			// only provisionally stored. The adversary (a) appends out-of-zone
			// records to the answer of that very NS-address sub-query and (b) serves
			// a second client query arriving inside the window (held open by a gate
			// on the sub-query's reply) an answer with an out-of-zone tail.
			Name: "glue-partial-provisional", Family: "glue", Unsigned: true,
			Variants: []string{"foreign-rrset", "cname-poison", "prepend"},
			Trigger:  q("host."+pgZone, dns.TypeA),
			Install:  installPartialGlue,
			Attack:   attackPartialGlue,
		},
		// ------------------------------------------------- deep cached delegation --
		{
			// The resolution STARTS from the cached delegation of the attacker's deep
			// zone a.b.corp.test. (delegated two labels below honest corp.test.) and
			// gets a further referral whose NS host lies outside a.b.corp.test., with
			// glue pointing at the sink.
			Name: "deep-cached-start", Family: "glue", Deep: true, SigVariant: true,
			Variants: deepVariants,
			QMin:     deepQMin,
			Trigger:  q("h.x."+zDeep, dns.TypeA),
			Install:  installDeep,
			Attack:   attackDeepStart,
		},
		{
			// Same referral, but the resolution walks through corp.test. and JUMPS to
			// the cached delegation (Resolver.resolveWithCachedNameservers): the
			// honest parent's referral is held at a gate while another client query
			// caches a.b.corp.test.
			Name: "deep-cached-jump", Family: "glue", Deep: true, SigVariant: true,
			Variants: deepVariants,
			QMin:     deepQMin,
			Trigger:  q("h.x."+zDeep, dns.TypeA),
			Install:  installDeep,
			Attack:   attackDeepJump,
		},
	}
}

func wrongQuestionReply(w *world, variant string, q *dns.Msg) *dns.Msg {
	out := replyTo(q, true)
	keepOPT(q, out)
	oq := q.Question[0]
	switch variant {
	case "qname-victim":
		out.Question = []dns.Question{{Name: "www.victim.test.", Qtype: oq.Qtype, Qclass: oq.Qclass}}
		out.Answer = []dns.RR{w.evilRR("www.victim.test.", oq.Qtype)}
	case "qname-sibling":
		out.Question = []dns.Question{{Name: "other.evil.test.", Qtype: oq.Qtype, Qclass: oq.Qclass}}
		out.Answer = []dns.RR{w.evilRR("other.evil.test.", oq.Qtype)}
	case "qtype":
		t := uint16(dns.TypeAAAA)
		if oq.Qtype == dns.TypeAAAA {
			t = dns.TypeA
		}
		out.Question = []dns.Question{{Name: oq.Name, Qtype: t, Qclass: oq.Qclass}}
		out.Answer = []dns.RR{w.evilRR(oq.Name, oq.Qtype)}
	case "qclass":
		out.Question = []dns.Question{{Name: oq.Name, Qtype: oq.Qtype, Qclass: dns.ClassCHAOS}}
		out.Answer = []dns.RR{w.evilRR(oq.Name, oq.Qtype)}
	case "none":
		out.Question = nil
		out.Answer = []dns.RR{w.evilRR(oq.Name, oq.Qtype)}
	case "two":
		out.Question = []dns.Question{oq, {Name: "www.victim.test.", Qtype: oq.Qtype, Qclass: oq.Qclass}}
		out.Answer = []dns.RR{w.evilRR(oq.Name, oq.Qtype), w.evilRR("www.victim.test.", oq.Qtype)}
	}
	return out
}

// installReferral answers every question below sub.evil.test. with the
// referral built by ns (NS host = an in-zone name, glue → the evil server's
// real address or the sink).
func installReferral(w *world, c *CaseSpec, ns func(host string) []dns.RR) {
	host := nsHostFor(c.Target)
	onAll(w, authsim.Rule{Name: "*.sub.evil.test.", Action: authsim.Tamper(c.Label, func(q, _ *dns.Msg) *dns.Msg {
		glue := glueFor(host, c.Target, c.V6)
		if c.Variant == "class-mix" {
			glue = append(glue, glueFor("sink2-evil-marker.evil.test.", "sink", c.V6)...)
		}
		return referral(q, ns(host), glue)
	})})
}

// installUnusableGlue: a valid referral for sub.evil.test. whose only NS host
// has an unusable (loopback / local interface) address, as glue AND as the
// authoritative answer when the resolver asks for the host's address itself.
func installUnusableGlue(w *world, c *CaseSpec, addr string) {
	host := "ns.sub.evil.test."
	c.Addr = addr
	onAll(w, authsim.Rule{Name: host, Action: authsim.Tamper(c.Label+":addr", func(q, _ *dns.Msg) *dns.Msg {
		m := replyTo(q, true)
		rr := addrRR(host, addr)
		if rr.Header().Rrtype == q.Question[0].Qtype {
			m.Answer = []dns.RR{rr}
		} else {
			m.Ns = []dns.RR{&dns.SOA{Hdr: hdr(zEvil, dns.TypeSOA, 60), Ns: "ns1.evil.test.", Mbox: "h.evil.test.", Serial: 1, Refresh: 1, Retry: 1, Expire: 1, Minttl: 60}}
		}
		keepOPT(q, m)
		return m
	})})
	onAll(w, authsim.Rule{Name: "*.sub.evil.test.", Action: authsim.Tamper(c.Label, func(q, _ *dns.Msg) *dns.Msg {
		return referral(q, []dns.RR{nsRR("sub.evil.test.", host, dns.ClassINET)}, []dns.RR{addrRR(host, addr)})
	})})
}

// ---------------------------------------------------------------------------
// glue-local-interface/every

func installEveryLocalAddr(w *world, c *CaseSpec) {
	zone := "sub.evil.test."
	withOK := c.Variant == "every+ok"
	type nsHost struct {
		name string
		rr   dns.RR
		glue bool
	}
	var hosts []nsHost
	var texts []string
	add := func(text string) {
		// each address twice: as referral glue for one host, and as the
		// authoritative answer to the resolver's own address lookup for another
		i := len(texts)
		texts = append(texts, text)
		g := nsHost{name: fmt.Sprintf("nslg%d.%s", i, zone), glue: true}
		g.rr = addrRR(g.name, text)
		r := nsHost{name: fmt.Sprintf("nslr%d.%s", i, zone)}
		r.rr = addrRR(r.name, text)
		hosts = append(hosts, g, r)
	}
	for _, a := range allLocalInterfaceAddrs() {
		add(a.String())
		if a.Is4() {
			add("::ffff:" + a.String())
		}
	}
	if len(texts) == 0 {
		c.Note = "no non-loopback interface address on this host: loopback used"
		add("127.0.0.1")
		add("::1")
	}
	c.Addr = strings.Join(texts, ",")
	ok := "ns-ok." + zone
	var ns, glue []dns.RR
	if withOK {
		// one usable nameserver: the delegation is stored and the resolver's
		// background IPv6 address lookups run for the glue-less hosts
		ns = append(ns, nsRR(zone, ok, dns.ClassINET))
		glue = glueFor(ok, "evil", false)
	}
	for _, h := range hosts {
		ns = append(ns, nsRR(zone, h.name, dns.ClassINET))
		if h.glue {
			glue = append(glue, h.rr)
		}
		h := h
		onAll(w, authsim.Rule{Name: h.name, Action: authsim.Tamper(c.Label+":addr", func(q, _ *dns.Msg) *dns.Msg {
			m := replyTo(q, true)
			if h.rr.Header().Rrtype == q.Question[0].Qtype {
				m.Answer = []dns.RR{dns.Copy(h.rr)}
			} else {
				m.Ns = []dns.RR{&dns.SOA{Hdr: hdr(zEvil, dns.TypeSOA, 60), Ns: "ns1.evil.test.", Mbox: "h.evil.test.", Serial: 1, Refresh: 1, Retry: 1, Expire: 1, Minttl: 60}}
			}
			keepOPT(q, m)
			return m
		})})
	}
	onAll(w, authsim.Rule{Name: ok, Action: authsim.Tamper(c.Label+":addr-ok", func(q, _ *dns.Msg) *dns.Msg {
		m := replyTo(q, true)
		switch q.Question[0].Qtype {
		case dns.TypeA:
			m.Answer = []dns.RR{addrRR(ok, addrEvil4)}
		case dns.TypeAAAA:
			m.Answer = []dns.RR{addrRR(ok, addrEvil6)}
		}
		keepOPT(q, m)
		return m
	})})
	var referred atomic.Int32
	onAll(w, authsim.Rule{Name: "*." + zone,
		// with a usable nameserver only the first question is referred: afterwards
		// the same server is asked as the child zone's server and answers from its data
		Match: func(p *authsim.Packet) bool { return !withOK || referred.Add(1) == 1 },
		Action: authsim.Tamper(c.Label, func(q, _ *dns.Msg) *dns.Msg {
			return referral(q, ns, glue)
		})})
}

// ---------------------------------------------------------------------------
// glue-partial-provisional

const (
	pgZone = "pg.evil.test."
	pgNS1  = "ns1.pg.evil.test."
	pgNS2  = "ns2.pg.evil.test."
	pgT2   = "www2.pg.evil.test."
)

// neutral is a record the attacker may legitimately publish inside his zone
// (no evil marker).
func neutral(owner string, t uint16) dns.RR {
	switch t {
	case dns.TypeAAAA:
		return addrRR(owner, "fd66::1")
	case dns.TypeA:
		return addrRR(owner, "10.66.0.1")
	}
	return &dns.TXT{Hdr: hdr(owner, dns.TypeTXT, 60), Txt: []string{"in-zone"}}
}

func installPartialGlue(w *world, c *CaseSpec) {
	g := authsim.NewGate()
	w.gate = g
	ns2addr4, ns2addr6 := addrEvil4, addrEvil6
	if w.spec.TwoEvil {
		ns2addr4, ns2addr6 = addrEvilB4, addrEvilB6
	}
	// (a) the NS-address sub-query for the glue-less in-zone host: the correct
	// address plus an out-of-zone tail (victim names, sink addresses). The reply
	// is held at the gate: the delegation stays provisional until Release.
	ns2 := func(q, _ *dns.Msg) *dns.Msg {
		m := replyTo(q, true)
		switch q.Question[0].Qtype {
		case dns.TypeA:
			m.Answer = []dns.RR{addrRR(pgNS2, ns2addr4)}
		case dns.TypeAAAA:
			m.Answer = []dns.RR{addrRR(pgNS2, ns2addr6)}
		}
		if len(m.Answer) == 0 {
			m.Ns = []dns.RR{&dns.SOA{Hdr: hdr(zEvil, dns.TypeSOA, 60), Ns: "ns1.evil.test.", Mbox: "h.evil.test.", Serial: 1, Refresh: 1, Retry: 1, Expire: 1, Minttl: 60}}
		} else if c.Variant == "prepend" {
			m.Answer = append(w.poison(c.V6), m.Answer...)
		} else {
			m.Answer = append(m.Answer, w.poison(c.V6)...)
		}
		keepOPT(q, m)
		return m
	}
	onAll(w, authsim.Rule{Name: pgNS2, Type: dns.TypeA, Action: authsim.Action{Label: c.Label + ":ns2-addr", Gate: g, Tamper: ns2}})
	onAll(w, authsim.Rule{Name: pgNS2, Action: authsim.Action{Label: c.Label + ":ns2-addr6", Tamper: ns2}})
	onAll(w, authsim.Rule{Name: pgNS1, Action: authsim.Tamper(c.Label+":ns1-addr", func(q, _ *dns.Msg) *dns.Msg {
		m := replyTo(q, true)
		switch q.Question[0].Qtype {
		case dns.TypeA:
			m.Answer = []dns.RR{addrRR(pgNS1, addrEvil4)}
		case dns.TypeAAAA:
			m.Answer = []dns.RR{addrRR(pgNS1, addrEvil6)}
		}
		keepOPT(q, m)
		return m
	})})
	trigger, _ := c.trigger()
	onAll(w, authsim.Rule{Name: "*." + pgZone, Action: authsim.Tamper(c.Label, func(q, _ *dns.Msg) *dns.Msg {
		name := zm.Canon(q.Question[0].Name)
		qt := q.Question[0].Qtype
		// until the resolver has asked for ns2's address, the trigger's path is
		// referred to the child zone; everything else (and everything later) is
		// answered as the child zone's server
		if g.Waiting() == 0 && (name == pgZone || name == trigger) {
			return referral(q, []dns.RR{nsRR(pgZone, pgNS1, dns.ClassINET), nsRR(pgZone, pgNS2, dns.ClassINET)}, glueFor(pgNS1, "evil", c.V6))
		}
		m := replyTo(q, true)
		keepOPT(q, m)
		switch c.Variant {
		case "cname-poison":
			// an in-zone alias (his to publish) to a victim name, "resolved" in
			// the same message
			m.Answer = []dns.RR{&dns.CNAME{Hdr: hdr(q.Question[0].Name, dns.TypeCNAME, 60), Target: "www.victim.test."},
				w.evilRR("www.victim.test.", qt)}
		case "prepend":
			m.Answer = append(w.poison(c.V6), neutral(q.Question[0].Name, qt))
		default:
			m.Answer = append([]dns.RR{neutral(q.Question[0].Name, qt)}, w.poison(c.V6)...)
		}
		return m
	})})
}

func attackPartialGlue(cr *caseRun) (question, *dns.Msg) {
	g := cr.w.gate
	defer g.Release()
	name, t := cr.c.trigger()
	q1 := randFlags(cr.rng, name, t)
	// the zone is unsigned, so the resolver's NS-address sub-query runs with
	// CD=1: a CD=1 client shares its delegation bucket (the sub-query then starts
	// from the provisional entry), a CD=0 client does not
	q1.CD = cr.rng.IntN(2) == 0
	h := cr.start(q1)
	// the window: the resolver's sub-query for ns2's address has reached the
	// evil server (the provisional delegation is stored before it is sent)
	waitUntil(func() bool { return g.Waiting() > 0 || h.finished() })
	if g.Waiting() > 0 && !h.finished() {
		cr.r.Count("provisional_windows_opened", 1)
		// a second client inside the window, same CD bucket as the first
		q2 := randFlags(cr.rng, pgT2, dns.TypeA)
		q2.CD = q1.CD
		from2 := cr.w.u.Log.Len()
		reply2, _ := cr.ask(q2)
		stillOpen := !h.finished()
		cr.judgeTrigger("attack", q2, reply2, from2)
		cr.dbg("attack/window", q2, reply2, from2)
		tailed := 0
		for _, p := range cr.settledSince(from2, cr.c.Label+":ns2-addr") {
			if p.QNameL == pgT2 && p.Action == cr.c.Label && strings.Contains(p.Outcome, "answered") {
				tailed++
			}
		}
		if stillOpen && tailed > 0 {
			cr.r.Count("provisional_window_client_answers_with_foreign_tail", 1)
		}
	} else {
		cr.r.Count("provisional_window_not_opened", 1)
	}
	g.Release()
	reply1 := h.wait()
	sub := 0
	for _, p := range cr.settledSince(h.from, "") {
		if p.QNameL == pgNS2 && strings.HasSuffix(p.Action, ":ns2-addr") && strings.Contains(p.Outcome, "answered") {
			sub++
		}
	}
	if sub > 0 {
		cr.r.Count("ns_address_subquery_answers_with_foreign_tail", 1)
	}
	cr.judgeTrigger("attack", q1, reply1, h.from)
	cr.dbg("attack", q1, reply1, h.from)
	cr.sinkCheck("attack")
	return q1, reply1
}

// ---------------------------------------------------------------------------
// deep-cached-start / deep-cached-jump

// The NS host named by the deep zone's referral (always OUTSIDE a.b.corp.test.):
//
//	sibling-b       ns.sib.b.corp.test.   existing honest name of corp.test., sharing b.corp.test.
//	sibling-b-new   ghost.b.corp.test.    non-existent name of corp.test., sharing b.corp.test.
//	parent          ns1.corp.test.        the honest parent's own nameserver
//	victim          ns1.victim.test.      another zone's nameserver
var deepVariants = []string{"sibling-b", "sibling-b-new", "parent", "victim", "sibling-b/qmin"}

func deepQMin(v string) (int, bool) {
	if strings.HasSuffix(v, "/qmin") {
		return 5, true
	}
	return 0, true
}

func deepHost(variant string) string {
	switch strings.TrimSuffix(variant, "/qmin") {
	case "sibling-b-new":
		return "ghost.b.corp.test."
	case "parent":
		return "ns1.corp.test."
	case "victim":
		return "ns1.victim.test."
	}
	return sibNS
}

const (
	deepWarmName = "w.a.b.corp.test."
	deepCut      = "x." + zDeep
)

func installDeep(w *world, c *CaseSpec) {
	host := deepHost(c.Variant)
	if host != sibNS {
		// only for the existing honest host is a later consequence observable
		// without the sink (partner.test. is served through that host's address)
		c.Target = "sink"
	}
	onAll(w, authsim.Rule{Name: "*." + deepCut, Action: authsim.Tamper(c.Label, func(q, _ *dns.Msg) *dns.Msg {
		return referral(q, []dns.RR{nsRR(deepCut, host, dns.ClassINET)}, glueFor(host, c.Target, c.V6))
	})})
	if c.Kind == "deep-cached-jump" {
		// the honest parent is not tampered with: its (honest) referral for the
		// trigger's qtype is merely delayed until the harness releases the gate
		w.gate = authsim.NewGate()
		_, t := c.trigger()
		w.corpSrv.AddRule(authsim.Rule{Name: "*." + zDeep, Type: t, Action: authsim.Action{Label: "hold-honest-referral", Gate: w.gate}})
	}
}

// deepWarm resolves a name of the deep zone so that its delegation (from
// corp.test., two labels down) is in the delegation cache, in q's CD bucket.
func (cr *caseRun) deepWarm(cd bool) {
	q := question{Name: deepWarmName, Type: dns.TypeTXT, EDNS: true, DO: true, CD: cd}
	reply, from := cr.ask(q)
	cr.dbg("attack/warm-deep", q, reply, from)
	if reply != nil && reply.Rcode == dns.RcodeSuccess && len(reply.Answer) > 0 {
		cr.r.Count("deep_delegation_warmed", 1)
	}
}

func attackDeepStart(cr *caseRun) (question, *dns.Msg) {
	name, t := cr.c.trigger()
	q2 := randFlags(cr.rng, name, t)
	cr.deepWarm(q2.CD)
	reply, from := cr.ask(q2)
	// started at the cached cut: the deep zone's server is the first one asked
	// about the name (no honest ancestor was consulted on the way down)
	direct := false
	for _, p := range cr.w.u.Log.Since(from) {
		if !zm.IsSub(zDeep, p.QNameL) {
			continue
		}
		direct = p.Action == cr.c.Label
		break
	}
	if direct {
		cr.r.Count("deep_resolutions_started_at_cached_cut", 1)
	}
	cr.judgeTrigger("attack", q2, reply, from)
	cr.dbg("attack", q2, reply, from)
	cr.sinkCheck("attack")
	return q2, reply
}

func attackDeepJump(cr *caseRun) (question, *dns.Msg) {
	g := cr.w.gate
	defer g.Release()
	name, t := cr.c.trigger()
	q2 := randFlags(cr.rng, name, t)
	h := cr.start(q2)
	// q2 has been referred by nobody yet: its question waits at the honest parent
	waitUntil(func() bool { return g.Waiting() > 0 || h.finished() })
	held := g.Waiting() > 0 && !h.finished()
	before := cr.r.Counter("deep_delegation_warmed")
	cr.deepWarm(q2.CD)
	if held && !h.finished() && cr.r.Counter("deep_delegation_warmed") > before {
		// the parent's referral reaches q2's resolution only now, with the
		// delegation it names already cached by the other client
		cr.r.Count("deep_jumps_to_cached_delegation", 1)
		if cr.c.World.QMin == 0 {
			cr.r.Count("deep_jumps_of_two_labels", 1)
		}
	} else {
		cr.r.Count("deep_jump_window_missed", 1)
	}
	g.Release()
	reply := h.wait()
	cr.judgeTrigger("attack", q2, reply, h.from)
	cr.dbg("attack", q2, reply, h.from)
	cr.sinkCheck("attack")
	return q2, reply
}

// settledSince returns the packet log from position from once every scripted
// packet of this case has its outcome recorded: a server notes the outcome
// after the write, i.e. possibly after the resolver has already acted on the
// datagram and the client has its reply (on a loaded machine, much later).
// gated = the action label of the rule whose packets are still held at a gate
// (they have no outcome yet and are not waited for).
func (cr *caseRun) settledSince(from int, gated string) []authsim.Packet {
	waitUntil(func() bool {
		for _, p := range cr.w.u.Log.Since(from) {
			if strings.HasPrefix(p.Action, cr.c.Label) && p.Action != gated && p.Outcome == "" {
				return false
			}
		}
		return true
	})
	return cr.w.u.Log.Since(from)
}

// waitUntil polls cond. The bound only keeps a wedged run from hanging; what
// happened is read from the gate / packet log afterwards, never from the clock.
func waitUntil(cond func() bool) {
	deadline := time.Now().Add(20 * time.Second)
	for !cond() && time.Now().Before(deadline) {
		time.Sleep(200 * time.Microsecond)
	}
}

var _ = netip.Addr{}
