package main

// LADDER kinds: one case asks a ladder of questions (its rungs), each rung with
// its own adversarial message, so that a whole dimension of the adversary's
// choices is driven in every case whatever the seed.
//
// answer-rcode-ladder (family "answer")
//
//	The statement's answer-section clause ("No record owned outside the zone
//	whose servers sent it is … relayed to the client inside the answer", "CNAME
//	chains continuing with out-of-zone targets in the same message") quantifies
//	over what the server of Z sends; the RCODE of the message is the sender's
//	choice as well. Every rung is an answer section with an out-of-zone part (one
//	SHAPE per case: alias / alias chain / DNAME-synthesised alias with the
//	"resolved" victim target, foreign RRsets appended / prepended, nothing but
//	foreign RRsets) under a different rcode: NOERROR (control) and the failure
//	rcodes NXDOMAIN, SERVFAIL, REFUSED, FORMERR, NOTIMP, YXDOMAIN, NOTAUTH. All
//	servers of Z send the same, so no well-formed reply can win first.
//
// spoof-question-relative (family "spoof")
//
//	"a reply must match the outstanding query's ID and question": a RIGHT-id
//	message whose question is a RELATIVE of the one asked — a name below it (one
//	label, three labels, a wildcard label, a label that merely ends in the asked
//	name's text through an escaped dot), above it (parent, TLD, root), beside it,
//	the asked name with a longer first label — besides an unrelated victim name,
//	another type, another class, no question and two questions. The forged message
//	precedes the real reply on UDP, on TCP (as a frame of its own), or on both.
//	Two rungs ask for an APEX the honest hierarchy serves ("." and "test."): there
//	the forged datagram is sent ahead of the honest server's unchanged reply (the
//	honest servers are never tampered with; this is the off-path spoofer whose
//	guess of the id was right). Afterwards the questions the forged messages were
//	ABOUT are asked as well ("used to answer a different question").
//
// Verdicts are the families' (judgeTrigger): no evil marker in any client-
// visible answer, at the attack or later; victim questions = truth; silent sink.

import (
	"fmt"
	"math/rand/v2"
	"strings"
	"sync/atomic"
	"time"

	"github.com/miekg/dns"
	"github.com/semihalev/sdns/zzverif/authsim"
	zm "github.com/semihalev/sdns/zzverif/zonemodel"
)

// rung is one question of a ladder and what the adversary does to it.
type rung struct {
	Name  string
	Type  uint16
	Shape string
	// answer-rcode-ladder
	Rcode int
	// spoof-question-relative: the question of the forged message (nil: none);
	// Extra: a second question after the asked one; Host: whose reply the forged
	// message precedes (evil | root | tld)
	Forged *dns.Question
	Extra  *dns.Question
	Host   string

	reply *dns.Msg
	from  int
	q     question
}

func (g *rung) String() string {
	s := fmt.Sprintf("%s %s %s", g.Name, dns.TypeToString[g.Type], g.Shape)
	if g.Host == "" {
		return s + " rcode=" + dns.RcodeToString[g.Rcode]
	}
	if g.Forged != nil {
		s += fmt.Sprintf(" forged-q=(%s %s %s)", g.Forged.Name, dns.TypeToString[g.Forged.Qtype], dns.ClassToString[g.Forged.Qclass])
	}
	return s + " via=" + g.Host
}

func (w *world) rungFor(name string, t uint16) *rung {
	name = zm.Canon(name)
	for _, g := range w.ladder {
		if g.Type == t && zm.Canon(g.Name) == name {
			return g
		}
	}
	return nil
}

// ---------------------------------------------------------------------------
// zone data of evil.test. used by the ladders (all of it the attacker's own to
// publish): aliases and DNAMEs into the victim zone, positive names.

const ladderPool = 8

var ladderTypes = []uint16{dns.TypeA, dns.TypeAAAA, dns.TypeTXT, dns.TypeMX}

func addLadderData(z *zm.Zone) {
	for i := 0; i < ladderPool; i++ {
		z.AddCNAME(fmt.Sprintf("rcn%d.evil.test.", i), "www.victim.test.", 60)
		z.AddCNAME(fmt.Sprintf("rcm%d.evil.test.", i), zVictim, 60)
		z.AddCNAME(fmt.Sprintf("rch%d.evil.test.", i), fmt.Sprintf("rcn%d.evil.test.", i), 60)
		z.AddDNAME(fmt.Sprintf("rdn%d.evil.test.", i), zVictim, 60)
	}
	for i := 0; i < 2*ladderPool; i++ {
		for _, t := range ladderTypes {
			z.AddMarked(fmt.Sprintf("q%d.rel.evil.test.", i), t, 60)
		}
		// honest, never scripted names a failed rung is followed by (ladderRecover)
		z.AddMarked(fmt.Sprintf("rk%d.evil.test.", i), dns.TypeA, 60)
	}
}

// ladderRecover: see burstRecover — after a rung that failed as a whole, step
// the virtual clock past the cached zone failure and let an honest, uncached
// question of the attacker's zone succeed.
func (cr *caseRun) ladderRecover(slot int) {
	if !cr.advance(7 * time.Second) {
		return
	}
	q := question{Name: fmt.Sprintf("rk%d.evil.test.", slot%(2*ladderPool)), Type: dns.TypeA, EDNS: true, DO: true}
	reply, from := cr.ask(q)
	cr.dbg("attack/ladder-recover", q, reply, from)
	if reply != nil && reply.Rcode == dns.RcodeSuccess && len(reply.Answer) > 0 {
		cr.r.Count("ladder_recoveries", 1)
	} else {
		cr.r.Count("ladder_recovery_failed", 1)
	}
}

// askLadder asks the rungs one after the other and judges every reply as an
// attack reply.
func (cr *caseRun) askLadder() {
	for i, g := range cr.w.ladder {
		g.q = randFlags(cr.rng, g.Name, g.Type)
		g.reply, g.from = cr.ask(g.q)
		if g.reply == nil || g.reply.Rcode == dns.RcodeServerFailure {
			cr.ladderRecover(i)
		}
	}
	for _, g := range cr.w.ladder {
		cr.judgeTrigger("attack", g.q, g.reply, g.from)
		cr.dbg("attack/rung "+g.String(), g.q, g.reply, g.from)
	}
}

// ladderSettled waits until every scripted packet of the case has its outcome
// recorded (the bound only keeps a wedged run from hanging).
func (cr *caseRun) ladderSettled() []authsim.Packet {
	waitUntil(func() bool {
		for _, p := range cr.w.u.Log.Since(cr.started) {
			if strings.HasPrefix(p.Action, cr.c.Label) && p.Outcome == "" {
				return false
			}
		}
		return true
	})
	return cr.w.u.Log.Since(cr.started)
}

func (cr *caseRun) replyClass(g *rung) string {
	if g.reply == nil {
		return "none"
	}
	if a, _, _ := markers(g.reply); a != nil {
		return "marker-relayed"
	}
	if g.reply.Rcode == dns.RcodeServerFailure {
		return "servfail"
	}
	want := cr.w.u.NS.Resolve(g.Name, g.Type)
	if g.reply.Rcode == want.Rcode && zm.AnswerMatches(g.reply.Answer, want.Answer) == "" {
		return "namespace-truth"
	}
	return "other"
}

func ladderRepeat(cr *caseRun) []question {
	var out []question
	seen := map[string]bool{}
	add := func(name string, t uint16) {
		k := zm.Canon(name) + "/" + dns.TypeToString[t]
		if !seen[k] {
			seen[k] = true
			out = append(out, question{Name: name, Type: t})
		}
	}
	for _, g := range cr.w.ladder {
		add(g.Name, g.Type)
		for _, fq := range []*dns.Question{g.Forged, g.Extra} {
			// what the forged message was about (a client can only ask class IN)
			if fq != nil && fq.Qclass == dns.ClassINET {
				add(fq.Name, fq.Qtype)
			}
		}
	}
	return out
}

// ---------------------------------------------------------------------------
// answer-rcode-ladder

var ladderRcodes = []int{dns.RcodeSuccess, dns.RcodeNameError, dns.RcodeServerFailure, dns.RcodeRefused,
	dns.RcodeFormatError, dns.RcodeNotImplemented, dns.RcodeYXDomain, dns.RcodeNotAuth}

func rcodeName(rc int) string { return strings.ToLower(dns.RcodeToString[rc]) }

func installRcodeLadder(w *world, c *CaseSpec) {
	rng := rand.New(rand.NewPCG(c.Seed, uint64(c.Index)*7919+29))
	perm := rng.Perm(ladderPool)
	w.ladder = nil
	for i, rc := range ladderRcodes {
		n := perm[i%ladderPool]
		g := &rung{Shape: c.Variant, Rcode: rc}
		switch c.Variant {
		case "alias":
			if rng.IntN(2) == 0 {
				g.Name, g.Type = fmt.Sprintf("rcn%d.evil.test.", n), []uint16{dns.TypeA, dns.TypeAAAA}[rng.IntN(2)]
			} else {
				g.Name, g.Type = fmt.Sprintf("rcm%d.evil.test.", n), []uint16{dns.TypeMX, dns.TypeA}[rng.IntN(2)]
			}
		case "alias-chain":
			g.Name, g.Type = fmt.Sprintf("rch%d.evil.test.", n), []uint16{dns.TypeA, dns.TypeAAAA}[rng.IntN(2)]
		case "dname":
			g.Name, g.Type = fmt.Sprintf("www.rdn%d.evil.test.", n), []uint16{dns.TypeA, dns.TypeAAAA}[rng.IntN(2)]
		default: // foreign-append | foreign-prepend | foreign-only
			g.Name, g.Type = fmt.Sprintf("q%d.rel.evil.test.", n), ladderTypes[rng.IntN(len(ladderTypes))]
		}
		w.ladder = append(w.ladder, g)
	}
	installNSAddrRungs(w, c, rng)
	onAll(w, authsim.Rule{Name: "*." + zEvil,
		Match: func(p *authsim.Packet) bool {
			g := w.rungFor(p.QNameL, p.QType)
			return g != nil && g.Shape != "nsaddr"
		},
		Action: authsim.Tamper(c.Label, func(q, honest *dns.Msg) *dns.Msg {
			g := w.rungFor(q.Question[0].Name, q.Question[0].Qtype)
			if g == nil {
				return honest
			}
			switch g.Shape {
			case "alias", "alias-chain", "dname":
				// the in-zone alias records are the attacker's to publish; the
				// "resolved" target's records are not
				target := ""
				for _, rr := range honest.Answer {
					if cn, ok := rr.(*dns.CNAME); ok && !zm.IsSub(zEvil, zm.Canon(cn.Target)) {
						target = cn.Target
					}
				}
				if target == "" {
					return honest
				}
				honest.Answer = append(honest.Answer, w.evilRR(target, q.Question[0].Qtype))
			case "foreign-append":
				honest.Answer = append(honest.Answer, w.poison(c.V6)...)
			case "foreign-prepend":
				honest.Answer = append(w.poison(c.V6), honest.Answer...)
			case "foreign-only":
				honest.Answer = w.poison(c.V6)
			}
			honest.Rcode = g.Rcode
			return honest
		})})
}

// installNSAddrRungs: the same kind of message as the answer to the resolver's
// OWN question. rz<i>.evil.test. is delegated (no glue) to the in-zone host
// nsrz<i>.evil.test.; the resolver's lookup of that host's address is answered,
// under a failure rcode, with the right address plus an out-of-zone tail (victim
// names, the SINK's address for the victim's and the TLD's nameservers). Every
// address the resolver takes from that answer is then asked the client's
// question. (In signed worlds the scripted referral lacks the DS denial and the
// rung fails as a whole; it is then counted as not delivered.)
func installNSAddrRungs(w *world, c *CaseSpec, rng *rand.Rand) {
	rcs := []int{dns.RcodeNameError, dns.RcodeServerFailure, ladderRcodes[3+rng.IntN(len(ladderRcodes)-3)]}
	for i, rc := range rcs {
		zone := fmt.Sprintf("rz%d.evil.test.", i)
		host := fmt.Sprintf("nsrz%d.evil.test.", i)
		g := &rung{Shape: "nsaddr", Rcode: rc, Name: "h." + zone, Type: dns.TypeA}
		w.ladder = append(w.ladder, g)
		var asked atomic.Bool
		onAll(w, authsim.Rule{Name: host, Action: authsim.Tamper(c.Label, func(q, _ *dns.Msg) *dns.Msg {
			asked.Store(true)
			m := replyTo(q, true)
			keepOPT(q, m)
			switch q.Question[0].Qtype {
			case dns.TypeA:
				m.Answer = append([]dns.RR{addrRR(host, addrEvil4)}, w.poison(c.V6)...)
			case dns.TypeAAAA:
				m.Answer = append([]dns.RR{addrRR(host, addrEvil6)}, w.poison(c.V6)...)
			default:
				m.Ns = []dns.RR{&dns.SOA{Hdr: hdr(zEvil, dns.TypeSOA, 60), Ns: "ns1.evil.test.", Mbox: "h.evil.test.", Serial: 1, Refresh: 1, Retry: 1, Expire: 1, Minttl: 60}}
				return m
			}
			m.Rcode = rc
			return m
		})})
		onAll(w, authsim.Rule{Name: "*." + zone, Action: authsim.Tamper(c.Label+":nsaddr-zone", func(q, _ *dns.Msg) *dns.Msg {
			if !asked.Load() {
				// until the resolver has looked the nameserver's address up, this
				// server speaks as the parent: a referral without glue
				return referral(q, []dns.RR{nsRR(zone, host, dns.ClassINET)}, nil)
			}
			m := replyTo(q, true)
			keepOPT(q, m)
			if zm.Canon(q.Question[0].Name) == zm.Canon(g.Name) && q.Question[0].Qtype == g.Type {
				m.Answer = []dns.RR{neutral(q.Question[0].Name, g.Type)}
			} else {
				m.Ns = []dns.RR{&dns.SOA{Hdr: hdr(zone, dns.TypeSOA, 60), Ns: host, Mbox: "h.evil.test.", Serial: 1, Refresh: 1, Retry: 1, Expire: 1, Minttl: 60}}
			}
			return m
		})})
	}
}

func attackRcodeLadder(cr *caseRun) (question, *dns.Msg) {
	cr.askLadder()
	for _, g := range cr.w.ladder {
		if g.Shape != "nsaddr" {
			continue
		}
		// the resolver's own address lookup was answered with the tailed message
		host := "ns" + strings.TrimPrefix(zm.Canon(g.Name), "h.")
		sent := 0
		for _, p := range cr.ladderSettled() {
			if p.Seq >= g.from && p.Action == cr.c.Label && p.QNameL == host && strings.Contains(p.Outcome, "answered:"+dns.RcodeToString[g.Rcode]) {
				sent++
			}
		}
		if sent > 0 {
			cr.r.Count("answer_rcode_nsaddr_rungs", 1)
			cr.r.Count("answer_rcode_nsaddr_rungs/"+rcodeName(g.Rcode), 1)
			cr.r.Count("answer_rcode_nsaddr_client_reply/"+rcodeName(g.Rcode)+"/"+cr.replyClass(g), 1)
		} else {
			cr.r.Count("answer_rcode_nsaddr_rung_not_delivered", 1)
		}
	}
	for _, p := range cr.ladderSettled() {
		if p.Action != cr.c.Label {
			continue
		}
		g := cr.w.rungFor(p.QNameL, p.QType)
		if g == nil || g.Shape == "nsaddr" || !strings.Contains(p.Outcome, "answered:"+dns.RcodeToString[g.Rcode]) {
			continue
		}
		cr.r.Count("answer_rcode_messages_sent/"+rcodeName(g.Rcode), 1)
	}
	for _, g := range cr.w.ladder {
		if g.Shape == "nsaddr" {
			continue
		}
		sent := 0
		for _, p := range cr.w.u.Log.Since(g.from) {
			if p.Action == cr.c.Label && p.QType == g.Type && p.QNameL == zm.Canon(g.Name) && strings.Contains(p.Outcome, "answered:"+dns.RcodeToString[g.Rcode]) {
				sent++
			}
		}
		if sent == 0 {
			cr.r.Count("answer_rcode_rung_not_delivered", 1)
			continue
		}
		cr.r.Count("answer_rcode_rungs/"+rcodeName(g.Rcode), 1)
		cr.r.Count("answer_rcode_rungs_by_shape/"+g.Shape, 1)
		if g.Rcode != dns.RcodeSuccess {
			cr.r.Count("answer_failure_rcode_rungs", 1)
		}
		cr.r.DistinctIn("answer_rcode_shape", rcodeName(g.Rcode)+"|"+g.Shape)
		cr.r.Count("answer_rcode_client_reply/"+rcodeName(g.Rcode)+"/"+cr.replyClass(g), 1)
	}
	cr.sinkCheck("attack")
	last := cr.w.ladder[len(cr.w.ladder)-1]
	return last.q, last.reply
}

// ---------------------------------------------------------------------------
// spoof-question-relative

// relativeShapes: how the forged message's question relates to the one asked.
var relativeShapes = []string{
	"below-1", "below-3", "below-wildcard", "escaped-dot-below",
	"above-1", "above-tld", "above-root", "sibling", "first-label-extended",
	"victim", "other-type", "other-class", "no-question", "two-questions",
}

func parentOf(name string) string {
	l := dns.SplitDomainName(name)
	if len(l) <= 1 {
		return "."
	}
	return strings.Join(l[1:], ".") + "."
}

// forgedQuestion builds the question section of the forged message for a rung.
func forgedQuestion(shape string, asked dns.Question) (first, second *dns.Question) {
	fq := asked
	switch shape {
	case "below-1":
		fq.Name = "login." + strings.TrimPrefix(asked.Name, ".")
	case "below-3":
		fq.Name = "a.b.c." + strings.TrimPrefix(asked.Name, ".")
	case "below-wildcard":
		fq.Name = "*." + strings.TrimPrefix(asked.Name, ".")
	case "escaped-dot-below":
		// ONE label "login.<first label>": the text ends in the asked name, the
		// label sequence does not
		fq.Name = `login\.` + asked.Name
	case "above-1":
		fq.Name = parentOf(asked.Name)
	case "above-tld":
		fq.Name = zTLD
	case "above-root":
		fq.Name = zRoot
	case "sibling":
		fq.Name = "other." + strings.TrimPrefix(parentOf(asked.Name), ".")
	case "first-label-extended":
		fq.Name = "x" + asked.Name
	case "victim":
		fq.Name = "www.victim.test."
	case "victim-apex":
		fq.Name = zVictim
	case "other-type":
		fq.Qtype = dns.TypeAAAA
		if asked.Qtype == dns.TypeAAAA {
			fq.Qtype = dns.TypeA
		}
	case "other-class":
		fq.Qclass = dns.ClassCHAOS
	case "no-question":
		return nil, nil
	case "two-questions":
		x := asked
		x.Name = "www.victim.test."
		return &asked, &x
	}
	return &fq, nil
}

func installRelativeLadder(w *world, c *CaseSpec) {
	rng := rand.New(rand.NewPCG(c.Seed, uint64(c.Index)*7919+31))
	perm := rng.Perm(2 * ladderPool)
	w.ladder = nil
	for i, shape := range relativeShapes {
		g := &rung{Shape: shape, Host: "evil",
			Name: fmt.Sprintf("q%d.rel.evil.test.", perm[i%len(perm)]), Type: ladderTypes[rng.IntN(len(ladderTypes))]}
		w.ladder = append(w.ladder, g)
	}
	// asked: an apex of the honest hierarchy. Whatever the forged question is, it
	// is AT OR BELOW the root; the TLD's forged question is a victim's.
	w.ladder = append(w.ladder,
		&rung{Shape: "asked-root/victim", Host: "root", Name: zRoot, Type: []uint16{dns.TypeTXT, dns.TypeMX}[rng.IntN(2)]},
		&rung{Shape: "asked-tld/victim-apex", Host: "tld", Name: zTLD, Type: []uint16{dns.TypeMX, dns.TypeTXT}[rng.IntN(2)]})
	for _, g := range w.ladder {
		asked := dns.Question{Name: g.Name, Qtype: g.Type, Qclass: dns.ClassINET}
		shape := g.Shape
		switch g.Host {
		case "root":
			shape = "victim"
		case "tld":
			shape = "victim-apex"
		}
		g.Forged, g.Extra = forgedQuestion(shape, asked)
	}

	udp := c.Variant == "udp" || c.Variant == "both"
	tcp := c.Variant == "tcp" || c.Variant == "both"
	forge := func(q, _ *dns.Msg) *dns.Msg {
		g := w.rungFor(q.Question[0].Name, q.Question[0].Qtype)
		if g == nil {
			return nil
		}
		out := replyTo(q, true)
		keepOPT(q, out)
		out.Question = nil
		for _, fq := range []*dns.Question{g.Forged, g.Extra} {
			if fq != nil {
				out.Question = append(out.Question, *fq)
			}
		}
		// the forged answer is about the forged question; with no (or the asked)
		// question, about the asked one
		owner, t := q.Question[0].Name, q.Question[0].Qtype
		if g.Forged != nil {
			owner = g.Forged.Name
			if g.Forged.Qtype != t && g.Shape == "other-type" {
				t = g.Forged.Qtype
			}
		}
		out.Answer = []dns.RR{w.evilRR(owner, t)}
		if g.Extra != nil {
			out.Answer = append(out.Answer, w.evilRR(g.Extra.Name, t))
		}
		return out
	}
	isQuery := func(p *authsim.Packet) bool {
		return p.Msg() != nil && !p.Msg().Response && w.rungHost(p) != ""
	}
	servers := map[string][]*authsim.Server{"evil": w.evils, "root": {w.rootSrv}, "tld": {w.tldSrv}}
	for host, list := range servers {
		host := host
		match := func(p *authsim.Packet) bool { return isQuery(p) && w.rungHost(p) == host }
		for _, s := range list {
			pre := w.recording(authsim.Action{Label: c.Label, Pre: []authsim.PreKind{authsim.PreWrongQEvil}, PreTamper: forge})
			if udp {
				s.AddRule(authsim.Rule{Transport: "udp", Match: match, Action: pre})
			} else {
				s.AddRule(authsim.Rule{Transport: "udp", Match: match,
					Action: authsim.Action{Label: c.Label + ":tc", Truncate: true, TCP: authsim.TCPAnswer}})
			}
			if tcp {
				pre.PreTCP = true
				s.AddRule(authsim.Rule{Transport: "tcp", Match: match, Action: pre})
			}
		}
	}
}

// rungHost: the host of the rung a packet belongs to ("" = none).
func (w *world) rungHost(p *authsim.Packet) string {
	if g := w.rungFor(p.QNameL, p.QType); g != nil {
		return g.Host
	}
	return ""
}

func attackRelativeLadder(cr *caseRun) (question, *dns.Msg) {
	cr.askLadder()
	log := cr.ladderSettled()
	for _, g := range cr.w.ladder {
		forged := map[string]int{}
		for _, p := range log {
			if p.Seq < g.from || p.Action != cr.c.Label || p.QType != g.Type || p.QNameL != zm.Canon(g.Name) {
				continue
			}
			for _, o := range strings.Split(p.Outcome, ",") {
				if o == "pre" {
					forged[p.Transport]++
				}
			}
		}
		if len(forged) == 0 {
			cr.r.Count("spoof_relative_rung_not_delivered", 1)
			cr.r.Count("spoof_relative_rung_not_delivered/"+g.Shape, 1)
			continue
		}
		for tr, n := range forged {
			cr.r.Count("spoof_relative_forged_messages_sent/"+tr, n)
			cr.r.Count("spoof_relative_rungs_by_transport/"+tr, 1)
		}
		cr.r.Count("spoof_relative_rungs/"+g.Shape, 1)
		cr.r.Count("spoof_relative_rungs_via/"+g.Host, 1)
		cr.r.DistinctIn("spoof_relative_shape", g.Shape+"|"+cr.c.Variant)
		cr.r.Count("spoof_relative_client_reply/"+cr.c.Variant+"/"+cr.replyClass(g), 1)
	}
	cr.sinkCheck("attack")
	last := cr.w.ladder[len(cr.w.ladder)-1]
	return last.q, last.reply
}

func ladderKinds() []*attackKind {
	return []*attackKind{
		{
			Name: "answer-rcode-ladder", Family: "answer",
			Variants: []string{"alias", "foreign-append", "alias-chain", "foreign-only", "dname", "foreign-prepend"},
			Trigger:  q("www.evil.test.", dns.TypeA),
			Install:  installRcodeLadder,
			Attack:   attackRcodeLadder,
			Repeat:   ladderRepeat,
		},
		{
			Name: "spoof-question-relative", Family: "spoof",
			Variants: []string{"udp", "tcp", "both"},
			Trigger:  q("www.evil.test.", dns.TypeA),
			Install:  installRelativeLadder,
			Attack:   attackRelativeLadder,
			Repeat:   ladderRepeat,
		},
	}
}
