package main

import (
	"fmt"
	"math/rand/v2"
	"net"
	"net/netip"
	"strings"
	"sync"
	"sync/atomic"

	"github.com/miekg/dns"
	"github.com/semihalev/sdns/config"
	"github.com/semihalev/sdns/zzverif/authsim"
	zm "github.com/semihalev/sdns/zzverif/zonemodel"
)

// Names of the fixed topology. The AUTHORITY MAP is:
//
//	.             -> server "root"
//	test.         -> server "tld"
//	evil.test.    -> server(s) "evil1" [, "evil2"]      (the attacker's zone Z)
//	victim.test.  -> server "victim"                    (honest, never scripted)
//
// Everything an evil server says about a name that is not inside evil.test.
// is outside its authority.
const (
	zRoot   = "."
	zTLD    = "test."
	zEvil   = "evil.test."
	zVictim = "victim.test."

	// Advertised addresses (documentation ranges). None of them is the
	// sandbox's own interface address (192.0.2.2): sdns filters local
	// interface addresses out of NS address sets.
	addrRoot4, addrRoot6     = "198.51.100.10", "2001:db8::10"
	addrTLD4, addrTLD6       = "198.51.100.20", "2001:db8::20"
	addrVictim4, addrVictim6 = "198.51.100.30", "2001:db8::30"
	addrEvil4, addrEvil6     = "198.51.100.66", "2001:db8::66"
	addrEvilB4, addrEvilB6   = "198.51.100.67", "2001:db8::67"

	// SINK addresses: owned by no server of the universe; only the attacker
	// ever advertises them, and only in places where their use is illegal.
	sinkV4 = "203.0.113.166"
	sinkV6 = "2001:db8:bad::53"

	// Deep worlds (WorldSpec.Deep) add an honest zone corp.test. (server "corp")
	// that delegates a.b.corp.test. — TWO labels down in one step — to the
	// attacker's servers, and an honest zone partner.test. whose only NS host
	// is ns.sib.b.corp.test. (an honest name of corp.test., published without
	// glue by test.). The attacker is authoritative for evil.test. and
	// a.b.corp.test. and nothing else.
	zCorp    = "corp.test."
	zDeep    = "a.b.corp.test."
	zPartner = "partner.test."
	sibNS    = "ns.sib.b.corp.test."

	addrCorp4, addrCorp6 = "198.51.100.40", "2001:db8::40"

	evilTTL = 86400
	// evilNS is an NS target inside Z (so that glue for it is in the
	// delegating zone's bailiwick) whose rdata occurrences are evil markers.
	evilNS = "ns-evil-marker.evil.test."
)

var (
	evilNet4 = netip.MustParsePrefix("6.6.6.0/24")
	evilNet6 = netip.MustParsePrefix("2001:db8:666::/48")
)

// WorldSpec is the serialisable description of one universe + pipeline.
type WorldSpec struct {
	Mode    string `json:"mode"`           // off | insecure | signed
	QMin    int    `json:"qmin"`           // cfg.QnameMinLevel
	IPv6    bool   `json:"ipv6"`           // cfg.IPv6Access
	TwoEvil bool   `json:"two_evil"`       // Z served by two servers, both malicious
	Warm    bool   `json:"warm"`           // victim names resolved (and cached) before the attack
	Deep    bool   `json:"deep,omitempty"` // corp.test. / a.b.corp.test. / partner.test. exist (see zDeep)
}

func (s WorldSpec) String() string {
	d := ""
	if s.Deep {
		d = "/deep"
	}
	return fmt.Sprintf("%s/qmin%d/v6=%v/evil2=%v/warm=%v%s", s.Mode, s.QMin, s.IPv6, s.TwoEvil, s.Warm, d)
}

type world struct {
	spec   WorldSpec
	u      *authsim.Universe
	root   *zm.Zone
	tld    *zm.Zone
	evil   *zm.Zone
	victim *zm.Zone
	evils  []*authsim.Server
	seq    atomic.Int64

	// deep worlds only
	corp    *zm.Zone
	deep    *zm.Zone
	partner *zm.Zone
	corpSrv *authsim.Server

	// per-case attack state shared between a kind's Install and Attack
	gate *authsim.Gate
	// spoof-burst kinds: the ladder of questions and their bursts
	bursts []burstQ
	// ladder kinds (ladders.go): the rungs of the case
	ladder []*rung
	// the honest root / test. servers: never tampered with; the spoof-question-
	// relative kind sends forged datagrams AHEAD of their unchanged replies
	rootSrv, tldSrv *authsim.Server

	sentMu sync.Mutex
	sent   []string // summaries of the first scripted (attack) messages the evil servers built

	local4, local6 net.IP // a local interface address of each family (nil if none)
}

func genWorld(rng *rand.Rand, needV6 bool) WorldSpec {
	s := WorldSpec{}
	switch x := rng.IntN(8); {
	case x < 2:
		s.Mode = "off"
	case x < 6:
		s.Mode = "insecure"
	default:
		s.Mode = "signed"
	}
	if rng.IntN(3) > 0 {
		s.QMin = 5
	}
	s.IPv6 = needV6 || rng.IntN(4) == 0
	s.TwoEvil = rng.IntN(4) == 0
	s.Warm = rng.IntN(2) == 0
	return s
}

// allLocalInterfaceAddrs lists EVERY non-loopback address of the machine's
// interfaces (both families, link-local included) — the set sdns's isLocalIP
// is built from, minus loopback (which usableAddr rejects on its own).
func allLocalInterfaceAddrs() (out []netip.Addr) {
	addrs, err := net.InterfaceAddrs()
	if err != nil {
		return nil
	}
	seen := map[netip.Addr]bool{}
	for _, a := range addrs {
		n, ok := a.(*net.IPNet)
		if !ok {
			continue
		}
		ip, ok := netip.AddrFromSlice(n.IP)
		if !ok {
			continue
		}
		ip = ip.Unmap().WithZone("")
		if ip.IsLoopback() || ip.IsUnspecified() || seen[ip] {
			continue
		}
		seen[ip] = true
		out = append(out, ip)
	}
	return out
}

// localInterfaceAddrs picks one non-loopback address per family from the
// machine's interfaces (what sdns's isLocalIP knows about).
func localInterfaceAddrs() (v4, v6 net.IP) {
	addrs, err := net.InterfaceAddrs()
	if err != nil {
		return nil, nil
	}
	for _, a := range addrs {
		n, ok := a.(*net.IPNet)
		if !ok || n.IP.IsLoopback() || n.IP.IsLinkLocalUnicast() {
			continue
		}
		if ip4 := n.IP.To4(); ip4 != nil {
			if v4 == nil {
				v4 = ip4
			}
		} else if v6 == nil {
			v6 = n.IP
		}
	}
	return
}

func buildWorld(spec WorldSpec) *world {
	w := &world{spec: spec, u: authsim.New()}
	w.local4, w.local6 = localInterfaceAddrs()
	u := w.u
	sr := u.AddServer("root", addrRoot4, addrRoot6)
	st := u.AddServer("tld", addrTLD4, addrTLD6)
	sv := u.AddServer("victim", addrVictim4, addrVictim6)
	w.evils = []*authsim.Server{u.AddServer("evil1", addrEvil4, addrEvil6)}
	if spec.TwoEvil {
		w.evils = append(w.evils, u.AddServer("evil2", addrEvilB4, addrEvilB6))
	}
	w.rootSrv, w.tldSrv = sr, st
	upper := spec.Mode != "off"
	leaf := spec.Mode == "signed"
	w.root = u.AddZone(zm.Spec{Apex: zRoot, Signed: upper}, sr)
	w.tld = u.AddZone(zm.Spec{Apex: zTLD, Signed: upper}, st)
	var n3 *zm.NSEC3Params
	if leaf {
		n3 = &zm.NSEC3Params{}
	}
	w.evil = u.AddZone(zm.Spec{Apex: zEvil, Signed: leaf}, w.evils...)
	w.victim = u.AddZone(zm.Spec{Apex: zVictim, Signed: leaf, NSEC3: n3}, sv)
	u.Delegate(w.root, w.tld, authsim.DelegOpts{NSTTL: 600, DSTTL: 600})
	u.Delegate(w.tld, w.evil, authsim.DelegOpts{NSTTL: 600, DSTTL: 600})
	u.Delegate(w.tld, w.victim, authsim.DelegOpts{NSTTL: 600, DSTTL: 600})

	if spec.Deep {
		sc := u.AddServer("corp", addrCorp4, addrCorp6)
		w.corpSrv = sc
		w.corp = u.AddZone(zm.Spec{Apex: zCorp, Signed: leaf, NSEC3: n3}, sc)
		w.deep = u.AddZone(zm.Spec{Apex: zDeep, Signed: false}, w.evils...)
		w.partner = u.AddZone(zm.Spec{Apex: zPartner, Signed: leaf, NSEC3: n3, NSHosts: []string{sibNS}}, sc)
		u.Delegate(w.tld, w.corp, authsim.DelegOpts{NSTTL: 600, DSTTL: 600})
		u.Delegate(w.corp, w.deep, authsim.DelegOpts{NSTTL: 600, DSTTL: 600})
		u.Delegate(w.tld, w.partner, authsim.DelegOpts{NSTTL: 600, DSTTL: 600, NS: []zm.NSHost{{Name: sibNS}}, NoGlue: true})
		w.corp.AddMarked("www.corp.test.", dns.TypeA, 60)
		w.corp.AddAddr(sibNS, net.ParseIP(addrCorp4), 60)
		w.corp.AddAddr(sibNS, net.ParseIP(addrCorp6), 60)
		w.partner.AddMarked("www.partner.test.", dns.TypeA, 60)
		// the attacker's own deep zone
		w.deep.AddMarked("w.a.b.corp.test.", dns.TypeTXT, 60)
		w.deep.AddMarked("w.a.b.corp.test.", dns.TypeA, 60)
	}

	// honest victim data (what the follow-ups must see)
	w.victim.AddMarked("www.victim.test.", dns.TypeA, 60)
	w.victim.AddMarked("www.victim.test.", dns.TypeAAAA, 60)
	w.victim.AddMarked(zVictim, dns.TypeMX, 60)
	w.victim.AddMarked(zVictim, dns.TypeA, 60)
	w.victim.AddMarked("mail.victim.test.", dns.TypeA, 60)

	// the attacker's own zone: everything here is legitimately his to say
	w.evil.AddMarked("www.evil.test.", dns.TypeA, 60)
	w.evil.AddMarked("www.evil.test.", dns.TypeAAAA, 60)
	w.evil.AddMarked("www.evil.test.", dns.TypeMX, 60)
	w.evil.AddMarked("nodata.evil.test.", dns.TypeTXT, 60)
	w.evil.AddCNAME("alias.evil.test.", "www.victim.test.", 60)
	w.evil.AddCNAME("a1.evil.test.", "a2.evil.test.", 60)
	w.evil.AddCNAME("a2.evil.test.", "www.victim.test.", 60)
	w.evil.AddCNAME("mxalias.evil.test.", zVictim, 60)
	w.evil.AddDNAME("dn.evil.test.", zVictim, 60)
	w.evil.AddMarked("host.sub.evil.test.", dns.TypeA, 60)
	w.evil.AddMarked("host.sub.evil.test.", dns.TypeAAAA, 60)
	addBurstData(w.evil)
	addLadderData(w.evil)
	w.evil.AddAddr(evilNS, net.ParseIP(addrEvil4), 60)
	w.evil.AddAddr(evilNS, net.ParseIP(addrEvil6), 60)

	// Whatever an evil server is asked about a name outside its zones (it
	// is reached there only through a poisoned delegation or address), it
	// answers authoritatively with evil-marked data. This rule stays
	// installed for the whole case.
	for _, s := range w.evils {
		s.SetDefault(authsim.Action{Label: "evil-out-of-zone-default", Tamper: w.outOfZoneAnswer})
	}
	return w
}

// outOfZoneAnswer is the evil servers' default behaviour: honest inside their
// zones, an authoritative evil-marked answer for everything else.
func (w *world) outOfZoneAnswer(q, honest *dns.Msg) *dns.Msg {
	name := zm.Canon(q.Question[0].Name)
	if w.attackerOwns(name) {
		return honest
	}
	m := new(dns.Msg)
	m.SetReply(q)
	m.Authoritative = true
	if opt := q.IsEdns0(); opt != nil {
		m.SetEdns0(1232, opt.Do())
	}
	switch q.Question[0].Qtype {
	case dns.TypeA, dns.TypeAAAA, dns.TypeMX, dns.TypeNS, dns.TypeTXT:
		m.Answer = []dns.RR{w.evilRR(q.Question[0].Name, q.Question[0].Qtype)}
	default:
		m.Ns = []dns.RR{w.evilSOA(name)}
	}
	return m
}

// attackerOwns: name lies inside a zone the evil servers are authoritative for.
func (w *world) attackerOwns(name string) bool {
	return zm.IsSub(zEvil, name) || (w.spec.Deep && zm.IsSub(zDeep, name))
}

func hdr(owner string, t uint16, ttl uint32) dns.RR_Header {
	return dns.RR_Header{Name: owner, Rrtype: t, Class: dns.ClassINET, Ttl: ttl}
}

// evilRR builds an evil-marked record of type t for owner.
func (w *world) evilRR(owner string, t uint16) dns.RR {
	k := byte(1 + w.seq.Add(1)%250)
	switch t {
	case dns.TypeA:
		return &dns.A{Hdr: hdr(owner, t, evilTTL), A: net.IPv4(6, 6, 6, k)}
	case dns.TypeAAAA:
		return &dns.AAAA{Hdr: hdr(owner, t, evilTTL), AAAA: net.ParseIP(fmt.Sprintf("2001:db8:666::%x", k))}
	case dns.TypeMX:
		return &dns.MX{Hdr: hdr(owner, t, evilTTL), Preference: 1, Mx: "mx.evil-marker.invalid."}
	case dns.TypeNS:
		return &dns.NS{Hdr: hdr(owner, t, evilTTL), Ns: evilNS}
	case dns.TypeTXT:
		return &dns.TXT{Hdr: hdr(owner, t, evilTTL), Txt: []string{"evil-marker"}}
	case dns.TypeCNAME:
		return &dns.CNAME{Hdr: hdr(owner, t, evilTTL), Target: "cname.evil-marker.invalid."}
	}
	return &dns.TXT{Hdr: hdr(owner, dns.TypeTXT, evilTTL), Txt: []string{"evil-marker"}}
}

func (w *world) evilSOA(owner string) dns.RR {
	return &dns.SOA{Hdr: hdr(owner, dns.TypeSOA, evilTTL), Ns: "soa.evil-marker.invalid.", Mbox: "evil-marker.invalid.",
		Serial: 666, Refresh: 3600, Retry: 600, Expire: 86400, Minttl: evilTTL}
}

func addrRR(owner string, ip string) dns.RR {
	p := net.ParseIP(ip)
	if !strings.Contains(ip, ":") {
		return &dns.A{Hdr: hdr(owner, dns.TypeA, evilTTL), A: p.To4()}
	}
	// textual IPv6 (including v4-mapped forms) stays an AAAA record
	return &dns.AAAA{Hdr: hdr(owner, dns.TypeAAAA, evilTTL), AAAA: p.To16()}
}

func nsRR(owner, target string, class uint16) dns.RR {
	h := hdr(owner, dns.TypeNS, evilTTL)
	h.Class = class
	return &dns.NS{Hdr: h, Ns: target}
}

// isEvil reports whether a client-visible record carries an evil marker:
// rdata in the evil address nets, a sink address, or an "evil-marker" name /
// text. Owner names never count (ns-evil-marker.evil.test. is a legitimate
// in-zone owner).
func isEvil(rr dns.RR) bool {
	switch v := rr.(type) {
	case *dns.A:
		a, ok := netip.AddrFromSlice(v.A)
		if !ok {
			return false
		}
		a = a.Unmap()
		return evilNet4.Contains(a) || a.String() == sinkV4
	case *dns.AAAA:
		a, ok := netip.AddrFromSlice(v.AAAA)
		if !ok {
			return false
		}
		return evilNet6.Contains(a) || a.String() == sinkV6
	case *dns.OPT, *dns.RRSIG, *dns.NSEC, *dns.NSEC3, *dns.DNSKEY, *dns.DS:
		return false
	}
	s := rr.String()
	// strip the owner: the rdata follows the 4th tab-separated field
	parts := strings.SplitN(s, "\t", 5)
	if len(parts) == 5 {
		s = parts[4]
	}
	return strings.Contains(strings.ToLower(s), "evil-marker")
}

func evilIn(rrs []dns.RR) dns.RR {
	for _, rr := range rrs {
		if isEvil(rr) {
			return rr
		}
	}
	return nil
}

// mapper wraps the universe's dial remapper: loopback:53 and the machine's own
// interface addresses (which only attacker glue can name — no universe server
// is advertised there and nothing listens on port 53) go to the SINK, so that
// "an unusable address was contacted" is observable in the packet log.
func (w *world) mapper() func(string) string {
	base := w.u.Mapper()
	sink := w.u.Sink().Addr()
	locals := map[netip.Addr]bool{}
	if addrs, err := net.InterfaceAddrs(); err == nil {
		for _, a := range addrs {
			if n, ok := a.(*net.IPNet); ok {
				if ip, ok := netip.AddrFromSlice(n.IP); ok {
					locals[ip.Unmap()] = true
				}
			}
		}
	}
	return func(addr string) string {
		host, port, err := net.SplitHostPort(addr)
		if err != nil {
			return sink
		}
		ip, err := netip.ParseAddr(host)
		if err != nil {
			return sink
		}
		ip = ip.Unmap()
		if ip.IsLoopback() && port == "53" {
			return sink
		}
		if !ip.IsLoopback() && locals[ip] {
			return sink
		}
		return base(addr)
	}
}

func (w *world) newStack() (*authsim.RStack, error) {
	st, err := w.u.NewResolverStack(func(c *config.Config) {
		c.QnameMinLevel = w.spec.QMin
		c.IPv6Access = w.spec.IPv6
		c.Timeout.Duration = upstreamTimeout
		if w.spec.Mode == "off" {
			c.DNSSEC = "off"
			c.RootKeys = nil
		}
	})
	if err != nil {
		return nil, err
	}
	st.Handler.VerifSetResolveTarget(w.mapper())
	return st, nil
}

func (w *world) clearScripts() {
	for _, s := range w.evils {
		s.ClearScript(false)
		s.SetDefault(authsim.Action{Label: "evil-out-of-zone-default", Tamper: w.outOfZoneAnswer})
	}
	if w.gate != nil {
		w.gate.Release()
	}
	for _, s := range []*authsim.Server{w.rootSrv, w.tldSrv} {
		// honest servers: only ever had forged datagrams sent ahead of their replies
		if s != nil {
			s.ClearScript(false)
		}
	}
	if w.corpSrv != nil {
		// the honest server is only ever GATED (a delay at the socket), never tampered with
		w.corpSrv.ClearScript(false)
	}
}

// recording wraps an attack action so that the messages the evil servers
// actually build (the attack script as executed) are kept for evidence
// samples and replay files.
func (w *world) recording(a authsim.Action) authsim.Action {
	wrap := func(what string, f authsim.TamperFunc) authsim.TamperFunc {
		if f == nil {
			return nil
		}
		return func(q, honest *dns.Msg) *dns.Msg {
			out := f(q, honest)
			w.noteSent(what, q, out)
			return out
		}
	}
	a.Tamper = wrap("response", a.Tamper)
	a.PreTamper = wrap("pre-datagram(wrong id/question)", a.PreTamper)
	return a
}

func (w *world) noteSent(what string, q, m *dns.Msg) {
	w.sentMu.Lock()
	defer w.sentMu.Unlock()
	if len(w.sent) >= 4 || m == nil || len(q.Question) == 0 {
		return
	}
	w.sent = append(w.sent, fmt.Sprintf("%s to [%s %s]: %s", what, zm.Canon(q.Question[0].Name), dns.TypeToString[q.Question[0].Qtype], summarize(m)))
}

func (w *world) sentSummaries() []string {
	w.sentMu.Lock()
	defer w.sentMu.Unlock()
	return append([]string(nil), w.sent...)
}

func rrList(rrs []dns.RR) string {
	var out []string
	for _, rr := range rrs {
		if _, ok := rr.(*dns.OPT); ok {
			continue
		}
		if sig, ok := rr.(*dns.RRSIG); ok {
			out = append(out, fmt.Sprintf("%s RRSIG(%s)", sig.Hdr.Name, dns.TypeToString[sig.TypeCovered]))
			continue
		}
		f := strings.Fields(rr.String())
		if len(f) > 3 {
			f = append(f[:1], f[3:]...) // owner type rdata
		}
		out = append(out, strings.Join(f, " "))
		if len(out) >= 12 {
			out = append(out, "...")
			break
		}
	}
	return "[" + strings.Join(out, "; ") + "]"
}

// summarize renders a message compactly: flags, question, sections.
func summarize(m *dns.Msg) string {
	if m == nil {
		return "<no reply>"
	}
	qs := "<no question>"
	if len(m.Question) > 0 {
		qs = strings.ToLower(m.Question[0].Name) + " " + dns.TypeToString[m.Question[0].Qtype]
		if m.Question[0].Qclass != dns.ClassINET {
			qs += " " + dns.ClassToString[m.Question[0].Qclass]
		}
	}
	fl := ""
	if m.Authoritative {
		fl += " aa"
	}
	if m.Truncated {
		fl += " tc"
	}
	if m.AuthenticatedData {
		fl += " ad"
	}
	s := fmt.Sprintf("%s%s q=(%s) AN%s", dns.RcodeToString[m.Rcode], fl, qs, rrList(m.Answer))
	if len(m.Ns) > 0 {
		s += " NS" + rrList(m.Ns)
	}
	if x := rrList(m.Extra); x != "[]" {
		s += " AR" + x
	}
	return s
}
