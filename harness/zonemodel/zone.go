package zonemodel

import (
	"crypto"
	"encoding/base64"
	"fmt"
	"net"
	"sort"
	"strings"
	"sync"
	"time"

	"github.com/miekg/dns"
)

// NSEC3Params selects hashed denial for a zone. Salt is hex ("" = no salt).
type NSEC3Params struct {
	Salt       string `json:"salt"`
	Iterations uint16 `json:"iterations"`
	OptOut     bool   `json:"opt_out"`
}

// Spec is the serialisable description of a zone's shape. Records are added
// through the mutation API afterwards.
type Spec struct {
	Apex   string `json:"apex"`
	Class  uint16 `json:"class,omitempty"` // default IN
	Signed bool   `json:"signed"`
	// Algorithm: 13 (ECDSA-P256, default), 8 (RSASHA256), 14 (P-384), 15 (Ed25519).
	Algorithm uint8 `json:"algorithm,omitempty"`
	// SplitKeys: KSK(257) signs DNSKEY, ZSK(256) signs everything (and DNSKEY).
	// Default is one combined key with flags 257.
	SplitKeys bool `json:"split_keys,omitempty"`
	// CloneKeyTag publishes an additional DNSKEY with the same owner,
	// algorithm, flags and key tag as the signing key but different key
	// material (nobody holds its private half).
	CloneKeyTag bool `json:"clone_key_tag,omitempty"`
	// NSEC3 != nil selects NSEC3 denial, otherwise NSEC.
	NSEC3 *NSEC3Params `json:"nsec3,omitempty"`
	// RSABits for algorithm 8 (default 1024: the smallest sdns accepts).
	RSABits int `json:"rsa_bits,omitempty"`
	// MarkerSpace distinguishes provenance markers of different zones of one
	// universe (second octet of marker addresses).
	MarkerSpace uint8 `json:"marker_space,omitempty"`
	// DefaultTTL for generated records (default 3600); NegTTL = SOA minimum (300).
	DefaultTTL uint32 `json:"default_ttl,omitempty"`
	NegTTL     uint32 `json:"neg_ttl,omitempty"`
	// NSHosts are the apex NS targets (default "ns.<apex>"). The model adds
	// the NS RRset at the apex; address records are the caller's business.
	NSHosts []string `json:"ns_hosts,omitempty"`
}

// Key is one DNSKEY with (optionally) its private half.
type Key struct {
	DNSKEY *dns.DNSKEY
	Priv   crypto.Signer // nil for clone keys
}

// RRset is one published RRset. Marker is non-empty for generated
// provenance-marked sets.
type RRset struct {
	Owner  string
	Type   uint16
	TTL    uint32
	RRs    []dns.RR
	Marker string // e.g. "m:<space>:<seq>:<gen>:<owner>:<type>"
}

// Delegation is a zone cut below the apex, as the parent sees it.
type Delegation struct {
	Child string
	NS    []dns.RR // NS RRset at Child (parent side, unsigned)
	Glue  []dns.RR // A/AAAA for in-bailiwick (or any) NS hosts; additional section
	DS    []dns.RR // nil/empty = insecure delegation
}

// Secure reports whether the parent publishes a DS for the cut.
func (d *Delegation) Secure() bool { return len(d.DS) > 0 }

type node struct {
	sets map[uint16]*RRset
}

// Zone is a mutable authoritative zone. All methods are safe for concurrent
// use; every mutation bumps Generation and invalidates cached signatures and
// denial chains (they are rebuilt lazily, i.e. the zone is "re-signed").
type Zone struct {
	mu    sync.RWMutex
	sigMu sync.Mutex
	spec  Spec

	apex  string
	class uint16
	keys  []*Key
	gen   uint64
	seq   uint32

	nodes  map[string]*node
	delegs map[string]*Delegation

	// caches, cleared on mutation
	sigs    map[sigKey][]dns.RR
	nsec    []*dns.NSEC
	nsec3   []*dns.NSEC3
	n3names map[string]string // original name -> hash owner label (lower)
	markers map[string]*RRset // rdata marker string -> set

	// SigInception / SigExpiration override the default wide window
	// (now-48h .. now+30d) when non-zero.
	SigInception, SigExpiration uint32
	// ChaseInZone: follow CNAME/DNAME targets that stay inside the zone in
	// Respond (what real authoritative servers do). Default true.
	ChaseInZone bool
	// AuthorityNS adds the apex NS RRset to the authority section of positive
	// answers. Default false (minimal responses).
	AuthorityNS bool
}

type sigKey struct {
	owner string
	typ   uint16
}

// New creates a zone with SOA and apex NS (and DNSKEY / NSEC3PARAM when
// signed). It panics on key generation failure (harness error).
func New(spec Spec) *Zone {
	spec.Apex = Canon(spec.Apex)
	if spec.Class == 0 {
		spec.Class = dns.ClassINET
	}
	if spec.Algorithm == 0 {
		spec.Algorithm = dns.ECDSAP256SHA256
	}
	if spec.DefaultTTL == 0 {
		spec.DefaultTTL = 3600
	}
	if spec.NegTTL == 0 {
		spec.NegTTL = 300
	}
	if len(spec.NSHosts) == 0 {
		spec.NSHosts = []string{Join("ns", spec.Apex)}
	}
	z := &Zone{
		spec:        spec,
		apex:        spec.Apex,
		class:       spec.Class,
		nodes:       map[string]*node{},
		delegs:      map[string]*Delegation{},
		ChaseInZone: true,
	}
	z.invalidateLocked()
	soa := &dns.SOA{
		Hdr: z.hdr(z.apex, dns.TypeSOA, spec.DefaultTTL),
		Ns:  Canon(spec.NSHosts[0]), Mbox: Join("hostmaster", z.apex),
		Serial: 1, Refresh: 3600, Retry: 600, Expire: 86400, Minttl: spec.NegTTL,
	}
	z.putLocked(z.apex, dns.TypeSOA, spec.DefaultTTL, []dns.RR{soa}, "")
	var nss []dns.RR
	for _, h := range spec.NSHosts {
		nss = append(nss, &dns.NS{Hdr: z.hdr(z.apex, dns.TypeNS, spec.DefaultTTL), Ns: Canon(h)})
	}
	z.putLocked(z.apex, dns.TypeNS, spec.DefaultTTL, nss, "")
	if spec.Signed {
		z.generateKeys()
		z.publishKeysLocked()
		if spec.NSEC3 != nil {
			p := &dns.NSEC3PARAM{
				Hdr:  z.hdr(z.apex, dns.TypeNSEC3PARAM, 0),
				Hash: dns.SHA1, Flags: 0, Iterations: spec.NSEC3.Iterations,
				SaltLength: uint8(len(spec.NSEC3.Salt) / 2), Salt: spec.NSEC3.Salt,
			}
			z.putLocked(z.apex, dns.TypeNSEC3PARAM, 0, []dns.RR{p}, "")
		}
	}
	return z
}

func (z *Zone) hdr(owner string, t uint16, ttl uint32) dns.RR_Header {
	return dns.RR_Header{Name: owner, Rrtype: t, Class: z.class, Ttl: ttl}
}

// Apex returns the canonical zone name.
func (z *Zone) Apex() string { return z.apex }

// Spec returns a copy of the creation spec.
func (z *Zone) Spec() Spec { return z.spec }

// Signed reports whether the zone is DNSSEC-signed.
func (z *Zone) Signed() bool { return z.spec.Signed }

// UsesNSEC3 reports hashed denial.
func (z *Zone) UsesNSEC3() bool { return z.spec.Signed && z.spec.NSEC3 != nil }

// OptOut reports NSEC3 opt-out.
func (z *Zone) OptOut() bool { return z.UsesNSEC3() && z.spec.NSEC3.OptOut }

// Generation counts mutations (starts at 1 after New).
func (z *Zone) Generation() uint64 {
	z.mu.RLock()
	defer z.mu.RUnlock()
	return z.gen
}

func (z *Zone) generateKeys() {
	mk := func(flags uint16) *Key {
		k := &dns.DNSKEY{
			Hdr:   z.hdr(z.apex, dns.TypeDNSKEY, z.spec.DefaultTTL),
			Flags: flags, Protocol: 3, Algorithm: z.spec.Algorithm,
		}
		bits := 256
		switch z.spec.Algorithm {
		case dns.RSASHA256, dns.RSASHA512, dns.RSASHA1, dns.RSASHA1NSEC3SHA1:
			bits = z.spec.RSABits
			if bits == 0 {
				bits = 1024
			}
		case dns.ECDSAP384SHA384:
			bits = 384
		}
		priv, err := k.Generate(bits)
		if err != nil {
			panic(fmt.Sprintf("zonemodel: generate key alg %d: %v", z.spec.Algorithm, err))
		}
		s, ok := priv.(crypto.Signer)
		if !ok {
			panic("zonemodel: private key is not a crypto.Signer")
		}
		return &Key{DNSKEY: k, Priv: s}
	}
	if z.spec.SplitKeys {
		z.keys = []*Key{mk(257), mk(256)}
	} else {
		z.keys = []*Key{mk(257)}
	}
	if z.spec.CloneKeyTag {
		z.keys = append(z.keys, CloneKeyTag(z.keys[len(z.keys)-1].DNSKEY))
	}
}

// CloneKeyTag returns a DNSKEY with identical owner, flags, protocol,
// algorithm and key tag but different public key bytes (no private half).
func CloneKeyTag(k *dns.DNSKEY) *Key {
	c := dns.Copy(k).(*dns.DNSKEY)
	raw, err := base64.StdEncoding.DecodeString(c.PublicKey)
	if err != nil || len(raw) < 8 {
		panic("zonemodel: cannot clone key")
	}
	// Key tag = 16-bit ones'-complement-like sum over rdata; bytes at equal
	// parity contribute with equal weight, so +1 on one and -1 on another of
	// the same parity keeps the tag. Work from the tail (RSA: inside modulus).
	done := false
	for i := len(raw) - 1; i >= 4 && !done; i-- {
		for j := i - 2; j >= 4; j -= 2 {
			if raw[i] < 255 && raw[j] > 0 {
				raw[i]++
				raw[j]--
				done = true
				break
			}
		}
	}
	c.PublicKey = base64.StdEncoding.EncodeToString(raw)
	if c.KeyTag() != k.KeyTag() || c.PublicKey == k.PublicKey {
		panic("zonemodel: clone key tag mismatch")
	}
	return &Key{DNSKEY: c}
}

func (z *Zone) publishKeysLocked() {
	var rrs []dns.RR
	for _, k := range z.keys {
		rrs = append(rrs, k.DNSKEY)
	}
	z.putLocked(z.apex, dns.TypeDNSKEY, z.spec.DefaultTTL, rrs, "")
}

// Keys returns the zone's keys (signing keys first, clones last).
func (z *Zone) Keys() []*Key {
	z.mu.RLock()
	defer z.mu.RUnlock()
	return append([]*Key(nil), z.keys...)
}

// SetKeys replaces the key set (re-signs). Keys with Priv==nil never sign.
func (z *Zone) SetKeys(keys []*Key) {
	z.mu.Lock()
	defer z.mu.Unlock()
	z.keys = append([]*Key(nil), keys...)
	z.publishKeysLocked()
	z.invalidateLocked()
}

// KSK returns the key that signs the DNSKEY RRset (first SEP key with a
// private half), ZSK the one signing everything else.
func (z *Zone) KSK() *Key { return z.pickKey(true) }

// ZSK see KSK.
func (z *Zone) ZSK() *Key { return z.pickKey(false) }

func (z *Zone) pickKey(ksk bool) *Key {
	z.mu.RLock()
	defer z.mu.RUnlock()
	return z.pickKeyLocked(ksk)
}

func (z *Zone) pickKeyLocked(ksk bool) *Key {
	var fallback *Key
	for _, k := range z.keys {
		if k.Priv == nil {
			continue
		}
		if fallback == nil {
			fallback = k
		}
		if ksk == (k.DNSKEY.Flags&1 == 1) {
			return k
		}
	}
	return fallback
}

// DS returns the DS RRset (SHA-256, or digest given) for the zone's KSK(s),
// owner = apex, TTL = ttl. Empty for unsigned zones.
func (z *Zone) DS(ttl uint32, digest ...uint8) []dns.RR {
	z.mu.RLock()
	defer z.mu.RUnlock()
	dt := uint8(dns.SHA256)
	if len(digest) > 0 {
		dt = digest[0]
	}
	var out []dns.RR
	for _, k := range z.keys {
		if k.Priv == nil || k.DNSKEY.Flags&1 == 0 {
			continue
		}
		ds := k.DNSKEY.ToDS(dt)
		if ds == nil {
			continue
		}
		ds.Hdr.Ttl = ttl
		out = append(out, ds)
	}
	return out
}

func (z *Zone) invalidateLocked() {
	z.gen++
	z.sigs = map[sigKey][]dns.RR{}
	z.nsec = nil
	z.nsec3 = nil
	z.n3names = nil
}

func (z *Zone) putLocked(owner string, t uint16, ttl uint32, rrs []dns.RR, marker string) *RRset {
	owner = Canon(owner)
	n := z.nodes[owner]
	if n == nil {
		n = &node{sets: map[uint16]*RRset{}}
		z.nodes[owner] = n
	}
	for _, rr := range rrs {
		h := rr.Header()
		h.Name, h.Rrtype, h.Class, h.Ttl = owner, t, z.class, ttl
	}
	set := &RRset{Owner: owner, Type: t, TTL: ttl, RRs: rrs, Marker: marker}
	n.sets[t] = set
	return set
}

func (z *Zone) checkOwner(owner string) string {
	owner = Canon(owner)
	if !IsSub(z.apex, owner) {
		panic(fmt.Sprintf("zonemodel: %s is not in zone %s", owner, z.apex))
	}
	return owner
}

// Set publishes (replaces) one RRset; all rrs must share owner and type.
func (z *Zone) Set(ttl uint32, rrs ...dns.RR) *RRset {
	if len(rrs) == 0 {
		panic("zonemodel: Set needs records")
	}
	h := rrs[0].Header()
	owner := z.checkOwner(h.Name)
	z.mu.Lock()
	defer z.mu.Unlock()
	cp := make([]dns.RR, len(rrs))
	for i, rr := range rrs {
		cp[i] = dns.Copy(rr)
	}
	s := z.putLocked(owner, h.Rrtype, ttl, cp, "")
	z.invalidateLocked()
	return s
}

// Add appends records to (possibly new) RRsets, keeping each set's TTL (new
// sets take the record's TTL or the zone default when 0).
func (z *Zone) Add(rrs ...dns.RR) {
	z.mu.Lock()
	defer z.mu.Unlock()
	for _, rr := range rrs {
		h := rr.Header()
		owner := z.checkOwner(h.Name)
		ttl := h.Ttl
		if ttl == 0 {
			ttl = z.spec.DefaultTTL
		}
		var cur []dns.RR
		if n := z.nodes[owner]; n != nil {
			if s := n.sets[h.Rrtype]; s != nil {
				cur, ttl = s.RRs, s.TTL
			}
		}
		z.putLocked(owner, h.Rrtype, ttl, append(append([]dns.RR(nil), cur...), dns.Copy(rr)), "")
	}
	z.invalidateLocked()
}

// Remove deletes one RRset (no-op if absent). The SOA cannot be removed.
func (z *Zone) Remove(owner string, t uint16) {
	owner = Canon(owner)
	z.mu.Lock()
	defer z.mu.Unlock()
	if owner == z.apex && t == dns.TypeSOA {
		return
	}
	if n := z.nodes[owner]; n != nil {
		delete(n.sets, t)
		if len(n.sets) == 0 {
			delete(z.nodes, owner)
		}
	}
	z.invalidateLocked()
}

// RemoveName deletes every RRset at owner (not the apex).
func (z *Zone) RemoveName(owner string) {
	owner = Canon(owner)
	if owner == z.apex {
		return
	}
	z.mu.Lock()
	defer z.mu.Unlock()
	delete(z.nodes, owner)
	delete(z.delegs, owner)
	z.invalidateLocked()
}

// SetTTL changes the TTL of an existing RRset (including a delegation's NS
// or DS set: use the child name and TypeNS / TypeDS).
func (z *Zone) SetTTL(owner string, t uint16, ttl uint32) {
	owner = Canon(owner)
	z.mu.Lock()
	defer z.mu.Unlock()
	if n := z.nodes[owner]; n != nil {
		if s := n.sets[t]; s != nil {
			s.TTL = ttl
			for _, rr := range s.RRs {
				rr.Header().Ttl = ttl
			}
		}
	}
	if d := z.delegs[owner]; d != nil {
		set := d.NS
		if t == dns.TypeDS {
			set = d.DS
		}
		if t == dns.TypeNS || t == dns.TypeDS {
			for _, rr := range set {
				rr.Header().Ttl = ttl
			}
		}
	}
	z.invalidateLocked()
}

// marker helpers -----------------------------------------------------------

// MarkerInfo identifies the published RRset a record came from.
type MarkerInfo struct {
	Zone       string
	Owner      string
	Type       uint16
	Generation uint64
	Seq        uint32
	Marker     string
}

// AddMarked publishes a generated RRset of the given type (A, AAAA, TXT, MX)
// whose rdata is a unique provenance marker derived from (marker space,
// per-zone sequence number, zone generation, owner, type). Re-publishing the
// same owner/type yields a fresh marker.
func (z *Zone) AddMarked(owner string, t uint16, ttl uint32) *RRset {
	owner = z.checkOwner(owner)
	if ttl == 0 {
		ttl = z.spec.DefaultTTL
	}
	z.mu.Lock()
	defer z.mu.Unlock()
	z.seq++
	seq := z.seq
	marker := fmt.Sprintf("m:%d:%d:%d:%s:%s", z.spec.MarkerSpace, seq, z.gen+1, owner, dns.TypeToString[t])
	var rr dns.RR
	switch t {
	case dns.TypeA:
		rr = &dns.A{Hdr: z.hdr(owner, t, ttl), A: net.IPv4(10, z.spec.MarkerSpace, byte(seq>>8), byte(seq)).To4()}
	case dns.TypeAAAA:
		ip := net.ParseIP("fd00::")
		ip[2], ip[3] = 0x5d, z.spec.MarkerSpace
		ip[12], ip[13], ip[14], ip[15] = byte(seq>>24), byte(seq>>16), byte(seq>>8), byte(seq)
		rr = &dns.AAAA{Hdr: z.hdr(owner, t, ttl), AAAA: ip}
	case dns.TypeTXT:
		rr = &dns.TXT{Hdr: z.hdr(owner, t, ttl), Txt: []string{marker}}
	case dns.TypeMX:
		rr = &dns.MX{Hdr: z.hdr(owner, t, ttl), Preference: uint16(seq), Mx: fmt.Sprintf("mx-%d-%d.invalid.", z.spec.MarkerSpace, seq)}
	default:
		panic("zonemodel: AddMarked supports A, AAAA, TXT, MX")
	}
	set := z.putLocked(owner, t, ttl, []dns.RR{rr}, marker)
	if z.markers == nil {
		z.markers = map[string]*RRset{}
	}
	z.markers[rdataKey(rr)] = set
	z.invalidateLocked()
	return set
}

// IsMarkerRR reports whether rr looks like a provenance marker of ANY zone
// (10.x.y.z, fd00:5dxx::, "m:…" TXT, mx-…invalid.).
func IsMarkerRR(rr dns.RR) bool {
	switch v := rr.(type) {
	case *dns.A:
		ip := v.A.To4()
		return ip != nil && ip[0] == 10
	case *dns.AAAA:
		return len(v.AAAA) == 16 && v.AAAA[0] == 0xfd && v.AAAA[1] == 0 && v.AAAA[2] == 0x5d
	case *dns.TXT:
		return len(v.Txt) > 0 && strings.HasPrefix(v.Txt[0], "m:")
	case *dns.MX:
		return strings.HasPrefix(v.Mx, "mx-") && strings.HasSuffix(v.Mx, ".invalid.")
	}
	return false
}

// LookupMarker maps a record seen in a client reply back to the RRset this
// zone published it in (matching on type + rdata, any owner: wildcard
// expansion and CNAME chains change owners). ok=false if this zone never
// published that rdata.
func (z *Zone) LookupMarker(rr dns.RR) (MarkerInfo, bool) {
	z.mu.RLock()
	defer z.mu.RUnlock()
	s, ok := z.markers[rdataKey(rr)]
	if !ok {
		return MarkerInfo{}, false
	}
	var mi MarkerInfo
	mi.Zone, mi.Owner, mi.Type, mi.Marker = z.apex, s.Owner, s.Type, s.Marker
	fmt.Sscanf(strings.SplitN(s.Marker, ":", 5)[3], "%d", &mi.Generation)
	fmt.Sscanf(strings.SplitN(s.Marker, ":", 5)[2], "%d", &mi.Seq)
	return mi, true
}

func rdataKey(rr dns.RR) string {
	s := rr.String()
	h := rr.Header().String()
	return dns.TypeToString[rr.Header().Rrtype] + "|" + strings.ToLower(strings.TrimPrefix(s, h))
}

// RdataKey is the (type, rdata) comparison key used by RRsetEqual.
func RdataKey(rr dns.RR) string { return rdataKey(rr) }

// convenience publishers ---------------------------------------------------

// AddCNAME publishes owner CNAME target.
func (z *Zone) AddCNAME(owner, target string, ttl uint32) *RRset {
	owner = z.checkOwner(owner)
	if ttl == 0 {
		ttl = z.spec.DefaultTTL
	}
	return z.Set(ttl, &dns.CNAME{Hdr: z.hdr(owner, dns.TypeCNAME, ttl), Target: Canon(target)})
}

// AddDNAME publishes owner DNAME target.
func (z *Zone) AddDNAME(owner, target string, ttl uint32) *RRset {
	owner = z.checkOwner(owner)
	if ttl == 0 {
		ttl = z.spec.DefaultTTL
	}
	return z.Set(ttl, &dns.DNAME{Hdr: z.hdr(owner, dns.TypeDNAME, ttl), Target: Canon(target)})
}

// AddAddr publishes an address record (A or AAAA by the IP's family).
func (z *Zone) AddAddr(owner string, ip net.IP, ttl uint32) {
	owner = z.checkOwner(owner)
	if ttl == 0 {
		ttl = z.spec.DefaultTTL
	}
	if v4 := ip.To4(); v4 != nil {
		z.Add(&dns.A{Hdr: z.hdr(owner, dns.TypeA, ttl), A: v4})
	} else {
		z.Add(&dns.AAAA{Hdr: z.hdr(owner, dns.TypeAAAA, ttl), AAAA: ip})
	}
}

// NSHost is a name server of a delegation with the glue the parent serves.
type NSHost struct {
	Name  string   `json:"name"`
	Addrs []net.IP `json:"addrs,omitempty"`
}

// DelegationSpec describes a cut. DS nil = insecure; use child.DS(ttl) for a
// secure one (or any DS RRset to model a broken chain).
type DelegationSpec struct {
	Child   string
	NS      []NSHost
	DS      []dns.RR
	NSTTL   uint32 // default zone TTL
	DSTTL   uint32 // default zone TTL
	GlueTTL uint32
}

// Delegate creates or replaces the delegation of spec.Child.
func (z *Zone) Delegate(spec DelegationSpec) *Delegation {
	child := z.checkOwner(spec.Child)
	if child == z.apex {
		panic("zonemodel: cannot delegate the apex")
	}
	if spec.NSTTL == 0 {
		spec.NSTTL = z.spec.DefaultTTL
	}
	if spec.DSTTL == 0 {
		spec.DSTTL = z.spec.DefaultTTL
	}
	if spec.GlueTTL == 0 {
		spec.GlueTTL = z.spec.DefaultTTL
	}
	d := &Delegation{Child: child}
	for _, h := range spec.NS {
		name := Canon(h.Name)
		d.NS = append(d.NS, &dns.NS{Hdr: z.hdr(child, dns.TypeNS, spec.NSTTL), Ns: name})
		for _, ip := range h.Addrs {
			if v4 := ip.To4(); v4 != nil {
				d.Glue = append(d.Glue, &dns.A{Hdr: z.hdr(name, dns.TypeA, spec.GlueTTL), A: v4})
			} else {
				d.Glue = append(d.Glue, &dns.AAAA{Hdr: z.hdr(name, dns.TypeAAAA, spec.GlueTTL), AAAA: ip})
			}
		}
	}
	for _, rr := range spec.DS {
		ds := dns.Copy(rr)
		h := ds.Header()
		h.Name, h.Ttl, h.Class = child, spec.DSTTL, z.class
		d.DS = append(d.DS, ds)
	}
	z.mu.Lock()
	defer z.mu.Unlock()
	z.delegs[child] = d
	z.invalidateLocked()
	return d
}

// SetDS replaces (or with nil removes) the DS RRset of an existing cut.
func (z *Zone) SetDS(child string, ds []dns.RR, ttl uint32) {
	child = Canon(child)
	if ttl == 0 {
		ttl = z.spec.DefaultTTL
	}
	z.mu.Lock()
	defer z.mu.Unlock()
	d := z.delegs[child]
	if d == nil {
		return
	}
	nd := *d
	nd.DS = nil
	for _, rr := range ds {
		c := dns.Copy(rr)
		h := c.Header()
		h.Name, h.Ttl, h.Class = child, ttl, z.class
		nd.DS = append(nd.DS, c)
	}
	z.delegs[child] = &nd
	z.invalidateLocked()
}

// Undelegate withdraws a delegation (the name then does not exist unless
// other records keep it alive).
func (z *Zone) Undelegate(child string) {
	child = Canon(child)
	z.mu.Lock()
	defer z.mu.Unlock()
	delete(z.delegs, child)
	z.invalidateLocked()
}

// Delegation returns the cut at child, or nil.
func (z *Zone) Delegation(child string) *Delegation {
	z.mu.RLock()
	defer z.mu.RUnlock()
	return z.delegs[Canon(child)]
}

// Delegations lists cuts in canonical order.
func (z *Zone) Delegations() []*Delegation {
	z.mu.RLock()
	defer z.mu.RUnlock()
	var out []*Delegation
	for _, d := range z.delegs {
		out = append(out, d)
	}
	sort.Slice(out, func(i, j int) bool { return Compare(out[i].Child, out[j].Child) < 0 })
	return out
}

// RRset returns the published set at (owner, type), or nil. Delegation NS/DS
// are returned for the child name.
func (z *Zone) RRset(owner string, t uint16) *RRset {
	owner = Canon(owner)
	z.mu.RLock()
	defer z.mu.RUnlock()
	return z.rrsetLocked(owner, t)
}

func (z *Zone) rrsetLocked(owner string, t uint16) *RRset {
	if d := z.delegs[owner]; d != nil {
		switch t {
		case dns.TypeNS:
			return &RRset{Owner: owner, Type: t, TTL: d.NS[0].Header().Ttl, RRs: d.NS}
		case dns.TypeDS:
			if len(d.DS) == 0 {
				return nil
			}
			return &RRset{Owner: owner, Type: t, TTL: d.DS[0].Header().Ttl, RRs: d.DS}
		}
		return nil
	}
	if n := z.nodes[owner]; n != nil {
		return n.sets[t]
	}
	return nil
}

// Owners lists every authoritative owner name with data plus delegation
// points, canonically ordered (this is the NSEC chain's owner list).
func (z *Zone) Owners() []string {
	z.mu.RLock()
	defer z.mu.RUnlock()
	return z.ownersLocked()
}

func (z *Zone) ownersLocked() []string {
	var out []string
	for n := range z.nodes {
		if z.cutAtOrAboveLocked(n, true) == "" {
			out = append(out, n)
		}
	}
	for n := range z.delegs {
		if z.cutAtOrAboveLocked(n, false) == "" {
			out = append(out, n)
		}
	}
	sort.Slice(out, func(i, j int) bool { return Compare(out[i], out[j]) < 0 })
	return out
}

// cutAtOrAboveLocked returns the shallowest delegation point that is an
// ancestor of name (or name itself when self is true), "" if none.
func (z *Zone) cutAtOrAboveLocked(name string, self bool) string {
	anc := Ancestors(name, z.apex) // deepest first, apex last
	for i := len(anc) - 2; i >= 0; i-- {
		if i == 0 && !self {
			break
		}
		if _, ok := z.delegs[anc[i]]; ok {
			return anc[i]
		}
	}
	return ""
}

// Names lists every existing name: owners plus empty non-terminals.
func (z *Zone) Names() []string {
	z.mu.RLock()
	defer z.mu.RUnlock()
	seen := map[string]bool{}
	var out []string
	for _, o := range z.ownersLocked() {
		for _, a := range Ancestors(o, z.apex) {
			if !seen[a] {
				seen[a] = true
				out = append(out, a)
			}
		}
	}
	sort.Slice(out, func(i, j int) bool { return Compare(out[i], out[j]) < 0 })
	return out
}

// EmptyNonTerminals lists names that exist only because something is below.
func (z *Zone) EmptyNonTerminals() []string {
	own := map[string]bool{}
	for _, o := range z.Owners() {
		own[o] = true
	}
	var out []string
	for _, n := range z.Names() {
		if !own[n] {
			out = append(out, n)
		}
	}
	return out
}

// signing ------------------------------------------------------------------

// SigOpts overrides individual RRSIG fields when signing by hand (tampering
// helpers, expired/not-yet-valid windows, foreign signer names …).
type SigOpts struct {
	Key        *Key   // default: KSK for DNSKEY, ZSK otherwise
	Inception  uint32 // 0 = default window
	Expiration uint32
	SignerName string // "" = apex
	KeyTag     *uint16
	OrigTTL    *uint32
}

func (z *Zone) window() (uint32, uint32) {
	inc, exp := z.SigInception, z.SigExpiration
	now := time.Now()
	if inc == 0 {
		inc = uint32(now.Add(-48 * time.Hour).Unix())
	}
	if exp == 0 {
		exp = uint32(now.Add(30 * 24 * time.Hour).Unix())
	}
	return inc, exp
}

// SignRRset signs rrs (one RRset; a wildcard owner "*.x" yields Labels
// reduced by one) and returns the RRSIG. Works on unsigned zones too if a key
// is given in opts.
func (z *Zone) SignRRset(rrs []dns.RR, opts *SigOpts) (*dns.RRSIG, error) {
	z.mu.RLock()
	defer z.mu.RUnlock()
	return z.signLocked(rrs, opts)
}

func (z *Zone) signLocked(rrs []dns.RR, opts *SigOpts) (*dns.RRSIG, error) {
	if len(rrs) == 0 {
		return nil, fmt.Errorf("empty rrset")
	}
	var o SigOpts
	if opts != nil {
		o = *opts
	}
	k := o.Key
	if k == nil {
		k = z.pickKeyLocked(rrs[0].Header().Rrtype == dns.TypeDNSKEY)
	}
	if k == nil || k.Priv == nil {
		return nil, fmt.Errorf("zone %s has no signing key", z.apex)
	}
	inc, exp := z.window()
	if o.Inception != 0 {
		inc = o.Inception
	}
	if o.Expiration != 0 {
		exp = o.Expiration
	}
	signer := z.apex
	if o.SignerName != "" {
		signer = Canon(o.SignerName)
	}
	sig := &dns.RRSIG{
		Hdr:        dns.RR_Header{Ttl: rrs[0].Header().Ttl},
		Algorithm:  k.DNSKEY.Algorithm,
		Inception:  inc,
		Expiration: exp,
		KeyTag:     k.DNSKEY.KeyTag(),
		SignerName: signer,
	}
	if o.KeyTag != nil {
		sig.KeyTag = *o.KeyTag
	}
	if o.OrigTTL != nil {
		sig.OrigTtl = *o.OrigTTL
	}
	cp := make([]dns.RR, len(rrs))
	for i, rr := range rrs {
		cp[i] = dns.Copy(rr)
	}
	if err := sig.Sign(k.Priv, cp); err != nil {
		return nil, err
	}
	sig.Hdr.Ttl = rrs[0].Header().Ttl
	return sig, nil
}

// sigsLocked returns the cached RRSIG(s) for a published set. The DNSKEY
// RRset is signed by every private key (KSK and ZSK), others by the ZSK.
// Caller must hold at least the read lock; the cache has its own mutex.
func (z *Zone) sigsLocked(owner string, t uint16, rrs []dns.RR) []dns.RR {
	if !z.spec.Signed || len(rrs) == 0 {
		return nil
	}
	key := sigKey{owner, t}
	z.sigMu.Lock()
	if s, ok := z.sigs[key]; ok {
		z.sigMu.Unlock()
		return s
	}
	z.sigMu.Unlock()
	var out []dns.RR
	if t == dns.TypeDNSKEY {
		for _, k := range z.keys {
			if k.Priv == nil {
				continue
			}
			if sig, err := z.signLocked(rrs, &SigOpts{Key: k}); err == nil {
				out = append(out, sig)
			}
		}
	} else if sig, err := z.signLocked(rrs, nil); err == nil {
		out = append(out, sig)
	}
	z.sigMu.Lock()
	z.sigs[key] = out
	z.sigMu.Unlock()
	return out
}

// Sigs returns the zone's RRSIG(s) for the published set (owner,type); for
// NSEC/NSEC3 owners pass the chain record's owner. nil if unsigned/absent.
func (z *Zone) Sigs(owner string, t uint16) []dns.RR {
	owner = Canon(owner)
	z.mu.RLock()
	defer z.mu.RUnlock()
	s := z.rrsetLocked(owner, t)
	if s == nil {
		return nil
	}
	if d := z.delegs[owner]; d != nil && t == dns.TypeNS {
		return nil // delegation NS is not signed
	}
	return z.sigsLocked(owner, t, s.RRs)
}
