// Package zonemodel is a reference model of authoritative DNS zones used as the
// ground truth by the runtime monitors (C01, C02, C07, C08, C11, C12).
//
// It deliberately shares no code with sdns: names are compared on their wire
// labels, denial-of-existence chains are built from first principles
// (RFC 4034 §6.1 ordering, RFC 5155 hashing through the miekg library) and
// signatures are made with the library signer (dns.RRSIG.Sign).
package zonemodel

import (
	"bytes"
	"strings"

	"github.com/miekg/dns"
)

// Canon returns the canonical presentation form used as map key everywhere in
// the model: fully qualified, ASCII lower case, escapes normalised.
func Canon(name string) string {
	name = dns.Fqdn(name)
	if !strings.ContainsRune(name, '\\') {
		return strings.ToLower(name)
	}
	buf := make([]byte, 300)
	n, err := dns.PackDomainName(name, buf, 0, nil, false)
	if err != nil {
		return strings.ToLower(name)
	}
	for i := 0; i < n; {
		l := int(buf[i])
		for j := i + 1; j <= i+l && j < n; j++ {
			if buf[j] >= 'A' && buf[j] <= 'Z' {
				buf[j] += 'a' - 'A'
			}
		}
		i += l + 1
	}
	s, _, err := dns.UnpackDomainName(buf[:n], 0)
	if err != nil {
		return strings.ToLower(name)
	}
	return s
}

// WireLabels returns the lower-cased wire labels of name, leftmost first.
// The root has zero labels.
func WireLabels(name string) [][]byte {
	buf := make([]byte, 300)
	n, err := dns.PackDomainName(dns.Fqdn(name), buf, 0, nil, false)
	if err != nil {
		return nil
	}
	var out [][]byte
	for i := 0; i < n; {
		l := int(buf[i])
		if l == 0 {
			break
		}
		lab := bytes.ToLower(buf[i+1 : i+1+l])
		out = append(out, lab)
		i += l + 1
	}
	return out
}

// Compare orders two names canonically (RFC 4034 §6.1): by label from the
// rightmost, each label as a lower-cased octet string, absent label first.
func Compare(a, b string) int {
	la, lb := WireLabels(a), WireLabels(b)
	i, j := len(la)-1, len(lb)-1
	for i >= 0 && j >= 0 {
		if c := bytes.Compare(la[i], lb[j]); c != 0 {
			return c
		}
		i--
		j--
	}
	switch {
	case i < 0 && j < 0:
		return 0
	case i < 0:
		return -1
	default:
		return 1
	}
}

// IsSub reports whether child is equal to or below parent (label-wise).
func IsSub(parent, child string) bool {
	lp, lc := WireLabels(parent), WireLabels(child)
	if len(lp) > len(lc) {
		return false
	}
	off := len(lc) - len(lp)
	for i := range lp {
		if !bytes.Equal(lp[i], lc[off+i]) {
			return false
		}
	}
	return true
}

// IsProperSub is IsSub without equality.
func IsProperSub(parent, child string) bool {
	return IsSub(parent, child) && CountLabels(child) > CountLabels(parent)
}

// CountLabels counts labels (root = 0).
func CountLabels(name string) int { return dns.CountLabel(dns.Fqdn(name)) }

// Parent strips the leftmost label ("." stays ".").
func Parent(name string) string {
	name = dns.Fqdn(name)
	if name == "." {
		return "."
	}
	off, end := dns.NextLabel(name, 0)
	if end || off >= len(name) {
		return "."
	}
	return name[off:]
}

// Ancestors lists name, Parent(name), … down to and including stop (which
// must be an ancestor-or-self of name), deepest first.
func Ancestors(name, stop string) []string {
	name, stop = Canon(name), Canon(stop)
	var out []string
	if !IsSub(stop, name) {
		return nil
	}
	for {
		out = append(out, name)
		if CountLabels(name) <= CountLabels(stop) {
			break
		}
		name = Parent(name)
	}
	return out
}

// Join prepends a (presentation-form) label sequence to a suffix.
func Join(prefix, suffix string) string {
	suffix = dns.Fqdn(suffix)
	prefix = strings.TrimSuffix(prefix, ".")
	if prefix == "" {
		return suffix
	}
	if suffix == "." {
		return prefix + "."
	}
	return prefix + "." + suffix
}

// IsWildcard reports whether the leftmost label of name is exactly "*".
func IsWildcard(name string) bool {
	l := WireLabels(name)
	return len(l) > 0 && len(l[0]) == 1 && l[0][0] == '*'
}

// ReplaceSuffix implements the RFC 6672 §2.2 substitution: the owner suffix
// of name is replaced by target. ok=false when name is not strictly below
// owner or the result would exceed 255 octets.
func ReplaceSuffix(name, owner, target string) (string, bool) {
	name, owner = dns.Fqdn(name), dns.Fqdn(owner)
	if !IsProperSub(owner, name) {
		return "", false
	}
	n := CountLabels(name) - CountLabels(owner)
	idx := dns.Split(name)
	var prefix string
	if n < len(idx) {
		prefix = name[:idx[n]]
	} else {
		prefix = name
	}
	out := Join(prefix, target)
	buf := make([]byte, 512)
	l, err := dns.PackDomainName(out, buf, 0, nil, false)
	if err != nil || l > 255 {
		return "", false
	}
	return out, true
}
