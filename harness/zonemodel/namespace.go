package zonemodel

import (
	"sort"
	"strings"
	"sync"

	"github.com/miekg/dns"
)

// Security is the DNSSEC status of a zone as a validator anchored at the
// namespace's root must see it.
type Security int

// Security states, ordered by "badness".
const (
	Secure   Security = iota // unbroken DS→DNSKEY chain from the root
	Insecure                 // a provably DS-less cut above (or unsigned root)
	Bogus                    // DS present but the child is unsigned / keys do not match
)

func (s Security) String() string { return [...]string{"secure", "insecure", "bogus"}[s] }

// Namespace is a set of zones forming one hierarchy; it follows referrals
// and aliases across zones the way a resolver must.
type Namespace struct {
	mu    sync.RWMutex
	zones map[string]*Zone
}

// NewNamespace builds a namespace.
func NewNamespace(zones ...*Zone) *Namespace {
	n := &Namespace{zones: map[string]*Zone{}}
	for _, z := range zones {
		n.zones[z.Apex()] = z
	}
	return n
}

// Add registers (or replaces) a zone.
func (n *Namespace) Add(z *Zone) {
	n.mu.Lock()
	defer n.mu.Unlock()
	n.zones[z.Apex()] = z
}

// Remove forgets a zone object (the parent's delegation is untouched).
func (n *Namespace) Remove(apex string) {
	n.mu.Lock()
	defer n.mu.Unlock()
	delete(n.zones, Canon(apex))
}

// Zone returns the zone with that apex, or nil.
func (n *Namespace) Zone(apex string) *Zone {
	n.mu.RLock()
	defer n.mu.RUnlock()
	return n.zones[Canon(apex)]
}

// Zones lists zones, shallowest first then canonically.
func (n *Namespace) Zones() []*Zone {
	n.mu.RLock()
	defer n.mu.RUnlock()
	var out []*Zone
	for _, z := range n.zones {
		out = append(out, z)
	}
	sort.Slice(out, func(i, j int) bool {
		a, b := CountLabels(out[i].Apex()), CountLabels(out[j].Apex())
		if a != b {
			return a < b
		}
		return Compare(out[i].Apex(), out[j].Apex()) < 0
	})
	return out
}

// Enclosing returns the deepest zone object whose apex is an ancestor-or-self
// of name (regardless of whether a delegation chain reaches it). For
// qtype DS at an apex the parent side is returned.
func (n *Namespace) Enclosing(name string, qtype uint16) *Zone {
	name = Canon(name)
	n.mu.RLock()
	defer n.mu.RUnlock()
	var best *Zone
	for apex, z := range n.zones {
		if !IsSub(apex, name) {
			continue
		}
		if qtype == dns.TypeDS && apex == name && name != "." {
			continue
		}
		if best == nil || CountLabels(apex) > CountLabels(best.Apex()) {
			best = z
		}
	}
	return best
}

// DSMatches reports whether some DS in ds authenticates some DNSKEY of child.
func DSMatches(ds []dns.RR, child *Zone) bool {
	if child == nil || !child.Signed() {
		return false
	}
	for _, rr := range ds {
		d, ok := rr.(*dns.DS)
		if !ok {
			continue
		}
		for _, k := range child.Keys() {
			if k.DNSKEY.Algorithm != d.Algorithm || k.DNSKEY.KeyTag() != d.KeyTag {
				continue
			}
			c := k.DNSKEY.ToDS(d.DigestType)
			if c != nil && strings.EqualFold(c.Digest, d.Digest) {
				return true
			}
		}
	}
	return false
}

// Step is one alias hop of a resolution.
type Step struct {
	Path   []string // zones visited from the root to the answering zone
	Truth  Truth    // the answering zone's verdict
	Status Security // status of the answering zone
	OptOut bool     // the hop's proof rests on an opt-out NSEC3 span
}

// Resolution is the model's end-to-end expectation for a client question.
type Resolution struct {
	QName  string
	QType  uint16
	Steps  []Step
	Answer []dns.RR // expected answer section (alias chain + final RRset), no RRSIGs
	Rcode  int
	Final  Truth
	// Status is the worst status over all hops (Bogus > Insecure > Secure).
	Status Security
	// OptOut: some hop's proof rests on an opt-out span (AD must stay clear).
	OptOut bool
	// Lame: a referral led to a zone the namespace does not contain.
	Lame bool
	// Loop: alias loop or more than MaxAliasHops hops.
	Loop bool
}

// MaxAliasHops bounds CNAME/DNAME chains followed by Resolve.
const MaxAliasHops = 16

// Root returns the shallowest zone (normally ".").
func (n *Namespace) Root() *Zone {
	zs := n.Zones()
	if len(zs) == 0 {
		return nil
	}
	return zs[0]
}

// Walk descends from the root through referrals until a zone answers
// (qname, qtype) with something other than a referral.
func (n *Namespace) Walk(qname string, qtype uint16) (Step, bool) {
	cur := n.Root()
	st := Step{Status: Secure}
	if cur == nil {
		return st, false
	}
	if !cur.Signed() {
		st.Status = Insecure
	}
	for i := 0; i < 64; i++ {
		st.Path = append(st.Path, cur.Apex())
		t := cur.Truth(qname, qtype)
		if t.Kind != Referral {
			st.Truth = t
			st.OptOut = cur.ProofUsesOptOut(t)
			return st, t.Kind != NotAuth
		}
		child := n.Zone(t.Child)
		if child == nil {
			st.Truth = t
			return st, false
		}
		switch {
		case st.Status != Secure:
			// already insecure/bogus: stays so
		case !t.Delegation.Secure():
			st.Status = Insecure
		case !DSMatches(t.Delegation.DS, child):
			st.Status = Bogus
		}
		cur = child
	}
	return st, false
}

// Resolve follows aliases across zones and returns what a correct full
// resolver must hand to a client.
func (n *Namespace) Resolve(qname string, qtype uint16) Resolution {
	r := Resolution{QName: Canon(qname), QType: qtype}
	name := r.QName
	seen := map[string]bool{}
	for hop := 0; ; hop++ {
		if hop > MaxAliasHops || seen[name] {
			r.Loop = true
			return r
		}
		seen[name] = true
		st, ok := n.Walk(name, qtype)
		r.Steps = append(r.Steps, st)
		if st.Status > r.Status {
			r.Status = st.Status
		}
		r.OptOut = r.OptOut || st.OptOut
		r.Final = st.Truth
		if !ok {
			r.Lame = true
			return r
		}
		t := st.Truth
		switch t.Kind {
		case Answer, WildcardAnswer:
			r.Answer = append(r.Answer, t.RRs...)
			return r
		case CNAME, WildcardCNAME, DNAME:
			r.Answer = append(r.Answer, t.RRs...)
			if t.TooLong {
				r.Rcode = dns.RcodeYXDomain
				return r
			}
			name = t.Target
		case NXDomain:
			r.Rcode = dns.RcodeNameError
			return r
		default:
			return r
		}
	}
}

// ProofUsesOptOut reports whether the honest proof for t contains a
// *covering* NSEC3 with the opt-out flag (RFC 5155 §9.2: such a response
// must not be presented as authenticated).
func (z *Zone) ProofUsesOptOut(t Truth) bool {
	if !z.OptOut() {
		return false
	}
	z.mu.RLock()
	defer z.mu.RUnlock()
	switch t.Kind {
	case NXDomain, WildcardAnswer, WildcardCNAME, WildcardNoData:
		return true
	case NoData, ENTNoData:
		_, nc := z.provableEncloserLocked(t.QName)
		return nc != ""
	case Referral:
		if t.Delegation != nil && !t.Delegation.Secure() {
			_, nc := z.provableEncloserLocked(t.Child)
			return nc != ""
		}
	}
	return false
}

// AnswerMatches compares a reply's answer section with the expected one:
// RRSIGs in got are ignored; every expected RRset must be present with equal
// rdata (as sets, per owner+type, owners compared case-insensitively) and
// nothing else may be present; TTLs in got must not exceed the published ones.
// The returned string explains the first difference ("" = equal).
func AnswerMatches(got, want []dns.RR) string {
	type key struct {
		owner string
		typ   uint16
	}
	group := func(rrs []dns.RR) (map[key][]dns.RR, []key) {
		m := map[key][]dns.RR{}
		var order []key
		for _, rr := range rrs {
			if rr.Header().Rrtype == dns.TypeRRSIG {
				continue
			}
			k := key{Canon(rr.Header().Name), rr.Header().Rrtype}
			if _, ok := m[k]; !ok {
				order = append(order, k)
			}
			m[k] = append(m[k], rr)
		}
		return m, order
	}
	gm, gorder := group(got)
	wm, worder := group(want)
	for _, k := range worder {
		g, ok := gm[k]
		if !ok {
			return "missing " + k.owner + " " + dns.TypeToString[k.typ]
		}
		if !RRsetEqual(g, wm[k]) {
			return "rdata differs at " + k.owner + " " + dns.TypeToString[k.typ]
		}
		maxTTL := wm[k][0].Header().Ttl
		for _, rr := range g {
			if rr.Header().Ttl > maxTTL {
				return "ttl above published at " + k.owner + " " + dns.TypeToString[k.typ]
			}
		}
	}
	for _, k := range gorder {
		if _, ok := wm[k]; !ok {
			return "unexpected " + k.owner + " " + dns.TypeToString[k.typ]
		}
	}
	return ""
}
