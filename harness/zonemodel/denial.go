package zonemodel

import (
	"sort"
	"strings"

	"github.com/miekg/dns"
)

// typesAtLocked returns the type bitmap for an NSEC (nsec3=false) or NSEC3
// record describing owner. ok=false when the owner has no entry in the chain.
func (z *Zone) typesAtLocked(owner string, nsec3 bool) []uint16 {
	var ts []uint16
	if d, ok := z.delegs[owner]; ok && owner != z.apex {
		ts = append(ts, dns.TypeNS)
		if len(d.DS) > 0 {
			ts = append(ts, dns.TypeDS, dns.TypeRRSIG)
		} else if !nsec3 {
			ts = append(ts, dns.TypeRRSIG) // the NSEC itself is signed
		}
	} else if nd := z.nodes[owner]; nd != nil {
		for t := range nd.sets {
			ts = append(ts, t)
		}
		if len(nd.sets) > 0 {
			ts = append(ts, dns.TypeRRSIG)
		}
	}
	if !nsec3 {
		ts = append(ts, dns.TypeNSEC)
	}
	sort.Slice(ts, func(i, j int) bool { return ts[i] < ts[j] })
	out := ts[:0]
	for i, t := range ts {
		if i == 0 || t != ts[i-1] {
			out = append(out, t)
		}
	}
	return out
}

func (z *Zone) nsecChainLocked() []*dns.NSEC {
	z.sigMu.Lock()
	defer z.sigMu.Unlock()
	if z.nsec != nil {
		return z.nsec
	}
	owners := z.ownersLocked()
	chain := make([]*dns.NSEC, 0, len(owners))
	for i, o := range owners {
		next := owners[(i+1)%len(owners)]
		chain = append(chain, &dns.NSEC{
			Hdr:        z.hdr(o, dns.TypeNSEC, z.spec.NegTTL),
			NextDomain: next,
			TypeBitMap: z.typesAtLocked(o, false),
		})
	}
	z.nsec = chain
	return chain
}

// NSEC3Hash hashes name with the zone's parameters (lower-case base32hex).
func (z *Zone) NSEC3Hash(name string) string {
	p := z.spec.NSEC3
	if p == nil {
		p = &NSEC3Params{}
	}
	return strings.ToLower(dns.HashName(Canon(name), dns.SHA1, p.Iterations, p.Salt))
}

func (z *Zone) nsec3ChainLocked() ([]*dns.NSEC3, map[string]string) {
	z.sigMu.Lock()
	defer z.sigMu.Unlock()
	if z.nsec3 != nil {
		return z.nsec3, z.n3names
	}
	p := z.spec.NSEC3
	if p == nil {
		p = &NSEC3Params{}
	}
	// names in the chain: owners (minus opted-out insecure delegations) and
	// the empty non-terminals leading to them.
	in := map[string]bool{}
	for _, o := range z.ownersLocked() {
		if d, ok := z.delegs[o]; ok && o != z.apex && len(d.DS) == 0 && p.OptOut {
			continue
		}
		for _, a := range Ancestors(o, z.apex) {
			in[a] = true
		}
	}
	in[z.apex] = true
	type ent struct{ hash, name string }
	var ents []ent
	for n := range in {
		ents = append(ents, ent{z.NSEC3Hash(n), n})
	}
	sort.Slice(ents, func(i, j int) bool { return ents[i].hash < ents[j].hash })
	names := map[string]string{}
	chain := make([]*dns.NSEC3, 0, len(ents))
	var flags uint8
	if p.OptOut {
		flags = 1
	}
	for i, e := range ents {
		names[e.name] = e.hash
		chain = append(chain, &dns.NSEC3{
			Hdr:        z.hdr(Join(e.hash, z.apex), dns.TypeNSEC3, z.spec.NegTTL),
			Hash:       dns.SHA1,
			Flags:      flags,
			Iterations: p.Iterations,
			SaltLength: uint8(len(p.Salt) / 2),
			Salt:       p.Salt,
			HashLength: 20,
			NextDomain: strings.ToUpper(ents[(i+1)%len(ents)].hash),
			TypeBitMap: z.typesAtLocked(e.name, true),
		})
	}
	z.nsec3, z.n3names = chain, names
	return chain, names
}

// NSECChain returns the complete NSEC chain in canonical order (records
// only; see WithSigs). Built for any zone, whether or not it is what the
// zone serves, so C02 can feed both families.
func (z *Zone) NSECChain() []dns.RR {
	z.mu.RLock()
	defer z.mu.RUnlock()
	var out []dns.RR
	for _, n := range z.nsecChainLocked() {
		out = append(out, n)
	}
	return out
}

// NSEC3Chain returns the complete NSEC3 chain in hash order.
func (z *Zone) NSEC3Chain() []dns.RR {
	z.mu.RLock()
	defer z.mu.RUnlock()
	c, _ := z.nsec3ChainLocked()
	var out []dns.RR
	for _, n := range c {
		out = append(out, n)
	}
	return out
}

// NSEC3Names maps every original name present in the NSEC3 chain to its
// hashed owner label.
func (z *Zone) NSEC3Names() map[string]string {
	z.mu.RLock()
	defer z.mu.RUnlock()
	_, m := z.nsec3ChainLocked()
	out := make(map[string]string, len(m))
	for k, v := range m {
		out[k] = v
	}
	return out
}

// WithSigs returns each record of a denial chain followed by its RRSIG.
func (z *Zone) WithSigs(chain []dns.RR) []dns.RR {
	z.mu.RLock()
	defer z.mu.RUnlock()
	var out []dns.RR
	for _, rr := range chain {
		out = append(out, z.denialWithSigLocked(rr, true)...)
	}
	return out
}

func (z *Zone) denialWithSigLocked(rr dns.RR, do bool) []dns.RR {
	out := []dns.RR{dns.Copy(rr)}
	if do {
		h := rr.Header()
		out = append(out, copyRRs(z.sigsLocked(Canon(h.Name), h.Rrtype, []dns.RR{rr}))...)
	}
	return out
}

// nsecForLocked: the NSEC matching name (match=true) or covering it.
func (z *Zone) nsecForLocked(name string) (*dns.NSEC, bool) {
	chain := z.nsecChainLocked()
	if len(chain) == 0 {
		return nil, false
	}
	idx := sort.Search(len(chain), func(i int) bool { return Compare(chain[i].Hdr.Name, name) > 0 }) - 1
	if idx < 0 {
		idx = len(chain) - 1
	}
	rec := chain[idx]
	return rec, Compare(rec.Hdr.Name, name) == 0
}

// NSECFor returns the NSEC matching (true) or covering (false) name.
func (z *Zone) NSECFor(name string) (*dns.NSEC, bool) {
	z.mu.RLock()
	defer z.mu.RUnlock()
	return z.nsecForLocked(Canon(name))
}

func (z *Zone) nsec3ForLocked(name string) (*dns.NSEC3, bool) {
	chain, _ := z.nsec3ChainLocked()
	if len(chain) == 0 {
		return nil, false
	}
	h := z.NSEC3Hash(name)
	ownerHash := func(i int) string {
		return strings.ToLower(chain[i].Hdr.Name[:strings.IndexByte(chain[i].Hdr.Name, '.')])
	}
	idx := sort.Search(len(chain), func(i int) bool { return ownerHash(i) > h }) - 1
	if idx < 0 {
		idx = len(chain) - 1
	}
	return chain[idx], ownerHash(idx) == h
}

// NSEC3For returns the NSEC3 matching (true) or covering (false) name.
func (z *Zone) NSEC3For(name string) (*dns.NSEC3, bool) {
	z.mu.RLock()
	defer z.mu.RUnlock()
	return z.nsec3ForLocked(Canon(name))
}

// provableEncloserLocked: longest ancestor-or-self of name that has an NSEC3
// record, and the next-closer name below it ("" if name itself matches).
func (z *Zone) provableEncloserLocked(name string) (ce, nextCloser string) {
	_, names := z.nsec3ChainLocked()
	anc := Ancestors(name, z.apex)
	for i, a := range anc {
		if _, ok := names[a]; ok {
			if i == 0 {
				return a, ""
			}
			return a, anc[i-1]
		}
	}
	return z.apex, ""
}

type proofSet struct {
	z    *Zone
	do   bool
	seen map[string]bool
	out  []dns.RR
}

func (p *proofSet) add(rr dns.RR) {
	if rr == nil || (rr.Header().Rrtype == 0) {
		return
	}
	k := rr.Header().Name + "/" + dns.TypeToString[rr.Header().Rrtype]
	if p.seen[k] {
		return
	}
	p.seen[k] = true
	p.out = append(p.out, p.z.denialWithSigLocked(rr, p.do)...)
}

func (p *proofSet) addNSEC(name string) {
	if r, _ := p.z.nsecForLocked(name); r != nil {
		p.add(r)
	}
}

func (p *proofSet) addNSEC3(name string) {
	if r, _ := p.z.nsec3ForLocked(name); r != nil {
		p.add(r)
	}
}

// Proof returns the honest denial records (each followed by its RRSIG) that
// an authoritative server attaches for the given truth: NXDOMAIN, NODATA
// flavours, wildcard expansion proof, insecure-referral DS denial. Empty for
// unsigned zones and positive non-wildcard answers.
func (z *Zone) Proof(t Truth) []dns.RR {
	z.mu.RLock()
	defer z.mu.RUnlock()
	return z.proofLocked(t, true)
}

func (z *Zone) proofLocked(t Truth, do bool) []dns.RR {
	if !z.spec.Signed || !do {
		return nil
	}
	p := &proofSet{z: z, do: do, seen: map[string]bool{}}
	n3 := z.spec.NSEC3 != nil
	switch t.Kind {
	case NXDomain:
		if n3 {
			ce, nc := z.provableEncloserLocked(t.QName)
			p.addNSEC3(ce)
			if nc != "" {
				p.addNSEC3(nc)
			}
			p.addNSEC3(Join("*", ce))
		} else {
			p.addNSEC(t.QName)
			p.addNSEC(Join("*", t.ClosestEncloser))
		}
	case NoData, ENTNoData:
		if n3 {
			ce, nc := z.provableEncloserLocked(t.QName)
			p.addNSEC3(ce) // == qname when it has a record
			if nc != "" {  // opt-out: no record for the name itself
				p.addNSEC3(nc)
			}
		} else {
			p.addNSEC(t.QName) // matching, or covering for an ENT
		}
	case WildcardNoData:
		if n3 {
			ce, nc := z.provableEncloserLocked(t.QName)
			p.addNSEC3(ce)
			if nc != "" {
				p.addNSEC3(nc)
			}
			p.addNSEC3(t.Wildcard)
		} else {
			p.addNSEC(t.Wildcard)
			p.addNSEC(t.QName)
		}
	case WildcardAnswer, WildcardCNAME:
		if n3 {
			_, nc := z.provableEncloserLocked(t.QName)
			if nc != "" {
				p.addNSEC3(nc)
			}
		} else {
			p.addNSEC(t.QName)
		}
	case Referral:
		if t.Delegation != nil && len(t.Delegation.DS) == 0 {
			if n3 {
				ce, nc := z.provableEncloserLocked(t.Child)
				p.addNSEC3(ce)
				if nc != "" {
					p.addNSEC3(nc)
				}
			} else {
				p.addNSEC(t.Child)
			}
		}
	}
	return p.out
}
