package zonemodel

import (
	"github.com/miekg/dns"
)

// Respond builds the honest authoritative response to q: AA answers with
// RRSIGs, NSEC/NSEC3 denial, referrals with DS or signed DS denial and glue.
// DNSSEC records are attached only when q carries EDNS with DO=1. The reply
// echoes id, question, RD and (when q had one) an OPT record. The zone must be
// an ancestor-or-self of the query name, otherwise the reply is REFUSED.
func (z *Zone) Respond(q *dns.Msg) *dns.Msg {
	m := new(dns.Msg)
	m.SetReply(q)
	m.Compress = true
	m.RecursionAvailable = false
	do := false
	if opt := q.IsEdns0(); opt != nil {
		do = opt.Do()
		m.SetEdns0(1232, do)
	}
	if len(q.Question) != 1 {
		m.Rcode = dns.RcodeFormatError
		return m
	}
	qq := q.Question[0]
	if qq.Qclass != z.class {
		m.Rcode = dns.RcodeRefused
		return m
	}
	z.mu.RLock()
	defer z.mu.RUnlock()
	qname := Canon(qq.Name)
	t := z.truthLocked(qname, qq.Qtype)
	if t.Kind == NotAuth {
		m.Rcode = dns.RcodeRefused
		return m
	}
	// Preserve the query's spelling of the name in the answer owner (0x20).
	z.fill(m, t, qq.Name, do, 0)
	return m
}

// withSigs appends the published set's signatures; for wildcard-expanded
// sets the signature is made over the wildcard owner and re-labelled.
func (z *Zone) answerSet(source string, typ uint16, shown []dns.RR, do bool) []dns.RR {
	out := append([]dns.RR(nil), shown...)
	if !do || !z.spec.Signed || len(shown) == 0 {
		return out
	}
	set := z.rrsetLocked(source, typ)
	if set == nil {
		return out
	}
	for _, s := range z.sigsLocked(source, typ, set.RRs) {
		c := dns.Copy(s)
		c.Header().Name = shown[0].Header().Name
		out = append(out, c)
	}
	return out
}

func (z *Zone) soaAuthority(do bool) []dns.RR {
	set := z.nodes[z.apex].sets[dns.TypeSOA]
	rrs := copyRRs(set.RRs)
	// The SOA is served with its published TTL (servers commonly lower it to
	// MINIMUM; we do not, so OrigTTL matches without TTL restoration).
	out := rrs
	if do && z.spec.Signed {
		out = append(out, copyRRs(z.sigsLocked(z.apex, dns.TypeSOA, set.RRs))...)
	}
	return out
}

func setOwner(rrs []dns.RR, owner string) {
	for _, rr := range rrs {
		rr.Header().Name = owner
	}
}

func (z *Zone) fill(m *dns.Msg, t Truth, spelled string, do bool, depth int) {
	switch t.Kind {
	case Answer:
		m.Authoritative = true
		shown := t.RRs
		setOwner(shown, spelled)
		m.Answer = append(m.Answer, z.answerSet(t.Source, t.QType, shown, do)...)
		if z.AuthorityNS && depth == 0 {
			ns := z.nodes[z.apex].sets[dns.TypeNS]
			m.Ns = append(m.Ns, z.answerSet(z.apex, dns.TypeNS, copyRRs(ns.RRs), do)...)
		}
	case WildcardAnswer:
		m.Authoritative = true
		shown := t.RRs
		setOwner(shown, spelled)
		m.Answer = append(m.Answer, z.answerSet(t.Source, t.QType, shown, do)...)
		m.Ns = appendUnique(m.Ns, z.proofLocked(t, do))
	case CNAME, WildcardCNAME:
		m.Authoritative = true
		shown := t.RRs
		setOwner(shown, spelled)
		m.Answer = append(m.Answer, z.answerSet(t.Source, dns.TypeCNAME, shown, do)...)
		if t.Kind == WildcardCNAME {
			m.Ns = appendUnique(m.Ns, z.proofLocked(t, do))
		}
		z.chase(m, t, do, depth)
	case DNAME:
		m.Authoritative = true
		if t.TooLong {
			m.Rcode = dns.RcodeYXDomain
			m.Answer = append(m.Answer, z.answerSet(t.Source, dns.TypeDNAME, t.RRs, do)...)
			return
		}
		dn := t.RRs[:1]
		m.Answer = append(m.Answer, z.answerSet(t.Source, dns.TypeDNAME, dn, do)...)
		syn := t.RRs[1]
		syn.Header().Name = spelled
		m.Answer = append(m.Answer, syn)
		z.chase(m, t, do, depth)
	case NoData, ENTNoData, WildcardNoData:
		m.Authoritative = true
		if depth == 0 || len(m.Ns) == 0 {
			m.Ns = appendUnique(m.Ns, z.soaAuthority(do))
		}
		m.Ns = appendUnique(m.Ns, z.proofLocked(t, do))
	case NXDomain:
		m.Authoritative = true
		if depth == 0 {
			m.Rcode = dns.RcodeNameError
		}
		m.Ns = appendUnique(m.Ns, z.soaAuthority(do))
		m.Ns = appendUnique(m.Ns, z.proofLocked(t, do))
	case Referral:
		if depth > 0 {
			return // alias target below a cut: the client re-queries
		}
		m.Authoritative = false
		d := t.Delegation
		m.Ns = append(m.Ns, copyRRs(d.NS)...)
		if do && z.spec.Signed {
			if len(d.DS) > 0 {
				m.Ns = append(m.Ns, copyRRs(d.DS)...)
				m.Ns = append(m.Ns, copyRRs(z.sigsLocked(d.Child, dns.TypeDS, d.DS))...)
			} else {
				m.Ns = append(m.Ns, z.proofLocked(t, do)...)
			}
		}
		m.Extra = append(copyRRs(d.Glue), m.Extra...)
	}
}

func (z *Zone) chase(m *dns.Msg, t Truth, do bool, depth int) {
	if !z.ChaseInZone || depth >= 8 || t.Target == "" || !IsSub(z.apex, t.Target) {
		return
	}
	// loop guard: target already an owner in the answer
	for _, rr := range m.Answer {
		if rr.Header().Rrtype == dns.TypeCNAME && Canon(rr.Header().Name) == t.Target {
			return
		}
	}
	nt := z.truthLocked(t.Target, t.QType)
	if nt.Kind == NotAuth || nt.Kind == Referral {
		return
	}
	z.fill(m, nt, t.Target, do, depth+1)
}

func appendUnique(dst, add []dns.RR) []dns.RR {
	for _, rr := range add {
		dup := false
		for _, have := range dst {
			if have.Header().Rrtype == rr.Header().Rrtype && have.Header().Name == rr.Header().Name && dns.IsDuplicate(have, rr) {
				dup = true
				break
			}
		}
		if !dup {
			dst = append(dst, rr)
		}
	}
	return dst
}
