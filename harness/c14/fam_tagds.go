package main

// Workload families for the key-tag and DS side: every algorithm number,
// flag combinations, key sizes around the chunk edges and the 4092-octet
// ceiling, mangled base64, digest types 0-255.

import (
	"crypto"
	"crypto/ed25519"
	"encoding/hex"
	"fmt"
	"math/rand/v2"
	"strings"

	"github.com/miekg/dns"
)

var commonAlgs = []uint8{dns.RSAMD5, dns.RSASHA1, dns.RSASHA1NSEC3SHA1, dns.RSASHA256, dns.RSASHA512,
	dns.ECDSAP256SHA256, dns.ECDSAP384SHA384, dns.ED25519, dns.DSA, dns.ECCGOST, dns.ED448, 0, 253, 255}

var flagChoices = []uint16{0, 256, 257, 385, 1, 128, 0x8000, 0xFFFF}

func pickFlags(rng *rand.Rand) uint16 {
	if rng.IntN(10) == 0 {
		return uint16(rng.UintN(65536))
	}
	return flagChoices[rng.IntN(len(flagChoices))]
}

// materialLen picks decoded key sizes: tiny, around the 192-octet decode
// chunks of the streaming key tag, ordinary, around the 4092-octet ceiling,
// and far past it.
func materialLen(rng *rand.Rand) (int, string) {
	switch rng.IntN(12) {
	case 0:
		return rng.IntN(9), "tiny"
	case 1, 2:
		edge := 192 * (1 + rng.IntN(4))
		return edge - 3 + rng.IntN(7), "chunk-edge"
	case 3, 4:
		sizes := []int{32, 64, 96, 132, 260, 516}
		return sizes[rng.IntN(len(sizes))], "typical"
	case 5:
		return 4092 - 6 + rng.IntN(12), "around-4092"
	case 6:
		return 4092, "exactly-4092"
	case 7:
		if rng.IntN(4) == 0 {
			return 8192 + rng.IntN(40000), "huge"
		}
		return 4093 + rng.IntN(300), "over-4092"
	default:
		return rng.IntN(700), "random"
	}
}

func (w *world) genKeyShape(rng *rand.Rand, alg uint8) (*dns.DNSKEY, string, string) {
	n, sizeClass := materialLen(rng)
	var raw []byte
	// sometimes real key material of the right shape
	if rng.IntN(5) == 0 {
		switch rng.IntN(4) {
		case 0:
			m := w.pool.Mods[rng.IntN(len(w.pool.Mods))]
			x := m.Exps[rng.IntN(len(m.Exps))]
			raw = encodeRSAKey(x.E, m.N, rsaEnc(rng.IntN(5)))
			sizeClass = "real-rsa"
		case 1:
			raw = w.pool.P256[rng.IntN(len(w.pool.P256))].public()
			sizeClass = "real-p256"
		case 2:
			raw = w.pool.P384[rng.IntN(len(w.pool.P384))].public()
			sizeClass = "real-p384"
		default:
			raw = w.pool.Ed[rng.IntN(len(w.pool.Ed))].Public().(ed25519.PublicKey)
			sizeClass = "real-ed25519"
		}
	} else {
		raw = fill(rng, n)
		if rng.IntN(6) == 0 {
			for i := range raw {
				raw[i] = 0xff // maximal checksum carries
			}
		}
	}
	text, how := mangleB64(rng, raw)
	proto := uint8(3)
	if rng.IntN(8) == 0 {
		proto = uint8(rng.UintN(256))
	}
	class := uint16(dns.ClassINET)
	if rng.IntN(12) == 0 {
		class = dns.ClassCHAOS
	}
	name := nameFromLabels(genLabels(rng, rng.IntN(4), 6))
	k := &dns.DNSKEY{
		Hdr:   dns.RR_Header{Name: name, Rrtype: dns.TypeDNSKEY, Class: class, Ttl: 3600},
		Flags: pickFlags(rng), Protocol: proto, Algorithm: alg, PublicKey: text,
	}
	return k, how, sizeClass
}

const keytagPerUnit = 64

func (w *world) unitKeyTag(st *stats, unit int) {
	rng := w.r.RandN("keytag", unit)
	for sub := 0; sub < keytagPerUnit; sub++ {
		idx := unit*keytagPerUnit + sub
		alg := uint8(unit*(keytagPerUnit/4*3) + sub - sub/4) // every algorithm number in turn
		if sub%4 == 3 {
			alg = commonAlgs[rng.IntN(len(commonAlgs))]
		}
		k, how, sizeClass := w.genKeyShape(rng, alg)
		if alg == dns.RSAMD5 && rng.IntN(2) == 0 {
			// the lengths around the library's RSAMD5 index-below-zero
			k.PublicKey = b64(fill(rng, rng.IntN(5)))
			how, sizeClass = "b64-plain", "rsamd5-short"
		}
		c := &jCase{Family: "keytag", Unit: unit, Sub: sub, Seed: w.r.Seed, Mut: how, Class: sizeClass, Key: keyToJ(k)}
		if idx%997 == 0 {
			c.Key = &jKey{Nil: true}
			c.Mut = "nil-key"
		}
		judgeKeyTag(st, c)
		if unit == 0 && sub < 2 {
			st.samples = append(st.samples, map[string]any{"family": "keytag", "alg": alg, "encoding": how, "size_class": sizeClass, "key_text_len": len(k.PublicKey)})
		}
	}
}

// ---------------------------------------------------------------- dsDigestMatches

func (w *world) unitDS(st *stats, unit int) {
	rng := w.r.RandN("ds", unit)
	alg := commonAlgs[rng.IntN(len(commonAlgs))]
	if rng.IntN(3) == 0 {
		alg = uint8(unit)
	}
	k, how, sizeClass := w.genKeyShape(rng, alg)
	if rng.IntN(3) > 0 {
		// mostly decodable material, so the digests are real
		n, sc := materialLen(rng)
		k.PublicKey, how, sizeClass = b64(fill(rng, n)), "b64-plain", sc
		if rng.IntN(6) == 0 {
			k.PublicKey, how = wrapEvery(k.PublicKey, 64, "\n"), "b64-wrap64-lf"
		}
	}
	if rng.IntN(25) == 0 {
		k.PublicKey, how, sizeClass = "", "b64-plain", "empty-key"
	}
	if hasLetter(k.Hdr.Name) && rng.IntN(2) == 0 {
		k.Hdr.Name = flipCase(rng, k.Hdr.Name)
	}
	sub := 0
	emit := func(dt uint8, want []byte, mut string) {
		c := &jCase{Family: "ds", Unit: unit, Sub: sub, Seed: w.r.Seed, Mut: mut, Class: sizeClass + "/" + how,
			Key: keyToJ(k), DigestType: dt, Want: hex.EncodeToString(want)}
		sub++
		judgeDS(st, c)
	}
	types := []uint8{1, 2, 4, 5, 3, 0, 6, uint8(unit), uint8(unit + 128), uint8(rng.UintN(256))}
	for _, dt := range types {
		ds, _ := libToDS(k, dt)
		var good []byte
		if ds != nil {
			good, _ = hex.DecodeString(ds.Digest)
		}
		if good != nil {
			emit(dt, good, "ds-valid")
			f := append([]byte(nil), good...)
			f[rng.IntN(len(f))] ^= 1 << rng.UintN(8)
			emit(dt, f, "ds-digest-bitflip")
			emit(dt, good[:len(good)-1], "ds-digest-truncated")
			emit(dt, append(append([]byte(nil), good...), 0), "ds-digest-extended")
			emit(dt, nil, "ds-digest-empty")
			// the right digest, offered under every other computable type
			for _, other := range []uint8{1, 2, 4, 5} {
				if other != dt {
					emit(other, good, "ds-digest-of-other-type")
				}
			}
		} else if direct := directDigest(k, dt); direct != nil {
			// the library produces no DS (key too large to pack, undecodable, ...)
			// but the digest such a key would have is computable: it must not match
			emit(dt, direct, "ds-direct-digest-of-unpackable-key")
		} else {
			// a type nobody computes: offer plausible digests anyway
			for _, l := range []int{20, 32, 48, 64} {
				emit(dt, fill(rng, l), "ds-unsupported-type-random-digest")
			}
			if d2, _ := libToDS(k, 2); d2 != nil {
				g, _ := hex.DecodeString(d2.Digest)
				emit(dt, g, "ds-unsupported-type-sha256-digest")
			}
		}
	}
	if unit%211 == 0 {
		c := &jCase{Family: "ds", Unit: unit, Sub: sub, Seed: w.r.Seed, Mut: "nil-key", Key: &jKey{Nil: true}, DigestType: 2, Want: randHex(rng, 32)}
		judgeDS(st, c)
	}
	if unit == 0 {
		st.samples = append(st.samples, map[string]any{"family": "ds", "alg": alg, "encoding": how, "size_class": sizeClass})
	}
}

// directDigest is RFC 4034 §5.1.4 computed by hand, with no size ceiling, for
// the digest types 1, 2 and 4 — what a key would hash to if the library could
// pack it. Nil when the material does not decode or the type is another one.
func directDigest(k *dns.DNSKEY, dt uint8) []byte {
	var h crypto.Hash
	switch dt {
	case 1:
		h = crypto.SHA1
	case 2:
		h = crypto.SHA256
	case 4:
		h = crypto.SHA384
	default:
		return nil
	}
	pub, err := b64dec(k.PublicKey)
	if err != nil || len(pub) == 0 {
		return nil
	}
	owner := make([]byte, 256)
	n, err := dns.PackDomainName(asciiLower(fqdn(k.Hdr.Name)), owner, 0, nil, false)
	if err != nil {
		return nil
	}
	data := append([]byte(nil), owner[:n]...)
	data = append(data, byte(k.Flags>>8), byte(k.Flags), k.Protocol, k.Algorithm)
	data = append(data, pub...)
	return hashBytes(h, data)
}

// ---------------------------------------------------------------- VerifyDS

var unsupportedAlgs = []uint8{dns.RSAMD5, dns.DSA, dns.DSANSEC3SHA1, dns.ECCGOST, dns.ED448, 0, 2, 4, 9, 11, 17, 23, 200, 253, 254, 255}
var supportedAlgs = []uint8{dns.RSASHA1, dns.RSASHA1NSEC3SHA1, dns.RSASHA256, dns.RSASHA512, dns.ECDSAP256SHA256, dns.ECDSAP384SHA384, dns.ED25519}

func mixHexCase(rng *rand.Rand, s string) string {
	b := []byte(s)
	for i, c := range b {
		if c >= 'a' && c <= 'f' && rng.IntN(2) == 0 {
			b[i] = c - 32
		}
	}
	return string(b)
}

func (w *world) unitVerifyDS(st *stats, unit int) {
	rng := w.r.RandN("vds", unit)
	zone := nameFromLabels(genLabels(rng, 1+rng.IntN(3), 8))
	mk := func(alg uint8, flags uint16, proto uint8) *dns.DNSKEY {
		n := []int{32, 64, 96, 132, 260}[rng.IntN(5)]
		return &dns.DNSKEY{Hdr: dns.RR_Header{Name: zone, Rrtype: dns.TypeDNSKEY, Class: dns.ClassINET, Ttl: 3600},
			Flags: flags, Protocol: proto, Algorithm: alg, PublicKey: b64(fill(rng, n))}
	}
	alg := supportedAlgs[rng.IntN(len(supportedAlgs))]
	k := mk(alg, 257, 3)
	mut := "vds-valid"
	dt := []uint8{1, 2, 4}[rng.IntN(3)]
	file := func(k *dns.DNSKEY) uint16 { t, _ := libKeyTag(k); return t }
	keys := []*dns.DNSKEY{k}
	buckets := []uint16{file(k)}
	var set []*dns.DS
	addDS := func(k *dns.DNSKEY, dt uint8) *dns.DS {
		d, _ := libToDS(k, dt)
		if d == nil {
			d = &dns.DS{Hdr: dns.RR_Header{Name: k.Hdr.Name, Rrtype: dns.TypeDS, Class: k.Hdr.Class, Ttl: 3600},
				KeyTag: file(k), Algorithm: k.Algorithm, DigestType: dt, Digest: randHex(rng, 32)}
		}
		set = append(set, d)
		return d
	}
	switch unit % 24 {
	case 0:
		addDS(k, dt)
	case 1:
		d := addDS(k, dt)
		d.Digest = strings.ToUpper(d.Digest)
		mut = "vds-hex-upper"
	case 2:
		d := addDS(k, dt)
		d.Digest = mixHexCase(rng, d.Digest)
		mut = "vds-hex-mixed"
	case 3:
		d := addDS(k, dt)
		d.KeyTag++
		mut = "vds-wrong-tag"
	case 4:
		d := addDS(k, dt)
		d.Algorithm = supportedAlgs[(rng.IntN(len(supportedAlgs)-1)+1+indexOf(supportedAlgs, alg))%len(supportedAlgs)]
		mut = "vds-wrong-algorithm"
	case 5:
		d := addDS(k, dt)
		b := []byte(d.Digest)
		i := rng.IntN(len(b))
		if b[i] == '0' {
			b[i] = '1'
		} else {
			b[i] = '0'
		}
		d.Digest = string(b)
		mut = "vds-digest-flipped"
	case 6:
		d := addDS(k, dt)
		d.Digest = d.Digest[:len(d.Digest)-1]
		mut = "vds-hex-odd-length"
	case 7:
		d := addDS(k, dt)
		d.Digest = d.Digest[:len(d.Digest)-2]
		mut = "vds-digest-truncated"
	case 8:
		d := addDS(k, dt)
		d.Digest = d.Digest[:4] + "zz" + d.Digest[6:]
		mut = "vds-hex-foreign-char"
	case 9:
		d := addDS(k, 5)
		_ = d
		mut = "vds-digest-type-5"
	case 10:
		k.Algorithm = unsupportedAlgs[rng.IntN(len(unsupportedAlgs))]
		buckets[0] = file(k)
		addDS(k, dt)
		mut = "vds-unsupported-algorithm"
	case 11:
		k.Flags = []uint16{0, 1, 128, 0x8000}[rng.IntN(4)]
		buckets[0] = file(k)
		addDS(k, dt)
		mut = "vds-key-without-zone-flag"
	case 12:
		k.Protocol = uint8(rng.UintN(256))
		if k.Protocol == 3 {
			k.Protocol = 2
		}
		buckets[0] = file(k)
		addDS(k, dt)
		mut = "vds-key-protocol-not-3"
	case 13:
		d := addDS(k, dt)
		if hasLetter(d.Hdr.Name) {
			d.Hdr.Name = flipCase(rng, d.Hdr.Name)
		}
		mut = "vds-owner-case"
	case 14:
		d := addDS(k, dt)
		d.Hdr.Class = dns.ClassCHAOS
		mut = "vds-wrong-class"
	case 15:
		// decoys first, duplicates, then the real one
		other := mk(alg, 257, 3)
		keys = append(keys, other)
		buckets = append(buckets, file(other))
		od := addDS(other, dt)
		od.Digest = randHex(rng, len(od.Digest)/2)
		d := addDS(k, dt)
		set = append(set, dns.Copy(d).(*dns.DS), dns.Copy(od).(*dns.DS))
		mut = "vds-decoys-and-duplicates"
	case 16:
		// the right key filed under a tag that is not its own
		buckets[0] = buckets[0] + 1
		d := addDS(k, dt)
		d.KeyTag = buckets[0]
		mut = "vds-key-filed-under-wrong-tag"
	case 17:
		// tag collision bucket: a nil, a decoy with another owner, then the key
		decoy := mk(alg, 257, 3)
		decoy.Hdr.Name = "other." + zone
		keys = []*dns.DNSKEY{nil, decoy, k}
		buckets = []uint16{buckets[0], buckets[0], buckets[0]}
		addDS(k, dt)
		mut = "vds-colliding-bucket"
	case 18:
		d := addDS(k, dt)
		d.DigestType = []uint8{0, 3, 6, 7, 255}[rng.IntN(5)]
		mut = "vds-unsupported-digest-type"
	case 19:
		k.PublicKey = wrapEvery(k.PublicKey, 16, "\r\n")
		buckets[0] = file(k)
		addDS(k, dt)
		mut = "vds-wrapped-key"
	case 20:
		k.PublicKey = b64(fill(rng, 4092-2+rng.IntN(5)))
		buckets[0] = file(k)
		addDS(k, dt)
		mut = "vds-key-around-4092"
	case 21:
		d := addDS(k, dt)
		d.Digest = ""
		mut = "vds-empty-digest"
	case 22:
		// only unsupported DS records
		addDS(k, 5)
		addDS(k, 3)
		mut = "vds-only-unsupported"
	default:
		// several digest types for one key, the supported one last
		addDS(k, 5)
		d := addDS(k, dt)
		d.Digest = strings.ToUpper(d.Digest)
		mut = "vds-mixed-types"
	}
	c := &jCase{Family: "vds", Unit: unit, Seed: w.r.Seed, Mut: mut, KeyBuckets: buckets}
	for _, kk := range keys {
		c.Keys = append(c.Keys, *keyToJ(kk))
	}
	for _, d := range set {
		c.DS = append(c.DS, dsToJ(d))
	}
	judgeVerifyDS(st, c)
	if unit == 0 {
		st.samples = append(st.samples, map[string]any{"family": "vds", "mutation": mut, "ds": fmt.Sprint(set[0])})
	}
}

func indexOf(a []uint8, v uint8) int {
	for i, x := range a {
		if x == v {
			return i
		}
	}
	return 0
}
