package main

// Key material cut or re-framed at its structural boundaries, with the RRSIG's
// key tag following the altered key so that the binding preflight passes and
// the key material itself is what the verifier has to cope with.
//
// RFC 3110 RSA material is  explen(1 | 0+2) ‖ exponent ‖ modulus ; every place
// where one field ends and the next begins is a boundary an attacker controls:
// material ending inside the length field, inside the exponent, exactly at the
// end of the exponent (no modulus octets at all), one or two octets into the
// modulus; a length field that claims more than, exactly, or one less than what
// follows; a zero length field. ECDSA/Ed25519 material is fixed width: empty,
// one octet, half, one short, one long.
//
// The expected verdict needs no special knowledge: the library (under
// recover) and the by-hand RSA reference decide, exactly as for every other
// mutation. The classes are counted from the key octets by the judge
// (rsa_key_shape_bound/…, fixed_key_len_bound/…), not from the mutation name.

import (
	"math/rand/v2"
	"sort"

	"github.com/miekg/dns"
)

type keyVariant struct {
	name string
	raw  []byte
}

// rsaHeader reads the length framing of RFC 3110 material as far as it goes.
func rsaHeader(pub []byte) (off, explen int, ok bool) {
	if len(pub) < 1 {
		return 0, 0, false
	}
	if pub[0] != 0 {
		return 1, int(pub[0]), true
	}
	if len(pub) < 3 {
		return 0, 0, false
	}
	return 3, int(pub[1])<<8 | int(pub[2]), true
}

// otherLengthForm re-frames the same exponent and modulus with the other
// spelling of the exponent length (one octet <-> zero octet plus two).
func otherLengthForm(pub []byte) []byte {
	off, explen, ok := rsaHeader(pub)
	if !ok || explen == 0 || off+explen > len(pub) {
		return nil
	}
	rest := pub[off:]
	if off == 1 {
		return append([]byte{0, byte(explen >> 8), byte(explen)}, rest...)
	}
	if explen <= 255 {
		return append([]byte{byte(explen)}, rest...)
	}
	return nil
}

func cutLengths(total int, at ...int) []int {
	seen := map[int]bool{}
	var out []int
	for _, l := range at {
		if l >= 0 && l < total && !seen[l] {
			seen[l] = true
			out = append(out, l)
		}
	}
	sort.Ints(out)
	return out
}

// keyVariants lists the structural variants of a base's key material. The
// thin list (full=false, used per verify base) frames one spelling of the
// exponent length per call and leaves out the interior cuts; the full list is
// walked by the rrsigcut units.
func keyVariants(rng *rand.Rand, b *base, full bool) []keyVariant {
	var out []keyVariant
	pub := b.pubRaw
	if !isRSAAlg(b.key.Algorithm) {
		n := len(pub)
		at := []int{0, 1, n / 2, n - 1}
		if full {
			at = append(at, n/2-1, n/2+1, 1+rng.IntN(max(n-1, 1)))
		}
		for _, l := range cutLengths(n, at...) {
			out = append(out, keyVariant{"key-cut-tag-follows", append([]byte(nil), pub[:l]...)})
		}
		out = append(out, keyVariant{"key-extended-tag-follows", append(append([]byte(nil), pub...), byte(rng.UintN(256)))})
		return out
	}
	forms := [][]byte{pub}
	if o := otherLengthForm(pub); o != nil {
		forms = append(forms, o)
	}
	if !full && len(forms) == 2 {
		i := rng.IntN(2)
		forms = forms[i : i+1]
	}
	for _, f := range forms {
		off, explen, ok := rsaHeader(f)
		if !ok {
			continue
		}
		modoff := off + explen
		at := []int{0, 1, 2, modoff - 1, modoff, modoff + 1}
		if full {
			at = append(at, 3, 4, modoff+2, len(f)-1)
			if explen > 1 {
				at = append(at, off+rng.IntN(explen))
			}
			if len(f) > modoff+3 {
				at = append(at, modoff+3+rng.IntN(len(f)-modoff-3))
			}
		}
		for _, l := range cutLengths(len(f), at...) {
			out = append(out, keyVariant{"key-cut-tag-follows", append([]byte(nil), f[:l]...)})
		}
		// the length field set against what actually follows it
		rest := len(f) - off
		claims := []int{0, rest - 1, rest, rest + 1}
		if full {
			claims = append(claims, 0xff, 0xffff)
		}
		for _, claim := range claims {
			if claim < 0 || claim > 0xffff || (off == 1 && (claim > 255 || claim == 0)) {
				// a zero first octet would switch the one-octet form into the long form
				continue
			}
			g := append([]byte(nil), f...)
			if off == 1 {
				g[0] = byte(claim)
			} else {
				g[1], g[2] = byte(claim>>8), byte(claim)
			}
			out = append(out, keyVariant{"key-rsa-explen-field-tag-follows", g})
		}
	}
	// short material built from nothing but framing: a length and exactly that many exponent octets
	exps := [][]byte{{3}, {1, 0, 1}, {1, 0, 0, 0, 1}}
	if !full {
		i := rng.IntN(len(exps))
		exps = exps[i : i+1]
	}
	for _, e := range exps {
		out = append(out, keyVariant{"key-rsa-exponent-only-tag-follows", append([]byte{byte(len(e))}, e...)})
		out = append(out, keyVariant{"key-rsa-exponent-only-tag-follows", append([]byte{0, 0, byte(len(e))}, e...)})
	}
	return out
}

// withKeyMaterial gives the base's key other material and lets the signature's
// key tag follow it.
func (b *base) withKeyMaterial(v keyVariant) (*dns.DNSKEY, *dns.RRSIG) {
	k := cloneKey(b.key)
	k.PublicKey = b64(v.raw)
	s := cloneSig(b.sig)
	s.KeyTag, _ = libKeyTag(k)
	return k, s
}

func (w *world) keyVariantMutants(rng *rand.Rand, b *base) []mutant {
	var out []mutant
	for _, v := range keyVariants(rng, b, false) {
		k, s := b.withKeyMaterial(v)
		out = append(out, mutant{name: v.name, key: k, sig: s, rrs: b.rrs})
	}
	return out
}

// rsaKeyShape names where RFC 3110 key material ends relative to its framing.
func rsaKeyShape(pub []byte) string {
	if len(pub) == 0 {
		return "empty"
	}
	form := "len1"
	if pub[0] == 0 {
		form = "len3"
	}
	off, explen, ok := rsaHeader(pub)
	switch {
	case !ok:
		return form + "/length-field-incomplete"
	case explen == 0:
		return form + "/explen-zero"
	case len(pub) < off+explen:
		return form + "/exponent-incomplete"
	case len(pub) == off+explen:
		return form + "/no-modulus"
	case len(pub)-off-explen <= 2:
		return form + "/modulus-stub"
	}
	return form + "/full"
}

func fixedKeyWidth(alg uint8) int {
	switch alg {
	case dns.ECDSAP256SHA256:
		return 64
	case dns.ECDSAP384SHA384:
		return 96
	case dns.ED25519:
		return 32
	}
	return 0
}

// countKeyShape records, from the octets of the key itself, which structural
// shape of key material a verifier was handed by an RRSIG that is bound to that
// key (tag, algorithm, class, signer, zone-key flags, owner) — the only keys
// whose material a verifier gets to parse.
func countKeyShape(st *stats, prefix string, k *dns.DNSKEY, sig *dns.RRSIG, rrs []dns.RR) {
	if k == nil || sig == nil || k.Algorithm != sig.Algorithm {
		return
	}
	pub, err := b64dec(k.PublicKey)
	if err != nil {
		return
	}
	tag, p := libKeyTag(k)
	if p || !refBinding(k, sig, rrs, tag) {
		return
	}
	if isRSAAlg(k.Algorithm) {
		st.count(prefix+"rsa_key_shape_bound/"+rsaKeyShape(pub), 1)
		return
	}
	if want := fixedKeyWidth(k.Algorithm); want > 0 {
		shape := "exact"
		switch {
		case len(pub) == 0:
			shape = "empty"
		case len(pub) < want:
			shape = "short"
		case len(pub) > want:
			shape = "long"
		}
		st.count(prefix+"fixed_key_len_bound/"+algFamily(k.Algorithm)+"/"+shape, 1)
	}
}

// requiredRSAKeyShapes: every way RSA key material can end against its framing.
var requiredRSAKeyShapes = []string{
	"empty", "len3/length-field-incomplete", "len3/explen-zero",
	"len1/exponent-incomplete", "len3/exponent-incomplete",
	"len1/no-modulus", "len3/no-modulus",
	"len1/modulus-stub", "len3/modulus-stub",
	"len1/full", "len3/full",
}

// unitRRSIGCut drives the exported VerifyRRSIG with a structurally cut key in
// the key map: alone (nothing may validate), or next to the genuine key and
// signature (the message still validates; the broken sibling must be skipped).
func (w *world) unitRRSIGCut(st *stats, unit int) {
	rng := w.r.RandN("rrsigcut", unit)
	spec := baseSpec{}
	switch unit % 8 {
	case 0:
		spec.alg = dns.ECDSAP256SHA256
	case 1:
		spec.alg = dns.ED25519
	case 2:
		spec.alg = dns.ECDSAP384SHA384
	default:
		spec.alg = rsaAlgs[(unit/8)%4]
		in := w.pool.modsIn(1024, 2048)
		spec.mod = in[rng.IntN(len(in))]
		spec.expName = []string{"f4", "e3", "f5", "e64", "e128", "ge-n"}[rng.IntN(6)]
		if rng.IntN(2) == 0 {
			spec.enc = encLongExpLen
		}
	}
	spec.window = &[2]uint32{tsPast - uint32(rng.IntN(1<<24)), tsFuture1 + uint32(rng.IntN(1<<24))}
	b, err := w.makeBase(rng, spec)
	if err != nil {
		st.inconclusive("rrsigcut base: " + err.Error())
		return
	}
	wire, text, err := rrsToJ(b.rrs)
	if err != nil {
		return
	}
	for i, v := range keyVariants(rng, b, true) {
		k, s := b.withKeyMaterial(v)
		c := &jCase{Family: "rrsig", Unit: unit, Sub: i, Seed: w.r.Seed, Class: b.class + "/" + v.name,
			Zone: hs(b.key.Hdr.Name), RRs: wire, RRText: text}
		if (i+unit)%2 == 0 {
			c.Mut = "rrsig-only-altered-key"
			c.Keys, c.KeyBuckets = []jKey{*keyToJ(k)}, []uint16{s.KeyTag}
			c.Sigs = []jSig{*sigToJ(s)}
		} else {
			c.Mut = "rrsig-altered-key-then-good-key"
			c.Keys, c.KeyBuckets = []jKey{*keyToJ(k), *keyToJ(b.key)}, []uint16{s.KeyTag, b.sig.KeyTag}
			c.Sigs = []jSig{*sigToJ(s), *sigToJ(b.sig)}
		}
		judgeRRSIG(st, c)
	}
}
