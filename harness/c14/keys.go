package main

// Deterministic key material and signers. Everything here is derived from the
// run's seeded PCG streams: RSA primes are searched with math/big (the standard
// library's generators deliberately ignore caller-supplied randomness), ECDSA
// nonces are derived from the private scalar and the digest, Ed25519 keys come
// from a seeded 32-octet seed. The signers implement crypto.Signer so that the
// *library's* dns.RRSIG.Sign produces the signatures (its canonical form, its
// ECDSA r|s packing); for RSA the signer is plain big-integer arithmetic so it
// can sign with any exponent, including those crypto/rsa refuses.

import (
	"crypto"
	"crypto/ed25519"
	"crypto/elliptic"
	"crypto/sha1" //nolint:gosec
	"crypto/sha256"
	"crypto/sha512"
	"encoding/asn1"
	"errors"
	"io"
	"math/big"
	"math/rand/v2"

	"github.com/miekg/dns"
)

var (
	big1 = big.NewInt(1)
	big2 = big.NewInt(2)
	big3 = big.NewInt(3)
)

func fill(rng *rand.Rand, n int) []byte {
	b := make([]byte, n)
	for i := 0; i < n; {
		v := rng.Uint64()
		for j := 0; j < 8 && i < n; j++ {
			b[i] = byte(v)
			v >>= 8
			i++
		}
	}
	return b
}

// randBits returns a uniformly random integer of exactly `bits` bits.
func randBits(rng *rand.Rand, bits int) *big.Int {
	if bits <= 0 {
		return new(big.Int)
	}
	b := fill(rng, (bits+7)/8)
	x := new(big.Int).SetBytes(b)
	x.And(x, new(big.Int).Sub(new(big.Int).Lsh(big1, uint(bits)), big1))
	x.SetBit(x, bits-1, 1)
	return x
}

// ---------------------------------------------------------------- RSA

// Prime constraints: p ≡ 3 (mod 4) and p ≡ 2 (mod 3), and p-1 free of the
// factors of the fixed exponents we want to sign with (65537, 641·6700417 =
// 2^32+1), so that d = e^-1 mod φ exists for 3, 65537 and 2^32+1.
func genPrime(rng *rand.Rand, bits int) *big.Int {
	small := []int64{65537, 641, 6700417, 17, 5}
	for {
		p := randBits(rng, bits)
		p.SetBit(p, bits-2, 1) // top two bits set: a product of two such primes has exactly pbits+qbits bits
		p.SetBit(p, 0, 1)
		p.SetBit(p, 1, 1) // ≡ 3 mod 4
		if new(big.Int).Mod(p, big3).Int64() != 2 {
			continue
		}
		if !p.ProbablyPrime(2) {
			continue
		}
		pm1 := new(big.Int).Sub(p, big1)
		ok := true
		for _, s := range small {
			if new(big.Int).Mod(pm1, big.NewInt(s)).Sign() == 0 {
				ok = false
				break
			}
		}
		if ok {
			return p
		}
	}
}

type rsaMod struct {
	Bits       int
	P, Q, N    *big.Int
	Phi        *big.Int
	Pm1, Qm1   *big.Int
	QInv       *big.Int
	Exps       []*rsaExp
	ExpsByName map[string]*rsaExp
}

type rsaExp struct {
	Name   string
	E      *big.Int
	D      *big.Int // nil: no private exponent (even e, ...)
	dP, dQ *big.Int
}

func genRSAMod(rng *rand.Rand, bits int) *rsaMod {
	pb := (bits + 1) / 2
	qb := bits - pb
	for {
		p := genPrime(rng, pb)
		q := genPrime(rng, qb)
		if p.Cmp(q) == 0 {
			continue
		}
		n := new(big.Int).Mul(p, q)
		if n.BitLen() != bits {
			continue
		}
		m := &rsaMod{Bits: bits, P: p, Q: q, N: n, ExpsByName: map[string]*rsaExp{}}
		m.Pm1 = new(big.Int).Sub(p, big1)
		m.Qm1 = new(big.Int).Sub(q, big1)
		m.Phi = new(big.Int).Mul(m.Pm1, m.Qm1)
		m.QInv = new(big.Int).ModInverse(q, p)
		m.addExps(rng)
		return m
	}
}

// coprimeFrom walks e upward in steps of two until gcd(e, φ) = 1.
func (m *rsaMod) coprimeFrom(e *big.Int) *big.Int {
	e = new(big.Int).Set(e)
	e.SetBit(e, 0, 1)
	g := new(big.Int)
	for {
		if g.GCD(nil, nil, e, m.Phi); g.Cmp(big1) == 0 {
			return e
		}
		e.Add(e, big2)
	}
}

func (m *rsaMod) add(name string, e *big.Int, signable bool) {
	x := &rsaExp{Name: name, E: e}
	if signable {
		d := new(big.Int).ModInverse(e, m.Phi)
		if d == nil {
			panic("c14: exponent " + name + " not invertible")
		}
		x.D = d
		x.dP = new(big.Int).Mod(d, m.Pm1)
		x.dQ = new(big.Int).Mod(d, m.Qm1)
	}
	m.Exps = append(m.Exps, x)
	m.ExpsByName[name] = x
}

func pow2(k uint) *big.Int { return new(big.Int).Lsh(big1, k) }

func (m *rsaMod) addExps(rng *rand.Rand) {
	m.add("e3", big.NewInt(3), true)
	m.add("e17", m.coprimeFrom(big.NewInt(17)), true)
	m.add("f4", big.NewInt(65537), true)
	// largest exponents the standard library still loads (<= 2^31-1)
	m.add("max31", m.coprimeFrom(new(big.Int).Sub(pow2(31), big.NewInt(4097))), true)
	// smallest exponents it refuses
	m.add("min-wide", m.coprimeFrom(new(big.Int).Add(pow2(31), big1)), true)
	m.add("f5", new(big.Int).Add(pow2(32), big1), true) // 2^32+1, the mailbox.org exponent
	m.add("e40", m.coprimeFrom(randBits(rng, 40)), true)
	m.add("e64", m.coprimeFrom(randBits(rng, 64)), true) // widest exponent sdns states it accepts
	m.add("e65", m.coprimeFrom(new(big.Int).Add(pow2(64), big1)), true)
	m.add("e128", m.coprimeFrom(randBits(rng, 128)), true)
	// e >= n but congruent to 65537 modulo φ: the 65537 signature is valid for it
	m.add("ge-n", new(big.Int).Add(big.NewInt(65537), new(big.Int).Lsh(m.Phi, 1)), true)
	m.add("e1", big.NewInt(1), true) // identity "signature": EM itself
	m.add("even2", big.NewInt(2), false)
	m.add("even65536", big.NewInt(65536), false)
	m.add("even-wide", new(big.Int).Add(pow2(32), big2), false)
}

// private computes c^d mod n by CRT.
func (m *rsaMod) private(x *rsaExp, c *big.Int) *big.Int {
	m1 := new(big.Int).Exp(c, x.dP, m.P)
	m2 := new(big.Int).Exp(c, x.dQ, m.Q)
	h := new(big.Int).Sub(m1, m2)
	h.Mul(h, m.QInv)
	h.Mod(h, m.P)
	h.Mul(h, m.Q)
	h.Add(h, m2)
	return h
}

// digestInfo prefixes (RFC 8017 §9.2 note 1).
var (
	diSHA1   = []byte{0x30, 0x21, 0x30, 0x09, 0x06, 0x05, 0x2b, 0x0e, 0x03, 0x02, 0x1a, 0x05, 0x00, 0x04, 0x14}
	diSHA256 = []byte{0x30, 0x31, 0x30, 0x0d, 0x06, 0x09, 0x60, 0x86, 0x48, 0x01, 0x65, 0x03, 0x04, 0x02, 0x01, 0x05, 0x00, 0x04, 0x20}
	diSHA512 = []byte{0x30, 0x51, 0x30, 0x0d, 0x06, 0x09, 0x60, 0x86, 0x48, 0x01, 0x65, 0x03, 0x04, 0x02, 0x03, 0x05, 0x00, 0x04, 0x40}
)

func rsaAlgHash(alg uint8) (crypto.Hash, []byte, bool) {
	switch alg {
	case dns.RSASHA1, dns.RSASHA1NSEC3SHA1:
		return crypto.SHA1, diSHA1, true
	case dns.RSASHA256:
		return crypto.SHA256, diSHA256, true
	case dns.RSASHA512:
		return crypto.SHA512, diSHA512, true
	}
	return 0, nil, false
}

func hashBytes(h crypto.Hash, data []byte) []byte {
	switch h {
	case crypto.SHA1:
		s := sha1.Sum(data) //nolint:gosec
		return s[:]
	case crypto.SHA256:
		s := sha256.Sum256(data)
		return s[:]
	case crypto.SHA384:
		s := sha512.Sum384(data)
		return s[:]
	case crypto.SHA512:
		s := sha512.Sum512(data)
		return s[:]
	}
	return nil
}

// emsaEncode builds EM = 00 01 FF.. 00 prefix||hashed of k octets (RFC 8017 §9.2).
func emsaEncode(k int, prefix, hashed []byte) ([]byte, bool) {
	t := len(prefix) + len(hashed)
	if k < t+11 {
		return nil, false
	}
	em := make([]byte, k)
	em[1] = 1
	for i := 2; i < k-t-1; i++ {
		em[i] = 0xff
	}
	copy(em[k-t:], prefix)
	copy(em[k-len(hashed):], hashed)
	return em, true
}

func i2osp(x *big.Int, k int) []byte {
	b := x.Bytes()
	if len(b) >= k {
		return b
	}
	out := make([]byte, k)
	copy(out[k-len(b):], b)
	return out
}

// rsaSigner is a crypto.Signer over big integers.
type rsaSigner struct {
	m *rsaMod
	x *rsaExp
}

func (s rsaSigner) Public() crypto.PublicKey { return nil }

func (s rsaSigner) Sign(_ io.Reader, digest []byte, opts crypto.SignerOpts) ([]byte, error) {
	var prefix []byte
	switch opts.HashFunc() {
	case crypto.SHA1:
		prefix = diSHA1
	case crypto.SHA256:
		prefix = diSHA256
	case crypto.SHA512:
		prefix = diSHA512
	default:
		return nil, errors.New("c14: unsupported hash")
	}
	k := (s.m.N.BitLen() + 7) / 8
	em, ok := emsaEncode(k, prefix, digest)
	if !ok {
		return nil, errors.New("c14: modulus too short for EMSA")
	}
	return s.signEM(em), nil
}

// signEM applies the private operation to an arbitrary encoded message (used
// for deliberately malformed encodings).
func (s rsaSigner) signEM(em []byte) []byte {
	k := (s.m.N.BitLen() + 7) / 8
	c := new(big.Int).SetBytes(em)
	return i2osp(s.m.private(s.x, c), k)
}

// RFC 3110 public key encodings.
type rsaEnc int

const (
	encCanonical   rsaEnc = iota
	encLongExpLen         // three-octet exponent length although it fits one
	encLeadZeroExp        // exponent prefixed with a zero octet
	encLeadZeroMod        // modulus prefixed with a zero octet
	encLeadZeroBoth
)

var rsaEncNames = []string{"canonical", "explen3", "lead0-exp", "lead0-mod", "lead0-both"}

func encodeRSAKey(e, n *big.Int, enc rsaEnc) []byte {
	eb := e.Bytes()
	nb := n.Bytes()
	if enc == encLeadZeroExp || enc == encLeadZeroBoth {
		eb = append([]byte{0}, eb...)
	}
	if enc == encLeadZeroMod || enc == encLeadZeroBoth {
		nb = append([]byte{0}, nb...)
	}
	var out []byte
	if len(eb) > 255 || enc == encLongExpLen {
		out = append(out, 0, byte(len(eb)>>8), byte(len(eb)))
	} else {
		out = append(out, byte(len(eb)))
	}
	out = append(out, eb...)
	return append(out, nb...)
}

// ---------------------------------------------------------------- ECDSA

type ecKey struct {
	curve elliptic.Curve
	size  int
	d     *big.Int
	x, y  *big.Int
}

func genECKey(rng *rand.Rand, curve elliptic.Curve) *ecKey {
	n := curve.Params().N
	for {
		d := randBits(rng, n.BitLen()-1)
		if d.Sign() == 0 || d.Cmp(n) >= 0 {
			continue
		}
		x, y := curve.ScalarBaseMult(d.Bytes()) //nolint:staticcheck // deterministic key derivation for the reference side
		return &ecKey{curve: curve, size: (curve.Params().BitSize + 7) / 8, d: d, x: x, y: y}
	}
}

func (k *ecKey) public() []byte {
	out := make([]byte, 2*k.size)
	k.x.FillBytes(out[:k.size])
	k.y.FillBytes(out[k.size:])
	return out
}

func (k *ecKey) Public() crypto.PublicKey { return nil }

// Sign is textbook ECDSA with a nonce derived from (d, digest): deterministic,
// so the same seed yields the same signatures.
func (k *ecKey) Sign(_ io.Reader, digest []byte, _ crypto.SignerOpts) ([]byte, error) {
	r, s := k.signRS(digest)
	return asn1.Marshal(struct{ R, S *big.Int }{r, s})
}

func (k *ecKey) signRS(digest []byte) (r, s *big.Int) {
	n := k.curve.Params().N
	z := new(big.Int).SetBytes(digest)
	if excess := len(digest)*8 - n.BitLen(); excess > 0 {
		z.Rsh(z, uint(excess))
	}
	for ctr := byte(0); ; ctr++ {
		h := sha512.New()
		h.Write(k.d.Bytes())
		h.Write(digest)
		h.Write([]byte{ctr})
		kk := new(big.Int).SetBytes(h.Sum(nil))
		kk.Mod(kk, new(big.Int).Sub(n, big1))
		kk.Add(kk, big1)
		x, _ := k.curve.ScalarBaseMult(kk.Bytes()) //nolint:staticcheck
		r = new(big.Int).Mod(x, n)
		if r.Sign() == 0 {
			continue
		}
		s = new(big.Int).Mul(r, k.d)
		s.Add(s, z)
		s.Mul(s, new(big.Int).ModInverse(kk, n))
		s.Mod(s, n)
		if s.Sign() == 0 {
			continue
		}
		return r, s
	}
}

// ---------------------------------------------------------------- Ed25519

func genEd25519(rng *rand.Rand) ed25519.PrivateKey {
	return ed25519.NewKeyFromSeed(fill(rng, ed25519.SeedSize))
}

// ---------------------------------------------------------------- pool

// keyPool is generated once per run (RSA prime search is the slow part) and is
// read-only afterwards.
type keyPool struct {
	Mods []*rsaMod
	P256 []*ecKey
	P384 []*ecKey
	Ed   []ed25519.PrivateKey
}

func (p *keyPool) modsIn(lo, hi int) []*rsaMod {
	var out []*rsaMod
	for _, m := range p.Mods {
		if m.Bits >= lo && m.Bits <= hi {
			out = append(out, m)
		}
	}
	return out
}
