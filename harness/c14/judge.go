package main

// Judges: run the real sdns primitive and the reference on one materialised
// case and classify the pair of verdicts.

import (
	"os"
	"bytes"
	"encoding/hex"
	"fmt"
	"math/big"
	"sort"
	"strings"
	"time"

	"github.com/miekg/dns"
	"github.com/semihalev/sdns/middleware/resolver/dnssec"
)

// ---------------------------------------------------------------- stats

type viol struct {
	sig, what string
	c         *jCase
}

type stats struct {
	evals      int64
	counters   map[string]int64
	maxes      map[string]int64
	distinct   map[string]struct{}
	distinctIn map[string]map[string]struct{}
	viols      []viol
	incon      []string
	samples    []any
	famNanos   map[string]int64
	slowWhat   map[string]string
}

func newStats() *stats {
	return &stats{counters: map[string]int64{}, maxes: map[string]int64{}, distinct: map[string]struct{}{},
		distinctIn: map[string]map[string]struct{}{}, famNanos: map[string]int64{}, slowWhat: map[string]string{}}
}

func (s *stats) count(k string, n int64) { s.counters[k] += n }
func (s *stats) max(k string, v int64) {
	if v > s.maxes[k] {
		s.maxes[k] = v
	}
}
func (s *stats) dist(k string) { s.distinct[k] = struct{}{} }
func (s *stats) distIn(class, k string) {
	m := s.distinctIn[class]
	if m == nil {
		m = map[string]struct{}{}
		s.distinctIn[class] = m
	}
	m[k] = struct{}{}
}
func (s *stats) violation(sig, what string, c *jCase) {
	s.viols = append(s.viols, viol{sig, what, c})
}
func (s *stats) inconclusive(why string) {
	if len(s.incon) < 20 {
		s.incon = append(s.incon, why)
	}
}

func (s *stats) merge(o *stats) {
	s.evals += o.evals
	for k, v := range o.counters {
		s.counters[k] += v
	}
	for k, v := range o.maxes {
		if v > s.maxes[k] {
			s.slowWhat[k] = o.slowWhat[k]
		}
		s.max(k, v)
	}
	for k, v := range o.famNanos {
		s.famNanos[k] += v
	}
	for k := range o.distinct {
		s.distinct[k] = struct{}{}
	}
	for c, m := range o.distinctIn {
		for k := range m {
			s.distIn(c, k)
		}
	}
	s.viols = append(s.viols, o.viols...)
	s.incon = append(s.incon, o.incon...)
	s.samples = append(s.samples, o.samples...)
}

const slowCeiling = time.Second

var debug = os.Getenv("VERIF_C14_DEBUG") != ""

// guard runs one call into sdns under recover() and the coarse time ceiling.
// A call slower than the ceiling is repeated on the same input; only three
// consecutive slow executions count (a loaded machine can stall one).
func (s *stats) guard(prim string, c *jCase, f func()) (ok bool) {
	run := func() (d time.Duration, p any) {
		defer func() { p = recover() }()
		t0 := time.Now()
		f()
		return time.Since(t0), nil
	}
	d, p := run()
	if p != nil {
		s.violation("panic/"+prim, fmt.Sprintf("%s panicked: %v", prim, p), c)
		return false
	}
	if key := "slowest_call_us/" + prim; d.Microseconds() > s.maxes[key] {
		s.maxes[key] = d.Microseconds()
		s.slowWhat[key] = c.Family + "/" + c.Mut + "/" + c.Class
	}
	if d > slowCeiling {
		s.count("slow_single_calls", 1)
		slow := 1
		for i := 0; i < 2; i++ {
			d2, p2 := run()
			if p2 != nil {
				break
			}
			if d2 > slowCeiling {
				slow++
			}
		}
		if slow == 3 {
			s.violation("slow/"+prim, fmt.Sprintf("%s took more than %v three times in a row on one input (first %v)", prim, slowCeiling, d), c)
		}
	}
	return true
}

// ---------------------------------------------------------------- shared classification

func algFamily(alg uint8) string {
	switch alg {
	case dns.RSASHA1:
		return "rsasha1"
	case dns.RSASHA1NSEC3SHA1:
		return "rsasha1nsec3"
	case dns.RSASHA256:
		return "rsasha256"
	case dns.RSASHA512:
		return "rsasha512"
	case dns.ECDSAP256SHA256:
		return "p256"
	case dns.ECDSAP384SHA384:
		return "p384"
	case dns.ED25519:
		return "ed25519"
	}
	return "other"
}

func isRSAAlg(alg uint8) bool {
	switch alg {
	case dns.RSASHA1, dns.RSASHA1NSEC3SHA1, dns.RSASHA256, dns.RSASHA512:
		return true
	}
	return false
}

var maxStdExp = big.NewInt(1<<31 - 1)

// The limits sdns documents for itself (rsa.go: minRSAModulusBits,
// maxRSAModulusBits, maxRSAExponentBits; signature.go: verifySignature's doc).
const (
	docMinModBits = 1024
	docMaxModBits = 4096
	docMaxExpBits = 64
)

// refOutcome is the reference verdict for one (key, sig, rrset).
type refOutcome struct {
	known    bool // false: neither reference can answer
	accept   bool
	basis    string // "library" | "bigint"
	lib      verdict
	mathKnow bool // big-integer verdict available (RSA only)
	math     bool
	mathWhy  string // which step of the by-hand verification refused
	rk       *refRSAKey
	sigBytes []byte
	sigErr   error
}

// bigintBudgetBits bounds what the reference is willing to exponentiate.
const bigintBudgetBits = 9000

func refVerify(k *dns.DNSKEY, sig *dns.RRSIG, rrs []dns.RR) refOutcome {
	var o refOutcome
	if k == nil || sig == nil {
		// The library dereferences both. Nothing can be mathematically
		// valid for a key or a signature that does not exist.
		o.known, o.accept, o.basis = true, false, "absent"
		return o
	}
	o.lib, _ = libVerify(sig, k, rrs)
	o.sigBytes, o.sigErr = b64dec(sig.Signature)
	wide := false
	if isRSAAlg(k.Algorithm) && isRSAAlg(sig.Algorithm) {
		if pub, err := b64dec(k.PublicKey); err == nil {
			if rk, ok := refParseRSA(pub); ok {
				o.rk = rk
				wide = rk.E.Cmp(maxStdExp) > 0
				if rk.N.BitLen() <= bigintBudgetBits && rk.E.BitLen() <= bigintBudgetBits {
					tag, tagPanic := libKeyTag(k)
					if !tagPanic {
						if !refBinding(k, sig, rrs, tag) {
							o.mathKnow, o.math, o.mathWhy = true, false, "the RRSIG is not bound to this key and RRset (RFC 4034 §3.1 / RFC 4035 §5.3.1, names compared as ASCII-case-insensitive octets)"
						} else if o.sigErr != nil {
							o.mathKnow, o.math, o.mathWhy = true, false, "the signature field is not base64"
						} else if data, err := refSignedData(sig, rrs); err == nil {
							h, prefix, _ := rsaAlgHash(sig.Algorithm)
							o.mathKnow = true
							o.math = refPKCS1v15(rk.N, rk.E, prefix, hashBytes(h, data), o.sigBytes)
							o.mathWhy = "s^e mod n is not the EMSA-PKCS1-v1_5 encoding of the digest of the library's signed data"
						} else if err != errRefUnavailable {
							// the library cannot form the signed data: nothing to be valid over
							o.mathKnow, o.math, o.mathWhy = true, false, "the library cannot build the signed data: "+err.Error()
						}
					}
				}
			}
		}
	}
	if wide {
		// The library cannot load this exponent at all; its verdict is not a
		// judgement of the signature. Reference: big-integer validity, for a
		// key in the format the library documents for every RSA key (no
		// leading zero octets, modulus of 64..512 octets).
		o.basis = "bigint"
		if o.mathKnow {
			o.known = true
			o.accept = o.math && !o.rk.ELead0 && !o.rk.NLead0 && o.rk.ModLen >= 64 && o.rk.ModLen <= 512
		}
		return o
	}
	o.basis = "library"
	if o.lib != vPanic {
		o.known = true
		o.accept = o.lib == vAccept
	}
	return o
}

// strictClass names the documented deliberate-strictness class an input falls
// in, or "" when it is in none. Only what the code itself states is listed:
//
//	ecdsa-sig-width        signature.go verifySignature doc: r|s not exactly 2·size octets
//	rsa-modulus-lt-1024    signature.go / rsa.go usableRSAKey: modulus below minRSAModulusBits
//	rsa-modulus-gt-4096    ditto, above maxRSAModulusBits
//	rsa-exponent-limits    rsa.go usableRSAKey: even, < 3, >= n, or wider than maxRSAExponentBits
//	rsa-leading-zero       rsa.go parseRSAPublicKey: leading zero octet in exponent or modulus
//	signer-label-boundary  signature.go signatureBinding: owner inside signer only by string suffix
func strictClass(k *dns.DNSKEY, sig *dns.RRSIG, rrs []dns.RR, o *refOutcome) string {
	switch sig.Algorithm {
	case dns.ECDSAP256SHA256:
		if o.sigErr == nil && len(o.sigBytes) != 64 {
			return "ecdsa-sig-width"
		}
	case dns.ECDSAP384SHA384:
		if o.sigErr == nil && len(o.sigBytes) != 96 {
			return "ecdsa-sig-width"
		}
	}
	if rk := o.rk; rk != nil {
		switch {
		case rk.ELead0 || rk.NLead0:
			return "rsa-leading-zero"
		case rk.N.BitLen() < docMinModBits:
			return "rsa-modulus-lt-1024"
		case rk.N.BitLen() > docMaxModBits:
			return "rsa-modulus-gt-4096"
		case rk.E.Bit(0) == 0 || rk.E.Cmp(big3) < 0 || rk.E.Cmp(rk.N) >= 0 || rk.E.BitLen() > docMaxExpBits:
			return "rsa-exponent-limits"
		}
	}
	if len(rrs) > 0 {
		owner := asciiLower(fqdn(rrs[0].Header().Name))
		signer := asciiLower(fqdn(sig.SignerName))
		if strings.HasSuffix(owner, signer) && !labelBoundary(owner, signer) {
			return "signer-label-boundary"
		}
	}
	return ""
}

func accepted(err error) verdict {
	if err == nil {
		return vAccept
	}
	return vReject
}

// ---------------------------------------------------------------- verify

func judgeVerify(st *stats, c *jCase) {
	k := c.Key.build()
	sig := c.Sig.build()
	rrs, err := buildRRs(c.RRs, c.Unpackable)
	if err != nil {
		st.inconclusive("verify case does not rebuild: " + err.Error())
		return
	}
	alg := uint8(0)
	if sig != nil {
		alg = sig.Algorithm
	}
	fam := algFamily(alg)
	ref := refVerify(k, sig, rrs)
	countKeyShape(st, "", k, sig, rrs)

	prims := []struct {
		name string
		call func() error
	}{{"verifySignature", func() error { return dnssec.VerifC14VerifySignature(k, sig, rrs) }}}
	if k != nil && sig != nil {
		// cryptoVerify dereferences its key; sdns only calls it on candidates
		// usableSignatureCandidate already vetted as non-nil.
		prims = append(prims, struct {
			name string
			call func() error
		}{"cryptoVerify", func() error { return dnssec.VerifC14CryptoVerify(k, sig, rrs) }})
	}
	for _, p := range prims {
		var serr error
		if !st.guard(p.name, c, func() { serr = p.call() }) {
			continue
		}
		S := accepted(serr)
		st.evals++
		st.count("comparisons/"+p.name, 1)
		st.count("mut/"+c.Mut, 1)
		st.distIn("alg_mutation_pairs", fmt.Sprintf("%d/%s", alg, c.Mut))

		// sdns must never accept what plain arithmetic says is invalid
		if S == vAccept && ref.mathKnow && !ref.math {
			st.violation(fmt.Sprintf("more-permissive/%s/%s/%s", p.name, fam, c.Mut),
				fmt.Sprintf("%s accepted an RSA signature the by-hand reference refuses: %s (input class %s)", p.name, ref.mathWhy, c.Class), c)
			continue
		}
		cls := ""
		if k != nil && sig != nil {
			cls = strictClass(k, sig, rrs, &ref)
		}
		switch {
		case S == vAccept && cls != "":
			// "accepted exactly when valid AND within the documented limits":
			// an input in a class the code documents as refused must be refused.
			st.violation(fmt.Sprintf("more-permissive/%s/%s/%s", p.name, fam, cls),
				fmt.Sprintf("%s accepted an input in the documented refusal class %s (mutation %s, input class %s)", p.name, cls, c.Mut, c.Class), c)
		case !ref.known:
			st.count("verify_reference_unanswerable", 1)
			if debug {
				fmt.Fprintf(os.Stderr, "DEBUG ref-unanswerable: mut=%s class=%s lib=%v basis=%s S=%v\n", c.Mut, c.Class, ref.lib, ref.basis, S)
			}
		case S == vAccept && ref.accept:
			st.count("verify_agree_accept", 1)
			st.count("verify_agree_accept/"+fam, 1)
			if ref.basis == "bigint" {
				st.count("verify_agree_accept/rsa-wide-exponent", 1)
			}
			st.dist(fmt.Sprintf("verify/accept/%s/%s/%s", fam, c.Mut, c.Class))
		case S == vReject && !ref.accept:
			st.count("verify_agree_reject", 1)
			st.count("verify_agree_reject/"+fam, 1)
			if cls != "" {
				st.count("verify_agree_reject_in_class/"+cls, 1)
			}
			st.dist(fmt.Sprintf("verify/reject/%s/%s/%s", fam, c.Mut, c.Class))
		case S == vAccept && !ref.accept:
			st.violation(fmt.Sprintf("more-permissive/%s/%s/%s", p.name, fam, c.Mut),
				fmt.Sprintf("%s accepted where the reference (%s) rejects; input class %s", p.name, ref.basis, c.Class), c)
		default: // sdns rejects, reference accepts
			if cls == "" {
				st.violation(fmt.Sprintf("stricter-undocumented/%s/%s/%s", p.name, fam, c.Mut),
					fmt.Sprintf("%s rejected (%v) an input the reference (%s) accepts and no documented strictness class covers it; input class %s", p.name, serr, ref.basis, c.Class), c)
			} else {
				st.count("verify_stricter_exempt", 1)
				st.count("verify_stricter_exempt/"+cls, 1)
				st.dist(fmt.Sprintf("verify/exempt/%s/%s/%s", cls, fam, c.Mut))
			}
		}
	}

	// canonical signed data, whenever the inputs form an RRset
	if sig != nil && len(rrs) > 0 && dns.IsRRset(rrs) {
		judgeSignedData(st, c, sig, rrs)
	}
}

func judgeSignedData(st *stats, c *jCase, sig *dns.RRSIG, rrs []dns.RR) {
	var got []byte
	var gerr error
	if !st.guard("rrsigSignedData", c, func() { got, gerr = dnssec.VerifC14SignedData(sig, rrs) }) {
		return
	}
	want, werr := refSignedData(sig, rrs)
	st.evals++
	st.count("comparisons/rrsigSignedData", 1)
	switch {
	case werr == errRefUnavailable:
		st.count("signed_data_reference_unavailable", 1)
	case gerr != nil && werr != nil:
		st.count("signed_data_both_refuse", 1)
	case gerr != nil:
		// refusing to build what the library builds is the stricter direction;
		// the verdict-level comparison decides whether it is an undocumented one
		st.count("signed_data_sdns_refuses_only", 1)
	case werr != nil:
		st.count("signed_data_library_refuses_only", 1)
		if debug {
			fmt.Fprintf(os.Stderr, "DEBUG lib-refuses-only: %v | sig=%v | rr0=%v | mut=%s\n", werr, sig, rrs[0], c.Mut)
		}
	case bytes.Equal(got, want):
		st.count("signed_data_equal", 1)
		wild := dns.CountLabel(rrs[0].Header().Name) > int(sig.Labels)
		if wild {
			st.count("signed_data_equal/wildcard", 1)
		}
		if sig.OrigTtl != rrs[0].Header().Ttl {
			st.count("signed_data_equal/origttl-differs", 1)
		}
		if len(rrs) > 1 {
			st.count("signed_data_equal/multi-rr", 1)
		}
		st.distIn("signed_data_types", dns.Type(rrs[0].Header().Rrtype).String())
		st.dist(fmt.Sprintf("signed/%d/%d/%v/%d", rrs[0].Header().Rrtype, len(rrs), wild, len(got)))
	default:
		st.violation("signed-data/mismatch/"+dns.Type(rrs[0].Header().Rrtype).String(),
			fmt.Sprintf("rrsigSignedData differs from the bytes the library signer signs (%d vs %d octets, first difference at %d)", len(got), len(want), firstDiff(got, want)), c)
	}
}

func firstDiff(a, b []byte) int {
	n := min(len(a), len(b))
	for i := 0; i < n; i++ {
		if a[i] != b[i] {
			return i
		}
	}
	return n
}

// ---------------------------------------------------------------- key tag

func judgeKeyTag(st *stats, c *jCase) {
	k := c.Key.build()
	var got uint16
	if !st.guard("KeyTag", c, func() { got = dnssec.KeyTag(k) }) {
		return
	}
	st.evals++
	st.count("comparisons/KeyTag", 1)
	st.count("mut/"+c.Mut, 1)
	if k == nil {
		if got != 0 {
			st.violation("keytag/nil-key", "KeyTag(nil) is not zero", c)
		}
		return
	}
	st.distIn("keytag_algorithms", fmt.Sprint(k.Algorithm))
	want, panicked := libKeyTag(k)
	if panicked {
		st.count("keytag_library_panics", 1)
		return
	}
	if got != want {
		st.violation(fmt.Sprintf("keytag/mismatch/%s", c.Mut),
			fmt.Sprintf("KeyTag=%d, library=%d (alg %d, %s)", got, want, k.Algorithm, c.Class), c)
		return
	}
	st.count("keytag_agree", 1)
	if want != 0 {
		st.count("keytag_agree_nonzero", 1)
	}
	if k.Algorithm == dns.RSAMD5 {
		st.count("keytag_agree_rsamd5", 1)
	}
	st.dist(fmt.Sprintf("keytag/%s/%d/%d", c.Mut, k.Algorithm, len(k.PublicKey)%7))
}

// ---------------------------------------------------------------- DS digest

func judgeDS(st *stats, c *jCase) {
	k := c.Key.build()
	want := unhb(c.Want)
	var S bool
	if !st.guard("dsDigestMatches", c, func() { S = dnssec.VerifC14DSDigestMatches(k, c.DigestType, want) }) {
		return
	}
	st.evals++
	st.count("comparisons/dsDigestMatches", 1)
	st.count("mut/"+c.Mut, 1)
	st.distIn("ds_digest_types", fmt.Sprint(c.DigestType))
	if k == nil {
		if S {
			st.violation("more-permissive/dsDigestMatches/nil-key", "matched a digest for a missing key", c)
		}
		return
	}
	ds, panicked := libToDS(k, c.DigestType)
	L := false
	if panicked {
		// The library gives no verdict at all (it panics, e.g. in KeyTag on a
		// short RSAMD5 key). A panic is not a rejection: the independent reference
		// is then the plain digest of owner | DNSKEY RDATA computed here. With no
		// reference of either kind the case is counted, not judged.
		st.count("ds_library_panics", 1)
		direct := directDigest(k, c.DigestType)
		if direct == nil {
			st.count("ds_no_reference_skipped", 1)
			return
		}
		st.count("ds_library_panics_judged_by_direct_digest", 1)
		L = len(want) > 0 && bytes.Equal(direct, want)
	}
	if !panicked && ds != nil && len(want) > 0 {
		if d, err := hex.DecodeString(ds.Digest); err == nil && bytes.Equal(d, want) {
			L = true
		}
	}
	dt := fmt.Sprint(c.DigestType)
	dsCls := ""
	if pub, perr := b64dec(k.PublicKey); c.DigestType == 5 {
		dsCls = "ds-digest-type-5" // ds_digest.go dsDigestHash: deliberately absent
	} else if perr == nil && len(pub) == 0 {
		dsCls = "ds-empty-key" // ds_digest.go dsDigestMatches: explicit len(public)==0 refusal
	}
	switch {
	case S && dsCls != "":
		st.violation("more-permissive/dsDigestMatches/"+dsCls,
			fmt.Sprintf("dsDigestMatches accepted an input in the documented refusal class %s (%s)", dsCls, c.Class), c)
	case S && L:
		st.count("ds_agree_accept", 1)
		st.count("ds_agree_accept/dt"+dt, 1)
		st.dist(fmt.Sprintf("ds/accept/%s/%s/%d", dt, c.Mut, k.Algorithm))
	case !S && !L:
		st.count("ds_agree_reject", 1)
		st.dist(fmt.Sprintf("ds/reject/%s/%s", dt, c.Mut))
	case S && !L:
		st.violation(fmt.Sprintf("more-permissive/dsDigestMatches/dt%s/%s", dt, c.Mut),
			fmt.Sprintf("dsDigestMatches accepted a digest the library's ToDS does not produce (digest type %s, %s)", dt, c.Class), c)
	default:
		cls := dsCls
		if cls == "" {
			st.violation(fmt.Sprintf("stricter-undocumented/dsDigestMatches/dt%s/%s", dt, c.Mut),
				fmt.Sprintf("dsDigestMatches rejected the library's own digest (digest type %s, %s)", dt, c.Class), c)
		} else {
			st.count("ds_stricter_exempt", 1)
			st.count("ds_stricter_exempt/"+cls, 1)
			st.dist("ds/exempt/" + cls + "/" + c.Mut)
		}
	}
}

// judgeVerifyDS drives the exported VerifyDS. The reference is composed from
// library parts: some DS in the set names a candidate key (filed under that
// tag) whose library key tag, algorithm, class and owner agree with the DS and
// whose ToDS(digest type) digest equals the DS digest, hex case ignored.
func judgeVerifyDS(st *stats, c *jCase) {
	keyMap := map[uint16][]*dns.DNSKEY{}
	for i := range c.Keys {
		keyMap[c.KeyBuckets[i]] = append(keyMap[c.KeyBuckets[i]], c.Keys[i].build())
	}
	var set []dns.RR
	for _, d := range c.DS {
		set = append(set, d.build())
	}
	var serr error
	if !st.guard("VerifyDS", c, func() { _, serr = dnssec.VerifyDS(keyMap, set) }) {
		return
	}
	S := serr == nil
	st.evals++
	st.count("comparisons/VerifyDS", 1)
	st.count("mut/"+c.Mut, 1)

	L := false
	exempt := ""
	for _, rr := range set {
		ds := rr.(*dns.DS)
		for _, k := range keyMap[ds.KeyTag] {
			if k == nil {
				continue
			}
			tag, p := libKeyTag(k)
			if p || tag != ds.KeyTag || k.Algorithm != ds.Algorithm || k.Hdr.Class != ds.Hdr.Class ||
				!asciiEqualFold(k.Hdr.Name, ds.Hdr.Name) {
				continue
			}
			ref, p := libToDS(k, ds.DigestType)
			if p || ref == nil || !asciiEqualFold(ref.Digest, ds.Digest) || ds.Digest == "" {
				continue
			}
			L = true
			// the documented reasons this resolver will not use such a pair
			switch {
			case !dnssec.IsSupportedDSDigest(ds.DigestType):
				exempt = "ds-digest-unsupported" // verify.go IsSupportedDSDigest doc (RFC 6840 §5.2)
			case !dnssec.IsSupportedDNSKEYAlgorithm(ds.Algorithm):
				exempt = "ds-algorithm-unsupported" // verify.go IsSupportedDNSKEYAlgorithm doc
			case k.Protocol != 3 || k.Flags&dns.ZONE == 0:
				exempt = "ds-key-not-zone-key" // verify.go usableDSCandidate guard; RFC 4034 §2.1.1/§2.1.2/§5.2
			default:
				if pub, err := b64dec(k.PublicKey); err == nil && len(pub) == 0 {
					exempt = "ds-empty-key"
				} else {
					exempt = ""
				}
			}
			if exempt == "" {
				goto decided
			}
		}
	}
decided:
	switch {
	case S && L && exempt == "":
		st.count("vds_agree_accept", 1)
		st.dist("vds/accept/" + c.Mut)
	case S && L:
		// accepted although only exempt-class pairs match by the library's reading
		st.violation("more-permissive/VerifyDS/"+exempt+"/"+c.Mut,
			"VerifyDS authenticated a key through a DS this resolver documents as unusable ("+exempt+")", c)
	case !S && !L:
		st.count("vds_agree_reject", 1)
		st.dist("vds/reject/" + c.Mut)
	case S && !L:
		st.violation("more-permissive/VerifyDS/"+c.Mut,
			"VerifyDS accepted a DS set where no (DS, key) pair matches by the library's KeyTag/ToDS", c)
	default:
		if exempt == "" {
			st.violation("stricter-undocumented/VerifyDS/"+c.Mut,
				fmt.Sprintf("VerifyDS rejected (%v) a DS set with a matching, supported (DS, key) pair", serr), c)
		} else {
			st.count("vds_stricter_exempt", 1)
			st.count("vds_stricter_exempt/"+exempt, 1)
			st.dist("vds/exempt/" + exempt + "/" + c.Mut)
		}
	}
}

// ---------------------------------------------------------------- raw RSA

func judgeRawRSA(st *stats, c *jCase) {
	n := new(big.Int).SetBytes(unhb(c.N))
	e := new(big.Int).SetBytes(unhb(c.E))
	hashed := unhb(c.Hashed)
	sig := unhb(c.RawSig)
	_, prefix, ok := rsaAlgHash(c.Alg)
	if !ok {
		return
	}
	var serr error
	var has bool
	if !st.guard("rsaVerifyPKCS1v15", c, func() { serr, has = dnssec.VerifC14RSAVerifyPKCS1v15(n, e, c.Alg, hashed, sig) }) {
		return
	}
	if !has {
		st.violation("stricter-undocumented/rsaVerifyPKCS1v15/no-hash", fmt.Sprintf("sdns has no DigestInfo prefix for RSA algorithm %d", c.Alg), c)
		return
	}
	S := serr == nil
	M := refPKCS1v15(n, e, prefix, hashed, sig)
	st.evals++
	st.count("comparisons/rsaVerifyPKCS1v15", 1)
	st.count("mut/"+c.Mut, 1)
	st.distIn("alg_mutation_pairs", fmt.Sprintf("%d/%s", c.Alg, c.Mut))
	switch {
	case S && M:
		st.count("rawrsa_agree_accept", 1)
		if e.Cmp(maxStdExp) > 0 {
			st.count("rawrsa_agree_accept/wide-exponent", 1)
		}
		st.dist(fmt.Sprintf("raw/accept/%d/%s/%d/%d", c.Alg, c.Mut, n.BitLen(), e.BitLen()))
	case !S && !M:
		st.count("rawrsa_agree_reject", 1)
		st.dist(fmt.Sprintf("raw/reject/%d/%s/%d", c.Alg, c.Mut, n.BitLen()))
	case S && !M:
		st.violation("more-permissive/rsaVerifyPKCS1v15/"+c.Mut,
			"rsaVerifyPKCS1v15 accepted a signature that big-integer RSASSA-PKCS1-v1_5 verification rejects", c)
	default:
		st.violation("stricter-undocumented/rsaVerifyPKCS1v15/"+c.Mut,
			"rsaVerifyPKCS1v15 rejected a signature that big-integer RSASSA-PKCS1-v1_5 verification accepts (the raw function has no key-size policy of its own)", c)
	}
}

// ---------------------------------------------------------------- VerifyRRSIG

func judgeRRSIG(st *stats, c *jCase) {
	keys := map[uint16][]*dns.DNSKEY{}
	for i := range c.Keys {
		keys[c.KeyBuckets[i]] = append(keys[c.KeyBuckets[i]], c.Keys[i].build())
	}
	rrs, err := buildRRs(c.RRs, false)
	if err != nil || len(rrs) == 0 {
		st.inconclusive("rrsig case does not rebuild")
		return
	}
	var sigs []*dns.RRSIG
	msg := new(dns.Msg)
	msg.Answer = append(msg.Answer, rrs...)
	for i := range c.Sigs {
		s := c.Sigs[i].build()
		sigs = append(sigs, s)
		msg.Answer = append(msg.Answer, s)
	}
	zone := unhs(c.Zone)
	var ok bool
	var serr error
	if !st.guard("VerifyRRSIG", c, func() { ok, serr = dnssec.VerifyRRSIG(zone, keys, msg) }) {
		return
	}
	S := ok && serr == nil
	st.evals++
	st.count("comparisons/VerifyRRSIG", 1)
	st.count("mut/"+c.Mut, 1)

	// Reference. The instant is shared: both sides read the clock within the
	// same call, and every generated window is years away from it.
	now := time.Now()
	h0 := rrs[0].Header()
	R := false
	exempt := ""
	unknown := false
	for _, s := range sigs {
		if !asciiEqualFold(s.Hdr.Name, h0.Name) || s.TypeCovered != h0.Rrtype || s.Hdr.Class != h0.Class {
			continue
		}
		if !s.ValidityPeriod(now) {
			continue
		}
		for _, k := range keys[s.KeyTag] {
			if k == nil {
				continue
			}
			countKeyShape(st, "rrsig_", k, s, rrs)
			o := refVerify(k, s, rrs)
			if !o.known {
				unknown = true
				continue
			}
			if !o.accept {
				continue
			}
			R = true
			cls := strictClass(k, s, rrs, &o)
			if cls == "" {
				exempt = ""
				goto decided
			}
			exempt = cls
		}
	}
decided:
	fam := algFamily(sigs0Alg(sigs))
	switch {
	case S && R && exempt == "":
		st.count("rrsig_agree_accept", 1)
		st.count("rrsig_agree_accept/"+fam, 1)
		st.dist("rrsig/accept/" + fam + "/" + c.Mut)
	case S && R:
		st.violation("more-permissive/VerifyRRSIG/"+exempt+"/"+c.Mut,
			"VerifyRRSIG accepted through a (key, signature) pair in documented strictness class "+exempt, c)
	case !S && !R:
		if unknown {
			st.count("rrsig_reference_unanswerable", 1)
			return
		}
		st.count("rrsig_agree_reject", 1)
		st.dist("rrsig/reject/" + fam + "/" + c.Mut)
	case S && !R:
		if unknown {
			st.count("rrsig_reference_unanswerable", 1)
			return
		}
		st.violation("more-permissive/VerifyRRSIG/"+fam+"/"+c.Mut,
			"VerifyRRSIG accepted a message in which no signature in its validity period verifies under any filed key by the reference", c)
	default:
		if exempt == "" {
			st.violation("stricter-undocumented/VerifyRRSIG/"+fam+"/"+c.Mut,
				fmt.Sprintf("VerifyRRSIG rejected (%v) a message the reference validates", serr), c)
		} else {
			st.count("rrsig_stricter_exempt", 1)
			st.count("rrsig_stricter_exempt/"+exempt, 1)
		}
	}
}

func sigs0Alg(s []*dns.RRSIG) uint8 {
	if len(s) == 0 || s[0] == nil {
		return 0
	}
	return s[0].Algorithm
}

func sortedKeys[M ~map[string]V, V any](m M) []string {
	out := make([]string, 0, len(m))
	for k := range m {
		out = append(out, k)
	}
	sort.Strings(out)
	return out
}
