package main

// The reference side of the differential: the DNS library under recover(), a
// plain big-integer PKCS#1 v1.5 verifier, an independent reading of the
// RRSIG/DNSKEY binding rules, and the bytes the library's own signer signs.

import (
	"bytes"
	"crypto"
	"encoding/base64"
	"encoding/binary"
	"encoding/hex"
	"errors"
	"io"
	"math/big"
	"strings"

	"github.com/miekg/dns"
)

type verdict int

const (
	vReject verdict = iota
	vAccept
	vPanic // the implementation could not answer
)

func (v verdict) String() string {
	switch v {
	case vAccept:
		return "accept"
	case vReject:
		return "reject"
	}
	return "panic"
}

// ---- library under recover

func libKeyTag(k *dns.DNSKEY) (tag uint16, panicked bool) {
	defer func() {
		if recover() != nil {
			panicked = true
		}
	}()
	return k.KeyTag(), false
}

func libToDS(k *dns.DNSKEY, dt uint8) (ds *dns.DS, panicked bool) {
	defer func() {
		if recover() != nil {
			ds, panicked = nil, true
		}
	}()
	return k.ToDS(dt), false
}

func libVerify(sig *dns.RRSIG, k *dns.DNSKEY, rrset []dns.RR) (v verdict, err error) {
	defer func() {
		if p := recover(); p != nil {
			v, err = vPanic, errors.New("library panic")
		}
	}()
	if e := sig.Verify(k, rrset); e != nil {
		return vReject, e
	}
	return vAccept, nil
}

// ---- RFC 3110 key parsing, by value

type refRSAKey struct {
	E, N     *big.Int
	ELead0   bool // exponent has a leading zero octet
	NLead0   bool // modulus has a leading zero octet
	ExpLen   int
	ModLen   int
	LongForm bool
}

func refParseRSA(pub []byte) (*refRSAKey, bool) {
	if len(pub) < 1 {
		return nil, false
	}
	k := &refRSAKey{}
	explen := int(pub[0])
	off := 1
	if explen == 0 {
		if len(pub) < 3 {
			return nil, false
		}
		explen = int(pub[1])<<8 | int(pub[2])
		off = 3
		k.LongForm = true
	}
	if explen == 0 || len(pub) <= off+explen {
		return nil, false
	}
	eb := pub[off : off+explen]
	nb := pub[off+explen:]
	k.ExpLen, k.ModLen = len(eb), len(nb)
	k.ELead0 = eb[0] == 0
	k.NLead0 = nb[0] == 0
	k.E = new(big.Int).SetBytes(eb)
	k.N = new(big.Int).SetBytes(nb)
	return k, true
}

// refPKCS1v15 is RSASSA-PKCS1-v1_5 verification (RFC 8017 §8.2.2) in plain
// big-integer arithmetic: the signature is exactly k octets, its integer is
// below the modulus, and s^e mod n is exactly the EMSA-PKCS1-v1_5 encoding of
// the digest. No key-size policy of any kind.
func refPKCS1v15(n, e *big.Int, prefix, hashed, sig []byte) bool {
	if n.Sign() <= 0 || e.Sign() <= 0 {
		return false
	}
	k := (n.BitLen() + 7) / 8
	if len(sig) != k {
		return false
	}
	s := new(big.Int).SetBytes(sig)
	if s.Cmp(n) >= 0 {
		return false
	}
	em, ok := emsaEncode(k, prefix, hashed)
	if !ok {
		return false
	}
	m := new(big.Int).Exp(s, e, n)
	return bytes.Equal(i2osp(m, k), em)
}

// ---- binding preflight, read from RFC 4034 §3.1 / RFC 4035 §5.3.1 and the
// library's documented checks (ASCII case folding, string-suffix containment).

func asciiEqualFold(a, b string) bool {
	if len(a) != len(b) {
		return false
	}
	for i := 0; i < len(a); i++ {
		x, y := a[i], b[i]
		if x >= 'A' && x <= 'Z' {
			x += 'a' - 'A'
		}
		if y >= 'A' && y <= 'Z' {
			y += 'a' - 'A'
		}
		if x != y {
			return false
		}
	}
	return true
}

func asciiLower(s string) string {
	b := []byte(s)
	for i, c := range b {
		if c >= 'A' && c <= 'Z' {
			b[i] = c + 'a' - 'A'
		}
	}
	return string(b)
}

func fqdn(s string) string {
	if dns.IsFqdn(s) {
		return s
	}
	return s + "."
}

func refBinding(k *dns.DNSKEY, sig *dns.RRSIG, rrset []dns.RR, keyTag uint16) bool {
	if k == nil || sig == nil || len(rrset) == 0 {
		return false
	}
	h0 := rrset[0].Header()
	for _, rr := range rrset[1:] {
		h := rr.Header()
		if h.Rrtype != h0.Rrtype || h.Class != h0.Class || h.Name != h0.Name {
			return false
		}
	}
	if sig.KeyTag != keyTag || sig.Hdr.Class != k.Hdr.Class || sig.Algorithm != k.Algorithm {
		return false
	}
	signer := asciiLower(fqdn(sig.SignerName))
	if !asciiEqualFold(signer, k.Hdr.Name) {
		return false
	}
	if k.Protocol != 3 || k.Flags&dns.ZONE == 0 {
		return false
	}
	if h0.Class != sig.Hdr.Class || h0.Rrtype != sig.TypeCovered ||
		dns.CountLabel(h0.Name) < int(sig.Labels) ||
		!asciiEqualFold(h0.Name, sig.Hdr.Name) ||
		!strings.HasSuffix(asciiLower(fqdn(h0.Name)), signer) {
		return false
	}
	return true
}

// labelBoundary reports whether owner lies inside zone on a label boundary
// (owner == zone, or owner ends in "."+zone with that dot being a separator,
// not an escaped literal). Both arguments lower-cased FQDNs.
func labelBoundary(owner, zone string) bool {
	if zone == "." || owner == zone {
		return true
	}
	if len(owner) <= len(zone) || !strings.HasSuffix(owner, zone) {
		return false
	}
	cut := len(owner) - len(zone)
	if owner[cut-1] != '.' {
		return false
	}
	// count the backslashes before the dot
	bs := 0
	for i := cut - 2; i >= 0 && owner[i] == '\\'; i-- {
		bs++
	}
	if bs%2 == 1 {
		return false
	}
	// a "\DDD" escape can also end right before the dot with digits; a dot
	// preceded by digits is a separator, so nothing more to check.
	return true
}

// ---- the bytes the library signer signs

type captureSigner struct{ got []byte }

func (c *captureSigner) Public() crypto.PublicKey { return nil }
func (c *captureSigner) Sign(_ io.Reader, digest []byte, _ crypto.SignerOpts) ([]byte, error) {
	c.got = append([]byte(nil), digest...)
	return make([]byte, 64), nil
}

var errRefUnavailable = errors.New("reference signed data unavailable for this shape")

// refSignedData returns what dns.RRSIG.Sign hands its signer for (sig, rrset).
//
// The library's signer recomputes Labels/TypeCovered from the RRset, so the
// RRset is presented to it under the wildcard owner RFC 4035 §5.3.2 derives
// from sig.Labels, with algorithm 15 (whose "digest" is the message itself).
// The eighteen fixed-width header octets (type covered, algorithm, labels,
// original TTL, expiration, inception, key tag) are then written from sig: a
// big-endian rendering of the RRSIG RDATA fields (RFC 4034 §3.1). Everything
// after them — the canonical signer name and the canonical RRset — is the
// library's output, byte for byte.
func refSignedData(sig *dns.RRSIG, rrset []dns.RR) ([]byte, error) {
	if sig == nil || len(rrset) == 0 {
		return nil, errRefUnavailable
	}
	owner := rrset[0].Header().Name
	labels := dns.CountLabel(owner)
	target := owner
	if labels > int(sig.Labels) {
		if sig.Labels == 0 {
			// the library forms "*.." here and fails to pack it
			return nil, errors.New("library cannot build a Labels=0 wildcard owner")
		}
		idx := dns.Split(owner)
		target = "*." + owner[idx[labels-int(sig.Labels)]:]
	}
	// Sign() treats any owner whose text starts with '*' as a wildcard and
	// decrements Labels; that is only right when the first label is "*". And
	// for the root wildcard "*." that decrement makes the signer build "*..",
	// which Verify (given Labels=1) would not.
	if strings.HasPrefix(target, "*") && (!strings.HasPrefix(target, "*.") || target == "*.") {
		return nil, errRefUnavailable
	}
	cp := make([]dns.RR, len(rrset))
	for i, rr := range rrset {
		c := dns.Copy(rr)
		c.Header().Name = target
		if sig.OrigTtl == 0 {
			c.Header().Ttl = 0
		}
		cp[i] = c
	}
	signer := sig.SignerName
	if signer == "" {
		signer = "."
	}
	tmp := &dns.RRSIG{
		Algorithm: dns.ED25519, OrigTtl: sig.OrigTtl, Expiration: sig.Expiration,
		Inception: sig.Inception, KeyTag: 1, SignerName: signer,
	}
	cs := &captureSigner{}
	if err := tmp.Sign(cs, cp); err != nil {
		return nil, err
	}
	if len(cs.got) < 18 {
		return nil, errRefUnavailable
	}
	// the wildcard bookkeeping must have come out the way we intended
	wantLabels := dns.CountLabel(target)
	if strings.HasPrefix(target, "*.") {
		wantLabels--
	}
	if int(tmp.Labels) != wantLabels || (labels > int(sig.Labels) && tmp.Labels != sig.Labels) {
		return nil, errRefUnavailable
	}
	out := cs.got
	binary.BigEndian.PutUint16(out[0:], sig.TypeCovered)
	out[2] = sig.Algorithm
	out[3] = sig.Labels
	binary.BigEndian.PutUint32(out[4:], sig.OrigTtl)
	binary.BigEndian.PutUint32(out[8:], sig.Expiration)
	binary.BigEndian.PutUint32(out[12:], sig.Inception)
	binary.BigEndian.PutUint16(out[16:], sig.KeyTag)
	return out, nil
}

// ---- helpers shared by judges

func b64dec(s string) ([]byte, error) {
	buf := make([]byte, base64.StdEncoding.DecodedLen(len(s)))
	n, err := base64.StdEncoding.Decode(buf, []byte(s))
	return buf[:n], err
}

func hexOf(b []byte) string { return hex.EncodeToString(b) }
