package main

// Raw RSA (rsaVerifyPKCS1v15 against big-integer arithmetic, with deliberately
// malformed encoded messages signed by the real private key) and the exported
// VerifyRRSIG end to end (the layer that also checks validity periods).

import (
	"encoding/hex"
	"math/big"

	"github.com/miekg/dns"
)

var rsaAlgs = []uint8{dns.RSASHA1, dns.RSASHA1NSEC3SHA1, dns.RSASHA256, dns.RSASHA512}

// DigestInfo without the NULL parameter — an encoding some verifiers have
// wrongly accepted.
func prefixNoNull(alg uint8) []byte {
	switch alg {
	case dns.RSASHA1, dns.RSASHA1NSEC3SHA1:
		return []byte{0x30, 0x1f, 0x30, 0x07, 0x06, 0x05, 0x2b, 0x0e, 0x03, 0x02, 0x1a, 0x04, 0x14}
	case dns.RSASHA256:
		return []byte{0x30, 0x2f, 0x30, 0x0b, 0x06, 0x09, 0x60, 0x86, 0x48, 0x01, 0x65, 0x03, 0x04, 0x02, 0x01, 0x04, 0x20}
	default:
		return []byte{0x30, 0x4f, 0x30, 0x0b, 0x06, 0x09, 0x60, 0x86, 0x48, 0x01, 0x65, 0x03, 0x04, 0x02, 0x03, 0x04, 0x40}
	}
}

func (w *world) unitRaw(st *stats, unit int) {
	rng := w.r.RandN("rawrsa", unit)
	m := w.pool.Mods[unit%len(w.pool.Mods)]
	var signable []*rsaExp
	for _, x := range m.Exps {
		if x.D != nil && (x.Name != "ge-n" || m.Bits <= 2048) {
			signable = append(signable, x)
		}
	}
	x := signable[(unit/len(w.pool.Mods))%len(signable)]
	alg := rsaAlgs[rng.IntN(4)]
	_, prefix, _ := rsaAlgHash(alg)
	hashed := fill(rng, hashLen(alg))
	k := (m.Bits + 7) / 8
	signer := rsaSigner{m, x}
	sub := 0
	emit := func(mut string, e *big.Int, sig []byte) {
		c := &jCase{Family: "rawrsa", Unit: unit, Sub: sub, Seed: w.r.Seed, Mut: mut, Class: "rsa/" + x.Name,
			N: hex.EncodeToString(m.N.Bytes()), E: hex.EncodeToString(e.Bytes()), Alg: alg,
			Hashed: hex.EncodeToString(hashed), RawSig: hex.EncodeToString(sig)}
		sub++
		judgeRawRSA(st, c)
	}
	em, ok := emsaEncode(k, prefix, hashed)
	if !ok {
		emit("raw-modulus-too-short-for-digest", x.E, fill(rng, k))
		return
	}
	valid := signer.signEM(em)
	emit("none", x.E, valid)
	for i := 0; i < 3; i++ {
		f := append([]byte(nil), valid...)
		f[rng.IntN(len(f))] ^= 1 << rng.UintN(8)
		emit("sig-bitflip", x.E, f)
	}
	emit("sig-truncated-1", x.E, valid[:k-1])
	emit("sig-truncated-front", x.E, valid[1:])
	emit("sig-extended-zero", x.E, append(append([]byte(nil), valid...), 0))
	emit("sig-leading-zero", x.E, append([]byte{0}, valid...))
	emit("sig-empty", x.E, nil)
	sp := new(big.Int).Add(new(big.Int).SetBytes(valid), m.N)
	if (sp.BitLen()+7)/8 <= k {
		emit("rsa-sig-plus-modulus", x.E, i2osp(sp, k))
	} else {
		emit("rsa-sig-plus-modulus-wider", x.E, sp.Bytes())
	}
	emit("rsa-sig-equals-modulus", x.E, i2osp(m.N, k))
	emit("rsa-sig-zero", x.E, make([]byte, k))
	// a different exponent for the same signature
	emit("raw-other-exponent", new(big.Int).Add(x.E, big2), valid)

	// malformed encoded messages, signed with the real private key
	forge := func(mut string, f func(em []byte) []byte) {
		e2 := f(append([]byte(nil), em...))
		if len(e2) != k || e2[0] != 0 {
			return
		}
		emit(mut, x.E, signer.signEM(e2))
	}
	tLen := len(prefix) + len(hashed)
	forge("em-block-type-02", func(e []byte) []byte { e[1] = 2; return e })
	forge("em-block-type-00", func(e []byte) []byte { e[1] = 0; return e })
	forge("em-ps-octet-not-ff", func(e []byte) []byte { e[2+rng.IntN(k-tLen-3)] = 0xfe; return e })
	forge("em-separator-not-zero", func(e []byte) []byte { e[k-tLen-1] = 0xff; return e })
	forge("em-early-separator", func(e []byte) []byte {
		// 00 01 FF*8 00 T garbage: the digest info right after a short pad
		if k-tLen-11 < 1 {
			return nil
		}
		out := make([]byte, k)
		out[1] = 1
		for i := 2; i < 10; i++ {
			out[i] = 0xff
		}
		copy(out[11:], prefix)
		copy(out[11+len(prefix):], hashed)
		copy(out[11+tLen:], fill(rng, k-11-tLen))
		return out
	})
	forge("em-short-pad", func(e []byte) []byte {
		// fewer than eight FF octets cannot be laid out at full width with the same T; shift T left and append zeros
		out := make([]byte, k)
		out[1] = 1
		for i := 2; i < 6; i++ {
			out[i] = 0xff
		}
		copy(out[7:], prefix)
		copy(out[7+len(prefix):], hashed)
		return out
	})
	forge("em-digestinfo-without-null", func(e []byte) []byte {
		p := prefixNoNull(alg)
		out, ok := emsaEncode(k, p, hashed)
		if !ok {
			return nil
		}
		return out
	})
	forge("em-digest-bitflip", func(e []byte) []byte { e[k-1-rng.IntN(len(hashed))] ^= 1 << rng.UintN(8); return e })
	forge("em-prefix-bitflip", func(e []byte) []byte { e[k-tLen+rng.IntN(len(prefix))] ^= 1 << rng.UintN(8); return e })
	forge("em-other-hash-prefix", func(e []byte) []byte {
		other := diSHA256
		if alg == dns.RSASHA256 {
			other = diSHA512
		}
		if len(other) != len(prefix) {
			// lay out with the other prefix, same digest octets
			out, ok := emsaEncode(k, other, hashed)
			if !ok {
				return nil
			}
			return out
		}
		copy(e[k-tLen:], other)
		return e
	})
	forge("em-bare-digest", func(e []byte) []byte {
		out, ok := emsaEncode(k, nil, hashed)
		if !ok {
			return nil
		}
		return out
	})
}

// ---------------------------------------------------------------- VerifyRRSIG

// Validity windows, all years away from any plausible "now" so that both
// sides of the comparison see the same answer whatever instant they read.
const (
	tsFarPast1  = 1262304000 // 2010-01-01
	tsFarPast2  = 1420070400 // 2015-01-01
	tsPast      = 1577836800 // 2020-01-01
	tsFuture1   = 2524608000 // 2050-01-01
	tsFarFuture = 3155760000 // 2070-01-01
)

func (w *world) unitRRSIG(st *stats, unit int) {
	rng := w.r.RandN("rrsig", unit)
	kind := unit % 18
	spec := baseSpec{}
	switch (unit / 18) % 6 {
	case 0:
		spec.alg = dns.ECDSAP256SHA256
	case 1:
		spec.alg = dns.ED25519
	case 2:
		spec.alg = dns.ECDSAP384SHA384
	default:
		spec.alg = rsaAlgs[rng.IntN(4)]
		in := w.pool.modsIn(1024, 2048)
		spec.mod = in[rng.IntN(len(in))]
		spec.expName = []string{"f4", "e3", "f5", "e64", "max31", "min-wide"}[rng.IntN(6)]
	}
	if kind == 14 {
		spec.alg = rsaAlgs[rng.IntN(4)]
		in := w.pool.modsIn(1024, 4096)
		spec.mod = in[rng.IntN(len(in))]
		spec.expName = []string{"f5", "e40", "e64", "min-wide"}[rng.IntN(4)]
	}
	if kind == 15 {
		spec.alg = rsaAlgs[rng.IntN(4)]
		in := w.pool.modsIn(1024, 2048)
		spec.mod = in[rng.IntN(len(in))]
		spec.expName = []string{"f4", "f5"}[rng.IntN(2)]
		spec.enc = []rsaEnc{encLeadZeroExp, encLeadZeroMod}[rng.IntN(2)]
	}
	spec.window = &[2]uint32{tsPast - uint32(rng.IntN(1<<24)), tsFuture1 + uint32(rng.IntN(1<<24))}
	switch kind {
	case 1:
		spec.window = &[2]uint32{tsFarPast1, tsFarPast2 + uint32(rng.IntN(1<<24))}
	case 2:
		spec.window = &[2]uint32{tsFuture1, tsFarFuture}
	}
	b, err := w.makeBase(rng, spec)
	if err != nil {
		st.inconclusive("rrsig base: " + err.Error())
		return
	}
	tag := b.sig.KeyTag
	keys := []*dns.DNSKEY{b.key}
	buckets := []uint16{tag}
	sigs := []*dns.RRSIG{b.sig}
	mut := "rrsig-valid"
	decoy := func() *dns.DNSKEY {
		k := cloneKey(b.key)
		p := append([]byte(nil), b.pubRaw...)
		p[len(p)-1] ^= 0x10
		k.PublicKey = b64(p)
		return k
	}
	badSig := func() *dns.RRSIG {
		s := cloneSig(b.sig)
		raw := b.sigBytes()
		raw[rng.IntN(len(raw))] ^= 1 << rng.UintN(8)
		s.Signature = b64(raw)
		return s
	}
	switch kind {
	case 1:
		mut = "rrsig-expired"
	case 2:
		mut = "rrsig-not-yet-valid"
	case 3:
		sigs = []*dns.RRSIG{badSig(), b.sig}
		mut = "rrsig-bad-then-good-signature"
	case 4:
		keys = []*dns.DNSKEY{decoy(), b.key}
		buckets = []uint16{tag, tag}
		mut = "rrsig-decoy-key-in-bucket"
	case 5:
		keys = []*dns.DNSKEY{decoy()}
		mut = "rrsig-only-decoy-key"
	case 6:
		s := cloneSig(b.sig)
		s.KeyTag++
		sigs = []*dns.RRSIG{s}
		mut = "sig-wrong-tag"
	case 7:
		k := cloneKey(b.key)
		k.Algorithm = unsupportedAlgs[rng.IntN(len(unsupportedAlgs))]
		s := cloneSig(b.sig)
		s.Algorithm = k.Algorithm
		s.KeyTag, _ = libKeyTag(k)
		keys, buckets, sigs = []*dns.DNSKEY{k}, []uint16{s.KeyTag}, []*dns.RRSIG{s}
		mut = "key-and-sig-unsupported-algorithm"
	case 8:
		if b.ec != nil {
			raw := b.sigBytes()
			h := len(raw) / 2
			pad := append(append(append([]byte{0}, raw[:h]...), 0), raw[h:]...)
			s := cloneSig(b.sig)
			s.Signature = b64(pad)
			sigs = []*dns.RRSIG{s}
			mut = "ecdsa-pad-both"
		}
	case 9:
		// an expired copy cannot be produced without re-signing; a corrupted one stands in
		old := badSig()
		old.Expiration = tsFarPast2
		sigs = []*dns.RRSIG{old, b.sig}
		mut = "rrsig-stale-then-good-signature"
	case 10:
		keys = []*dns.DNSKEY{nil, b.key}
		buckets = []uint16{tag, tag}
		mut = "rrsig-nil-key-in-bucket"
	case 11:
		buckets = []uint16{tag + 1}
		mut = "rrsig-key-filed-under-wrong-tag"
	case 12:
		sigs = []*dns.RRSIG{badSig()}
		mut = "sig-bitflip"
	case 13:
		if hasLetter(b.sig.Hdr.Name) {
			s := cloneSig(b.sig)
			s.Hdr.Name = flipCase(rng, s.Hdr.Name)
			sigs = []*dns.RRSIG{s}
			mut = "sig-owner-case"
		}
	case 14:
		mut = "rrsig-wide-exponent"
	case 15:
		mut = "rrsig-rsa-leading-zero-key"
	case 16:
		// expired window on an otherwise good signature, plus garbage sibling
		s := cloneSig(b.sig)
		s.Expiration = tsFarPast2
		s.Inception = tsFarPast1
		sigs = []*dns.RRSIG{s, badSig()}
		mut = "rrsig-window-rewritten-expired"
	case 17:
		keys = []*dns.DNSKEY{b.key, cloneKey(b.key), decoy()}
		buckets = []uint16{tag, tag, tag}
		sigs = []*dns.RRSIG{b.sig, cloneSig(b.sig)}
		mut = "rrsig-duplicate-keys-and-signatures"
	}
	c := &jCase{Family: "rrsig", Unit: unit, Seed: w.r.Seed, Mut: mut, Class: b.class, KeyBuckets: buckets, Zone: hs(b.key.Hdr.Name)}
	for _, k := range keys {
		c.Keys = append(c.Keys, *keyToJ(k))
	}
	for _, s := range sigs {
		c.Sigs = append(c.Sigs, *sigToJ(s))
	}
	c.RRs, c.RRText, err = rrsToJ(b.rrs)
	if err != nil {
		return
	}
	judgeRRSIG(st, c)
	if unit == 0 {
		st.samples = append(st.samples, map[string]any{"family": "rrsig", "mutation": mut, "class": b.class, "sig": b.sig.String()})
	}
}
