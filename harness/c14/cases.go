package main

// Serialisable cases. Every judged comparison is first materialised as a jCase
// (strings hex-encoded so arbitrary octets survive JSON, RRs as wire hex) and
// the judge rebuilds its inputs from that form — so a recorded case replays the
// exact input that was judged.

import (
	"encoding/hex"
	"fmt"

	"github.com/miekg/dns"
)

type jKey struct {
	Nil   bool   `json:"nil,omitempty"`
	Name  string `json:"name_hex"`
	Class uint16 `json:"class"`
	TTL   uint32 `json:"ttl"`
	Flags uint16 `json:"flags"`
	Proto uint8  `json:"protocol"`
	Alg   uint8  `json:"algorithm"`
	Pub   string `json:"public_key_hex"` // hex of the base64 text as carried in the struct
}

type jSig struct {
	Nil         bool   `json:"nil,omitempty"`
	Name        string `json:"name_hex"`
	Class       uint16 `json:"class"`
	TTL         uint32 `json:"ttl"`
	TypeCovered uint16 `json:"type_covered"`
	Alg         uint8  `json:"algorithm"`
	Labels      uint8  `json:"labels"`
	OrigTTL     uint32 `json:"orig_ttl"`
	Exp         uint32 `json:"expiration"`
	Inc         uint32 `json:"inception"`
	Tag         uint16 `json:"key_tag"`
	Signer      string `json:"signer_hex"`
	Signature   string `json:"signature_hex"` // hex of the base64 text
}

type jDS struct {
	Name       string `json:"name_hex"`
	Class      uint16 `json:"class"`
	Tag        uint16 `json:"key_tag"`
	Alg        uint8  `json:"algorithm"`
	DigestType uint8  `json:"digest_type"`
	Digest     string `json:"digest_hex"` // hex of the digest text
}

type jCase struct {
	Family string `json:"family"`
	Unit   int    `json:"unit"`
	Sub    int    `json:"sub"`
	Seed   uint64 `json:"seed"`
	Mut    string `json:"mutation"`
	Class  string `json:"input_class,omitempty"`
	Desc   string `json:"desc,omitempty"`

	Key  *jKey  `json:"key,omitempty"`
	Keys []jKey `json:"keys,omitempty"` // vds / rrsig: candidate keys (bucketed by KeyBuckets)
	// KeyBuckets[i] is the map key under which Keys[i] is filed.
	KeyBuckets []uint16 `json:"key_buckets,omitempty"`
	Sig        *jSig    `json:"sig,omitempty"`
	Sigs       []jSig   `json:"sigs,omitempty"`
	RRs        []string `json:"rrs_wire_hex,omitempty"`
	RRText     []string `json:"rrs_text,omitempty"`
	Unpackable bool     `json:"append_unpackable_rr,omitempty"`
	Zone       string   `json:"zone_hex,omitempty"`

	DigestType uint8  `json:"digest_type,omitempty"`
	Want       string `json:"want_hex,omitempty"`
	DS         []jDS  `json:"ds,omitempty"`

	N      string `json:"n_hex,omitempty"`
	E      string `json:"e_hex,omitempty"`
	Hashed string `json:"hashed_hex,omitempty"`
	RawSig string `json:"raw_sig_hex,omitempty"`
	Alg    uint8  `json:"alg,omitempty"`
}

func hs(s string) string { return hex.EncodeToString([]byte(s)) }
func unhs(s string) string {
	b, err := hex.DecodeString(s)
	if err != nil {
		panic("c14: bad hex in case: " + err.Error())
	}
	return string(b)
}
func unhb(s string) []byte {
	b, err := hex.DecodeString(s)
	if err != nil {
		panic("c14: bad hex in case: " + err.Error())
	}
	return b
}

func keyToJ(k *dns.DNSKEY) *jKey {
	if k == nil {
		return &jKey{Nil: true}
	}
	return &jKey{Name: hs(k.Hdr.Name), Class: k.Hdr.Class, TTL: k.Hdr.Ttl, Flags: k.Flags,
		Proto: k.Protocol, Alg: k.Algorithm, Pub: hs(k.PublicKey)}
}

func (j *jKey) build() *dns.DNSKEY {
	if j == nil || j.Nil {
		return nil
	}
	return &dns.DNSKEY{
		Hdr:   dns.RR_Header{Name: unhs(j.Name), Rrtype: dns.TypeDNSKEY, Class: j.Class, Ttl: j.TTL},
		Flags: j.Flags, Protocol: j.Proto, Algorithm: j.Alg, PublicKey: unhs(j.Pub),
	}
}

func sigToJ(s *dns.RRSIG) *jSig {
	if s == nil {
		return &jSig{Nil: true}
	}
	return &jSig{Name: hs(s.Hdr.Name), Class: s.Hdr.Class, TTL: s.Hdr.Ttl, TypeCovered: s.TypeCovered,
		Alg: s.Algorithm, Labels: s.Labels, OrigTTL: s.OrigTtl, Exp: s.Expiration, Inc: s.Inception,
		Tag: s.KeyTag, Signer: hs(s.SignerName), Signature: hs(s.Signature)}
}

func (j *jSig) build() *dns.RRSIG {
	if j == nil || j.Nil {
		return nil
	}
	return &dns.RRSIG{
		Hdr:         dns.RR_Header{Name: unhs(j.Name), Rrtype: dns.TypeRRSIG, Class: j.Class, Ttl: j.TTL},
		TypeCovered: j.TypeCovered, Algorithm: j.Alg, Labels: j.Labels, OrigTtl: j.OrigTTL,
		Expiration: j.Exp, Inception: j.Inc, KeyTag: j.Tag, SignerName: unhs(j.Signer),
		Signature: unhs(j.Signature),
	}
}

func dsToJ(d *dns.DS) jDS {
	return jDS{Name: hs(d.Hdr.Name), Class: d.Hdr.Class, Tag: d.KeyTag, Alg: d.Algorithm,
		DigestType: d.DigestType, Digest: hs(d.Digest)}
}

func (j jDS) build() *dns.DS {
	return &dns.DS{
		Hdr:    dns.RR_Header{Name: unhs(j.Name), Rrtype: dns.TypeDS, Class: j.Class, Ttl: 3600},
		KeyTag: j.Tag, Algorithm: j.Alg, DigestType: j.DigestType, Digest: unhs(j.Digest),
	}
}

// rrsToJ packs the records; the judge unpacks them again, so what is judged
// is exactly what the wire form carries (escapes normalised the way the
// resolver would see them after unpacking a response).
func rrsToJ(rrs []dns.RR) (wire []string, text []string, err error) {
	for _, rr := range rrs {
		buf := make([]byte, dns.Len(rr)+16)
		n, e := dns.PackRR(rr, buf, 0, nil, false)
		if e != nil {
			return nil, nil, fmt.Errorf("pack %s: %w", rr.String(), e)
		}
		wire = append(wire, hex.EncodeToString(buf[:n]))
		text = append(text, rr.String())
	}
	return wire, text, nil
}

func buildRRs(wire []string, unpackable bool) ([]dns.RR, error) {
	out := make([]dns.RR, 0, len(wire)+1)
	for _, w := range wire {
		b, err := hex.DecodeString(w)
		if err != nil {
			return nil, err
		}
		rr, _, err := dns.UnpackRR(b, 0)
		if err != nil {
			return nil, err
		}
		out = append(out, rr)
	}
	if unpackable && len(out) > 0 && out[0].Header().Rrtype == dns.TypeTXT {
		// a record the packer refuses: a TXT character-string of 300 octets
		long := make([]byte, 300)
		for i := range long {
			long[i] = 'x'
		}
		out = append(out, &dns.TXT{Hdr: *out[0].Header(), Txt: []string{string(long)}})
	}
	return out, nil
}
