package main

// Seeded generators: names (with escapes, case mixes), RRsets of many types,
// base64 manglings.

import (
	"encoding/base64"
	"encoding/hex"
	"fmt"
	"math/rand/v2"
	"strings"

	"github.com/miekg/dns"
)

const labelAlphabet = "abcdefghijklmnopqrstuvwxyzABCDEFGHIJKLMNOPQRSTUVWXYZ0123456789-_"

func genLabel(rng *rand.Rand, exotic bool) []byte {
	n := 1 + rng.IntN(8)
	if rng.IntN(20) == 0 {
		n = 1 + rng.IntN(63)
	}
	b := make([]byte, n)
	for i := range b {
		b[i] = labelAlphabet[rng.IntN(len(labelAlphabet))]
	}
	if exotic {
		special := []byte{'.', '\\', ' ', '"', '(', ')', ';', '@', '$', 0, 1, 127, 128, 200, 255, '*'}
		for k := 0; k < 1+rng.IntN(2); k++ {
			b[rng.IntN(len(b))] = special[rng.IntN(len(special))]
		}
		if len(b) == 1 && b[0] == '*' {
			b = append(b, 'x')
		}
		// a first label that starts with '*' without being "*" trips the
		// library *signer's* wildcard detection (text prefix); keep clear of it
		if b[0] == '*' {
			b[0] = 'w'
		}
	}
	return b
}

// nameFromLabels renders labels in the presentation form the library produces
// when it unpacks them from the wire.
func nameFromLabels(labels [][]byte) string {
	wire := make([]byte, 0, 256)
	for _, l := range labels {
		wire = append(wire, byte(len(l)))
		wire = append(wire, l...)
	}
	wire = append(wire, 0)
	if len(wire) > 255 {
		panic("c14: generated name too long")
	}
	s, _, err := dns.UnpackDomainName(wire, 0)
	if err != nil {
		panic("c14: cannot unpack generated name: " + err.Error())
	}
	return s
}

func genLabels(rng *rand.Rand, n int, exoticP int) [][]byte {
	out := make([][]byte, 0, n)
	total := 1
	for i := 0; i < n; i++ {
		l := genLabel(rng, exoticP > 0 && rng.IntN(exoticP) == 0)
		if total+len(l)+1 > 200 {
			break
		}
		total += len(l) + 1
		out = append(out, l)
	}
	return out
}

// flipCase flips the case of some ASCII letters of a presentation-form name
// (never inside a \DDD escape, which has none).
func flipCase(rng *rand.Rand, s string) string {
	b := []byte(s)
	done := false
	for i, c := range b {
		isL := (c >= 'a' && c <= 'z') || (c >= 'A' && c <= 'Z')
		if isL && rng.IntN(2) == 0 {
			b[i] = c ^ 0x20
			done = true
		}
	}
	if !done {
		for i, c := range b {
			if (c >= 'a' && c <= 'z') || (c >= 'A' && c <= 'Z') {
				b[i] = c ^ 0x20
				break
			}
		}
	}
	return string(b)
}

func hasLetter(s string) bool {
	for i := 0; i < len(s); i++ {
		c := s[i]
		if (c >= 'a' && c <= 'z') || (c >= 'A' && c <= 'Z') {
			return true
		}
	}
	return false
}

func genHostName(rng *rand.Rand) string {
	return nameFromLabels(genLabels(rng, 1+rng.IntN(4), 12))
}

func randHex(rng *rand.Rand, n int) string { return hex.EncodeToString(fill(rng, n)) }
func randB64(rng *rand.Rand, n int) string {
	return base64.StdEncoding.EncodeToString(fill(rng, n))
}

func randText(rng *rand.Rand, n int) string {
	const a = "abcdefghijklmnopqrstuvwxyzABCDEFGHIJKLMNOPQRSTUVWXYZ0123456789 -_=+:/.,"
	b := make([]byte, n)
	for i := range b {
		b[i] = a[rng.IntN(len(a))]
	}
	return string(b)
}

func typeList(rng *rand.Rand) string {
	// in ascending type-number order, as the bitmap packer requires
	all := []string{"A", "NS", "SOA", "MX", "TXT", "AAAA", "DS", "RRSIG", "NSEC", "DNSKEY", "CAA", "TYPE1234", "TYPE65280"}
	var out []string
	for _, t := range all {
		if rng.IntN(3) == 0 {
			out = append(out, t)
		}
	}
	if len(out) == 0 {
		out = append(out, all[rng.IntN(len(all))])
	}
	return strings.Join(out, " ")
}

// rdataGen produces presentation-form RDATA for a type.
type rdataGen struct {
	Type string
	Gen  func(rng *rand.Rand) string
	// NameCase: RDATA carries a domain name whose case RFC 4034 §6.2 folds
	NameCase bool
}

func ip4(rng *rand.Rand) string {
	return fmt.Sprintf("%d.%d.%d.%d", rng.IntN(256), rng.IntN(256), rng.IntN(256), rng.IntN(256))
}
func ip6(rng *rand.Rand) string {
	return fmt.Sprintf("2001:db8:%x:%x::%x", rng.IntN(65536), rng.IntN(65536), 1+rng.IntN(65535))
}

func rdataGens() []rdataGen {
	name := genHostName
	one := func(t string) rdataGen {
		return rdataGen{Type: t, NameCase: true, Gen: func(r *rand.Rand) string { return name(r) }}
	}
	pref := func(t string) rdataGen {
		return rdataGen{Type: t, NameCase: true, Gen: func(r *rand.Rand) string { return fmt.Sprintf("%d %s", r.IntN(65536), name(r)) }}
	}
	two := func(t string) rdataGen {
		return rdataGen{Type: t, NameCase: true, Gen: func(r *rand.Rand) string { return name(r) + " " + name(r) }}
	}
	txt := func(r *rand.Rand) string {
		n := 1 + r.IntN(3)
		var parts []string
		for i := 0; i < n; i++ {
			l := r.IntN(40)
			if r.IntN(8) == 0 {
				l = r.IntN(256)
			}
			parts = append(parts, `"`+randText(r, l)+`"`)
		}
		return strings.Join(parts, " ")
	}
	return []rdataGen{
		{Type: "A", Gen: ip4},
		{Type: "AAAA", Gen: ip6},
		one("NS"), one("CNAME"), one("PTR"), one("DNAME"), one("MB"), one("MG"), one("MR"), one("MD"), one("MF"),
		pref("MX"), pref("AFSDB"), pref("KX"), pref("RT"),
		two("MINFO"), two("RP"),
		{Type: "SOA", NameCase: true, Gen: func(r *rand.Rand) string {
			return fmt.Sprintf("%s %s %d %d %d %d %d", name(r), name(r), r.Uint32(), r.IntN(1<<20), r.IntN(1<<20), r.IntN(1<<24), r.IntN(1<<20))
		}},
		{Type: "PX", NameCase: true, Gen: func(r *rand.Rand) string { return fmt.Sprintf("%d %s %s", r.IntN(65536), name(r), name(r)) }},
		{Type: "SRV", NameCase: true, Gen: func(r *rand.Rand) string {
			return fmt.Sprintf("%d %d %d %s", r.IntN(65536), r.IntN(65536), r.IntN(65536), name(r))
		}},
		{Type: "NAPTR", NameCase: true, Gen: func(r *rand.Rand) string {
			return fmt.Sprintf(`%d %d "%s" "%s" "%s" %s`, r.IntN(65536), r.IntN(65536), randText(r, 1), "SIP+D2U", randText(r, r.IntN(20)), name(r))
		}},
		{Type: "TXT", Gen: txt},
		{Type: "SPF", Gen: txt},
		{Type: "HINFO", Gen: func(r *rand.Rand) string {
			return fmt.Sprintf(`"%s" "%s"`, randText(r, 1+r.IntN(10)), randText(r, 1+r.IntN(10)))
		}},
		{Type: "DS", Gen: func(r *rand.Rand) string {
			return fmt.Sprintf("%d %d %d %s", r.IntN(65536), 1+r.IntN(16), 1+r.IntN(4), randHex(r, 20+r.IntN(30)))
		}},
		{Type: "CDS", Gen: func(r *rand.Rand) string {
			return fmt.Sprintf("%d %d %d %s", r.IntN(65536), 1+r.IntN(16), 2, randHex(r, 32))
		}},
		{Type: "DNSKEY", Gen: func(r *rand.Rand) string {
			return fmt.Sprintf("%d 3 %d %s", 256+r.IntN(2), 1+r.IntN(16), randB64(r, 16+r.IntN(200)))
		}},
		{Type: "CDNSKEY", Gen: func(r *rand.Rand) string { return fmt.Sprintf("257 3 %d %s", 1+r.IntN(16), randB64(r, 32+r.IntN(64))) }},
		// NSEC's next name and RRSIG's signer are deliberately NOT in the fold list (RFC 6840 §5.1)
		{Type: "NSEC", Gen: func(r *rand.Rand) string { return name(r) + " " + typeList(r) }},
		{Type: "NSEC3", Gen: func(r *rand.Rand) string {
			return fmt.Sprintf("1 %d %d %s %s %s", r.IntN(2), r.IntN(20), randHex(r, 1+r.IntN(8)),
				strings.ToLower(base32hex(fill(r, 20))), typeList(r))
		}},
		{Type: "NSEC3PARAM", Gen: func(r *rand.Rand) string { return fmt.Sprintf("1 0 %d %s", r.IntN(20), randHex(r, 1+r.IntN(8))) }},
		{Type: "TLSA", Gen: func(r *rand.Rand) string {
			return fmt.Sprintf("%d %d %d %s", r.IntN(4), r.IntN(2), r.IntN(3), randHex(r, 1+r.IntN(64)))
		}},
		{Type: "SMIMEA", Gen: func(r *rand.Rand) string { return fmt.Sprintf("3 1 1 %s", randHex(r, 32)) }},
		{Type: "SSHFP", Gen: func(r *rand.Rand) string {
			return fmt.Sprintf("%d %d %s", 1+r.IntN(4), 1+r.IntN(2), randHex(r, 20+r.IntN(13)))
		}},
		{Type: "CAA", Gen: func(r *rand.Rand) string {
			return fmt.Sprintf(`%d issue "%s"`, r.IntN(2)*128, randText(r, r.IntN(30)))
		}},
		{Type: "SVCB", Gen: func(r *rand.Rand) string {
			return fmt.Sprintf("%d %s alpn=h2 port=%d", 1+r.IntN(10), name(r), r.IntN(65536))
		}},
		{Type: "HTTPS", Gen: func(r *rand.Rand) string { return fmt.Sprintf("%d %s ipv4hint=%s", 1+r.IntN(10), name(r), ip4(r)) }},
		{Type: "LOC", Gen: func(r *rand.Rand) string {
			return fmt.Sprintf("%d %d %d.000 N %d %d %d.000 W %d.00m 1m 10000m 10m", r.IntN(90), r.IntN(60), r.IntN(60), r.IntN(180), r.IntN(60), r.IntN(60), r.IntN(1000))
		}},
		{Type: "CERT", Gen: func(r *rand.Rand) string {
			return fmt.Sprintf("%d %d %d %s", 1+r.IntN(8), r.IntN(65536), 1+r.IntN(16), randB64(r, 1+r.IntN(80)))
		}},
		{Type: "URI", Gen: func(r *rand.Rand) string {
			return fmt.Sprintf(`%d %d "http://%s"`, r.IntN(65536), r.IntN(65536), randText(r, 1+r.IntN(30)))
		}},
		{Type: "OPENPGPKEY", Gen: func(r *rand.Rand) string { return randB64(r, 1+r.IntN(120)) }},
		{Type: "DHCID", Gen: func(r *rand.Rand) string { return randB64(r, 3+r.IntN(40)) }},
		{Type: "CSYNC", Gen: func(r *rand.Rand) string { return fmt.Sprintf("%d %d %s", r.Uint32(), r.IntN(4), typeList(r)) }},
		{Type: "ZONEMD", Gen: func(r *rand.Rand) string { return fmt.Sprintf("%d 1 1 %s", r.Uint32(), randHex(r, 48)) }},
		{Type: "EUI48", Gen: func(r *rand.Rand) string {
			b := fill(r, 6)
			return fmt.Sprintf("%02x-%02x-%02x-%02x-%02x-%02x", b[0], b[1], b[2], b[3], b[4], b[5])
		}},
		{Type: "EUI64", Gen: func(r *rand.Rand) string {
			b := fill(r, 8)
			return fmt.Sprintf("%02x-%02x-%02x-%02x-%02x-%02x-%02x-%02x", b[0], b[1], b[2], b[3], b[4], b[5], b[6], b[7])
		}},
		{Type: "L32", Gen: func(r *rand.Rand) string { return fmt.Sprintf("%d %s", r.IntN(65536), ip4(r)) }},
		{Type: "L64", Gen: func(r *rand.Rand) string {
			return fmt.Sprintf("%d %04x:%04x:%04x:%04x", r.IntN(65536), r.IntN(65536), r.IntN(65536), r.IntN(65536), r.IntN(65536))
		}},
		{Type: "NID", Gen: func(r *rand.Rand) string {
			return fmt.Sprintf("%d %04x:%04x:%04x:%04x", r.IntN(65536), r.IntN(65536), r.IntN(65536), r.IntN(65536), r.IntN(65536))
		}},
		{Type: "LP", Gen: func(r *rand.Rand) string { return fmt.Sprintf("%d %s", r.IntN(65536), name(r)) }},
		{Type: "NINFO", Gen: txt},
		{Type: "AVC", Gen: txt},
		{Type: "TALINK", Gen: func(r *rand.Rand) string { return name(r) + " " + name(r) }},
		{Type: "NSAP-PTR", Gen: func(r *rand.Rand) string { return name(r) }},
		{Type: "X25", Gen: func(r *rand.Rand) string { return fmt.Sprint(r.IntN(1 << 30)) }},
		{Type: "GPOS", Gen: func(r *rand.Rand) string {
			return fmt.Sprintf("%d.%d %d.%d %d.%d", r.IntN(90), r.IntN(100), r.IntN(90), r.IntN(100), r.IntN(900), r.IntN(100))
		}},
		{Type: "UID", Gen: func(r *rand.Rand) string { return fmt.Sprint(r.Uint32()) }},
		{Type: "GID", Gen: func(r *rand.Rand) string { return fmt.Sprint(r.Uint32()) }},
		{Type: "RKEY", Gen: func(r *rand.Rand) string { return fmt.Sprintf("0 3 %d %s", 1+r.IntN(16), randB64(r, 8+r.IntN(64))) }},
		{Type: "TYPE65280", Gen: func(r *rand.Rand) string {
			n := r.IntN(40)
			if n == 0 {
				return `\# 0`
			}
			return fmt.Sprintf(`\# %d %s`, n, randHex(r, n))
		}},
		{Type: "TYPE1234", Gen: func(r *rand.Rand) string {
			n := 1 + r.IntN(300)
			return fmt.Sprintf(`\# %d %s`, n, randHex(r, n))
		}},
	}
}

func base32hex(b []byte) string {
	const a = "0123456789abcdefghijklmnopqrstuv"
	var out []byte
	var acc, bits uint
	for _, c := range b {
		acc = acc<<8 | uint(c)
		bits += 8
		for bits >= 5 {
			out = append(out, a[(acc>>(bits-5))&31])
			bits -= 5
		}
	}
	if bits > 0 {
		out = append(out, a[(acc<<(5-bits))&31])
	}
	return string(out)
}

// genRRset builds n records of one type under owner; duplicates and order are
// left to the caller's mutations.
func genRRset(rng *rand.Rand, g *rdataGen, owner string, class uint16, ttl uint32, n int) ([]dns.RR, error) {
	var out []dns.RR
	for i := 0; i < n; i++ {
		text := fmt.Sprintf("placeholder. 1 IN %s %s", g.Type, g.Gen(rng))
		rr, err := dns.NewRR(text)
		if err != nil || rr == nil {
			return nil, fmt.Errorf("NewRR(%q): %v", text, err)
		}
		h := rr.Header()
		h.Name, h.Class, h.Ttl = owner, class, ttl
		out = append(out, rr)
	}
	return out, nil
}

// ---- base64 manglings of key material / signatures

func b64(b []byte) string { return base64.StdEncoding.EncodeToString(b) }

func wrapEvery(s string, every int, sep string) string {
	if every <= 0 {
		return s
	}
	var sb strings.Builder
	for i := 0; i < len(s); i += every {
		j := min(i+every, len(s))
		sb.WriteString(s[i:j])
		if j < len(s) {
			sb.WriteString(sep)
		}
	}
	return sb.String()
}

// mangleB64 returns a variant of a base64 text and a name for the variant.
func mangleB64(rng *rand.Rand, raw []byte) (string, string) {
	s := b64(raw)
	switch rng.IntN(16) {
	case 0:
		return wrapEvery(s, 64, "\n"), "b64-wrap64-lf"
	case 1:
		return wrapEvery(s, 76, "\r\n"), "b64-wrap76-crlf"
	case 2:
		return wrapEvery(s, 1+rng.IntN(300), "\n"), "b64-wrap-random"
	case 3:
		// padding in the middle of the stream
		if len(s) < 8 {
			return s + "====", "b64-extra-padding"
		}
		i := rng.IntN(len(s)/4) * 4
		return s[:i] + "AA==" + s[i:], "b64-padding-midstream"
	case 4:
		if len(s) == 0 {
			return "=", "b64-lone-padding"
		}
		i := rng.IntN(len(s))
		return s[:i] + "=" + s[i+1:], "b64-pad-char-inside"
	case 5:
		bad := []string{" ", "-", "_", "*", "\x00", "\xff", "é", "\t", "!"}
		i := rng.IntN(len(s) + 1)
		return s[:i] + bad[rng.IntN(len(bad))] + s[i:], "b64-foreign-char"
	case 6:
		if len(s) == 0 {
			return "A", "b64-truncated"
		}
		return s[:len(s)-1-rng.IntN(min(3, len(s)))], "b64-truncated"
	case 7:
		return s + "=", "b64-extra-padding"
	case 8:
		return strings.TrimRight(s, "="), "b64-no-padding"
	case 9:
		// non-zero trailing bits in the last group (non-canonical but decodable)
		if strings.HasSuffix(s, "==") && len(s) >= 4 {
			b := []byte(s)
			b[len(b)-3] = "BCDEFGHIJKLMNOP"[rng.IntN(15)]
			return string(b), "b64-trailing-bits"
		}
		return s, "b64-plain"
	case 10:
		return s + "\n", "b64-trailing-newline"
	case 11:
		return "\r\n" + s, "b64-leading-newline"
	case 12:
		// line break that splits a 4-char group, at a 256-char chunk edge
		i := 256 - 1 - rng.IntN(3)
		if len(s) > i+2 {
			return s[:i] + "\n" + s[i:], "b64-break-inside-group-at-chunk-edge"
		}
		return s, "b64-plain"
	case 14:
		// padding that closes a group exactly at a 256-character chunk edge,
		// with more material after it
		if len(s) > 260 {
			edge := 256 * (1 + rng.IntN(len(s)/256))
			if edge > len(s) {
				edge = 256
			}
			return s[:edge-4] + "AA==" + s[edge-4:], "b64-padding-at-chunk-edge"
		}
		return s + "====", "b64-extra-padding"
	case 13:
		// url-safe alphabet
		return strings.NewReplacer("+", "-", "/", "_").Replace(s), "b64-urlsafe"
	default:
		return s, "b64-plain"
	}
}
