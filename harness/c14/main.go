// C14 — in-house DNSSEC primitives agree with an independent reference.
//
// Differential runtime monitor. The real sdns primitives (KeyTag, VerifyDS,
// VerifyRRSIG and, through the verif hook file, verifySignature, cryptoVerify,
// rrsigSignedData, dsDigestMatches, rsaVerifyPKCS1v15) are run on generated
// keys, signatures, RRsets and DS records, and every verdict is compared with
// an independent one: dns.DNSKEY.KeyTag / ToDS / dns.RRSIG.Verify under
// recover(), plain math/big RSASSA-PKCS1-v1_5 for RSA (the only reference for
// exponents above 2^31-1), and the bytes the library's own signer signs for
// the canonical signed data.
//
// Verdict rules:
//   - sdns accepts, reference rejects                      → more-permissive/…
//   - sdns accepts an input in a class its own source documents as refused
//     (ECDSA r|s not 2·size octets, RSA modulus outside 1024..4096 bits,
//     exponent even/<3/>=n/>64 bits, leading zero octets, owner inside the
//     signer only as a string suffix, DS digest type 5, empty key) → more-permissive/…/<class>
//   - sdns rejects, reference accepts, input in such a class → counted (stricter-exempt)
//   - sdns rejects, reference accepts, no documented class   → stricter-undocumented/…
//   - key tag differs from the library where the library answers → keytag/mismatch/…
//   - signed data differs from what the library signer signs → signed-data/mismatch/…
//   - panic → panic/<primitive>;  one input slower than 1 s three times in a row → slow/<primitive>
package main

import (
	"crypto/elliptic"
	"encoding/json"
	"fmt"
	"math/rand/v2"
	"os"
	"runtime"
	"sort"
	"sync"
	"sync/atomic"
	"time"

	"github.com/miekg/dns"
	"github.com/semihalev/sdns/zzverif/vlib"
)

type world struct {
	r    *vlib.Run
	pool *keyPool
	gens []rdataGen
}

type unit struct {
	family string
	index  int
	run    func(st *stats, index int)
}

func (w *world) buildPool() {
	r := w.r
	// in-bounds moduli, the bounds themselves, and both sides just outside
	bits := []int{512, 1016, 1023, 1024, 1025, 1536, 2048, 3072, 4095, 4096, 4097, 4104}
	if !r.Quick() {
		bits = append(bits, 768, 1032, 1280, 2047, 2560, 3584, 4088, 4160, 5120)
	}
	p := &keyPool{Mods: make([]*rsaMod, len(bits))}
	var wg sync.WaitGroup
	for i, b := range bits {
		wg.Add(1)
		go func(i, b int) {
			defer wg.Done()
			p.Mods[i] = genRSAMod(r.RandN("rsa-modulus", b), b)
		}(i, b)
	}
	nEC := r.N(4, 12)
	for i := 0; i < nEC; i++ {
		p.P256 = append(p.P256, genECKey(r.RandN("p256", i), elliptic.P256()))
		p.P384 = append(p.P384, genECKey(r.RandN("p384", i), elliptic.P384()))
		p.Ed = append(p.Ed, genEd25519(r.RandN("ed25519", i)))
	}
	wg.Wait()
	w.pool = p
}

// selfTest makes sure the harness's own machinery is sound before anything is
// judged: every RDATA template parses and packs, and the reference signed data
// verifies under raw crypto for a library-made signature.
func (w *world) selfTest() error {
	rng := w.r.Rand("selftest")
	var bad []string
	for i := range w.gens {
		g := &w.gens[i]
		for k := 0; k < 8; k++ {
			rrs, err := genRRset(rng, g, "Self.Test.", dns.ClassINET, 300, 2)
			if err == nil {
				var wire []string
				if wire, _, err = rrsToJ(rrs); err == nil {
					_, err = buildRRs(wire, false)
				}
			}
			if err != nil {
				bad = append(bad, fmt.Sprintf("template %s: %v", g.Type, err))
				break
			}
		}
	}
	if len(bad) > 0 {
		return fmt.Errorf("%d RDATA templates unusable: %v", len(bad), bad)
	}
	// reference signed data must be what the library's Verify checks
	for _, alg := range []uint8{dns.ED25519, dns.ECDSAP256SHA256, dns.RSASHA256} {
		spec := baseSpec{alg: alg}
		if alg == dns.RSASHA256 {
			spec.mod, spec.expName = w.pool.modsIn(1024, 1024)[0], "f5"
		}
		for k := 0; k < 20; k++ {
			b, err := w.makeBase(rng, spec)
			if err != nil {
				return err
			}
			data, err := refSignedData(b.sig, b.rrs)
			if err != nil {
				return fmt.Errorf("reference signed data: %w", err)
			}
			if alg == dns.RSASHA256 {
				h, prefix, _ := rsaAlgHash(alg)
				if !refPKCS1v15(b.mod.N, b.exp.E, prefix, hashBytes(h, data), b.sigBytes()) {
					return fmt.Errorf("big-integer verification of a big-integer signature over the library's signed data failed (%s)", b.class)
				}
			} else if v, _ := libVerify(b.sig, b.key, b.rrs); v != vAccept {
				return fmt.Errorf("library rejects its own signature (%s)", b.class)
			}
		}
	}
	return nil
}

func (w *world) unitSigned(st *stats, index int) {
	rng := w.r.RandN("signed", index)
	g := &w.gens[index%len(w.gens)]
	zoneLabels := genLabels(rng, rng.IntN(4), 6)
	ownerLabels := append(genLabels(rng, rng.IntN(5), 6), zoneLabels...)
	owner := nameFromLabels(ownerLabels)
	if rng.IntN(10) == 0 && len(ownerLabels) > 0 {
		if rest := nameFromLabels(ownerLabels[1:]); rest == "." {
			owner = "*."
		} else {
			owner = "*." + rest
		}
	}
	n := 1 + rng.IntN(6)
	rrs, err := genRRset(rng, g, owner, dns.ClassINET, uint32(rng.IntN(1<<20)), n)
	if err != nil {
		st.inconclusive(err.Error())
		return
	}
	if len(rrs) > 1 && rng.IntN(2) == 0 {
		rrs = append(rrs, dns.Copy(rrs[0]))
	}
	rng.Shuffle(len(rrs), func(i, j int) { rrs[i], rrs[j] = rrs[j], rrs[i] })
	labels := dns.CountLabel(owner)
	sigLabels := labels
	switch rng.IntN(6) {
	case 0:
		sigLabels = rng.IntN(labels + 1) // any shorter count: a wildcard expansion
	case 1:
		if labels > 1 {
			sigLabels = labels - 1
		}
	case 2:
		sigLabels = labels + rng.IntN(3)
	}
	sig := &dns.RRSIG{
		Hdr:         dns.RR_Header{Name: owner, Rrtype: dns.TypeRRSIG, Class: dns.ClassINET, Ttl: 300},
		TypeCovered: rrs[0].Header().Rrtype, Algorithm: uint8(rng.UintN(256)), Labels: uint8(sigLabels),
		OrigTtl: rng.Uint32() >> uint(rng.IntN(32)), Expiration: rng.Uint32(), Inception: rng.Uint32(),
		KeyTag: uint16(rng.UintN(65536)), SignerName: flipCase(rng, nameFromLabels(zoneLabels)),
	}
	c := &jCase{Family: "signed", Unit: index, Seed: w.r.Seed, Mut: "signed-data", Sig: sigToJ(sig)}
	c.RRs, c.RRText, err = rrsToJ(rrs)
	if err != nil {
		st.inconclusive(err.Error())
		return
	}
	judgeSignedCase(st, c)
}

func judgeSignedCase(st *stats, c *jCase) {
	rrs, err := buildRRs(c.RRs, false)
	if err != nil || len(rrs) == 0 {
		st.inconclusive("signed case does not rebuild")
		return
	}
	judgeSignedData(st, c, c.Sig.build(), rrs)
}

func judgeCase(st *stats, c *jCase) {
	switch c.Family {
	case "keytag":
		judgeKeyTag(st, c)
	case "ds":
		judgeDS(st, c)
	case "vds":
		judgeVerifyDS(st, c)
	case "verify":
		judgeVerify(st, c)
	case "signed":
		judgeSignedCase(st, c)
	case "rawrsa":
		judgeRawRSA(st, c)
	case "rrsig":
		judgeRRSIG(st, c)
	default:
		st.inconclusive("unknown case family " + c.Family)
	}
}

func main() {
	r := vlib.Start("C14", "exploration")
	rule := "differential: sdns KeyTag/VerifyDS/VerifyRRSIG/verifySignature/cryptoVerify/rrsigSignedData/dsDigestMatches/rsaVerifyPKCS1v15 vs miekg/dns KeyTag/ToDS/RRSIG.Verify (under recover), math/big RSASSA-PKCS1-v1_5, and the bytes the library signer signs; acceptance beyond the reference or inside a documented refusal class, undocumented strictness, key-tag or signed-data mismatch, panic, or 3x >1s on one input is a violation"

	if raw := r.ReplayCase(); raw != nil {
		var c jCase
		if err := json.Unmarshal(raw, &c); err != nil {
			r.Fatalf("replay case: %v", err)
		}
		st := newStats()
		judgeCase(st, &c)
		report(r, st)
		r.Note("replayed", fmt.Sprintf("%s unit %d sub %d mutation %s", c.Family, c.Unit, c.Sub, c.Mut))
		fmt.Fprintf(os.Stderr, "replayed %s/%d/%d (%s): counters %v\n", c.Family, c.Unit, c.Sub, c.Mut, st.counters)
		r.Finish(rule)
	}

	w := &world{r: r, gens: rdataGens()}
	t0 := time.Now()
	w.buildPool()
	r.Note("key_pool", map[string]any{"rsa_moduli_bits": modBits(w.pool), "rsa_exponents_per_modulus": len(w.pool.Mods[0].Exps),
		"p256": len(w.pool.P256), "p384": len(w.pool.P384), "ed25519": len(w.pool.Ed), "build_s": time.Since(t0).Seconds()})
	if err := w.selfTest(); err != nil {
		r.Fatalf("self-test: %v", err)
	}

	var units []unit
	add := func(family string, n int, f func(st *stats, index int)) {
		for i := 0; i < n; i++ {
			units = append(units, unit{family, i, f})
		}
	}
	nPairs := len(w.pool.Mods) * len(w.pool.Mods[0].Exps)
	// verify: 5 of every 8 units are RSA and walk modulus × exponent; make sure the walk covers every pair at least twice
	nVerify := max(r.N(900, 40000), (2*nPairs/5+1)*8)
	add("verify", nVerify, w.unitVerify)
	add("everybyte", r.N(8, 240), w.unitEveryByte)
	add("suffix", r.N(60, 2400), w.unitSuffix)
	add("rawrsa", max(r.N(400, 16000), 2*nPairs), w.unitRaw)
	add("rrsig", r.N(900, 36000), w.unitRRSIG)
	add("rrsigcut", r.N(64, 2560), w.unitRRSIGCut)
	add("signed", r.N(3000, 150000), w.unitSigned)
	add("keytag", r.N(500, 24000), w.unitKeyTag)
	add("ds", r.N(512, 24000), w.unitDS)
	add("vds", r.N(1200, 48000), w.unitVerifyDS)

	// heavier units first so the tail of the run is short
	workers := runtime.GOMAXPROCS(0)
	results := make([]*stats, workers)
	var next atomic.Int64
	var wg sync.WaitGroup
	for wi := 0; wi < workers; wi++ {
		wg.Add(1)
		results[wi] = newStats()
		go func(st *stats) {
			defer wg.Done()
			for {
				i := int(next.Add(1)) - 1
				if i >= len(units) {
					return
				}
				u := units[i]
				t0 := time.Now()
				func() {
					defer func() {
						if p := recover(); p != nil {
							// a panic outside the guarded sdns calls is the harness's own
							st.inconclusive(fmt.Sprintf("harness panic in %s unit %d: %v", u.family, u.index, p))
						}
					}()
					u.run(st, u.index)
				}()
				st.famNanos[u.family] += time.Since(t0).Nanoseconds()
				r.Progress("unit %d/%d", i, len(units))
			}
		}(results[wi])
	}
	wg.Wait()

	total := newStats()
	for _, st := range results {
		total.merge(st)
	}
	report(r, total)
	cpu := map[string]float64{}
	for k, v := range total.famNanos {
		cpu[k] = float64(v/1e7) / 100
	}
	r.Note("family_busy_s", cpu)
	r.Note("slowest_call_inputs", total.slowWhat)
	r.Note("workers", workers)
	requirements(r)
	r.Assume("trusted base: miekg/dns v1.1.72 KeyTag/ToDS/RRSIG.Verify/Sign and Go's crypto/{rsa,ecdsa,ed25519} as used by the library; the harness's own big-integer PKCS#1 v1.5 code (self-tested against the library's signed data at start)")
	r.Assume("names are FQDNs in the presentation form the library produces when unpacking wire data (escapes \\DDD, \\.), the only form the resolver hands these primitives; non-FQDN or raw non-ASCII struct names are outside the workload")
	r.Assume("the reference for RSA exponents above 2^31-1 is big-integer validity for a key in the library's documented RSA key format (no leading zero octets, 64..512 octet modulus); the library itself cannot load such keys")
	r.Assume("time: only VerifyRRSIG reads the clock; its cases use validity windows years away from the present, every lower primitive treats inception/expiration as signed octets")
	r.Finish(rule)
}

func modBits(p *keyPool) []int {
	var out []int
	for _, m := range p.Mods {
		out = append(out, m.Bits)
	}
	return out
}

// report feeds merged worker results into the run, in a deterministic order.
func report(r *vlib.Run, st *stats) {
	r.Eval(int(st.evals))
	for _, k := range sortedKeys(st.counters) {
		r.Count(k, int(st.counters[k]))
	}
	for _, k := range sortedKeys(st.maxes) {
		r.Max(k, st.maxes[k])
	}
	for k := range st.distinct {
		r.Distinct(k)
	}
	for c, m := range st.distinctIn {
		for k := range m {
			r.DistinctIn(c, k)
		}
		r.Count("distinct/"+c, len(m))
	}
	sort.SliceStable(st.viols, func(i, j int) bool {
		a, b := st.viols[i], st.viols[j]
		if a.sig != b.sig {
			return a.sig < b.sig
		}
		if a.c.Family != b.c.Family {
			return a.c.Family < b.c.Family
		}
		if a.c.Unit != b.c.Unit {
			return a.c.Unit < b.c.Unit
		}
		return a.c.Sub < b.c.Sub
	})
	for _, v := range st.viols {
		r.Violation(v.sig, v.what, v.c)
	}
	sort.Strings(st.incon)
	for _, s := range st.incon {
		r.Inconclusive(s)
	}
	// samples: keep order stable
	sort.SliceStable(st.samples, func(i, j int) bool {
		return fmt.Sprint(st.samples[i]) < fmt.Sprint(st.samples[j])
	})
	for _, s := range st.samples {
		r.Sample(s)
	}
}

func requirements(r *vlib.Run) {
	// "rejects everything" must not pass: genuine acceptances per algorithm family
	for _, fam := range []string{"rsasha1", "rsasha1nsec3", "rsasha256", "rsasha512", "p256", "p384", "ed25519", "rsa-wide-exponent"} {
		r.Require("verify_agree_accept/"+fam, int64(r.N(40, 400)))
	}
	r.Require("verify_agree_reject", int64(r.N(10000, 100000)))
	for _, cls := range []string{"ecdsa-sig-width", "rsa-modulus-lt-1024", "rsa-exponent-limits", "signer-label-boundary"} {
		r.Require("verify_stricter_exempt/"+cls, 5)
	}
	for _, cls := range []string{"rsa-leading-zero", "rsa-modulus-gt-4096"} {
		r.Require("verify_agree_reject_in_class/"+cls, 5)
	}
	r.Require("rawrsa_agree_accept", int64(r.N(300, 3000)))
	r.Require("rawrsa_agree_accept/wide-exponent", int64(r.N(100, 1000)))
	r.Require("rawrsa_agree_reject", int64(r.N(3000, 30000)))
	r.Require("signed_data_equal", int64(r.N(10000, 100000)))
	r.Require("signed_data_equal/wildcard", int64(r.N(1000, 10000)))
	r.Require("signed_data_equal/origttl-differs", int64(r.N(1000, 10000)))
	r.Require("signed_data_equal/multi-rr", int64(r.N(1000, 10000)))
	r.Require("distinct/signed_data_types", 55)
	r.Require("keytag_agree", int64(r.N(20000, 300000)))
	r.Require("keytag_agree_nonzero", int64(r.N(10000, 150000)))
	r.Require("keytag_agree_rsamd5", 100)
	r.Require("distinct/keytag_algorithms", 256)
	r.Require("distinct/ds_digest_types", 256)
	for _, dt := range []string{"1", "2", "4"} {
		r.Require("ds_agree_accept/dt"+dt, int64(r.N(200, 2000)))
	}
	r.Require("ds_agree_reject", int64(r.N(5000, 50000)))
	r.Require("ds_stricter_exempt/ds-digest-type-5", int64(r.N(200, 2000)))
	r.Require("vds_agree_accept", int64(r.N(200, 2000)))
	r.Require("vds_agree_reject", int64(r.N(300, 3000)))
	r.Require("vds_stricter_exempt", int64(r.N(100, 1000)))
	r.Require("rrsig_agree_accept", int64(r.N(200, 2000)))
	r.Require("rrsig_agree_reject", int64(r.N(200, 2000)))
	// every structural shape of RSA key material reached a verifier through a bound RRSIG,
	// below verifySignature/cryptoVerify and through the exported VerifyRRSIG
	for _, sh := range requiredRSAKeyShapes {
		r.Require("rsa_key_shape_bound/"+sh, int64(r.N(20, 200)))
		r.Require("rrsig_rsa_key_shape_bound/"+sh, int64(r.N(5, 50)))
	}
	for _, fam := range []string{"p256", "p384", "ed25519"} {
		for _, sh := range []string{"empty", "short", "exact", "long"} {
			r.Require("fixed_key_len_bound/"+fam+"/"+sh, int64(r.N(20, 200)))
		}
	}
	// every mutation family observed
	for _, m := range requiredMutations {
		r.Require("mut/"+m, 1)
	}
	r.Require("distinct/alg_mutation_pairs", 300)
}

var requiredMutations = []string{
	"none", "sig-bitflip", "sig-flip-every-octet", "sig-truncated-1", "sig-truncated-front", "sig-truncated-half", "sig-empty",
	"sig-extended-1", "sig-extended-zero", "sig-leading-zero", "sig-leading-zeros-2", "sig-all-zero", "sig-random",
	"sig-b64-wrapped", "sig-b64-foreign-char", "sig-b64-no-padding",
	"ecdsa-pad-both", "ecdsa-pad-both-2", "ecdsa-negated-s", "ecdsa-s-zero", "ecdsa-s-equals-order", "ecdsa-r-s-swapped",
	"rsa-sig-plus-modulus-wider", "rsa-sig-negated", "rsa-sig-equals-modulus", "rsa-sig-one",
	"sig-wrong-tag", "sig-wrong-algorithm", "sig-wrong-class", "sig-wrong-type-covered", "sig-labels-plus-1", "sig-labels-max",
	"sig-labels-minus-1", "sig-labels-zero", "sig-origttl-changed", "sig-expiration-changed", "sig-inception-changed",
	"sig-header-ttl-changed", "sig-signer-case", "sig-owner-case", "sig-signer-other-zone", "sig-signer-parent", "sig-signer-child", "sig-owner-other",
	"key-flags-toggle-sep", "key-protocol-changed", "key-wrong-class", "key-other-owner", "key-owner-case", "key-ttl-changed",
	"key-b64-wrapped", "key-b64-padding-midstream", "key-b64-foreign-char", "key-bitflip", "key-bitflip-tag-follows",
	"key-flip-every-octet-tag-follows", "key-truncated", "key-extended", "key-empty", "key-and-sig-other-algorithm", "key-and-sig-unsupported-algorithm",
	"rr-ttl-changed", "rr-reordered", "rr-removed", "rr-duplicated", "rr-added", "rr-owner-case-all", "rr-owner-case-one", "rr-wrong-class",
	"rr-owner-other", "rr-rdata-bitflip", "rr-flip-every-rdata-octet", "rr-rdata-name-case-folded", "rr-rdata-name-case-significant", "rr-unpackable",
	"suffix-no-boundary", "suffix-escaped-dot",
	"em-block-type-02", "em-ps-octet-not-ff", "em-separator-not-zero", "em-early-separator", "em-short-pad", "em-digestinfo-without-null",
	"em-digest-bitflip", "em-prefix-bitflip", "em-other-hash-prefix", "em-bare-digest", "raw-other-exponent",
	"rrsig-valid", "rrsig-expired", "rrsig-not-yet-valid", "rrsig-bad-then-good-signature", "rrsig-decoy-key-in-bucket", "rrsig-only-decoy-key",
	"rrsig-wide-exponent", "rrsig-rsa-leading-zero-key", "rrsig-window-rewritten-expired", "rrsig-nil-key-in-bucket",
	"ds-valid", "ds-digest-bitflip", "ds-digest-truncated", "ds-digest-extended", "ds-digest-empty", "ds-digest-of-other-type",
	"ds-unsupported-type-random-digest", "ds-unsupported-type-sha256-digest",
	"vds-valid", "vds-hex-upper", "vds-hex-mixed", "vds-wrong-tag", "vds-wrong-algorithm", "vds-digest-flipped", "vds-hex-odd-length",
	"vds-digest-type-5", "vds-unsupported-algorithm", "vds-key-without-zone-flag", "vds-key-protocol-not-3", "vds-owner-case",
	"vds-decoys-and-duplicates", "vds-colliding-bucket", "vds-wrapped-key", "vds-key-around-4092",
	"b64-plain", "b64-wrap64-lf", "b64-wrap76-crlf", "b64-wrap-random", "b64-padding-midstream", "b64-pad-char-inside", "b64-foreign-char",
	"b64-truncated", "b64-extra-padding", "b64-no-padding", "b64-trailing-bits", "b64-break-inside-group-at-chunk-edge", "b64-urlsafe", "b64-padding-at-chunk-edge",
	"ds-direct-digest-of-unpackable-key",
	"key-cut-tag-follows", "key-extended-tag-follows", "key-rsa-explen-field-tag-follows", "key-rsa-exponent-only-tag-follows",
	"rrsig-only-altered-key", "rrsig-altered-key-then-good-key",
}

var _ = rand.New
