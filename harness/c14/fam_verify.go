package main

// The signature-verification workload: valid signatures made by the library's
// signer (over big-integer / deterministic signers), and mutations of the
// signature, the RRSIG fields, the key and the RRset.

import (
	"os"
	"crypto"
	"crypto/ed25519"
	"crypto/elliptic"
	"fmt"
	"math/big"
	"math/rand/v2"
	"strings"

	"github.com/miekg/dns"
)

type base struct {
	key    *dns.DNSKEY
	sig    *dns.RRSIG
	rrs    []dns.RR
	class  string // input class label: algorithm family / key shape
	valid  bool   // a genuine signature exists
	signer crypto.Signer
	mod    *rsaMod
	exp    *rsaExp
	ec     *ecKey
	gen    *rdataGen
	zone   string
	pubRaw []byte
}

type baseSpec struct {
	alg     uint8
	mod     *rsaMod
	expName string
	enc     rsaEnc
	window  *[2]uint32 // inception, expiration; nil: random (time is only signed octets below VerifyRRSIG)
}

func cloneKey(k *dns.DNSKEY) *dns.DNSKEY { c := *k; return &c }
func cloneSig(s *dns.RRSIG) *dns.RRSIG   { c := *s; return &c }
func cloneRRs(rrs []dns.RR) []dns.RR {
	out := make([]dns.RR, len(rrs))
	for i, rr := range rrs {
		out[i] = dns.Copy(rr)
	}
	return out
}

// lastLabels returns the suffix of name made of its last n labels.
func lastLabels(name string, n int) string {
	if n == 0 {
		return "."
	}
	idx := dns.Split(name)
	return name[idx[len(idx)-n]:]
}

// makeBase builds a key, an RRset and a library-signed RRSIG for it.
func (w *world) makeBase(rng *rand.Rand, spec baseSpec) (*base, error) {
	b := &base{}
	zoneLabels := genLabels(rng, rng.IntN(4), 10)
	if rng.IntN(12) == 0 {
		zoneLabels = nil // the root zone
	}
	zone := nameFromLabels(zoneLabels)
	ownerLabels := append(genLabels(rng, rng.IntN(4), 10), zoneLabels...)
	owner := nameFromLabels(ownerLabels)
	b.zone = zone
	class := uint16(dns.ClassINET)
	if rng.IntN(15) == 0 {
		class = dns.ClassCHAOS
	}
	g := &w.gens[rng.IntN(len(w.gens))]
	b.gen = g
	ttl := uint32(rng.IntN(100000))
	n := 1 + rng.IntN(4)
	if rng.IntN(10) == 0 {
		n = 5 + rng.IntN(12)
	}
	rrs, err := genRRset(rng, g, owner, class, ttl, n)
	if err != nil {
		return nil, err
	}
	// duplicates and disorder in what is presented (the signer collapses and sorts)
	if len(rrs) > 1 && rng.IntN(3) == 0 {
		rrs = append(rrs, dns.Copy(rrs[rng.IntN(len(rrs))]))
	}
	rng.Shuffle(len(rrs), func(i, j int) { rrs[i], rrs[j] = rrs[j], rrs[i] })

	// key
	flags := []uint16{256, 257, 385, 256 | 0x8000, 257 | 2}[rng.IntN(5)]
	keyName := zone
	if hasLetter(keyName) && rng.IntN(3) == 0 {
		keyName = flipCase(rng, keyName)
	}
	key := &dns.DNSKEY{Hdr: dns.RR_Header{Name: keyName, Rrtype: dns.TypeDNSKEY, Class: class, Ttl: 3600},
		Flags: flags, Protocol: 3, Algorithm: spec.alg}
	b.valid = true
	switch spec.alg {
	case dns.RSASHA1, dns.RSASHA1NSEC3SHA1, dns.RSASHA256, dns.RSASHA512:
		b.mod = spec.mod
		b.exp = spec.mod.ExpsByName[spec.expName]
		b.pubRaw = encodeRSAKey(b.exp.E, b.mod.N, spec.enc)
		b.class = fmt.Sprintf("rsa/%s/%d/%s", spec.expName, b.mod.Bits, rsaEncNames[spec.enc])
		if b.exp.D != nil {
			if _, prefix, _ := rsaAlgHash(spec.alg); (b.mod.Bits+7)/8 < len(prefix)+hashLen(spec.alg)+11 {
				b.valid = false // modulus too short to carry this digest
			} else {
				b.signer = rsaSigner{b.mod, b.exp}
			}
		} else {
			b.valid = false
		}
	case dns.ECDSAP256SHA256:
		b.ec = w.pool.P256[rng.IntN(len(w.pool.P256))]
		b.pubRaw, b.signer, b.class = b.ec.public(), b.ec, "ecdsa/p256"
	case dns.ECDSAP384SHA384:
		b.ec = w.pool.P384[rng.IntN(len(w.pool.P384))]
		b.pubRaw, b.signer, b.class = b.ec.public(), b.ec, "ecdsa/p384"
	case dns.ED25519:
		priv := w.pool.Ed[rng.IntN(len(w.pool.Ed))]
		b.pubRaw, b.signer, b.class = priv.Public().(ed25519.PublicKey), priv, "ed25519"
	default:
		return nil, fmt.Errorf("no signer for algorithm %d", spec.alg)
	}
	key.PublicKey = b64(b.pubRaw)
	tag, _ := libKeyTag(key)
	for tag == 0 { // the library's signer refuses tag 0
		key.Flags ^= 2
		tag, _ = libKeyTag(key)
	}
	b.key = key

	// signature header; time fields are just signed octets at this layer
	signerName := zone
	if hasLetter(signerName) && rng.IntN(3) == 0 {
		signerName = flipCase(rng, signerName)
	}
	origTTL := ttl
	if rng.IntN(2) == 0 || origTTL == 0 {
		origTTL = 1 + uint32(rng.IntN(1<<22))
	}
	sig := &dns.RRSIG{Algorithm: spec.alg, OrigTtl: origTTL, Expiration: rng.Uint32(), Inception: rng.Uint32(),
		KeyTag: tag, SignerName: signerName}
	sig.Hdr.Ttl = ttl
	if spec.window != nil {
		sig.Inception, sig.Expiration = spec.window[0], spec.window[1]
	}

	// wildcard expansion: sign under "*.<suffix>", present under the full owner
	signRRs := rrs
	ownerCount, zoneCount := len(ownerLabels), len(zoneLabels)
	wildcard := ownerCount > zoneCount && rng.IntN(4) == 0
	if wildcard {
		keep := zoneCount + rng.IntN(ownerCount-zoneCount) // labels kept: zoneCount .. ownerCount-1
		if keep == 0 {
			wildcard = false // "*." at the root: the library cannot sign it
		} else {
			wname := "*." + lastLabels(owner, keep)
			signRRs = cloneRRs(rrs)
			for _, rr := range signRRs {
				rr.Header().Name = wname
			}
			b.class += "/wildcard"
		}
	}
	if b.signer != nil {
		if err := sig.Sign(b.signer, signRRs); err != nil {
			return nil, fmt.Errorf("library Sign (%s): %w", b.class, err)
		}
	} else {
		// no private exponent exists: a full-width random "signature"
		tmp := cloneSig(sig)
		cs := &captureSigner{}
		tmp.Algorithm = dns.ED25519
		if err := tmp.Sign(cs, signRRs); err != nil {
			return nil, err
		}
		sig.Hdr, sig.TypeCovered, sig.Labels = tmp.Hdr, tmp.TypeCovered, tmp.Labels
		sig.Signature = b64(fill(rng, (b.mod.Bits+7)/8))
	}
	sig.Hdr.Name = owner
	sig.Hdr.Ttl = ttl
	b.sig = sig

	// what is judged is what the wire carries
	wire, _, err := rrsToJ(rrs)
	if err != nil {
		return nil, err
	}
	b.rrs, err = buildRRs(wire, false)
	if err != nil {
		return nil, err
	}
	return b, nil
}

func hashLen(alg uint8) int {
	switch alg {
	case dns.RSASHA1, dns.RSASHA1NSEC3SHA1:
		return 20
	case dns.RSASHA256:
		return 32
	case dns.RSASHA512:
		return 64
	}
	return 0
}

var probeOutOfDomain = os.Getenv("VERIF_C14_PROBE") != ""

type mutant struct {
	name       string
	key        *dns.DNSKEY
	sig        *dns.RRSIG
	rrs        []dns.RR
	unpackable bool
}

func (b *base) sigBytes() []byte {
	raw, _ := b64dec(b.sig.Signature)
	return raw
}

func (b *base) withSig(name string, raw []byte) mutant {
	s := cloneSig(b.sig)
	s.Signature = b64(raw)
	return mutant{name: name, key: b.key, sig: s, rrs: b.rrs}
}

func (b *base) withSigText(name, text string) mutant {
	s := cloneSig(b.sig)
	s.Signature = text
	return mutant{name: name, key: b.key, sig: s, rrs: b.rrs}
}

func (b *base) withSigF(name string, f func(s *dns.RRSIG)) mutant {
	s := cloneSig(b.sig)
	f(s)
	return mutant{name: name, key: b.key, sig: s, rrs: b.rrs}
}

func (b *base) withKeyF(name string, f func(k *dns.DNSKEY)) mutant {
	k := cloneKey(b.key)
	f(k)
	return mutant{name: name, key: k, sig: b.sig, rrs: b.rrs}
}

func (b *base) withRRsF(name string, f func(rrs []dns.RR) []dns.RR) mutant {
	return mutant{name: name, key: b.key, sig: b.sig, rrs: f(cloneRRs(b.rrs))}
}

func curveOrder(alg uint8) (*big.Int, int) {
	if alg == dns.ECDSAP256SHA256 {
		return elliptic.P256().Params().N, 32
	}
	return elliptic.P384().Params().N, 48
}

// mutations lists every variant of a base that is judged.
func (w *world) mutations(rng *rand.Rand, b *base) []mutant {
	var out []mutant
	raw := b.sigBytes()
	alg := b.sig.Algorithm
	out = append(out, mutant{name: "none", key: b.key, sig: b.sig, rrs: b.rrs})

	// ---- signature octets
	for i := 0; i < 3 && len(raw) > 0; i++ {
		f := append([]byte(nil), raw...)
		f[rng.IntN(len(f))] ^= 1 << rng.UintN(8)
		out = append(out, b.withSig("sig-bitflip", f))
	}
	if len(raw) > 1 {
		out = append(out, b.withSig("sig-truncated-1", raw[:len(raw)-1]))
		out = append(out, b.withSig("sig-truncated-front", raw[1:]))
		out = append(out, b.withSig("sig-truncated-half", raw[:len(raw)/2]))
	}
	out = append(out, b.withSig("sig-empty", nil))
	out = append(out, b.withSig("sig-extended-1", append(append([]byte(nil), raw...), byte(rng.UintN(256)))))
	out = append(out, b.withSig("sig-extended-zero", append(append([]byte(nil), raw...), 0)))
	out = append(out, b.withSig("sig-leading-zero", append([]byte{0}, raw...)))
	out = append(out, b.withSig("sig-leading-zeros-2", append([]byte{0, 0}, raw...)))
	out = append(out, b.withSig("sig-all-zero", make([]byte, len(raw))))
	out = append(out, b.withSig("sig-random", fill(rng, len(raw))))
	// base64 spellings of the same signature
	out = append(out, b.withSigText("sig-b64-wrapped", wrapEvery(b.sig.Signature, 1+rng.IntN(70), "\r\n")))
	out = append(out, b.withSigText("sig-b64-foreign-char", b.sig.Signature[:len(b.sig.Signature)/2]+"*"+b.sig.Signature[len(b.sig.Signature)/2:]))
	out = append(out, b.withSigText("sig-b64-no-padding", strings.TrimRight(b.sig.Signature, "=")+"A"))
	if rng.IntN(40) == 0 {
		out = append(out, b.withSig("sig-huge", fill(rng, 60000)))
	}

	switch alg {
	case dns.ECDSAP256SHA256, dns.ECDSAP384SHA384:
		N, size := curveOrder(alg)
		if len(raw) == 2*size {
			r, s := raw[:size], raw[size:]
			// r and s each zero-prefixed: 2·size+2 octets, same integers
			pad := append(append(append([]byte{0}, r...), 0), s...)
			out = append(out, b.withSig("ecdsa-pad-both", pad))
			pad4 := append(append(append([]byte{0, 0}, r...), 0, 0), s...)
			out = append(out, b.withSig("ecdsa-pad-both-2", pad4))
			// leading zero octets of r and s dropped when they happen to have them
			if r[0] == 0 && s[0] == 0 {
				out = append(out, b.withSig("ecdsa-stripped-zeros", append(append([]byte(nil), r[1:]...), s[1:]...)))
			}
			// (r, n-s) is the other valid signature for the same message
			sNeg := new(big.Int).Sub(N, new(big.Int).SetBytes(s))
			hi := make([]byte, 2*size)
			copy(hi, r)
			sNeg.FillBytes(hi[size:])
			out = append(out, b.withSig("ecdsa-negated-s", hi))
			// r+n or s+n do not fit the width; s=0, r=0, s=n
			z := append([]byte(nil), raw...)
			for i := size; i < 2*size; i++ {
				z[i] = 0
			}
			out = append(out, b.withSig("ecdsa-s-zero", z))
			sn := append([]byte(nil), raw...)
			N.FillBytes(sn[size:])
			out = append(out, b.withSig("ecdsa-s-equals-order", sn))
			sw := append(append([]byte(nil), s...), r...)
			out = append(out, b.withSig("ecdsa-r-s-swapped", sw))
		}
	case dns.RSASHA1, dns.RSASHA1NSEC3SHA1, dns.RSASHA256, dns.RSASHA512:
		k := (b.mod.Bits + 7) / 8
		if len(raw) == k && b.valid {
			// s+n: the same residue, representable in the same width only when it fits
			sp := new(big.Int).Add(new(big.Int).SetBytes(raw), b.mod.N)
			if (sp.BitLen()+7)/8 <= k {
				out = append(out, b.withSig("rsa-sig-plus-modulus", i2osp(sp, k)))
			} else {
				out = append(out, b.withSig("rsa-sig-plus-modulus-wider", sp.Bytes()))
			}
			// n-s: the negated residue
			out = append(out, b.withSig("rsa-sig-negated", i2osp(new(big.Int).Sub(b.mod.N, new(big.Int).SetBytes(raw)), k)))
		}
		out = append(out, b.withSig("rsa-sig-equals-modulus", i2osp(b.mod.N, k)))
		out = append(out, b.withSig("rsa-sig-one", i2osp(big1, k)))
	}

	// ---- RRSIG fields
	out = append(out, b.withSigF("sig-wrong-tag", func(s *dns.RRSIG) { s.KeyTag += uint16(1 + rng.IntN(3)) }))
	out = append(out, b.withSigF("sig-wrong-algorithm", func(s *dns.RRSIG) {
		sib := map[uint8]uint8{5: 7, 7: 5, 8: 10, 10: 8, 13: 14, 14: 13, 15: 16}
		s.Algorithm = sib[s.Algorithm]
	}))
	out = append(out, b.withSigF("sig-wrong-class", func(s *dns.RRSIG) { s.Hdr.Class ^= 2 }))
	out = append(out, b.withSigF("sig-wrong-type-covered", func(s *dns.RRSIG) { s.TypeCovered ^= 1 << rng.UintN(4) }))
	out = append(out, b.withSigF("sig-labels-plus-1", func(s *dns.RRSIG) { s.Labels++ }))
	out = append(out, b.withSigF("sig-labels-max", func(s *dns.RRSIG) { s.Labels = 255 }))
	if b.sig.Labels > 0 {
		out = append(out, b.withSigF("sig-labels-minus-1", func(s *dns.RRSIG) { s.Labels-- }))
		out = append(out, b.withSigF("sig-labels-zero", func(s *dns.RRSIG) { s.Labels = 0 }))
	}
	out = append(out, b.withSigF("sig-origttl-changed", func(s *dns.RRSIG) { s.OrigTtl ^= 1 << rng.UintN(32) }))
	out = append(out, b.withSigF("sig-expiration-changed", func(s *dns.RRSIG) { s.Expiration ^= 1 << rng.UintN(32) }))
	out = append(out, b.withSigF("sig-inception-changed", func(s *dns.RRSIG) { s.Inception ^= 1 << rng.UintN(32) }))
	out = append(out, b.withSigF("sig-header-ttl-changed", func(s *dns.RRSIG) { s.Hdr.Ttl += 7 }))
	if hasLetter(b.sig.SignerName) {
		out = append(out, b.withSigF("sig-signer-case", func(s *dns.RRSIG) { s.SignerName = flipCase(rng, s.SignerName) }))
	}
	if hasLetter(b.sig.Hdr.Name) {
		out = append(out, b.withSigF("sig-owner-case", func(s *dns.RRSIG) { s.Hdr.Name = flipCase(rng, s.Hdr.Name) }))
	}
	out = append(out, b.withSigF("sig-signer-other-zone", func(s *dns.RRSIG) { s.SignerName = "other-" + s.SignerName }))
	if b.zone != "." {
		out = append(out, b.withSigF("sig-signer-parent", func(s *dns.RRSIG) { s.SignerName = lastLabels(s.SignerName, dns.CountLabel(s.SignerName)-1) }))
		out = append(out, b.withSigF("sig-signer-child", func(s *dns.RRSIG) { s.SignerName = "sub." + s.SignerName }))
	}
	out = append(out, b.withSigF("sig-owner-other", func(s *dns.RRSIG) { s.Hdr.Name = "x" + s.Hdr.Name }))

	// ---- key
	out = append(out, b.withKeyF("key-flags-toggle-sep", func(k *dns.DNSKEY) { k.Flags ^= 1 }))
	out = append(out, b.withKeyF("key-protocol-changed", func(k *dns.DNSKEY) { k.Protocol = uint8(rng.UintN(256)) | 4 }))
	out = append(out, b.withKeyF("key-wrong-class", func(k *dns.DNSKEY) { k.Hdr.Class ^= 2 }))
	out = append(out, b.withKeyF("key-other-owner", func(k *dns.DNSKEY) { k.Hdr.Name = "other-" + k.Hdr.Name }))
	if hasLetter(b.key.Hdr.Name) {
		out = append(out, b.withKeyF("key-owner-case", func(k *dns.DNSKEY) { k.Hdr.Name = flipCase(rng, k.Hdr.Name) }))
	}
	out = append(out, b.withKeyF("key-ttl-changed", func(k *dns.DNSKEY) { k.Hdr.Ttl++ }))
	// same key material, other spelling of the base64: tag and verdict must not move
	out = append(out, b.withKeyF("key-b64-wrapped", func(k *dns.DNSKEY) { k.PublicKey = wrapEvery(k.PublicKey, 1+rng.IntN(80), "\n") }))
	out = append(out, b.withKeyF("key-b64-padding-midstream", func(k *dns.DNSKEY) { k.PublicKey = k.PublicKey[:8] + "AA==" + k.PublicKey[8:] }))
	out = append(out, b.withKeyF("key-b64-foreign-char", func(k *dns.DNSKEY) { k.PublicKey = k.PublicKey[:5] + "!" + k.PublicKey[5:] }))
	out = append(out, b.withKeyF("key-bitflip", func(k *dns.DNSKEY) {
		p := append([]byte(nil), b.pubRaw...)
		p[rng.IntN(len(p))] ^= 1 << rng.UintN(8)
		k.PublicKey = b64(p)
	}))
	// bit-flipped key with the signature's tag field following it (reaches the crypto with a wrong key)
	{
		p := append([]byte(nil), b.pubRaw...)
		p[len(p)-1-rng.IntN(min(len(p), 16))] ^= 1 << rng.UintN(8)
		k := cloneKey(b.key)
		k.PublicKey = b64(p)
		s := cloneSig(b.sig)
		s.KeyTag, _ = libKeyTag(k)
		out = append(out, mutant{name: "key-bitflip-tag-follows", key: k, sig: s, rrs: b.rrs})
	}
	out = append(out, b.withKeyF("key-truncated", func(k *dns.DNSKEY) { k.PublicKey = b64(b.pubRaw[:len(b.pubRaw)-1]) }))
	out = append(out, b.withKeyF("key-extended", func(k *dns.DNSKEY) { k.PublicKey = b64(append(append([]byte(nil), b.pubRaw...), 0)) }))
	out = append(out, b.withKeyF("key-empty", func(k *dns.DNSKEY) { k.PublicKey = "" }))
	// key material cut / re-framed at its structural boundaries, tag following
	out = append(out, w.keyVariantMutants(rng, b)...)
	if rng.IntN(40) == 0 {
		out = append(out, b.withKeyF("key-huge", func(k *dns.DNSKEY) { k.PublicKey = b64(fill(rng, 5000+rng.IntN(60000))) }))
	}
	// the same material under every other verifying algorithm number, tag following
	{
		k := cloneKey(b.key)
		k.Algorithm = supportedAlgs[rng.IntN(len(supportedAlgs))]
		s := cloneSig(b.sig)
		s.Algorithm = k.Algorithm
		s.KeyTag, _ = libKeyTag(k)
		if k.Algorithm != b.key.Algorithm {
			out = append(out, mutant{name: "key-and-sig-other-algorithm", key: k, sig: s, rrs: b.rrs})
		}
		k2 := cloneKey(b.key)
		k2.Algorithm = uint8(rng.UintN(256))
		s2 := cloneSig(b.sig)
		s2.Algorithm = k2.Algorithm
		s2.KeyTag, _ = libKeyTag(k2)
		if !isSupported(k2.Algorithm) {
			out = append(out, mutant{name: "key-and-sig-unsupported-algorithm", key: k2, sig: s2, rrs: b.rrs})
		}
	}
	if rng.IntN(50) == 0 {
		out = append(out, mutant{name: "nil-key", key: nil, sig: b.sig, rrs: b.rrs})
		out = append(out, mutant{name: "nil-sig", key: b.key, sig: nil, rrs: b.rrs})
		out = append(out, mutant{name: "empty-rrset", key: b.key, sig: b.sig, rrs: nil})
	}

	// ---- RRset
	out = append(out, b.withRRsF("rr-ttl-changed", func(rrs []dns.RR) []dns.RR {
		for _, rr := range rrs {
			rr.Header().Ttl = rr.Header().Ttl/2 + 1
		}
		return rrs
	}))
	if len(b.rrs) > 1 {
		out = append(out, b.withRRsF("rr-reordered", func(rrs []dns.RR) []dns.RR {
			rng.Shuffle(len(rrs), func(i, j int) { rrs[i], rrs[j] = rrs[j], rrs[i] })
			rrs[0], rrs[len(rrs)-1] = rrs[len(rrs)-1], rrs[0]
			return rrs
		}))
		out = append(out, b.withRRsF("rr-removed", func(rrs []dns.RR) []dns.RR {
			// remove every copy of one record, so the set really shrinks
			victim := rrs[rng.IntN(len(rrs))].String()
			var keep []dns.RR
			for _, rr := range rrs {
				if rr.String() != victim {
					keep = append(keep, rr)
				}
			}
			if len(keep) == 0 {
				return rrs[:1]
			}
			return keep
		}))
	}
	out = append(out, b.withRRsF("rr-duplicated", func(rrs []dns.RR) []dns.RR {
		return append(rrs, dns.Copy(rrs[rng.IntN(len(rrs))]), dns.Copy(rrs[0]))
	}))
	out = append(out, b.withRRsF("rr-added", func(rrs []dns.RR) []dns.RR {
		h := rrs[0].Header()
		extra, err := genRRset(rng, b.gen, h.Name, h.Class, h.Ttl, 1)
		if err != nil {
			return rrs
		}
		return append(rrs, extra[0])
	}))
	if hasLetter(b.rrs[0].Header().Name) {
		out = append(out, b.withRRsF("rr-owner-case-all", func(rrs []dns.RR) []dns.RR {
			n := flipCase(rng, rrs[0].Header().Name)
			for _, rr := range rrs {
				rr.Header().Name = n
			}
			return rrs
		}))
		if len(b.rrs) > 1 {
			out = append(out, b.withRRsF("rr-owner-case-one", func(rrs []dns.RR) []dns.RR {
				rrs[len(rrs)-1].Header().Name = flipCase(rng, rrs[0].Header().Name)
				return rrs
			}))
		}
	}
	out = append(out, b.withRRsF("rr-wrong-class", func(rrs []dns.RR) []dns.RR {
		for _, rr := range rrs {
			rr.Header().Class ^= 2
		}
		return rrs
	}))
	out = append(out, b.withRRsF("rr-owner-other", func(rrs []dns.RR) []dns.RR {
		for _, rr := range rrs {
			rr.Header().Name = "x" + rr.Header().Name
		}
		return rrs
	}))
	// RDATA octets: flip one bit of the packed RDATA of one record
	if m, ok := flipRdata(rng, b, -1); ok {
		out = append(out, m)
	}
	// embedded-name case: folded for the RFC 4034 §6.2 list, significant elsewhere
	if m, ok := rdataNameCase(rng, b); ok {
		out = append(out, m)
	}
	if b.rrs[0].Header().Rrtype == dns.TypeTXT {
		out = append(out, mutant{name: "rr-unpackable", key: b.key, sig: b.sig, rrs: b.rrs, unpackable: true})
	}

	// Out-of-domain probes (never part of a verdict run): names no wire message
	// can put into these structs.
	if probeOutOfDomain && b.zone != "." {
		k := cloneKey(b.key)
		s := cloneSig(b.sig)
		k.Hdr.Name = strings.TrimSuffix(k.Hdr.Name, ".")
		s.SignerName = strings.TrimSuffix(s.SignerName, ".")
		out = append(out, mutant{name: "probe-names-without-trailing-dot", key: k, sig: s, rrs: b.rrs})
		if i := strings.IndexAny(b.key.Hdr.Name, "kK"); i >= 0 {
			k2 := cloneKey(b.key)
			k2.Hdr.Name = k2.Hdr.Name[:i] + "\u212a" + k2.Hdr.Name[i+1:] // KELVIN SIGN folds to k
			out = append(out, mutant{name: "probe-unicode-fold-in-key-owner", key: k2, sig: b.sig, rrs: b.rrs})
		}
	}

	// ---- containment: owner inside the signer only by string suffix
	// ("evilexample.com." under "example.com."), with key and signature that
	// really verify — the signer is the suffix zone itself.
	return out
}

func isSupported(alg uint8) bool {
	for _, a := range supportedAlgs {
		if a == alg {
			return true
		}
	}
	return false
}

// flipRdata flips one bit inside the RDATA of one record (pos<0: random
// position) and keeps the result only when it still unpacks.
func flipRdata(rng *rand.Rand, b *base, pos int) (mutant, bool) {
	i := rng.IntN(len(b.rrs))
	rr := b.rrs[i]
	buf := make([]byte, dns.Len(rr)+16)
	n, err := dns.PackRR(rr, buf, 0, nil, false)
	if err != nil {
		return mutant{}, false
	}
	buf = buf[:n]
	// rdata starts after owner + 10
	_, off, err := dns.UnpackDomainName(buf, 0)
	if err != nil || off+10 >= len(buf) {
		return mutant{}, false
	}
	start := off + 10
	p := pos
	if p < 0 {
		p = rng.IntN(len(buf) - start)
	}
	if start+p >= len(buf) {
		return mutant{}, false
	}
	buf[start+p] ^= 1 << rng.UintN(8)
	nrr, _, err := dns.UnpackRR(buf, 0)
	if err != nil || nrr.String() == rr.String() {
		return mutant{}, false
	}
	rrs := cloneRRs(b.rrs)
	rrs[i] = nrr
	return mutant{name: "rr-rdata-bitflip", key: b.key, sig: b.sig, rrs: rrs}, true
}

// rdataNameCase flips the case of a domain name embedded in the RDATA.
func rdataNameCase(rng *rand.Rand, b *base) (mutant, bool) {
	rrs := cloneRRs(b.rrs)
	rr := rrs[rng.IntN(len(rrs))]
	fl := func(p *string) bool {
		if !hasLetter(*p) {
			return false
		}
		*p = flipCase(rng, *p)
		return true
	}
	ok := false
	name := "rr-rdata-name-case-folded"
	switch x := rr.(type) {
	case *dns.NS:
		ok = fl(&x.Ns)
	case *dns.CNAME:
		ok = fl(&x.Target)
	case *dns.PTR:
		ok = fl(&x.Ptr)
	case *dns.DNAME:
		ok = fl(&x.Target)
	case *dns.MX:
		ok = fl(&x.Mx)
	case *dns.SOA:
		ok = fl(&x.Ns)
		ok = fl(&x.Mbox) || ok
	case *dns.SRV:
		ok = fl(&x.Target)
	case *dns.NAPTR:
		ok = fl(&x.Replacement)
	case *dns.RP:
		ok = fl(&x.Txt)
	case *dns.MINFO:
		ok = fl(&x.Email)
	case *dns.PX:
		ok = fl(&x.Mapx400)
	case *dns.KX:
		ok = fl(&x.Exchanger)
	case *dns.RT:
		ok = fl(&x.Host)
	case *dns.AFSDB:
		ok = fl(&x.Hostname)
	case *dns.MB:
		ok = fl(&x.Mb)
	case *dns.MG:
		ok = fl(&x.Mg)
	case *dns.MR:
		ok = fl(&x.Mr)
	case *dns.MD:
		ok = fl(&x.Md)
	case *dns.MF:
		ok = fl(&x.Mf)
	// names RFC 6840 §5.1 leaves case-significant
	case *dns.NSEC:
		ok, name = fl(&x.NextDomain), "rr-rdata-name-case-significant"
	case *dns.SVCB:
		ok, name = fl(&x.Target), "rr-rdata-name-case-significant"
	case *dns.HTTPS:
		ok, name = fl(&x.Target), "rr-rdata-name-case-significant"
	case *dns.LP:
		ok, name = fl(&x.Fqdn), "rr-rdata-name-case-significant"
	case *dns.TALINK:
		ok, name = fl(&x.PreviousName), "rr-rdata-name-case-significant"
	case *dns.NSAPPTR:
		ok, name = fl(&x.Ptr), "rr-rdata-name-case-significant"
	}
	if !ok {
		return mutant{}, false
	}
	return mutant{name: name, key: b.key, sig: b.sig, rrs: rrs}, true
}

func (w *world) judgeMutant(st *stats, unit int, sub *int, b *base, m mutant) {
	c := &jCase{Family: "verify", Unit: unit, Sub: *sub, Seed: w.r.Seed, Mut: m.name, Class: b.class,
		Key: keyToJ(m.key), Sig: sigToJ(m.sig), Unpackable: m.unpackable}
	*sub++
	if len(m.rrs) > 0 {
		wire, text, err := rrsToJ(m.rrs)
		if err != nil {
			st.count("verify_mutant_unpackable_skipped", 1)
			return
		}
		c.RRs, c.RRText = wire, text
	}
	judgeVerify(st, c)
}

// verifySpecs enumerates (algorithm, modulus, exponent, encoding) so that every
// modulus × exponent pair appears; the unit index walks the list.
func (w *world) verifySpec(unit int, rng *rand.Rand) baseSpec {
	rsaAlgs := []uint8{dns.RSASHA1, dns.RSASHA1NSEC3SHA1, dns.RSASHA256, dns.RSASHA512}
	switch unit % 8 {
	case 0:
		return baseSpec{alg: dns.ECDSAP256SHA256}
	case 1:
		return baseSpec{alg: dns.ECDSAP384SHA384}
	case 2:
		return baseSpec{alg: dns.ED25519}
	}
	// RSA: walk modulus × exponent, rotate algorithm and encoding
	i := unit/8*5 + (unit%8 - 3)
	mods := w.pool.Mods
	nExp := len(mods[0].Exps)
	m := mods[i%len(mods)]
	x := m.Exps[(i/len(mods))%nExp]
	alg := rsaAlgs[(i+i/len(mods)+i/(len(mods)*nExp))%4]
	enc := encCanonical
	switch rng.IntN(8) {
	case 0:
		enc = encLongExpLen
	case 1:
		enc = encLeadZeroExp
	case 2:
		enc = encLeadZeroMod
	case 3:
		if rng.IntN(3) == 0 {
			enc = encLeadZeroBoth
		}
	}
	return baseSpec{alg: alg, mod: m, expName: x.Name, enc: enc}
}

func (w *world) unitVerify(st *stats, unit int) {
	rng := w.r.RandN("verify", unit)
	spec := w.verifySpec(unit, rng)
	b, err := w.makeBase(rng, spec)
	if err != nil {
		st.inconclusive("verify base: " + err.Error())
		return
	}
	st.count("verify_bases", 1)
	if b.valid {
		st.count("verify_bases_with_valid_signature", 1)
	}
	sub := 0
	for _, m := range w.mutations(rng, b) {
		w.judgeMutant(st, unit, &sub, b, m)
	}
	if unit < 3 {
		st.samples = append(st.samples, map[string]any{"family": "verify", "class": b.class, "key": b.key.String(), "sig": b.sig.String(), "rr0": b.rrs[0].String()})
	}
}

// unitSuffix: a genuine signature whose owner is inside the signer only as a
// string suffix (the documented label-boundary strictness).
func (w *world) unitSuffix(st *stats, unit int) {
	rng := w.r.RandN("suffix", unit)
	alg := []uint8{dns.ED25519, dns.ECDSAP256SHA256, dns.RSASHA256}[unit%3]
	spec := baseSpec{alg: alg}
	if alg == dns.RSASHA256 {
		in := w.pool.modsIn(1024, 2048)
		spec.mod, spec.expName = in[rng.IntN(len(in))], "f4"
	}
	b, err := w.makeBase(rng, spec)
	if err != nil || b.zone == "." || strings.HasPrefix(b.zone, `\`) {
		st.count("suffix_units_skipped", 1)
		return
	}
	// Re-sign under an owner that merely ends in the zone's text.
	var owner string
	kind := "suffix-no-boundary"
	if unit%2 == 0 {
		owner = "evil" + b.zone // evilexample.com. under example.com.
	} else {
		owner = `a\.` + b.zone // an escaped dot is not a label separator
		kind = "suffix-escaped-dot"
	}
	rrs := cloneRRs(b.rrs)
	for _, rr := range rrs {
		rr.Header().Name = owner
	}
	sig := &dns.RRSIG{Algorithm: alg, OrigTtl: b.sig.OrigTtl, Expiration: b.sig.Expiration, Inception: b.sig.Inception,
		KeyTag: b.sig.KeyTag, SignerName: b.sig.SignerName}
	if err := sig.Sign(b.signer, rrs); err != nil {
		st.count("suffix_units_skipped", 1)
		return
	}
	wire, _, err := rrsToJ(rrs)
	if err != nil {
		st.count("suffix_units_skipped", 1)
		return
	}
	nrrs, err := buildRRs(wire, false)
	if err != nil {
		st.count("suffix_units_skipped", 1)
		return
	}
	sig.Hdr.Name = nrrs[0].Header().Name
	sub := 0
	nb := *b
	nb.sig, nb.rrs = sig, nrrs
	w.judgeMutant(st, unit, &sub, &nb, mutant{name: kind, key: b.key, sig: sig, rrs: nrrs})
	// and the genuine in-zone sibling for contrast
	w.judgeMutant(st, unit, &sub, b, mutant{name: "none", key: b.key, sig: b.sig, rrs: b.rrs})
}

// unitEveryByte: for one base per algorithm family, flip every octet of the
// signature and of the public key, and every RDATA octet of the first record.
func (w *world) unitEveryByte(st *stats, unit int) {
	rng := w.r.RandN("everybyte", unit)
	fams := []baseSpec{
		{alg: dns.ECDSAP256SHA256}, {alg: dns.ECDSAP384SHA384}, {alg: dns.ED25519},
		{alg: dns.RSASHA1, expName: "f4"}, {alg: dns.RSASHA1NSEC3SHA1, expName: "e3"},
		{alg: dns.RSASHA256, expName: "f5"}, {alg: dns.RSASHA512, expName: "f4"}, {alg: dns.RSASHA256, expName: "e64"},
	}
	spec := fams[unit%len(fams)]
	if spec.expName != "" {
		in := w.pool.modsIn(1024, 2048)
		spec.mod = in[(unit/len(fams))%len(in)]
	}
	b, err := w.makeBase(rng, spec)
	if err != nil {
		st.inconclusive("everybyte base: " + err.Error())
		return
	}
	sub := 0
	w.judgeMutant(st, unit, &sub, b, mutant{name: "none", key: b.key, sig: b.sig, rrs: b.rrs})
	raw := b.sigBytes()
	for i := range raw {
		f := append([]byte(nil), raw...)
		f[i] ^= 1 << rng.UintN(8)
		w.judgeMutant(st, unit, &sub, b, b.withSig("sig-flip-every-octet", f))
	}
	st.count("everybyte_signature_octets", int64(len(raw)))
	for i := range b.pubRaw {
		p := append([]byte(nil), b.pubRaw...)
		p[i] ^= 1 << rng.UintN(8)
		k := cloneKey(b.key)
		k.PublicKey = b64(p)
		s := cloneSig(b.sig)
		s.KeyTag, _ = libKeyTag(k)
		w.judgeMutant(st, unit, &sub, b, mutant{name: "key-flip-every-octet-tag-follows", key: k, sig: s, rrs: b.rrs})
	}
	st.count("everybyte_key_octets", int64(len(b.pubRaw)))
	for p := 0; p < 600; p++ {
		one := *b
		one.rrs = b.rrs[:1]
		m, ok := flipRdata(rng, &one, p)
		if !ok {
			continue
		}
		m.rrs = append(m.rrs, cloneRRs(b.rrs[1:])...)
		m.name = "rr-flip-every-rdata-octet"
		w.judgeMutant(st, unit, &sub, b, m)
		st.count("everybyte_rdata_octets", 1)
	}
}
