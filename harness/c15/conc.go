package main

// Concurrent phases (run in the -race build as a child process):
//
//  1. the differential of main.go over fresh cases, on 8 goroutines sharing
//     the pool, so the shims see generated shapes under the race detector;
//  2. marker rounds at GOMAXPROCS 2 / 6 / 16: 16 goroutines pack messages
//     tagged with their own (goroutine, counter) marker through TryPack,
//     PackClone, the response writer and cache-entry construction, mixing
//     size classes so pooled buffers are reused across sizes; every consumer
//     checks — inside the borrow — that the bytes are the library encoding
//     of its own message and stay so while it holds them; clones are kept
//     and re-verified; a few shared, read-only messages are packed by all
//     goroutines at once (any write into them is a data race).

import (
	"bytes"
	"crypto/sha256"
	"fmt"
	"net"
	"runtime"
	"strings"
	"sync"
	"time"

	"github.com/miekg/dns"
	"github.com/semihalev/sdns/internal/wire"
	"github.com/semihalev/sdns/middleware"
	"github.com/semihalev/sdns/middleware/cache"
	"github.com/semihalev/sdns/zzverif/vlib"
)

const concGoroutines = 16

func runConcChild(r *vlib.Run, corpus [][]byte) {
	// phase 1: parallel differential
	n := r.N(6000, 80000)
	const workers = 8
	var wg sync.WaitGroup
	for w := 0; w < workers; w++ {
		wg.Add(1)
		go func(w int) {
			defer wg.Done()
			c := newChecker(r, "rgen")
			c.keptCap = 1000
			runDifferential(r, c, "rgen", 0, n, workers, w, corpus)
		}(w)
	}
	wg.Wait()
	r.Count("conc_parallel_differential_cases", n)

	// phase 2: marker rounds
	ops := r.N(1000, 8000)
	for _, gm := range []int{2, 6, 16} {
		runMarkerRound(r, gm, ops)
	}
}

type concCase struct {
	Phase  string `json:"phase"`
	Index  int    `json:"index"` // GOMAXPROCS of the round
	Seed   uint64 `json:"seed"`
	Gid    int    `json:"goroutine"`
	Ctr    int    `json:"counter"`
	Op     string `json:"op"`
	Detail string `json:"detail,omitempty"`
	RefHex string `json:"library_wire_hex,omitempty"`
	GotHex string `json:"got_wire_hex,omitempty"`
}

func marker(gid, ctr int) string { return fmt.Sprintf("MK:%02d:%06d;", gid, ctr) }

// foreignMarker reports whether b shows a marker of another goroutine.
func foreignMarker(b []byte, gid int) (int, bool) {
	for i := 0; i+5 < len(b); i++ {
		if b[i] == 'M' && b[i+1] == 'K' && b[i+2] == ':' && b[i+3] >= '0' && b[i+3] <= '9' && b[i+4] >= '0' && b[i+4] <= '9' {
			g := int(b[i+3]-'0')*10 + int(b[i+4]-'0')
			if g != gid {
				return g, true
			}
		}
	}
	return 0, false
}

var concSizes = []int{0, 0, 300, 700, 1200, 2500, 3600, 3950, 4050, 4090, 4096, 4097, 4200, 9000}

func markerMsg(g *gen, gid, ctr int) *dns.Msg {
	mk := marker(gid, ctr)
	zone := fmt.Sprintf("g%02d.mark.test.", gid)
	qname := fmt.Sprintf("c%d.%s", ctr, zone)
	g.names = append(g.names[:0], zone, qname)
	g.lastPad = nil
	m := new(dns.Msg)
	m.Id = uint16(ctr)
	m.Response = true
	m.RecursionDesired = g.chance(50)
	m.RecursionAvailable = true
	m.AuthenticatedData = g.chance(30)
	m.Compress = g.chance(70)
	m.Question = []dns.Question{{Name: qname, Qtype: dns.TypeTXT, Qclass: dns.ClassINET}}
	rdl := func() uint16 { return uint16(g.uintBits(16)) }
	m.Answer = append(m.Answer,
		&dns.TXT{Hdr: dns.RR_Header{Name: qname, Rrtype: dns.TypeTXT, Class: dns.ClassINET, Ttl: 60, Rdlength: rdl()}, Txt: []string{mk, mk + mk}},
		&dns.A{Hdr: dns.RR_Header{Name: qname, Rrtype: dns.TypeA, Class: dns.ClassINET, Ttl: 60, Rdlength: rdl()},
			A: net.IPv4(10, byte(gid), byte(ctr>>8), byte(ctr)).To4()})
	if g.chance(40) {
		m.Ns = append(m.Ns, &dns.NS{Hdr: dns.RR_Header{Name: zone, Rrtype: dns.TypeNS, Class: dns.ClassINET, Ttl: 60, Rdlength: rdl()}, Ns: "ns." + zone})
		m.Ns = append(m.Ns, &dns.NSEC{Hdr: dns.RR_Header{Name: zone, Rrtype: dns.TypeNSEC, Class: dns.ClassINET, Ttl: 60, Rdlength: rdl()},
			NextDomain: "z." + zone, TypeBitMap: []uint16{dns.TypeA, dns.TypeTXT, dns.TypeRRSIG, dns.TypeNSEC, dns.TypeCAA}})
	}
	if g.chance(60) {
		if g.chance(30) {
			m.Rcode = 16 + g.rng.IntN(4000)
		}
		o := &dns.OPT{Hdr: dns.RR_Header{Name: ".", Rrtype: dns.TypeOPT, Class: 1232, Ttl: uint32(g.uintBits(32)), Rdlength: rdl()}}
		o.Option = append(o.Option, &dns.EDNS0_NSID{Code: dns.EDNS0NSID, Nsid: fmt.Sprintf("%x", mk)})
		if g.chance(50) {
			o.Option = append(o.Option, &dns.EDNS0_EDE{InfoCode: 3, ExtraText: mk})
		}
		m.Extra = append(m.Extra, o)
	}
	// filler that carries the marker, up to the size class
	target := concSizes[g.rng.IntN(len(concSizes))]
	if target > 0 {
		target += g.rng.IntN(3) - 1
	}
	for iter := 0; target > 0 && iter < 200; iter++ {
		rem := target - ulen(m)
		if rem < 40 {
			break
		}
		n := rem - (len(qname) + 2 + 10) // owner + fixed header
		if n > 1500 {
			n = 700 + g.rng.IntN(800)
		}
		var txt []string
		for n > 1 {
			k := n - 1
			if k > 255 {
				k = 255
			}
			s := strings.Repeat(mk, k/len(mk)+1)[:k]
			txt = append(txt, s)
			n -= k + 1
		}
		rr := &dns.TXT{Hdr: dns.RR_Header{Name: qname, Rrtype: dns.TypeTXT, Class: dns.ClassINET, Ttl: 60, Rdlength: rdl()}, Txt: txt}
		if g.chance(50) {
			m.Answer = append(m.Answer, rr)
		} else {
			m.Ns = append(m.Ns, rr)
		}
	}
	if target > 0 {
		g.padTo(m, target)
	}
	return m
}

type sharedMsg struct {
	m    *dns.Msg
	ref  []byte
	snap string
	view []byte // library encoding of the storable view (cache)
}

func buildShared(g *gen) []*sharedMsg {
	var out []*sharedMsg
	for i := 0; i < 4; i++ {
		m := markerMsg(g, 99, i)
		// make sure each is handled: library records only, ≤ 4096, and give
		// the library something it would write (OPT TTL, Rdlength)
		for ulen(m) > 4000 {
			m.Answer = m.Answer[:2]
			m.Ns = nil
		}
		if hasOPTInExtra(m) == 0 {
			m.Extra = append(m.Extra, &dns.OPT{Hdr: dns.RR_Header{Name: ".", Rrtype: dns.TypeOPT, Class: 4096, Ttl: 0xAB008000, Rdlength: 77}})
		}
		if i%2 == 1 {
			m.Rcode = dns.RcodeBadVers + i
		}
		m.Compress = i != 3
		cp, _ := deepCopyMsg(m)
		o := libPack(cp)
		if !o.ok() {
			continue
		}
		cp2, _ := deepCopyMsg(m)
		v := libPack(storableView(cp2))
		out = append(out, &sharedMsg{m: m, ref: o.b, snap: dumpMsg(m), view: v.b})
	}
	return out
}

func runMarkerRound(r *vlib.Run, gm, ops int) {
	prev := runtime.GOMAXPROCS(gm)
	defer runtime.GOMAXPROCS(prev)
	shared := buildShared(&gen{rng: r.RandN("conc-shared", gm)})
	var wg sync.WaitGroup
	for gid := 0; gid < concGoroutines; gid++ {
		wg.Add(1)
		go func(gid int) {
			defer wg.Done()
			markerWorker(r, gm, gid, ops, shared)
		}(gid)
	}
	wg.Wait()
	for i, s := range shared {
		if after := dumpMsg(s.m); after != s.snap {
			r.Violation("concurrent/shared-message-mutated/"+diffField(s.snap, after),
				"a message packed concurrently by several goroutines differs from its snapshot afterwards",
				concCase{Phase: "conc", Index: gm, Seed: r.Seed, Gid: -1, Ctr: i, Op: "shared", Detail: firstDiff(s.snap, after)})
		}
	}
	r.Count("conc_rounds", 1)
	r.Count(fmt.Sprintf("conc_round_gomaxprocs_%d", gm), 1)
}

type keptClone struct {
	b   []byte
	sum [32]byte
	cc  concCase
}

func markerWorker(r *vlib.Run, gm, gid, ops int, shared []*sharedMsg) {
	g := &gen{rng: r.RandN("conc", gm*1000+gid)}
	sk := &sink{remote: &net.UDPAddr{IP: net.IPv4(203, 0, 113, byte(gid)), Port: 5300 + gid}}
	chain := middleware.NewChain(nil)
	req := new(dns.Msg)
	req.SetQuestion("example.com.", dns.TypeA)
	var ring []keptClone
	verifyClone := func(k keptClone) {
		r.Count("conc_clones_reverified", 1)
		if sha256.Sum256(k.b) != k.sum {
			k.cc.GotHex = clipHex(k.b)
			r.Violation("concurrent/clone-changed-later", "bytes a goroutine owned changed while other goroutines packed", k.cc)
		}
	}
	report := func(cc concCase, sigBase, what string, ref, got []byte) {
		cc.RefHex, cc.GotHex = clipHex(ref), clipHex(got)
		if og, ok := foreignMarker(got, gid); ok {
			cc.Detail += fmt.Sprintf(" marker of goroutine %d visible", og)
			r.Violation("concurrent/foreign-marker/"+sigBase, what+" — and they carry another goroutine's marker", cc)
			return
		}
		r.Violation("concurrent/bytes-differ/"+sigBase, what, cc)
	}

	for ctr := 0; ctr < ops; ctr++ {
		m := markerMsg(g, gid, ctr)
		cp, _ := deepCopyMsg(m)
		ref := libPack(cp)
		if !ref.ok() {
			r.Count("conc_reference_failed", 1)
			continue
		}
		snap := dumpMsg(m)
		cc := concCase{Phase: "conc", Index: gm, Seed: r.Seed, Gid: gid, Ctr: ctr}
		r.Eval(1)
		op := g.rng.IntN(100)
		switch {
		case op < 45:
			cc.Op = "trypack"
			bad, changed, tail := false, false, 0
			var got []byte
			handled, err := wire.TryPack(m, func(b []byte) error {
				if !bytes.Equal(b, ref.b) {
					bad = true
					got = append([]byte(nil), b...)
				}
				// hold the borrow while others pack, then look again
				for i, n := 0, g.rng.IntN(4); i < n; i++ {
					runtime.Gosched()
				}
				if !bad && !bytes.Equal(b, ref.b) {
					changed = true
					got = append([]byte(nil), b...)
				}
				if cap(b) > len(b) {
					for _, x := range b[len(b):cap(b)] {
						if x != 0 {
							tail++
						}
					}
				}
				return nil
			})
			r.Count("conc_packs", 1)
			switch {
			case err != nil:
				r.Violation("concurrent/consumer-error-invented", "TryPack returned an error the consumer did not", cc)
			case handled && bad:
				report(cc, "trypack", "bytes handed to a concurrent consumer are not the library encoding of its message", ref.b, got)
			case handled && changed:
				report(cc, "borrowed-buffer-changed", "the borrowed buffer changed while the consumer still held it", ref.b, got)
			case handled:
				r.Count("conc_consumer_checks_equal", 1)
				r.Count("conc_size_"+sizeBucket(len(ref.b)), 1)
			default:
				r.Count("conc_declined", 1)
			}
			if tail > 0 {
				r.Violation("exposure/tail-readable", "the slice handed to a concurrent consumer exposes bytes of other packs behind its length", cc)
			}
		case op < 65:
			cc.Op = "packclone"
			b, err := wire.PackClone(m)
			r.Count("conc_packs", 1)
			if err != nil || !bytes.Equal(b, ref.b) {
				cc.Detail = fmt.Sprint("err=", err)
				report(cc, "packclone", "PackClone under concurrency differs from the library encoding", ref.b, b)
			} else {
				r.Count("conc_packclone_equal", 1)
				ring = append(ring, keptClone{b: b, sum: sha256.Sum256(ref.b), cc: cc})
				if len(ring) > 64 {
					verifyClone(ring[0])
					ring = ring[1:]
				}
			}
		case op < 80:
			cc.Op = "writer"
			sk.reset()
			chain.Reset(sk, req)
			chain.AllowDirectPack()
			err := chain.Writer.WriteMsg(m)
			chain.Finish()
			r.Count("conc_packs", 1)
			var got []byte
			switch {
			case len(sk.raw) == 1 && len(sk.msgs) == 0:
				got = sk.raw[0]
				r.Count("conc_writer_raw", 1)
			case len(sk.raw) == 0 && len(sk.msgs) == 1 && sk.msgPack[0].ok():
				got = sk.msgPack[0].b
				r.Count("conc_writer_fallback", 1)
			}
			if err != nil || !bytes.Equal(got, ref.b) {
				cc.Detail = fmt.Sprintf("err=%v raw=%d msgs=%d", err, len(sk.raw), len(sk.msgs))
				report(cc, "writer", "the reply written under concurrency differs from the library encoding", ref.b, got)
			} else {
				r.Count("conc_writer_equal", 1)
			}
			if sk.tailNZ > 0 {
				r.Violation("exposure/writer-tail-readable", "the slice written to the transport exposes bytes of other packs", cc)
			}
		case op < 90:
			cc.Op = "cache"
			cp2, _ := deepCopyMsg(m)
			want := libPack(storableView(cp2))
			e := cache.NewCacheEntryWithKey(m, time.Minute, 0, 0)
			stored, _ := cache.VerifC15EntryWire(e)
			r.Count("conc_packs", 1)
			if !want.ok() {
				// the storable view drops the OPT: an extended rcode is then unpackable
				if e != nil {
					r.Violation("concurrent/cache-entry-for-unpackable", "a cache entry was stored for a view the library cannot pack", cc)
				} else {
					r.Count("conc_cache_declined_unpackable", 1)
				}
			} else if e == nil || !bytes.Equal(stored, want.b) {
				report(cc, "cache", "the bytes stored for a cache entry under concurrency differ from the library encoding", want.b, stored)
			} else {
				r.Count("conc_cache_equal", 1)
				ring = append(ring, keptClone{b: stored, sum: sha256.Sum256(want.b), cc: cc})
			}
		default:
			cc.Op = "shared"
			if len(shared) == 0 {
				break
			}
			s := shared[g.rng.IntN(len(shared))]
			var bad []byte
			handled, _ := wire.TryPack(s.m, func(b []byte) error {
				if !bytes.Equal(b, s.ref) {
					bad = append([]byte(nil), b...)
				}
				return nil
			})
			if bad != nil {
				report(cc, "shared-trypack", "a shared message packed concurrently is not the library encoding", s.ref, bad)
			}
			if handled {
				r.Count("conc_shared_message_packs", 1)
			}
			b, err := wire.PackClone(s.m)
			if err != nil || !bytes.Equal(b, s.ref) {
				report(cc, "shared-packclone", "PackClone of a shared message differs from the library encoding", s.ref, b)
			}
			if g.chance(30) {
				e := cache.NewCacheEntryWithKey(s.m, time.Minute, 0, 0)
				stored, _ := cache.VerifC15EntryWire(e)
				if !bytes.Equal(stored, s.view) {
					report(cc, "shared-cache", "cache bytes of a shared message differ from the library encoding", s.view, stored)
				}
			}
			r.Count("conc_packs", 2)
		}
		if after := dumpMsg(m); after != snap {
			cc.Detail = firstDiff(snap, after)
			// the writer's fallback packs with the library, whose OPT write is legal
			if !(cc.Op == "writer" && len(sk.msgs) == 1) {
				r.Violation("concurrent/mutated/"+diffField(snap, after), "a message changed while packed under concurrency", cc)
			}
		}
		if ctr%16 == 0 {
			if used, stale := wire.VerifC15PoolProbe(); used {
				r.Count("conc_pool_probes", 1)
				if stale != "" {
					r.Violation("pool/stale-state/"+stale, "a pooled pack state at rest still carries "+stale+" of a message", cc)
				}
			}
		}
		if gid == 0 && ctr%199 == 0 {
			runtime.GC() // moves pooled states to the victim cache: more cross-P reuse
		}
	}
	for _, k := range ring {
		verifyClone(k)
	}
}
