// C15 — the pooled packer is byte-identical to the library and side-effect free.
//
// Plain entry binary: sequential differential (structured generation,
// realistic responses, mutated wire) through TryPack, PackClone, the response
// writer's direct-pack path, cache-entry construction and the negative-proof
// seal, each judged against dns.Msg.Pack on an alias-preserving deep copy and
// a field-by-field snapshot of the message. Then the race-detector build of
// this binary is run as a child (C15_MODE=conc) for the concurrent phases.
package main

import (
	"encoding/json"
	"fmt"
	"os"
	"path/filepath"
	"regexp"
	"sort"
	"strconv"
	"strings"
	"time"

	"github.com/miekg/dns"
	"github.com/semihalev/sdns/internal/wire"
	"github.com/semihalev/sdns/zzverif/vlib"
)

const rule = "distinct (record-type set, header flags/opcode/rcode class/question count, size bucket, OPT shape) signatures among messages the pooled packer handled and that compared byte-equal to dns.Msg.Pack of a deep copy"

var corpusLine = regexp.MustCompile(`^\[\]byte\((".*")\)\s*$`)

// loadCorpus reads every Go fuzz corpus file under <repo>/**/testdata/fuzz.
func loadCorpus() [][]byte {
	var files []string
	_ = filepath.Walk(vlib.RepoDir(), func(p string, info os.FileInfo, err error) error {
		if err != nil {
			return nil
		}
		if info.IsDir() {
			if info.Name() == ".git" {
				return filepath.SkipDir
			}
			return nil
		}
		if strings.Contains(p, "/testdata/fuzz/") {
			files = append(files, p)
		}
		return nil
	})
	sort.Strings(files)
	var out [][]byte
	for _, f := range files {
		b, err := os.ReadFile(f)
		if err != nil {
			continue
		}
		for _, line := range strings.Split(string(b), "\n") {
			if m := corpusLine.FindStringSubmatch(line); m != nil {
				if s, err := strconv.Unquote(m[1]); err == nil && len(s) >= 12 {
					out = append(out, []byte(s))
				}
			}
		}
	}
	return out
}

// genCase regenerates case idx of a phase; deterministic in (seed, phase, idx).
func genCase(r *vlib.Run, phase string, idx int, corpus [][]byte, cover func(string)) (*dns.Msg, meta) {
	g := &gen{rng: r.RandN(phase, idx)}
	switch k := g.rng.IntN(100); {
	case k < 60:
		return g.structured(cover)
	case k < 76:
		return g.realistic(cover)
	default:
		if m, mt, ok := g.fromWire(corpus, cover); ok {
			return m, mt
		}
		return g.structured(cover)
	}
}

// dirtyPool packs a full-size message of 0xFF octets so that whatever pooled
// buffer the next pack borrows carries adversarial stale content.
func dirtyPool() {
	n := &dns.NULL{Hdr: dns.RR_Header{Name: ".", Rrtype: dns.TypeNULL, Class: dns.ClassINET}, Data: strings.Repeat("\xff", 4000)}
	m := &dns.Msg{Answer: []dns.RR{n}}
	m.Id = 0xFFFF
	_, _ = wire.TryPack(m, func([]byte) error { return nil })
}

func runDifferential(r *vlib.Run, c *checker, phase string, from, to, stride, lane int, corpus [][]byte) {
	for idx := from + lane; idx < to; idx += stride {
		m, mt := genCase(r, phase, idx, corpus, c.coverKey)
		if idx%8 == 0 {
			dirtyPool()
		}
		c.checkCase(idx, m, mt)
		if len(c.kept) >= c.keptCap {
			c.verifyKept()
		}
		if lane == 0 {
			r.Progress("%s case %d/%d", phase, idx, to)
		}
	}
	c.verifyKept()
	r.Max("rr_types_handled", int64(len(c.typesHandled)))
}

func replay(r *vlib.Run, raw json.RawMessage, corpus [][]byte) {
	var rc replayCase
	if err := json.Unmarshal(raw, &rc); err != nil {
		r.Fatalf("replay case: %v", err)
	}
	if rc.Seed != 0 {
		r.Seed = rc.Seed
	}
	fmt.Printf("replay: phase=%s index=%d seed=%d step=%s\n", rc.Phase, rc.Index, r.Seed, rc.Step)
	switch rc.Phase {
	case "gen", "rgen":
		c := newChecker(r, rc.Phase)
		c.verbose = true
		m, mt := genCase(r, rc.Phase, rc.Index, corpus, c.coverKey)
		fmt.Printf("replay: %s meta=%+v\n", summarize(m), mt)
		dirtyPool()
		c.checkCase(rc.Index, m, mt)
		c.verifyKept()
	default:
		// a concurrent case is a schedule: re-run its round
		runMarkerRound(r, rc.Index, r.N(400, 4000))
	}
	if r.Violations() == 0 {
		fmt.Println("replay: no violation reproduced")
	}
}

func main() {
	initTypes()
	r := vlib.Start("C15", "exploration")
	corpus := loadCorpus()
	r.Assume("the reference encoder is github.com/miekg/dns Msg.Pack at the version pinned by /repo's go.mod, applied to an alias-preserving deep copy")
	r.Assume("where the library itself panics on a message (nil record in Extra, OPT-shaped wrapper, typed-nil record), a panic of the subject on the same message is the library's own behaviour and is not judged")
	r.Assume("a message the fast packer declines keeps the library's Pack semantics in the fallback, including Pack's write of the extended rcode into the caller's OPT")

	if raw := r.ReplayCase(); raw != nil {
		replay(r, raw, corpus)
		r.Finish(rule)
	}

	if os.Getenv("C15_MODE") == "conc" {
		runConcChild(r, corpus)
		r.Finish(rule)
	}

	r.Note("fuzz_corpus_entries", len(corpus))
	r.Note("library_rr_types_in_table", len(libTypes)+1)
	n := r.N(30000, 900000)
	c := newChecker(r, "gen")
	runDifferential(r, c, "gen", 0, n, 1, 0, corpus)

	// concurrent phases under the race detector
	pfx := r.RacePrefix("conc")
	res := r.Child("conc", nil, vlib.BinPath("c15", "race"), nil,
		[]string{vlib.RaceEnv(pfx), "C15_MODE=conc"}, time.Duration(r.N(150, 2400))*time.Second)
	if !res.HasState {
		r.Inconclusive(fmt.Sprintf("race child did not finish (exit=%d timeout=%v err=%v log=%s)", res.ExitCode, res.TimedOut, res.Err, res.Output))
	}
	r.ScanRaceLogs(pfx)

	// every path the verdict depends on must have been observed
	q := r.Quick()
	min := func(quick, thorough int64) int64 {
		if q {
			return quick
		}
		return thorough
	}
	r.Require("trypack_handled_equal", min(12000, 300000))
	r.Require("trypack_declined", min(2000, 50000))
	r.Require("declined_too_large", min(300, 5000))
	r.Require("declined_foreign_or_nil", min(300, 5000))
	r.Require("handed_slice_cap_pinned", min(12000, 300000))
	r.Require("packclone_equal", min(15000, 300000))
	r.Require("clones_reverified", min(15000, 300000))
	r.Require("writer_raw_equal", min(12000, 300000))
	r.Require("writer_fallback_equal", min(1500, 30000))
	r.Require("cache_wire_equal", min(15000, 300000))
	r.Require("cache_stripped_equal", min(300, 5000))
	r.Require("fingerprint_equal", min(8000, 150000))
	r.Require("pool_probe_after_opt_pack", min(2000, 50000))
	r.Require("handled_multiquestion_norecords_compress", min(100, 2000))
	r.Require("handled_multi_opt", min(200, 4000))
	r.Require("handled_extended_rcode", min(1000, 20000))
	r.Require("rr_types_handled", 75)
	r.Require("mislabelled_opt_handled_equal", min(300, 9000))
	r.Require("mislabelled_opt_behind_typed_opt_handled_equal", min(150, 4500))
	r.Require("mislabelled_opt_stale_ttl_handled_equal", min(150, 4500))
	r.Require("mislabelled_opt_ext_rcode_no_typed_opt_both_refuse", min(100, 3000))
	r.Require("size_4065-4096", min(150, 3000))
	r.Require("size_3801-4064", min(150, 3000))
	r.Require("handled_uncompressed_len_exactly_4096", min(10, 200))
	r.Require("declined_uncompressed_len_exactly_4097", min(10, 200))
	r.Require("conc_packs", min(20000, 200000))
	r.Require("conc_consumer_checks_equal", min(8000, 80000))
	r.Require("conc_shared_message_packs", min(1000, 10000))
	r.Require("conc_rounds", 3)
	r.Finish(rule)
}
