package main

// The oracle: differential against the library's own Pack on an
// alias-preserving deep copy, plus the pre/post snapshot of the message.

import (
	"bytes"
	"crypto/sha256"
	"encoding/binary"
	"encoding/hex"
	"fmt"
	"net"
	"regexp"
	"sort"
	"strings"
	"time"

	"github.com/miekg/dns"
	"github.com/semihalev/sdns/internal/dnsutil"
	"github.com/semihalev/sdns/internal/wire"
	"github.com/semihalev/sdns/middleware"
	"github.com/semihalev/sdns/middleware/cache"
	"github.com/semihalev/sdns/zzverif/vlib"
)

type outcome struct {
	b   []byte
	err error
	pan any
}

func (o outcome) ok() bool { return o.err == nil && o.pan == nil }
func (o outcome) String() string {
	switch {
	case o.pan != nil:
		return fmt.Sprintf("panic(%v)", o.pan)
	case o.err != nil:
		return fmt.Sprintf("error(%v)", o.err)
	}
	return fmt.Sprintf("%d bytes", len(o.b))
}

func libPack(m *dns.Msg) (o outcome) {
	defer func() {
		if p := recover(); p != nil {
			o = outcome{pan: p}
		}
	}()
	b, err := m.Pack()
	return outcome{b: b, err: err}
}

// replayCase identifies one generated case; the message is regenerated from
// (seed, phase, index).
type replayCase struct {
	Phase   string `json:"phase"`
	Index   int    `json:"index"`
	Seed    uint64 `json:"seed"`
	Step    string `json:"step,omitempty"`
	Meta    meta   `json:"meta"`
	Summary string `json:"summary,omitempty"`
	RefHex  string `json:"library_wire_hex,omitempty"`
	GotHex  string `json:"got_wire_hex,omitempty"`
	Detail  string `json:"detail,omitempty"`
}

func clipHex(b []byte) string {
	if len(b) > 6000 {
		return hex.EncodeToString(b[:6000]) + "…"
	}
	return hex.EncodeToString(b)
}

func summarize(m *dns.Msg) (s string) {
	defer func() {
		if recover() != nil {
			s = "(unprintable message)"
		}
	}()
	var sb strings.Builder
	fmt.Fprintf(&sb, "id=%d rcode=%d opcode=%d compress=%v q=%d an=%d ns=%d ar=%d;", m.Id, m.Rcode, m.Opcode, m.Compress,
		len(m.Question), len(m.Answer), len(m.Ns), len(m.Extra))
	for si, sec := range [][]dns.RR{m.Answer, m.Ns, m.Extra} {
		fmt.Fprintf(&sb, " S%d[", si)
		for i, rr := range sec {
			if i > 12 {
				sb.WriteString("…")
				break
			}
			if rr == nil {
				sb.WriteString("nil ")
				continue
			}
			fmt.Fprintf(&sb, "%T ", rr)
		}
		sb.WriteString("]")
	}
	return sb.String()
}

// wireRegion names the message element that contains byte offset off of wire
// w (a valid message produced by the library): header, question, or
// rr/<TYPE>/<part>.
func wireRegion(w []byte, off int) string {
	if off < 12 {
		return "header"
	}
	if len(w) < 12 {
		return "body"
	}
	skipName := func(p int) int {
		for p < len(w) {
			c := int(w[p])
			switch {
			case c == 0:
				return p + 1
			case c&0xC0 == 0xC0:
				return p + 2
			default:
				p += 1 + c
			}
		}
		return len(w)
	}
	qd := int(binary.BigEndian.Uint16(w[4:6]))
	p := 12
	for i := 0; i < qd && p < len(w); i++ {
		e := skipName(p) + 4
		if off < e {
			return "question"
		}
		p = e
	}
	for p < len(w) {
		ne := skipName(p)
		if ne+10 > len(w) {
			break
		}
		t := binary.BigEndian.Uint16(w[ne : ne+2])
		rdl := int(binary.BigEndian.Uint16(w[ne+8 : ne+10]))
		e := ne + 10 + rdl
		if off < e {
			part := "rdata"
			switch {
			case off < ne:
				part = "owner"
			case off < ne+8:
				part = "fixed"
			case off < ne+10:
				part = "rdlength"
			}
			return "rr/" + dns.Type(t).String() + "/" + part
		}
		p = e
	}
	return "tail"
}

func firstByteDiff(a, b []byte) int {
	n := len(a)
	if len(b) < n {
		n = len(b)
	}
	for i := 0; i < n; i++ {
		if a[i] != b[i] {
			return i
		}
	}
	return n
}

var errSan = regexp.MustCompile(`[^a-zA-Z0-9]+`)

func sanitizeErr(e error) string {
	s := errSan.ReplaceAllString(e.Error(), "-")
	if len(s) > 48 {
		s = s[:48]
	}
	return s
}

// ---- recording transport ----------------------------------------------------

type sink struct {
	raw      [][]byte
	tailNZ   int
	capOver  int
	msgs     []*dns.Msg
	msgPack  []outcome
	remote   net.Addr
	writeErr error
}

func (s *sink) reset() {
	s.raw, s.msgs, s.msgPack = s.raw[:0], s.msgs[:0], s.msgPack[:0]
	s.tailNZ, s.capOver = 0, 0
}

func (s *sink) Write(b []byte) (int, error) {
	s.raw = append(s.raw, append([]byte(nil), b...))
	if cap(b) > len(b) {
		s.capOver++
		for _, c := range b[len(b):cap(b)] {
			if c != 0 {
				s.tailNZ++
			}
		}
	}
	return len(b), nil
}

// WriteMsg is the library path of a real transport: it packs the message it
// is handed with the library's Pack.
func (s *sink) WriteMsg(m *dns.Msg) error {
	s.msgs = append(s.msgs, m)
	o := libPack(m)
	s.msgPack = append(s.msgPack, o)
	if o.pan != nil {
		panic(o.pan)
	}
	return o.err
}
func (s *sink) LocalAddr() net.Addr  { return &net.UDPAddr{IP: net.IPv4(127, 0, 0, 1), Port: 53} }
func (s *sink) RemoteAddr() net.Addr { return s.remote }
func (s *sink) Close() error         { return nil }

// ---- checker ------------------------------------------------------------------

type kept struct {
	clone []byte
	sum   [32]byte
	rc    replayCase
}

type checker struct {
	r            *vlib.Run
	phase        string
	sink         *sink
	chain        *middleware.Chain
	req          *dns.Msg
	kept         []kept
	keptCap      int
	cover        map[string]bool
	typesHandled map[string]bool
	verbose      bool
}

func newChecker(r *vlib.Run, phase string) *checker {
	c := &checker{r: r, phase: phase, cover: map[string]bool{}, typesHandled: map[string]bool{}, keptCap: 4000}
	c.sink = &sink{remote: &net.UDPAddr{IP: net.IPv4(203, 0, 113, 9), Port: 5353}}
	c.chain = middleware.NewChain(nil)
	c.req = new(dns.Msg)
	c.req.SetQuestion("example.com.", dns.TypeA)
	return c
}

func (c *checker) coverKey(k string) { c.cover[k] = true }

func sizeBucket(n int) string {
	switch {
	case n <= 64:
		return "0-64"
	case n <= 512:
		return "65-512"
	case n <= 1232:
		return "513-1232"
	case n <= 3800:
		return "1233-3800"
	case n <= 4064:
		return "3801-4064"
	case n <= 4096:
		return "4065-4096"
	case n <= 4200:
		return "4097-4200"
	case n <= 16384:
		return "4201-16384"
	case n <= 59999:
		return "16385-59999"
	default:
		return "60000+"
	}
}

func typeSet(m *dns.Msg) string {
	set := map[string]bool{}
	for _, sec := range [][]dns.RR{m.Answer, m.Ns, m.Extra} {
		for _, rr := range sec {
			if rr != nil {
				set[typeName(rr)] = true
			}
		}
	}
	ks := make([]string, 0, len(set))
	for k := range set {
		ks = append(ks, k)
	}
	sort.Strings(ks)
	return strings.Join(ks, ",")
}

func flagSig(m *dns.Msg) string {
	b := 0
	for i, f := range []bool{m.Response, m.Authoritative, m.Truncated, m.RecursionDesired, m.RecursionAvailable, m.Zero,
		m.AuthenticatedData, m.CheckingDisabled, m.Compress} {
		if f {
			b |= 1 << uint(i)
		}
	}
	rc := "lo"
	if m.Rcode > 15 {
		rc = "ext"
	}
	return fmt.Sprintf("%x/op%d/%s/q%d", b, m.Opcode, rc, len(m.Question))
}

func hasOPTInExtra(m *dns.Msg) (n int) {
	for _, rr := range m.Extra {
		if _, ok := rr.(*dns.OPT); ok {
			n++
		}
	}
	return n
}

// optLabels classifies the OPT records of Extra by what the wire reader of
// the library goes by (the header type) against what they are (the Go type).
type optLabels struct {
	stray, typed     int  // *dns.OPT with header type != OPT / == OPT
	strayBehindTyped bool // some stray OPT sits after a typed one
	strayStale       bool // a stray OPT with a non-zero TTL top octet
	anyStale         bool // any *dns.OPT in Extra with a non-zero TTL top octet
}

func labelOPTs(m *dns.Msg) (l optLabels) {
	for _, rr := range m.Extra {
		o, ok := rr.(*dns.OPT)
		if !ok || o == nil {
			continue
		}
		if o.Hdr.Ttl>>24 != 0 {
			l.anyStale = true
		}
		if o.Hdr.Rrtype == dns.TypeOPT {
			l.typed++
			continue
		}
		l.stray++
		if l.typed > 0 {
			l.strayBehindTyped = true
		}
		if o.Hdr.Ttl>>24 != 0 {
			l.strayStale = true
		}
	}
	return l
}

func (c *checker) viol(sig, what string, rc replayCase, step string, ref, got []byte, detail string) {
	rc.Step = step
	rc.RefHex = clipHex(ref)
	rc.GotHex = clipHex(got)
	rc.Detail = detail
	c.r.Violation(sig, what, rc)
	if c.verbose {
		fmt.Printf("replay: VIOLATION %s — %s\n  %s\n", sig, what, detail)
	}
}

// checkCase runs every oracle on one message. m is owned by the checker.
func (c *checker) checkCase(idx int, m *dns.Msg, mt meta) {
	r := c.r
	rc := replayCase{Phase: c.phase, Index: idx, Seed: r.Seed, Meta: mt, Summary: summarize(m)}
	r.Eval(1)
	r.Count("messages", 1)

	snap := dumpMsg(m)
	pristine, problem := deepCopyMsg(m)
	refMsg, _ := deepCopyMsg(m)
	if problem != "" || dumpMsg(pristine) != snap {
		r.Count("harness_copy_mismatch", 1)
		if r.Counter("harness_copy_mismatch") > 3 {
			return
		}
		r.Inconclusive("deep copy does not reproduce the message: " + problem + " " + firstDiff(snap, dumpMsg(pristine)))
		return
	}
	ref := libPack(refMsg)
	lab := labelOPTs(pristine)
	if lab.stray > 0 {
		r.Count("messages_with_mislabelled_opt", 1)
	}
	switch {
	case ref.pan != nil:
		r.Count("library_panics", 1)
	case ref.err != nil:
		r.Count("library_errors", 1)
	default:
		r.Count("library_ok", 1)
	}

	// ---- TryPack ----
	var got []byte
	calls, capOver, tailNZ := 0, 0, 0
	handled, cerr, pan := func() (h bool, e error, p any) {
		defer func() {
			if x := recover(); x != nil {
				p = x
			}
		}()
		h, e = wire.TryPack(m, func(b []byte) error {
			calls++
			got = append([]byte(nil), b...)
			if cap(b) > len(b) {
				capOver = cap(b) - len(b)
				for _, x := range b[len(b):cap(b)] {
					if x != 0 {
						tailNZ++
					}
				}
			}
			return nil
		})
		return
	}()
	after := dumpMsg(m)
	r.Count("trypack_calls", 1)

	switch {
	case pan != nil && ref.pan == nil:
		c.viol("trypack/panic", "TryPack panicked on a message the library packs or rejects without panicking", rc, "trypack", ref.b, nil, fmt.Sprint(pan))
	case pan != nil:
		r.Count("trypack_and_library_panic", 1)
	case cerr != nil:
		c.viol("trypack/consumer-error-invented", "TryPack returned an error although the consumer returned nil", rc, "trypack", ref.b, got, cerr.Error())
	case handled:
		r.Count("trypack_handled", 1)
		if calls != 1 {
			c.viol(fmt.Sprintf("trypack/consume-calls-%d", calls), "handled=true but the consumer was not called exactly once", rc, "trypack", ref.b, got, "")
		}
		switch {
		case ref.pan != nil:
			c.viol("trypack/handled-library-panics", "the pooled packer produced bytes for a message the library panics on", rc, "trypack", nil, got, fmt.Sprint(ref.pan))
		case ref.err != nil:
			c.viol("trypack/handled-library-errors/"+sanitizeErr(ref.err),
				"the pooled packer produced bytes for a message the library's Pack refuses: "+ref.err.Error(), rc, "trypack", nil, got,
				fmt.Sprintf("uncompressed Len=%d packed=%d", ulenSafe(pristine), len(got)))
		case !bytes.Equal(got, ref.b):
			off := firstByteDiff(got, ref.b)
			c.viol("trypack/bytes-differ/"+wireRegion(ref.b, off),
				"bytes handed to the consumer differ from dns.Msg.Pack of a deep copy", rc, "trypack", ref.b, got,
				fmt.Sprintf("first difference at offset %d (len got=%d want=%d)", off, len(got), len(ref.b)))
		default:
			r.Count("trypack_handled_equal", 1)
			if len(got) == wire.VerifC15PackBufferSize {
				r.Count("handled_packed_len_exactly_4096", 1)
			}
			if ulenSafe(pristine) == wire.VerifC15PackBufferSize {
				r.Count("handled_uncompressed_len_exactly_4096", 1)
			}
			r.Count("size_"+sizeBucket(len(got)), 1)
			r.Distinct(typeSet(m) + "|" + flagSig(m) + "|" + sizeBucket(len(got)) + "|" + mt.OptShape)
			if len(m.Question) > 1 && m.Compress && len(m.Answer)+len(m.Ns)+len(m.Extra) == 0 {
				r.Count("handled_multiquestion_norecords_compress", 1)
			}
			if hasOPTInExtra(m) > 1 {
				r.Count("handled_multi_opt", 1)
			}
			if m.Rcode > 15 {
				r.Count("handled_extended_rcode", 1)
			}
			if lab.stray > 0 {
				r.Count("mislabelled_opt_handled_equal", 1)
				if lab.strayBehindTyped && (m.Rcode > 15 || lab.anyStale) {
					r.Count("mislabelled_opt_behind_typed_opt_handled_equal", 1)
				}
				if lab.strayStale {
					r.Count("mislabelled_opt_stale_ttl_handled_equal", 1)
				}
			}
			for _, sec := range [][]dns.RR{m.Answer, m.Ns, m.Extra} {
				for _, rr := range sec {
					c.typesHandled[typeName(rr)] = true
				}
			}
		}
		if after != snap {
			c.viol("trypack/mutated/"+diffField(snap, after), "the message differs from its pre-call snapshot after a handled TryPack", rc, "trypack", nil, nil, firstDiff(snap, after))
		}
		if capOver > 0 {
			r.Count("handed_slice_cap_exceeds_len", 1)
			if tailNZ > 0 {
				c.viol("exposure/tail-readable", "the slice handed to the consumer can be resliced to capacity and shows bytes of earlier packs", rc, "trypack", nil, got,
					fmt.Sprintf("cap-len=%d, %d non-zero bytes behind the payload", capOver, tailNZ))
			}
		} else {
			r.Count("handed_slice_cap_pinned", 1)
		}
		// pooled state at rest
		if used, stale := wire.VerifC15PoolProbe(); used {
			r.Count("pool_probe_recycled_state", 1)
			if hasOPTInExtra(m) > 0 {
				r.Count("pool_probe_after_opt_pack", 1)
			}
			if stale != "" {
				c.viol("pool/stale-state/"+stale, "a released pack state still carries "+stale+" of the message it packed", rc, "trypack", nil, nil, "")
			}
		}
	default:
		r.Count("trypack_declined", 1)
		dc := declineClass(pristine, ref, mt)
		if dc == "too_large" && ulenSafe(pristine) == wire.VerifC15PackBufferSize+1 {
			r.Count("declined_uncompressed_len_exactly_4097", 1)
		}
		r.Count("declined_"+dc, 1)
		if lab.stray > 0 && lab.typed == 0 && pristine.Rcode > 15 && pristine.Rcode <= 0xFFF && ref.err != nil && ref.pan == nil && mt.Foreign == "" {
			// only a mislabelled OPT to carry an extended rcode: the library refuses, and so did the packer
			r.Count("mislabelled_opt_ext_rcode_no_typed_opt_both_refuse", 1)
		}
		if dc == "other" {
			r.Sample(map[string]any{"unexplained_decline": rc.Summary, "index": idx, "phase": c.phase,
				"uncompressed_len": ulenSafe(pristine), "library_packed_len": len(ref.b), "meta": mt})
		}
		if calls != 0 {
			c.viol("trypack/declined-after-output", "handled=false although bytes had already reached the consumer", rc, "trypack", ref.b, got, "")
		}
		if after != snap {
			// declining must leave the library fallback the message it would have had
			fb, _ := deepCopyMsg(m)
			o := libPack(fb)
			if o.ok() != ref.ok() || (o.ok() && !bytes.Equal(o.b, ref.b)) {
				c.viol("trypack/declined-message-changed/"+diffField(snap, after),
					"TryPack declined but left the message changed so that the library now encodes it differently", rc, "trypack", ref.b, o.b, firstDiff(snap, after))
			} else {
				r.Count("declined_message_changed_benign", 1)
			}
		}
	}
	if dumpMsg(m) != snap {
		m, _ = deepCopyMsg(pristine)
	}

	// ---- PackClone ----
	clone, perr, ppan := func() (b []byte, e error, p any) {
		defer func() {
			if x := recover(); x != nil {
				p = x
			}
		}()
		b, e = wire.PackClone(m)
		return
	}()
	after = dumpMsg(m)
	r.Count("packclone_calls", 1)
	switch {
	case ppan != nil && ref.pan == nil:
		c.viol("packclone/panic", "PackClone panicked on a message the library does not panic on", rc, "packclone", ref.b, nil, fmt.Sprint(ppan))
	case ppan != nil:
		r.Count("packclone_and_library_panic", 1)
	case ref.pan != nil:
		c.viol("packclone/library-panics", "PackClone returned for a message the library panics on", rc, "packclone", nil, clone, fmt.Sprint(ref.pan))
	case (perr != nil) != (ref.err != nil):
		c.viol("packclone/error-mismatch", fmt.Sprintf("PackClone err=%v, library err=%v", perr, ref.err), rc, "packclone", ref.b, clone, "")
	case perr != nil:
		r.Count("packclone_both_error", 1)
		if clone != nil {
			c.viol("packclone/bytes-with-error", "PackClone returned bytes together with an error", rc, "packclone", nil, clone, perr.Error())
		}
	case !bytes.Equal(clone, ref.b):
		off := firstByteDiff(clone, ref.b)
		c.viol("packclone/bytes-differ/"+wireRegion(ref.b, off), "PackClone bytes differ from dns.Msg.Pack of a deep copy", rc, "packclone", ref.b, clone,
			fmt.Sprintf("first difference at offset %d (len got=%d want=%d)", off, len(clone), len(ref.b)))
	default:
		r.Count("packclone_equal", 1)
		if cap(clone) > len(clone) {
			nz := 0
			for _, x := range clone[len(clone):cap(clone)] {
				if x != 0 {
					nz++
				}
			}
			if nz > 0 {
				c.viol("exposure/clone-tail-readable", "PackClone's slice has spare capacity holding bytes of other packs", rc, "packclone", nil, clone, "")
			}
		}
		if len(c.kept) < c.keptCap {
			c.kept = append(c.kept, kept{clone: clone, sum: sha256.Sum256(ref.b), rc: rc})
		}
	}
	if after != snap {
		// A message the fast packer declined keeps the library's own semantics
		// (Pack writes the extended rcode into the caller's OPT); a handled one
		// must be untouched.
		legal := !handled && after == dumpMsg(refMsg)
		if !legal {
			c.viol("packclone/mutated/"+diffField(snap, after), "the message differs from its pre-call snapshot after PackClone", rc, "packclone", nil, nil, firstDiff(snap, after))
		} else {
			r.Count("packclone_library_semantics_mutation", 1)
		}
		m, _ = deepCopyMsg(pristine)
	}

	// ---- response writer, direct-pack path ----
	c.sink.reset()
	werr, wpan := func() (e error, p any) {
		defer func() {
			if x := recover(); x != nil {
				p = x
			}
		}()
		c.chain.Reset(c.sink, c.req)
		c.chain.AllowDirectPack()
		e = c.chain.Writer.WriteMsg(m)
		return
	}()
	func() {
		defer func() { _ = recover() }()
		c.chain.Finish()
	}()
	after = dumpMsg(m)
	r.Count("writer_calls", 1)
	switch {
	case len(c.sink.raw) > 0 && len(c.sink.msgs) > 0:
		c.viol("writer/both-doors", "the writer sent raw bytes and also handed the transport a message", rc, "writer", ref.b, c.sink.raw[0], "")
	case len(c.sink.raw) > 1:
		c.viol("writer/raw-twice", "the writer sent more than one raw datagram for one message", rc, "writer", ref.b, c.sink.raw[0], "")
	case len(c.sink.raw) == 1:
		r.Count("writer_raw", 1)
		got := c.sink.raw[0]
		switch {
		case !ref.ok():
			c.viol("writer/raw-library-fails", "the direct-pack path wrote bytes for a message the library cannot pack: "+ref.String(), rc, "writer", nil, got, "")
		case !bytes.Equal(got, ref.b):
			off := firstByteDiff(got, ref.b)
			c.viol("writer/bytes-differ/"+wireRegion(ref.b, off), "bytes written to the transport differ from dns.Msg.Pack of a deep copy", rc, "writer", ref.b, got,
				fmt.Sprintf("first difference at offset %d", off))
		default:
			r.Count("writer_raw_equal", 1)
		}
		if c.sink.tailNZ > 0 {
			c.viol("exposure/writer-tail-readable", "the slice written to the transport exposes bytes of earlier packs behind its length", rc, "writer", nil, got, "")
		}
		if after != snap {
			c.viol("writer/mutated/"+diffField(snap, after), "the message changed while written through the direct-pack path", rc, "writer", nil, nil, firstDiff(snap, after))
		}
		if werr != nil || wpan != nil {
			c.viol("writer/raw-then-error", fmt.Sprintf("raw bytes written, then err=%v panic=%v from a sink that never fails", werr, wpan), rc, "writer", nil, got, "")
		}
	case len(c.sink.msgs) == 1:
		r.Count("writer_fallback", 1)
		o := c.sink.msgPack[0]
		if c.sink.msgs[0] != m {
			c.viol("writer/fallback-other-message", "the fallback handed the transport a different message object", rc, "writer", nil, nil, "")
		}
		switch {
		case o.ok() != ref.ok():
			c.viol("writer/fallback-outcome-differs", fmt.Sprintf("library encoding after decline: %s, reference: %s", o, ref), rc, "writer", ref.b, o.b, "")
		case o.ok() && !bytes.Equal(o.b, ref.b):
			off := firstByteDiff(o.b, ref.b)
			c.viol("writer/fallback-bytes-differ/"+wireRegion(ref.b, off), "the library encoding of the message after the fast packer declined differs from the reference", rc, "writer", ref.b, o.b, "")
		default:
			r.Count("writer_fallback_equal", 1)
		}
	default:
		if wpan != nil && ref.pan != nil {
			r.Count("writer_and_library_panic", 1)
		} else {
			c.viol("writer/nothing-written", fmt.Sprintf("WriteMsg produced no output (err=%v panic=%v)", werr, wpan), rc, "writer", ref.b, nil, "")
		}
	}
	if after != snap {
		m, _ = deepCopyMsg(pristine)
	}

	// ---- cache entry construction ----
	c.checkCache(m, pristine, snap, rc, handled)
	if dumpMsg(m) != snap {
		m, _ = deepCopyMsg(pristine)
	}

	// ---- negative-proof seal (hashes the packed authority section in place) ----
	if len(m.Ns) > 0 || idx%4 == 0 {
		c.checkFingerprint(m, pristine, snap, rc)
	}
	for k := range c.cover {
		if i := strings.IndexByte(k, ':'); i > 0 {
			r.DistinctIn("generated_"+k[:i]+"_kinds", k)
		}
		delete(c.cover, k)
	}
}

func ulenSafe(m *dns.Msg) (n int) {
	defer func() {
		if recover() != nil {
			n = -1
		}
	}()
	return ulen(m)
}

func declineClass(m *dns.Msg, ref outcome, mt meta) string {
	switch {
	case m.Rcode < 0 || m.Rcode > 0xFFF:
		return "rcode_range"
	case mt.Foreign != "" || hasPrivate(m):
		return "foreign_or_nil"
	case ref.pan != nil:
		return "library_panics"
	case ref.err != nil:
		return "library_errors"
	}
	if n := ulenSafe(m); n > wire.VerifC15PackBufferSize {
		return "too_large"
	}
	return "other"
}

func hasPrivate(m *dns.Msg) bool {
	for _, sec := range [][]dns.RR{m.Answer, m.Ns, m.Extra} {
		for _, rr := range sec {
			if _, ok := rr.(*dns.PrivateRR); ok {
				return true
			}
		}
	}
	return false
}

func storableView(src *dns.Msg) *dns.Msg {
	v := new(dns.Msg)
	v.MsgHdr = src.MsgHdr
	v.Question = src.Question
	v.Answer = src.Answer
	v.Ns = src.Ns
	if len(src.Extra) > 0 {
		extra := make([]dns.RR, 0, len(src.Extra))
		for _, rr := range src.Extra {
			if _, ok := rr.(*dns.OPT); !ok {
				extra = append(extra, rr)
			}
		}
		v.Extra = extra
	}
	v.Compress = true
	return v
}

func (c *checker) checkCache(m, pristine *dns.Msg, snap string, rc replayCase, handledClass bool) {
	r := c.r
	refSrc, _ := deepCopyMsg(pristine)
	view := storableView(refSrc)
	ref := libPack(view)
	var refStripped outcome
	func() {
		defer func() {
			if p := recover(); p != nil {
				refStripped = outcome{pan: p}
			}
		}()
		src2, _ := deepCopyMsg(pristine)
		s := *storableView(src2)
		dnsutil.ClearDNSSEC(&s)
		s.Compress = true
		refStripped = libPack(&s)
	}()

	var e *cache.CacheEntry
	pan := func() (p any) {
		defer func() {
			if x := recover(); x != nil {
				p = x
			}
		}()
		e = cache.NewCacheEntryWithKey(m, time.Minute, 0, 0)
		return nil
	}()
	r.Count("cache_calls", 1)
	stored, stripped := cache.VerifC15EntryWire(e)
	switch {
	case pan != nil && ref.pan == nil:
		c.viol("cache/panic", "NewCacheEntryWithKey panicked on a message whose storable view the library packs or rejects cleanly", rc, "cache", ref.b, nil, fmt.Sprint(pan))
	case pan != nil:
		r.Count("cache_and_library_panic", 1)
	case ref.pan != nil:
		if e != nil {
			c.viol("cache/library-panics", "a cache entry was built from a view the library panics on", rc, "cache", nil, stored, "")
		}
	case ref.err != nil:
		if e != nil {
			c.viol("cache/entry-for-unpackable", "a cache entry was stored for a view the library cannot pack: "+ref.err.Error(), rc, "cache", nil, stored, "")
		} else {
			r.Count("cache_declined_unpackable", 1)
		}
	case e == nil:
		c.viol("cache/no-entry", "no cache entry although the library packs the storable view", rc, "cache", ref.b, nil, "")
	case !bytes.Equal(stored, ref.b):
		off := firstByteDiff(stored, ref.b)
		c.viol("cache/bytes-differ/"+wireRegion(ref.b, off), "the bytes stored for the cache entry differ from the library encoding of the storable view", rc, "cache", ref.b, stored,
			fmt.Sprintf("first difference at offset %d", off))
	default:
		r.Count("cache_wire_equal", 1)
		if len(stored) <= wire.VerifC15PackBufferSize {
			r.Count("cache_wire_equal_pool_sized", 1)
		}
		if stripped != nil {
			if !refStripped.ok() || !bytes.Equal(stripped, refStripped.b) {
				off := firstByteDiff(stripped, refStripped.b)
				c.viol("cache/stripped-bytes-differ/"+wireRegion(refStripped.b, off), "the DNSSEC-stripped body stored for the entry differs from the library encoding", rc, "cache", refStripped.b, stripped, refStripped.String())
			} else {
				r.Count("cache_stripped_equal", 1)
			}
		}
	}
	if e != nil {
		c.keepClone(stored, rc)
	}
	if after := dumpMsg(m); after != snap {
		if handledClass {
			c.viol("cache/mutated/"+diffField(snap, after), "building a cache entry changed the caller's message", rc, "cache", nil, nil, firstDiff(snap, after))
		} else {
			r.Count("cache_library_semantics_mutation", 1)
		}
	}
}

func (c *checker) keepClone(b []byte, rc replayCase) {
	if len(c.kept) < c.keptCap {
		rc.Step = "cache-wire"
		c.kept = append(c.kept, kept{clone: b, sum: sha256.Sum256(b), rc: rc})
	}
}

func (c *checker) checkFingerprint(m, pristine *dns.Msg, snap string, rc replayCase) {
	r := c.r
	src, _ := deepCopyMsg(pristine)
	sealed := &dns.Msg{}
	sealed.Rcode = src.Rcode
	sealed.Ns = src.Ns
	ref := libPack(sealed)
	var sum [32]byte
	var valid bool
	pan := func() (p any) {
		defer func() {
			if x := recover(); x != nil {
				p = x
			}
		}()
		sum, valid = middleware.VerifC15NegProofFingerprint(m)
		return nil
	}()
	r.Count("fingerprint_calls", 1)
	switch {
	case pan != nil && ref.pan == nil:
		c.viol("fingerprint/panic", "the negative-proof seal panicked where the library does not", rc, "fingerprint", ref.b, nil, fmt.Sprint(pan))
	case pan != nil:
		r.Count("fingerprint_and_library_panic", 1)
	case ref.pan != nil:
		c.viol("fingerprint/library-panics", "a seal was computed for an authority section the library panics on", rc, "fingerprint", nil, nil, "")
	case valid != (ref.err == nil):
		c.viol("fingerprint/validity-mismatch", fmt.Sprintf("seal valid=%v, library: %s", valid, ref), rc, "fingerprint", ref.b, nil, "")
	case valid && sum != sha256.Sum256(ref.b):
		c.viol("fingerprint/hash-differs", "the seal is not the SHA-256 of the library encoding of {rcode, authority}", rc, "fingerprint", ref.b, nil, "")
	default:
		r.Count("fingerprint_equal", 1)
	}
	if after := dumpMsg(m); after != snap {
		c.viol("fingerprint/mutated/"+diffField(snap, after), "sealing changed the proof message", rc, "fingerprint", nil, nil, firstDiff(snap, after))
	}
}

// verifyKept re-checks, after all later packs, that every retained clone still
// holds the bytes it was handed out with.
func (c *checker) verifyKept() {
	for _, k := range c.kept {
		c.r.Count("clones_reverified", 1)
		if sha256.Sum256(k.clone) != k.sum {
			c.viol("packclone/clone-changed-later", "bytes returned earlier changed after later packs", k.rc, "reverify", nil, k.clone, "")
		}
	}
	c.kept = c.kept[:0]
}
