package main

// Deep snapshot (canonical dump) and alias-preserving deep copy of dns.Msg
// graphs, both by reflection so that every field of every record — header
// incl. Rdlength, OPT TTL bits, option lists, nested key/values, nil-ness of
// slices, typed-nil pointers, foreign wrapper types — takes part.
//
// The dump is the "field-by-field snapshot" of the oracle: two dumps are
// equal iff the two graphs are indistinguishable (same dynamic types, same
// values, same pointer aliasing structure). The deep copy is what the
// library reference packs; dump(copy) == dump(original) is asserted on every
// case so a copier bug cannot masquerade as a finding.

import (
	"encoding/hex"
	"fmt"
	"reflect"
	"sort"
	"strconv"
	"strings"
	"unsafe"

	"github.com/miekg/dns"
)

type dumper struct {
	b    strings.Builder
	ptrs map[unsafe.Pointer]int
}

func dumpMsg(m *dns.Msg) string {
	d := &dumper{ptrs: map[unsafe.Pointer]int{}}
	d.b.Grow(1024)
	d.val(reflect.ValueOf(m))
	return d.b.String()
}

var byteSliceType = reflect.TypeOf([]byte(nil))

func (d *dumper) val(v reflect.Value) {
	switch v.Kind() {
	case reflect.Bool:
		if v.Bool() {
			d.b.WriteByte('T')
		} else {
			d.b.WriteByte('F')
		}
	case reflect.Int, reflect.Int8, reflect.Int16, reflect.Int32, reflect.Int64:
		d.b.WriteString(strconv.FormatInt(v.Int(), 10))
	case reflect.Uint, reflect.Uint8, reflect.Uint16, reflect.Uint32, reflect.Uint64, reflect.Uintptr:
		d.b.WriteString(strconv.FormatUint(v.Uint(), 10))
	case reflect.String:
		s := v.String()
		d.b.WriteString(strconv.Itoa(len(s)))
		d.b.WriteByte('"')
		d.b.WriteString(s)
		d.b.WriteByte('"')
	case reflect.Slice:
		if v.IsNil() {
			d.b.WriteString("nil[]")
			return
		}
		if v.Type().Elem().Kind() == reflect.Uint8 {
			d.b.WriteString("x'")
			d.b.WriteString(hex.EncodeToString(v.Bytes()))
			d.b.WriteByte('\'')
			return
		}
		d.b.WriteByte('[')
		d.b.WriteString(strconv.Itoa(v.Len()))
		d.b.WriteByte(':')
		for i := 0; i < v.Len(); i++ {
			d.val(v.Index(i))
			d.b.WriteByte(',')
		}
		d.b.WriteByte(']')
	case reflect.Array:
		d.b.WriteByte('(')
		for i := 0; i < v.Len(); i++ {
			d.val(v.Index(i))
			d.b.WriteByte(',')
		}
		d.b.WriteByte(')')
	case reflect.Pointer:
		if v.IsNil() {
			d.b.WriteString("nil*")
			d.b.WriteString(v.Type().String())
			return
		}
		if v.Type().Elem().Size() == 0 {
			// all zero-size objects share one address: identity means nothing
			d.b.WriteString("&z:")
			d.val(v.Elem())
			return
		}
		p := v.UnsafePointer()
		if id, ok := d.ptrs[p]; ok {
			d.b.WriteString("&#")
			d.b.WriteString(strconv.Itoa(id))
			return
		}
		id := len(d.ptrs) + 1
		d.ptrs[p] = id
		d.b.WriteString("&")
		d.b.WriteString(strconv.Itoa(id))
		d.b.WriteByte(':')
		d.val(v.Elem())
	case reflect.Interface:
		if v.IsNil() {
			d.b.WriteString("nil-iface")
			return
		}
		d.b.WriteByte('<')
		d.b.WriteString(v.Elem().Type().String())
		d.b.WriteByte('>')
		d.val(v.Elem())
	case reflect.Struct:
		t := v.Type()
		d.b.WriteByte('{')
		for i := 0; i < v.NumField(); i++ {
			d.b.WriteString(t.Field(i).Name)
			d.b.WriteByte('=')
			d.val(v.Field(i))
			d.b.WriteByte(';')
		}
		d.b.WriteByte('}')
	case reflect.Map:
		if v.IsNil() {
			d.b.WriteString("nilmap")
			return
		}
		keys := v.MapKeys()
		parts := make([]string, 0, len(keys))
		for _, k := range keys {
			sub := &dumper{ptrs: d.ptrs}
			sub.val(k)
			sub.b.WriteString("=>")
			sub.val(v.MapIndex(k))
			parts = append(parts, sub.b.String())
		}
		sort.Strings(parts)
		d.b.WriteString("map{")
		d.b.WriteString(strings.Join(parts, ","))
		d.b.WriteByte('}')
	case reflect.Func, reflect.Chan, reflect.UnsafePointer:
		if v.IsNil() {
			d.b.WriteString("nilfn")
		} else {
			d.b.WriteString("fn")
		}
	default:
		d.b.WriteString("?" + v.Kind().String())
	}
}

// firstDiff names the region where two dumps start to differ (for the "what"
// of a violation) — a window of both around the first differing byte.
func firstDiff(a, b string) string {
	n := len(a)
	if len(b) < n {
		n = len(b)
	}
	i := 0
	for i < n && a[i] == b[i] {
		i++
	}
	lo := i - 90
	if lo < 0 {
		lo = 0
	}
	win := func(s string) string {
		hi := i + 60
		if hi > len(s) {
			hi = len(s)
		}
		if lo > len(s) {
			return ""
		}
		return s[lo:hi]
	}
	return fmt.Sprintf("at dump offset %d: before=%q after=%q", i, win(a), win(b))
}

// diffField guesses the struct field the first difference falls in (last
// "Name=" token before the differing offset) for a narrow signature.
func diffField(a, b string) string {
	n := len(a)
	if len(b) < n {
		n = len(b)
	}
	i := 0
	for i < n && a[i] == b[i] {
		i++
	}
	if i > len(a) {
		i = len(a)
	}
	s := a[:i]
	eq := strings.LastIndexByte(s, '=')
	if eq < 0 {
		return "?"
	}
	j := eq - 1
	for j >= 0 && (s[j] >= 'a' && s[j] <= 'z' || s[j] >= 'A' && s[j] <= 'Z' || s[j] >= '0' && s[j] <= '9' || s[j] == '_') {
		j--
	}
	return s[j+1 : eq]
}

// ---------------------------------------------------------------------------

type copier struct {
	memo    map[unsafe.Pointer]reflect.Value
	problem string
}

var privateRRType = reflect.TypeOf((*dns.PrivateRR)(nil))

// deepCopyMsg returns an alias-preserving deep copy of m. problem != "" means
// the copier met something it cannot reproduce (harness limitation).
func deepCopyMsg(m *dns.Msg) (cp *dns.Msg, problem string) {
	c := &copier{memo: map[unsafe.Pointer]reflect.Value{}}
	out := c.copyVal(reflect.ValueOf(m))
	return out.Interface().(*dns.Msg), c.problem
}

func (c *copier) copyVal(v reflect.Value) reflect.Value {
	switch v.Kind() {
	case reflect.Pointer:
		if v.IsNil() {
			return reflect.Zero(v.Type())
		}
		if v.Type().Elem().Size() == 0 {
			return reflect.New(v.Type().Elem())
		}
		p := v.UnsafePointer()
		if nv, ok := c.memo[p]; ok && nv.Type() == v.Type() {
			return nv
		}
		if v.Type() == privateRRType {
			// unexported generator field: the library's own copy
			cp := dns.Copy(v.Interface().(dns.RR))
			nv := reflect.ValueOf(cp)
			c.memo[p] = nv
			return nv
		}
		nv := reflect.New(v.Type().Elem())
		c.memo[p] = nv
		nv.Elem().Set(c.copyVal(v.Elem()))
		return nv
	case reflect.Interface:
		if v.IsNil() {
			return reflect.Zero(v.Type())
		}
		out := reflect.New(v.Type()).Elem()
		out.Set(c.copyVal(v.Elem()))
		return out
	case reflect.Struct:
		t := v.Type()
		out := reflect.New(t).Elem()
		for i := 0; i < v.NumField(); i++ {
			if !t.Field(i).IsExported() {
				if c.problem == "" {
					c.problem = "unexported field " + t.String() + "." + t.Field(i).Name
				}
				out.Set(v) // shallow
				return out
			}
		}
		for i := 0; i < v.NumField(); i++ {
			out.Field(i).Set(c.copyVal(v.Field(i)))
		}
		return out
	case reflect.Slice:
		if v.IsNil() {
			return reflect.Zero(v.Type())
		}
		out := reflect.MakeSlice(v.Type(), v.Len(), v.Len())
		switch v.Type().Elem().Kind() {
		case reflect.Bool, reflect.Int, reflect.Int8, reflect.Int16, reflect.Int32, reflect.Int64,
			reflect.Uint, reflect.Uint8, reflect.Uint16, reflect.Uint32, reflect.Uint64, reflect.String:
			reflect.Copy(out, v)
		default:
			for i := 0; i < v.Len(); i++ {
				out.Index(i).Set(c.copyVal(v.Index(i)))
			}
		}
		return out
	case reflect.Array:
		out := reflect.New(v.Type()).Elem()
		for i := 0; i < v.Len(); i++ {
			out.Index(i).Set(c.copyVal(v.Index(i)))
		}
		return out
	case reflect.Map:
		if v.IsNil() {
			return reflect.Zero(v.Type())
		}
		out := reflect.MakeMapWithSize(v.Type(), v.Len())
		it := v.MapRange()
		for it.Next() {
			out.SetMapIndex(c.copyVal(it.Key()), c.copyVal(it.Value()))
		}
		return out
	default:
		return v
	}
}
