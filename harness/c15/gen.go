package main

// Structured message generation over the library's TypeToRR table.
//
// Every record type the library registers (plus RFC3597, RR_Header-as-record
// and a registered PrivateRR) is instantiated through its factory and filled
// by reflection over its struct fields, keyed on the `dns:"…"` tag; OPT and
// SVCB/HTTPS receive every option / key kind the library knows. Message-level
// knobs: 0–3 questions, section sizes, OPT placement (none, last, not last,
// several, in Answer, aliased), rcodes 0–4095 and out of range, header flag
// mixes, Compress, names up to 255 octets with escapes and shared suffixes,
// sizes padded to straddle the 4096-byte pool buffer or to exceed 60 000,
// nil / typed-nil / foreign (wrapper, PrivateRR, foreign option) records.

import (
	"encoding/base32"
	"encoding/base64"
	"encoding/hex"
	"fmt"
	"math/rand/v2"
	"net"
	"reflect"
	"sort"
	"strings"

	"github.com/miekg/dns"
)

// ---- foreign types ---------------------------------------------------------

// wrapRR is an external type that satisfies dns.RR only through promotion.
type wrapRR struct{ dns.RR }

// wrapOPT wears the OPT type without being *dns.OPT.
type wrapOPT struct{ *dns.OPT }

// wrapEDNS0 / wrapKV are foreign implementations nested inside library records.
type wrapEDNS0 struct{ dns.EDNS0 }
type wrapKV struct{ dns.SVCBKeyValue }

const privType = 65281

type privRdata struct{ Data []byte }

func (p *privRdata) String() string       { return hex.EncodeToString(p.Data) }
func (p *privRdata) Parse([]string) error { return nil }
func (p *privRdata) Pack(b []byte) (int, error) {
	if len(b) < len(p.Data) {
		return 0, dns.ErrBuf
	}
	return copy(b, p.Data), nil
}
func (p *privRdata) Unpack(b []byte) (int, error) {
	p.Data = append([]byte(nil), b...)
	return len(b), nil
}
func (p *privRdata) Copy(d dns.PrivateRdata) error {
	o, ok := d.(*privRdata)
	if !ok {
		return fmt.Errorf("bad dest")
	}
	if p.Data != nil {
		o.Data = append([]byte{}, p.Data...)
	} else {
		o.Data = nil
	}
	return nil
}
func (p *privRdata) Len() int { return len(p.Data) }

var (
	libTypes    []uint16 // sorted keys of dns.TypeToRR without OPT / private
	privFactory func() dns.RR
)

func initTypes() {
	for t := range dns.TypeToRR {
		if t == dns.TypeOPT {
			continue
		}
		libTypes = append(libTypes, t)
	}
	sort.Slice(libTypes, func(i, j int) bool { return libTypes[i] < libTypes[j] })
	dns.PrivateHandle("C15PRIV", privType, func() dns.PrivateRdata { return new(privRdata) })
	privFactory = dns.TypeToRR[privType]
}

// ---- generator -------------------------------------------------------------

type meta struct {
	Kind     string `json:"kind"`
	OptShape string `json:"opt_shape"`
	Foreign  string `json:"foreign,omitempty"`
	Mislabel string `json:"mislabel,omitempty"`
	SizeCls  string `json:"size_class"`
	Target   int    `json:"target,omitempty"`
}

type gen struct {
	rng      *rand.Rand
	names    []string
	badNames bool // allow invalid names in this message
	badData  bool // allow invalid rdata in this message
	lastPad  *dns.NULL
}

func (g *gen) chance(pct int) bool { return g.rng.IntN(100) < pct }

func (g *gen) bytesN(n int) []byte {
	b := make([]byte, n)
	for i := range b {
		b[i] = byte(g.rng.UintN(256))
	}
	return b
}

func (g *gen) smallLen() int {
	switch g.rng.IntN(10) {
	case 0:
		return 0
	case 1:
		return 1
	case 2:
		return 32 + g.rng.IntN(64)
	default:
		return 1 + g.rng.IntN(20)
	}
}

const labelChars = "abcdefghijklmnopqrstuvwxyz0123456789-_ABCDEFXYZ"

// label returns one label in presentation format and its wire length.
func (g *gen) label(n int) (string, int) {
	var sb strings.Builder
	for i := 0; i < n; i++ {
		switch g.rng.IntN(60) {
		case 0:
			sb.WriteString(`\.`)
		case 1:
			sb.WriteString(`\\`)
		case 2:
			fmt.Fprintf(&sb, `\%03d`, g.rng.IntN(256))
		case 3:
			sb.WriteString(`\ `)
		default:
			sb.WriteByte(labelChars[g.rng.IntN(len(labelChars))])
		}
	}
	return sb.String(), n
}

func nameWireLen(labelLens []int) int {
	n := 1
	for _, l := range labelLens {
		n += l + 1
	}
	return n
}

// seedNames starts the per-message name pool: a few zones sharing suffixes.
func (g *gen) seedNames() {
	zones := []string{"example.com.", "example.net.", "test.", "Example.COM.", "a.b.c.d.e.f.g.example.org.", "."}
	z := zones[g.rng.IntN(len(zones))]
	g.names = append(g.names[:0], z)
	if z != "." && g.chance(60) {
		g.names = append(g.names, "www."+z, "ns1."+z, "mail."+z)
	}
	if g.chance(30) {
		g.names = append(g.names, zones[g.rng.IntN(len(zones))])
	}
}

func (g *gen) name() string {
	if g.badNames && g.chance(6) {
		switch g.rng.IntN(6) {
		case 0:
			return "nodot.example"
		case 1:
			return ""
		case 2:
			l, _ := g.label(64)
			return l + ".example."
		case 3: // > 255 octets
			var parts []string
			for i := 0; i < 5; i++ {
				l, _ := g.label(60)
				parts = append(parts, l)
			}
			return strings.Join(parts, ".") + "."
		case 4:
			return "a..b."
		default:
			return `bad\`
		}
	}
	r := g.rng.IntN(100)
	switch {
	case r < 50 && len(g.names) > 0:
		return g.names[g.rng.IntN(len(g.names))]
	case r < 53: // maximal: 255 octets on the wire
		lens := []int{63, 63, 63, 61}
		if g.chance(50) {
			lens = []int{1, 63, 62, 63, 59}
		}
		var parts []string
		for _, n := range lens {
			l, _ := g.label(n)
			parts = append(parts, l)
		}
		s := strings.Join(parts, ".") + "."
		g.names = append(g.names, s)
		return s
	case r < 56:
		return "."
	}
	// new name: labels in front of an existing suffix
	suffix := "."
	if len(g.names) > 0 {
		suffix = g.names[g.rng.IntN(len(g.names))]
	}
	k := 1 + g.rng.IntN(3)
	var parts []string
	total := 0
	for i := 0; i < k; i++ {
		n := 1 + g.rng.IntN(12)
		if g.chance(4) {
			n = 63
		}
		l, w := g.label(n)
		parts = append(parts, l)
		total += w + 1
	}
	// crude bound: keep comfortably valid unless the suffix is already long
	if total+len(suffix) > 250 {
		return suffix
	}
	s := strings.Join(parts, ".") + "."
	if suffix != "." {
		s = strings.Join(parts, ".") + "." + suffix
	}
	if g.chance(70) {
		g.names = append(g.names, s)
	}
	return s
}

// charString is a <character-string> in presentation format.
func (g *gen) charString() string {
	n := g.smallLen()
	if g.chance(2) {
		n = 255
	}
	if g.badData && g.chance(5) {
		n = 256 + g.rng.IntN(20)
	}
	var sb strings.Builder
	for i := 0; i < n; i++ {
		switch g.rng.IntN(40) {
		case 0:
			sb.WriteString(`\"`)
		case 1:
			sb.WriteString(`\\`)
		case 2:
			fmt.Fprintf(&sb, `\%03d`, g.rng.IntN(256))
		case 3:
			sb.WriteByte(byte(0x80 + g.rng.IntN(0x80)))
		case 4:
			sb.WriteByte(' ')
		default:
			sb.WriteByte(byte(0x21 + g.rng.IntN(0x5e)))
		}
	}
	s := sb.String()
	if g.badData && g.chance(3) {
		s += `\\`[:1] // a stray trailing backslash
	}
	return s
}

func (g *gen) hexString() string {
	n := g.smallLen()
	s := hex.EncodeToString(g.bytesN(n))
	if g.chance(30) {
		s = strings.ToUpper(s)
	}
	if g.badData && g.chance(5) {
		s += "f" // odd length
	}
	return s
}

func (g *gen) b64String() string {
	n := g.smallLen()
	if g.chance(10) {
		n = 128 + g.rng.IntN(200)
	}
	s := base64.StdEncoding.EncodeToString(g.bytesN(n))
	if g.badData && g.chance(5) {
		s += "!"
	}
	return s
}

var b32 = base32.HexEncoding.WithPadding(base32.NoPadding)

func (g *gen) b32String() string {
	n := 20
	if g.chance(30) {
		n = g.smallLen()
	}
	s := b32.EncodeToString(g.bytesN(n))
	if g.chance(40) {
		s = strings.ToLower(s)
	}
	return s
}

func (g *gen) ip4() net.IP {
	b := g.bytesN(4)
	switch g.rng.IntN(10) {
	case 0:
		return net.IP(b).To16() // 16-byte form of a v4 address
	case 1:
		if g.badData {
			return g.bytesN(5)
		}
		return nil
	case 2:
		return nil
	}
	return net.IP(b)
}

func (g *gen) ip6() net.IP {
	switch g.rng.IntN(12) {
	case 0:
		return nil
	case 1:
		if g.badData {
			return g.bytesN(4) // wrong family
		}
	case 2:
		return net.IP(g.bytesN(4)).To16() // v4-mapped
	}
	return net.IP(g.bytesN(16))
}

func (g *gen) typeBitmap() []uint16 {
	n := g.rng.IntN(12)
	set := map[uint16]bool{}
	for i := 0; i < n; i++ {
		var t uint16
		switch g.rng.IntN(4) {
		case 0:
			t = uint16(g.rng.IntN(65536))
		case 1:
			t = uint16(g.rng.IntN(8)) * 256
		default:
			t = uint16(1 + g.rng.IntN(260))
		}
		set[t] = true
	}
	out := make([]uint16, 0, len(set))
	for t := range set {
		out = append(out, t)
	}
	sort.Slice(out, func(i, j int) bool { return out[i] < out[j] })
	if g.chance(10) && g.chance(50) {
		out = []uint16{}
	}
	if g.badData && g.chance(8) && len(out) > 1 {
		out[0], out[len(out)-1] = out[len(out)-1], out[0]
	}
	if len(out) == 0 && g.chance(50) {
		return nil
	}
	return out
}

func (g *gen) uintBits(bits int) uint64 {
	max := uint64(1)<<uint(bits) - 1
	if bits == 64 {
		max = ^uint64(0)
	}
	switch g.rng.IntN(8) {
	case 0:
		return 0
	case 1:
		return max
	case 2:
		return 1
	case 3:
		return max - 1
	}
	return g.rng.Uint64() & max
}

func (g *gen) apl() []dns.APLPrefix {
	n := g.rng.IntN(4)
	var out []dns.APLPrefix
	for i := 0; i < n; i++ {
		var p dns.APLPrefix
		p.Negation = g.chance(30)
		if g.chance(50) {
			ones := g.rng.IntN(33)
			p.Network = net.IPNet{IP: net.IP(g.bytesN(4)).Mask(net.CIDRMask(ones, 32)), Mask: net.CIDRMask(ones, 32)}
		} else {
			ones := g.rng.IntN(129)
			p.Network = net.IPNet{IP: net.IP(g.bytesN(16)).Mask(net.CIDRMask(ones, 128)), Mask: net.CIDRMask(ones, 128)}
		}
		if g.badData && g.chance(5) {
			p.Network.IP = g.bytesN(7)
		}
		out = append(out, p)
	}
	return out
}

// ---- EDNS0 options ----------------------------------------------------------

const nOptKinds = 17

func (g *gen) ednsOption(kind int) dns.EDNS0 {
	switch kind {
	case 0:
		return &dns.EDNS0_NSID{Code: dns.EDNS0NSID, Nsid: hex.EncodeToString(g.bytesN(g.smallLen()))}
	case 1:
		e := &dns.EDNS0_SUBNET{Code: dns.EDNS0SUBNET}
		if g.chance(50) {
			e.Family = 1
			e.SourceNetmask = uint8(g.rng.IntN(33))
			e.Address = net.IP(g.bytesN(4)).Mask(net.CIDRMask(int(e.SourceNetmask), 32))
		} else {
			e.Family = 2
			e.SourceNetmask = uint8(g.rng.IntN(129))
			e.Address = net.IP(g.bytesN(16)).Mask(net.CIDRMask(int(e.SourceNetmask), 128))
		}
		e.SourceScope = uint8(g.rng.IntN(33))
		if g.chance(8) {
			e.Family, e.SourceNetmask, e.Address = 0, 0, nil
		}
		if g.badData && g.chance(10) {
			e.Family = 3
		}
		return e
	case 2:
		n := 8
		if g.chance(60) {
			n = 16 + g.rng.IntN(17)
		}
		return &dns.EDNS0_COOKIE{Code: dns.EDNS0COOKIE, Cookie: hex.EncodeToString(g.bytesN(n))}
	case 3:
		return &dns.EDNS0_UL{Code: dns.EDNS0UL, Lease: uint32(g.uintBits(32)), KeyLease: uint32(g.uintBits(32))}
	case 4:
		return &dns.EDNS0_LLQ{Code: dns.EDNS0LLQ, Version: uint16(g.uintBits(16)), Opcode: uint16(g.uintBits(16)),
			Error: uint16(g.uintBits(16)), Id: g.uintBits(64), LeaseLife: uint32(g.uintBits(32))}
	case 5:
		return &dns.EDNS0_DAU{Code: dns.EDNS0DAU, AlgCode: g.bytesN(g.rng.IntN(6))}
	case 6:
		return &dns.EDNS0_DHU{Code: dns.EDNS0DHU, AlgCode: g.bytesN(g.rng.IntN(6))}
	case 7:
		return &dns.EDNS0_N3U{Code: dns.EDNS0N3U, AlgCode: g.bytesN(g.rng.IntN(6))}
	case 8:
		return &dns.EDNS0_EXPIRE{Code: dns.EDNS0EXPIRE, Expire: uint32(g.uintBits(32)), Empty: g.chance(30)}
	case 9: // local / experimental range
		return &dns.EDNS0_LOCAL{Code: uint16(dns.EDNS0LOCALSTART + g.rng.IntN(dns.EDNS0LOCALEND-dns.EDNS0LOCALSTART+1)), Data: g.bytesN(g.smallLen())}
	case 10: // unknown, unassigned code
		codes := []uint16{0, 4, 17, 100, 20000, 65535, dns.EDNS0NSID}
		var data []byte
		if g.chance(80) {
			data = g.bytesN(g.smallLen())
		}
		return &dns.EDNS0_LOCAL{Code: codes[g.rng.IntN(len(codes))], Data: data}
	case 11:
		return &dns.EDNS0_TCP_KEEPALIVE{Code: dns.EDNS0TCPKEEPALIVE, Timeout: uint16(g.uintBits(16)), Length: uint16(g.rng.IntN(3))}
	case 12:
		var pad []byte
		if g.chance(85) {
			pad = make([]byte, g.rng.IntN(300))
			if g.chance(30) {
				copy(pad, g.bytesN(len(pad)))
			}
		}
		return &dns.EDNS0_PADDING{Padding: pad}
	case 13:
		return &dns.EDNS0_EDE{InfoCode: uint16(g.rng.IntN(40)), ExtraText: g.charString()}
	case 14:
		return &dns.EDNS0_ESU{Code: dns.EDNS0ESU, Uri: "sip:" + g.charString() + "@example.com"}
	case 15:
		return &dns.EDNS0_REPORTING{Code: dns.EDNS0REPORTING, AgentDomain: g.name()}
	default:
		return &dns.EDNS0_ZONEVERSION{Code: dns.EDNS0ZONEVERSION, LabelCount: uint8(g.rng.IntN(8)), Type: uint8(g.rng.IntN(3)),
			Version: string(g.bytesN(g.rng.IntN(9)))}
	}
}

var optKindNames = []string{"NSID", "SUBNET", "COOKIE", "UL", "LLQ", "DAU", "DHU", "N3U", "EXPIRE", "LOCAL", "UNKNOWN",
	"TCP_KEEPALIVE", "PADDING", "EDE", "ESU", "REPORTING", "ZONEVERSION"}

func (g *gen) opt(rcode int, cover func(string)) *dns.OPT {
	o := new(dns.OPT)
	o.Hdr.Name = "."
	if g.chance(4) {
		o.Hdr.Name = g.name()
	}
	o.Hdr.Rrtype = dns.TypeOPT
	o.Hdr.Class = []uint16{512, 1232, 4096, 65535, 0}[g.rng.IntN(5)]
	o.Hdr.Rdlength = uint16(g.uintBits(16))
	// TTL: ext-rcode | version | DO | Z — sometimes stale bits the library must clear/overwrite
	switch g.rng.IntN(4) {
	case 0:
		o.Hdr.Ttl = 0
	case 1:
		o.Hdr.Ttl = 0x8000
	case 2:
		o.Hdr.Ttl = uint32(g.uintBits(32))
	default:
		o.Hdr.Ttl = uint32(rcode>>4)<<24 | uint32(g.rng.IntN(2))<<15
	}
	n := 0
	switch g.rng.IntN(6) {
	case 0:
	case 1, 2:
		n = 1
	case 3, 4:
		n = 2 + g.rng.IntN(3)
	default:
		n = nOptKinds // every kind at once
	}
	if n == 0 {
		if g.chance(50) {
			o.Option = []dns.EDNS0{}
		}
		return o
	}
	if n == nOptKinds {
		for k := 0; k < nOptKinds; k++ {
			o.Option = append(o.Option, g.ednsOption(k))
			cover("edns:" + optKindNames[k])
		}
		return o
	}
	for i := 0; i < n; i++ {
		k := g.rng.IntN(nOptKinds)
		o.Option = append(o.Option, g.ednsOption(k))
		cover("edns:" + optKindNames[k])
	}
	return o
}

// ---- SVCB key/values --------------------------------------------------------

const nSvcbKinds = 11

var svcbKindNames = []string{"mandatory", "alpn", "no-default-alpn", "port", "ipv4hint", "ech", "ipv6hint", "dohpath", "ohttp", "local", "local-high"}

func (g *gen) svcbValue(kind int) dns.SVCBKeyValue {
	switch kind {
	case 0:
		keys := []dns.SVCBKey{dns.SVCB_ALPN, dns.SVCB_PORT, dns.SVCB_IPV4HINT, dns.SVCB_ECHCONFIG, dns.SVCB_IPV6HINT, 667}
		n := 1 + g.rng.IntN(len(keys))
		out := append([]dns.SVCBKey{}, keys[:n]...)
		if g.chance(20) { // unsorted: the library sorts a copy
			out[0], out[n-1] = out[n-1], out[0]
		}
		return &dns.SVCBMandatory{Code: out}
	case 1:
		n := 1 + g.rng.IntN(3)
		var a []string
		for i := 0; i < n; i++ {
			a = append(a, []string{"h2", "h3", "http/1.1", "dot", `a\,b`, "x"}[g.rng.IntN(6)])
		}
		if g.badData && g.chance(10) {
			a = append(a, "")
		}
		return &dns.SVCBAlpn{Alpn: a}
	case 2:
		return &dns.SVCBNoDefaultAlpn{}
	case 3:
		return &dns.SVCBPort{Port: uint16(g.uintBits(16))}
	case 4:
		n := 1 + g.rng.IntN(3)
		var h []net.IP
		for i := 0; i < n; i++ {
			h = append(h, net.IP(g.bytesN(4)))
		}
		if g.chance(15) {
			h[0] = h[0].To16()
		}
		return &dns.SVCBIPv4Hint{Hint: h}
	case 5:
		return &dns.SVCBECHConfig{ECH: g.bytesN(g.smallLen())}
	case 6:
		n := 1 + g.rng.IntN(3)
		var h []net.IP
		for i := 0; i < n; i++ {
			h = append(h, net.IP(g.bytesN(16)))
		}
		return &dns.SVCBIPv6Hint{Hint: h}
	case 7:
		return &dns.SVCBDoHPath{Template: "/dns-query{?dns}" + g.charString()}
	case 8:
		return &dns.SVCBOhttp{}
	case 9:
		return &dns.SVCBLocal{KeyCode: dns.SVCBKey(9 + g.rng.IntN(600)), Data: g.bytesN(g.smallLen())}
	default:
		return &dns.SVCBLocal{KeyCode: dns.SVCBKey(65280 + g.rng.IntN(255)), Data: g.bytesN(g.smallLen())}
	}
}

func (g *gen) svcbPairs(cover func(string)) []dns.SVCBKeyValue {
	var out []dns.SVCBKeyValue
	switch g.rng.IntN(5) {
	case 0:
		if g.chance(50) {
			return nil
		}
		return []dns.SVCBKeyValue{}
	case 1: // every kind once
		for k := 0; k < nSvcbKinds; k++ {
			out = append(out, g.svcbValue(k))
			cover("svcb:" + svcbKindNames[k])
		}
	default:
		used := map[int]bool{}
		n := 1 + g.rng.IntN(4)
		for i := 0; i < n; i++ {
			k := g.rng.IntN(nSvcbKinds)
			if used[k] && !(g.badData && g.chance(30)) {
				continue
			}
			used[k] = true
			out = append(out, g.svcbValue(k))
			cover("svcb:" + svcbKindNames[k])
		}
	}
	// order in the slice is free (the library sorts a copy); shuffle sometimes
	if g.chance(40) {
		g.rng.Shuffle(len(out), func(i, j int) { out[i], out[j] = out[j], out[i] })
	}
	return out
}

// ---- reflection filler -------------------------------------------------------

var (
	hdrType = reflect.TypeOf(dns.RR_Header{})
	ipType  = reflect.TypeOf(net.IP(nil))
)

func (g *gen) fillStruct(v reflect.Value, cover func(string)) {
	t := v.Type()
	for i := 0; i < v.NumField(); i++ {
		sf := t.Field(i)
		f := v.Field(i)
		if sf.Type == hdrType {
			continue
		}
		if sf.Anonymous && f.Kind() == reflect.Struct {
			g.fillStruct(f, cover)
			continue
		}
		if !f.CanSet() {
			continue
		}
		tag := sf.Tag.Get("dns")
		base, arg := tag, ""
		if k := strings.IndexByte(tag, ':'); k >= 0 {
			base, arg = tag[:k], tag[k+1:]
		}
		switch base {
		case "-":
			continue
		case "domain-name", "cdomain-name":
			if f.Kind() == reflect.Slice {
				n := g.rng.IntN(3)
				s := make([]string, 0, n)
				for j := 0; j < n; j++ {
					s = append(s, g.name())
				}
				if n > 0 || g.chance(50) {
					f.Set(reflect.ValueOf(s))
				}
			} else {
				f.SetString(g.name())
			}
		case "txt":
			n := g.rng.IntN(4)
			if g.chance(5) {
				n = 10 + g.rng.IntN(10)
			}
			var s []string
			for j := 0; j < n; j++ {
				s = append(s, g.charString())
			}
			if n == 0 && g.chance(50) {
				s = []string{}
			}
			f.Set(reflect.ValueOf(s))
		case "octet":
			f.SetString(g.charString())
		case "any":
			f.SetString(string(g.bytesN(g.smallLen())))
		case "hex":
			f.SetString(g.hexString())
		case "base64":
			f.SetString(g.b64String())
		case "base32":
			f.SetString(g.b32String())
		case "size-hex", "size-base64", "size-base32":
			var s string
			var n int
			switch base {
			case "size-hex":
				s = g.hexString()
				n = len(s) / 2
				if sf.Name == "Salt" && g.chance(25) {
					s, n = "-", 0
					if g.chance(30) {
						s = ""
					}
				}
			case "size-base64":
				s = g.b64String()
				n = base64.StdEncoding.DecodedLen(len(s))
				if b, err := base64.StdEncoding.DecodeString(s); err == nil {
					n = len(b)
				}
			default:
				s = g.b32String()
				n = b32.DecodedLen(len(s))
			}
			f.SetString(s)
			if lf := v.FieldByName(arg); lf.IsValid() && lf.CanSet() && g.chance(80) {
				lf.SetUint(uint64(n) & (1<<uint(lf.Type().Bits()) - 1))
			}
		case "a":
			f.Set(reflect.ValueOf(g.ip4()))
		case "aaaa":
			f.Set(reflect.ValueOf(g.ip6()))
		case "nsec":
			f.Set(reflect.ValueOf(g.typeBitmap()))
		case "uint48":
			x := g.uintBits(48)
			if g.badData && g.chance(5) {
				x |= 1 << 50
			}
			f.SetUint(x)
		case "apl":
			f.Set(reflect.ValueOf(g.apl()))
		case "pairs":
			f.Set(reflect.ValueOf(g.svcbPairs(cover)))
		case "opt":
			// OPT is built by g.opt
		case "ipsechost", "amtrelayhost":
			// set by fixGateway
		default:
			switch f.Kind() {
			case reflect.Uint8, reflect.Uint16, reflect.Uint32, reflect.Uint64:
				f.SetUint(g.uintBits(f.Type().Bits()))
			case reflect.String:
				f.SetString(g.charString())
			case reflect.Bool:
				f.SetBool(g.chance(50))
			case reflect.Slice:
				if f.Type() == ipType {
					f.Set(reflect.ValueOf(g.ip4()))
				}
			}
		}
	}
}

// fixGateway makes IPSECKEY / AMTRELAY gateway fields consistent with the type.
func (g *gen) fixGateway(rr dns.RR) {
	set := func(gt *uint8, addr *net.IP, host *string, amt bool) {
		k := g.rng.IntN(4)
		*gt = uint8(k)
		*addr, *host = nil, ""
		switch k {
		case 1:
			*addr = net.IP(g.bytesN(4))
		case 2:
			*addr = net.IP(g.bytesN(16))
		case 3:
			*host = g.name()
		}
		if amt && g.chance(30) {
			*gt |= 0x80
		}
		if g.badData && g.chance(5) {
			*gt = uint8(4 + g.rng.IntN(100))
		}
	}
	switch r := rr.(type) {
	case *dns.IPSECKEY:
		set(&r.GatewayType, &r.GatewayAddr, &r.GatewayHost, false)
	case *dns.AMTRELAY:
		set(&r.GatewayType, &r.GatewayAddr, &r.GatewayHost, true)
	}
}

func (g *gen) header(rr dns.RR, t uint16) {
	h := rr.Header()
	h.Name = g.name()
	h.Rrtype = t
	switch g.rng.IntN(12) {
	case 0:
		h.Class = dns.ClassANY
	case 1:
		h.Class = dns.ClassNONE
	case 2:
		h.Class = uint16(g.uintBits(16))
	default:
		h.Class = dns.ClassINET
	}
	switch g.rng.IntN(6) {
	case 0:
		h.Ttl = 0
	case 1:
		h.Ttl = uint32(g.uintBits(32))
	default:
		h.Ttl = uint32(g.rng.IntN(86400))
	}
	// whatever the caller left here must survive the pack
	h.Rdlength = uint16(g.uintBits(16))
}

// record builds one library record of type t (t from libTypes, or the specials).
func (g *gen) record(t uint16, cover func(string)) dns.RR {
	f := dns.TypeToRR[t]
	if f == nil {
		r := &dns.RFC3597{Rdata: g.hexString()}
		g.header(r, t)
		cover("rr:RFC3597")
		return r
	}
	rr := f()
	g.fillStruct(reflect.ValueOf(rr).Elem(), cover)
	g.fixGateway(rr)
	g.header(rr, t)
	// a record whose header type disagrees with its Go type
	if g.chance(1) {
		rr.Header().Rrtype = []uint16{dns.TypeA, dns.TypeAAAA, dns.TypeTXT, 65000}[g.rng.IntN(4)]
	}
	cover("rr:" + dns.Type(t).String())
	return rr
}

var commonTypes = []uint16{dns.TypeA, dns.TypeAAAA, dns.TypeNS, dns.TypeCNAME, dns.TypeSOA, dns.TypeMX, dns.TypeTXT,
	dns.TypeRRSIG, dns.TypeNSEC, dns.TypeNSEC3, dns.TypeDS, dns.TypeDNSKEY, dns.TypeSVCB, dns.TypeHTTPS, dns.TypePTR, dns.TypeSRV}

func (g *gen) anyRecord(cover func(string)) dns.RR {
	switch r := g.rng.IntN(100); {
	case r < 55:
		return g.record(libTypes[g.rng.IntN(len(libTypes))], cover)
	case r < 93:
		return g.record(commonTypes[g.rng.IntN(len(commonTypes))], cover)
	case r < 96: // unknown type → RFC3597
		return g.record(uint16(300+g.rng.IntN(60000)), cover)
	case r < 98: // a bare header used as a record (dynamic update style)
		h := &dns.RR_Header{}
		g.header(h, commonTypes[g.rng.IntN(len(commonTypes))])
		if g.chance(50) {
			h.Rdlength = 0
		}
		cover("rr:RR_Header")
		return h
	default: // OPT as an ordinary record, wherever it lands
		cover("rr:OPT")
		return g.opt(g.rng.IntN(4096), cover)
	}
}

func (g *gen) sectionLen() int {
	switch g.rng.IntN(10) {
	case 0, 1, 2:
		return 0
	case 3, 4, 5:
		return 1
	case 6, 7:
		return 2 + g.rng.IntN(3)
	case 8:
		return 5 + g.rng.IntN(8)
	default:
		return 12 + g.rng.IntN(20)
	}
}

func ulen(m *dns.Msg) int {
	p := *m
	p.Compress = false
	return p.Len()
}

// padTo grows the message with NULL/TXT filler until its uncompressed length
// is exactly target (when reachable).
func (g *gen) padTo(m *dns.Msg, target int) {
	for iter := 0; iter < 2000; iter++ {
		rem := target - ulen(m)
		if rem <= 0 {
			return
		}
		owner := "."
		if len(g.names) > 0 && g.chance(70) {
			owner = g.names[g.rng.IntN(len(g.names))]
		}
		probe := &dns.NULL{Hdr: dns.RR_Header{Name: owner, Rrtype: dns.TypeNULL, Class: dns.ClassINET}}
		overhead := (&dns.Msg{Answer: []dns.RR{probe}}).Len() - 12
		if rem < overhead+1 {
			if g.lastPad != nil {
				g.lastPad.Data += string(g.bytesN(rem))
				continue
			}
			owner = "."
			overhead = 11
			if rem < overhead {
				return
			}
		}
		max := rem - overhead
		n := max
		if max > 64 {
			chunk := 200 + g.rng.IntN(1800)
			if target > 20000 {
				chunk = 2000 + g.rng.IntN(9000)
			}
			if chunk < max {
				n = chunk
			}
		}
		var rr dns.RR
		if g.chance(25) && n >= 2 && n < 2000 {
			// TXT filler: strings of ≤255 octets, one length octet each
			var txt []string
			left := n
			for left > 0 {
				k := left - 1
				if k > 255 {
					k = 255
				}
				txt = append(txt, strings.Repeat("p", k))
				left -= k + 1
			}
			rr = &dns.TXT{Hdr: dns.RR_Header{Name: owner, Rrtype: dns.TypeTXT, Class: dns.ClassINET, Ttl: 60, Rdlength: 7}, Txt: txt}
		} else {
			nl := &dns.NULL{Hdr: dns.RR_Header{Name: owner, Rrtype: dns.TypeNULL, Class: dns.ClassINET, Ttl: 60, Rdlength: 9},
				Data: string(g.bytesN(n))}
			g.lastPad = nl
			rr = nl
		}
		switch g.rng.IntN(3) {
		case 0:
			m.Answer = append(m.Answer, rr)
		case 1:
			m.Ns = append(m.Ns, rr)
		default:
			// keep a trailing OPT last if there is one
			if k := len(m.Extra); k > 0 && g.chance(70) {
				if _, isOpt := m.Extra[k-1].(*dns.OPT); isOpt {
					m.Extra = append(m.Extra[:k-1:k-1], rr, m.Extra[k-1])
					continue
				}
			}
			m.Extra = append(m.Extra, rr)
		}
	}
}

func (g *gen) question() dns.Question {
	q := dns.Question{Name: g.name(), Qclass: dns.ClassINET}
	if g.chance(60) {
		q.Qtype = commonTypes[g.rng.IntN(len(commonTypes))]
	} else {
		q.Qtype = uint16(g.uintBits(16))
	}
	if g.chance(5) {
		q.Qclass = uint16(g.uintBits(16))
	}
	return q
}

func (g *gen) msgHeader(m *dns.Msg) {
	m.Id = uint16(g.uintBits(16))
	bits := g.rng.Uint32()
	if g.chance(30) {
		bits = 0
	}
	m.Response = bits&1 != 0 || g.chance(50)
	m.Authoritative = bits&2 != 0
	m.Truncated = bits&4 != 0
	m.RecursionDesired = bits&8 != 0
	m.RecursionAvailable = bits&16 != 0
	m.Zero = bits&32 != 0
	m.AuthenticatedData = bits&64 != 0
	m.CheckingDisabled = bits&128 != 0
	switch g.rng.IntN(20) {
	case 0:
		m.Opcode = g.rng.IntN(16)
	case 1:
		m.Opcode = 16 + g.rng.IntN(100)
	case 2:
		m.Opcode = -1 - g.rng.IntN(5)
	case 3:
		m.Opcode = dns.OpcodeUpdate
	default:
		m.Opcode = dns.OpcodeQuery
	}
	switch r := g.rng.IntN(100); {
	case r < 35:
		m.Rcode = 0
	case r < 60:
		m.Rcode = g.rng.IntN(16)
	case r < 90:
		m.Rcode = 16 + g.rng.IntN(4080)
	case r < 93:
		m.Rcode = 4095
	case r < 95:
		m.Rcode = 16
	default:
		m.Rcode = []int{-1, 4096, 70000, -4096, 1 << 20}[g.rng.IntN(5)]
	}
	m.Compress = g.chance(65)
}

// structured builds one message. cover(key) records coverage keys.
func (g *gen) structured(cover func(string)) (*dns.Msg, meta) {
	var mt meta
	mt.Kind = "structured"
	g.seedNames()
	g.badNames = g.chance(6)
	g.badData = g.chance(8)
	g.lastPad = nil
	m := new(dns.Msg)
	g.msgHeader(m)

	switch r := g.rng.IntN(100); {
	case r < 8:
	case r < 78:
		m.Question = []dns.Question{g.question()}
	case r < 90:
		m.Question = []dns.Question{g.question(), g.question()}
	default:
		m.Question = []dns.Question{g.question(), g.question(), g.question()}
	}
	if len(m.Question) > 1 && g.chance(60) {
		// repeated / suffix-sharing question names: compressible without any record
		m.Question[1].Name = m.Question[0].Name
		if len(m.Question) > 2 && g.chance(50) {
			m.Question[2].Name = "sub." + m.Question[0].Name
			if m.Question[0].Name == "." || m.Question[0].Name == "" {
				m.Question[2].Name = "sub."
			}
		}
	}
	if len(m.Question) == 0 && g.chance(50) {
		m.Question = []dns.Question{}
	}

	empty := g.chance(12) // header+questions only
	if !empty {
		for i, n := 0, g.sectionLen(); i < n; i++ {
			m.Answer = append(m.Answer, g.anyRecord(cover))
		}
		for i, n := 0, g.sectionLen(); i < n; i++ {
			m.Ns = append(m.Ns, g.anyRecord(cover))
		}
		for i, n := 0, g.sectionLen(); i < n; i++ {
			m.Extra = append(m.Extra, g.anyRecord(cover))
		}
		// an RRset: the same owner/type several times (the common compressible shape)
		if g.chance(30) {
			owner := g.name()
			for i, n := 0, 2+g.rng.IntN(6); i < n; i++ {
				a := &dns.A{A: net.IP(g.bytesN(4))}
				g.header(a, dns.TypeA)
				a.Hdr.Name = owner
				m.Answer = append(m.Answer, a)
			}
			cover("rr:A")
		}
	}

	// OPT shape
	mt.OptShape = "none"
	wantOpt := !empty && g.chance(55) || empty && g.chance(20)
	if m.Rcode > 15 && m.Rcode <= 4095 && g.chance(80) {
		wantOpt = true
	}
	if wantOpt {
		o := g.opt(m.Rcode, cover)
		cover("rr:OPT")
		switch r := g.rng.IntN(100); {
		case r < 55:
			m.Extra = append(m.Extra, o)
			mt.OptShape = "last"
		case r < 68:
			m.Extra = append([]dns.RR{o}, m.Extra...)
			mt.OptShape = "first"
			if len(m.Extra) == 1 {
				mt.OptShape = "last"
			}
		case r < 84:
			o2 := g.opt(g.rng.IntN(4096), cover)
			m.Extra = append(m.Extra, o)
			if g.chance(50) && len(m.Extra) > 1 {
				m.Extra = append([]dns.RR{o2}, m.Extra...)
			} else {
				m.Extra = append(m.Extra, o2)
			}
			if g.chance(30) {
				m.Extra = append(m.Extra, g.opt(g.rng.IntN(4096), cover))
			}
			mt.OptShape = "multi"
		case r < 90:
			m.Answer = append(m.Answer, o)
			mt.OptShape = "answer-only"
		case r < 96: // the same object in two sections
			m.Extra = append(m.Extra, o)
			if g.chance(50) {
				m.Answer = append(m.Answer, o)
			} else {
				m.Ns = append([]dns.RR{o}, m.Ns...)
			}
			mt.OptShape = "aliased"
		default: // the same object twice in Extra plus another OPT
			m.Extra = append(m.Extra, o, g.opt(g.rng.IntN(4096), cover), o)
			mt.OptShape = "aliased-multi"
		}
	}

	// size class
	mt.SizeCls = "natural"
	switch r := g.rng.IntN(1000); {
	case r < 90:
		mt.Target = 4085 + g.rng.IntN(24) // 4085..4108: tight around the boundary
		mt.SizeCls = "boundary"
	case r < 170:
		mt.Target = 4000 + g.rng.IntN(201)
		mt.SizeCls = "straddle"
	case r < 230:
		mt.Target = 1000 + g.rng.IntN(3000)
		mt.SizeCls = "mid"
	case r < 236:
		mt.Target = 60000 + g.rng.IntN(6000)
		mt.SizeCls = "huge"
	case r < 250:
		mt.Target = 4300 + g.rng.IntN(12000)
		mt.SizeCls = "large"
	}
	if mt.Target > 0 {
		func() {
			defer func() { _ = recover() }() // Len on odd shapes is the library's business
			g.padTo(m, mt.Target)
		}()
	}

	// foreign / nil records, injected last so the size probe never walks them
	if g.chance(9) {
		mt.Foreign = g.injectForeign(m, cover)
	}
	// a library OPT whose header does not say OPT (drawn last: every earlier
	// draw of the case stays what it was)
	if g.chance(8) && mt.Foreign == "" {
		g.mislabelOPT(m, &mt, cover)
	}
	return m, mt
}

// mislabelOPT makes the Go type and the header type of an OPT disagree: a
// *dns.OPT in Extra whose Hdr.Rrtype is not 41 (a record built with
// new(dns.OPT) and never stamped, or stamped wrong). The library selects the
// EDNS record by header type only, so such a record is an ordinary record to
// it: it never carries the extended rcode, its TTL is written as it stands,
// and a properly typed OPT elsewhere in Extra stays the selected one. The
// step combines the stray record with what makes the selection observable:
// an extended rcode, stale bits in the TTL's top octet, a typed OPT in front.
func (g *gen) mislabelOPT(m *dns.Msg, mt *meta, cover func(string)) {
	mayGrow := mt.SizeCls == "natural" || mt.SizeCls == "mid"
	var cand []int
	for i, rr := range m.Extra {
		if o, ok := rr.(*dns.OPT); ok && o != nil {
			cand = append(cand, i)
		}
	}
	var stray *dns.OPT
	at := -1
	how := "restamped"
	switch {
	case len(cand) > 0 && (!mayGrow || g.chance(75)):
		at = cand[len(cand)-1]
		if g.chance(40) {
			at = cand[g.rng.IntN(len(cand))]
		}
		stray = m.Extra[at].(*dns.OPT)
	case mayGrow:
		if g.chance(50) {
			stray = new(dns.OPT) // never stamped at all
			stray.Hdr.Name = "."
			if g.chance(50) {
				stray.Hdr.Class = 1232
			}
			how = "unstamped"
		} else {
			stray = g.opt(m.Rcode, cover)
			how = "added"
		}
		at = len(m.Extra)
		if g.chance(30) {
			at = g.rng.IntN(len(m.Extra) + 1)
		}
		m.Extra = insertAt(m.Extra, at, stray)
	default:
		return
	}
	if how != "unstamped" {
		switch g.rng.IntN(5) {
		case 0:
			stray.Hdr.Rrtype = 0
		case 1:
			stray.Hdr.Rrtype = dns.TypeA
		case 2:
			stray.Hdr.Rrtype = dns.TypeTXT
		case 3:
			stray.Hdr.Rrtype = dns.TypeNULL
		default:
			stray.Hdr.Rrtype = uint16(g.uintBits(16))
			if stray.Hdr.Rrtype == dns.TypeOPT {
				stray.Hdr.Rrtype = 65001
			}
		}
	}
	// a typed OPT in front of the stray one
	if mayGrow && g.chance(45) {
		typedBefore := false
		for _, rr := range m.Extra[:at] {
			if o, ok := rr.(*dns.OPT); ok && o != nil && o != stray && o.Hdr.Rrtype == dns.TypeOPT {
				typedBefore = true
			}
		}
		if !typedBefore {
			m.Extra = insertAt(m.Extra, g.rng.IntN(at+1), g.opt(m.Rcode, cover))
			how += "+typed-before"
		}
	}
	if g.chance(50) {
		stray.Hdr.Ttl |= uint32(1+g.rng.IntN(255)) << 24
		how += "+stale-ttl"
	}
	if m.Rcode >= 0 && m.Rcode <= 15 && g.chance(45) {
		m.Rcode = 16 + g.rng.IntN(4080)
		how += "+ext-rcode"
	}
	mt.Mislabel = how
	mt.OptShape += "/mislabelled"
	cover("mislabel:opt-" + strings.SplitN(how, "+", 2)[0])
}

func (g *gen) pickSection(m *dns.Msg) *[]dns.RR {
	switch g.rng.IntN(3) {
	case 0:
		return &m.Answer
	case 1:
		return &m.Ns
	}
	return &m.Extra
}

func insertAt(s []dns.RR, i int, rr dns.RR) []dns.RR {
	out := make([]dns.RR, 0, len(s)+1)
	out = append(out, s[:i]...)
	out = append(out, rr)
	return append(out, s[i:]...)
}

func (g *gen) injectForeign(m *dns.Msg, cover func(string)) string {
	sec := g.pickSection(m)
	pos := g.rng.IntN(len(*sec) + 1)
	kind := g.rng.IntN(10)
	var rr dns.RR
	var name string
	switch kind {
	case 0:
		rr, name = nil, "nil"
	case 1:
		rr, name = (*dns.A)(nil), "typed-nil"
	case 2:
		p := privFactory()
		g.header(p, privType)
		p.(*dns.PrivateRR).Data.(*privRdata).Data = g.bytesN(g.smallLen())
		rr, name = p, "private"
	case 3:
		rr, name = &wrapRR{g.record(commonTypes[g.rng.IntN(len(commonTypes))], cover)}, "wrapper"
	case 4: // OPT-shaped wrapper, usually where IsEdns0 looks
		if g.chance(70) {
			sec = &m.Extra
			pos = len(m.Extra)
		}
		rr, name = &wrapOPT{g.opt(m.Rcode, cover)}, "opt-wrapper"
	case 5: // a library record wearing the OPT type
		a := &dns.A{A: net.IP(g.bytesN(4))}
		g.header(a, dns.TypeOPT)
		if g.chance(70) {
			sec = &m.Extra
			pos = g.rng.IntN(len(m.Extra) + 1)
		}
		rr, name = a, "opt-typed-A"
	case 6: // library OPT carrying a foreign option
		o := g.opt(m.Rcode, cover)
		o.Option = append(o.Option, &wrapEDNS0{g.ednsOption(g.rng.IntN(nOptKinds))})
		if g.chance(60) {
			sec = &m.Extra
			pos = len(m.Extra)
		}
		rr, name = o, "opt-foreign-option"
	case 7: // OPT with a nil / typed-nil option
		o := g.opt(m.Rcode, cover)
		if g.chance(50) {
			o.Option = append(o.Option, nil)
		} else {
			o.Option = append(o.Option, (*dns.EDNS0_NSID)(nil))
		}
		if g.chance(60) {
			sec = &m.Extra
			pos = len(m.Extra)
		}
		rr, name = o, "opt-nil-option"
	case 8: // SVCB/HTTPS with a foreign or nil key/value
		s := &dns.SVCB{Priority: 1, Target: g.name()}
		g.header(s, dns.TypeSVCB)
		switch g.rng.IntN(3) {
		case 0:
			s.Value = []dns.SVCBKeyValue{&wrapKV{&dns.SVCBPort{Port: 443}}}
		case 1:
			s.Value = []dns.SVCBKeyValue{&dns.SVCBPort{Port: 443}, nil}
		default:
			s.Value = []dns.SVCBKeyValue{(*dns.SVCBAlpn)(nil)}
		}
		if g.chance(50) {
			h := &dns.HTTPS{SVCB: *s}
			h.Hdr.Rrtype = dns.TypeHTTPS
			rr, name = h, "https-foreign-value"
		} else {
			rr, name = s, "svcb-foreign-value"
		}
	default: // a bare header wearing the OPT type
		h := &dns.RR_Header{}
		g.header(h, dns.TypeOPT)
		sec = &m.Extra
		pos = g.rng.IntN(len(m.Extra) + 1)
		rr, name = h, "opt-typed-header"
	}
	*sec = insertAt(*sec, pos, rr)
	cover("foreign:" + name)
	return name
}

// realistic builds a resolver-shaped response: one question, an answer RRset
// with its RRSIG, authority NS (+RRSIG / NSEC), glue, optionally an OPT. This
// is the shape whose cache entry also stores a DNSSEC-stripped body.
func (g *gen) realistic(cover func(string)) (*dns.Msg, meta) {
	mt := meta{Kind: "realistic", OptShape: "none", SizeCls: "natural"}
	g.badNames, g.badData, g.lastPad = false, false, nil
	zone := []string{"example.com.", "example.org.", "sub.example.net.", "test."}[g.rng.IntN(4)]
	g.names = append(g.names[:0], zone, "www."+zone, "ns1."+zone, "ns2."+zone)
	qname := g.names[g.rng.IntN(2)]
	qtype := []uint16{dns.TypeA, dns.TypeAAAA, dns.TypeMX, dns.TypeTXT, dns.TypeHTTPS, dns.TypeDS, dns.TypeCNAME}[g.rng.IntN(7)]
	m := new(dns.Msg)
	m.Id = uint16(g.uintBits(16))
	m.Response, m.RecursionDesired, m.RecursionAvailable = true, true, true
	m.AuthenticatedData = g.chance(50)
	m.CheckingDisabled = g.chance(20)
	m.Compress = g.chance(85)
	m.Question = []dns.Question{{Name: qname, Qtype: qtype, Qclass: dns.ClassINET}}
	ttl := uint32(30 + g.rng.IntN(3600))
	sig := func(owner string, covered uint16) *dns.RRSIG {
		s := &dns.RRSIG{TypeCovered: covered, Algorithm: 13, Labels: uint8(dns.CountLabel(owner)), OrigTtl: ttl,
			Expiration: 1800000000, Inception: 1700000000, KeyTag: uint16(g.uintBits(16)), SignerName: zone,
			Signature: base64.StdEncoding.EncodeToString(g.bytesN(64))}
		s.Hdr = dns.RR_Header{Name: owner, Rrtype: dns.TypeRRSIG, Class: dns.ClassINET, Ttl: ttl, Rdlength: uint16(g.uintBits(16))}
		cover("rr:RRSIG")
		return s
	}
	signed := g.chance(75)
	negative := g.chance(30)
	if negative {
		if g.chance(50) {
			m.Rcode = dns.RcodeNameError
		}
		soa := &dns.SOA{Ns: "ns1." + zone, Mbox: "hostmaster." + zone, Serial: uint32(g.uintBits(32)), Refresh: 7200, Retry: 3600, Expire: 1209600, Minttl: 300}
		soa.Hdr = dns.RR_Header{Name: zone, Rrtype: dns.TypeSOA, Class: dns.ClassINET, Ttl: ttl}
		m.Ns = append(m.Ns, soa)
		cover("rr:SOA")
		if signed {
			m.Ns = append(m.Ns, sig(zone, dns.TypeSOA))
			if g.chance(50) {
				n := &dns.NSEC{NextDomain: "zz." + zone, TypeBitMap: []uint16{dns.TypeA, dns.TypeRRSIG, dns.TypeNSEC}}
				n.Hdr = dns.RR_Header{Name: "a." + zone, Rrtype: dns.TypeNSEC, Class: dns.ClassINET, Ttl: ttl}
				m.Ns = append(m.Ns, n, sig("a."+zone, dns.TypeNSEC))
				cover("rr:NSEC")
			} else {
				n := &dns.NSEC3{Hash: 1, Iterations: 0, SaltLength: 0, Salt: "", HashLength: 20, NextDomain: b32.EncodeToString(g.bytesN(20)),
					TypeBitMap: []uint16{dns.TypeA, dns.TypeRRSIG}}
				owner := strings.ToLower(b32.EncodeToString(g.bytesN(20))) + "." + zone
				n.Hdr = dns.RR_Header{Name: owner, Rrtype: dns.TypeNSEC3, Class: dns.ClassINET, Ttl: ttl}
				m.Ns = append(m.Ns, n, sig(owner, dns.TypeNSEC3))
				cover("rr:NSEC3")
			}
		}
	} else {
		owner := qname
		if qtype != dns.TypeCNAME && g.chance(25) {
			c := &dns.CNAME{Target: "target." + zone}
			c.Hdr = dns.RR_Header{Name: owner, Rrtype: dns.TypeCNAME, Class: dns.ClassINET, Ttl: ttl}
			m.Answer = append(m.Answer, c)
			cover("rr:CNAME")
			if signed {
				m.Answer = append(m.Answer, sig(owner, dns.TypeCNAME))
			}
			owner = c.Target
		}
		n := 1 + g.rng.IntN(4)
		for i := 0; i < n; i++ {
			rr := g.record(qtype, cover)
			g.badData = false
			h := rr.Header()
			h.Name, h.Class, h.Ttl, h.Rrtype = owner, dns.ClassINET, ttl, qtype
			m.Answer = append(m.Answer, rr)
		}
		if signed {
			m.Answer = append(m.Answer, sig(owner, qtype))
		}
		if g.chance(50) {
			for _, h := range []string{"ns1." + zone, "ns2." + zone} {
				ns := &dns.NS{Ns: h}
				ns.Hdr = dns.RR_Header{Name: zone, Rrtype: dns.TypeNS, Class: dns.ClassINET, Ttl: ttl}
				m.Ns = append(m.Ns, ns)
				a := &dns.A{A: net.IP(g.bytesN(4))}
				a.Hdr = dns.RR_Header{Name: h, Rrtype: dns.TypeA, Class: dns.ClassINET, Ttl: ttl}
				m.Extra = append(m.Extra, a)
			}
			cover("rr:NS")
			if signed {
				m.Ns = append(m.Ns, sig(zone, dns.TypeNS))
			}
		}
	}
	if g.chance(70) {
		o := g.opt(m.Rcode, cover)
		o.Hdr.Name = "."
		if g.chance(40) {
			o.Option = append(o.Option, &dns.EDNS0_EDE{InfoCode: dns.ExtendedErrorCodeStaleAnswer, ExtraText: "stale"})
		}
		m.Extra = append(m.Extra, o)
		mt.OptShape = "last"
		cover("rr:OPT")
	}
	return m, mt
}

// ---- (b) mutated wire --------------------------------------------------------

func mutateWire(rng *rand.Rand, in []byte) []byte {
	w := append([]byte(nil), in...)
	if len(w) == 0 {
		return w
	}
	n := 1 + rng.IntN(4)
	for k := 0; k < n; k++ {
		if len(w) == 0 {
			break
		}
		switch rng.IntN(9) {
		case 0: // flip a bit
			i := rng.IntN(len(w))
			w[i] ^= 1 << uint(rng.IntN(8))
		case 1: // random byte
			w[rng.IntN(len(w))] = byte(rng.UintN(256))
		case 2: // a compression pointer to somewhere earlier
			if len(w) > 14 {
				i := 12 + rng.IntN(len(w)-13)
				w[i] = 0xC0
				w[i+1] = byte(rng.IntN(i))
			}
		case 3: // nudge a section count
			if len(w) >= 12 {
				i := 5 + 2*rng.IntN(4)
				w[i] = byte(int(w[i]) + rng.IntN(3) - 1)
			}
		case 4: // truncate
			w = w[:rng.IntN(len(w))+1]
		case 5: // duplicate a range
			i := rng.IntN(len(w))
			j := i + rng.IntN(len(w)-i)
			dup := append([]byte(nil), w[i:j]...)
			w = append(w[:j:j], append(dup, w[j:]...)...)
		case 6: // delete a range
			i := rng.IntN(len(w))
			j := i + rng.IntN(min(len(w)-i, 8)+1)
			w = append(w[:i:i], w[j:]...)
		case 7: // header flag / rcode bits
			if len(w) >= 4 {
				w[2+rng.IntN(2)] = byte(rng.UintN(256))
			}
		default: // zero a byte (label terminator / length)
			w[rng.IntN(len(w))] = 0
		}
	}
	return w
}

func safeUnpack(w []byte) (m *dns.Msg, ok bool) {
	defer func() {
		if recover() != nil {
			m, ok = nil, false
		}
	}()
	m = new(dns.Msg)
	if err := m.Unpack(w); err != nil {
		return nil, false
	}
	return m, true
}

// fromWire produces a message by unpacking mutated valid wire. The base is a
// fuzz-corpus entry or the library encoding of a freshly generated message.
func (g *gen) fromWire(corpus [][]byte, cover func(string)) (*dns.Msg, meta, bool) {
	mt := meta{Kind: "wire", OptShape: "wire", SizeCls: "natural"}
	var base []byte
	if len(corpus) > 0 && g.chance(25) {
		base = corpus[g.rng.IntN(len(corpus))]
		mt.Kind = "wire-corpus"
	} else {
		for try := 0; try < 6 && base == nil; try++ {
			var src *dns.Msg
			if g.chance(40) {
				src, _ = g.realistic(func(string) {})
			} else {
				src, _ = g.structured(func(string) {})
			}
			func() {
				defer func() { _ = recover() }()
				if b, err := src.Pack(); err == nil {
					base = b
				}
			}()
		}
		if base == nil {
			return nil, mt, false
		}
	}
	var m *dns.Msg
	for try := 0; try < 10; try++ {
		if mm, ok := safeUnpack(mutateWire(g.rng, base)); ok {
			m = mm
			cover("wire:mutated")
			break
		}
	}
	if m == nil {
		mm, ok := safeUnpack(base)
		if !ok {
			return nil, mt, false
		}
		m = mm
		cover("wire:unmutated")
	}
	m.Compress = g.chance(65)
	if g.chance(10) {
		m.Rcode = g.rng.IntN(4096)
	}
	for _, sec := range [][]dns.RR{m.Answer, m.Ns, m.Extra} {
		for _, rr := range sec {
			if rr != nil {
				cover("rr:" + typeName(rr))
			}
		}
	}
	return m, mt, true
}

func typeName(rr dns.RR) string {
	switch rr.(type) {
	case *dns.RFC3597:
		return "RFC3597"
	case *dns.RR_Header:
		return "RR_Header"
	}
	s := reflect.TypeOf(rr).String()
	return strings.TrimPrefix(s, "*dns.")
}
