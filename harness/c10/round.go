package main

// One round = one live Stack (real listeners on loopback) with one ingress
// configuration and one GOMAXPROCS value, driven by a few hundred concurrent
// client endpoints.

import (
	"context"
	"crypto/tls"
	"crypto/x509"
	"fmt"
	"math/rand/v2"
	"runtime"
	"runtime/debug"
	"strconv"
	"strings"
	"sync"
	"sync/atomic"
	"time"

	"github.com/miekg/dns"

	"github.com/semihalev/sdns/middleware"
	"github.com/semihalev/sdns/middleware/cache"
	"github.com/semihalev/sdns/server"
	"github.com/semihalev/sdns/zzverif/stack"
	"github.com/semihalev/sdns/zzverif/vlib"
)

type roundSpec struct {
	Name  string `json:"name"`
	Index int    `json:"index"`
	Procs int    `json:"gomaxprocs"`
	// Tight derives the resource plan from a small memory budget (what an
	// operator's GOMEMLIMIT does), which lowers the UDP slab cap to ~130 and
	// the socket fan-out to 4, so shedding and slab reuse are reachable.
	Tight bool `json:"tight"`
	// DNSSEC runs the stack with local validation "on": what admits the stub's
	// validated NXDOMAIN into the cache's subtree-cut index (RFC 8020 rung) and
	// makes the cached-failure rung depend on its denial-miss witness.
	DNSSEC   bool `json:"dnssec"`
	Workers  int  `json:"ingress_workers"`
	Queue    int  `json:"ingress_queue"`
	TCPConns int  `json:"ingress_tcp_conns"`

	UDP, TCP, DoT, DoH, DoQ int
	DeniedUDP, DeniedTCP    int
	PerUDP, PerStream       int
	PerMsg                  int
	Groups                  int
	BurstMax                int // UDP datagrams sent back to back by one client
	// Portable: after this many matched UDP replies a seccomp filter makes
	// recvmmsg fail with ENOSYS for the whole process, which moves every UDP
	// socket to the portable single-datagram reader (0 = never).
	PortableAfter int `json:"portable_after"`
}

type groupState struct {
	sharedGroup
	gate     chan struct{}
	once     sync.Once
	arrived  atomic.Int32
	answered atomic.Int32
	firstAt  atomic.Int64
	waiters  atomic.Int32 // stub invocations that met a closed/open gate
}

func (g *groupState) release() { g.once.Do(func() { close(g.gate) }) }

type roundEnv struct {
	r       *vlib.Run
	sampled sync.Map // evidence: classes already sampled
	name    string
	spec    *roundSpec
	st      *stack.Stack
	addrs   stack.Addrs
	tlsConf *tls.Config
	groups  []*groupState
	gmu     sync.RWMutex // guards groups while runRound is still building them (the stub may already be reached by stray traffic)
	qtmo    time.Duration
	stop    chan struct{}

	udpSem     chan struct{} // bounds how many UDP clients have a burst in flight
	slowGate   atomic.Pointer[chan struct{}]
	udpMatch   atomic.Int64
	stubCalls  atomic.Int64
	portableOn atomic.Bool
	sessions   atomic.Int64 // stream sessions the server served
	waves      sync.Map     // wave index -> *stormWave (doqstorm.go)
	waveSeq    atomic.Int32
}

// matched is the endpoints' onMatch hook: evidence bookkeeping only.
func (env *roundEnv) matched(ep *endpoint, q *query) {
	if ep.tr == "udp" {
		env.udpMatch.Add(1)
		if env.portableOn.Load() {
			ep.counters["portable_reader_udp_replies"]++
		}
	}
	if q.Kind == kShared && q.Group > 0 && q.Group <= len(env.groups) {
		env.groups[q.Group-1].answered.Add(1)
	}
	key := env.name + "/" + ep.tr + "/" + q.Kind.String()
	env.r.Distinct(key)
	// evidence: one matched exchange per (round, transport, kind) class, written out
	if _, seen := env.sampled.LoadOrStore(key, true); !seen {
		env.r.Sample(map[string]any{"round": env.name, "transport": ep.tr, "kind": q.Kind.String(),
			"qname": q.Name, "qtype": q.Qtype, "id": q.ID, "verdict": "reply matched own id/question/answer, no foreign nonce"})
	}
}

// sent is called by a client right after it put q on the wire.
func (env *roundEnv) sent(q *query) {
	if q.Kind != kShared || q.Group == 0 {
		return
	}
	g := env.groups[q.Group-1]
	g.firstAt.CompareAndSwap(0, time.Now().UnixNano())
	if int(g.arrived.Add(1)) >= g.members {
		g.release()
	}
}

func (env *roundEnv) stub(_ context.Context, req *stack.StubRequest) *stack.StubReply {
	env.stubCalls.Add(1)
	name := req.Q.Name
	kind := kindOfName(name)
	switch kind {
	case "p":
		return &stack.StubReply{Panic: "c10 scripted panic"}
	case "d":
		return &stack.StubReply{Drop: true}
	case "f":
		// the upstream fails: an empty SERVFAIL with the request's own OPT, which
		// the cache files in its RFC 9520 failure state
		return &stack.StubReply{Rcode: dns.RcodeServerFailure}
	}
	m := new(dns.Msg)
	m.Answer = answerFor(name, req.Q.Qtype, req.Q.Qclass)
	h := qhash(name, req.Q.Qtype, req.Q.Qclass)
	if kind == "c" && aliasHops(name) > 0 && len(m.Answer) > 1 && h[5]%4 != 0 {
		// an alias that leaves the answering zone: upstream hands back the bare
		// CNAME and the cache completes the chain through its own sub-queries
		// (one time in four upstream returns the whole chain instead)
		m.Answer = m.Answer[:1]
	}
	rep := &stack.StubReply{Msg: m}
	switch {
	case kind == "x" && req.Q.Qclass == dns.ClassINET:
		// what the resolver hands down after validating a denial: NXDOMAIN for
		// the cut "x?.c10.test." (the name the authority denied), AD set, the
		// proof in the authority section, provenance attached
		cut := nxCutOf(name)
		m.Rcode = dns.RcodeNameError
		m.AuthenticatedData = true
		m.Ns = nxAuthority(cut)
		rep.Negative = &middleware.ValidatedNegativeProof{Subject: cut, Zone: nxZone,
			Kind: middleware.ValidatedNegativeProofNSEC, Aggressive: true}
	case kind == "e":
		code, text := edeFor(name, req.Q.Qtype, req.Q.Qclass)
		rep.EDE = &dns.EDNS0_EDE{InfoCode: code, ExtraText: text}
	}
	switch h[7] % 3 {
	case 0:
		if req.OPT != nil {
			m.Extra = append(m.Extra, dns.Copy(req.OPT))
		}
	case 1: // what the real resolver does: the response OPT *is* the request OPT
		if req.Live != nil {
			if o := req.Live.IsEdns0(); o != nil {
				m.Extra = append(m.Extra, o)
			}
		}
	}
	switch kind {
	case "s":
		rep.Gate = *env.slowGate.Load()
	case "b":
		if w := env.wave(kindNumber(name)); w != nil {
			rep.Gate = w.gate
			w.arrive()
		}
	case "g":
		l := dns.SplitDomainName(strings.ToLower(name))
		env.gmu.RLock()
		groups := env.groups
		env.gmu.RUnlock()
		if i, err := strconv.Atoi(strings.TrimPrefix(l[2], "g")); err == nil && i >= 0 && i < len(groups) {
			g := groups[i]
			g.waiters.Add(1)
			rep.Gate = g.gate
		}
	}
	return rep
}

// keeper paces the gates. It only perturbs schedules; nothing is judged by it.
func (env *roundEnv) keeper(done <-chan struct{}) {
	t := time.NewTicker(20 * time.Millisecond)
	defer t.Stop()
	for {
		select {
		case <-done:
			old := env.slowGate.Load()
			close(*old)
			for _, g := range env.groups {
				g.release()
			}
			return
		case <-t.C:
			fresh := make(chan struct{})
			old := env.slowGate.Swap(&fresh)
			close(*old)
			now := time.Now().UnixNano()
			for _, g := range env.groups {
				if f := g.firstAt.Load(); f != 0 && now-f > int64(150*time.Millisecond) {
					g.release()
				}
			}
		}
	}
}

func srcIP(rng *rand.Rand, denied bool) string {
	a := 2 + rng.IntN(60) // 127.2–127.61: allowed, away from the listeners' 127.64+
	if denied {
		a = 200 + rng.IntN(40)
	}
	return fmt.Sprintf("127.%d.%d.%d", a, 1+rng.IntN(250), 2+rng.IntN(250))
}

func runRound(r *vlib.Run, rs *roundSpec) {
	name := rs.Name
	roundStart := time.Now()
	if rs.Procs > 0 {
		runtime.GOMAXPROCS(rs.Procs)
	}
	r.Note("round_"+name, rs)

	cfg := stack.DefaultConfig()
	cfg.IngressWorkers, cfg.IngressQueue, cfg.IngressTCPConns = rs.Workers, rs.Queue, rs.TCPConns
	cfg.NSID = serverNSID
	cfg.CookieSecret = "c10-cookie-secret"
	cfg.AccessList = []string{"127.0.0.0/9", "127.128.0.0/10"} // 127.192.0.0/10 is denied
	on := true
	cfg.RFC9520 = &on // the failure cache is what the cached-failure rungs serve from
	if rs.DNSSEC {
		cfg.DNSSEC = "on"
	}
	env := &roundEnv{r: r, name: name, spec: rs, qtmo: cfg.QueryTimeout.Duration, stop: make(chan struct{})}
	first := make(chan struct{})
	env.slowGate.Store(&first)
	sem := rs.UDP + rs.DeniedUDP
	if rs.Tight {
		sem = 40
	}
	env.udpSem = make(chan struct{}, sem)

	var old int64
	if rs.Tight {
		old = debug.SetMemoryLimit(64 << 20)
	}
	st, err := stack.New(stack.Options{Config: cfg, Stub: env.stub,
		Listen: stack.Listen{Plain: true, DoT: true, DoH: true, DoQ: true}})
	if rs.Tight {
		debug.SetMemoryLimit(old)
	}
	if err != nil {
		r.Inconclusive(fmt.Sprintf("round %s: stack.New: %v", name, err))
		return
	}
	defer st.Close()
	st.Stub().SetLogLimit(0)
	env.st, env.addrs = st, st.Addrs()
	pool := x509.NewCertPool()
	pool.AppendCertsFromPEM(st.CertPEM())
	env.tlsConf = &tls.Config{RootCAs: pool, ServerName: "localhost", MinVersion: tls.VersionTLS12}

	stats0 := server.VerifC10Stats(st.Server)
	c0 := st.Counters()
	w0 := cache.VerifC05WireCounters()
	r.Note("engine_"+name, stats0)
	if rs.Tight {
		r.Max("tight_udp_slab_cap", stats0.UDPSlabCap)
	}

	// ---- clients and scripts
	var specs []*clientSpec
	add := func(tr string, n, per int, denied bool) {
		for i := 0; i < n; i++ {
			idx := len(specs)
			rng := r.RandN("client/"+name, idx)
			specs = append(specs, &clientSpec{idx: idx, tr: tr, denied: denied, src: srcIP(rng, denied),
				label: fmt.Sprintf("r%dc%d", rs.Index, idx), burstMax: rs.BurstMax})
			_ = per
		}
	}
	add("udp", rs.UDP, rs.PerUDP, false)
	add("tcp", rs.TCP, rs.PerStream, false)
	add("dot", rs.DoT, rs.PerStream, false)
	add("doh", rs.DoH, rs.PerMsg, false)
	add("doq", rs.DoQ, rs.PerMsg, false)
	add("udp", rs.DeniedUDP, rs.PerUDP, true)
	add("tcp", rs.DeniedTCP, rs.PerStream, true)

	grng := r.RandN("groups/"+name, 0)
	assigned := map[int][]*sharedGroup{}
	var open []int
	for _, s := range specs {
		if !s.denied {
			open = append(open, s.idx)
		}
	}
	// the round's shared failing names
	var failNonces []string
	for i := 0; i < 3+rs.Groups/12; i++ {
		n := newNonce(grng)
		registry.addNonce(n, fmt.Sprintf("shared failing name %d of round %s", i, name))
		failNonces = append(failNonces, n)
	}
	// the round's shared alias names
	var aliasNonces []string
	arng := r.RandN("aliases/"+name, 0)
	for i := 0; i < 4+rs.Groups/10; i++ {
		n := newNonce(arng)
		registry.addNonce(n, fmt.Sprintf("shared alias name %d of round %s", i, name))
		aliasNonces = append(aliasNonces, n)
	}
	for _, s := range specs {
		s.failNonces = failNonces
		s.aliasNonces = aliasNonces
	}
	for g := 0; g < rs.Groups && len(open) >= 3; g++ {
		gs := &groupState{gate: make(chan struct{})}
		gs.idx = g
		gs.nonce = newNonce(grng)
		gs.qtype = pickType(grng)
		gs.members = 3 + grng.IntN(6)
		if gs.members > len(open) {
			gs.members = len(open)
		}
		registry.addNonce(gs.nonce, fmt.Sprintf("shared group %d of round %s", g, name))
		perm := grng.Perm(len(open))
		for _, p := range perm[:gs.members] {
			assigned[open[p]] = append(assigned[open[p]], &gs.sharedGroup)
		}
		env.gmu.Lock()
		env.groups = append(env.groups, gs)
		env.gmu.Unlock()
	}
	for _, s := range specs {
		per := rs.PerMsg
		switch s.tr {
		case "udp":
			per = rs.PerUDP
		case "tcp", "dot":
			per = rs.PerStream
		}
		rng := r.RandN("script/"+name, s.idx)
		if s.denied {
			per = 6
		}
		genScript(rng, s, per/2+rng.IntN(per), assigned[s.idx])
	}

	keeperDone := make(chan struct{})
	keeperExit := make(chan struct{})
	go func() { env.keeper(keeperDone); close(keeperExit) }()

	// ---- run
	var wg sync.WaitGroup
	var udps []*udpClient
	var umu sync.Mutex
	for _, s := range specs {
		s := s
		delay := time.Duration(r.RandN("start/"+name, s.idx).IntN(40)) * time.Millisecond
		wg.Add(1)
		go func() {
			defer wg.Done()
			time.Sleep(delay)
			switch s.tr {
			case "udp":
				c, err := startUDP(env, s)
				if err != nil {
					r.Count("client_setup_errors", 1)
					return
				}
				c.ep.qtmo = env.qtmo
				c.ep.onMatch = env.matched
				umu.Lock()
				udps = append(udps, c)
				umu.Unlock()
				c.run()
			case "tcp", "dot":
				runStream(env, s)
			case "doh":
				runDoH(env, s)
			case "doq":
				runDoQ(env, s)
			}
			r.Count("clients_finished_"+s.tr, 1)
		}()
	}

	// DoQ storms (doqstorm.go): malformed messages on throw-away connections,
	// each batch followed at once by exchanges that are in the server together
	if rs.DoQ > 0 {
		wg.Add(1)
		go func() {
			defer wg.Done()
			runDoQStorm(env, "a", r.N(7, 14), true)
		}()
	}

	// portable switch: a logical trigger (matched UDP replies), not a time
	portableDone := make(chan struct{})
	if rs.PortableAfter > 0 {
		go func() {
			defer close(portableDone)
			for {
				select {
				case <-env.stop:
					return
				case <-time.After(2 * time.Millisecond):
				}
				n := int(env.udpMatch.Load())
				if n >= rs.PortableAfter {
					r.Count("portable_batch_era_udp_replies", n)
					if err := installSeccompRecvmmsgENOSYS(); err != nil {
						r.Inconclusive("portable round: cannot install the seccomp filter: " + err.Error())
					} else {
						r.Count("portable_filter_installed", 1)
						env.portableOn.Store(true)
					}
					return
				}
			}
		}()
	} else {
		close(portableDone)
	}

	finished := make(chan struct{})
	go func() { wg.Wait(); close(finished) }()
	watchdog := time.Duration(r.N(240, 1500)) * time.Second
	select {
	case <-finished:
	case <-time.After(watchdog):
		r.Inconclusive(fmt.Sprintf("round %s: clients still running after %v (watchdog)", name, watchdog))
	}
	if rs.DoQ > 0 {
		// … and on the quiet server, where nothing else takes from the pools
		// between a malformed message and the exchanges that follow it
		stormed := make(chan struct{})
		t0 := time.Now()
		go func() {
			defer close(stormed)
			runDoQStorm(env, "z", r.N(5, 10), false)
			r.Max("doq_quiet_storm_ms_max", time.Since(t0).Milliseconds())
		}()
		select {
		case <-stormed:
		case <-time.After(watchdog):
			r.Inconclusive(fmt.Sprintf("round %s: the quiet DoQ storm was still running after %v (watchdog)", name, watchdog))
		}
	}
	close(keeperDone)
	<-keeperExit

	if !st.Quiesce(30 * time.Second) {
		r.Inconclusive("round " + name + ": the server did not quiesce within 30s")
	}
	// every UDP socket stayed open for the whole round: leftovers addressed to
	// any of them are in their queues by now; the fence reads past them.
	var fw sync.WaitGroup
	umu.Lock()
	for _, c := range udps {
		c := c
		fw.Add(1)
		go func() { defer fw.Done(); c.fence(""); c.close() }()
	}
	umu.Unlock()
	fw.Wait()
	close(env.stop)
	<-portableDone

	stats1 := server.VerifC10Stats(st.Server)
	c1 := st.Counters()
	for k, v := range c1 {
		if d := v - c0[k]; d != 0 {
			r.Count("engine_"+k, int(d))
			if rs.PortableAfter > 0 {
				r.Count("portable_engine_"+k, int(d))
			}
		}
	}
	for k, v := range cache.VerifC05WireCounters() {
		if d := v - w0[k]; d != 0 {
			r.Count("cache_wire_"+k, int(d))
			if rs.DNSSEC {
				r.Count("cache_wire_dnssec_on_"+k, int(d))
			}
		}
	}
	r.Count("stub_calls", int(env.stubCalls.Load()))
	shared, followers := 0, 0
	for _, g := range env.groups {
		a := int(g.answered.Load())
		w := int(g.waiters.Load())
		if a >= 2 && w >= 1 && w < a {
			shared++
			followers += a - w
		}
	}
	r.Count("shared_groups_observed", shared)
	r.Count("shared_group_members_served_without_own_upstream_call", followers)
	if rs.Tight {
		if d := env.udpMatch.Load() - stats0.UDPSlabCap; d > 0 {
			r.Count("udp_replies_beyond_slab_cap", int(d))
		}
	}
	for _, s := range stats0.Stream {
		if s.Proto == "tcp" {
			if d := env.sessions.Load() - int64(s.SmallTokens); d > 0 {
				r.Count("stream_sessions_beyond_small_slabs", int(d))
			}
		}
	}
	r.Count("rounds_completed", 1)
	r.Max("round_ms_max", time.Since(roundStart).Milliseconds())
	r.Max("udp_slabs_parked_max", int64(stats1.UDPParked))
	for _, s := range stats1.Stream {
		r.Max("stream_small_slabs_parked_max_"+s.Proto, int64(s.SmallParked))
		r.Max("stream_large_slabs_parked_max_"+s.Proto, int64(s.LargeParked))
	}
}
