package main

// The drain-buffer sweep of the recycle phase.
//
// A stream connection stages the replies of a pipelined burst in a fixed drain
// buffer (server/tcp_stream.go: tcpStream.stage) and writes them in one go when
// the connection is about to block. Two size tests decide what happens to a
// reply of n octets with `held` octets already staged:
//
//	2+n > len(drain)        flush what is staged, write the frame on its own
//	held+2+n > len(drain)   flush first, then stage
//
// Both are off-by-a-few traps (the 2-octet frame prefix). The stub's answer is
// a function of the question, so a question can SELECT the size of its reply
// ("<nonce>.<client>.t<N>.c10.test." TXT = one record with N octets of RDATA):
// every burst here is built from such questions so that the running sum of
// (2 + reply length) lands on one chosen offset around the buffer size at some
// position — every offset in [-sweepSpan, +sweepSpan] for the fit test, every
// offset in [-sweepOversizeSpan, +sweepOversizeSpan] for the single-frame test,
// on TCP and on DoT. Each burst is asked twice on one connection: first as
// misses (which also files the answers), then — in ONE client write of less
// than the connection's fill buffer, so the engine has all of it in hand and
// never blocks in between — as cache hits, which the cache answers from bytes
// without leaving the strict path (leaving it flushes the staged replies). The
// ordinary provenance oracle judges every frame (whole, own id, own question,
// answer = f(question), query order); nothing else is judged here. What the
// sweep adds is the observation that the boundaries were really crossed: the
// offsets are computed from the lengths of the replies that ARRIVED, by
// replaying the staging rule above over them, and only for bursts whose every
// reply the cache's byte path reports as served.

import (
	"fmt"
	"math/rand/v2"
	"sort"
	"time"

	"github.com/semihalev/sdns/middleware/cache"
	"github.com/semihalev/sdns/server"
)

const (
	sweepSpan         = 64 // fit test: held+2+n-len(drain) in [-64, +64]
	sweepOversizeSpan = 16 // single-frame test: 2+n-len(drain) in [-16, +16]
	sweepMinReply     = 130
)

type sweepTarget struct {
	Kind string `json:"kind"` // fit | oversize
	Off  int    `json:"offset"`
}

type sweepState struct {
	env   *recycleEnv
	tr    string
	drain int
	fill  int
	rc    *recConn
	onRC  int
	g     *genCtx
	conns int
	fit   map[int]bool
	over  map[int]bool
}

// runSweep runs the sweep for one transport, one burst at a time.
func (env *recycleEnv) runSweep(tr string) {
	r := env.r
	s := &sweepState{env: env, tr: tr, drain: server.VerifC10StreamDrainSize, fill: server.VerifC10StreamFillSize,
		fit: map[int]bool{}, over: map[int]bool{}}
	var targets []sweepTarget
	for pass := 0; pass < r.N(2, 6); pass++ {
		for o := -sweepSpan; o <= sweepSpan; o++ {
			targets = append(targets, sweepTarget{"fit", o})
		}
		for o := -sweepOversizeSpan; o <= sweepOversizeSpan; o++ {
			targets = append(targets, sweepTarget{"oversize", o})
		}
	}
	rng := r.RandN("sweep-order/"+env.name+"/"+tr, 0)
	rng.Shuffle(len(targets), func(i, j int) { targets[i], targets[j] = targets[j], targets[i] })
	for ti, t := range targets {
		for attempt := 0; attempt < 3; attempt++ {
			if s.burst(ti, attempt, t) {
				break
			}
			r.Count("stream_sweep_burst_retries", 1)
		}
	}
	s.drop()
	r.Count("stream_drain_fit_offsets_hit_"+tr, len(s.fit))
	r.Count("stream_drain_oversize_offsets_hit_"+tr, len(s.over))
	r.Count("stream_sweep_connections_"+tr, s.conns)
	var missing []int
	for o := -sweepSpan; o <= sweepSpan; o++ {
		if !s.fit[o] {
			missing = append(missing, o)
		}
	}
	sort.Ints(missing)
	if len(missing) > 0 {
		r.Note("stream_drain_fit_offsets_missing_"+tr, missing)
	}
}

func (s *sweepState) drop() {
	if s.rc != nil {
		s.rc.finish()
		s.rc = nil
	}
}

// conn returns a live connection, a fresh one every few bursts (so the sweep
// also runs on streams the pool hands out again).
func (s *sweepState) conn(rng *rand.Rand, ti int) *recConn {
	if s.rc != nil && s.onRC < 6 {
		select {
		case <-s.rc.dead:
		default:
			s.onRC++
			return s.rc
		}
	}
	s.drop()
	src := srcIP(rng, false)
	label := fmt.Sprintf("k%dw%s%d", s.env.rs.Index, s.tr[:1], ti)
	for try := 0; try < 6; try++ {
		rc, err := s.env.dialRec(s.tr, src, fmt.Sprintf("%s/%s-sweep#%d.%d", s.env.name, s.tr, ti, try), 0, false)
		if err != nil {
			s.env.r.Count("stream_sweep_dial_errors", 1)
			time.Sleep(time.Duration(5+10*try) * time.Millisecond)
			continue
		}
		s.rc, s.onRC = rc, 1
		s.conns++
		s.g = &genCtx{rng: rng, spec: &clientSpec{idx: ti, tr: s.tr, src: src, label: label}, usedIDs: map[string]map[uint16]bool{}, plain: true}
		return rc
	}
	return nil
}

// sizedQuery builds a sized question whose whole reply is want octets long.
func (s *sweepState) sizedQuery(rng *rand.Rand, want int) *query {
	g := s.g
	g.rng = rng
	g.forceEDNS = 1 + rng.IntN(2)
	opt := 0
	if g.forceEDNS == 1 {
		opt = 11
	}
	// reply = 12 + name + 4 + (2+10+N) + opt, name = nonce(24) . label . t<N> . c10 . test .
	for digits := 1; digits <= 5; digits++ {
		name := 1 + 24 + 1 + len(g.spec.label) + 1 + 1 + digits + 1 + 3 + 1 + 4 + 1
		n := want - (12 + name + 4 + 12 + opt)
		if n >= 1 && len(fmt.Sprint(n)) == digits {
			g.sizedN = n
			q := g.genQuery(kSized)
			g.sizedN = 0
			return q
		}
	}
	return nil
}

// split draws k reply lengths >= sweepMinReply that add up to total (frame
// prefixes included in total: each reply costs 2 + its length).
func sweepSplit(rng *rand.Rand, total, k int) []int {
	rest := total - k*(2+sweepMinReply)
	if k == 0 || rest < 0 {
		return nil
	}
	cuts := make([]int, k-1)
	for i := range cuts {
		cuts[i] = rng.IntN(rest + 1)
	}
	sort.Ints(cuts)
	out := make([]int, k)
	prev := 0
	for i := 0; i < k; i++ {
		end := rest
		if i < k-1 {
			end = cuts[i]
		}
		out[i] = sweepMinReply + end - prev
		prev = end
	}
	return out
}

// plan returns the reply lengths of one burst whose running staged size meets
// the target at position `at`.
func (s *sweepState) plan(rng *rand.Rand, t sweepTarget) (lens []int, at int) {
	D := s.drain
	switch t.Kind {
	case "fit":
		// fillers, then the reply whose staging decides: held + 2 + n = D + off
		k := 1 + rng.IntN(10)
		n := sweepMinReply + rng.IntN(1500)
		held := D + t.Off - (2 + n)
		for k > 1 && held < k*(2+sweepMinReply) {
			k--
		}
		lens = sweepSplit(rng, held, k)
		if lens == nil {
			return nil, 0
		}
		// no filler may itself overflow what is staged before it: they all fit
		// (their sum is below D), so `held` is exact when the decider arrives
		at = len(lens)
		lens = append(lens, n)
	default:
		// a few small replies staged, then one frame of 2 + n = D + off
		k := rng.IntN(4)
		for i := 0; i < k; i++ {
			lens = append(lens, sweepMinReply+rng.IntN(700))
		}
		at = len(lens)
		lens = append(lens, D+t.Off-2)
	}
	for i, k := 0, 1+rng.IntN(3); i < k; i++ {
		lens = append(lens, sweepMinReply+rng.IntN(1400))
	}
	return lens, at
}

// burst runs one warm + hit burst for target t and reports whether the target
// offset was observed.
func (s *sweepState) burst(ti, attempt int, t sweepTarget) bool {
	r := s.env.r
	rng := r.RandN("sweep/"+s.env.name+"/"+s.tr, ti*4+attempt)
	rc := s.conn(rng, ti)
	if rc == nil {
		return false
	}
	lens, at := s.plan(rng, t)
	if lens == nil {
		return false
	}
	var warm []*query
	size := 0
	for _, l := range lens {
		q := s.sizedQuery(rng, l)
		if q == nil {
			r.Count("stream_sweep_unbuildable_size", 1)
			return false
		}
		warm = append(warm, q)
		size += 2 + len(q.pkt)
	}
	if size >= s.fill {
		// the whole burst must sit in the connection's fill buffer after one read
		r.Count("stream_sweep_burst_larger_than_fill", 1)
		return false
	}
	fail := func(why string) bool {
		r.Count("stream_sweep_"+why, 1)
		s.drop()
		return false
	}
	if rc.send(warm, nil) != nil || !waitAnswered(rc.ep, warm, 6*time.Second, rc.dead) {
		return fail("warm_incomplete")
	}
	var hits []*query
	for _, q := range warm {
		hits = append(hits, s.g.reask(q))
	}
	served0 := cache.VerifC05WireCounters()["served"]
	if rc.send(hits, nil) != nil || !waitAnswered(rc.ep, hits, 6*time.Second, rc.dead) {
		return fail("hits_incomplete")
	}
	served := cache.VerifC05WireCounters()["served"] - served0
	r.Count("stream_sweep_bursts_"+s.tr, 1)
	r.Count("stream_sweep_hit_replies_"+s.tr, len(hits))
	if served != int64(len(hits)) {
		// some reply left the byte path (and flushed the staged ones on the way):
		// what was staged when is not known, nothing is counted for this burst
		r.Count("stream_sweep_bursts_with_decoded_serves", 1)
		return false
	}
	r.Count("stream_sweep_bursts_all_served_from_cache_bytes", 1)

	// replay the staging rule over the lengths that arrived
	rc.ep.mu.Lock()
	got := make([]int, len(hits))
	for i, q := range hits {
		got[i] = q.replyLen
		if q.replyLen != lens[i] {
			rc.ep.counters["stream_sweep_reply_size_not_as_planned"]++
		}
	}
	rc.ep.mu.Unlock()
	D := s.drain
	held, crossed, hitTarget := 0, false, false
	for i, n := range got {
		need := 2 + n
		if need > D {
			if o := need - D; o <= sweepOversizeSpan {
				s.over[o] = true
				hitTarget = hitTarget || (t.Kind == "oversize" && i == at && o == t.Off)
			}
			crossed = true
			held = 0
			continue
		}
		if o := need - D; o >= -sweepOversizeSpan {
			s.over[o] = true
			hitTarget = hitTarget || (t.Kind == "oversize" && i == at && o == t.Off)
		}
		if o := held + need - D; o >= -sweepSpan && o <= sweepSpan {
			s.fit[o] = true
			hitTarget = hitTarget || (t.Kind == "fit" && i == at && o == t.Off)
		}
		if held+need > D {
			crossed = true
			held = 0
		}
		held += need
	}
	if crossed {
		r.Count("stream_bursts_crossing_drain_boundary", 1)
		r.Count("stream_bursts_crossing_drain_boundary_"+s.tr, 1)
	}
	if ti < 2 && attempt == 0 {
		r.Sample(map[string]any{"round": s.env.name, "transport": s.tr, "kind": "drain-sweep", "target": t, "reply_lengths": got,
			"decider_position": at, "verdict": "every frame whole, own, in order"})
	}
	return hitTarget
}
