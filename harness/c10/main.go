// C10 — replies reach only their own client and carry only their own bytes.
//
// The entry binary is race-instrumented and runs nothing itself: every phase
// is this binary re-executed as a child with GORACE=log_path (reports are
// logged, not fatal); the parent merges the children's counters / violations
// and scans the race logs.
//
//	rounds    N rounds, each a fresh Stack with real UDP/TCP/DoT/DoH/DoQ
//	          listeners, tiny ingress bounds and its own GOMAXPROCS, driven by
//	          a few hundred concurrent client endpoints (round.go, clients.go)
//	          judged per unit by the provenance oracle (oracle.go); among the
//	          question kinds are aliases whose replies the cache composes from
//	          several cached entries, re-asked in every client's own spelling
//	          (gen.go), and next to the scripted clients run the DoQ storms:
//	          malformed DoQ messages on throw-away connections, each batch
//	          followed at once by exchanges held in the server together
//	          (doqstorm.go)
//	portable  one such round in which, half way, a seccomp filter makes
//	          recvmmsg fail with ENOSYS so every UDP socket falls back to the
//	          portable reader while slabs armed by the batch reader are reused
//	resolver  the full production chain on a scripted authoritative universe:
//	          concurrent clients whose resolutions share upstream lookups
//	          (resolver.go)
//	recycle   pooled per-connection stream state across connections: TCP/DoT
//	          clients that pipeline and then disappear while their replies are
//	          staged (RST, close, half-close, never reading) or with whole
//	          queries unconsumed, each followed at once by other clients'
//	          connections on the same small engine (recycle.go); then the
//	          drain-buffer sweep: bursts of cache hits whose staged size lands
//	          on every offset around the stream's drain-buffer size (sweep.go)
//	asan      (thorough) the rounds phase in the -asan build
package main

import (
	"encoding/hex"
	"encoding/json"
	"fmt"
	"os"
	"runtime"
	"strings"
	"sync"
	"time"
	"unsafe"

	"golang.org/x/sys/unix"

	"github.com/semihalev/sdns/zzverif/vlib"
)

const rule = "evaluations = units received by client endpoints (UDP datagrams, TCP/DoT frames, HTTP bodies, QUIC stream payloads) and judged by the provenance oracle, plus resolver-phase replies; distinct_nontrivial = (round, transport, query kind) triples for which at least one reply was matched to its query while the engine counters of that round show overflow/handoff/inline activity"

func main() {
	r := vlib.Start("C10", "exploration")
	if rc := r.ReplayCase(); rc != nil {
		replay(r, rc)
		r.Finish(rule)
	}
	switch os.Getenv("C10_PHASE") {
	case "rounds":
		phaseRounds(r, false)
	case "portable":
		phaseRounds(r, true)
	case "resolver":
		phaseResolver(r)
	case "recycle":
		phaseRecycle(r)
	default:
		parent(r)
	}
	r.Finish(rule)
}

func parent(r *vlib.Run) {
	self, err := os.Executable()
	if err != nil {
		self = vlib.BinPath("c10", "race")
	}
	type child struct {
		name, phase, bin string
		env              []string
	}
	kids := []child{
		{"rounds", "rounds", self, nil},
		{"portable", "portable", self, nil},
		{"resolver", "resolver", self, nil},
		{"recycle", "recycle", self, nil},
	}
	if !r.Quick() {
		kids = append(kids, child{"asan", "rounds", vlib.BinPath("c10", "asan"), []string{"C10_ASAN=1"}})
	}
	timeout := time.Duration(r.N(170, 1700)) * time.Second
	var wg sync.WaitGroup
	var mu sync.Mutex
	var prefixes []string
	for _, k := range kids {
		k := k
		wg.Add(1)
		go func() {
			defer wg.Done()
			pfx := r.RacePrefix(k.name)
			mu.Lock()
			prefixes = append(prefixes, pfx)
			mu.Unlock()
			env := append([]string{vlib.RaceEnv(pfx), "C10_PHASE=" + k.phase}, k.env...)
			if k.name == "asan" {
				if _, err := os.Stat(k.bin); err != nil {
					r.Note("asan_child", "asan binary not built: "+err.Error())
					return
				}
				env = append(env, "ASAN_OPTIONS=detect_leaks=0:halt_on_error=1")
			}
			res := r.Child(k.name, nil, k.bin, nil, env, timeout)
			switch {
			case res.TimedOut:
				r.Inconclusive(fmt.Sprintf("child %s hit the %v watchdog (log %s)", k.name, timeout, res.Output))
			case !res.HasState:
				if k.name == "asan" && logHas(res.Output, "AddressSanitizer") {
					r.Violation("asan/report", "the -asan build of the rounds phase was killed by an AddressSanitizer report (log "+res.Output+")", map[string]any{"kind": "asan", "log": res.Output})
				} else {
					r.Inconclusive(fmt.Sprintf("child %s ended without reporting (exit %d, log %s)", k.name, res.ExitCode, res.Output))
				}
			default:
				r.Count("children_completed", 1)
			}
		}()
	}
	wg.Wait()
	for _, p := range prefixes {
		r.ScanRaceLogs(p)
	}
	r.Note("gomaxprocs_sweep", "per round, see round_* notes")

	// ---- what the verdict depends on must have been observed
	for _, tr := range []string{"udp", "tcp", "dot", "doh", "doq"} {
		r.Require("matched_"+tr, int64(r.N(150, 3000)))
	}
	r.Require("answers_verified_udp", 2000)
	r.Require("answers_verified_tcp", 300)
	r.Require("answers_verified_dot", 150)
	r.Require("answers_verified_doh", 100)
	r.Require("answers_verified_doq", 80)
	r.Require("cookies_verified", 300)
	r.Require("engine_udp_inline_served", 200)  // cache hits served on the reader
	r.Require("engine_udp_inline_handoff", 500) // inline → worker handoff
	r.Require("engine_udp_overflow_served", 100)
	r.Require("engine_udp_drop_ignored", 50)
	r.Require("engine_udp_drop_malformed", 20)
	r.Require("engine_udp_drop_trunc", 5)
	r.Require("engine_udp_drop_full", 1) // shedding at the slab cap
	r.Require("engine_tcp_drop_ignored", 20)
	r.Require("engine_tcp_drop_conncap", 5)
	r.Require("udp_replies_beyond_slab_cap", 500) // ⇒ slabs were reused
	r.Require("stream_sessions_beyond_small_slabs", 10)
	r.Require("shared_groups_observed", 20)
	r.Require("shared_group_members_served_without_own_upstream_call", 40)
	r.Require("matched_kind_panic", 50)
	r.Require("matched_kind_hit", 1000)
	r.Require("matched_kind_decoded", 100)
	r.Require("matched_kind_large", 50)
	r.Require("matched_kind_garbage", 30)
	r.Require("matched_kind_notimp", 30)
	// reply classes composed by the cache's wire rungs, alternating on the slabs
	r.Require("matched_kind_sized", 1500)
	r.Require("matched_kind_fail", 400)
	r.Require("matched_kind_failhit", 1500)
	r.Require("matched_kind_nxcut", 800)
	r.Require("matched_kind_ede", 500)
	r.Require("cache_wire_failure_served", 600) // the RFC 9520 rung really composed replies in leased slabs
	r.Require("cache_wire_dnssec_on_failure_served", 150)
	r.Require("cache_wire_cut_served", 150) // the RFC 8020 rung (DNSSEC-on rounds only)
	r.Require("cache_wire_served", 5000)
	// replies put together from several cached parts (an alias entry and the
	// entries of the names it leads to), asked again in the client's own spelling
	r.Require("matched_kind_alias", 400)
	r.Require("matched_kind_aliashit", 1200)
	r.Require("cache_wire_chase_served", 800) // the cache's chase composer really built replies in leased slabs
	r.Require("cache_wire_dnssec_on_chase_served", 300)
	for tr, n := range map[string]int64{"udp": 1000, "tcp": 200, "dot": 100, "doh": 20, "doq": 15} {
		r.Require("alias_chains_verified_"+tr, n)
	}
	for tr, n := range map[string]int64{"udp": 600, "tcp": 120, "dot": 60} {
		r.Require("alias_respelled_hits_verified_"+tr, n)
	}
	// DoQ storms: malformed messages, then exchanges that were in the server together
	r.Require("doq_malformed_sessions_closed_by_server", 60)
	r.Require("doq_malformed_sessions_closed_by_server_undecodable", 40)
	for _, v := range []string{"short", "prefix_mismatch", "empty"} {
		r.Require("doq_malformed_sessions_closed_by_server_"+v, 3)
	}
	r.Require("doq_storm_waves_all_in_flight_together", 20)
	r.Require("doq_storm_waves_all_in_flight_together_under_load", 8)
	r.Require("doq_storm_overlapping_exchanges_answered", 120)
	r.Require("matched_kind_barrier", 120)
	for _, tr := range []string{"udp", "tcp", "dot"} {
		r.Require("headers_verified_failure_"+tr, map[string]int64{"udp": 800, "tcp": 150, "dot": 80}[tr])
		r.Require("nxcut_authority_verified_"+tr, map[string]int64{"udp": 300, "tcp": 60, "dot": 30}[tr])
		r.Require("ede_verified_"+tr, map[string]int64{"udp": 150, "tcp": 30, "dot": 15}[tr])
	}
	r.Require("headers_verified_udp", 20000)
	r.Require("headers_verified_bare", 100)
	// the drain-buffer sweep of the recycle phase
	for _, tr := range []string{"tcp", "dot"} {
		r.Require("stream_drain_fit_offsets_hit_"+tr, int64(2*sweepSpan+1))
		r.Require("stream_drain_oversize_offsets_hit_"+tr, int64(2*sweepOversizeSpan+1))
		r.Require("stream_bursts_crossing_drain_boundary_"+tr, int64(r.N(150, 600)))
	}
	r.Require("stream_bursts_crossing_drain_boundary", int64(r.N(300, 1200)))
	r.Require("stream_sweep_bursts_all_served_from_cache_bytes", int64(r.N(300, 1200)))
	r.Require("sent_kind_drop", 100)
	r.Require("sent_kind_qr1", 100)
	r.Require("sent_kind_denied", 20)
	r.Require("stream_mode_halfclose", 3)
	r.Require("stream_mode_slowreader", 3)
	r.Require("portable_filter_installed", 1)
	r.Require("portable_reader_udp_replies", 300)
	r.Require("rounds_completed", int64(r.N(4, 20)))
	r.Require("children_completed", int64(len(kids)))
	// recycle phase: the situation must have been produced, not assumed
	r.Require("recycle_rounds_completed", int64(r.N(1, 4)))
	r.Require("tcp_streams_recycled", int64(r.N(150, 1500)))
	r.Require("tcp_streams_recycled_tcp", int64(r.N(80, 800)))
	r.Require("tcp_streams_recycled_dot", int64(r.N(30, 300)))
	r.Require("tcp_conn_closed_with_staged_bytes", int64(r.N(25, 250)))
	r.Require("tcp_conn_closed_with_staged_bytes_rst", int64(r.N(10, 100)))
	r.Require("tcp_conn_closed_with_staged_bytes_tcp", int64(r.N(10, 100)))
	r.Require("tcp_conn_closed_with_staged_bytes_dot", int64(r.N(4, 40)))
	r.Require("tcp_staged_replies_delivered_at_connection_end", int64(r.N(8, 80)))
	r.Require("tcp_conn_closed_with_unconsumed_queries", int64(r.N(6, 60)))
	r.Require("recycle_neverread_reset_sessions", int64(r.N(4, 40)))
	r.Require("recycle_successor_first_reply_verified", int64(r.N(200, 2000)))
	r.Require("recycle_successor_first_reply_verified_tcp", int64(r.N(100, 1000)))
	r.Require("recycle_successor_first_reply_verified_dot", int64(r.N(40, 400)))
	r.Require("resolver_shared_lookups_observed", 5)
	r.Require("resolver_replies_judged", 200)
	r.Assume("the Go race detector (and, thorough tier, AddressSanitizer) are trusted")
	r.Assume("a reply that is entirely the asking query's own (id, question, f(question)) but answers a packet the engines document as silently ignored is left to C06 (counted as silent_kind_answered_own), not judged as cross-talk")
	r.Assume("loopback does not duplicate or corrupt datagrams")
}

func logHas(path, needle string) bool {
	b, err := os.ReadFile(path)
	return err == nil && strings.Contains(string(b), needle)
}

// phaseRounds runs the socket rounds of this process.
func phaseRounds(r *vlib.Run, portable bool) {
	asan := os.Getenv("C10_ASAN") != ""
	ncpu := runtime.NumCPU()
	var specs []*roundSpec
	mk := func(i int, procs int, tight bool, w, q, conns int, scale float64) *roundSpec {
		s := &roundSpec{Index: i, Procs: procs, Tight: tight, Workers: w, Queue: q, TCPConns: conns,
			UDP: int(130 * scale), TCP: int(30 * scale), DoT: int(16 * scale), DoH: int(12 * scale), DoQ: int(10 * scale),
			DeniedUDP: 4, DeniedTCP: 2, PerUDP: 50, PerStream: 50, PerMsg: 24, Groups: int(50 * scale), BurstMax: 16,
			DNSSEC: i%2 == 0}
		if tight {
			s.BurstMax = 5
		}
		s.Name = fmt.Sprintf("r%d", i)
		return s
	}
	switch {
	case portable:
		n := r.N(1, 3)
		if n > 1 {
			// the filter is irrevocable: one round per process; thorough runs
			// more portable rounds as further children of this child
			n = 1
		}
		s := mk(90, 4, true, 2, 2, 12, 1.0)
		s.Name = "portable"
		s.DNSSEC = false
		s.TCP, s.DoT, s.DoH, s.DoQ, s.DeniedTCP = 6, 4, 2, 2, 0
		s.UDP = r.N(160, 400)
		s.PortableAfter = s.UDP * s.PerUDP / 3
		specs = append(specs, s)
	case asan:
		specs = append(specs, mk(70, 4, true, 2, 2, 12, 1.0), mk(71, ncpu, false, 4, 4, 24, 1.5))
	default:
		if r.Quick() {
			specs = append(specs,
				mk(1, 2, true, 2, 2, 20, 2.0),
				mk(2, 6, true, 3, 2, 28, 2.0),
				mk(3, ncpu, false, 4, 4, 48, 2.6),
				mk(4, 4, true, 2, 3, 16, 2.0))
		} else {
			procs := []int{2, 6, ncpu, 3, 12, 1}
			for i := 0; i < 18; i++ {
				p := procs[i%len(procs)]
				tight := i%3 != 2
				w, q := 2+i%3, 2+(i/3)%3
				conns := 8 + 4*(i%5)
				specs = append(specs, mk(10+i, p, tight, w, q, conns, 1.0+float64(i%4)*0.5))
			}
		}
	}
	for _, s := range specs {
		runRound(r, s)
		r.Progress("round %s done", s.Name)
	}
}

// installSeccompRecvmmsgENOSYS makes recvmmsg(2) fail with ENOSYS for every
// thread of this process from now on — the situation udp_batch_linux.go
// documents ("a seccomp profile that filters recvmmsg") and answers by handing
// each socket to the portable reader. sendmmsg keeps working.
func installSeccompRecvmmsgENOSYS() error {
	const (
		retAllow = 0x7fff0000
		retErrno = 0x00050000
	)
	arch := uint32(0xc000003e) // AUDIT_ARCH_X86_64
	if runtime.GOARCH == "arm64" {
		arch = 0xc00000b7
	}
	filter := []unix.SockFilter{
		{Code: 0x20, K: 4},                  // ld  arch
		{Code: 0x15, Jt: 0, Jf: 3, K: arch}, // jne arch → allow
		{Code: 0x20, K: 0},                  // ld  nr
		{Code: 0x15, Jt: 0, Jf: 1, K: uint32(unix.SYS_RECVMMSG)},
		{Code: 0x06, K: retErrno | uint32(unix.ENOSYS)},
		{Code: 0x06, K: retAllow},
	}
	prog := unix.SockFprog{Len: uint16(len(filter)), Filter: &filter[0]}
	if err := unix.Prctl(unix.PR_SET_NO_NEW_PRIVS, 1, 0, 0, 0); err != nil {
		return fmt.Errorf("PR_SET_NO_NEW_PRIVS: %w", err)
	}
	const seccompSetModeFilter, flagTSYNC = 1, 1
	if _, _, e := unix.Syscall(unix.SYS_SECCOMP, seccompSetModeFilter, flagTSYNC, uintptr(unsafe.Pointer(&prog))); e != 0 {
		return fmt.Errorf("seccomp(SET_MODE_FILTER, TSYNC): %v", e)
	}
	return nil
}

// replay re-judges a recorded unit against the recorded endpoint state (a
// schedule cannot be re-executed; the oracle's judgement can).
func replay(r *vlib.Run, raw json.RawMessage) {
	var head struct {
		Kind string `json:"kind"`
	}
	_ = json.Unmarshal(raw, &head)
	switch head.Kind {
	case "unit":
		var vc violationCase
		if err := json.Unmarshal(raw, &vc); err != nil {
			r.Fatalf("replay: %v", err)
		}
		ep := newEndpoint(r, vc.Round, vc.Endpoint, vc.Transport, vc.Src)
		var fixed *query
		kinds := map[string]qkind{}
		for k := qkind(0); k < nKinds; k++ {
			kinds[k.String()] = k
		}
		for _, sq := range vc.Sent {
			q := &query{Kind: kinds[sq.KindS], KindS: sq.KindS, ID: sq.ID, Name: sq.Name, Qtype: sq.Qtype, Qclass: sq.Qclass,
				Nonce: sq.Nonce, Cookie: sq.Cookie, Group: sq.Group}
			if len(sq.PktHex) > 0 && !strings.HasSuffix(sq.PktHex, "…") {
				q.pkt, _ = hex.DecodeString(sq.PktHex)
			}
			if q.Nonce != "" {
				registry.addNonce(q.Nonce, "replayed endpoint "+vc.Endpoint)
			}
			ep.mu.Lock()
			for len(ep.sentQ) < sq.Seq {
				ep.sentQ = append(ep.sentQ, &query{Kind: kDrop, KindS: "drop"})
			}
			ep.mu.Unlock()
			ep.register(q)
			q.answered.Store(int32(sq.Answered))
			if vc.Matched != nil && sq.Seq == vc.Matched.Seq && (vc.Transport == "doh" || vc.Transport == "doq") {
				fixed = q
			}
		}
		if vc.ForeignBy != "" {
			// the foreign nonce's owner is not part of this endpoint: register
			// every 24-hex run of the unit that the endpoint did not send
			b, _ := hex.DecodeString(vc.RawHex)
			registerUnknownNonces(ep, b, vc.ForeignBy)
		}
		ep.lastSeq = vc.LastSeq
		b, _ := hex.DecodeString(vc.RawHex)
		ep.judge(b, fixed)
		ep.flush()
	case "race", "asan":
		r.Inconclusive("a race/asan report cannot be replayed; see the recorded log")
	default:
		r.Fatalf("replay: unknown case kind %q", head.Kind)
	}
}

func registerUnknownNonces(ep *endpoint, raw []byte, who string) {
	run := 0
	for i := 0; i < len(raw); i++ {
		if !isHex(raw[i]) {
			run = 0
			continue
		}
		run++
		if run >= 24 {
			w := strings.ToLower(string(raw[i-23 : i+1]))
			if _, mine := ep.byNonce[w]; !mine {
				registry.addNonce(w, who)
			}
		}
	}
}
