package main

import (
	"fmt"
	"os"
	"runtime"
	"runtime/debug"
	"time"
	"unsafe"

	"github.com/miekg/dns"
	"golang.org/x/sys/unix"

	"github.com/semihalev/sdns/server"
	"github.com/semihalev/sdns/zzverif/stack"
)

func installSeccompRecvmmsgENOSYS() error {
	// BPF: ld [0] (nr); jeq SYS_RECVMMSG ? ret ERRNO|ENOSYS : ret ALLOW
	const (
		retAllow = 0x7fff0000
		retErrno = 0x00050000
	)
	filter := []unix.SockFilter{
		{Code: 0x20, K: 4},                                   // ld arch
		{Code: 0x15, Jt: 0, Jf: 3, K: 0xc000003e},            // jeq AUDIT_ARCH_X86_64 else allow
		{Code: 0x20, K: 0},                                   // ld nr
		{Code: 0x15, Jt: 0, Jf: 1, K: uint32(unix.SYS_RECVMMSG)}, // jeq recvmmsg
		{Code: 0x06, K: retErrno | uint32(unix.ENOSYS)},
		{Code: 0x06, K: retAllow},
	}
	prog := unix.SockFprog{Len: uint16(len(filter)), Filter: &filter[0]}
	if err := unix.Prctl(unix.PR_SET_NO_NEW_PRIVS, 1, 0, 0, 0); err != nil {
		return fmt.Errorf("no_new_privs: %w", err)
	}
	const seccompSetModeFilter = 1
	const flagTSYNC = 1
	_, _, e := unix.Syscall(unix.SYS_SECCOMP, seccompSetModeFilter, flagTSYNC, uintptr(unsafe.Pointer(&prog)))
	if e != 0 {
		return fmt.Errorf("seccomp: %v", e)
	}
	return nil
}

func main() {
	cfg := stack.DefaultConfig()
	cfg.IngressWorkers = 2
	cfg.IngressQueue = 2
	cfg.IngressTCPConns = 8
	old := debug.SetMemoryLimit(64 << 20)
	st, err := stack.New(stack.Options{Config: cfg, Listen: stack.Listen{Plain: true, DoT: true, DoH: true, DoQ: true}})
	debug.SetMemoryLimit(old)
	if err != nil {
		panic(err)
	}
	defer st.Close()
	fmt.Printf("%+v\n", server.VerifC10Stats(st.Server))
	fmt.Println("procs", runtime.GOMAXPROCS(0), st.Addrs())
	c := st.NewClient("127.9.9.9")
	q := new(dns.Msg)
	q.SetQuestion("a.example.", dns.TypeA)
	pkt, _ := q.Pack()
	for _, tr := range []string{"udp", "udp", "tcp", "dot", "doh-post", "doq"} {
		out, err := c.Exchange(tr, pkt)
		fmt.Println(tr, len(out), err)
	}
	before := st.Counters()
	if len(os.Args) > 1 && os.Args[1] == "seccomp" {
		fmt.Println("seccomp:", installSeccompRecvmmsgENOSYS())
		for i := 0; i < 50; i++ {
			out, err := c.Exchange("udp", pkt)
			d := st.Counters()["udp_drop_error"] - before["udp_drop_error"]
			fmt.Println("udp", len(out), err, "drop_error", d)
			if d >= 8 {
				break
			}
			time.Sleep(10 * time.Millisecond)
		}
		for i := 0; i < 3; i++ {
			out, err := c.Exchange("udp", pkt)
			fmt.Println("udp after", len(out), err)
		}
	}
	c.Close()
	fmt.Printf("%+v\n", server.VerifC10Stats(st.Server))
	fmt.Println(st.Counters())
}
