package main

// DoQ storms: malformed DoQ messages followed at once by overlapping DoQ
// exchanges.
//
// The DoQ listener handles every stream on a goroutine of its own with a
// request object taken from a pool, and ends the whole connection when a stream
// carries something that is not one well-framed, decodable DNS message. Both
// halves of that are in the property's quantifier ("malformed packets",
// "pooled per-request objects"), and neither is reached by the scripted DoQ
// clients of a round (a malformed message would end their connection and every
// exchange in flight on it). A storm therefore uses throw-away connections for
// the malformed messages and keeps a few long-lived connections for the
// exchanges that follow:
//
//	wave = P malformed sessions side by side (each: a fresh QUIC connection from
//	       its own source address, ONE stream carrying one malformed message —
//	       undecodable body behind a correct length prefix, a frame shorter than
//	       a header, a prefix that disagrees with the payload, an empty stream —
//	       then the server's CONNECTION_CLOSE is awaited),
//	       then M queries at once, one stream each, spread over the long-lived
//	       connections (other sources, other names). Their names carry the kind
//	       label "b<wave>": the stub holds every answer of the wave until all M
//	       requests have reached it, so the M exchanges are in the server
//	       TOGETHER — observed (the wave counts as "all in flight together" only
//	       if the stub saw all M before the first answer left), not assumed.
//
// Every stream's payload is judged by the provenance oracle against the query
// that stream carried (own question byte for byte, id 0, answer = f(question),
// no foreign nonce). Half of a round's waves run while the round's other
// clients are busy on every transport, the other half on the quiet server
// right after them. Time is used for liveness only (a wave whose barrier does
// not fill is released after a while and is simply not counted as overlapped).

import (
	"context"
	"encoding/binary"
	"errors"
	"fmt"
	"io"
	"math/rand/v2"
	"net"
	"sync"
	"sync/atomic"
	"time"

	"github.com/quic-go/quic-go"
)

// stormWave is the barrier of one wave.
type stormWave struct {
	gate    chan struct{}
	once    sync.Once
	need    int32
	arrived atomic.Int32
	full    atomic.Bool
}

func (w *stormWave) release() { w.once.Do(func() { close(w.gate) }) }

// arrive is called by the stub for every request of the wave that reached it.
func (w *stormWave) arrive() {
	if w.arrived.Add(1) >= w.need {
		w.full.Store(true)
		w.release()
	}
}

func (env *roundEnv) wave(i int) *stormWave {
	if v, ok := env.waves.Load(i); ok {
		return v.(*stormWave)
	}
	return nil
}

// doqPeer is one long-lived DoQ client connection of a storm.
type doqPeer struct {
	spec *clientSpec
	ep   *endpoint
	pc   *net.UDPConn
	conn *quic.Conn
	g    *genCtx
}

func dialDoQ(env *roundEnv, src string) (*net.UDPConn, *quic.Conn, error) {
	pc, err := net.ListenUDP("udp4", &net.UDPAddr{IP: net.ParseIP(src)})
	if err != nil {
		return nil, nil, err
	}
	raddr, err := net.ResolveUDPAddr("udp4", env.addrs.DoQ)
	if err != nil {
		_ = pc.Close()
		return nil, nil, err
	}
	tc := env.tlsConf.Clone()
	tc.NextProtos = []string{"doq"}
	ctx, cancel := context.WithTimeout(context.Background(), 8*time.Second)
	defer cancel()
	conn, err := quic.Dial(ctx, pc, raddr, tc, &quic.Config{MaxIdleTimeout: 20 * time.Second})
	if err != nil {
		_ = pc.Close()
		return nil, nil, err
	}
	return pc, conn, nil
}

func (env *roundEnv) newDoQPeer(rng *rand.Rand, label, epLabel string) *doqPeer {
	src := srcIP(rng, false)
	spec := &clientSpec{tr: "doq", src: src, label: label}
	ep := newEndpoint(env.r, env.name, epLabel, "doq", src)
	ep.opts.ClientIP = src
	ep.onMatch = env.matched
	pc, conn, err := dialDoQ(env, src)
	if err != nil {
		ep.count("doq_dial_errors", 1)
		ep.flush()
		return nil
	}
	ep.src = pc.LocalAddr().String()
	return &doqPeer{spec: spec, ep: ep, pc: pc, conn: conn,
		g: &genCtx{rng: rng, spec: spec, usedIDs: map[string]map[uint16]bool{}}}
}

func (p *doqPeer) close() {
	_ = p.conn.CloseWithError(0, "")
	_ = p.pc.Close()
	p.ep.flush()
}

// runDoQStorm runs waves storm waves against the round's DoQ listener. busy
// spreads them over the time the round's other clients are running.
func runDoQStorm(env *roundEnv, tag string, waves int, busy bool) {
	r := env.r
	base := fmt.Sprintf("r%dq%s", env.spec.Index, tag)
	var peers []*doqPeer
	for i := 0; i < 3; i++ {
		if p := env.newDoQPeer(r.RandN("doqstorm-peer/"+env.name+tag, i), fmt.Sprintf("%sp%d", base, i),
			fmt.Sprintf("%s/doq-storm%s#%d", env.name, tag, i)); p != nil {
			peers = append(peers, p)
		}
	}
	defer func() {
		for _, p := range peers {
			p.close()
		}
	}()
	if len(peers) == 0 {
		r.Count("doq_storms_without_connection", 1)
		return
	}
	for w := 0; w < waves; w++ {
		select {
		case <-env.stop:
			return
		default:
		}
		rng := r.RandN("doqstorm/"+env.name+tag, w)
		if busy {
			time.Sleep(time.Duration(40+rng.IntN(260)) * time.Millisecond)
		}
		// ---- the malformed sessions
		var wg sync.WaitGroup
		for i, n := 0, 2+rng.IntN(5); i < n; i++ {
			mrng := r.RandN(fmt.Sprintf("doqstorm-bad%d/%s%s", i, env.name, tag), w)
			label := fmt.Sprintf("%sw%dm%d", base, w, i)
			wg.Add(1)
			go func() {
				defer wg.Done()
				env.doqMalformed(mrng, label, fmt.Sprintf("%s/doq-malformed%s#%d.%d", env.name, tag, w, i))
			}()
		}
		wg.Wait()

		// ---- the overlapping exchanges
		m := 4 + rng.IntN(7)
		idx := int(env.waveSeq.Add(1))
		wave := &stormWave{gate: make(chan struct{}), need: int32(m)}
		env.waves.Store(idx, wave)
		var qs []*query
		done := make(chan struct{})
		for i := 0; i < m; i++ {
			p := peers[(i+w)%len(peers)]
			p.g.wave = idx
			q := p.g.genQuery(kBarrier)
			qs = append(qs, q)
			wg.Add(1)
			go func() {
				defer wg.Done()
				doqExchange(env, p.ep, p.conn, q)
			}()
		}
		go func() { wg.Wait(); close(done) }()
		select {
		case <-done:
		case <-time.After(500 * time.Millisecond):
			// liveness: a request of the wave did not reach the stub
			wave.release()
			<-done
		}
		wave.release()
		r.Count("doq_storm_waves", 1)
		r.Count("doq_storm_exchanges", m)
		if wave.full.Load() {
			n := 0
			for _, q := range qs {
				if q.answered.Load() > 0 {
					n++
				}
			}
			r.Count("doq_storm_waves_all_in_flight_together", 1)
			r.Count("doq_storm_overlapping_exchanges_answered", n)
			if busy {
				r.Count("doq_storm_waves_all_in_flight_together_under_load", 1)
			}
		}
	}
}

// doqMalformed runs one throw-away connection that carries one malformed
// message.
func (env *roundEnv) doqMalformed(rng *rand.Rand, label, epLabel string) {
	src := srcIP(rng, false)
	spec := &clientSpec{tr: "doq", src: src, label: label}
	g := &genCtx{rng: rng, spec: spec, usedIDs: map[string]map[uint16]bool{}}
	ep := newEndpoint(env.r, env.name, epLabel, "doq", src)
	ep.opts.ClientIP = src
	ep.onMatch = env.matched
	defer ep.flush()

	var q *query
	var frame []byte
	variant := "undecodable"
	switch n := rng.IntN(10); {
	case n < 6:
		// a correct prefix, a header announcing one question, a body that does
		// not decode
		q = g.genQuery(kGarbage)
		frame = frameOf(q.pkt)
	case n < 7:
		variant = "short"
		q = g.genQuery(kShort)
		frame = frameOf(q.pkt)
	case n < 9:
		variant = "prefix_mismatch"
		q = g.genQuery(kNormal)
		frame = frameOf(q.pkt)
		binary.BigEndian.PutUint16(frame, uint16(len(q.pkt)+1+rng.IntN(40)))
	default:
		variant = "empty"
		q = g.genQuery(kShort)
		frame = nil
	}

	pc, conn, err := dialDoQ(env, src)
	if err != nil {
		ep.count("doq_dial_errors", 1)
		return
	}
	defer pc.Close()
	defer func() { _ = conn.CloseWithError(0, "") }()
	ep.src = pc.LocalAddr().String()
	ep.register(q)
	ctx, cancel := context.WithTimeout(context.Background(), 4*time.Second)
	defer cancel()
	st, err := conn.OpenStreamSync(ctx)
	if err != nil {
		ep.count("doq_stream_errors", 1)
		return
	}
	if dl, ok := ctx.Deadline(); ok {
		_ = st.SetDeadline(dl)
	}
	if len(frame) > 0 {
		_, _ = st.Write(frame)
	}
	_ = st.Close()
	ep.count("doq_malformed_sent_"+variant, 1)
	buf, _ := io.ReadAll(io.LimitReader(st, 1<<17))
	switch {
	case len(buf) == 0:
	case len(buf) >= 2 && int(binary.BigEndian.Uint16(buf)) == len(buf)-2:
		// the server chose to answer: the answer is judged like any other
		ep.count("doq_malformed_answered", 1)
		ep.judge(buf[2:], q)
	default:
		ep.count("doq_malformed_got_bytes", 1)
		ep.judgeNonDNS(buf, q)
	}
	select {
	case <-conn.Context().Done():
		var app *quic.ApplicationError
		if errors.As(context.Cause(conn.Context()), &app) && app.Remote {
			ep.count("doq_malformed_sessions_closed_by_server", 1)
			ep.count("doq_malformed_sessions_closed_by_server_"+variant, 1)
		} else {
			ep.count("doq_malformed_sessions_ended_otherwise", 1)
		}
	case <-ctx.Done():
		ep.count("doq_malformed_sessions_left_open", 1)
	}
}
