package main

// The recycle phase: pooled per-connection framing state (server/tcp_stream.go)
// handed from a connection that ENDED WITH WORK PENDING to the next connection.
//
// A tcpStream (fill buffer with pipelined queries, drain buffer with staged
// replies) comes from a sync.Pool and goes back when its connection ends; TCP
// and DoT share the type. A connection can end while
//
//   - replies are staged and not flushed: the engine keeps the replies of a
//     pipelined burst staged while the next frame's body is incomplete
//     (tcpStream.body), so a client that sends "<hit> … <hit> <prefix + half a
//     body>" in one write and then disappears (RST through SO_LINGER 0, close
//     without reading, half-close, or silence until the server's own query
//     budget expires) leaves with its replies in the drain buffer;
//   - the server's write is blocked on a client that never reads (tiny
//     SO_RCVBUF, replies far larger than the socket buffers) and fails when the
//     client resets;
//   - whole pipelined queries are still unconsumed in the fill buffer (a
//     sub-header frame ends the session, library parity).
//
// Each cycle runs one such "stager" connection and, the moment it is over, a
// few "successor" connections from other clients (other source addresses,
// other names). The provenance oracle judges every frame: the first frame a
// successor reads must be the whole reply to ITS first query. The TCP
// connection cap and GOMAXPROCS are small so the pool holds few streams and the
// successors drain it; that streams really were recycled is an observation
// (pool allocations counted by the server hook against connections that got at
// least one reply), not an inference.
//
// Time is used for liveness and for evidence only (the "hold window" in which
// the client notes that none of its earned replies has arrived yet); no verdict
// depends on it.

import (
	"bytes"
	"crypto/tls"
	"crypto/x509"
	"encoding/binary"
	"fmt"
	"io"
	"math/rand/v2"
	"net"
	"runtime"
	"sync"
	"sync/atomic"
	"syscall"
	"time"

	"github.com/semihalev/sdns/server"
	"github.com/semihalev/sdns/zzverif/stack"
	"github.com/semihalev/sdns/zzverif/vlib"
)

type recycleSpec struct {
	Name       string `json:"name"`
	Index      int    `json:"index"`
	Procs      int    `json:"gomaxprocs"`
	Lanes      int    `json:"lanes"`      // independent stager→successors sequences running side by side
	Cycles     int    `json:"cycles"`     // per lane
	Successors int    `json:"successors"` // connections dialled the moment a stager is over
	TCPConns   int    `json:"ingress_tcp_conns"`
}

func phaseRecycle(r *vlib.Run) {
	var specs []*recycleSpec
	if r.Quick() {
		specs = append(specs, &recycleSpec{Name: "recycle", Index: 80, Procs: 3, Lanes: 3, Cycles: 36, Successors: 3, TCPConns: 14})
	} else {
		for i, p := range []int{2, 6, runtime.NumCPU(), 3} {
			specs = append(specs, &recycleSpec{Name: fmt.Sprintf("recycle%d", i), Index: 80 + i, Procs: p,
				Lanes: 2 + i%3, Cycles: 160, Successors: 2 + i%3, TCPConns: 10 + 4*i})
		}
	}
	for _, s := range specs {
		runRecycle(r, s)
		r.Progress("recycle round %s done", s.Name)
	}
}

// recycleEnv is the bookkeeping of one recycle round.
type recycleEnv struct {
	*roundEnv
	rs *recycleSpec
	// connections on which at least one whole reply frame arrived: each of them
	// was served by the engine on a stream taken from its pool
	served   [2]atomic.Int64 // 0 tcp, 1 dot
	schedule [][]string      // per lane: how each cycle's stager ends
}

func trIndex(tr string) int {
	if tr == "dot" {
		return 1
	}
	return 0
}

func runRecycle(r *vlib.Run, rs *recycleSpec) {
	runtime.GOMAXPROCS(rs.Procs)
	r.Note("round_"+rs.Name, rs)

	cfg := stack.DefaultConfig()
	cfg.IngressWorkers, cfg.IngressQueue, cfg.IngressTCPConns = 2, 2, rs.TCPConns
	cfg.NSID = serverNSID
	cfg.CookieSecret = "c10-cookie-secret"
	cfg.AccessList = []string{"127.0.0.0/9", "127.128.0.0/10"}
	base := &roundEnv{r: r, name: rs.Name, spec: &roundSpec{Name: rs.Name, Index: rs.Index}, qtmo: cfg.QueryTimeout.Duration, stop: make(chan struct{})}
	first := make(chan struct{})
	close(first) // no gated names are asked in this phase
	base.slowGate.Store(&first)
	env := &recycleEnv{roundEnv: base, rs: rs}

	st, err := stack.New(stack.Options{Config: cfg, Stub: base.stub, Listen: stack.Listen{Plain: true, DoT: true}})
	if err != nil {
		r.Inconclusive(fmt.Sprintf("round %s: stack.New: %v", rs.Name, err))
		return
	}
	defer st.Close()
	st.Stub().SetLogLimit(0)
	base.st, base.addrs = st, st.Addrs()
	pool := x509.NewCertPool()
	pool.AppendCertsFromPEM(st.CertPEM())
	base.tlsConf = &tls.Config{RootCAs: pool, ServerName: "localhost", MinVersion: tls.VersionTLS12}

	// before the first connection exists (see the hook)
	server.VerifC10CountStreamAllocs(st.Server)
	c0 := st.Counters()
	r.Note("engine_"+rs.Name, server.VerifC10Stats(st.Server))

	for lane := 0; lane < rs.Lanes; lane++ {
		env.schedule = append(env.schedule, variantSchedule(r.RandN("recycle-schedule/"+rs.Name, lane), rs.Cycles))
	}
	var wg sync.WaitGroup
	for lane := 0; lane < rs.Lanes; lane++ {
		lane := lane
		wg.Add(1)
		go func() {
			defer wg.Done()
			for cycle := 0; cycle < rs.Cycles; cycle++ {
				env.cycle(lane, cycle)
			}
		}()
	}
	finished := make(chan struct{})
	go func() { wg.Wait(); close(finished) }()
	watchdog := time.Duration(r.N(150, 1500)) * time.Second
	select {
	case <-finished:
	case <-time.After(watchdog):
		r.Inconclusive(fmt.Sprintf("round %s: cycles still running after %v (watchdog)", rs.Name, watchdog))
	}
	if !st.Quiesce(30 * time.Second) {
		r.Inconclusive("round " + rs.Name + ": the server did not quiesce within 30s")
	}
	// the drain-buffer sweep (sweep.go): one burst at a time on the now idle
	// engines, TCP then DoT, on streams the lanes above left in the pools
	swept := make(chan struct{})
	go func() {
		defer close(swept)
		env.runSweep("tcp")
		env.runSweep("dot")
	}()
	select {
	case <-swept:
	case <-time.After(watchdog):
		r.Inconclusive(fmt.Sprintf("round %s: the drain sweep was still running after %v (watchdog)", rs.Name, watchdog))
	}
	if !st.Quiesce(30 * time.Second) {
		r.Inconclusive("round " + rs.Name + ": the server did not quiesce within 30s after the sweep")
	}
	close(base.stop)

	c1 := st.Counters()
	for k, v := range c1 {
		if d := v - c0[k]; d != 0 {
			r.Count("recycle_engine_"+k, int(d))
		}
	}
	for _, s := range server.VerifC10Stats(st.Server).Stream {
		tr := "tcp"
		if s.Proto != "tcp" {
			tr = "dot"
		}
		servedN := env.served[trIndex(tr)].Load()
		r.Count("recycle_connections_served_"+tr, int(servedN))
		if s.StreamAllocs < 0 {
			r.Inconclusive("round " + rs.Name + ": the stream pool of the " + s.Proto + " engine was not counting")
			continue
		}
		r.Count("tcp_streams_allocated_"+tr, int(s.StreamAllocs))
		if d := servedN - s.StreamAllocs; d > 0 {
			r.Count("tcp_streams_recycled", int(d))
			r.Count("tcp_streams_recycled_"+tr, int(d))
		}
	}
	r.Count("recycle_rounds_completed", 1)
}

// ---------------------------------------------------------------- connections

type countingReader struct {
	r io.Reader
	n *atomic.Int64
}

func (c countingReader) Read(p []byte) (int, error) {
	n, err := c.r.Read(p)
	c.n.Add(int64(n))
	return n, err
}

// recConn is one client connection of this phase with its reader goroutine.
type recConn struct {
	env   *recycleEnv
	tr    string
	conn  net.Conn     // the TCP connection or the TLS session on it
	tc    *net.TCPConn // always the TCP connection
	ep    *endpoint
	bytes atomic.Int64 // bytes read from the connection (after TLS)
	// jmu is held by the reader across judging a frame and recording it below,
	// so a client woken by the oracle's notification reads a settled record
	jmu     sync.Mutex
	units   int  // whole frames read
	firstOK bool // the first frame read was the reply to the first query sent
	dead    chan struct{}
	begin   chan struct{} // closed when the reader may start reading
	once    sync.Once
}

// record returns how many whole frames were read and whether the first one
// answered the first query.
func (rc *recConn) record() (units int, firstOK bool) {
	rc.jmu.Lock()
	defer rc.jmu.Unlock()
	return rc.units, rc.firstOK
}

// dialRec opens a connection from src. rcvbuf > 0 sets SO_RCVBUF before the
// handshake (so the advertised window is small from the first segment on).
// hold = true keeps the reader parked until startReading.
func (env *recycleEnv) dialRec(tr, src, label string, rcvbuf int, hold bool) (*recConn, error) {
	d := net.Dialer{LocalAddr: &net.TCPAddr{IP: net.ParseIP(src)}, Timeout: 3 * time.Second}
	if rcvbuf > 0 {
		d.Control = func(_, _ string, c syscall.RawConn) error {
			return c.Control(func(fd uintptr) {
				_ = syscall.SetsockoptInt(int(fd), syscall.SOL_SOCKET, syscall.SO_RCVBUF, rcvbuf)
			})
		}
	}
	addr := env.addrs.TCP
	if tr == "dot" {
		addr = env.addrs.DoT
	}
	raw, err := d.Dial("tcp4", addr)
	if err != nil {
		return nil, err
	}
	rc := &recConn{env: env, tr: tr, conn: raw, tc: raw.(*net.TCPConn), dead: make(chan struct{}), begin: make(chan struct{})}
	if tr == "dot" {
		tl := tls.Client(raw, env.tlsConf)
		_ = tl.SetDeadline(time.Now().Add(3 * time.Second))
		if err := tl.Handshake(); err != nil {
			_ = raw.Close()
			return nil, err
		}
		_ = tl.SetDeadline(time.Time{})
		rc.conn = tl
	}
	rc.ep = newEndpoint(env.r, env.name, label, tr, rc.tc.LocalAddr().String())
	rc.ep.opts.ClientIP = src
	rc.ep.qtmo = env.qtmo
	rc.ep.onMatch = env.matched
	if !hold {
		rc.startReading()
	}
	go rc.reader()
	return rc, nil
}

func (rc *recConn) startReading() { rc.once.Do(func() { close(rc.begin) }) }

func (rc *recConn) reader() {
	defer close(rc.dead)
	<-rc.begin
	in := countingReader{rc.conn, &rc.bytes}
	var l [2]byte
	for {
		if _, err := io.ReadFull(in, l[:]); err != nil {
			return
		}
		body := make([]byte, binary.BigEndian.Uint16(l[:]))
		if n, err := io.ReadFull(in, body); err != nil {
			// the connection ended inside a frame: what did arrive is judged
			// for provenance only
			rc.ep.judgeNonDNS(body[:n], nil)
			rc.ep.count("stream_partial_final_frame", 1)
			return
		}
		rc.jmu.Lock()
		q := rc.ep.judge(body, nil)
		rc.units++
		if rc.units == 1 {
			rc.firstOK = q != nil && q.Seq == 0
			rc.env.served[trIndex(rc.tr)].Add(1)
		}
		rc.jmu.Unlock()
	}
}

// send registers qs, then tailQs, and writes the frames of qs followed by tail
// in ONE write (tailQs are the queries whose bytes tail carries, if any).
func (rc *recConn) send(qs []*query, tail []byte, tailQs ...*query) error {
	var buf bytes.Buffer
	for _, q := range qs {
		buf.Write(frameOf(q.pkt))
		rc.ep.register(q)
	}
	for _, q := range tailQs {
		rc.ep.register(q)
	}
	buf.Write(tail)
	_ = rc.conn.SetWriteDeadline(time.Now().Add(5 * time.Second))
	_, err := rc.conn.Write(buf.Bytes())
	return err
}

// reset ends the connection with a RST (SO_LINGER 0), without a TLS goodbye.
func (rc *recConn) reset() {
	_ = rc.tc.SetLinger(0)
	_ = rc.tc.Close()
}

// finish makes sure the reader is gone and hands the endpoint's counters in.
func (rc *recConn) finish() {
	rc.startReading()
	_ = rc.conn.Close()
	_ = rc.tc.Close()
	<-rc.dead
	rc.ep.flush()
}

func (rc *recConn) waitDead(d time.Duration) bool {
	select {
	case <-rc.dead:
		return true
	case <-time.After(d):
		return false
	}
}

func frameOf(pkt []byte) []byte {
	out := make([]byte, 2+len(pkt))
	binary.BigEndian.PutUint16(out, uint16(len(pkt)))
	copy(out[2:], pkt)
	return out
}

// reask builds a second query for an already answered question: the very same
// packet under a fresh id, so it is the same cache key whatever the key is.
func (g *genCtx) reask(o *query) *query {
	q := &query{Kind: kHit, KindS: kHit.String(), Name: o.Name, Qtype: o.Qtype, Qclass: o.Qclass, Nonce: o.Nonce, Cookie: o.Cookie, edns: o.edns}
	q.ID = g.pickID(fmt.Sprintf("%s|%d|%d", o.Name, o.Qtype, o.Qclass))
	q.pkt = append([]byte(nil), o.pkt...)
	binary.BigEndian.PutUint16(q.pkt, q.ID)
	return q
}

// ---------------------------------------------------------------- one cycle

// stagerVariants is how a stager's connection ends; count = how often per 36
// cycles of a lane. Every lane runs a seeded shuffle of exactly this multiset
// (repeated when a lane has more cycles), so how often each situation is
// produced does not depend on the seed.
var stagerVariants = []struct {
	name  string
	count int
}{
	{"rst", 11},          // staged behind half a frame, then RST
	{"close", 3},         // … then close() without reading
	{"halfclose", 5},     // … then FIN; the staged replies must arrive after it
	{"stall", 1},         // … then silence until the server's query budget (2 s) ends the session
	{"neverread-rst", 5}, // replies far beyond the socket buffers, never read, then RST
	{"shortframe", 6},    // sub-header frame ends the session with whole queries unconsumed behind it
	{"halfprefix", 3},    // one byte of a prefix: the engine must flush instead of staging
	{"plain", 2},         // a well-behaved pipelining client
}

func variantSchedule(rng *rand.Rand, cycles int) []string {
	var out []string
	for len(out) < cycles {
		var block []string
		for _, v := range stagerVariants {
			for i := 0; i < v.count; i++ {
				block = append(block, v.name)
			}
		}
		rng.Shuffle(len(block), func(i, j int) { block[i], block[j] = block[j], block[i] })
		out = append(out, block...)
	}
	return out[:cycles]
}

func (env *recycleEnv) cycle(lane, cycle int) {
	r := env.r
	idx := lane*100000 + cycle
	rng := r.RandN("recycle/"+env.name, idx)
	tr := "tcp"
	if rng.IntN(3) == 0 {
		tr = "dot"
	}
	variant := env.schedule[lane][cycle]
	r.Count("recycle_cycles", 1)
	env.stager(rng, lane, cycle, tr, variant)

	// the successors: other clients, other addresses, the same listener
	var wg sync.WaitGroup
	for s := 0; s < env.rs.Successors; s++ {
		s := s
		srng := r.RandN(fmt.Sprintf("recycle-succ%d/%s", s, env.name), idx)
		delay := time.Duration(0)
		if s > 0 {
			delay = time.Duration(srng.IntN(1500)) * time.Microsecond
		}
		wg.Add(1)
		go func() {
			defer wg.Done()
			if delay > 0 {
				time.Sleep(delay)
			}
			env.successor(srng, lane, cycle, s, tr)
		}()
	}
	wg.Wait()
}

// stager runs the connection that ends with work pending.
func (env *recycleEnv) stager(rng *rand.Rand, lane, cycle int, tr, variant string) {
	r := env.r
	src := srcIP(rng, false)
	label := fmt.Sprintf("k%dl%dc%da", env.rs.Index, lane, cycle)
	spec := &clientSpec{idx: lane*100000 + cycle, tr: tr, src: src, label: label}
	g := &genCtx{rng: rng, spec: spec, usedIDs: map[string]map[uint16]bool{}}
	epLabel := fmt.Sprintf("%s/%s-stager#%d.%d(%s)", env.name, tr, lane, cycle, variant)

	rc, err := env.dialRec(tr, src, epLabel, 0, false)
	if err != nil {
		r.Count("recycle_stager_dial_errors", 1)
		return
	}
	// ---- warm: questions whose answers the cache holds afterwards
	var warm []*query
	for i, n := 0, 2+rng.IntN(4); i < n; i++ {
		warm = append(warm, g.genQuery(kNormal))
	}
	if err := rc.send(warm, nil); err != nil || !waitAnswered(rc.ep, warm, 4*time.Second, rc.dead) {
		// refused at the connection cap, or the machine is too slow right now
		r.Count("recycle_stager_warm_incomplete", 1)
		rc.finish()
		return
	}

	if variant == "neverread-rst" {
		// the same client comes back on a second connection with a tiny receive
		// buffer and never reads from it
		rc.finish()
		rc, err = env.dialRec(tr, src, epLabel+"/2", 2048, true)
		if err != nil {
			r.Count("recycle_stager_dial_errors", 1)
			return
		}
		var hits []*query
		for i, n := 0, 260+rng.IntN(240); i < n; i++ {
			hits = append(hits, g.reask(warm[i%len(warm)]))
		}
		tail := frameOf(g.genQuery(kNormal).pkt)
		tail = tail[:2+rng.IntN(len(tail)-2)]
		if err := rc.send(hits, tail); err == nil {
			time.Sleep(time.Duration(40+rng.IntN(120)) * time.Millisecond)
			r.Count("recycle_neverread_reset_sessions", 1)
			r.Count("recycle_neverread_queries_unread", len(hits))
		}
		rc.reset()
		rc.finish()
		r.Count("recycle_stager_"+variant, 1)
		return
	}

	// ---- the burst: earned replies, then the tail that decides how it ends
	var hits []*query
	for i, n := 0, 1+rng.IntN(6); i < n; i++ {
		if rng.IntN(5) == 0 {
			k := kNotimp // bare-header rejections are staged like any reply
			if rng.IntN(2) == 0 {
				k = kBadCount
			}
			hits = append(hits, g.genQuery(k))
			continue
		}
		hits = append(hits, g.reask(warm[rng.IntN(len(warm))]))
	}
	before := rc.bytes.Load()
	hold := time.Duration(25+rng.IntN(60)) * time.Millisecond

	switch variant {
	case "plain":
		if rc.send(hits, nil) == nil {
			waitAnswered(rc.ep, hits, 4*time.Second, rc.dead)
		}
		rc.ep.count("stream_unanswered_at_close", rc.ep.unanswered(hits))

	case "halfprefix":
		// one byte of the next prefix is no frame in hand: the replies must
		// leave now, not when the other byte arrives
		next := g.genQuery(kNormal)
		fr := frameOf(next.pkt)
		all := append(append([]*query(nil), hits...), next)
		if rc.send(hits, fr[:1], next) != nil {
			break
		}
		time.Sleep(hold)
		if rc.bytes.Load() > before {
			r.Count("recycle_halfprefix_replies_left_at_once", 1)
		}
		_ = rc.conn.SetWriteDeadline(time.Now().Add(5 * time.Second))
		if _, err := rc.conn.Write(fr[1:]); err == nil {
			waitAnswered(rc.ep, all, 4*time.Second, rc.dead)
		}
		rc.ep.count("stream_unanswered_at_close", rc.ep.unanswered(all))

	case "shortframe":
		// [hits][sub-header frame][whole queries the server never gets to], one write
		var tail bytes.Buffer
		if rng.IntN(4) == 0 {
			tail.Write([]byte{0, byte(1 + rng.IntN(11))}) // announces a body nobody reads
		} else {
			tail.Write([]byte{0, 0})
		}
		var behind []*query
		for i, n := 0, 1+rng.IntN(4); i < n; i++ {
			q := g.genQuery(kNormal)
			behind = append(behind, q)
			tail.Write(frameOf(q.pkt))
		}
		if rc.send(hits, tail.Bytes(), behind...) != nil {
			break
		}
		if rc.waitDead(4 * time.Second) {
			rc.ep.count("stream_short_frame_closed_session", 1)
			r.Count("tcp_conn_closed_with_unconsumed_queries", 1)
			r.Count("tcp_unconsumed_queries_at_close", len(behind))
		}
		rc.ep.count("stream_unanswered_at_close", rc.ep.unanswered(hits))

	default: // rst close halfclose stall: staged behind half a frame
		cut := g.genQuery(kNormal) // never sent whole, never registered as sent
		fr := frameOf(cut.pkt)
		tail := fr[:2+rng.IntN(len(fr)-2)] // the prefix and 0 … len-1 bytes of the body
		if err := rc.send(hits, tail); err != nil {
			break
		}
		time.Sleep(hold)
		staged := rc.bytes.Load() == before
		if staged {
			r.Count("tcp_conn_closed_with_staged_bytes", 1)
			r.Count("tcp_conn_closed_with_staged_bytes_"+tr, 1)
			r.Count("tcp_conn_closed_with_staged_bytes_"+variant, 1)
			r.Count("tcp_staged_replies_at_close", len(hits))
		} else {
			r.Count("recycle_replies_left_before_the_close", 1)
		}
		switch variant {
		case "rst":
			rc.reset()
		case "close":
			_ = rc.conn.Close()
		case "halfclose", "stall":
			if variant == "halfclose" {
				if cw, ok := rc.conn.(closeWriter); ok {
					_ = cw.CloseWrite()
				}
			}
			if !rc.waitDead(8 * time.Second) {
				r.Count("recycle_server_close_not_seen", 1)
			}
			left := rc.ep.unanswered(hits)
			if staged && left == 0 {
				r.Count("tcp_staged_replies_delivered_at_connection_end", len(hits))
			}
			rc.ep.count("stream_unanswered_at_close", left)
		}
	}
	rc.finish()
	r.Count("recycle_stager_"+variant, 1)
}

// successor is a connection of another client dialled the moment a stager is
// over. Whatever stream the engine serves it on, the first frame it reads must
// be the reply to its own first query.
func (env *recycleEnv) successor(rng *rand.Rand, lane, cycle, s int, tr string) {
	r := env.r
	src := srcIP(rng, false)
	label := fmt.Sprintf("k%dl%dc%db%d", env.rs.Index, lane, cycle, s)
	spec := &clientSpec{idx: lane*100000 + cycle, tr: tr, src: src, label: label}
	g := &genCtx{rng: rng, spec: spec, usedIDs: map[string]map[uint16]bool{}}
	if rng.IntN(4) == 0 { // the other listener's engine has its own pool
		if tr == "tcp" {
			tr = "dot"
		} else {
			tr = "tcp"
		}
	}
	for attempt := 0; attempt < 8; attempt++ {
		rc, err := env.dialRec(tr, src, fmt.Sprintf("%s/%s-successor#%d.%d.%d.%d", env.name, tr, lane, cycle, s, attempt), 0, false)
		if err != nil {
			r.Count("recycle_successor_dial_errors", 1)
			time.Sleep(time.Duration(3+3*attempt) * time.Millisecond)
			continue
		}
		var firstBurst []*query
		for i, n := 0, 1+rng.IntN(3); i < n; i++ {
			firstBurst = append(firstBurst, g.genQuery(kNormal))
		}
		ok := rc.send(firstBurst, nil) == nil && waitAnswered(rc.ep, firstBurst, 4*time.Second, rc.dead)
		units, firstOK := rc.record()
		if units == 0 {
			// refused at the connection cap (closed before any byte)
			rc.finish()
			r.Count("recycle_successor_unserved", 1)
			time.Sleep(time.Duration(3+3*attempt) * time.Millisecond)
			continue
		}
		if firstOK {
			r.Count("recycle_successor_first_reply_verified", 1)
			r.Count("recycle_successor_first_reply_verified_"+tr, 1)
		}
		if ok {
			var second []*query
			for i, n := 0, 1+rng.IntN(3); i < n; i++ {
				second = append(second, g.reask(firstBurst[rng.IntN(len(firstBurst))]))
			}
			if rc.send(second, nil) == nil {
				waitAnswered(rc.ep, second, 4*time.Second, rc.dead)
			}
			rc.ep.count("stream_unanswered_at_close", rc.ep.unanswered(second))
		}
		rc.ep.count("stream_unanswered_at_close", rc.ep.unanswered(firstBurst))
		rc.finish()
		r.Count("recycle_successors_served", 1)
		return
	}
	r.Count("recycle_successors_abandoned", 1)
}
