package main

// Per-byte provenance oracle of C10.
//
// Every query name is "<nonce>.<client>.<kind>.c10.test." with a 96-bit nonce
// (24 hex characters). The stub's answer is a pure function of the whole
// question (answerFor). Every unit a client endpoint receives — UDP datagram,
// TCP/DoT frame, HTTP body, QUIC stream payload — goes through endpoint.judge:
//
//   - it must be a whole DNS response (QR set, sections end exactly at the
//     last byte);
//   - it must answer exactly one query THIS endpoint sent and that was not
//     answered before (id + exact question; bare-header FORMERR/NOTIMP
//     rejections match by id against the endpoint's own rejected packets);
//   - its answer section is empty or exactly answerFor(question), authority is
//     empty (or, below a validated NXDOMAIN cut, a subset of the cut's own
//     proof records), additional holds at most one OPT whose cookie starts with
//     the cookie this very query carried and whose scripted EDE, if any, is
//     this question's;
//   - its WHOLE header is its own: the section counts are the sections really
//     present (the strict walk ends at the last byte), and AD / TC / Z are set
//     only where the reply class can set them (a header left over from the
//     slab's previous tenant shows in exactly these bits and counts);
//   - its raw bytes hold no nonce registered by anybody else;
//   - on a stream connection replies come in query order.
//
// Nothing here depends on time.

import (
	"bytes"
	"crypto/sha256"
	"encoding/base32"
	"encoding/binary"
	"encoding/hex"
	"errors"
	"fmt"
	"net"
	"strings"
	"sync"
	"sync/atomic"
	"time"

	"github.com/miekg/dns"

	"github.com/semihalev/sdns/zzverif/replycontract"
	"github.com/semihalev/sdns/zzverif/vlib"
)

const zoneSuffix = "c10.test."

// ---------------------------------------------------------------- f(question)

var b32 = base32.NewEncoding("abcdefghijklmnopqrstuvwxyz234567").WithPadding(base32.NoPadding)

func qhash(name string, qtype, qclass uint16) [32]byte {
	return sha256.Sum256([]byte(fmt.Sprintf("%s|%d|%d", strings.ToLower(name), qtype, qclass)))
}

// answerFor is f(question): the only answer section a reply to this question
// may carry. owner is used verbatim for the RR owner names.
func answerFor(owner string, qtype, qclass uint16) []dns.RR {
	if qclass != dns.ClassINET {
		return nil
	}
	kind := kindOfName(owner)
	if kind == "p" || kind == "d" || kind == "f" || kind == "x" || kind == "" {
		return nil // panic / never-answered / failing / denied names and foreign names have no answer
	}
	if hops := aliasHops(owner); kind == "c" && hops > 0 && qtype != dns.TypeCNAME {
		// an alias: its own CNAME, then whatever the target's question has
		return append([]dns.RR{aliasRecord(owner)}, answerFor(aliasTarget(owner), qtype, qclass)...)
	}
	h := qhash(owner, qtype, qclass)
	if kind == "t" && qtype == dns.TypeTXT {
		return []dns.RR{sizedTXT(owner, sizedN(owner), h)}
	}
	hdr := func() dns.RR_Header {
		return dns.RR_Header{Name: owner, Rrtype: qtype, Class: dns.ClassINET, Ttl: 300}
	}
	var out []dns.RR
	switch qtype {
	case dns.TypeA:
		n := 1 + int(h[0])%3
		for i := 0; i < n; i++ {
			out = append(out, &dns.A{Hdr: hdr(), A: net.IPv4(10, h[1+3*i], h[2+3*i], h[3+3*i]).To4()})
		}
	case dns.TypeAAAA:
		n := 1 + int(h[0])%2
		for i := 0; i < n; i++ {
			ip := make(net.IP, 16)
			ip[0], ip[1], ip[2], ip[3] = 0xfd, 0x00, 0x0c, 0x10
			copy(ip[4:], h[1+12*i:13+12*i])
			out = append(out, &dns.AAAA{Hdr: hdr(), AAAA: ip})
		}
	case dns.TypeTXT:
		n := 1 + int(h[0])%4
		var txt []string
		for i := 0; i < n; i++ {
			hh := sha256.Sum256(append(h[:], byte(i)))
			s := "c10-" + b32.EncodeToString(hh[:])
			l := 16 + int(h[1+i])%40
			txt = append(txt, s[:l])
		}
		out = append(out, &dns.TXT{Hdr: hdr(), Txt: txt})
	}
	return out
}

// kindOfName returns the kind label of "<nonce>.<client>.<kind>.c10.test."
// ("" when the name is not of that shape).
func kindOfName(name string) string {
	l := dns.SplitDomainName(strings.ToLower(name))
	if len(l) != 5 || l[3] != "c10" || l[4] != "test" || !isNonce(l[0]) {
		return ""
	}
	k := l[2]
	if strings.HasPrefix(k, "g") {
		return "g"
	}
	if len(k) > 1 && k[0] == 't' && allDigits(k[1:]) {
		return "t"
	}
	if len(k) == 2 && k[0] == 'x' {
		return "x"
	}
	if len(k) > 1 && (k[0] == 'c' || k[0] == 'b') && allDigits(k[1:]) {
		return k[:1] // "c<hops>": alias chain member; "b<wave>": held behind a wave barrier
	}
	return k
}

// kindNumber is the number in the kind label of "<nonce>.<client>.c<N>.c10.test."
// (alias: hops left to the terminal name) or "….b<N>.…" (barrier: wave index);
// -1 when the name has no such label.
func kindNumber(name string) int {
	l := dns.SplitDomainName(strings.ToLower(name))
	if len(l) != 5 || len(l[2]) < 2 || !allDigits(l[2][1:]) {
		return -1
	}
	n := 0
	for _, c := range l[2][1:] {
		if n = n*10 + int(c-'0'); n > 1<<20 {
			return -1
		}
	}
	return n
}

// aliasHops: how many CNAMEs lie between an alias name and its terminal name
// ("c0" is the terminal name itself, answered like any ordinary name).
func aliasHops(name string) int {
	if kindOfName(name) != "c" {
		return 0
	}
	return kindNumber(name)
}

// aliasTarget is where the alias "<nonce>.<client>.c<h>.c10.test." points:
// "<nonce>.<client>.c<h-1>.c10.test.", all lower case — a function of the
// case-folded question, whoever asked it first and however they spelled it.
func aliasTarget(name string) string {
	l := dns.SplitDomainName(strings.ToLower(name))
	return fmt.Sprintf("%s.%s.c%d.%s", l[0], l[1], aliasHops(name)-1, zoneSuffix)
}

// aliasRecord is the CNAME an alias name owns (owner spelled as given).
func aliasRecord(owner string) dns.RR {
	return &dns.CNAME{Hdr: dns.RR_Header{Name: owner, Rrtype: dns.TypeCNAME, Class: dns.ClassINET, Ttl: 300}, Target: aliasTarget(owner)}
}

func allDigits(s string) bool {
	for i := 0; i < len(s); i++ {
		if s[i] < '0' || s[i] > '9' {
			return false
		}
	}
	return len(s) > 0
}

// sizedN is the RDATA length the kind label "t<N>" of a sized name selects.
func sizedN(name string) int {
	l := dns.SplitDomainName(strings.ToLower(name))
	if len(l) != 5 || len(l[2]) < 2 || l[2][0] != 't' || !allDigits(l[2][1:]) {
		return 0
	}
	n := 0
	for _, c := range l[2][1:] {
		n = n*10 + int(c-'0')
		if n > 60000 {
			return 60000
		}
	}
	return n
}

// sizedTXT is the answer to a sized question: ONE TXT record whose RDATA is
// exactly n octets (n >= 1): character-strings of up to 255 octets, each costing
// its length octet. The text is a function of the question.
func sizedTXT(owner string, n int, h [32]byte) dns.RR {
	if n < 1 {
		n = 1
	}
	var txt []string
	for i := 0; n > 0; i++ {
		c := n
		if c > 256 {
			c = 256
		}
		n -= c
		c-- // the length octet
		var sb strings.Builder
		for blk := 0; sb.Len() < c; blk++ {
			hh := sha256.Sum256(append(h[:], byte(i), byte(blk), 't'))
			sb.WriteString(b32.EncodeToString(hh[:]))
		}
		txt = append(txt, sb.String()[:c])
	}
	return &dns.TXT{Hdr: dns.RR_Header{Name: owner, Rrtype: dns.TypeTXT, Class: dns.ClassINET, Ttl: 300}, Txt: txt}
}

// sizedReplyLen is the length of the whole reply to a sized TXT question as the
// server sends it: header, question, one TXT record whose owner is a
// compression pointer to the question, and the bare OPT when the query had one
// (sized queries carry no EDNS option).
func sizedReplyLen(name string, edns bool) int {
	n := 12 + wireNameLen(name) + 4 + 2 + 10 + sizedN(name)
	if edns {
		n += 11
	}
	return n
}

func wireNameLen(name string) int {
	if name == "." {
		return 1
	}
	return len(name) + 1
}

// nxZone is the signer zone of every validated denial the stub scripts.
const nxZone = zoneSuffix

// nxCutOf returns the denied name ("x?.c10.test.") a kind-x name lives below.
func nxCutOf(name string) string {
	l := dns.SplitDomainName(strings.ToLower(name))
	if len(l) != 5 {
		return ""
	}
	return l[2] + "." + nxZone
}

const nxSig = "YzEwLW54ZG9tYWluLWN1dC1zaWduYXR1cmUtcGxhY2Vob2xkZXItYzEwLW54ZG9tYWluLWN1dC1zaWduYXR1cmUtMDAwMDAwMA=="

// nxAuthority is the authority section of the validated NXDOMAIN for every
// name at or below cut: SOA, the NSEC covering the cut and its subtree, the
// apex NSEC (no wildcard), each with its RRSIG. A function of the cut alone —
// it holds no client's bytes.
func nxAuthority(cut string) []dns.RR {
	first, rest, _ := strings.Cut(cut, ".")
	const ttl = 300
	hdr := func(owner string, t uint16) dns.RR_Header {
		return dns.RR_Header{Name: owner, Rrtype: t, Class: dns.ClassINET, Ttl: ttl}
	}
	sig := func(owner string, covered uint16) dns.RR {
		return &dns.RRSIG{Hdr: hdr(owner, dns.TypeRRSIG), TypeCovered: covered, Algorithm: dns.ECDSAP256SHA256,
			Labels: uint8(dns.CountLabel(owner)), OrigTtl: ttl, Expiration: 2000000000, Inception: 1700000000,
			KeyTag: 4242, SignerName: nxZone, Signature: nxSig}
	}
	prev := first[:len(first)-1] + string(first[len(first)-1]-1) + "~." + rest
	return []dns.RR{
		&dns.SOA{Hdr: hdr(nxZone, dns.TypeSOA), Ns: "ns." + nxZone, Mbox: "hostmaster." + nxZone,
			Serial: 10, Refresh: 3600, Retry: 600, Expire: 86400, Minttl: ttl},
		sig(nxZone, dns.TypeSOA),
		&dns.NSEC{Hdr: hdr(prev, dns.TypeNSEC), NextDomain: first + "!." + rest,
			TypeBitMap: []uint16{dns.TypeA, dns.TypeRRSIG, dns.TypeNSEC}},
		sig(prev, dns.TypeNSEC),
		&dns.NSEC{Hdr: hdr(nxZone, dns.TypeNSEC), NextDomain: "+." + nxZone,
			TypeBitMap: []uint16{dns.TypeNS, dns.TypeSOA, dns.TypeRRSIG, dns.TypeNSEC, dns.TypeDNSKEY}},
		sig(nxZone, dns.TypeNSEC),
	}
}

// rrKeyNoTTL renders a record with its TTL zeroed (the cache counts TTLs down).
func rrKeyNoTTL(rr dns.RR) string {
	c := dns.Copy(rr)
	c.Header().Ttl = 0
	return strings.ToLower(c.String())
}

const edeMarker = "c10-ede-"

var edeCodes = []uint16{dns.ExtendedErrorCodeStaleAnswer, dns.ExtendedErrorCodeDNSSECIndeterminate,
	dns.ExtendedErrorCodeDNSKEYMissing, dns.ExtendedErrorCodeRRSIGsMissing, dns.ExtendedErrorCodeProhibited,
	dns.ExtendedErrorCodeNoReachableAuthority, dns.ExtendedErrorCodeInvalidData}

// edeFor is the Extended DNS Error the stub attaches to its answer for a
// kind-e question: code and text are functions of the question.
func edeFor(name string, qtype, qclass uint16) (uint16, string) {
	h := qhash(name, qtype, qclass)
	hh := sha256.Sum256(append(h[:], 'e'))
	return edeCodes[int(h[9])%len(edeCodes)], edeMarker + b32.EncodeToString(hh[:12])
}

func isNonce(s string) bool {
	if len(s) != 24 {
		return false
	}
	for i := 0; i < len(s); i++ {
		if !isHex(s[i]) {
			return false
		}
	}
	return true
}

func isHex(c byte) bool {
	return c >= '0' && c <= '9' || c >= 'a' && c <= 'f' || c >= 'A' && c <= 'F'
}

func rdataEqual(a, b dns.RR) bool {
	if a.Header().Rrtype != b.Header().Rrtype || a.Header().Class != b.Header().Class {
		return false
	}
	switch x := a.(type) {
	case *dns.A:
		y, ok := b.(*dns.A)
		return ok && x.A.Equal(y.A)
	case *dns.AAAA:
		y, ok := b.(*dns.AAAA)
		return ok && x.AAAA.Equal(y.AAAA)
	case *dns.CNAME:
		y, ok := b.(*dns.CNAME)
		return ok && strings.EqualFold(x.Target, y.Target)
	case *dns.TXT:
		y, ok := b.(*dns.TXT)
		if !ok || len(x.Txt) != len(y.Txt) {
			return false
		}
		for i := range x.Txt {
			if x.Txt[i] != y.Txt[i] {
				return false
			}
		}
		return true
	}
	return false
}

// ---------------------------------------------------------------- registry

// registry holds every nonce and client cookie ever issued by this process.
type registryT struct {
	nonces  sync.Map // nonce (lower hex) -> owner description (string)
	cookies sync.Map // cookie (8 raw bytes as string) -> nonce
	names   sync.Map // exact spelling of a sent question name -> client label of (one) sender
}

var registry registryT

func (g *registryT) addNonce(nonce, owner string) { g.nonces.Store(nonce, owner) }
func (g *registryT) ownerOf(nonce string) (string, bool) {
	v, ok := g.nonces.Load(nonce)
	if !ok {
		return "", false
	}
	return v.(string), true
}

// scanForeign looks for any registered nonce other than own in raw. It checks
// every 24-character window of every run of hex characters.
func scanForeign(raw []byte, own string) (string, string, int) {
	run := 0
	var win [24]byte
	for i := 0; i < len(raw); i++ {
		if !isHex(raw[i]) {
			run = 0
			continue
		}
		run++
		if run < 24 {
			continue
		}
		for k := 0; k < 24; k++ {
			c := raw[i-23+k]
			if c >= 'A' && c <= 'F' {
				c += 'a' - 'A'
			}
			win[k] = c
		}
		w := string(win[:])
		if w == own {
			continue
		}
		if who, ok := registry.ownerOf(w); ok {
			return w, who, i - 23
		}
	}
	return "", "", -1
}

// scanForeignSkipping is scanForeign that ignores every nonce in mine.
func scanForeignSkipping(raw []byte, mine map[string][]*query) (string, string, int) {
	off := 0
	for off < len(raw) {
		n, who, at := scanForeign(raw[off:], "")
		if n == "" {
			return "", "", -1
		}
		if len(mine[n]) == 0 {
			return n, who, off + at
		}
		off += at + 1
	}
	return "", "", -1
}

// ---------------------------------------------------------------- wire helpers

type whdr struct {
	id             uint16
	flags          uint16
	qd, an, ns, ar uint16
}

const (
	flagTC = 0x0200
	flagZ  = 0x0040
	flagAD = 0x0020
)

func (h whdr) qr() bool    { return h.flags&0x8000 != 0 }
func (h whdr) tc() bool    { return h.flags&0x0200 != 0 }
func (h whdr) opcode() int { return int(h.flags>>11) & 0xF }
func (h whdr) rcode() int  { return int(h.flags & 0xF) }

func parseHdr(b []byte) (h whdr, ok bool) {
	if len(b) < 12 {
		return h, false
	}
	h.id = binary.BigEndian.Uint16(b[0:])
	h.flags = binary.BigEndian.Uint16(b[2:])
	h.qd = binary.BigEndian.Uint16(b[4:])
	h.an = binary.BigEndian.Uint16(b[6:])
	h.ns = binary.BigEndian.Uint16(b[8:])
	h.ar = binary.BigEndian.Uint16(b[10:])
	return h, true
}

var errWalk = errors.New("sections run past the end of the unit")

func skipName(b []byte, off int) (int, error) {
	for {
		if off >= len(b) {
			return 0, errWalk
		}
		l := int(b[off])
		switch {
		case l == 0:
			return off + 1, nil
		case l&0xC0 == 0xC0:
			if off+2 > len(b) {
				return 0, errWalk
			}
			return off + 2, nil
		case l&0xC0 != 0:
			return 0, errors.New("reserved label type")
		}
		off += 1 + l
	}
}

// walkMessage returns the offset just past the last record the header
// announces.
func walkMessage(b []byte, h whdr) (int, error) {
	off := 12
	var err error
	for i := 0; i < int(h.qd); i++ {
		if off, err = skipName(b, off); err != nil {
			return 0, err
		}
		off += 4
		if off > len(b) {
			return 0, errWalk
		}
	}
	for i := 0; i < int(h.an)+int(h.ns)+int(h.ar); i++ {
		if off, err = skipName(b, off); err != nil {
			return 0, err
		}
		if off+10 > len(b) {
			return 0, errWalk
		}
		rdl := int(binary.BigEndian.Uint16(b[off+8:]))
		off += 10 + rdl
		if off > len(b) {
			return 0, errWalk
		}
	}
	return off, nil
}

// wireQuestion extracts the first question verbatim (case preserved). The
// question name of a response is never compressed (nothing precedes it).
func wireQuestion(b []byte) (name string, qtype, qclass uint16, ok bool) {
	off := 12
	var sb strings.Builder
	for {
		if off >= len(b) {
			return "", 0, 0, false
		}
		l := int(b[off])
		if l == 0 {
			off++
			break
		}
		if l&0xC0 != 0 || off+1+l > len(b) {
			return "", 0, 0, false
		}
		sb.Write(b[off+1 : off+1+l])
		sb.WriteByte('.')
		off += 1 + l
	}
	if off+4 > len(b) {
		return "", 0, 0, false
	}
	if sb.Len() == 0 {
		sb.WriteByte('.')
	}
	return sb.String(), binary.BigEndian.Uint16(b[off:]), binary.BigEndian.Uint16(b[off+2:]), true
}

// ---------------------------------------------------------------- queries

type qkind uint8

const (
	kNormal   qkind = iota // unique miss, stub answers f(Q)
	kHit                   // re-ask of an answered question of the same client
	kShared                // question shared by a group of clients (dedup / follower / hit)
	kSlow                  // stub holds the answer behind a gate
	kDecoded               // ineligible for the wire path (extra additional / answer RR): decoded fallback
	kLarge                 // > 2 KiB query (padding): large TCP slab class
	kPanic                 // stub panics → SERVFAIL from recovery
	kDrop                  // stub never answers
	kBadClass              // unknown class: the cache drops it silently
	kQR                    // QR=1 packet: ignored by the engines
	kShort                 // < 12 bytes: unparseable header
	kGarbage               // good header, undecodable body → bare FORMERR
	kBadCount              // QDCOUNT=2 / ANCOUNT=2 → bare FORMERR
	kNotimp                // foreign opcode → bare NOTIMP
	kOversize              // UDP datagram larger than the slab class: dropped
	kDenied                // sent from a source the access list denies
	kSized                 // "t<N>": TXT whose RDATA is N octets — the question selects the reply size
	kFail                  // "f": the stub answers SERVFAIL, which the RFC 9520 failure cache records
	kFailHit               // re-ask of a failing question (own or shared with other clients): cached-failure rungs
	kNX                    // "x?": a name below a validated NXDOMAIN cut (RFC 8020 rung once the cut is filed)
	kEDE                   // "e": f(Q) plus an Extended DNS Error that is a function of the question
	kAlias                 // "c<h>": a name that is an alias (bare CNAME from upstream, h hops to the terminal name): the cache completes the chain
	kAliasHit              // re-ask of an alias question (own, or one the round's clients share), mostly in another spelling: composed from cached parts
	kBarrier               // "b<w>": the stub holds the answer until every exchange of wave w is in flight (DoQ storms)
	nKinds
)

var kindNames = [...]string{"normal", "hit", "shared", "slow", "decoded", "large", "panic", "drop", "badclass",
	"qr1", "short", "garbage", "badcount", "notimp", "oversize", "denied", "sized", "fail", "failhit", "nxcut", "ede", "alias", "aliashit", "barrier"}

func (k qkind) String() string { return kindNames[k] }

// silent reports whether the documented behaviour for this kind on this
// transport is "no reply at all".
func (k qkind) silent(tr string) bool {
	switch k {
	case kDrop, kBadClass, kDenied:
		return true
	case kQR, kShort, kOversize:
		return tr == "udp" || tr == "tcp" || tr == "dot"
	}
	return false
}

func (k qkind) headerOnly() bool { return k == kGarbage || k == kBadCount || k == kNotimp }

// wantsAnswer: a NOERROR, non-truncated reply must carry f(Q).
func (k qkind) wantsAnswer() bool {
	switch k {
	case kNormal, kHit, kShared, kSlow, kDecoded, kLarge, kSized, kEDE, kAlias, kAliasHit, kBarrier:
		return true
	}
	return false
}

// smallReply: every reply the server can produce for this kind is far below
// any UDP limit, so truncation cannot be what set TC.
func (k qkind) smallReply() bool {
	switch k {
	case kFail, kFailHit, kPanic, kDrop, kBadClass, kGarbage, kBadCount, kNotimp:
		return true
	}
	return false
}

type query struct {
	Seq    int    `json:"seq"` // position in the endpoint's send order
	Kind   qkind  `json:"-"`
	KindS  string `json:"kind"`
	ID     uint16 `json:"id"`
	Name   string `json:"name,omitempty"` // exact case as sent
	Qtype  uint16 `json:"qtype,omitempty"`
	Qclass uint16 `json:"qclass,omitempty"`
	Nonce  string `json:"nonce,omitempty"`
	Cookie string `json:"cookie,omitempty"` // 8 raw bytes, hex
	PktHex string `json:"pkt_hex,omitempty"`
	Group  int    `json:"group,omitempty"` // shared group index + 1
	// Answered is only used in replay cases: replies matched before the unit.
	Answered int `json:"answered,omitempty"`

	pkt      []byte
	edns     bool // the packet carries an OPT record
	sent     atomic.Bool
	sentAt   time.Time
	answered atomic.Int32
	lost     bool
	replyLen int // length of the unit that answered it (set by judge under ep.mu)
}

func (q *query) forReplay() *query {
	c := &query{Seq: q.Seq, KindS: q.Kind.String(), ID: q.ID, Name: q.Name, Qtype: q.Qtype, Qclass: q.Qclass,
		Nonce: q.Nonce, Cookie: q.Cookie, Group: q.Group, Answered: int(q.answered.Load())}
	c.PktHex = hex.EncodeToString(q.pkt)
	if len(c.PktHex) > 600 {
		c.PktHex = c.PktHex[:600] + "…"
	}
	return c
}

// ---------------------------------------------------------------- endpoint

// endpoint is one client endpoint in the sense of the property statement: a
// UDP socket (address and port), one TCP/DoT connection, one HTTP/2 client
// connection, one QUIC connection.
type endpoint struct {
	run    *vlib.Run
	round  string
	label  string // e.g. "r1/udp#17"
	tr     string // udp tcp dot doh doq
	src    string
	stream bool // TCP/DoT: replies must come in query order
	opts   replycontract.Options
	qtmo   time.Duration // server's query timeout (guards the stream skip rule)

	mu       sync.Mutex
	sentQ    []*query
	byNonce  map[string][]*query
	hdrOnly  []*query
	lastSeq  int // highest seq answered so far (stream order)
	notify   chan struct{}
	counters map[string]int
	onMatch  func(ep *endpoint, q *query) // round bookkeeping (evidence only)
	// cur is the query the unit being judged was matched to (its answered count
	// already includes this unit): a replay case records the count BEFORE it
	cur         *query
	prevLastSeq int
}

func newEndpoint(r *vlib.Run, round, label, tr, src string) *endpoint {
	return &endpoint{run: r, round: round, label: label, tr: tr, src: src, stream: tr == "tcp" || tr == "dot",
		byNonce: map[string][]*query{}, lastSeq: -1, notify: make(chan struct{}, 1), counters: map[string]int{},
		opts: replycontract.Options{NSID: serverNSID, KeepaliveUnits: 0}, qtmo: 10 * time.Second}
}

func (ep *endpoint) count(name string, n int) {
	ep.mu.Lock()
	ep.counters[name] += n
	ep.mu.Unlock()
}

// flush adds the endpoint's counters to the run.
func (ep *endpoint) flush() {
	ep.mu.Lock()
	defer ep.mu.Unlock()
	for k, v := range ep.counters {
		ep.run.Count(k, v)
	}
	ep.counters = map[string]int{}
}

// register records q as sent by this endpoint. It must be called BEFORE the
// packet is written.
func (ep *endpoint) register(q *query) {
	ep.mu.Lock()
	q.Seq = len(ep.sentQ)
	ep.sentQ = append(ep.sentQ, q)
	if q.Nonce != "" {
		ep.byNonce[q.Nonce] = append(ep.byNonce[q.Nonce], q)
	}
	if q.Kind.headerOnly() {
		ep.hdrOnly = append(ep.hdrOnly, q)
	}
	q.sentAt = time.Now()
	q.sent.Store(true)
	ep.counters["sent_"+ep.tr]++
	ep.counters["sent_kind_"+q.Kind.String()]++
	ep.mu.Unlock()
}

type violationCase struct {
	Kind      string   `json:"kind"` // "unit"
	Round     string   `json:"round"`
	Endpoint  string   `json:"endpoint"`
	Transport string   `json:"transport"`
	Src       string   `json:"src"`
	Stream    bool     `json:"stream"`
	RawHex    string   `json:"raw_hex"`
	Matched   *query   `json:"matched,omitempty"`
	Sent      []*query `json:"sent"` // the endpoint's own queries (bounded)
	LastSeq   int      `json:"last_seq"`
	ForeignBy string   `json:"foreign_owner,omitempty"`
	Note      string   `json:"note,omitempty"`
}

func (ep *endpoint) mkCase(raw []byte, matched *query, note string) *violationCase {
	vc := &violationCase{Kind: "unit", Round: ep.round, Endpoint: ep.label, Transport: ep.tr, Src: ep.src,
		Stream: ep.stream, RawHex: hex.EncodeToString(raw), LastSeq: ep.lastSeq, Note: note}
	if len(vc.RawHex) > 4000 {
		vc.RawHex = vc.RawHex[:4000]
	}
	fr := func(q *query) *query {
		c := q.forReplay()
		if q == ep.cur && c.Answered > 0 {
			c.Answered--
		}
		return c
	}
	if matched != nil {
		vc.Matched = fr(matched)
	}
	n := len(ep.sentQ)
	lo := 0
	if n > 40 {
		lo = n - 40
	}
	for _, q := range ep.sentQ[lo:] {
		vc.Sent = append(vc.Sent, fr(q))
	}
	if matched != nil && matched.Seq < lo {
		vc.Sent = append(vc.Sent, fr(matched))
	}
	if ep.cur != nil && ep.stream {
		// the stream-order state as it was before this unit
		vc.LastSeq = ep.prevLastSeq
	}
	return vc
}

func (ep *endpoint) violate(sig, what string, raw []byte, matched *query, note string) {
	ep.run.Violation(sig, fmt.Sprintf("%s (%s from %s): %s", ep.label, ep.tr, ep.src, what), ep.mkCase(raw, matched, note))
	ep.counters["violating_units"]++
}

// judge evaluates one received unit. fixed, when non-nil, is the query the
// transport itself ties the unit to (the HTTP exchange, the QUIC stream).
// It returns the query the unit answered (nil when none).
func (ep *endpoint) judge(raw []byte, fixed *query) *query {
	ep.run.Eval(1)
	ep.mu.Lock()
	defer ep.mu.Unlock()
	defer func() {
		select {
		case ep.notify <- struct{}{}:
		default:
		}
	}()
	ep.counters["units_"+ep.tr]++

	h, ok := parseHdr(raw)
	if !ok {
		ep.violate("unit/short/"+ep.tr, fmt.Sprintf("received %d bytes, less than a DNS header", len(raw)), raw, fixed, "")
		ep.foreignScan(raw, "", nil)
		return nil
	}
	if !h.qr() {
		ep.violate("unit/not-a-response/"+ep.tr, "received a message with QR clear", raw, fixed, "")
		ep.foreignScan(raw, "", nil)
		return nil
	}
	end, err := walkMessage(raw, h)
	if err != nil {
		ep.violate("unit/unparseable/"+ep.tr, "received unit is not a whole DNS message: "+err.Error(), raw, fixed, "")
		ep.foreignScan(raw, "", nil)
		return nil
	}
	if end != len(raw) {
		ep.violate("unit/trailing-bytes/"+ep.tr, fmt.Sprintf("the message ends at byte %d but the unit has %d bytes", end, len(raw)), raw, fixed, "")
		ep.foreignScan(raw, "", nil)
		return nil
	}

	var q *query
	if h.qd == 0 {
		// bare-header rejection (engine's in-place FORMERR / NOTIMP)
		if fixed != nil {
			q = fixed
		} else {
			// among this endpoint's rejected packets with that id prefer the
			// one whose opcode and expected rcode the reply echoes
			var dup, loose *query
			for _, c := range ep.hdrOnly {
				if c.ID != h.id {
					continue
				}
				if c.answered.Load() != 0 {
					dup = c
					continue
				}
				wantRcode := dns.RcodeFormatError
				if c.Kind == kNotimp {
					wantRcode = dns.RcodeNotImplemented
				}
				if len(c.pkt) >= 3 && int(c.pkt[2]>>3)&0xF == h.opcode() && wantRcode == h.rcode() {
					q = c
					break
				}
				if loose == nil {
					loose = c
				}
			}
			if q == nil {
				q = loose
			}
			if q == nil {
				if dup != nil {
					ep.violate("match/duplicate-reply/"+ep.tr, fmt.Sprintf("second bare-header reply with id %#04x (query #%d already answered)", h.id, dup.Seq), raw, dup, "")
				} else {
					ep.violate("match/unsolicited-header/"+ep.tr, fmt.Sprintf("bare-header reply id %#04x rcode %d matches no rejected packet this endpoint sent", h.id, h.rcode()), raw, nil, "")
				}
				return nil
			}
		}
		if h.an != 0 || h.ns != 0 || h.ar != 0 {
			ep.violate("content/records-without-question/"+ep.tr, "reply without question section carries records", raw, q, "")
		}
		if h.flags&(flagTC|flagZ|flagAD) != 0 {
			ep.violate("header/foreign-flag-bare/"+ep.tr, fmt.Sprintf("the engine's bare-header rejection carries flags %#04x: TC, Z and AD are never set on it", h.flags), raw, q, "")
		} else {
			ep.counters["headers_verified_bare"]++
		}
	} else {
		name, qtype, qclass, ok := wireQuestion(raw)
		if !ok {
			ep.violate("unit/unparseable/"+ep.tr, "question section unreadable", raw, fixed, "")
			return nil
		}
		labels := dns.SplitDomainName(name)
		nonce := ""
		if len(labels) > 0 && isNonce(labels[0]) {
			nonce = strings.ToLower(labels[0])
		}
		if fixed != nil {
			q = fixed
			wantID := q.ID
			if ep.tr == "doq" {
				wantID = 0
			}
			if name != q.Name && strings.EqualFold(name, q.Name) && qtype == q.Qtype && qclass == q.Qclass {
				ep.caseViolation(raw, q, name)
			} else if name != q.Name || qtype != q.Qtype || qclass != q.Qclass {
				who, _ := registry.ownerOf(nonce)
				ep.violate("match/foreign-question/"+ep.tr, fmt.Sprintf("the exchange for %q type %d returned a reply to %q type %d class %d (nonce owner: %q)", q.Name, q.Qtype, name, qtype, qclass, who), raw, q, "")
				ep.foreignScan(raw, q.Nonce, q)
				return nil
			}
			if h.id != wantID {
				ep.violate("match/wrong-id/"+ep.tr, fmt.Sprintf("reply id %#04x, expected %#04x", h.id, wantID), raw, q, "")
			}
			if q.answered.Load() > 0 {
				ep.violate("match/duplicate-reply/"+ep.tr, "second reply on one exchange", raw, q, "")
				return nil
			}
		} else {
			// exact spelling first; a reply whose question differs from the
			// query only in letter case still identifies the query, and is
			// reported as exactly that
			var sameQ, sameQAnswered, folded *query
			for _, c := range ep.byNonce[nonce] {
				if c.Qtype != qtype || c.Qclass != qclass {
					continue
				}
				if c.Name != name {
					if folded == nil && c.ID == h.id && c.answered.Load() == 0 && strings.EqualFold(c.Name, name) {
						folded = c
					}
					continue
				}
				if c.ID == h.id && c.answered.Load() == 0 {
					q = c
					break
				}
				if c.ID == h.id {
					sameQAnswered = c
				} else {
					sameQ = c
				}
			}
			if q == nil && folded != nil {
				q = folded
				ep.caseViolation(raw, q, name)
			}
			if q == nil {
				switch {
				case sameQAnswered != nil:
					ep.violate("match/duplicate-reply/"+ep.tr, fmt.Sprintf("a second reply to query #%d (%s id %#04x) arrived", sameQAnswered.Seq, name, h.id), raw, sameQAnswered, "")
				case sameQ != nil:
					ep.violate("match/wrong-id/"+ep.tr, fmt.Sprintf("reply to %s carries id %#04x, this endpoint asked it with id %#04x", name, h.id, sameQ.ID), raw, sameQ, "")
				case len(ep.byNonce[nonce]) > 0:
					ep.violate("match/question-mismatch/"+ep.tr, fmt.Sprintf("reply question %q type %d class %d differs from what this endpoint sent under that nonce", name, qtype, qclass), raw, ep.byNonce[nonce][0], "")
				default:
					who, known := registry.ownerOf(nonce)
					note := "the nonce is not registered at all"
					if known {
						note = "the nonce belongs to " + who
					}
					ep.violate("match/foreign-question/"+ep.tr, fmt.Sprintf("received a reply to %q type %d id %#04x, a question this endpoint never asked (%s)", name, qtype, h.id, note), raw, nil, note)
				}
				ep.foreignScan(raw, "", nil)
				return nil
			}
		}
	}

	// ---- q is the query this unit answers
	if q.replyLen == 0 {
		q.replyLen = len(raw)
	}
	ep.cur, ep.prevLastSeq = q, ep.lastSeq
	defer func() { ep.cur = nil }()
	first := q.answered.Add(1) == 1
	ep.counters["matched_"+ep.tr]++
	ep.counters["matched_kind_"+q.Kind.String()]++
	if q.lost {
		ep.counters["late_replies_after_giving_up"]++
	}
	if ep.onMatch != nil && first {
		ep.onMatch(ep, q)
	}
	if q.Kind.silent(ep.tr) {
		// The statement forbids LEFTOVER replies; a reply that is entirely this
		// query's own is the reply contract's business (C06), not cross-talk.
		ep.counters["silent_kind_answered_own"]++
	}
	if ep.stream && first {
		if q.Seq < ep.lastSeq {
			ep.violate("stream/out-of-order/"+ep.tr, fmt.Sprintf("reply to query #%d arrived after the reply to query #%d", q.Seq, ep.lastSeq), raw, q, "")
		} else {
			// every earlier query that must be answered and was not: skipped
			for i := ep.lastSeq + 1; i < q.Seq; i++ {
				p := ep.sentQ[i]
				if p.answered.Load() > 0 || p.Kind.silent(ep.tr) || p.Kind == kShort {
					continue
				}
				if time.Since(p.sentAt) < ep.qtmo/2 {
					ep.violate("stream/skipped/"+ep.tr, fmt.Sprintf("query #%d (%s) got no reply although the later query #%d on the same connection was answered", p.Seq, p.Kind, q.Seq), raw, p, "")
				} else {
					ep.counters["stream_skips_not_judged_slow"]++
				}
			}
			ep.lastSeq = q.Seq
		}
	}
	ep.foreignScan(raw, q.Nonce, q)
	ep.content(raw, h, q)
	if q.pkt != nil {
		for _, b := range replycontract.Check(ep.tr, q.pkt, raw, ep.opts) {
			if !b.Info {
				ep.counters["contract_breaches"]++
				ep.counters["contract_breach_"+b.Rule]++
			}
		}
		ep.counters["contract_checked"]++
	}
	return q
}

// caseViolation: the reply's question spells the name differently from the
// query it answers. Those letters are not this query's bytes.
func (ep *endpoint) caseViolation(raw []byte, q *query, got string) {
	note := "nobody sent that spelling"
	sig := "match/question-case/" + ep.tr
	if who, ok := registry.names.Load(got); ok {
		note = "that exact spelling was sent by client " + who.(string)
		if ep.round == "resolver" {
			// known shape on the full chain: a resolver-level shared lookup
			// hands the follower the leader's question (see FINDINGS.md)
			sig = "resolver/question-spelling-of-shared-lookup-leader"
		}
	}
	ep.violate(sig, fmt.Sprintf("the reply to %q (id %#04x) carries the question %q: same name, another spelling (%s)", q.Name, q.ID, got, note), raw, q, note)
}

func (ep *endpoint) foreignScan(raw []byte, own string, q *query) {
	n, who, at := scanForeign(raw, own)
	if n != "" && own == "" && len(ep.byNonce[n]) > 0 {
		// a unit that could not be tied to one query (unparseable, unmatched) and
		// holds a nonce this very endpoint sent: not another client's bytes. Look
		// past this endpoint's own nonces.
		n, who, at = scanForeignSkipping(raw, ep.byNonce)
	}
	if n != "" {
		ep.violate("bytes/foreign-nonce/"+ep.tr, fmt.Sprintf("the received bytes contain nonce %s at offset %d, which belongs to %s", n, at, who), raw, q, who)
	}
}

// content checks that the sections carry only this query's own data.
func (ep *endpoint) content(raw []byte, h whdr, q *query) {
	if h.qd == 0 {
		return
	}
	m := new(dns.Msg)
	if err := m.Unpack(raw); err != nil {
		ep.violate("unit/unparseable/"+ep.tr, "reply does not unpack: "+err.Error(), raw, q, "")
		return
	}
	want := answerFor(q.Name, q.Qtype, q.Qclass)
	if !q.Kind.wantsAnswer() {
		want = nil
	}
	nk := kindOfName(q.Name)
	ep.header(raw, h, q, m, nk, want)
	if len(m.Answer) > 0 {
		// every record is the one f(question) has at that position: its owner is
		// the question name or, along an alias chain, the name the chain reached
		bad := len(m.Answer) > len(want)
		if !bad {
			for i, rr := range m.Answer {
				if !strings.EqualFold(rr.Header().Name, want[i].Header().Name) || !rdataEqual(rr, want[i]) {
					bad = true
					break
				}
			}
		}
		partial := false
		if !bad && len(m.Answer) < len(want) {
			// a proper prefix is the query's own data only when it is the alias
			// part of a chain whose completion the server could not obtain
			if _, isAlias := m.Answer[len(m.Answer)-1].(*dns.CNAME); isAlias && nk == "c" {
				partial = true
			} else {
				bad = true
			}
		}
		if partial {
			ep.counters["alias_replies_chain_incomplete"]++
		} else if bad {
			ep.violate("content/answer-not-f-of-question/"+ep.tr, fmt.Sprintf("answer section of the reply to %s type %d is not the function of the question (got %d records, want %d)", q.Name, q.Qtype, len(m.Answer), len(want)), raw, q, fmt.Sprint(m.Answer))
		} else {
			ep.counters["answers_verified_"+ep.tr]++
			if nk == "c" && len(want) > 1 {
				ep.counters["alias_chains_verified_"+ep.tr]++
				if q.Kind == kAliasHit && q.Name != strings.ToLower(q.Name) {
					// asked in a spelling of the client's own making, answered from
					// cached parts somebody else's spelling may have filed, and the
					// question section (judged above) was this client's
					ep.counters["alias_respelled_hits_verified_"+ep.tr]++
				}
			}
		}
	} else {
		switch {
		case m.Truncated:
			ep.counters["replies_truncated"]++
		case m.Rcode != dns.RcodeSuccess:
			ep.counters["replies_rcode_"+dns.RcodeToString[m.Rcode]]++
		case len(want) > 0:
			ep.violate("content/answer-missing/"+ep.tr, fmt.Sprintf("NOERROR reply to %s type %d carries no answer although f(question) has %d records", q.Name, q.Qtype, len(want)), raw, q, "")
		}
	}
	switch {
	case len(m.Ns) == 0:
	case nk == "x" && q.Qclass == dns.ClassINET:
		// below a validated NXDOMAIN cut: only the cut's own proof records
		own := map[string]bool{}
		for _, rr := range nxAuthority(nxCutOf(q.Name)) {
			own[rrKeyNoTTL(rr)] = true
		}
		bad := ""
		for _, rr := range m.Ns {
			if !own[rrKeyNoTTL(rr)] {
				bad = rr.String()
				break
			}
		}
		if bad != "" {
			ep.violate("content/foreign-records/"+ep.tr, "authority section of a reply below the cut "+nxCutOf(q.Name)+" holds a record that is not part of that cut's proof: "+bad, raw, q, fmt.Sprint(m.Ns))
		} else {
			ep.counters["nxcut_authority_verified_"+ep.tr]++
		}
	default:
		ep.violate("content/foreign-records/"+ep.tr, fmt.Sprintf("authority section holds %d records nobody generated for this question", len(m.Ns)), raw, q, fmt.Sprint(m.Ns))
	}
	opts := 0
	for _, rr := range m.Extra {
		opt, ok := rr.(*dns.OPT)
		if !ok {
			ep.violate("content/foreign-records/"+ep.tr, "additional section holds a record nobody generated for this question: "+rr.String(), raw, q, "")
			continue
		}
		if opts++; opts > 1 {
			ep.violate("content/foreign-records/"+ep.tr, "additional section holds a second OPT record", raw, q, "")
			continue
		}
		for _, o := range opt.Option {
			switch v := o.(type) {
			case *dns.EDNS0_EDE:
				if !strings.HasPrefix(v.ExtraText, edeMarker) {
					break // the server's own EDE (cached failure, …): no client's bytes
				}
				code, text := edeFor(q.Name, q.Qtype, q.Qclass)
				if nk != "e" || v.ExtraText != text || v.InfoCode != code {
					ep.violate("content/foreign-ede/"+ep.tr, fmt.Sprintf("reply carries the scripted Extended DNS Error %d %q, which is not the one of this question", v.InfoCode, v.ExtraText), raw, q, "")
				} else {
					ep.counters["ede_verified_"+ep.tr]++
				}
			case *dns.EDNS0_COOKIE:
				cc := v.Cookie
				if len(cc) > 16 {
					cc = cc[:16]
				}
				if q.Cookie == "" || !strings.EqualFold(cc, q.Cookie) {
					b, _ := hex.DecodeString(cc)
					note := ""
					if n, ok := registry.cookies.Load(string(b)); ok {
						note = "the cookie was sent with nonce " + n.(string)
					}
					ep.violate("content/foreign-cookie/"+ep.tr, fmt.Sprintf("reply carries client cookie %s, this query sent %q", cc, q.Cookie), raw, q, note)
				} else {
					ep.counters["cookies_verified"]++
				}
			case *dns.EDNS0_NSID:
				if v.Nsid != hex.EncodeToString([]byte(serverNSID)) {
					ep.violate("content/foreign-nsid/"+ep.tr, "reply carries an NSID that is not the server's: "+v.Nsid, raw, q, "")
				}
			}
		}
	}
}

// header judges the header of a reply that carries a question: every bit and
// count of it must be this reply's own. A composer that builds in the slab's TX
// buffer and does not write some header field sends the previous tenant's.
func (ep *endpoint) header(raw []byte, h whdr, q *query, m *dns.Msg, nk string, want []dns.RR) {
	bad := false
	if int(h.an) != len(m.Answer) || int(h.ns) != len(m.Ns) || int(h.ar) != len(m.Extra) || h.qd != 1 {
		bad = true
		ep.violate("header/count-mismatch/"+ep.tr, fmt.Sprintf("header announces qd=%d an=%d ns=%d ar=%d, the message holds %d/%d/%d/%d", h.qd, h.an, h.ns, h.ar,
			len(m.Question), len(m.Answer), len(m.Ns), len(m.Extra)), raw, q, "")
	}
	if h.flags&flagZ != 0 {
		bad = true
		ep.violate("header/foreign-flag-z/"+ep.tr, fmt.Sprintf("reply flags %#04x: the reserved Z bit is set; no query of this workload and no scripted answer sets it", h.flags), raw, q, "")
	}
	if h.flags&flagAD != 0 && nk != "x" {
		// the only authenticated data of this workload is the validated denial
		// below an NXDOMAIN cut; every other scripted answer is AD=0
		bad = true
		ep.violate("header/foreign-flag-ad/"+ep.tr, fmt.Sprintf("reply flags %#04x (rcode %d): AD is set on a reply whose class (%s) never has authenticated data", h.flags, h.rcode(), q.Kind), raw, q, "")
	}
	if h.tc() {
		// the server truncates on UDP only, and a truncated reply is emptied
		// (question + OPT); it is a truncation only when the whole reply could
		// not fit the smallest limit a client can have (512)
		why := ""
		switch {
		case ep.tr != "udp":
			why = "TC on a transport that never truncates"
		case h.an != 0 || h.ns != 0:
			why = "TC on a reply that still carries records (truncation empties the sections)"
		case q.Kind.smallReply() || nk == "f":
			why = "TC on a reply class that is a few dozen octets long"
		default:
			full := &dns.Msg{Compress: true, Question: []dns.Question{{Name: q.Name, Qtype: q.Qtype, Qclass: q.Qclass}}, Answer: want}
			if nk == "x" {
				full.Ns = nxAuthority(nxCutOf(q.Name))
			}
			// + the largest OPT the server appends (cookie, NSID, EDE): < 160
			if n := full.Len() + 160; n < 512 {
				why = fmt.Sprintf("TC although the whole reply is at most %d octets", n)
			}
		}
		if why != "" {
			bad = true
			ep.violate("header/foreign-flag-tc/"+ep.tr, fmt.Sprintf("reply flags %#04x: %s", h.flags, why), raw, q, "")
		}
	}
	if !bad {
		ep.counters["headers_verified_"+ep.tr]++
		if nk == "f" {
			ep.counters["headers_verified_failure_"+ep.tr]++
		}
	}
}

// outstanding returns how many of qs still wait for a reply they may get.
func (ep *endpoint) unanswered(qs []*query) int {
	n := 0
	for _, q := range qs {
		if q.Kind.silent(ep.tr) {
			continue
		}
		if q.answered.Load() == 0 {
			n++
		}
	}
	return n
}

// judgeNonDNS scans a payload that is not a DNS reply (HTTP error body).
func (ep *endpoint) judgeNonDNS(raw []byte, q *query) {
	ep.mu.Lock()
	defer ep.mu.Unlock()
	ep.run.Eval(1)
	own := ""
	if q != nil {
		own = q.Nonce
	}
	ep.foreignScan(raw, own, q)
}

var _ = bytes.Equal
