package main

// Resolver phase: the FULL production chain (cache → … → resolver) against a
// scripted authoritative universe, entered through Server.ServeMsg (the entry
// DoH and DoQ use) by concurrent clients. In every batch K clients resolve K
// different names (plus a few asking the same name) below a zone cut nobody
// resolved before, while the parent's server holds its first answer behind a
// gate: the K resolutions need the same upstream lookup at the same time, so
// Resolver.groupLookup serves them from ONE wire lookup (leader + followers,
// each follower gets a private copy with its own id). Each reply is judged by
// the same provenance oracle (own id, own question, answer = f(question), no
// foreign nonce); the race detector watches the shared response objects.

import (
	"context"
	"fmt"
	"net"
	"os"
	"strings"
	"sync"
	"time"

	"github.com/miekg/dns"

	"github.com/semihalev/sdns/config"
	"github.com/semihalev/sdns/zzverif/authsim"
	"github.com/semihalev/sdns/zzverif/vlib"
	zm "github.com/semihalev/sdns/zzverif/zonemodel"
)

// capTransport is one client exchange on the decoded entry.
type capTransport struct {
	proto  string
	remote net.Addr
	local  net.Addr
	mu     sync.Mutex
	raws   [][]byte
}

func newCapTransport(proto, ip string, port int) *capTransport {
	t := &capTransport{proto: proto}
	if proto == "doq" {
		t.remote = &net.UDPAddr{IP: net.ParseIP(ip), Port: port}
		t.local = &net.UDPAddr{IP: net.IPv4(127, 0, 0, 1), Port: 853}
	} else {
		t.remote = &net.TCPAddr{IP: net.ParseIP(ip), Port: port}
		t.local = &net.TCPAddr{IP: net.IPv4(127, 0, 0, 1), Port: 443}
	}
	return t
}

func (t *capTransport) LocalAddr() net.Addr  { return t.local }
func (t *capTransport) RemoteAddr() net.Addr { return t.remote }
func (t *capTransport) Proto() string        { return t.proto }
func (t *capTransport) Close() error         { return nil }
func (t *capTransport) Write(b []byte) (int, error) {
	t.mu.Lock()
	t.raws = append(t.raws, append([]byte(nil), b...))
	t.mu.Unlock()
	return len(b), nil
}
func (t *capTransport) WriteMsg(m *dns.Msg) error {
	if t.proto == "doq" {
		m.Id = 0
	}
	b, err := m.Pack()
	if err != nil {
		return err
	}
	_, err = t.Write(b)
	return err
}

func phaseResolver(r *vlib.Run) {
	batches := r.N(60, 600)
	u := authsim.New()
	defer u.Close()
	sr, st, sz, sb := u.AddServer("root"), u.AddServer("tld"), u.AddServer("c10"), u.AddServer("leaf")
	root := u.AddZone(zm.Spec{Apex: "."}, sr)
	tld := u.AddZone(zm.Spec{Apex: "test."}, st)
	c10 := u.AddZone(zm.Spec{Apex: zoneSuffix}, sz)
	u.Delegate(root, tld, authsim.DelegOpts{})
	u.Delegate(tld, c10, authsim.DelegOpts{})
	for i := 0; i < batches; i++ {
		apex := fmt.Sprintf("b%d.n.%s", i, zoneSuffix)
		z := u.AddZone(zm.Spec{Apex: apex}, sb)
		u.Delegate(c10, z, authsim.DelegOpts{})
	}
	// the leaf server answers every "<nonce>.b<i>.n.c10.test." with f(question)
	leafAnswer := authsim.Tamper("f(question)", func(q, honest *dns.Msg) *dns.Msg {
		m := new(dns.Msg)
		m.SetReply(q)
		m.Authoritative = true
		qq := q.Question[0]
		m.Answer = answerFor(qq.Name, qq.Qtype, qq.Qclass)
		if opt := q.IsEdns0(); opt != nil {
			m.SetEdns0(1232, opt.Do())
		}
		return m
	})
	isLeafName := func(p *authsim.Packet) bool { return kindOfName(p.QName) == "n" }

	rs, err := u.NewResolverStack(func(c *config.Config) {
		c.DNSSEC = "off"
		c.RootKeys = nil
		c.NSID = serverNSID
		c.RateLimit, c.ClientRateLimit = 0, 0
		c.AccessList = []string{"0.0.0.0/0", "::0/0"}
	})
	if err != nil {
		r.Inconclusive("resolver phase: " + err.Error())
		return
	}
	defer rs.Close()

	for b := 0; b < batches; b++ {
		rng := r.RandN("resolver/batch", b)
		k := 6 + rng.IntN(10)
		type cl struct {
			ep *endpoint
			q  *query
			t  *capTransport
		}
		var cls []*cl
		spec := &clientSpec{label: fmt.Sprintf("b%d", b), tr: "doh"}
		gen := &genCtx{rng: rng, spec: spec, usedIDs: map[string]map[uint16]bool{}}
		var sharedQ *query
		for i := 0; i < k; i++ {
			proto := []string{"doh", "doq", "tcp"}[rng.IntN(3)]
			ip := fmt.Sprintf("127.%d.%d.%d", 2+rng.IntN(60), 1+rng.IntN(250), 2+rng.IntN(250))
			tr := proto
			if tr == "tcp" {
				tr = "doh" // judged as an exchange: the transport object is per query
			}
			ep := newEndpoint(r, "resolver", fmt.Sprintf("resolver/b%d#%d(%s)", b, i, proto), tr, ip)
			var q *query
			if sharedQ != nil && rng.IntN(4) == 0 {
				// the same question from another client (cache-level dedup)
				gen.asked = []*query{sharedQ}
				q = gen.genQuery(kHit)
			} else {
				q = gen.genQuery(kNormal)
				if sharedQ == nil {
					sharedQ = q
				}
			}
			cls = append(cls, &cl{ep: ep, q: q, t: newCapTransport(proto, ip, 20000+rng.IntN(20000))})
		}
		// One pair per batch asks the SAME name with different spelling and
		// different CD bits: the cache keeps CD=0 and CD=1 apart, so both
		// requests reach the resolver, whose shared lookup serves both.
		{
			base := gen.genQuery(kNormal)
			ip := fmt.Sprintf("127.%d.%d.%d", 2+rng.IntN(60), 1+rng.IntN(250), 2+rng.IntN(250))
			lower := strings.ToLower(base.Name)
			for i, name := range []string{lower, spellOther(lower)} {
				m := new(dns.Msg)
				m.SetQuestion(name, base.Qtype)
				m.Id = uint16(0x4000 + 2*b + i)
				m.CheckingDisabled = i == 1
				pkt, _ := m.Pack()
				kind := kNormal
				if i == 1 {
					kind = kHit
				}
				q := &query{Kind: kind, KindS: kind.String(), ID: m.Id, Name: name, Qtype: base.Qtype, Qclass: dns.ClassINET, Nonce: base.Nonce, pkt: pkt}
				registry.names.LoadOrStore(name, fmt.Sprintf("b%d/cd-split-%d", b, i))
				ep := newEndpoint(r, "resolver", fmt.Sprintf("resolver/b%d#cd%d", b, i), "doh", ip)
				cls = append(cls, &cl{ep: ep, q: q, t: newCapTransport("tcp", ip, 30000+i)})
			}
			r.Count("resolver_cd_split_pairs", 1)
		}

		// Two gates per batch. gA: the parent's server holds everything below
		// "n.c10.test." — the walk's "n.c10.test. <qtype>" lookups are
		// identical for all clients of the batch with that qtype. gB: the leaf
		// server holds the final answers, so same-question requests that the
		// cache did not collapse are in the resolver together.
		gA, gB := authsim.NewGate(), authsim.NewGate()
		sz.ClearScript(false)
		sz.AddRule(authsim.Rule{Name: "*.n." + zoneSuffix, Action: authsim.Honest().Gated(gA)})
		sb.ClearScript(false)
		sb.AddRule(authsim.Rule{Name: "*.n." + zoneSuffix, Match: isLeafName, Action: leafAnswer.Gated(gB)})
		from := u.Log.Len()
		var wg sync.WaitGroup
		started := make(chan struct{}, len(cls))
		for _, c := range cls {
			c := c
			wg.Add(1)
			go func() {
				defer wg.Done()
				m := new(dns.Msg)
				if err := m.Unpack(c.q.pkt); err != nil {
					started <- struct{}{}
					return
				}
				c.ep.register(c.q)
				started <- struct{}{}
				ctx, cancel := context.WithTimeout(context.Background(), 20*time.Second)
				defer cancel()
				rs.Server.ServeMsg(ctx, c.t, m)
			}()
		}
		for range cls {
			<-started
		}
		// pacing only (perturbation): what was shared is OBSERVED below from
		// the upstream packet log, never assumed from these waits
		pace := func(g *authsim.Gate) {
			deadline := time.Now().Add(400 * time.Millisecond)
			for g.Waiting() == 0 && time.Now().Before(deadline) {
				time.Sleep(time.Millisecond)
			}
			time.Sleep(time.Duration(5+rng.IntN(20)) * time.Millisecond)
			g.Release()
		}
		pace(gA)
		pace(gB)
		wg.Wait()

		// ---- judge
		for _, c := range cls {
			c.t.mu.Lock()
			raws := c.t.raws
			c.t.mu.Unlock()
			if len(raws) == 0 {
				r.Count("resolver_exchanges_without_reply", 1)
			}
			for _, raw := range raws {
				c.ep.judge(raw, c.q)
				r.Count("resolver_replies_judged", 1)
			}
			c.ep.flush()
		}
		// ---- sharing observed, per qtype: resolutions that needed the
		// "n.c10.test. <qtype>" lookup (distinct client questions of that type)
		// versus wire lookups the gated server saw for it. That server has two
		// addresses and the resolver asks both, so one lookup shows as up to
		// two packets.
		if os.Getenv("C10_DEBUG") != "" && b < 2 {
			for _, p := range u.Log.Since(from) {
				fmt.Fprintln(os.Stderr, p.String())
			}
		}
		need := map[uint16]map[string]bool{}
		for _, c := range cls {
			if need[c.q.Qtype] == nil {
				need[c.q.Qtype] = map[string]bool{}
			}
			need[c.q.Qtype][strings.ToLower(c.q.Name)] = true
		}
		seen := map[uint16]int{}
		for _, p := range u.Log.Since(from) {
			if p.Server == "c10" && strings.EqualFold(p.QName, "n."+zoneSuffix) {
				seen[p.QType]++
			}
		}
		for qt, names := range need {
			if pk := seen[qt]; pk > 0 && len(names) >= 2 && (pk+1)/2 < len(names) {
				r.Count("resolver_shared_lookups_observed", 1)
				r.Count("resolver_lookups_saved_by_sharing", len(names)-(pk+1)/2)
			}
		}
		r.Count("resolver_batches", 1)
		r.Max("resolver_batch_clients_max", int64(k))
		r.Progress("resolver batch %d", b)
	}
	r.Count("rounds_completed", 1)
}

// spellOther returns name with every letter after the nonce label in the
// other case (so it differs from the all-lower spelling in every letter).
func spellOther(lower string) string {
	b := []byte(lower)
	for i := 25; i < len(b); i++ {
		if b[i] >= 'a' && b[i] <= 'z' && i%2 == 0 {
			b[i] -= 'a' - 'A'
		}
	}
	return string(b)
}
