package main

import "github.com/semihalev/sdns/zzverif/vlib"

// phaseResolver: placeholder until the authsim phase is written.
func phaseResolver(r *vlib.Run) {
	r.Count("resolver_placeholder", 1)
}
