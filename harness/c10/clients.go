package main

// Client endpoints: own sockets on chosen 127.x.y.z sources. Every unit read
// from a socket / connection / exchange / stream is handed to endpoint.judge.
// Time is used here only for liveness (giving up on a lost datagram, retrying
// a refused connection); no verdict depends on it.

import (
	"bytes"
	"context"
	"crypto/tls"
	"encoding/base64"
	"encoding/binary"
	"fmt"
	"io"
	"net"
	"net/http"
	"net/netip"
	"sync"
	"sync/atomic"
	"time"

	"github.com/quic-go/quic-go"
)

// waitAnswered blocks until every query of batch that may be answered was
// answered, the endpoint died, or d elapsed. It reports whether all arrived.
func waitAnswered(ep *endpoint, batch []*query, d time.Duration, dead <-chan struct{}) bool {
	if ep.unanswered(batch) == 0 {
		return true
	}
	t := time.NewTimer(d)
	defer t.Stop()
	for {
		select {
		case <-ep.notify:
			if ep.unanswered(batch) == 0 {
				return true
			}
		case <-dead:
			return ep.unanswered(batch) == 0
		case <-t.C:
			return ep.unanswered(batch) == 0
		}
	}
}

func cloneScript(in []*query) []*query {
	out := make([]*query, len(in))
	for i, q := range in {
		out[i] = &query{Kind: q.Kind, KindS: q.KindS, ID: q.ID, Name: q.Name, Qtype: q.Qtype, Qclass: q.Qclass,
			Nonce: q.Nonce, Cookie: q.Cookie, Group: q.Group, pkt: q.pkt}
	}
	return out
}

// ---------------------------------------------------------------- UDP

type udpClient struct {
	env    *roundEnv
	spec   *clientSpec
	ep     *endpoint
	conn   *net.UDPConn
	server netip.AddrPort
	rdone  chan struct{}
}

func startUDP(env *roundEnv, spec *clientSpec) (*udpClient, error) {
	conn, err := net.ListenUDP("udp4", &net.UDPAddr{IP: net.ParseIP(spec.src)})
	if err != nil {
		return nil, err
	}
	c := &udpClient{env: env, spec: spec, conn: conn, server: netip.MustParseAddrPort(env.addrs.UDP), rdone: make(chan struct{})}
	c.ep = newEndpoint(env.r, env.name, fmt.Sprintf("%s/udp#%d", env.name, spec.idx), "udp", conn.LocalAddr().String())
	c.ep.opts.ClientIP = spec.src
	go c.reader()
	return c, nil
}

func (c *udpClient) reader() {
	defer close(c.rdone)
	buf := make([]byte, 65535)
	for {
		n, from, err := c.conn.ReadFromUDPAddrPort(buf)
		if err != nil {
			return
		}
		if from != c.server {
			c.ep.count("udp_datagrams_from_foreign_source", 1)
			continue
		}
		c.ep.judge(append([]byte(nil), buf[:n]...), nil)
	}
}

func (c *udpClient) run() {
	pos := 0
	giveUp := 800 * time.Millisecond
	timeouts := 0
	for _, b := range c.spec.bursts {
		batch := c.spec.script[pos : pos+b]
		pos += b
		c.env.udpSem <- struct{}{}
		for _, q := range batch {
			c.ep.register(q)
			if _, err := c.conn.WriteToUDPAddrPort(q.pkt, c.server); err != nil {
				c.ep.count("udp_send_errors", 1)
			}
			c.env.sent(q)
		}
		ok := waitAnswered(c.ep, batch, giveUp, nil)
		<-c.env.udpSem
		if !ok {
			timeouts++
			c.ep.mu.Lock()
			for _, q := range batch {
				if !q.Kind.silent("udp") && q.answered.Load() == 0 {
					q.lost = true
					c.ep.counters["udp_given_up"]++
				}
			}
			c.ep.mu.Unlock()
			if timeouts > 4 {
				giveUp = 100 * time.Millisecond
			}
		}
	}
}

// fence makes sure everything queued on the socket before now has been judged:
// a sentinel exchange whose reply is read after them (the socket is FIFO).
func (c *udpClient) fence(rngNonce string) {
	if c.spec.denied {
		return
	}
	g := &genCtx{rng: c.env.r.RandN("fence/"+c.env.name, c.spec.idx), spec: c.spec, usedIDs: map[string]map[uint16]bool{}}
	for try := 0; try < 3; try++ {
		q := g.genQuery(kNormal)
		c.ep.register(q)
		_, _ = c.conn.WriteToUDPAddrPort(q.pkt, c.server)
		if waitAnswered(c.ep, []*query{q}, 1500*time.Millisecond, nil) {
			c.ep.count("udp_fences_completed", 1)
			return
		}
	}
	c.ep.count("udp_fences_missed", 1)
}

func (c *udpClient) close() {
	_ = c.conn.Close()
	<-c.rdone
	c.ep.flush()
}

// ---------------------------------------------------------------- TCP / DoT

func dialStream(env *roundEnv, spec *clientSpec) (net.Conn, *net.TCPConn, error) {
	d := net.Dialer{LocalAddr: &net.TCPAddr{IP: net.ParseIP(spec.src)}, Timeout: 3 * time.Second}
	addr := env.addrs.TCP
	if spec.tr == "dot" {
		addr = env.addrs.DoT
	}
	raw, err := d.Dial("tcp4", addr)
	if err != nil {
		return nil, nil, err
	}
	tc := raw.(*net.TCPConn)
	if spec.mode == "slowreader" {
		_ = tc.SetReadBuffer(4096)
	}
	if spec.tr != "dot" {
		return raw, tc, nil
	}
	conn := tls.Client(raw, env.tlsConf)
	_ = conn.SetDeadline(time.Now().Add(3 * time.Second))
	if err := conn.Handshake(); err != nil {
		_ = raw.Close()
		return nil, nil, err
	}
	_ = conn.SetDeadline(time.Time{})
	return conn, tc, nil
}

type closeWriter interface{ CloseWrite() error }

// streamSession runs one connection. served reports whether the server served
// this connection at all (false: refused at the connection cap — retry).
func streamSession(env *roundEnv, spec *clientSpec, ep *endpoint, script []*query) (served bool) {
	conn, _, err := dialStream(env, spec)
	if err != nil {
		ep.count("stream_dial_errors", 1)
		return false
	}
	defer conn.Close()
	ep.src = conn.LocalAddr().String()

	var units atomic.Int64
	dead := make(chan struct{})
	startRead := make(chan struct{})
	var releaseOnce sync.Once
	release := func() { releaseOnce.Do(func() { close(startRead) }) }
	if spec.mode != "slowreader" {
		release()
	}
	go func() {
		defer close(dead)
		<-startRead
		var l [2]byte
		for {
			if _, err := io.ReadFull(conn, l[:]); err != nil {
				return
			}
			body := make([]byte, binary.BigEndian.Uint16(l[:]))
			if _, err := io.ReadFull(conn, body); err != nil {
				// a frame announced and not delivered whole before the
				// connection ended: the bytes that did arrive are still judged
				// for provenance only.
				ep.judgeNonDNS(body, nil)
				ep.count("stream_partial_final_frame", 1)
				return
			}
			units.Add(1)
			ep.judge(body, nil)
		}
	}()

	pos := 0
	split := 0
	wroteAll := true
	var all []*query
outer:
	for _, b := range spec.bursts {
		batch := script[pos : pos+b]
		pos += b
		var buf bytes.Buffer
		for _, q := range batch {
			var l [2]byte
			binary.BigEndian.PutUint16(l[:], uint16(len(q.pkt)))
			buf.Write(l[:])
			buf.Write(q.pkt)
			ep.register(q)
		}
		all = append(all, batch...)
		data := buf.Bytes()
		for len(data) > 0 {
			n := len(data)
			if split < len(spec.splitAt) && spec.splitAt[split] < n {
				n = spec.splitAt[split]
				split++
			}
			_ = conn.SetWriteDeadline(time.Now().Add(5 * time.Second))
			if _, err := conn.Write(data[:n]); err != nil {
				wroteAll = false
				break outer
			}
			data = data[n:]
		}
		for _, q := range batch {
			env.sent(q)
		}
		if spec.mode == "plain" {
			if !waitAnswered(ep, batch, 4*time.Second, dead) {
				select {
				case <-dead:
					break outer
				default:
				}
			}
		}
	}
	switch {
	case !wroteAll:
	case spec.mode == "abrupt":
		// leave with replies pending: reset the connection so the server's
		// next write on it fails
		if tc, ok := conn.(*net.TCPConn); ok {
			_ = tc.SetLinger(0)
		} else if tl, ok := conn.(*tls.Conn); ok {
			if tc, ok := tl.NetConn().(*net.TCPConn); ok {
				_ = tc.SetLinger(0)
			}
		}
	case spec.mode == "halfclose":
		if cw, ok := conn.(closeWriter); ok {
			_ = cw.CloseWrite()
		}
		select {
		case <-dead:
		case <-time.After(6 * time.Second):
			ep.count("stream_halfclose_eof_not_seen", 1)
		}
	case spec.mode == "slowreader":
		release()
		waitAnswered(ep, all, 6*time.Second, dead)
	case spec.finalShort:
		// a sub-header frame ends the session; everything staged before it
		// must still arrive first.
		_, _ = conn.Write([]byte{0, 5, 1, 2, 3, 4, 5})
		select {
		case <-dead:
			ep.count("stream_short_frame_closed_session", 1)
		case <-time.After(4 * time.Second):
		}
	}
	release()
	_ = conn.Close()
	<-dead
	need := 0
	for _, q := range all {
		if !q.Kind.silent(ep.tr) {
			need++
		}
	}
	if units.Load() == 0 && need > 0 && spec.mode != "abrupt" {
		return false
	}
	if spec.mode != "abrupt" {
		ep.count("stream_unanswered_at_close", ep.unanswered(all))
	}
	env.sessions.Add(1)
	ep.count("stream_sessions_served_"+spec.tr, 1)
	ep.count("stream_mode_"+spec.mode, 1)
	return true
}

func runStream(env *roundEnv, spec *clientSpec) {
	for attempt := 0; attempt < 40; attempt++ {
		ep := newEndpoint(env.r, env.name, fmt.Sprintf("%s/%s#%d.%d", env.name, spec.tr, spec.idx, attempt), spec.tr, spec.src)
		ep.opts.ClientIP = spec.src
		ep.qtmo = env.qtmo
		ep.onMatch = env.matched
		ok := streamSession(env, spec, ep, cloneScript(spec.script))
		ep.flush()
		if ok || spec.denied {
			return
		}
		env.r.Count("stream_sessions_refused_or_unserved", 1)
		select {
		case <-env.stop:
			return
		case <-time.After(time.Duration(5+5*(attempt%12)) * time.Millisecond):
		}
	}
	env.r.Count("stream_sessions_abandoned", 1)
}

// ---------------------------------------------------------------- DoH

func runDoH(env *roundEnv, spec *clientSpec) {
	ep := newEndpoint(env.r, env.name, fmt.Sprintf("%s/doh#%d", env.name, spec.idx), "doh", spec.src)
	ep.opts.ClientIP = spec.src
	ep.onMatch = env.matched
	defer ep.flush()
	d := &net.Dialer{LocalAddr: &net.TCPAddr{IP: net.ParseIP(spec.src)}, Timeout: 3 * time.Second}
	tr := &http.Transport{
		DialContext:       d.DialContext,
		TLSClientConfig:   env.tlsConf.Clone(),
		ForceAttemptHTTP2: true,
		MaxIdleConns:      4,
		IdleConnTimeout:   30 * time.Second,
	}
	defer tr.CloseIdleConnections()
	hc := &http.Client{Transport: tr, Timeout: 8 * time.Second}
	url := "https://" + env.addrs.DoH + "/dns-query"
	var next atomic.Int64
	var wg sync.WaitGroup
	for w := 0; w < spec.conc; w++ {
		wg.Add(1)
		go func(w int) {
			defer wg.Done()
			for {
				i := int(next.Add(1)) - 1
				if i >= len(spec.script) {
					return
				}
				q := spec.script[i]
				ep.register(q)
				var req *http.Request
				var err error
				if (i+w)%3 == 0 {
					req, err = http.NewRequest(http.MethodGet, url+"?dns="+base64.RawURLEncoding.EncodeToString(q.pkt), nil)
				} else {
					req, err = http.NewRequest(http.MethodPost, url, bytes.NewReader(q.pkt))
					if req != nil {
						req.Header.Set("Content-Type", "application/dns-message")
					}
				}
				if err != nil {
					ep.count("doh_request_errors", 1)
					continue
				}
				req.Header.Set("Accept", "application/dns-message")
				env.sent(q)
				resp, err := hc.Do(req)
				if err != nil {
					ep.count("doh_request_errors", 1)
					continue
				}
				body, err := io.ReadAll(io.LimitReader(resp.Body, 1<<17))
				_ = resp.Body.Close()
				if err != nil {
					ep.count("doh_body_errors", 1)
					ep.judgeNonDNS(body, q)
					continue
				}
				if resp.StatusCode == http.StatusOK {
					ep.judge(body, q)
				} else {
					ep.count(fmt.Sprintf("doh_status_%d", resp.StatusCode), 1)
					ep.judgeNonDNS(body, q)
				}
			}
		}(w)
	}
	wg.Wait()
}

// ---------------------------------------------------------------- DoQ

func runDoQ(env *roundEnv, spec *clientSpec) {
	ep := newEndpoint(env.r, env.name, fmt.Sprintf("%s/doq#%d", env.name, spec.idx), "doq", spec.src)
	ep.opts.ClientIP = spec.src
	ep.onMatch = env.matched
	defer ep.flush()
	pc, err := net.ListenUDP("udp4", &net.UDPAddr{IP: net.ParseIP(spec.src)})
	if err != nil {
		ep.count("doq_dial_errors", 1)
		return
	}
	defer pc.Close()
	raddr, err := net.ResolveUDPAddr("udp4", env.addrs.DoQ)
	if err != nil {
		return
	}
	tc := env.tlsConf.Clone()
	tc.NextProtos = []string{"doq"}
	ctx, cancel := context.WithTimeout(context.Background(), 8*time.Second)
	conn, err := quic.Dial(ctx, pc, raddr, tc, &quic.Config{MaxIdleTimeout: 20 * time.Second})
	cancel()
	if err != nil {
		ep.count("doq_dial_errors", 1)
		return
	}
	defer func() { _ = conn.CloseWithError(0, "") }()
	ep.src = pc.LocalAddr().String()
	var next atomic.Int64
	var wg sync.WaitGroup
	for w := 0; w < spec.conc; w++ {
		wg.Add(1)
		go func() {
			defer wg.Done()
			for {
				i := int(next.Add(1)) - 1
				if i >= len(spec.script) {
					return
				}
				if !doqExchange(env, ep, conn, spec.script[i]) {
					return
				}
			}
		}()
	}
	wg.Wait()
}

// doqExchange runs one query on a stream of its own and judges what the stream
// returns against that query. false: the connection cannot open streams any more.
func doqExchange(env *roundEnv, ep *endpoint, conn *quic.Conn, q *query) bool {
	ep.register(q)
	ctx, cancel := context.WithTimeout(context.Background(), 8*time.Second)
	defer cancel()
	st, err := conn.OpenStreamSync(ctx)
	if err != nil {
		ep.count("doq_stream_errors", 1)
		return false
	}
	if dl, ok := ctx.Deadline(); ok {
		_ = st.SetDeadline(dl)
	}
	frame := make([]byte, 2+len(q.pkt))
	binary.BigEndian.PutUint16(frame, uint16(len(q.pkt)))
	copy(frame[2:], q.pkt)
	_, werr := st.Write(frame)
	_ = st.Close()
	env.sent(q)
	if werr != nil {
		ep.count("doq_stream_errors", 1)
		return true
	}
	buf, rerr := io.ReadAll(io.LimitReader(st, 1<<17))
	if len(buf) == 0 {
		if rerr != nil {
			ep.count("doq_stream_errors", 1)
		} else {
			ep.count("doq_streams_closed_without_reply", 1)
		}
		return true
	}
	if len(buf) < 2 || int(binary.BigEndian.Uint16(buf)) != len(buf)-2 {
		if rerr != nil {
			// the stream died mid-reply: provenance only
			ep.judgeNonDNS(buf, q)
			ep.count("doq_stream_errors", 1)
			return true
		}
		ep.mu.Lock()
		ep.violate("unit/bad-frame/doq", fmt.Sprintf("stream payload of %d bytes is not one length-prefixed message", len(buf)), buf, q, "")
		ep.mu.Unlock()
		return true
	}
	ep.judge(buf[2:], q)
	return true
}
