package main

// Deterministic workload generation: every client's script (queries, packet
// bytes, burst structure, stream behaviour) is a function of
// (VERIF_SEED, round index, client index).

import (
	"crypto/sha256"
	"encoding/binary"
	"encoding/hex"
	"fmt"
	"math/rand/v2"
	"strings"

	"github.com/miekg/dns"
)

const serverNSID = "c10-nsid"

type clientSpec struct {
	idx    int
	tr     string // udp tcp dot doh doq
	src    string // source IP
	denied bool
	label  string // client label inside names
	script []*query

	bursts     []int  // how many queries go out back to back (udp / stream)
	mode       string // stream: plain halfclose slowreader; doh: get/post mix
	splitAt    []int  // stream: byte offsets (within a burst buffer) where a write is split
	conc       int    // doh/doq: concurrent exchanges
	finalShort bool   // stream: end the session with a sub-header frame
	burstMax   int    // udp: most datagrams sent back to back
	// failNonces: nonces of the round's failing names every client may ask
	// ("<nonce>.shared.f.c10.test."): the first asker's SERVFAIL is recorded by
	// the failure cache, everybody else is served from the cached failure.
	failNonces []string
	// aliasNonces: nonces of the round's alias names every client may ask
	// ("<nonce>.shared.c<h>.c10.test."), each client in a spelling of its own:
	// whoever asks first files the alias and its target in the cache, everybody
	// else's reply is put together from those cached parts.
	aliasNonces []string
}

// sharedGroup is one question asked by several clients at about the same time.
type sharedGroup struct {
	idx     int
	nonce   string
	qtype   uint16
	members int
}

func (g *sharedGroup) baseName() string {
	return fmt.Sprintf("%s.shared.g%d.%s", g.nonce, g.idx, zoneSuffix)
}

func newNonce(rng *rand.Rand) string {
	var b [12]byte
	binary.BigEndian.PutUint64(b[0:], rng.Uint64())
	binary.BigEndian.PutUint32(b[8:], rng.Uint32())
	return hex.EncodeToString(b[:])
}

// mixCase randomises the case of every letter outside the nonce label.
func mixCase(rng *rand.Rand, name string) string {
	i := strings.IndexByte(name, '.')
	if i < 0 {
		return name
	}
	b := []byte(name)
	for k := i + 1; k < len(b); k++ {
		if b[k] >= 'a' && b[k] <= 'z' && rng.IntN(3) == 0 {
			b[k] -= 'a' - 'A'
		}
	}
	return string(b)
}

var udpIDPool = []uint16{0x0000, 0x0001, 0x1234, 0xffff}

type weights [nKinds]int

var (
	wUDP = weights{kNormal: 38, kHit: 24, kShared: 6, kSlow: 6, kDecoded: 4, kLarge: 2, kPanic: 3, kDrop: 4, kBadClass: 2, kQR: 4, kShort: 2, kGarbage: 2, kBadCount: 2, kNotimp: 2, kOversize: 1,
		kSized: 7, kFail: 2, kFailHit: 9, kNX: 5, kEDE: 3, kAlias: 3, kAliasHit: 8}
	wStream = weights{kNormal: 38, kHit: 24, kShared: 6, kSlow: 5, kDecoded: 4, kLarge: 4, kPanic: 3, kDrop: 4, kBadClass: 2, kQR: 4, kGarbage: 2, kBadCount: 2, kNotimp: 2,
		kSized: 9, kFail: 2, kFailHit: 9, kNX: 5, kEDE: 3, kAlias: 3, kAliasHit: 8}
	wMsg = weights{kNormal: 48, kHit: 24, kShared: 8, kSlow: 6, kDecoded: 4, kLarge: 2, kPanic: 3, kDrop: 3, kBadClass: 2,
		kSized: 4, kFail: 1, kFailHit: 4, kNX: 3, kEDE: 3, kAlias: 2, kAliasHit: 4}
)

func (w *weights) pick(rng *rand.Rand) qkind {
	t := 0
	for _, x := range w {
		t += x
	}
	n := rng.IntN(t)
	for k, x := range w {
		if n < x {
			return qkind(k)
		}
		n -= x
	}
	return kNormal
}

func pickType(rng *rand.Rand) uint16 {
	switch n := rng.IntN(100); {
	case n < 50:
		return dns.TypeA
	case n < 85:
		return dns.TypeTXT
	}
	return dns.TypeAAAA
}

type genCtx struct {
	rng    *rand.Rand
	spec   *clientSpec
	groups []*sharedGroup
	// questions already asked by this client that can be re-asked as hits
	asked   []*query
	failed  []*query // own failing questions (re-asked as kFailHit)
	aliases []*query // own alias questions (re-asked as kAliasHit)
	// wave (kBarrier): the wave index the name carries
	wave    int
	usedIDs map[string]map[uint16]bool
	// sizedN, when > 0, is the RDATA size of the next sized question (else
	// drawn); plain makes packets without random header bits and EDNS options,
	// so the length of the reply is a known function of the question
	sizedN int
	plain  bool
	// forceEDNS (plain mode): 1 = the packet carries a bare OPT, 2 = none, 0 = drawn
	forceEDNS int
}

// sizedRange is the RDATA size range of a sized question per transport: UDP
// stays near the usual limits (both sides of 1232 and of 512), streams go far
// enough that a few replies fill the 8 KiB drain buffer.
func sizedRange(tr string) (lo, hi int) {
	switch tr {
	case "udp":
		return 100, 1300
	case "tcp", "dot":
		return 60, 3200
	}
	return 100, 2200
}

func (g *genCtx) pickID(key string) uint16 {
	used := g.usedIDs[key]
	if used == nil {
		used = map[uint16]bool{}
		g.usedIDs[key] = used
	}
	for {
		var id uint16
		if g.spec.tr == "udp" && g.rng.IntN(10) < 7 {
			id = udpIDPool[g.rng.IntN(len(udpIDPool))]
		} else if g.rng.IntN(4) == 0 {
			id = uint16(g.rng.IntN(8))
		} else {
			id = uint16(g.rng.Uint32())
		}
		if !used[id] {
			used[id] = true
			return id
		}
	}
}

// genQuery builds the next query of a script.
func (g *genCtx) genQuery(kind qkind) *query {
	rng := g.rng
	q := &query{Kind: kind, Qclass: dns.ClassINET}
	nameKind := "n"
	switch kind {
	case kSlow:
		nameKind = "s"
	case kPanic:
		nameKind = "p"
	case kDrop:
		nameKind = "d"
	case kFail:
		nameKind = "f"
	case kEDE:
		nameKind = "e"
	case kNX:
		nameKind = "x" + string(rune('a'+rng.IntN(8)))
	case kAlias:
		nameKind = fmt.Sprintf("c%d", 1+rng.IntN(2))
	case kBarrier:
		nameKind = fmt.Sprintf("b%d", g.wave)
	case kSized:
		n := g.sizedN
		if n <= 0 {
			lo, hi := sizedRange(g.spec.tr)
			n = lo + rng.IntN(hi-lo)
		}
		nameKind = fmt.Sprintf("t%d", n)
	}
	switch kind {
	case kFailHit:
		// a failing question asked before: one of this client's own, or one of
		// the round's shared failing names (whoever asks first records it)
		switch {
		case len(g.spec.failNonces) > 0 && (len(g.failed) == 0 || rng.IntN(2) == 0):
			q.Nonce = g.spec.failNonces[rng.IntN(len(g.spec.failNonces))]
			q.Qtype = []uint16{dns.TypeA, dns.TypeTXT}[rng.IntN(2)]
			q.Name = fmt.Sprintf("%s.shared.f.%s", q.Nonce, zoneSuffix)
			if rng.IntN(3) == 0 {
				q.Name = mixCase(rng, q.Name)
			}
		case len(g.failed) > 0:
			o := g.failed[rng.IntN(len(g.failed))]
			q.Nonce, q.Qtype = o.Nonce, o.Qtype
			q.Name = o.Name
			if rng.IntN(3) == 0 {
				q.Name = mixCase(rng, strings.ToLower(o.Name))
			}
		default:
			kind = kFail
			q.Kind = kFail
			nameKind = "f"
		}
	case kAliasHit:
		// an alias question asked before — by this client, or one of the round's
		// shared alias names (whoever asks first files it) — in a spelling that
		// is, most of the time, freshly drawn
		switch {
		case len(g.spec.aliasNonces) > 0 && (len(g.aliases) == 0 || rng.IntN(2) == 0):
			q.Nonce = g.spec.aliasNonces[rng.IntN(len(g.spec.aliasNonces))]
			q.Qtype = []uint16{dns.TypeA, dns.TypeTXT}[rng.IntN(2)]
			q.Name = fmt.Sprintf("%s.shared.c%d.%s", q.Nonce, 1+int(q.Nonce[0])%2, zoneSuffix)
		case len(g.aliases) > 0:
			o := g.aliases[rng.IntN(len(g.aliases))]
			q.Nonce, q.Qtype = o.Nonce, o.Qtype
			q.Name = strings.ToLower(o.Name)
		default:
			kind = kAlias
			q.Kind = kAlias
			nameKind = fmt.Sprintf("c%d", 1+rng.IntN(2))
		}
		if q.Name != "" && rng.IntN(4) != 0 {
			q.Name = mixCase(rng, q.Name)
		}
	case kHit:
		if len(g.asked) == 0 {
			kind = kNormal
			q.Kind = kNormal
		} else {
			o := g.asked[rng.IntN(len(g.asked))]
			q.Nonce, q.Qtype, q.Group = o.Nonce, o.Qtype, o.Group
			q.Name = o.Name
			if rng.IntN(3) == 0 {
				q.Name = mixCase(rng, strings.ToLower(o.Name))
			}
		}
	case kShared:
		if len(g.groups) == 0 {
			kind = kNormal
			q.Kind = kNormal
		} else {
			gr := g.groups[0]
			g.groups = g.groups[1:]
			q.Nonce, q.Qtype, q.Group = gr.nonce, gr.qtype, gr.idx+1
			q.Name = gr.baseName()
			if rng.IntN(2) == 0 {
				q.Name = mixCase(rng, q.Name)
			}
		}
	}
	if q.Nonce == "" {
		q.Nonce = newNonce(rng)
		q.Qtype = pickType(rng)
		if kind == kSized {
			q.Qtype = dns.TypeTXT
		}
		q.Name = fmt.Sprintf("%s.%s.%s.%s", q.Nonce, g.spec.label, nameKind, zoneSuffix)
		if rng.IntN(4) == 0 {
			q.Name = mixCase(rng, q.Name)
		}
		registry.addNonce(q.Nonce, fmt.Sprintf("client %s (%s from %s), %s query", g.spec.label, g.spec.tr, g.spec.src, kind))
	}
	if kind == kBadClass {
		q.Qclass = uint16(5 + rng.IntN(200))
	}
	registry.names.LoadOrStore(q.Name, g.spec.label)
	q.ID = g.pickID(fmt.Sprintf("%s|%d|%d", strings.ToLower(q.Name), q.Qtype, q.Qclass))
	g.buildPacket(q)
	switch kind {
	case kNormal, kShared, kSlow, kDecoded, kLarge, kSized, kEDE:
		g.asked = append(g.asked, q)
	case kFail:
		g.failed = append(g.failed, q)
	case kAlias:
		g.aliases = append(g.aliases, q)
	}
	q.KindS = q.Kind.String()
	return q
}

func (g *genCtx) buildPacket(q *query) {
	rng := g.rng
	m := new(dns.Msg)
	m.Id = q.ID
	m.RecursionDesired = true
	m.Question = []dns.Question{{Name: q.Name, Qtype: q.Qtype, Qclass: q.Qclass}}
	if !g.plain && rng.IntN(10) == 0 {
		m.CheckingDisabled = true
	}
	if !g.plain && rng.IntN(10) == 0 {
		m.AuthenticatedData = true
	}
	edns := rng.IntN(4) != 0 || q.Kind == kLarge
	if q.Kind == kSized && !g.plain {
		edns = rng.IntN(8) != 0 // most sized replies must be able to leave whole over UDP
	}
	if g.plain {
		edns = rng.IntN(2) == 0
		if g.forceEDNS != 0 {
			edns = g.forceEDNS == 1
		}
	}
	q.edns = edns
	if edns {
		opt := new(dns.OPT)
		opt.Hdr.Name = "."
		opt.Hdr.Rrtype = dns.TypeOPT
		opt.SetUDPSize([]uint16{1232, 4096, 512, 1232}[rng.IntN(4)])
		if rng.IntN(10) < 3 {
			opt.SetDo()
		}
		if !g.plain && rng.IntN(10) < 4 {
			s := sha256.Sum256([]byte(fmt.Sprintf("%s/%s/%d/%d", q.Nonce, g.spec.label, q.ID, rng.Uint32())))
			q.Cookie = hex.EncodeToString(s[:8])
			registry.cookies.Store(string(s[:8]), q.Nonce)
			opt.Option = append(opt.Option, &dns.EDNS0_COOKIE{Code: dns.EDNS0COOKIE, Cookie: q.Cookie})
		}
		if !g.plain && rng.IntN(10) < 2 {
			opt.Option = append(opt.Option, &dns.EDNS0_NSID{Code: dns.EDNS0NSID})
		}
		if q.Kind == kLarge {
			opt.Option = append(opt.Option, &dns.EDNS0_PADDING{Padding: make([]byte, 2100+rng.IntN(700))})
		}
		m.Extra = append(m.Extra, opt)
	}
	if q.Kind == kDecoded {
		// not eligible for the wire-born path: an extra additional record or an
		// answer record in the query (header counts stay within acceptHeader).
		rr := &dns.A{Hdr: dns.RR_Header{Name: "x." + zoneSuffix, Rrtype: dns.TypeA, Class: dns.ClassINET, Ttl: 1}, A: []byte{192, 0, 2, 1}}
		if edns && rng.IntN(2) == 0 || !edns && rng.IntN(2) == 0 {
			m.Extra = append(m.Extra, rr)
		} else {
			m.Answer = append(m.Answer, rr)
		}
	}
	pkt, err := m.Pack()
	if err != nil {
		panic("c10: pack: " + err.Error())
	}
	switch q.Kind {
	case kQR:
		pkt[2] |= 0x80
	case kNotimp:
		op := byte(2)
		if rng.IntN(2) == 0 {
			op = 5
		}
		pkt[2] = pkt[2]&^0x78 | op<<3
	case kBadCount:
		if rng.IntN(2) == 0 {
			binary.BigEndian.PutUint16(pkt[4:], 2)
		} else {
			binary.BigEndian.PutUint16(pkt[6:], 2)
		}
	case kOversize:
		pad := make([]byte, 4097+rng.IntN(1500)-len(pkt))
		for i := range pad {
			pad[i] = byte(rng.Uint32())
		}
		pkt = append(pkt, pad...)
	case kShort:
		n := 1 + rng.IntN(11)
		pkt = append([]byte(nil), pkt[:n]...)
	case kGarbage:
		hdr := append([]byte(nil), pkt[:12]...)
		binary.BigEndian.PutUint16(hdr[4:], 1)
		binary.BigEndian.PutUint16(hdr[6:], 0)
		binary.BigEndian.PutUint16(hdr[8:], 0)
		binary.BigEndian.PutUint16(hdr[10:], 0)
		var body []byte
		switch rng.IntN(4) {
		case 0: // label runs past the end
			body = append([]byte{0x3f}, []byte(q.Nonce[:10])...)
		case 1: // compression pointer to itself
			body = []byte{0xc0, 0x0c, 0, 1, 0, 1}
		case 2: // reserved label type
			body = append([]byte{0x41}, []byte(q.Nonce)...)
		default: // good name, question cut before type/class
			body = append([]byte{24}, []byte(q.Nonce)...)
			body = append(body, 3, 'c', '1', '0', 4, 't', 'e', 's', 't', 0, 0)
		}
		pkt = append(hdr, body...)
		if new(dns.Msg).Unpack(pkt) == nil {
			// must be undecodable; fall back to the variant that always is
			pkt = append(hdr, 0xc0, 0x0c, 0, 1, 0, 1)
		}
	}
	q.pkt = pkt
}

// genScript fills spec.script and the burst structure.
func genScript(rng *rand.Rand, spec *clientSpec, n int, groups []*sharedGroup) {
	g := &genCtx{rng: rng, spec: spec, groups: groups, usedIDs: map[string]map[uint16]bool{}}
	w := &wMsg
	switch spec.tr {
	case "udp":
		w = &wUDP
	case "tcp", "dot":
		w = &wStream
	}
	for i := 0; i < n; i++ {
		k := w.pick(rng)
		if spec.denied {
			q := g.genQuery(kNormal)
			q.Kind = kDenied
			q.KindS = q.Kind.String()
			spec.script = append(spec.script, q)
			continue
		}
		if k == kShared && len(g.groups) == 0 {
			k = kNormal
		}
		spec.script = append(spec.script, g.genQuery(k))
	}
	// every group assigned to this client must be asked
	for len(g.groups) > 0 && !spec.denied {
		q := g.genQuery(kShared)
		pos := rng.IntN(len(spec.script) + 1)
		spec.script = append(spec.script, nil)
		copy(spec.script[pos+1:], spec.script[pos:])
		spec.script[pos] = q
	}
	// burst structure
	left := len(spec.script)
	for left > 0 {
		b := 1
		switch spec.tr {
		case "udp":
			b = 1 + rng.IntN(spec.burstMax)
		case "tcp", "dot":
			b = 1 + rng.IntN(40)
			if rng.IntN(4) == 0 {
				b = 1
			}
		}
		if b > left {
			b = left
		}
		spec.bursts = append(spec.bursts, b)
		left -= b
	}
	switch spec.tr {
	case "tcp", "dot":
		switch rng.IntN(12) {
		case 0, 1:
			spec.mode = "halfclose"
		case 2, 3:
			spec.mode = "slowreader"
		case 4:
			spec.mode = "abrupt"
		default:
			spec.mode = "plain"
		}
		spec.finalShort = rng.IntN(8) == 0 && spec.mode == "plain"
		for i := 0; i < 6; i++ {
			spec.splitAt = append(spec.splitAt, 1+rng.IntN(400))
		}
	case "doh", "doq":
		spec.conc = 1 + rng.IntN(6)
	}
}
