// C01 — validating clients get only authenticated data; AD implies authentic.
//
// Runtime monitor: generated signed hierarchies (zonemodel) are served by
// scripted loopback authorities (authsim); the REAL sdns pipeline resolves
// client questions against them while one zone's responses are forged in a
// generated way. Every client-visible reply is compared with the zone model:
// TRUTH / SERVFAIL / OTHER, plus the AD rules. See DESIGN.md §4 C01.
package main

import (
	"encoding/json"
	"fmt"
	"math/rand/v2"
	"net"
	"os"
	"strconv"
	"strings"
	"sync"
	"sync/atomic"
	"time"

	"github.com/miekg/dns"
	"github.com/semihalev/sdns/config"
	mcache "github.com/semihalev/sdns/middleware/cache"
	"github.com/semihalev/sdns/server"
	"github.com/semihalev/sdns/zzverif/authsim"
	"github.com/semihalev/sdns/zzverif/vlib"
	zm "github.com/semihalev/sdns/zzverif/zonemodel"
)

const casesPerHier = 12

var debug = os.Getenv("C01_DEBUG") != ""

// CaseSpec is the serialisable replay case.
type CaseSpec struct {
	Seed      uint64      `json:"seed"`
	Hier      int         `json:"hier"`
	Case      int         `json:"case"` // -1 = control phase
	Pattern   string      `json:"pattern,omitempty"`
	Kind      string      `json:"kind,omitempty"`
	ZoneRole  string      `json:"zone_role,omitempty"`
	Role      string      `json:"role,omitempty"`
	Variant   string      `json:"variant,omitempty"`
	AllSrv    bool        `json:"all_servers,omitempty"`
	CDFirst   bool        `json:"cd_first,omitempty"`
	Query     *QuerySpec  `json:"query,omitempty"`
	Spec      *HierSpec   `json:"hierarchy,omitempty"`
	Phase     string      `json:"phase,omitempty"`
	ReplyText string      `json:"reply,omitempty"`
	Upstream  []string    `json:"upstream,omitempty"`
	Followups []QuerySpec `json:"followups,omitempty"`
}

type runner struct {
	r      *vlib.Run
	client string
	id     uint16
	// how the cache's wire ladder served the last wire-born question (deltas
	// of the process-global counters around the call; one question at a time)
	lastWire wireOutcome
}

// wireOutcome says which byte path of the answer cache produced a reply.
type wireOutcome struct {
	strict bool // the packet took the wire-born strict branch of the server
	chase  bool // composed by the cache-contained alias chase (serveChaseHit)
	flat   bool // byte copy of one stored entry
	cut    bool // RFC 8020 cut served from bytes
}

func main() {
	r := vlib.Start("C01", "exploration")
	r.Assume("RRSIG validity is judged against the real clock; zones are signed with windows of -48h/+30d (or deliberately expired / not yet valid)")
	r.Assume("trust-anchor loss is produced by the overlay hook VerifC01ClearTrustAnchors (the assignment AutoTA's fail-closed path makes) at a quiescent point after the start-up AutoTA run; a reply to a question that was never sent upstream during the outage is cache-served data validated while an anchor was available and is not flagged")
	r.Assume("a DS record is unusable when its digest type is not 1/2/4 or its key algorithm is not one of 5,7,8,10,13,14,15; the generator fabricates only records that are unusable beyond doubt (digest 3/7/200/255, algorithm 1/12/200/253; 16 only next to a usable record)")
	r.Assume("key material is random per run (crypto/rand); case lists, topologies, tamper choices are functions of VERIF_SEED")
	run := &runner{r: r, client: "127.0.0.1:40001"}

	if raw := r.ReplayCase(); raw != nil {
		var c CaseSpec
		if err := json.Unmarshal(raw, &c); err != nil {
			r.Fatalf("replay: %v", err)
		}
		if c.Seed != 0 {
			r.Seed = c.Seed
		}
		rep := 1
		if v, err := strconv.Atoi(os.Getenv("C01_REPEAT")); err == nil && v > 0 {
			rep = v
		}
		for i := 0; i < rep && r.Violations() == 0; i++ {
			run.hierarchy(c.Hier, c.Case)
		}
		r.Sample(map[string]any{"replayed": map[string]any{"hier": c.Hier, "case": c.Case, "kind": c.Kind, "role": c.Role, "phase": c.Phase, "query": c.Query}, "repeats": rep})
		sweep()
		r.Finish(rule)
		return
	}

	nHier := r.N(240, 3000)
	if b := os.Getenv("C01_BATCH"); b != "" {
		// child: run hierarchies lo..hi-1 sequentially
		var lo, hi int
		fmt.Sscanf(b, "%d:%d", &lo, &hi)
		for i := lo; i < hi; i++ {
			run.hierarchy(i, -2)
		}
		sweep()
		r.Finish(rule)
		return
	}

	// parent: batches in parallel child processes (one live pipeline per
	// process; each closed pipeline leaks a few parked sdns goroutines).
	workers := 8
	if v, err := strconv.Atoi(os.Getenv("C01_WORKERS")); err == nil && v > 0 {
		workers = v
	}
	per := 15
	if !r.Quick() {
		per = 50
	}
	type batch struct{ lo, hi int }
	var batches []batch
	// the directed worlds (directed.go) are part of every run; they go first so
	// that the longest of them overlap with the generated batches (the worlds
	// that enumerate variants, forgemix-*, get a child process each)
	for k := 0; k < nDirected(); {
		hi := k + 2
		if hi > nDirected() || directedFamily(directedDefs[k].name) == "forgemix" {
			hi = k + 1
		}
		batches = append(batches, batch{directedBase + k, directedBase + hi})
		k = hi
	}
	for lo := 0; lo < nHier; lo += per {
		hi := lo + per
		if hi > nHier {
			hi = nHier
		}
		batches = append(batches, batch{lo, hi})
	}
	sem := make(chan struct{}, workers)
	var wg sync.WaitGroup
	for _, b := range batches {
		wg.Add(1)
		sem <- struct{}{}
		go func(b batch) {
			defer wg.Done()
			defer func() { <-sem }()
			res := r.Child(fmt.Sprintf("batch-%d", b.lo), nil, vlib.BinPath("c01", ""), nil,
				[]string{fmt.Sprintf("C01_BATCH=%d:%d", b.lo, b.hi)}, 20*time.Minute)
			if !res.HasState {
				r.Inconclusive(fmt.Sprintf("batch %d:%d ended without state (exit %d, timed out %v, log %s)", b.lo, b.hi, res.ExitCode, res.TimedOut, res.Output))
			}
		}(b)
	}
	wg.Wait()

	r.Require("control_replies_truth", int64(nHier*8))
	r.Require("control_truth_with_ad", int64(nHier*2))
	r.Require("control_truth_insecure_no_ad", int64(nHier/6))
	r.Require("tamper_cases_observed", int64(nHier*casesPerHier/2))
	r.Require("tampered_reply_servfail", int64(nHier*2))
	r.Require("tampered_reply_truth", int64(nHier/4))
	r.Require("cached_followups_judged", int64(nHier*4))
	r.Require("cleared_replies_judged", int64(nHier*3))
	for _, k := range kinds {
		r.Require("family_observed/"+k.Name, 1)
	}
	for _, role := range []string{roleReferral, roleDS, roleDNSKEY, roleAnswer, roleNegative} {
		r.Require("role_observed/"+role, 3)
	}
	// responses whose only defect is the RRSIG window, delivered per role
	for _, k := range []string{"expired", "notyet"} {
		for role, min := range map[string]int64{roleAnswer: 6, roleNegative: 6, roleDNSKEY: 4, roleDS: 4, roleReferral: 2} {
			r.Require("window_only_delivered/"+k+"/"+role, min)
		}
	}
	r.Require("window_only_reply_servfail", 40)
	// mixed / unusable-only DS RRsets: delivered in both orders, judged
	r.Require("ds_rrset_delivered/mixed_unusable_first", 20)
	r.Require("ds_rrset_delivered/mixed_usable_first", 20)
	r.Require("ds_rrset_delivered/unusable_only", 4)
	r.Require("mixedds_control_truth_ad", 60)
	r.Require("unusable_only_ds_truth_no_ad", 10)
	r.Require("directed_cases_observed/mixedds", 30)
	r.Require("directed_reply_servfail/mixedds", 30)
	r.Require("directed_cases_observed/window", 40)
	r.Require("directed_cases_observed/regress", 8)
	// trust anchors lost in the middle of a history
	r.Require("anchor_loss/outages", 2)
	r.Require("anchor_loss/outage_replies_judged", 30)
	r.Require("anchor_loss/outage_servfail", 20)
	r.Require("anchor_loss/outage_replies/positive@warm", 6)
	r.Require("anchor_loss/outage_replies/negative@warm", 4)
	r.Require("anchor_loss/outage_replies/wildcard@warm", 2)
	r.Require("anchor_loss/outage_replies/positive@cold", 4)
	r.Require("anchor_loss/recovery_truth_ad", 4)
	// signed zone below an insecure cut, answered directly by an ancestor's server
	r.Require("island_cut/direct_answer_by_ancestor_server", 12)
	r.Require("island_cut/ds_fetched_via_insecure_parent", 12)
	// later clients through the wire-born entry; alias chains whose hops
	// differ in security composed from the caches on both entries (chase.go).
	// The minimums are about half of what the directed worlds chase-* deliver
	// on their own, at any seed.
	r.Require("wire_entry_strict_path_taken", 2000)
	r.Require("wire_served/stored_bytes", 400)
	r.Require("wire_alias_chase/served", 300)
	for mix, min := range map[string]int64{"secure": 80, "secure>insecure": 80, "insecure>secure": 60, "secure>insecure>secure": 20, "insecure>secure>insecure": 6} {
		r.Require("wire_alias_chase/served/"+mix, min)
		r.Require("decoded_alias_from_cache/served/"+mix, min/2)
	}
	r.Require("wire_alias_chase/ad_kept/secure", 60)
	r.Require("wire_alias_chase/ad_withheld/secure>insecure", 60)
	r.Require("wire_alias_chase/ad_withheld/insecure>secure", 40)
	r.Require("wire_alias_chase/served_flags/do", 100)
	r.Require("wire_alias_chase/served_flags/do+ad", 60)
	r.Require("wire_alias_chase/served_flags/ad-only", 20)
	r.Require("wire_alias_chase/served_flags/cd", 30)
	r.Require("chase_history/later_replies", 600)
	// a later hop down while the alias is first asked, then back
	r.Require("alias_hop_outage/histories", 24)
	r.Require("alias_hop_outage/alias_cached_without_target/secure>insecure", 6)
	r.Require("alias_hop_outage/alias_cached_without_target/secure", 3)
	r.Require("alias_hop_outage/wire_chase_composed_after_recovery/secure>insecure", 20)
	r.Require("alias_hop_outage/wire_chase_composed_after_recovery/secure", 10)
	r.Require("alias_hop_outage/wire_chase_composed_after_recovery/insecure>secure", 10)
	// parent-owned denial proofs next to the child's genuine SOA, sent by a
	// server that is authoritative for parent and child (denial.go; the
	// directed worlds shared-* deliver about twice these on their own)
	r.Require("directed_cases_observed/shared", 50)
	for _, rc := range []string{"nxdomain", "nodata"} {
		r.Require("parent_owned_denial_delivered/shared-server/"+rc, 20)
		for sub, min := range map[string]int64{"nsec": 10, "nsec3": 10, "unsigned": 15, "parent-signed": 5} {
			r.Require("parent_owned_denial_delivered/shared-server/"+rc+"/"+sub, min)
		}
	}
	r.Require("parent_owned_denial_delivered/mixed_with_genuine_records", 10)
	r.Require("parent_owned_denial_delivered/genuine_proof_replaced", 30)
	r.Require("parent_owned_denial_shared_server_reply_servfail", 40)
	// combined forgeries: decoy RRSIGs around a replayed / proof-less wildcard
	// signature, forged CNAMEs vouched for by a DNAME (forgemix.go)
	requireForgemix(r.Require)
	r.Finish(rule)
}

// sweep removes temp directories a closed resolver's late trust-anchor write
// may have left behind.
func sweep() {
	time.Sleep(150 * time.Millisecond)
	authsim.SweepTemp()
}

const rule = "generated hierarchies plus the fixed directed worlds of directed.go (combined forgeries of one response enumerated by shape — junk RRSIGs with other Labels / key tag listed before, after or around a genuine wildcard signature replayed at an existing name or stripped of its next-closer denial; a forged CNAME next to a DNAME owned by the zone apex or an ancestor of the signer zone, in either section, unsigned / junk-signed / signed by the ancestor —; RRSIG-window-only forgeries per response role, mixed / unusable-only DS RRsets in every order, trust anchors lost and restored mid-history, signed zone below an insecure cut answered by an ancestor server on a cold resolver, alias chains with hops of differing security asked through the decoded and the wire-born entry in both orders and after a hop outage, parent-owned denial proofs on servers shared by parent and child); distinct_nontrivial = distinct (level signing pattern, tamper kind, zone:response-role) triples whose forged response was actually sent to the resolver by a scripted server during the case; evaluations = client-visible replies judged"

func (run *runner) nextID() uint16 { run.id++; return run.id }

func (run *runner) ask(st *authsim.RStack, q QuerySpec) *dns.Msg {
	run.lastWire = wireOutcome{}
	if strings.HasPrefix(q.Entry, "wire") {
		return run.askWire(st, q)
	}
	proto := q.Proto
	if proto == "" {
		proto = "tcp"
	}
	rs := st.QueryProto(nil, proto, run.client, q.msg(run.nextID()))
	if len(rs) == 0 {
		return nil
	}
	if len(rs) > 1 {
		run.r.Count("multiple_replies", 1)
	}
	return rs[0]
}

// askWire enters through Server.ServeRaw with a strict job: the wire-born
// entry the owned UDP / TCP engines use, which lets the answer cache serve a
// hit from stored bytes (flat copy, or the composed alias chase) without ever
// decoding the request. Entry "wire" is the TCP flavour (nothing truncated);
// "wire-udp" the UDP flavour — a TC=1 reply there is followed by the TCP
// retry a real client makes, and that reply is the one judged.
func (run *runner) askWire(st *authsim.RStack, q QuerySpec) *dns.Msg {
	r := run.r
	pkt, err := q.msg(run.nextID()).Pack()
	if err != nil {
		r.Count("wire_entry_unpackable_query", 1)
		return nil
	}
	host, port, _ := net.SplitHostPort(run.client)
	pn, _ := strconv.Atoi(port)
	var remote net.Addr = &net.TCPAddr{IP: net.ParseIP(host), Port: pn}
	if q.Entry == "wire-udp" {
		remote = &net.UDPAddr{IP: net.ParseIP(host), Port: pn}
	}
	before := mcache.VerifC05WireCounters()
	job := server.VerifNewStrictJob(remote)
	st.Server.ServeRaw(job, pkt, time.Now())
	after := mcache.VerifC05WireCounters()
	r.Count("wire_entry_queries", 1)
	run.lastWire = wireOutcome{
		strict: job.VerifUsedStrict(),
		chase:  after["chase_served"] > before["chase_served"],
		flat:   after["served"] > before["served"],
		cut:    after["cut_served"] > before["cut_served"],
	}
	if run.lastWire.strict {
		r.Count("wire_entry_strict_path_taken", 1)
	}
	switch {
	case run.lastWire.chase:
		r.Count("wire_served/alias_chase_composed", 1)
	case run.lastWire.flat:
		r.Count("wire_served/stored_bytes", 1)
	case run.lastWire.cut:
		r.Count("wire_served/nxdomain_cut", 1)
	}
	if len(job.Writes) > 1 {
		r.Count("multiple_replies", 1)
	}
	if len(job.Writes) == 0 {
		return nil
	}
	m := new(dns.Msg)
	if err := m.Unpack(job.Writes[0]); err != nil {
		r.Count("wire_entry_unparsable_reply", 1)
		return nil
	}
	if m.Truncated && q.Entry == "wire-udp" {
		r.Count("wire_udp_truncated_retried_over_tcp", 1)
		tq := q
		tq.Entry = "wire"
		return run.askWire(st, tq)
	}
	return m
}

func (run *runner) newStack(w *world) *authsim.RStack {
	st, err := w.u.NewResolverStack(func(c *config.Config) {
		c.QnameMinLevel = w.spec.QMin
		if w.spec.NoAnchor {
			c.RootKeys = nil
		}
	})
	if err != nil {
		run.r.Inconclusive("stack: " + err.Error())
		return nil
	}
	return st
}

func upstreamSummary(w *world, from int) []string {
	var out []string
	for _, p := range w.u.Log.Since(from) {
		out = append(out, p.String())
		if len(out) > 60 {
			break
		}
	}
	return out
}

func (run *runner) report(j judgement, c CaseSpec, w *world, reply *dns.Msg, from int) {
	if j.Sig == "" {
		return
	}
	c.Seed = run.r.Seed
	c.Spec = w.spec
	c.Pattern = w.spec.Pattern()
	if reply != nil {
		c.ReplyText = reply.String()
	}
	c.Upstream = upstreamSummary(w, from)
	run.r.Violation(j.Sig, j.What+" [pattern "+c.Pattern+"]", c)
}

// hierarchy runs one generated hierarchy: control phase, then the tamper
// cases (onlyCase >= 0: just that one, -1: control only, -2: all).
func (run *runner) hierarchy(index, onlyCase int) {
	r := run.r
	rng := r.RandN("hier", index)
	var spec *HierSpec
	if index >= directedBase {
		spec = directedSpec(index - directedBase)
		if spec == nil {
			return
		}
	} else {
		spec = genHier(rng, index)
		decorateDSMix(r.RandN("dsmix", index), spec)
	}
	w := buildWorld(spec)
	defer w.u.Close()
	if spec.Directed != "" {
		r.Count("directed_worlds", 1)
		if strings.HasPrefix(spec.Directed, "anchor-loss") {
			run.anchorLoss(w, index, onlyCase)
			return
		}
		installDirectedScripts(w)
		if directedFamily(spec.Directed) == "island-cut" {
			run.islandCut(w, index)
			if r.Violations() > 0 && onlyCase == -1 {
				return
			}
		}
		if directedFamily(spec.Directed) == "chase" {
			run.chaseHistory(w, index)
			run.hopOutages(w, index)
			if r.Violations() > 0 && onlyCase == -1 {
				return
			}
		}
	}
	pattern := spec.Pattern()
	r.DistinctIn("patterns", pattern)
	r.Count("hierarchies", 1)

	// ---- control: untampered, every question shape -----------------------
	controlOK := map[string]bool{}
	st := run.newStack(w)
	if st == nil {
		return
	}
	w.installObserver()
	defer run.flushObserver(w)
	qs := w.queryKinds("c")
	// which entry the first client of a question uses, and whether the later
	// clients of the other entry are asked (always for alias chains that
	// cross a zone boundary): a stream of its own, so that the draws of the
	// existing phases are what they were
	erng := r.RandN("entry", index)
	for _, q := range qs {
		e := w.expect(q)
		wireFirst := erng.IntN(4) == 0
		later := erng.IntN(3) == 0 || (aliasHops(e) >= 2 && crossesZones(e))
		if wireFirst {
			q.Entry = "wire"
		}
		from := w.u.Log.Len()
		reply := run.ask(st, q)
		if q.Entry != "" {
			r.Count("control_first_reply_wire_born", 1)
		}
		j := judge(reply, judgeCtx{q: q, e: e, phase: "control"})
		r.Eval(1)
		run.report(j, CaseSpec{Hier: index, Case: -1, Query: &q, Phase: "control"}, w, reply, from)
		ok := false
		cls, _ := classify(reply, e) // data check also on insecure paths: nothing is forged yet
		switch {
		case j.Sig != "":
		case e.mustFail:
			ok = cls == clsServfail
			if ok {
				r.Count("control_servfail_on_unvalidatable_path", 1)
			}
		case cls == clsTruth:
			wantAD := e.secure && !e.res.OptOut
			if reply.AuthenticatedData == wantAD {
				ok = true
				r.Count("control_replies_truth", 1)
				switch {
				case wantAD:
					r.Count("control_truth_with_ad", 1)
				case !e.secure:
					r.Count("control_truth_insecure_no_ad", 1)
				default:
					r.Count("control_truth_optout_no_ad", 1)
				}
			} else {
				r.Count("control_ad_missing", 1)
			}
		default:
			r.Count("control_not_truth/"+cls, 1)
			r.Count("control_not_truth_kind/"+strings.SplitN(q.Kind, "-", 2)[1]+"/"+string(zoneModeOf(w, q)), 1)
		}
		if reply != nil && reply.Rcode == dns.RcodeServerFailure && q.EDNS && !hasEDE(reply) {
			r.Count("servfail_without_ede/control", 1)
		}
		controlOK[q.Kind] = ok
		if spec.Directed != "" {
			run.directedControl(w, q, e, reply, ok, from, false)
		}
		if debug {
			ad := reply != nil && reply.AuthenticatedData
			fmt.Fprintf(os.Stderr, "H%d %s control %-40s -> %s ad=%v ok=%v want=%s/%s mustFail=%v %s\n", index, pattern, q, j.Class, ad, ok, e.res.Final.Kind, e.res.Status, e.mustFail, j.Why)
		}
		// the same question asked by later clients through BOTH entries with
		// DO / AD / CD permutations while everything is still cached
		if ok && later {
			for _, fq := range entryPermutations(q, !wireFirst) {
				run.askJudge(w, st, index, fq, e, "control-entry-permutation")
				r.Count("control_entry_permutations", 1)
			}
		}
		// the same question again with other flag combinations: served from
		// the caches this history filled.
		if ok && rng.IntN(3) == 0 {
			for k := 0; k < 2; k++ {
				fq := randFlags(rng, q)
				from := w.u.Log.Len()
				fr := run.ask(st, fq)
				fj := judge(fr, judgeCtx{q: fq, e: e, phase: "control"})
				r.Eval(1)
				r.Count("control_flag_permutations", 1)
				if fr != nil && fr.AuthenticatedData {
					r.Count("control_permutation_ad", 1)
				}
				run.report(fj, CaseSpec{Hier: index, Case: -1, Query: &fq, Phase: "control-permutation"}, w, fr, from)
			}
		}
	}
	st.Close()
	// fault sequence on the generated topology too: a later hop of a
	// cross-zone alias chain is down when the alias is first asked (chase.go)
	if spec.Directed == "" && !spec.NoAnchor && erng.IntN(3) == 0 {
		for _, q := range chaseQuestions(w) {
			e := w.expect(q)
			if !controlOK[q.Kind] || !strings.HasSuffix(q.Kind, "-cname-x") || !crossesZones(e) {
				continue
			}
			run.hopOutage(w, index, q, aliasHops(e)-1, erng.IntN(2) == 0)
		}
		w.installObserver()
	}
	if onlyCase == -1 {
		return
	}
	if spec.Directed != "" {
		for _, s := range w.u.Servers() {
			s.ClearScript(true)
		}
		for ci, p := range directedPlans(w, controlOK) {
			if onlyCase >= 0 && ci != onlyCase {
				continue
			}
			run.execute(w, index, ci, p, r.RandN(fmt.Sprintf("case-%d", index), ci))
		}
		return
	}

	// ---- tamper cases ------------------------------------------------------
	perm := r.Rand("kind-order").Perm(len(kinds))
	nCases := casesPerHier
	if spec.NoAnchor {
		nCases = 3 // nothing can validate; a few forged-data cases suffice
	}
	for ci := 0; ci < nCases; ci++ {
		crng := r.RandN(fmt.Sprintf("case-%d", index), ci)
		if onlyCase >= 0 && ci != onlyCase {
			continue
		}
		run.tamperCase(w, index, ci, crng, perm, controlOK)
	}
}

func zoneModeOf(w *world, q QuerySpec) ZoneMode {
	role := strings.SplitN(q.Kind, "-", 2)[0]
	if l := w.spec.level(role); l != nil {
		return l.Mode
	}
	return "?"
}

var positiveKinds = map[string]bool{"pos": true, "wild": true, "realwild": true, "cname-in": true, "cname-x": true, "dname": true, "mx": true}
var negativeKinds = map[string]bool{"nodata": true, "wildnodata": true, "ent": true, "nx": true, "nxdeep": true}

type candidate struct {
	q        QuerySpec
	zoneRole string
	role     string
	atParent bool
}

func parentRole(zoneRole string) string {
	switch zoneRole {
	case "sub":
		return "zone"
	case "zone", "other":
		return "tld"
	case "tld":
		return "root"
	}
	return ""
}

// plan is one fully determined tamper case.
type plan struct {
	kind       *tamperKind
	cd         candidate
	allServers bool
	cdFirst    bool
	q          QuerySpec
	// variant of a kind with several shapes; fixedVariant = chosen by the plan
	// (directed worlds) rather than drawn from the case's stream
	variant      int
	fixedVariant bool
}

// candidates lists the (question, position) pairs of a world at which kind
// can be applied; only questions whose control reply was as the model says.
func candidates(w *world, kind *tamperKind, qs []QuerySpec, controlOK map[string]bool) []candidate {
	var cands []candidate
	{
		for _, q := range qs {
			if !controlOK[q.Kind] {
				continue
			}
			parts := strings.SplitN(q.Kind, "-", 2)
			zoneRole, shape := parts[0], parts[1]
			if zoneRole == "root" || w.zones[zoneRole] == nil {
				continue
			}
			c := &caseCtx{w: w, zoneRole: zoneRole, z: w.zones[zoneRole], parent: w.zones[parentRole(zoneRole)], other: w.zones["other"], qname: q.Name, qtype: q.Type}
			if c.other == c.z {
				c.other = nil
			}
			if kind.Needs != nil && !kind.Needs(c, q) {
				continue
			}
			for _, role := range kind.ZoneRoles {
				okRole := false
				switch role {
				case roleAnswer:
					okRole = positiveKinds[shape]
					if kind.Name == "nsec-drop" || kind.Name == "nsec-foreign" {
						okRole = shape == "wild"
					}
					if strings.HasPrefix(kind.Name, "forge-") {
						okRole = shape == "pos" || shape == "mx" || shape == "realwild"
					}
					if kind.AnswerShapes != nil {
						okRole = kind.AnswerShapes[shape]
					}
				case roleNegative:
					okRole = negativeKinds[shape]
				case roleDNSKEY:
					okRole = shape != "ds" && (positiveKinds[shape] || negativeKinds[shape])
				}
				if okRole {
					cands = append(cands, candidate{q: q, zoneRole: zoneRole, role: role})
				}
			}
			for _, role := range kind.ParentRoles {
				if c.parent == nil {
					continue
				}
				okRole := false
				switch role {
				case roleReferral:
					okRole = shape != "ds" && (positiveKinds[shape] || negativeKinds[shape]) && !kind.ParentTogether
				case roleDS:
					okRole = shape == "ds"
					if kind.ParentTogether {
						// every DS-bearing response of the parent is forged: any
						// question of the zone has to fail, not only the DS one
						okRole = shape == "ds" || positiveKinds[shape] || negativeKinds[shape]
					}
				}
				if okRole {
					cands = append(cands, candidate{q: q, zoneRole: zoneRole, role: role, atParent: true})
				}
			}
		}
	}
	return cands
}

func (run *runner) tamperCase(w *world, hier, ci int, rng *rand.Rand, perm []int, controlOK map[string]bool) {
	r := run.r
	salt := fmt.Sprintf("t%d", ci)
	qs := w.queryKinds(salt)
	// choose the kind by rotation so every family is exercised at any seed
	var kind *tamperKind
	var cands []candidate
	start := hier*casesPerHier + ci
	for try := 0; try < len(kinds) && len(cands) == 0; try++ {
		kind = kinds[perm[(start+try)%len(kinds)]]
		cands = candidates(w, kind, qs, controlOK)
	}
	if len(cands) == 0 {
		r.Count("cases_without_candidate", 1)
		return
	}
	p := plan{kind: kind, cd: cands[rng.IntN(len(cands))]}
	p.allServers = rng.IntN(10) < 7
	p.cdFirst = rng.IntN(4) == 0
	p.q = p.cd.q
	p.q.AD = rng.IntN(3) == 0
	if rng.IntN(6) == 0 {
		p.q.DO = false // AD-only validating client
		p.q.AD = true
	}
	run.execute(w, hier, ci, p, rng)
}

// execute runs one tamper case: script the servers, ask, judge the reply, the
// cache-served follow-ups and the reply after the forgery is withdrawn.
func (run *runner) execute(w *world, hier, ci int, p plan, rng *rand.Rand) {
	r := run.r
	kind, cd, allServers, cdFirst, q := p.kind, p.cd, p.allServers, p.cdFirst, p.q
	var ctx *caseCtx
	multi := kind.Name == "downgrade" || kind.Name == "dnskey-add-evil" || kind.ZoneTogether
	z := w.zones[cd.zoneRole]
	ctx = &caseCtx{w: w, zoneRole: cd.zoneRole, z: z, parent: w.zones[parentRole(cd.zoneRole)], other: w.zones["other"], qname: cd.q.Name, qtype: cd.q.Type}
	if ctx.other == ctx.z {
		ctx.other = nil
	}
	ctx.attacker = zm.New(zm.Spec{Apex: z.Apex(), Signed: true, Algorithm: z.Spec().Algorithm})
	cs := CaseSpec{Hier: hier, Case: ci, Kind: kind.Name, ZoneRole: cd.zoneRole, Role: cd.role, AllSrv: allServers, CDFirst: cdFirst, Query: &q}
	if kind.NVariants > 0 {
		// a stream of its own: the draws of the other phases stay what they were
		ctx.variant = p.variant
		if !p.fixedVariant {
			ctx.variant = r.RandN(fmt.Sprintf("variant-%d", hier), ci).IntN(kind.NVariants)
		}
		if kind.VariantName != nil {
			cs.Variant = kind.VariantName(ctx.variant)
		}
	}
	label := kind.Name + "@" + cd.zoneRole + ":" + cd.role
	if multi {
		label = kind.Name + "@" + cd.zoneRole + ":multi"
		cs.Role = "multi"
	}

	// ---- install the scripts ---------------------------------------------
	for _, s := range w.u.Servers() {
		s.ClearScript(true)
	}
	// sharesParent: the scripted server is authoritative for the attacked
	// zone's parent as well (no referral is crossed on the way to the zone)
	mk := func(atParent bool, roles []string, sharesParent bool) authsim.TamperFunc {
		return func(qm, honest *dns.Msg) *dns.Msg {
			role := roleOf(qm, honest)
			if !contains(roles, role) {
				return honest
			}
			if kind.Apply(ctx, qm, honest, role, atParent) {
				ctx.applied.Add(1)
				ctx.byRole[roleIdx(role)].Add(1)
				if isParentDenialKind(kind.Name) {
					nx := honest.Rcode == dns.RcodeNameError
					switch {
					case sharesParent && nx:
						ctx.pdSharedNX.Add(1)
					case sharesParent:
						ctx.pdSharedND.Add(1)
					case nx:
						ctx.pdOtherNX.Add(1)
					default:
						ctx.pdOtherND.Add(1)
					}
				}
			}
			return honest
		}
	}
	infra := func(name string) bool { return strings.HasPrefix(name, "ns1.") || strings.HasPrefix(name, "ns2.") }
	script := func(zone *zm.Zone, atParent bool, roles []string) []string {
		var names []string
		servers := w.u.ServersOf(zone.Apex())
		for i, s := range servers {
			if !allServers && i > 0 {
				break
			}
			apex, child := zone.Apex(), z.Apex()
			sharesParent := !atParent && ctx.parent != nil && s.Hosts(ctx.parent.Apex())
			s.AddRule(authsim.Rule{
				Match: func(p *authsim.Packet) bool {
					if p.Zone != apex || infra(p.QNameL) {
						return false
					}
					if atParent {
						return zm.IsSub(child, p.QNameL)
					}
					return true
				},
				Action: authsim.Tamper(label, mk(atParent, roles, sharesParent)),
			})
			names = append(names, s.Name)
		}
		return names
	}
	var scripted []string
	switch {
	case multi:
		scripted = append(scripted, script(z, false, kind.ZoneRoles)...)
		if len(kind.ParentRoles) > 0 && ctx.parent != nil {
			scripted = append(scripted, script(ctx.parent, true, kind.ParentRoles)...)
		}
	case cd.atParent && kind.ParentTogether:
		scripted = script(ctx.parent, true, kind.ParentRoles)
	case cd.atParent:
		scripted = script(ctx.parent, true, []string{cd.role})
	default:
		scripted = script(z, false, []string{cd.role})
	}
	w.installObserver() // lowest priority: sees what the unscripted servers send
	defer func() {
		for _, s := range w.u.Servers() {
			s.ClearScript(true)
		}
	}()

	st := run.newStack(w)
	if st == nil {
		return
	}
	defer st.Close()
	e := w.expect(q)
	// AD is impossible only when the zone's own servers all forge the data
	// (or its keys) in a validation-breaking way: parent-side forgeries can
	// legitimately be routed around (explicit DS query).
	// A parent-side case that forges every DS-bearing response (referral and
	// DS answer) at every parent server leaves no verifiable DS either.
	adImpossible := kind.Breaks && allServers && (!cd.atParent || kind.ParentTogether)

	if cdFirst {
		cq := q
		cq.CD, cq.EDNS, cq.DO = true, true, true
		from := w.u.Log.Len()
		cr := run.ask(st, cq)
		j := judge(cr, judgeCtx{q: cq, e: e, phase: "tampered", kind: kind.Name, role: cs.Role})
		r.Eval(1)
		r.Count("cd_first_probes", 1)
		run.report(j, withPhase(cs, "cd-first", &cq), w, cr, from)
	}

	from := w.u.Log.Len()
	reply := run.ask(st, q)
	applied := ctx.applied.Load()
	j := judge(reply, judgeCtx{q: q, e: e, phase: "tampered", kind: kind.Name, role: cs.Role, adImpossible: adImpossible && applied > 0})
	r.Eval(1)
	run.report(j, withPhase(cs, "tampered", &q), w, reply, from)

	if debug {
		ad := reply != nil && reply.AuthenticatedData
		fmt.Fprintf(os.Stderr, "H%d case %d %s all=%v cdfirst=%v %-40s -> %s ad=%v applied=%d %s\n", hier, ci, label, allServers, cdFirst, q, j.Class, ad, applied, j.Why)
	}
	observed := false
	if applied > 0 {
		for _, p := range w.u.Log.Since(from) {
			if p.Action == label && strings.HasPrefix(p.Outcome, "answered") {
				observed = true
				break
			}
		}
	}
	if !observed {
		r.Count("tamper_cases_not_reached", 1)
		r.Count("not_reached/"+kind.Name, 1)
	} else {
		r.Count("tamper_cases_observed", 1)
		r.Count("family_observed/"+kind.Name, 1)
		if strings.HasPrefix(kind.Name, "window-") {
			// responses whose ONLY defect is the RRSIG validity window, by
			// the role of the response that carried them
			for _, role := range []string{roleReferral, roleDS, roleDNSKEY, roleAnswer, roleNegative} {
				if ctx.window[roleIdx(role)].Load() > 0 {
					r.Count("window_only_delivered/"+strings.TrimPrefix(kind.Name, "window-")+"/"+role, 1)
				}
			}
			if j.Class == clsServfail {
				r.Count("window_only_reply_servfail", 1)
			}
		}
		if isParentDenialKind(kind.Name) {
			// where and in which shape the parent-owned proofs were delivered
			fam := "nsec"
			if strings.Contains(kind.Name, "nsec3") {
				fam = "nsec3"
			}
			for _, x := range []struct {
				n    *atomic.Int64
				name string
			}{
				{&ctx.pdSharedNX, "shared-server/nxdomain"}, {&ctx.pdSharedND, "shared-server/nodata"},
				{&ctx.pdOtherNX, "own-server/nxdomain"}, {&ctx.pdOtherND, "own-server/nodata"},
			} {
				if x.n.Load() > 0 {
					r.Count("parent_owned_denial_delivered/"+x.name, 1)
					r.Count("parent_owned_denial_delivered/"+x.name+"/"+fam, 1)
					if strings.HasSuffix(kind.Name, "-psigned") {
						r.Count("parent_owned_denial_delivered/"+x.name+"/parent-signed", 1)
					} else {
						r.Count("parent_owned_denial_delivered/"+x.name+"/unsigned", 1)
					}
				}
			}
			if ctx.pdMixed.Load() > 0 {
				r.Count("parent_owned_denial_delivered/mixed_with_genuine_records", 1)
			}
			if ctx.pdReplaced.Load() > 0 {
				r.Count("parent_owned_denial_delivered/genuine_proof_replaced", 1)
			}
			if ctx.pdSharedNX.Load()+ctx.pdSharedND.Load() > 0 && j.Class == clsServfail {
				r.Count("parent_owned_denial_shared_server_reply_servfail", 1)
			}
		}
		if w.spec.Directed != "" {
			r.Count("directed_cases_observed/"+directedFamily(w.spec.Directed), 1)
			if j.Class == clsServfail {
				r.Count("directed_reply_servfail/"+directedFamily(w.spec.Directed), 1)
			}
		}
		for _, role := range []string{roleReferral, roleDS, roleDNSKEY, roleAnswer, roleNegative} {
			if ctx.byRole[roleIdx(role)].Load() > 0 {
				r.Count("role_observed/"+role, 1)
			}
		}
		r.Distinct(w.spec.Pattern() + "|" + kind.Name + "|" + cd.zoneRole + ":" + cs.Role)
		if isForgemixKind(kind.Name) {
			// combined forgeries (forgemix.go): which shapes were delivered, what
			// the forged responses contained, and what the client got
			run.countVariant(kind, ctx.variant)
			for _, n := range ctx.takeNotes() {
				r.Count("forgemix/"+n, 1)
			}
			switch {
			case j.Class == clsServfail && kind.Breaks:
				r.Count("forgemix_reply_servfail/"+kind.Name, 1)
			case !kind.Breaks && (j.Class == clsServfail || j.Class == clsTruth):
				r.Count("forgemix_reply_truth_or_servfail/"+kind.Name, 1)
			}
			if w.spec.Directed != "" && ci%37 == 0 {
				r.Sample(map[string]any{"directed": w.spec.Directed, "kind": kind.Name, "variant": cs.Variant, "position": cd.zoneRole + ":" + cs.Role,
					"query": q.String(), "forged_response_contained": ctx.takeNotes(), "class": j.Class, "ad": reply != nil && reply.AuthenticatedData, "forged_responses": applied})
			}
			if cs.Variant != "" {
				r.Distinct(w.spec.Pattern() + "|" + kind.Name + "[" + cs.Variant + "]|" + cd.zoneRole + ":" + cs.Role)
			}
		}
		r.DistinctIn("kind_position", kind.Name+"|"+cd.zoneRole+":"+cs.Role)
		switch j.Class {
		case clsServfail:
			r.Count("tampered_reply_servfail", 1)
			if q.EDNS && !hasEDE(reply) {
				r.Count("servfail_without_ede/tampered", 1)
				r.Count("servfail_without_ede_kind/"+kind.Name+"@"+cs.Role, 1)
			}
		case clsTruth:
			r.Count("tampered_reply_truth", 1)
			if reply.AuthenticatedData {
				r.Count("tampered_reply_truth_ad", 1)
			} else if adImpossible && e.secure {
				r.Count("tampered_reply_truth_unauthenticated/"+kind.Name+"@"+cs.Role, 1)
			}
		case clsPartial:
			r.Count("tampered_reply_partial_alias_chain", 1)
		case clsOther:
			r.Count("tampered_reply_other", 1)
		case clsNoReply:
			r.Count("tampered_reply_none", 1)
		}
		if len(scripted) > 0 && e.secure && hier%7 == 0 {
			r.Sample(map[string]any{"pattern": w.spec.Pattern(), "kind": kind.Name, "position": cd.zoneRole + ":" + cs.Role, "servers": scripted,
				"query": q.String(), "class": j.Class, "ad": reply != nil && reply.AuthenticatedData, "forged_responses": applied})
		}
	}

	// ---- later replies of the same history -------------------------------
	// later clients come through either entry: a wire-born one is served from
	// the stored bytes (or the composed alias chase) of what the attack left
	frng := r.RandN(fmt.Sprintf("fentry-%d", hier), ci)
	for k := 0; k < 2; k++ {
		fq := randFlags(rng, q)
		if frng.IntN(2) == 0 {
			fq.Entry = "wire"
			r.Count("cached_followups_wire_born", 1)
		}
		cs.Followups = append(cs.Followups, fq)
		from := w.u.Log.Len()
		fr := run.ask(st, fq)
		fj := judge(fr, judgeCtx{q: fq, e: e, phase: "followup", kind: kind.Name, role: cs.Role, adImpossible: adImpossible && ctx.applied.Load() > 0})
		r.Eval(1)
		r.Count("cached_followups_judged", 1)
		if fj.Class == clsPartial {
			r.Count("followup_reply_partial_alias_chain", 1)
		}
		run.report(fj, withPhase(cs, "followup", &fq), w, fr, from)
	}
	if strings.HasPrefix(kind.Name, "inject-") && ctx.other != nil {
		vq := QuerySpec{Kind: "victim", Name: "www." + ctx.other.Apex(), Type: dns.TypeA, EDNS: true, DO: true}
		ve := w.expect(vq)
		from := w.u.Log.Len()
		vr := run.ask(st, vq)
		vj := judge(vr, judgeCtx{q: vq, e: ve, phase: "victim", kind: kind.Name, role: cs.Role})
		r.Eval(1)
		r.Count("victim_queries_judged", 1)
		run.report(vj, withPhase(cs, "victim", &vq), w, vr, from)
		if len(w.u.Log.SinkHits(from)) > 0 {
			r.Count("sink_contacted_after_inject", 1)
		}
	}
	// forgery withdrawn: whatever was cached during the attack must still
	// not reach a validating client as altered data.
	for _, s := range w.u.Servers() {
		s.ClearScript(false)
	}
	{
		cq := q
		cq.EDNS, cq.DO, cq.CD = true, true, false
		if frng.IntN(2) == 0 {
			cq.Entry = "wire"
			r.Count("cleared_replies_wire_born", 1)
		}
		from := w.u.Log.Len()
		cr := run.ask(st, cq)
		cj := judge(cr, judgeCtx{q: cq, e: e, phase: "cleared", kind: kind.Name, role: cs.Role})
		r.Eval(1)
		r.Count("cleared_replies_judged", 1)
		if cj.Class == clsTruth {
			r.Count("cleared_replies_truth", 1)
		}
		run.report(cj, withPhase(cs, "cleared", &cq), w, cr, from)
	}
}

func withPhase(c CaseSpec, phase string, q *QuerySpec) CaseSpec {
	c.Phase = phase
	c.Query = q
	return c
}
