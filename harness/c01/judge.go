package main

import (
	"fmt"

	"github.com/miekg/dns"
	zm "github.com/semihalev/sdns/zzverif/zonemodel"
)

// Reply classes.
const (
	clsTruth    = "TRUTH"
	clsServfail = "SERVFAIL"
	clsOther    = "OTHER"
	clsNoReply  = "NOREPLY"
	// clsPartial: NOERROR whose answer section is a proper, exact prefix of
	// the published alias chain (CNAME/DNAME records only): the alias is
	// authentic but its target could not be obtained. The cache's CNAME
	// chase returns this instead of SERVFAIL when the target leg fails; no
	// record in it is altered, so it is counted, not judged.
	clsPartial = "PARTIAL"
)

func partialChain(got, want []dns.RR) bool {
	if len(got) == 0 || len(got) >= len(want) {
		return false
	}
	for _, rr := range got {
		if t := rr.Header().Rrtype; t != dns.TypeCNAME && t != dns.TypeDNAME {
			return false
		}
	}
	// every record of got must be one of want's, and want minus got must
	// only lack later sets: AnswerMatches on the prefix must succeed.
	for n := len(got); n <= len(want); n++ {
		if zm.AnswerMatches(got, want[:n]) == "" {
			return true
		}
	}
	return false
}

// securePrefixOnly: the reply's answer section is an exact, proper prefix of
// the published alias chain (the target could not be obtained) and every hop
// in it is secure in the model. Every RRset of such a reply can have been
// validated, so AD on it is legitimate even though the COMPLETE chain runs
// into an insecure zone.
func securePrefixOnly(reply *dns.Msg, e expectation) bool {
	if e.mustFail {
		return false
	}
	var got []dns.RR
	hops := 0
	for _, rr := range reply.Answer {
		switch rr.Header().Rrtype {
		case dns.TypeRRSIG, dns.TypeNSEC, dns.TypeNSEC3:
			continue
		case dns.TypeCNAME:
			hops++ // one CNAME (real or DNAME-synthesised) per hop
		}
		got = append(got, rr)
	}
	if hops == 0 || !partialChain(got, e.res.Answer) || hops > len(e.res.Steps) {
		return false
	}
	for i := 0; i < hops; i++ {
		if e.res.Steps[i].Status != zm.Secure {
			return false
		}
	}
	return true
}

// expectation is what the model says about one question in one world.
type expectation struct {
	res zm.Resolution
	// mustFail: the path is bogus / lame / no trust anchor: only SERVFAIL is
	// legal for a CD=0 client.
	mustFail bool
	// secure: every hop is under an unbroken signed chain.
	secure bool
	// islandChild: some hop is answered by a SIGNED zone whose parent
	// publishes a DS for it, but an insecure cut lies further up — the
	// zone looks verifiable locally yet nothing anchors it.
	islandChild bool
}

func (w *world) expect(q QuerySpec) expectation {
	res := w.u.NS.Resolve(q.Name, q.Type)
	// Status per hop with the usable-DS rule (dsmix.go): a DS RRset with no
	// usable record is an insecure delegation, a mixed one is a secure one.
	res.Status = zm.Secure
	for i := range res.Steps {
		res.Steps[i].Status = w.stepStatus(res.Steps[i].Path)
		if res.Steps[i].Status > res.Status {
			res.Status = res.Steps[i].Status
		}
	}
	e := expectation{res: res}
	e.secure = res.Status == zm.Secure && !w.spec.NoAnchor
	e.mustFail = res.Status == zm.Bogus || res.Lame || res.Loop || w.spec.NoAnchor
	for _, st := range res.Steps {
		if st.Status != zm.Insecure || len(st.Path) < 2 {
			continue
		}
		z, p := w.u.NS.Zone(st.Path[len(st.Path)-1]), w.u.NS.Zone(st.Path[len(st.Path)-2])
		if z != nil && p != nil && z.Signed() && delegSecure(p, z.Apex()) {
			e.islandChild = true
		}
	}
	return e
}

func hasEDE(m *dns.Msg) bool {
	if opt := m.IsEdns0(); opt != nil {
		for _, o := range opt.Option {
			if o.Option() == dns.EDNS0EDE {
				return true
			}
		}
	}
	return false
}

func findEvil(m *dns.Msg) string {
	for _, rr := range m.Answer {
		if isEvil(rr) {
			return rr.String()
		}
	}
	return ""
}

// findPadding reports a forged out-of-zone record relayed outside the answer
// section ("authority" / "additional").
func findPadding(m *dns.Msg) (section, rr string) {
	for _, x := range m.Ns {
		if isEvil(x) {
			return "authority", x.String()
		}
	}
	for _, x := range m.Extra {
		if isEvil(x) || isEvilGlue(x) {
			return "additional", x.String()
		}
	}
	return "", ""
}

func isEvilGlue(rr dns.RR) bool {
	a, ok := rr.(*dns.A)
	return ok && a.A.Equal(evilGlue)
}

// classify compares a CD=0 reply with the expectation.
func classify(reply *dns.Msg, e expectation) (cls, why string) {
	if reply == nil {
		return clsNoReply, "no reply written"
	}
	if ev := findEvil(reply); ev != "" {
		return clsOther, "forged record in reply: " + ev
	}
	if reply.Rcode == dns.RcodeServerFailure {
		if len(reply.Answer) != 0 {
			return clsOther, "SERVFAIL carrying answer records"
		}
		return clsServfail, ""
	}
	if e.mustFail {
		return clsOther, fmt.Sprintf("rcode %s with %d answers on a path that cannot validate", dns.RcodeToString[reply.Rcode], len(reply.Answer))
	}
	if reply.Rcode != e.res.Rcode {
		return clsOther, fmt.Sprintf("rcode %s, publisher says %s (%s)", dns.RcodeToString[reply.Rcode], dns.RcodeToString[e.res.Rcode], e.res.Final.Kind)
	}
	var got []dns.RR
	for _, rr := range reply.Answer {
		if t := rr.Header().Rrtype; t == dns.TypeRRSIG || (t == dns.TypeNSEC && e.res.QType != dns.TypeNSEC) || t == dns.TypeNSEC3 {
			continue
		}
		got = append(got, rr)
	}
	if d := zm.AnswerMatches(got, e.res.Answer); d != "" {
		if partialChain(got, e.res.Answer) {
			return clsPartial, d
		}
		return clsOther, "answer differs from published data: " + d
	}
	return clsTruth, ""
}

// judgement is the verdict on one reply.
type judgement struct {
	Class string
	Why   string
	// Violation signature ("" = none) and sentence.
	Sig  string
	What string
}

// judgeCtx carries the facts the AD rules need.
type judgeCtx struct {
	q QuerySpec
	e expectation
	// adImpossible: every server able to answer was serving a
	// validation-breaking forgery when this reply (or the cache entry behind
	// it) was produced.
	adImpossible bool
	phase        string // control | tampered | followup | cleared | victim
	kind         string // tamper kind ("" for control)
	role         string
	// path narrows the signature of an untampered history to the serving path
	// that produced the reply (e.g. "wire-alias-chase"); "" = not narrowed.
	path string
}

func judge(reply *dns.Msg, c judgeCtx) judgement {
	var j judgement
	if reply == nil {
		j.Class = clsNoReply
		return j
	}
	eligible := (c.q.DO || c.q.AD) && !c.q.CD
	tag := c.phase
	if c.path != "" {
		tag += "/" + c.path
	}
	if c.kind != "" {
		// one root cause, one signature: the phases of a forged history
		// (first reply, cache-served follow-ups, after withdrawal) share it
		tag = c.kind + "@" + c.role
	}
	if c.q.CD {
		// validation was waived by the client: only the AD rule applies
		j.Class = "CD"
		if reply.AuthenticatedData {
			j.Sig = "ad/set-toward-cd-client/" + tag
			j.What = fmt.Sprintf("AD=1 in the reply to a CD=1 query %s", c.q)
		}
		return j
	}
	if !c.e.secure && !c.e.mustFail {
		// Not under an unbroken signed chain: the statement promises nothing
		// about the data; only that it is never presented as authenticated.
		j.Class = "INSECURE"
		if reply.AuthenticatedData && !securePrefixOnly(reply, c.e) {
			j.Sig = "ad/set-on-insecure-path/" + tag
			if c.e.islandChild && c.kind != "forge-nx-parent-nsec" {
				// one root cause whatever else the case did (FINDINGS.md #3)
				j.Sig = "ad/set-on-insecure-path/signed-zone-below-insecure-cut"
			}
			j.What = fmt.Sprintf("AD=1 although the model says the path is %s: %s", c.e.res.Status, c.q)
		}
		return j
	}
	if c.e.res.OptOut && c.phase != "control" {
		// The name is only covered by an NSEC3 opt-out span: RFC 5155 §12.2 —
		// anything may be forged there as an insecure delegation, and every
		// validator accepts it as insecure. Only the AD rule applies.
		j.Class = "OPTOUT-SPAN"
		if reply.AuthenticatedData {
			j.Sig = "ad/set-on-optout-proof/" + tag
			j.What = fmt.Sprintf("AD=1 although the name is only covered by an opt-out span: %s", c.q)
		}
		return j
	}
	j.Class, j.Why = classify(reply, c.e)
	if sec, rr := findPadding(reply); sec != "" && j.Class != clsOther {
		// The statement: a response padded with foreign records yields
		// SERVFAIL; AD only when every RRset of the reply was validated.
		// Dropping the padding is accepted (TRUTH); relaying it is not.
		j.Sig = "padding/foreign-rrset-relayed-in-" + sec + "/" + c.role
		j.What = fmt.Sprintf("%s (%s phase, %s): unvalidated out-of-zone record from the forged upstream response reached the client (AD=%v): %s",
			c.q, c.phase, c.kind, reply.AuthenticatedData, rr)
		return j
	}
	switch {
	case j.Class == clsOther:
		j.Sig = "data/" + otherShape(reply, c.e) + "/" + tag
		j.What = fmt.Sprintf("%s (%s phase): %s", c.q, c.phase, j.Why)
	case reply.AuthenticatedData && !eligible:
		j.Sig = "ad/set-toward-ineligible-client/" + tag
		j.What = fmt.Sprintf("AD=1 although the client set neither DO nor AD: %s", c.q)
	case reply.AuthenticatedData && j.Class != clsTruth && j.Class != clsPartial:
		j.Sig = "ad/set-on-" + j.Class + "/" + tag
		j.What = fmt.Sprintf("AD=1 on a %s reply: %s", j.Class, c.q)
	case reply.AuthenticatedData && !c.e.secure:
		j.Sig = "ad/set-on-insecure-path/" + tag
		j.What = fmt.Sprintf("AD=1 although the model says the path is %s: %s", c.e.res.Status, c.q)
	case reply.AuthenticatedData && c.e.res.OptOut:
		j.Sig = "ad/set-on-optout-proof/" + tag
		j.What = fmt.Sprintf("AD=1 although the proof rests on an opt-out span: %s", c.q)
	case reply.AuthenticatedData && c.adImpossible:
		j.Sig = "ad/set-though-unverifiable/" + tag
		j.What = fmt.Sprintf("AD=1 although every server of the zone served a validation-breaking forgery (%s at %s): %s", c.kind, c.role, c.q)
	case j.Class == clsTruth && c.adImpossible:
		// The statement: unsigned / mis-signed / expired / proof-less
		// responses yield SERVFAIL. No server could deliver a verifiable
		// response, so handing out the (coincidentally correct) data means
		// the zone was silently treated as insecure.
		j.Sig = "downgrade/unverifiable-response-served-without-ad/" + tag
		j.What = fmt.Sprintf("%s (%s phase): every server of the signed zone served a validation-breaking forgery (%s at %s) and the client still got the data (AD=0) instead of SERVFAIL", c.q, c.phase, c.kind, c.role)
	case j.Class == clsServfail && c.q.EDNS && !hasEDE(reply):
		j.Sig = "servfail/without-ede/" + c.phase
		j.What = fmt.Sprintf("SERVFAIL without an Extended DNS Error toward an EDNS client: %s", c.q)
	}
	return j
}

// otherShape gives OTHER violations a narrow, stable signature component.
func otherShape(reply *dns.Msg, e expectation) string {
	switch {
	case findEvil(reply) != "":
		return "forged-record-served"
	case e.mustFail:
		return "unvalidatable-path-answered"
	case reply.Rcode == dns.RcodeNameError && e.res.Rcode != dns.RcodeNameError:
		return "nxdomain-for-existing-name"
	case reply.Rcode == dns.RcodeSuccess && e.res.Rcode == dns.RcodeNameError:
		return "noerror-for-nonexistent-name"
	case reply.Rcode == dns.RcodeSuccess && len(reply.Answer) == 0 && len(e.res.Answer) > 0:
		return "nodata-for-existing-rrset"
	case reply.Rcode != e.res.Rcode:
		return "rcode-" + dns.RcodeToString[reply.Rcode]
	default:
		return "answer-differs"
	}
}
